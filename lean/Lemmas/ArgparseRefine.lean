/-
The extended parser agrees with the parser of the fragment (Cli/Dispatch.lean) on the fragment:
`parseX s argv = liftE (parseArgs s argv)` for every command line `inFragment s argv` of a sub-command with standard
options (`parseX_refines`).  Hence every theorem about `parseArgs` / `dispatch` on the fragment is a theorem about the
extended interpreter.
-/
import CnfgenModel.Cli.Argparse
import CnfgenModel.Cli.DispatchChecks
import Lemmas.DispatchTotal
import Lemmas.DispatchNumeric
import Lemmas.ArgparseTotal
namespace Cnfgen.Cli.AP
open Cnfgen.Gen Cnfgen.Cli

/-! ### tokens of the fragment are classified alike -/

theorem mem_takeWhile_p {α : Type} (p : α → Bool) : ∀ (l : List α) (c : α), c ∈ l.takeWhile p → p c = true := by
  intro l
  induction l with
  | nil => intro c h; simp at h
  | cons a l ih =>
    intro c h
    rw [List.takeWhile_cons] at h
    split at h
    · rcases List.mem_cons.1 h with rfl | h
      · assumption
      · exact ih c h
    · simp at h

/-- the characters after the `-` of a negative-number-like token are digits and dots, and there is one -/
theorem isNegNumber_chars (t : String) (h : isNegNumber t = true) :
    ∃ rest, t.toList = '-' :: rest ∧ rest ≠ [] ∧ ∀ c ∈ rest, c.isDigit = true ∨ c = '.' := by
  unfold isNegNumber at h
  split at h
  · rename_i rest heq
    refine ⟨rest, heq, ?_, ?_⟩
    · intro hr
      subst hr
      simp at h
    · intro c hc
      have hsplit := List.takeWhile_append_dropWhile (p := Char.isDigit) (l := rest)
      rw [← hsplit] at hc
      rcases List.mem_append.1 hc with hc | hc
      · exact Or.inl (mem_takeWhile_p _ _ _ hc)
      · dsimp only at h
        split at h
        · rename_i hd; rw [hd] at hc; simp at hc
        · rename_i frac hd
          rw [hd] at hc
          rcases List.mem_cons.1 hc with rfl | hc
          · exact Or.inr rfl
          · simp only [Bool.and_eq_true, List.all_eq_true] at h
            exact Or.inl (h.2 c hc)
        · simp at h
  · simp at h

/-- every option string starts with `-` followed by a character that is neither a digit nor a dot -/
def noDigitStrings (strs : List (String × Target)) : Bool :=
  strs.all (fun x => match x.1.toList with | '-' :: c :: _ => !(c.isDigit || c == '.') | _ => false)

theorem splitEq_none (cs : List Char) (h : '=' ∉ cs) : splitEq cs = none := by
  induction cs with
  | nil => rfl
  | cons c cs ih =>
    have hc : c ≠ '=' := fun e => h (by simp [e])
    have := ih (fun e => h (by simp [e]))
    simp [splitEq, hc, this]

theorem optionTuples_neg (strs : List (String × Target)) (hnd : noDigitStrings strs = true) (c : Char)
    (rest : List Char) (hc : c.isDigit = true ∨ c = '.') : optionTuples strs ('-' :: c :: rest) = [] := by
  have hcd : (c == '-') = false := by
    rcases hc with h | h
    · simp only [beq_eq_false_iff_ne, ne_eq]; intro e; subst e; simp at h
    · subst h; decide
  simp only [optionTuples, hcd, Bool.false_eq_true, if_false, List.filterMap_eq_nil_iff]
  intro x hx
  have hx' := (List.all_eq_true.1 hnd) x hx
  split at hx'
  · rename_i c' r' hxl
    have hne : c' ≠ c := by
      intro e; subst e
      rcases hc with h | h
      · simp [h] at hx'
      · subst h; simp at hx'
    rw [hxl]
    have h1 : (('-' :: c' :: r') == List.take 2 ('-' :: c :: rest)) = false := by
      simp only [List.take_succ_cons, List.take_zero, beq_eq_false_iff_ne, ne_eq, List.cons.injEq, true_and,
        not_and]
      intro e; exact absurd e hne
    have h2 : List.isPrefixOf ('-' :: c :: rest) ('-' :: c' :: r') = false := by
      simp only [List.isPrefixOf, beq_self_eq_true, Bool.true_and, Bool.and_eq_false_imp, beq_iff_eq]
      intro e; exact absurd e.symm hne
    simp [h2]
    intro e; exact absurd e hne
  · simp at hx'

/-- a token of the fragment that is an ARGUMENT there is an argument for the extended parser -/
theorem classifyTok_arg (strs : List (String × Target)) (hnd : noDigitStrings strs = true)
    (hneg : hasNegOpts strs = false) (t : String) (hl : lookupOS strs t = none) (hd : dashLike t = false) :
    classifyTok strs t = .arg t := by
  unfold classifyTok
  split
  · rfl
  · rename_i c rest heq
    split
    · rfl
    · rename_i hc
      have hc' : c = '-' := by simpa using hc
      subst hc'
      rw [hl]
      dsimp only
      split
      · rfl
      · rename_i hre
        -- the token looks like a negative number
        have hnn : isNegNumber t = true := by
          unfold dashLike at hd
          rw [heq] at hd
          cases rest with
          | nil => simp at hre
          | cons r rs => simpa using hd
        obtain ⟨rest', h1, h2, h3⟩ := isNegNumber_chars t hnn
        rw [heq] at h1
        simp at h1
        subst h1
        have hnoeq : '=' ∉ ('-' :: rest) := by
          intro hm
          rcases List.mem_cons.1 hm with hm | hm
          · exact absurd hm (by decide)
          · rcases h3 _ hm with h | h
            · simp at h
            · exact absurd h (by decide)
        rw [splitEq_none _ hnoeq]
        dsimp only
        cases rest with
        | nil => exact absurd rfl h2
        | cons c2 rs =>
          rw [optionTuples_neg strs hnd c2 rs (h3 c2 (by simp))]
          simp [hnn, hneg]

theorem find?_flags_some (o : OptSpec) (t : String) : ∀ (fs : List String), t ∈ fs →
    ((fs.map (fun f => (f, Target.opt o))).find? (fun x => x.1 == t)) = some (t, Target.opt o) := by
  intro fs
  induction fs with
  | nil => intro h; simp at h
  | cons f fs ih =>
    intro hm
    by_cases hf : f = t
    · subst hf; simp
    · have : t ∈ fs := by
        rcases List.mem_cons.1 hm with h | h
        · exact absurd h.symm hf
        · exact h
      have hb : (f == t) = false := by simpa using hf
      simp only [List.map_cons, List.find?_cons, hb]
      exact ih this

theorem find?_flags_none (o : OptSpec) (t : String) (fs : List String) (h : t ∉ fs) :
    ((fs.map (fun f => (f, Target.opt o))).find? (fun x => x.1 == t)) = none := by
  simp only [List.find?_eq_none, List.mem_map]
  intro x ⟨f, hf, hx⟩
  subst hx
  simp only [beq_iff_eq]
  intro e; subst e
  exact h hf

/-- `lookupOS` over the option strings of a list of options finds the first option that has the string -/
theorem lookupOS_optStrings (opts : List OptSpec) (t : String) (h1 : t ≠ "-h") (h2 : t ≠ "--help") :
    lookupOS (optStrings opts) t = (opts.find? (fun o => o.flags.contains t)).map Target.opt := by
  unfold lookupOS optStrings
  have h1' : ("-h" == t) = false := by simpa using fun e => h1 e.symm
  have h2' : ("--help" == t) = false := by simpa using fun e => h2 e.symm
  simp only [List.cons_append, List.nil_append, List.find?_cons, h1', h2']
  induction opts with
  | nil => simp
  | cons o os ih =>
    simp only [List.flatMap_cons, List.find?_append, List.find?_cons]
    by_cases hc : t ∈ o.flags
    · have hcb : o.flags.contains t = true := by simpa using hc
      rw [find?_flags_some o t o.flags hc, hcb]
      simp
    · have hcb : o.flags.contains t = false := by simpa using hc
      rw [find?_flags_none o t o.flags hc, hcb]
      simp only [Option.none_or]
      exact ih

/-! ### the option tables for which the two parsers are compared -/

/-- what the comparison needs of the option table of a sub-command: no option string looks like a number or is
`-h` / `--help` / `--`, none is negative-number-like -/
def fragOK (s : CliSpec) : Bool :=
  noDigitStrings (mainSpec s).strings && !hasNegOpts (mainSpec s).strings &&
  s.opts.all (fun o => !o.flags.contains "-h" && !o.flags.contains "--help" && !o.flags.contains "--")

theorem fragOK_parts (s : CliSpec) (h : fragOK s = true) :
    noDigitStrings (mainSpec s).strings = true ∧ hasNegOpts (mainSpec s).strings = false ∧
    ∀ o ∈ s.opts, ∀ t ∈ o.flags, t ≠ "-h" ∧ t ≠ "--help" ∧ t ≠ "--" := by
  unfold fragOK at h
  simp only [Bool.and_eq_true, Bool.not_eq_true', List.all_eq_true] at h
  refine ⟨h.1.1, h.1.2, ?_⟩
  intro o ho t ht
  have := h.2 o ho
  simp only [List.contains_eq_mem, decide_eq_false_iff_not] at this
  refine ⟨?_, ?_, ?_⟩ <;> (intro e; subst e)
  · exact this.1.1 ht
  · exact this.1.2 ht
  · exact this.2 ht

theorem mainSpec_opts_std (s : CliSpec) (hstd : s.standard = true) :
    (mainSpec s).opts = s.opts.filter (fun o => !o.positional) := by
  unfold mainSpec
  rw [dtot_std_main s hstd]

/-- `lookupOS` of the main parser is `optOf` -/
theorem lookupOS_main (s : CliSpec) (hstd : s.standard = true) (t : String) (h1 : t ≠ "-h") (h2 : t ≠ "--help") :
    lookupOS (mainSpec s).strings t = (optOf s t).map Target.opt := by
  unfold PSpec.strings
  rw [lookupOS_optStrings _ t h1 h2, mainSpec_opts_std s hstd, List.find?_filter]
  unfold optOf
  congr 2
  funext a
  simp [Bool.and_comm]

theorem dashLike_help : dashLike "-h" = true ∧ dashLike "--help" = true ∧ dashLike "--" = true := by decide

/-- an option token of the fragment is the same option for the extended parser -/
theorem classifyTok_of_opt (s : CliSpec) (hstd : s.standard = true) (hok : fragOK s = true) (t : String)
    (o : OptSpec) (h : classify s t = .opt o) : classifyTok (mainSpec s).strings t = .opt (.opt o) t none := by
  obtain ⟨hnd, _, hfl⟩ := fragOK_parts s hok
  have hopt : optOf s t = some o := by
    unfold classify at h
    split at h
    · rename_i o' ho'; simp at h; subst h; exact ho'
    · split at h <;> simp at h
  have hmem := dnum_optOf s t o hopt
  have htf : t ∈ o.flags := by
    have := List.find?_some hopt
    simp at this
    exact this.2
  obtain ⟨n1, n2, _⟩ := hfl o hmem.1 t htf
  have hl : lookupOS (mainSpec s).strings t = some (.opt o) := by rw [lookupOS_main s hstd t n1 n2, hopt]; rfl
  -- the string starts with `-`
  have hin : (t, Target.opt o) ∈ (mainSpec s).strings := by
    unfold lookupOS at hl
    cases hf : (mainSpec s).strings.find? (fun x => x.1 == t) with
    | none => simp [hf] at hl
    | some x =>
      simp [hf] at hl
      have hm := List.mem_of_find?_eq_some hf
      have hk := List.find?_some hf
      simp at hk
      have : x = (t, Target.opt o) := by cases x; simp_all
      rw [← this]; exact hm
  have hx := (List.all_eq_true.1 hnd) _ hin
  unfold classifyTok
  split at hx
  · rename_i c r htl
    simp only at htl
    rw [htl]
    simp [hl]
  · simp at hx

/-- an argument token of the fragment is an argument for the extended parser, and it is not `--` -/
theorem classifyTok_of_arg (s : CliSpec) (hstd : s.standard = true) (hok : fragOK s = true) (t : String)
    (h : classify s t = .arg) : classifyTok (mainSpec s).strings t = .arg t ∧ t ≠ "--" := by
  obtain ⟨hnd, hneg, _⟩ := fragOK_parts s hok
  have hopt : optOf s t = none ∧ dashLike t = false := by
    unfold classify at h
    split at h
    · simp at h
    · rename_i hn
      split at h
      · simp at h
      · rename_i hd; exact ⟨hn, by simpa using hd⟩
  have n1 : t ≠ "-h" := by intro e; subst e; simp [dashLike_help.1] at hopt
  have n2 : t ≠ "--help" := by intro e; subst e; simp [dashLike_help.2.1] at hopt
  have n3 : t ≠ "--" := by intro e; subst e; simp [dashLike_help.2.2] at hopt
  have hl : lookupOS (mainSpec s).strings t = none := by rw [lookupOS_main s hstd t n1 n2, hopt.1]; rfl
  exact ⟨classifyTok_arg _ hnd hneg t hl hopt.2, n3⟩

/-- the segments of the two parsers correspond -/
def SegRel : List (OptItem × Run) → List (OptSpec × List String) → Prop
  | [], [] => True
  | (oi, run) :: ss, (o, c) :: sgs => (∃ os, oi = .known (.opt o) os none) ∧ run = ⟨c, none⟩ ∧ SegRel ss sgs
  | _, _ => False

theorem segs_fragment (s : CliSpec) (hstd : s.standard = true) (hok : fragOK s = true) :
    ∀ (argv : List String), inFragment s argv = true →
      ∃ c0 sgs, segments s argv = .ok (c0, sgs) ∧
        (segs (itemize (mainSpec s).strings argv)).1 = ⟨c0, none⟩ ∧
        SegRel (segs (itemize (mainSpec s).strings argv)).2 sgs ∧
        (itemize (mainSpec s).strings argv).any Item.isAmbiguous = false ∧
        "--" ∉ c0 ∧ (∀ x ∈ sgs, "--" ∉ x.2 ∧ x.1 ∈ s.opts ∧ x.1.positional = false) := by
  intro argv
  induction argv with
  | nil => intro _; exact ⟨[], [], rfl, rfl, by simp [itemize, segs, SegRel], by simp [itemize], by simp, by simp⟩
  | cons t rest ih =>
    intro hf
    unfold inFragment at hf
    rw [List.all_cons, Bool.and_eq_true] at hf
    obtain ⟨c0, sgs, h1, h2, h3, h4, h5, h6⟩ := ih hf.2
    cases hc : classify s t with
    | arg =>
      obtain ⟨ha, hdd⟩ := classifyTok_of_arg s hstd hok t hc
      have hddb : (t == "--") = false := by simpa using hdd
      refine ⟨t :: c0, sgs, ?_, ?_, ?_, ?_, ?_, h6⟩
      · simp [segments, h1, hc]
      · simp only [itemize, hddb, Bool.false_eq_true, if_false, ha]
        rw [show segs (Item.arg t :: itemize (mainSpec s).strings rest) = _ from by unfold segs; rfl]
        cases hs : segs (itemize (mainSpec s).strings rest) with
        | mk r ss => rw [hs] at h2; simp at h2; subst h2; rfl
      · simp only [itemize, hddb, Bool.false_eq_true, if_false, ha]
        rw [show segs (Item.arg t :: itemize (mainSpec s).strings rest) = _ from by unfold segs; rfl]
        cases hs : segs (itemize (mainSpec s).strings rest) with
        | mk r ss => rw [hs] at h3; exact h3
      · simp only [itemize, hddb, Bool.false_eq_true, if_false, ha, List.any_cons, Item.isAmbiguous, h4,
          Bool.or_self]
      · intro hm
        rcases List.mem_cons.1 hm with hm | hm
        · exact hdd hm.symm
        · exact h5 hm
    | opt o =>
      have ho := classifyTok_of_opt s hstd hok t o hc
      have hmem := dtot_classify_opt s t o hc
      have hdd : t ≠ "--" := by
        intro e; subst e
        have hopt : optOf s "--" = some o := by
          unfold classify at hc
          split at hc
          · rename_i o' ho'; simp at hc; subst hc; exact ho'
          · split at hc <;> simp at hc
        have htf : "--" ∈ o.flags := by
          have := List.find?_some hopt
          simp at this
          exact this.2
        exact (fragOK_parts s hok).2.2 o hmem.1 "--" htf |>.2.2 rfl
      have hddb : (t == "--") = false := by simpa using hdd
      refine ⟨[], (o, c0) :: sgs, ?_, ?_, ?_, ?_, by simp, ?_⟩
      · simp [segments, h1, hc]
      · simp only [itemize, hddb, Bool.false_eq_true, if_false, ho]
        rw [show segs (Item.opt (.opt o) t none :: itemize (mainSpec s).strings rest) = _ from by unfold segs; rfl]
      · simp only [itemize, hddb, Bool.false_eq_true, if_false, ho]
        rw [show segs (Item.opt (.opt o) t none :: itemize (mainSpec s).strings rest) = _ from by unfold segs; rfl]
        cases hs : segs (itemize (mainSpec s).strings rest) with
        | mk r ss =>
          rw [hs] at h2 h3
          simp at h2
          subst h2
          exact ⟨⟨t, rfl⟩, rfl, h3⟩
      · simp only [itemize, hddb, Bool.false_eq_true, if_false, ho, List.any_cons, Item.isAmbiguous, h4,
          Bool.or_self]
      · intro x hx
        rcases List.mem_cons.1 hx with rfl | hx
        · exact ⟨h5, hmem⟩
        · exact h6 x hx
    | outside => rw [hc] at hf; simp at hf

/-! ### the pattern match gives every single / `+` argument at least one string -/

/-- the counts fit the arities of (a prefix of) the positionals -/
def CountsOKp : List Arity → List Nat → Prop
  | _, [] => True
  | a :: as, c :: cs => (a = .one → c = 1) ∧ (a = .plus → 1 ≤ c) ∧ CountsOKp as cs
  | [], _ :: _ => False

theorem CountsOKp_cons (a : Arity) (as : List Arity) (c : Nat) (cs : List Nat) :
    CountsOKp (a :: as) (c :: cs) ↔ ((a = .one → c = 1) ∧ (a = .plus → 1 ≤ c) ∧ CountsOKp as cs) := by
  simp only [CountsOKp]

theorem counts_ok : ∀ (ars : List Arity) (L : Nat) (cs : List Nat), counts ars L = some cs →
    cs.sum ≤ L ∧ CountsOKp ars cs := by
  intro ars
  induction ars with
  | nil => intro L cs h; simp [counts] at h; subst h; simp [CountsOKp]
  | cons a rest ih =>
    intro L cs h
    unfold counts at h
    dsimp only at h
    cases a with
    | one =>
      dsimp only at h
      split at h
      · rename_i hle
        cases hc : counts rest (L - 1) with
        | none => simp [hc] at h
        | some cs' =>
          simp [hc] at h; subst h
          obtain ⟨h1, h2⟩ := ih (L - 1) cs' hc
          refine ⟨by simp; omega, (CountsOKp_cons _ _ _ _).2 ⟨fun _ => rfl, (fun e => nomatch e), h2⟩⟩
      · simp at h
    | plus =>
      dsimp only at h
      split at h
      · rename_i hle
        cases hc : counts rest ((rest.map minArgs).sum) with
        | none => simp [hc] at h
        | some cs' =>
          simp [hc] at h; subst h
          obtain ⟨h1, h2⟩ := ih _ cs' hc
          refine ⟨by simp; omega, (CountsOKp_cons _ _ _ _).2 ⟨(fun e => nomatch e), (fun _ => by omega), h2⟩⟩
      · simp at h
    | star =>
      dsimp only at h
      split at h
      · rename_i hle
        cases hc : counts rest ((rest.map minArgs).sum) with
        | none => simp [hc] at h
        | some cs' =>
          simp [hc] at h; subst h
          obtain ⟨h1, h2⟩ := ih _ cs' hc
          refine ⟨by simp; omega, (CountsOKp_cons _ _ _ _).2 ⟨(fun e => nomatch e), (fun e => nomatch e), h2⟩⟩
      · simp at h
    | opt =>
      dsimp only at h
      split at h
      · cases hc : counts rest (L - 1) with
        | none => simp [hc] at h
        | some cs' =>
          simp [hc] at h; subst h
          obtain ⟨h1, h2⟩ := ih (L - 1) cs' hc
          refine ⟨by simp; omega, (CountsOKp_cons _ _ _ _).2 ⟨(fun e => nomatch e), (fun e => nomatch e), h2⟩⟩
      · split at h
        · cases hc : counts rest L with
          | none => simp [hc] at h
          | some cs' =>
            simp [hc] at h; subst h
            obtain ⟨h1, h2⟩ := ih L cs' hc
            refine ⟨by simpa using h1, (CountsOKp_cons _ _ _ _).2 ⟨(fun e => nomatch e), (fun e => nomatch e), h2⟩⟩
        · simp at h
    | zero => simp at h
    | other => simp at h

theorem CountsOKp_take : ∀ (ars : List Arity) (k : Nat) (cs : List Nat), CountsOKp (ars.take k) cs →
    CountsOKp ars cs := by
  intro ars
  induction ars with
  | nil => intro k cs h; simpa using h
  | cons a rest ih =>
    intro k cs h
    cases cs with
    | nil => simp [CountsOKp]
    | cons c cs =>
      cases k with
      | zero => simp [CountsOKp] at h
      | succ k =>
        rw [List.take_succ_cons, CountsOKp_cons] at h
        exact (CountsOKp_cons _ _ _ _).2 ⟨h.1, h.2.1, ih k cs h.2.2⟩

theorem matchPartial_ok (ars : List Arity) (L : Nat) : ∀ (n : Nat),
    (matchPartial ars L n).sum ≤ L ∧ CountsOKp ars (matchPartial ars L n) := by
  intro n
  induction n with
  | zero => simp [matchPartial, CountsOKp]
  | succ i ih =>
    unfold matchPartial
    cases hc : counts (ars.take (i + 1)) L with
    | none => simpa using ih
    | some cs =>
      obtain ⟨h1, h2⟩ := counts_ok _ L cs hc
      exact ⟨h1, CountsOKp_take ars (i + 1) cs h2⟩

/-! ### the actions of standard options are the same -/

theorem typesOK_notFile : typesOK.all (fun ty => !isFileType ty) = true := by decide

theorem std_notFile (o : OptSpec) (h : o.standard = true) : isFileType o.ty = false := by
  have hmem : typesOK.contains o.ty = true := by
    unfold OptSpec.standard at h
    simp only [Bool.and_eq_true] at h
    obtain ⟨⟨⟨_, h6⟩, _⟩, _⟩ := h
    unfold typesOK
    cases har : o.arity <;> rw [har] at h6 <;> simp at h6
    · simp [h6.1]
    · have := h6.1; unfold typesOK at this; simpa using this
    · simp [h6.1]
    · have := h6.1.1
      simp only [List.contains_eq_mem, decide_eq_true_eq] at this ⊢
      exact List.mem_append_right _ this
  have := (List.all_eq_true.1 typesOK_notFile) o.ty (by simpa using hmem)
  simpa using this

/-- on the strings the fragment parser would hand to it, the action is `bindOne` -/
theorem mainBind_std (s : CliSpec) (o : OptSpec) (h : o.standard = true) (toks : List String)
    (hne : toks ≠ [] ∨ (o.arity ≠ .one ∧ o.arity ≠ .plus)) : mainBind s o toks = liftE (bindOne o toks) := by
  have hb := dnum_std_basic o h
  unfold mainBind
  simp only [hb.2.1, hb.2.2.1, Bool.false_eq_true, if_false]
  unfold bindBase
  simp only [std_notFile o h, Bool.false_eq_true, if_false]
  split
  · rename_i ha
    rcases hne with h1 | h1
    · exact absurd rfl h1
    · exact absurd ha h1.1
  · rename_i ha
    rcases hne with h1 | h1
    · exact absurd rfl h1
    · exact absurd ha h1.2
  · rfl

theorem takeAction_std (s : CliSpec) (o : OptSpec) (h : o.standard = true) (toks : List String)
    (hne : toks ≠ [] ∨ (o.arity ≠ .one ∧ o.arity ≠ .plus)) (st : PState) :
    takeAction (mainBind s) o toks st =
      match bindOne o toks with
      | .ok b => .ok { st with ns := b ++ st.ns }
      | .error e => .error (liftErr e) := by
  have hg : o.group = "" := (dnum_std_basic o h).2.2.2
  unfold takeAction
  rw [mainBind_std s o h toks hne]
  simp only [hg, bne_self_eq_false, Bool.false_and, Bool.false_eq_true, if_false]
  cases bindOne o toks with
  | ok b => simp [liftE]
  | error e => simp [liftE]

theorem PState_eta (st : PState) : { st with ns := st.ns } = st := by cases st; rfl

/-- `consume_positionals` of the two parsers: the same actions on the same strings -/
theorem applyPos_sim (s : CliSpec) : ∀ (ps : List OptSpec) (cs : List Nat) (toks : List String) (i : Nat)
    (st : PState), (∀ o ∈ ps, o.standard = true) → "--" ∉ toks → cs.sum ≤ toks.length →
    CountsOKp (ps.map OptSpec.arity) cs →
    applyPosX (mainBind s) ps (slices cs toks) i none st =
      match applyPos ps cs toks with
      | .ok b => .ok { st with ns := b ++ st.ns }
      | .error e => .error (liftErr e) := by
  intro ps
  induction ps with
  | nil =>
    intro cs toks i st _ _ _ _
    cases cs <;> simp [applyPosX, applyPos, slices]
  | cons o os ih =>
    intro cs toks i st hstd hdd hsum hok
    cases cs with
    | nil => simp [applyPosX, applyPos, slices]
    | cons c cs =>
      simp only [slices, applyPosX, applyPos]
      have hno : (none == some i) = false := by simp
      simp only [hno, Bool.false_eq_true, if_false]
      have hdd1 : "--" ∉ toks.take c := fun hm => hdd (List.mem_of_mem_take hm)
      have hdd2 : "--" ∉ toks.drop c := fun hm => hdd (List.mem_of_mem_drop hm)
      rw [List.erase_of_not_mem hdd1]
      rw [List.map_cons, CountsOKp_cons] at hok
      simp only [List.sum_cons] at hsum
      have hne : toks.take c ≠ [] ∨ (o.arity ≠ .one ∧ o.arity ≠ .plus) := by
        by_cases h1 : o.arity = .one
        · left
          have := hok.1 h1
          subst this
          cases toks with
          | nil => simp at hsum
          | cons t r => simp
        · by_cases h2 : o.arity = .plus
          · left
            have := hok.2.1 h2
            cases toks with
            | nil => simp at hsum; omega
            | cons t r =>
              cases c with
              | zero => omega
              | succ c => simp
          · right; exact ⟨h1, h2⟩
      rw [takeAction_std s o (hstd o (by simp)) _ hne st]
      cases hb : bindOne o (toks.take c) with
      | error e => rfl
      | ok b =>
        dsimp only
        have hlen : cs.sum ≤ (toks.drop c).length := by simp; omega
        rw [ih cs (toks.drop c) (i + 1) _ (fun o' ho' => hstd o' (by simp [ho'])) hdd2 hlen hok.2.2]
        cases applyPos os cs (toks.drop c) with
        | error e => rfl
        | ok more => simp [List.append_assoc]

theorem consumePosX_sim (s : CliSpec) (chunk : List String) (final : Bool) (st : PState)
    (hps : ∀ o ∈ st.ps, o.standard = true) (hdd : "--" ∉ chunk) :
    consumePosX (mainBind s) ⟨chunk, none⟩ final st =
      if chunk.isEmpty && !final then .ok st
      else
        match applyPos st.ps (matchPartial (st.ps.map OptSpec.arity) chunk.length st.ps.length) chunk with
        | .error e => .error (liftErr e)
        | .ok b =>
          .ok { st with
                ps := st.ps.drop (matchPartial (st.ps.map OptSpec.arity) chunk.length st.ps.length).length,
                ns := b ++ st.ns,
                extras := st.extras ||
                  decide ((matchPartial (st.ps.map OptSpec.arity) chunk.length st.ps.length).sum < chunk.length) } := by
  unfold consumePosX
  simp only [Option.isNone_none, Bool.and_true]
  split
  · rfl
  · obtain ⟨h1, h2⟩ := matchPartial_ok (st.ps.map OptSpec.arity) chunk.length st.ps.length
    have hddg : ddgOf (matchPartial (st.ps.map OptSpec.arity) chunk.length st.ps.length) ⟨chunk, none⟩ = none := by
      simp [ddgOf]
    rw [hddg, applyPos_sim s st.ps _ chunk 0 st hps hdd h1 h2]
    cases applyPos st.ps (matchPartial (st.ps.map OptSpec.arity) chunk.length st.ps.length) chunk with
    | error e => rfl
    | ok b => simp [leftOver, ddTaken]

/-- `consume_optional` of the two parsers -/
theorem stepOpt_sim (s : CliSpec) (strs : List (String × Target)) (o : OptSpec) (hstd : o.standard = true)
    (os : String) (chunk : List String) (hdd : "--" ∉ chunk) (st : PState) :
    stepOpt (mainBind s) strs (.known (.opt o) os none) ⟨chunk, none⟩ st =
      match consumeOpt o chunk with
      | .ok (b, chunk') => .ok ({ st with ns := b ++ st.ns }, ⟨chunk', none⟩)
      | .error e => .error (liftErr e) := by
  simp only [stepOpt, consumeOptX, chainOf]
  unfold takeArgs consumeOpt
  simp only [arityT]
  cases har : o.arity <;> dsimp only
  · -- zero
    simp only [runFlags, lastAction, List.erase_nil]
    rw [takeAction_std s o hstd [] (Or.inr (by simp [har])) st]
    cases bindOne o [] with
    | ok b => simp [Except.map]
    | error e => simp [Except.map]
  · -- one
    cases chunk with
    | nil => simp [Run.avail, liftErr]
    | cons t rest =>
      simp only [Run.avail, Run.dropFront, runFlags, lastAction]
      have hdd1 : "--" ∉ [t] := by
        intro hm; simp at hm; exact hdd (by simp [hm])
      have hne : ([t] == ["--"]) = false := by
        simp only [beq_eq_false_iff_ne, ne_eq, List.cons.injEq, and_true]
        intro e; exact hdd1 (by simp [e])
      simp only [hne, Bool.false_eq_true, if_false]
      rw [List.erase_of_not_mem hdd1, takeAction_std s o hstd [t] (Or.inl (by simp)) st]
      cases bindOne o [t] with
      | ok b => simp [Except.map]
      | error e => simp [Except.map]
  · -- plus
    cases chunk with
    | nil => simp [Run.avail, liftErr]
    | cons t rest =>
      simp only [Run.avail, Run.dropFront, runFlags, lastAction]
      have hne : ((t :: rest) == ["--"]) = false := by
        simp only [beq_eq_false_iff_ne, ne_eq, List.cons.injEq, not_and]
        intro e; exact absurd (by simp [e]) hdd
      simp only [hne, Bool.false_eq_true, if_false]
      rw [List.erase_of_not_mem hdd, takeAction_std s o hstd (t :: rest) (Or.inl (by simp)) st]
      cases bindOne o (t :: rest) with
      | ok b => simp [Except.map]
      | error e => simp [Except.map]
  · simp [liftErr]
  · simp [liftErr]
  · simp [liftErr]

/-! ### the loop -/

/-- the parse cannot end well any more -/
def FailsEnd (r : Except PErr PState) : Prop :=
  r = .error .cliError ∨ ∃ st', r = .ok st' ∧ (st'.extras = true ∨ st'.ps ≠ [])

def SegsStd (sgs : List (OptSpec × List String)) : Prop :=
  ∀ x ∈ sgs, "--" ∉ x.2 ∧ x.1.standard = true ∧ x.1.positional = false

theorem std_errs (o : OptSpec) (h : o.standard = true) : dtot_errs o :=
  dtot_bindOne_errs o (dtot_std o h).2.2.2.2.1

theorem std_opt_arity (o : OptSpec) (h : o.standard = true) (hp : o.positional = false) :
    o.arity = .zero ∨ o.arity = .one ∨ o.arity = .plus :=
  dtot_arity_nonpos o hp (dtot_std o h).2.2.2.2.1

theorem consumeOpt_err (o : OptSpec) (h : o.standard = true) (hp : o.positional = false) (chunk : List String)
    (e : CliErr) (he : consumeOpt o chunk = .error e) : e = .cliError :=
  (dtot_consumeOpt (R := fun _ _ => True) o (std_errs o h) (fun _ _ _ _ _ => trivial) (std_opt_arity o h hp)
    chunk).1 e he

theorem consumeOpt_sub (o : OptSpec) (chunk : List String) (b : Ns) (c' : List String)
    (h : consumeOpt o chunk = .ok (b, c')) : ∀ t ∈ c', t ∈ chunk := by
  unfold consumeOpt at h
  cases har : o.arity <;> rw [har] at h <;> dsimp only at h
  · cases hb : bindOne o [] <;> simp [hb, Except.map] at h
    intro t ht; rw [← h.2] at ht; exact ht
  · cases chunk with
    | nil => simp at h
    | cons t r =>
      cases hb : bindOne o [t] <;> simp [hb, Except.map] at h
      intro x hx; rw [← h.2] at hx; simp [hx]
  · cases chunk with
    | nil => simp at h
    | cons t r =>
      cases hb : bindOne o (t :: r) <;> simp [hb, Except.map] at h
      intro x hx; rw [h.2] at hx; simp at hx
  all_goals simp at h

theorem applyPos_err (ps : List OptSpec) (hps : ∀ o ∈ ps, o.standard = true) (cs : List Nat) (toks : List String)
    (e : CliErr) (he : applyPos ps cs toks = .error e) : e = .cliError :=
  (dtot_applyPos (R := fun _ _ => True) ps (fun o ho => std_errs o (hps o ho)) (fun _ _ _ _ _ _ _ => trivial)
    cs toks).1 e he

/-- once something is left over, the loop on segments of the fragment cannot end well -/
theorem runSegs_extras (s : CliSpec) (strs : List (String × Target)) :
    ∀ (sgs : List (OptSpec × List String)) (ss : List (OptItem × Run)), SegRel ss sgs → SegsStd sgs →
    ∀ (st : PState), (∀ o ∈ st.ps, o.standard = true) → st.extras = true →
      FailsEnd (runSegs (mainBind s) strs ss st) := by
  intro sgs
  induction sgs with
  | nil =>
    intro ss hrel _ st _ hex
    cases ss with
    | nil => exact Or.inr ⟨st, by simp [runSegs], Or.inl hex⟩
    | cons x xs => simp [SegRel] at hrel
  | cons sg sgs ih =>
    intro ss hrel hstd st hps hex
    cases ss with
    | nil => simp [SegRel] at hrel
    | cons x xs =>
      obtain ⟨oi, run⟩ := x
      obtain ⟨o, chunk⟩ := sg
      simp only [SegRel] at hrel
      obtain ⟨⟨os, rfl⟩, rfl, hrel'⟩ := hrel
      obtain ⟨hdd, hso, hnp⟩ := hstd (o, chunk) (by simp)
      have hstd' : SegsStd sgs := fun y hy => hstd y (by simp [hy])
      simp only [runSegs]
      rw [stepOpt_sim s strs o hso os chunk hdd st]
      cases hco : consumeOpt o chunk with
      | error e => rw [consumeOpt_err o hso hnp chunk e hco]; exact Or.inl rfl
      | ok r =>
        obtain ⟨b, chunk'⟩ := r
        dsimp only
        have hdd' : "--" ∉ chunk' := fun hm => hdd (consumeOpt_sub o chunk b chunk' hco _ hm)
        rw [consumePosX_sim s chunk' xs.isEmpty { st with ns := b ++ st.ns } hps hdd']
        dsimp only
        by_cases hskip : (chunk'.isEmpty && !xs.isEmpty) = true
        · simp only [hskip, if_true]
          exact ih xs hrel' hstd' _ hps hex
        · simp only [hskip, Bool.false_eq_true, if_false]
          cases hap : applyPos st.ps (matchPartial (st.ps.map OptSpec.arity) chunk'.length st.ps.length) chunk' with
          | error e => rw [applyPos_err st.ps hps _ _ e hap]; exact Or.inl rfl
          | ok b2 =>
            dsimp only
            apply ih xs hrel' hstd'
            · intro o' ho'; exact hps o' (List.mem_of_mem_drop ho')
            · simp [hex]

theorem SegRel_isEmpty : ∀ (ss : List (OptItem × Run)) (sgs : List (OptSpec × List String)), SegRel ss sgs →
    ss.isEmpty = sgs.isEmpty := by
  intro ss sgs h
  cases ss <;> cases sgs <;> simp [SegRel] at h ⊢

/-- THE LOOP.  On segments of the fragment, from a state where nothing is left over: when the fragment parser
succeeds, so does the extended one, with the same bindings; when it fails, the extended one cannot end well. -/
theorem runSegs_sim (s : CliSpec) (strs : List (String × Target)) :
    ∀ (sgs : List (OptSpec × List String)) (ss : List (OptItem × Run)), SegRel ss sgs → SegsStd sgs →
    ∀ (st : PState), (∀ o ∈ st.ps, o.standard = true) → st.extras = false →
      match parseSegs st.ps sgs with
      | .ok more => runSegs (mainBind s) strs ss st = .ok { st with ps := [], ns := more ++ st.ns }
      | .error _ => FailsEnd (runSegs (mainBind s) strs ss st) := by
  intro sgs
  induction sgs with
  | nil =>
    intro ss hrel _ st _ hex
    cases ss with
    | cons x xs => simp [SegRel] at hrel
    | nil =>
      simp only [parseSegs, runSegs]
      split
      · rename_i more hm
        split at hm
        · rename_i hemp
          simp at hm; subst hm
          have : st.ps = [] := by simpa using hemp
          cases st; simp_all
        · simp at hm
      · rename_i e hm
        split at hm
        · simp at hm
        · rename_i hemp
          exact Or.inr ⟨st, rfl, Or.inr (by simpa using hemp)⟩
  | cons sg sgs ih =>
    intro ss hrel hstd st hps hex
    cases ss with
    | nil => simp [SegRel] at hrel
    | cons x xs =>
      obtain ⟨oi, run⟩ := x
      obtain ⟨o, chunk⟩ := sg
      simp only [SegRel] at hrel
      obtain ⟨⟨os, rfl⟩, rfl, hrel'⟩ := hrel
      obtain ⟨hdd, hso, hnp⟩ := hstd (o, chunk) (by simp)
      have hstd' : SegsStd sgs := fun y hy => hstd y (by simp [hy])
      have hemp := SegRel_isEmpty xs sgs hrel'
      simp only [runSegs, parseSegs]
      rw [stepOpt_sim s strs o hso os chunk hdd st]
      cases hco : consumeOpt o chunk with
      | error e => dsimp only; rw [consumeOpt_err o hso hnp chunk e hco]; exact Or.inl rfl
      | ok r =>
        obtain ⟨b, chunk'⟩ := r
        dsimp only
        have hdd' : "--" ∉ chunk' := fun hm => hdd (consumeOpt_sub o chunk b chunk' hco _ hm)
        rw [consumePosX_sim s chunk' xs.isEmpty { st with ns := b ++ st.ns } hps hdd', hemp]
        dsimp only
        unfold consumePos
        by_cases hskip : (chunk'.isEmpty && !sgs.isEmpty) = true
        · -- nothing to consume here
          simp only [hskip, if_true]
          have := ih xs hrel' hstd' { st with ns := b ++ st.ns } hps hex
          dsimp only at this
          cases hp : parseSegs st.ps sgs with
          | error e => rw [hp] at this; exact this
          | ok more =>
            rw [hp] at this
            dsimp only at this ⊢
            rw [this]
            simp [List.append_assoc]
        · simp only [hskip, Bool.false_eq_true, if_false]
          by_cases hlt : (matchPartial (st.ps.map OptSpec.arity) chunk'.length st.ps.length).sum < chunk'.length
          · -- arguments left over: the fragment parser stops, the extended one remembers
            rw [if_pos hlt]
            dsimp only
            cases hap : applyPos st.ps (matchPartial (st.ps.map OptSpec.arity) chunk'.length st.ps.length) chunk' with
            | error e => dsimp only; rw [applyPos_err st.ps hps _ _ e hap]; exact Or.inl rfl
            | ok b2 =>
              dsimp only
              apply runSegs_extras s strs sgs xs hrel' hstd'
              · intro o' ho'; exact hps o' (List.mem_of_mem_drop ho')
              · simp [hlt]
          · rw [if_neg hlt]
            cases hap : applyPos st.ps (matchPartial (st.ps.map OptSpec.arity) chunk'.length st.ps.length) chunk' with
            | error e => dsimp only; rw [applyPos_err st.ps hps _ _ e hap]; exact Or.inl rfl
            | ok b2 =>
              dsimp only
              have hps' : ∀ o' ∈ (st.ps.drop
                  (matchPartial (st.ps.map OptSpec.arity) chunk'.length st.ps.length).length), o'.standard = true :=
                fun o' ho' => hps o' (List.mem_of_mem_drop ho')
              have := ih xs hrel' hstd'
                { st with
                  ps := st.ps.drop (matchPartial (st.ps.map OptSpec.arity) chunk'.length st.ps.length).length,
                  ns := b2 ++ (b ++ st.ns),
                  extras := st.extras ||
                    decide ((matchPartial (st.ps.map OptSpec.arity) chunk'.length st.ps.length).sum < chunk'.length) }
                hps' (by simp [hex, hlt])
              dsimp only at this
              cases hp : parseSegs (st.ps.drop
                  (matchPartial (st.ps.map OptSpec.arity) chunk'.length st.ps.length).length) sgs with
              | error e => rw [hp] at this; exact this
              | ok more =>
                rw [hp] at this
                dsimp only at this ⊢
                rw [this]
                simp [List.append_assoc, hex, hlt]

/-! ### the whole parse -/

theorem failsEnd_final (p : PSpec) (r : Except PErr PState) (h : FailsEnd r) :
    finish p r = .error .cliError := by
  unfold finish
  rcases h with rfl | ⟨st', rfl, h⟩
  · rfl
  · dsimp only
    rcases h with h | h
    · simp [h]
    · have : st'.ps.isEmpty = false := by cases hp : st'.ps <;> simp_all
      simp [this]

theorem requiredOK_std (s : CliSpec) (hstd : s.standard = true) (b : Ns) :
    requiredOK (mainSpec s) b = requiredSeen s b := by
  unfold requiredOK requiredSeen
  rw [mainSpec_opts_std s hstd, List.all_filter]
  congr 1
  funext o
  cases o.positional <;> simp

theorem positionals_std (s : CliSpec) (hstd : s.standard = true) : ∀ o ∈ positionals s, o.standard = true := by
  intro o ho
  have := dtot_positionals_main s o ho
  rw [dtot_std_main s hstd] at this
  exact dtot_std_opts s hstd o this

/-- THE EXTENDED PARSER REFINES THE PARSER OF THE FRAGMENT.  For a sub-command with standard options and EVERY command
line of the fragment, the extended parser makes the same bindings, or fails with the same CLIError. -/
theorem parseX_refines (s : CliSpec) (hstd : s.standard = true) (hok : fragOK s = true) (argv : List String)
    (hf : inFragment s argv = true) : parseX s argv = liftE (parseArgs s argv) := by
  rw [dtot_parseArgs_raw s hstd]
  obtain ⟨c0, sgs, h1, h2, h3, h4, h5, h6⟩ := segs_fragment s hstd hok argv hf
  have hsegstd : SegsStd sgs := fun x hx => ⟨(h6 x hx).1, dtot_std_opts s hstd _ (h6 x hx).2.1, (h6 x hx).2.2⟩
  have hmx : mutexOK sgs = true :=
    dnum_mutexOK sgs (fun x hx => (dnum_std_basic _ (dtot_std_opts s hstd _ (h6 x hx).2.1)).2.2.2)
  have hemp := SegRel_isEmpty _ _ h3
  have hps0 := positionals_std s hstd
  unfold parseRaw
  rw [h1]
  simp only [hmx, Bool.not_true, Bool.false_eq_true, if_false]
  unfold parseX engine engineItems
  rw [h4]
  simp only [Bool.false_eq_true, if_false]
  have hmain : (mainSpec s).poss = positionals s := rfl
  rw [h2, hemp, hmain, consumePosX_sim s c0 sgs.isEmpty ⟨positionals s, [], false, []⟩ hps0 h5]
  dsimp only
  unfold consumePos
  by_cases hskip : (c0.isEmpty && !sgs.isEmpty) = true
  · simp only [hskip, if_true]
    have := runSegs_sim s (mainSpec s).strings sgs _ h3 hsegstd ⟨positionals s, [], false, []⟩ hps0 rfl
    dsimp only at this
    cases hp : parseSegs (positionals s) sgs with
    | error e =>
      rw [hp] at this
      dsimp only
      rw [failsEnd_final _ _ this]
      have := (dtot_parseSegs (R := fun _ _ => True) s.opts (fun o ho => std_errs o (dtot_std_opts s hstd o ho))
        (fun _ _ _ _ _ _ _ => trivial) sgs (positionals s)
        (fun o ho => by have := dtot_positionals_main s o ho; rwa [dtot_std_main s hstd] at this)
        (fun sg hsg => ⟨(h6 sg hsg).2.1, std_opt_arity _ (dtot_std_opts s hstd _ (h6 sg hsg).2.1) (h6 sg hsg).2.2⟩)).1 e hp
      rw [this]; rfl
    | ok more =>
      rw [hp] at this
      dsimp only at this ⊢
      rw [this]
      unfold finish
      simp only [List.append_nil, List.isEmpty_nil, Bool.not_true, Bool.false_or, requiredOK_std s hstd]
      cases requiredSeen s more <;> simp [liftE, liftErr]
  · simp only [hskip, Bool.false_eq_true, if_false]
    by_cases hlt : (matchPartial ((positionals s).map OptSpec.arity) c0.length (positionals s).length).sum < c0.length
    · rw [if_pos hlt]
      cases hap : applyPos (positionals s)
          (matchPartial ((positionals s).map OptSpec.arity) c0.length (positionals s).length) c0 with
      | error e => dsimp only; rw [applyPos_err _ hps0 _ _ e hap]; rfl
      | ok b0 =>
        dsimp only
        have := runSegs_extras s (mainSpec s).strings sgs _ h3 hsegstd
          { ps := (positionals s).drop
              (matchPartial ((positionals s).map OptSpec.arity) c0.length (positionals s).length).length,
            ns := b0 ++ [], extras := false || decide
              ((matchPartial ((positionals s).map OptSpec.arity) c0.length (positionals s).length).sum < c0.length),
            seen := [] }
          (fun o ho => hps0 o (List.mem_of_mem_drop ho)) (by simp [hlt])
        rw [failsEnd_final _ _ this]
        rfl
    · rw [if_neg hlt]
      cases hap : applyPos (positionals s)
          (matchPartial ((positionals s).map OptSpec.arity) c0.length (positionals s).length) c0 with
      | error e => dsimp only; rw [applyPos_err _ hps0 _ _ e hap]; rfl
      | ok b0 =>
        dsimp only
        have := runSegs_sim s (mainSpec s).strings sgs _ h3 hsegstd
          { ps := (positionals s).drop
              (matchPartial ((positionals s).map OptSpec.arity) c0.length (positionals s).length).length,
            ns := b0 ++ [], extras := false || decide
              ((matchPartial ((positionals s).map OptSpec.arity) c0.length (positionals s).length).sum < c0.length),
            seen := [] }
          (fun o ho => hps0 o (List.mem_of_mem_drop ho)) (by simp [hlt])
        dsimp only at this
        cases hp : parseSegs ((positionals s).drop
            (matchPartial ((positionals s).map OptSpec.arity) c0.length (positionals s).length).length) sgs with
        | error e =>
          rw [hp] at this
          dsimp only
          rw [failsEnd_final _ _ this]
          have := (dtot_parseSegs (R := fun _ _ => True) s.opts
            (fun o ho => std_errs o (dtot_std_opts s hstd o ho))
            (fun _ _ _ _ _ _ _ => trivial) sgs _
            (fun o ho => by
              have := dtot_positionals_main s o (List.mem_of_mem_drop ho)
              rwa [dtot_std_main s hstd] at this)
            (fun sg hsg => ⟨(h6 sg hsg).2.1,
              std_opt_arity _ (dtot_std_opts s hstd _ (h6 sg hsg).2.1) (h6 sg hsg).2.2⟩)).1 e hp
          rw [this]; rfl
        | ok more =>
          rw [hp] at this
          dsimp only at this ⊢
          rw [this]
          unfold finish
          simp only [List.append_nil, List.isEmpty_nil, Bool.not_true, Bool.false_or, requiredOK_std s hstd, hlt,
            decide_false, Bool.or_false]
          cases requiredSeen s (more ++ b0) <;> simp [liftE, liftErr]

/-! ### … and so does the extended interpreter -/

/-- no `G.order()` in the expression -/
def orderFree : Expr → Bool
  | .order _ => false
  | .getattr _ e => orderFree e
  | .not e => orderFree e
  | .isNone e => orderFree e
  | .isNotNone e => orderFree e
  | .star e => orderFree e
  | .and a b => orderFree a && orderFree b
  | .or a b => orderFree a && orderFree b
  | .cmp _ a b => orderFree a && orderFree b
  | .ite c t e => orderFree c && orderFree t && orderFree e
  | .binop _ a b => orderFree a && orderFree b
  | .cons h t => orderFree h && orderFree t
  | .mkgraph _ sp => orderFree sp
  | _ => true

theorem fixOrder_id (ord : List String → Nat) (ns : Ns) : ∀ (e : Expr), orderFree e = true → fixOrder ord ns e = e := by
  intro e
  induction e with
  | order g => intro h; simp [orderFree] at h
  | getattr d e ih => intro h; simp only [orderFree] at h; simp [fixOrder, ih h]
  | not e ih => intro h; simp only [orderFree] at h; simp [fixOrder, ih h]
  | isNone e ih => intro h; simp only [orderFree] at h; simp [fixOrder, ih h]
  | isNotNone e ih => intro h; simp only [orderFree] at h; simp [fixOrder, ih h]
  | star e ih => intro h; simp only [orderFree] at h; simp [fixOrder, ih h]
  | and a b iha ihb => intro h; simp only [orderFree, Bool.and_eq_true] at h; simp [fixOrder, iha h.1, ihb h.2]
  | or a b iha ihb => intro h; simp only [orderFree, Bool.and_eq_true] at h; simp [fixOrder, iha h.1, ihb h.2]
  | cmp op a b iha ihb => intro h; simp only [orderFree, Bool.and_eq_true] at h; simp [fixOrder, iha h.1, ihb h.2]
  | ite c t e ihc iht ihe =>
    intro h; simp only [orderFree, Bool.and_eq_true] at h; simp [fixOrder, ihc h.1.1, iht h.1.2, ihe h.2]
  | binop op a b iha ihb => intro h; simp only [orderFree, Bool.and_eq_true] at h; simp [fixOrder, iha h.1, ihb h.2]
  | cons a b iha ihb => intro h; simp only [orderFree, Bool.and_eq_true] at h; simp [fixOrder, iha h.1, ihb h.2]
  | mkgraph k sp ih => intro h; simp only [orderFree] at h; simp [fixOrder, ih h]
  | arg d => intro _; rfl
  | hasattr d => intro _; rfl
  | none => intro _; rfl
  | bool b => intro _; rfl
  | int i => intro _; rfl
  | str s => intro _; rfl
  | name n => intro _; rfl
  | nil => intro _; rfl
  | «opaque» src ds => intro _; rfl

def templateOrderFree (t : CallTemplate) : Bool :=
  orderFree t.guard && t.pos.all orderFree && t.kw.all (fun p => orderFree p.2)

theorem fixTemplate_id (ord : List String → Nat) (ns : Ns) (t : CallTemplate) (h : templateOrderFree t = true) :
    fixTemplate ord ns t = t := by
  unfold templateOrderFree at h
  simp only [Bool.and_eq_true, List.all_eq_true] at h
  unfold fixTemplate
  have h1 := fixOrder_id ord ns t.guard h.1.1
  have h2 : t.pos.map (fixOrder ord ns) = t.pos := by
    conv => rhs; rw [← List.map_id t.pos]
    exact List.map_congr_left (fun e he => fixOrder_id ord ns e (h.1.2 e he))
  have h3 : t.kw.map (fun p => (p.1, fixOrder ord ns p.2)) = t.kw := by
    conv => rhs; rw [← List.map_id t.kw]
    exact List.map_congr_left (fun p hp => by simp [fixOrder_id ord ns p.2 (h.2 p hp)])
  rw [h1, h2, h3]

theorem selectTemplate_err (ns : Ns) : ∀ (ts : List CallTemplate) (e : CliErr), selectTemplate ns ts = .error e →
    ∃ w, e = .unsupported w := by
  intro ts
  induction ts with
  | nil => intro e h; simp [selectTemplate] at h; exact ⟨_, h.symm⟩
  | cons t ts ih =>
    intro e h
    unfold selectTemplate at h
    split at h
    · simp at h; exact ⟨_, h.symm⟩
    · simp at h
    · exact ih e h

/-- THE EXTENDED INTERPRETER REFINES THE INTERPRETER OF THE FRAGMENT: on a command line of the fragment (that the tool's
own parser does not refuse), whatever `dispatchSpec` answers — a library call, a CLIError — `dispatchSpecX` answers -/
theorem dispatchX_refines (tool : String) (ord : List String → Nat) (s : CliSpec) (hstd : s.standard = true)
    (hok : fragOK s = true) (hof : s.templates.all templateOrderFree = true) (hni : s.inline = false)
    (argv : List String) (hf : inFragment s argv = true) (htop : topAmbiguous tool s.kind argv = false) :
    (∀ c, dispatchSpec s argv = .ok c → dispatchSpecX tool ord s argv = .ok (.call c)) ∧
    (dispatchSpec s argv = .error .cliError → dispatchSpecX tool ord s argv = .error .cliError) := by
  have hsup : s.supported = true := by unfold CliSpec.supported; simp [hstd]
  have hsx : s.supportedX = true := by unfold CliSpec.supportedX; simp [hsup]
  have hmap : ∀ ns, s.templates.map (fixTemplate ord ns) = s.templates := by
    intro ns
    conv => rhs; rw [← List.map_id s.templates]
    exact List.map_congr_left (fun t ht => fixTemplate_id ord ns t ((List.all_eq_true.1 hof) t ht))
  unfold dispatchSpecX callOf dispatchSpec dispatchTemplate
  simp only [hsx, hsup, htop, hni, Bool.not_true, Bool.false_eq_true, if_false]
  rw [parseX_refines s hstd hok argv hf]
  cases hp : parseArgs s argv with
  | error e =>
    simp only [liftE]
    refine ⟨fun c h => by simp at h, fun h => ?_⟩
    simp at h; subst h; rfl
  | ok b =>
    simp only [liftE, hmap]
    cases hsel : selectTemplate (namespaceOf s b) s.templates with
    | error e =>
      dsimp only
      obtain ⟨w, rfl⟩ := selectTemplate_err _ _ e hsel
      exact ⟨fun c h => by simp at h, fun h => by simp at h⟩
    | ok t =>
      dsimp only
      cases hi : instantiate (namespaceOf s b) t with
      | error e =>
        refine ⟨fun c h => by simp at h, fun h => ?_⟩
        simp at h; subst h; simp [liftErr, Except.map, quirkCrash]
      | ok c =>
        refine ⟨fun c' h => ?_, fun h => by simp at h⟩
        simp at h; subst h; simp [Except.map, quirkCrash]

end Cnfgen.Cli.AP
