/-
Character level, LaTeX — tokens and row contents: what `_print_latex` writes for a literal, a clause,
a constraint (`litText`, `clauseRowText`, `constraintRowText` of `IO/Latex.lean`), split at white
space and with coefficients un-glued from their literals (`lexLatexLine`), is the token row of the
token-level writer (`latexLitTok`, `clauseCore`, `constraintCore`) — for names without white space
and numbers below CPython's digit limit.
-/
import Lemmas.IOLatex
import Lemmas.IOTextDimacs
namespace Cnfgen.IO

/-! ### `split()` distributes over a blank -/

theorem splitWS_space_cons (w : Char) (s : Str) (hw : isSpace w = true) : splitWS (w :: s) = splitWS s := by
  rw [splitWS.eq_def]; simp [hw]

theorem splitWS_cons_space (c d : Char) (r : Str) (hc : isSpace c = false) (hd : isSpace d = true) :
    splitWS (c :: d :: r) = [c] :: splitWS (d :: r) := by
  rw [splitWS.eq_def]; simp only [hc, hd]; simp

theorem splitWS_ne_nil (d : Char) (ds : Str) (hd : isSpace d = false) : splitWS (d :: ds) ≠ [] := by
  cases ds with
  | nil => simp [splitWS, hd]
  | cons e es =>
    by_cases he : isSpace e = true
    · rw [splitWS_cons_space d e es hd he]; simp
    · rw [splitWS_cons_cons d e es hd (by simpa using he)]; split <;> simp

/-- tokens cannot span a blank: `(a + " " + b).split() == a.split() + b.split()` -/
theorem splitWS_append_blank : ∀ (a b : Str), splitWS (a ++ ' ' :: b) = splitWS a ++ splitWS b
  | [], b => by simp [splitWS_space_cons ' ' b isSpace_blank, splitWS]
  | [c], b => by
    by_cases hc : isSpace c = true
    · show splitWS (c :: ' ' :: b) = splitWS [c] ++ splitWS b
      rw [splitWS_space_cons c _ hc, splitWS_space_cons ' ' b isSpace_blank, splitWS_space_cons c [] hc]
      simp [splitWS]
    · have hc' : isSpace c = false := by simpa using hc
      show splitWS (c :: ' ' :: b) = _
      rw [splitWS_cons_blank c b hc']
      simp [splitWS, hc']
  | c :: d :: ds, b => by
    have ih := splitWS_append_blank (d :: ds) b
    by_cases hc : isSpace c = true
    · show splitWS (c :: (d :: ds ++ ' ' :: b)) = _
      rw [splitWS_space_cons c _ hc, splitWS_space_cons c _ hc, ih]
    · have hc' : isSpace c = false := by simpa using hc
      by_cases hd : isSpace d = true
      · show splitWS (c :: d :: (ds ++ ' ' :: b)) = _
        rw [splitWS_cons_space c d _ hc' hd, splitWS_cons_space c d _ hc' hd]
        simp only [List.cons_append] at ih
        rw [ih]; rfl
      · have hd' : isSpace d = false := by simpa using hd
        show splitWS (c :: d :: (ds ++ ' ' :: b)) = _
        rw [splitWS_cons_cons c d _ hc' hd', splitWS_cons_cons c d _ hc' hd']
        simp only [List.cons_append] at ih
        rw [ih]
        cases hs : splitWS (d :: ds) with
        | nil => exact absurd hs (splitWS_ne_nil d ds hd')
        | cons t ts => rfl

theorem lexL_nil : lexLatexLine [] = [] := rfl

theorem lexL_append (a b : Str) : lexLatexLine (a ++ ' ' :: b) = lexLatexLine a ++ lexLatexLine b := by
  simp [lexLatexLine, splitWS_append_blank]

theorem lexL_blank (s : Str) : lexLatexLine (' ' :: s) = lexLatexLine s := by
  simp [lexLatexLine, splitWS_space_cons ' ' s isSpace_blank]

theorem lexL_blanks (k : Nat) (s : Str) : lexLatexLine (List.replicate k ' ' ++ s) = lexLatexLine s := by
  induction k with
  | zero => rfl
  | succ k ih => rw [List.replicate_succ, List.cons_append, lexL_blank, ih]

theorem lexL_tok (t : Str) (h : IsTok t) : lexLatexLine t = splitCoef t := by
  simp [lexLatexLine, splitWS_tok t h]

/-- a token, a blank, more text -/
theorem lexL_tok_blank (t rest : Str) (h : IsTok t) : lexLatexLine (t ++ ' ' :: rest) = splitCoef t ++ lexLatexLine rest := by
  rw [lexL_append, lexL_tok t h]

/-! ### tokens -/

/-- a token that starts with `{` or `\` is a plain word -/
theorem classify_word (c : Char) (r : Str) (hc : c = '{' ∨ c = '\\') (hw : NoWS (c :: r)) :
    classify (c :: r) = .word (c :: r) := by
  have h1 : pyInt? (c :: r) = none := by
    unfold pyInt?
    rw [strip_noWS _ hw]
    rcases hc with rfl | rfl <;> simp [scanDigits, digit?]
  have h2 : xvar? (c :: r) = none := by
    rcases hc with rfl | rfl <;> simp [xvar?]
  simp [classify, h1, h2]

theorem spanDigits_nondigit (c : Char) (r : Str) (h : (digit? c).isSome = false) : spanDigits (c :: r) = ([], c :: r) := by
  simp [spanDigits, h]

theorem spanDigits_append : ∀ (ds : Str) (c : Char) (r : Str), (∀ d ∈ ds, IsDigit d) → (digit? c).isSome = false →
    spanDigits (ds ++ c :: r) = (ds, c :: r)
  | [], c, r, _, h => spanDigits_nondigit c r h
  | d :: ds, c, r, hd, h => by
    have h1 : (digit? d).isSome = true := by rw [digit?_of_isDigit (hd d (by simp))]; rfl
    have ih := spanDigits_append ds c r (fun x hx => hd x (by simp [hx])) h
    simp [spanDigits, h1, ih]

theorem spanDigits_all : ∀ (ds : Str), (∀ d ∈ ds, IsDigit d) → spanDigits ds = (ds, [])
  | [], _ => rfl
  | d :: ds, hd => by
    have h1 : (digit? d).isSome = true := by rw [digit?_of_isDigit (hd d (by simp))]; rfl
    simp [spanDigits, h1, spanDigits_all ds (fun x hx => hd x (by simp [hx]))]

theorem head_brace_nondigit {c : Char} (hc : c = '{' ∨ c = '\\') : (digit? c).isSome = false ∧ c ≠ '-' := by
  rcases hc with rfl | rfl <;> exact ⟨by decide, by decide⟩

/-- a literal text is one token, classified as a word -/
theorem splitCoef_word (c : Char) (r : Str) (hc : c = '{' ∨ c = '\\') (hw : NoWS (c :: r)) :
    splitCoef (c :: r) = [.word (c :: r)] := by
  have hnd := head_brace_nondigit hc
  have hneg : ((c :: r).head? = some '-') = False := by simp [hnd.2]
  unfold splitCoef
  simp only [hneg, if_false, spanDigits_nondigit c r hnd.1, classify_word c r hc hw]

/-- a number alone: `0`, the bound -/
theorem splitCoef_int (z : Int) (hz : z.natAbs < 10 ^ maxStrDigits) : splitCoef (intStr z) = [.int z] := by
  have hcl := classify_intStr z hz
  unfold splitCoef intStr
  unfold intStr at hcl
  by_cases hneg : z < 0
  · simp only [hneg, if_true] at hcl ⊢
    have : spanDigits (List.drop 1 ('-' :: natStr z.natAbs)) = (natStr z.natAbs, []) := by
      simpa using spanDigits_all _ (natStr_digits z.natAbs).1
    simp only [List.head?_cons, if_true, this, hcl]
    obtain ⟨c, cs, hs, _⟩ := natStr_cons z.natAbs
    rw [hs]
  · simp only [hneg, if_false] at hcl ⊢
    obtain ⟨c, cs, hs, hc⟩ := natStr_cons z.natAbs
    have hh : ((natStr z.natAbs).head? = some '-') = False := by
      rw [hs]; simp; exact (isDigit_ne hc).2.2.1
    simp only [hh, if_false, spanDigits_all _ (natStr_digits z.natAbs).1, hcl]
    rw [hs]

/-- a coefficient glued to its literal: `2{x_3}`, `-3\overline{y}` ↦ the number, the literal -/
theorem splitCoef_coef (z : Int) (hz : z.natAbs < 10 ^ maxStrDigits) (c : Char) (r : Str) (hc : c = '{' ∨ c = '\\') :
    splitCoef (intStr z ++ c :: r) = [.int z, .word (c :: r)] := by
  have hnd := head_brace_nondigit hc
  have hpl := plainNat_natStr z.natAbs hz
  obtain ⟨d, ds, hs, hd⟩ := natStr_cons z.natAbs
  have hcc : c = '{' ∨ c = '\\' := hc
  unfold splitCoef intStr
  by_cases hneg : z < 0
  · simp only [hneg, if_true, List.cons_append, List.head?_cons]
    have : spanDigits (List.drop 1 ('-' :: (natStr z.natAbs ++ c :: r))) = (natStr z.natAbs, c :: r) := by
      simpa using spanDigits_append _ c r (natStr_digits z.natAbs).1 hnd.1
    simp only [this, hpl]
    rw [hs]
    simp only [hcc, if_true]
    congr 2
    omega
  · have hh : ((natStr z.natAbs ++ c :: r).head? = some '-') = False := by
      rw [hs]; simp; exact (isDigit_ne hd).2.2.1
    simp only [hneg, if_false, hh, spanDigits_append _ c r (natStr_digits z.natAbs).1 hnd.1, hpl]
    rw [hs]
    simp only [hcc, if_true]
    congr 2
    omega

/-! ### literal texts -/

/-- names as the character-level theorems need them: no white space inside (a name with a blank is
several tokens on the page) -/
def CleanNames (names : List Str) : Prop := ∀ nm ∈ names, NoWS nm

theorem noWS_append {a b : Str} (ha : NoWS a) (hb : NoWS b) : NoWS (a ++ b) := by
  intro c hc; rcases List.mem_append.1 hc with h | h
  · exact ha c h
  · exact hb c h

theorem noWS_cons {c : Char} {s : Str} (hc : isSpace c = false) (hs : NoWS s) : NoWS (c :: s) := by
  intro d hd; rcases List.mem_cons.1 hd with h | h
  · subst h; exact hc
  · exact hs d h

theorem noWS_lit (s : Str) (h : s.all (fun c => !isSpace c) = true) : NoWS s := by
  intro c hc; simpa using (List.all_eq_true.1 h) c hc

theorem noWS_take {s : Str} (h : NoWS s) (k : Nat) : NoWS (s.take k) := fun c hc => h c (List.mem_of_mem_take hc)
theorem noWS_drop {s : Str} (h : NoWS s) (k : Nat) : NoWS (s.drop k) := fun c hc => h c (List.mem_of_mem_drop hc)

theorem noNL_of_noWS {s : Str} (h : NoWS s) : NoNL s := by
  intro c hc
  have := h c hc
  constructor <;> (intro e; subst e; revert this; decide)

/-- the text of a literal without its alignment blanks is one token starting with `{` or `\` -/
theorem litCore_tok (nm : Str) (neg : Bool) (hn : NoWS nm) :
    ∃ c r, litCore nm neg = c :: r ∧ (c = '{' ∨ c = '\\') ∧ NoWS (c :: r) := by
  have hov : NoWS overlineOpen := noWS_lit _ (by decide)
  cases neg
  · refine ⟨'{', nm ++ ['}'], by simp [litCore], Or.inl rfl, ?_⟩
    exact noWS_cons (by decide) (noWS_append hn (noWS_lit _ (by decide)))
  · simp only [litCore, if_true]
    split
    · refine ⟨'\\', _, rfl, Or.inr rfl, ?_⟩
      exact noWS_append (noWS_append hov hn) (noWS_lit _ (by decide))
    · rename_i k _
      refine ⟨'{', _, rfl, Or.inl rfl, ?_⟩
      refine noWS_cons (by decide) (noWS_append (noWS_append hov ?_) (noWS_lit _ (by decide)))
      exact noWS_append (noWS_take hn k) (noWS_cons (by decide) (noWS_drop hn k))

theorem strip_blank_cons (s : Str) : strip (' ' :: s) = strip s := by
  unfold strip
  simp [List.dropWhile, isSpace_blank]

theorem strip_blanks (k : Nat) (s : Str) (hs : NoWS s) : strip (List.replicate k ' ' ++ s) = s := by
  induction k with
  | zero => exact strip_noWS s hs
  | succ k ih => rw [List.replicate_succ, List.cons_append, strip_blank_cons, ih]

theorem litTextPos_eq (nm : Str) : litTextPos nm = List.replicate 11 ' ' ++ litCore nm false := by
  have e3 : "           {".toList = List.replicate 11 ' ' ++ ['{'] := by decide
  unfold litTextPos litCore
  rw [e3]
  simp only [Bool.false_eq_true, if_false, List.append_assoc, List.cons_append, List.nil_append]

theorem litTextNeg_eq (nm : Str) : ∃ k, litTextNeg nm = List.replicate k ' ' ++ litCore nm true := by
  have e1 : "  \\overline{".toList = List.replicate 2 ' ' ++ overlineOpen := by decide
  have e2 : "{\\overline{".toList = '{' :: overlineOpen := by decide
  unfold litTextNeg litCore
  simp only [if_true]
  split
  · exact ⟨2, by rw [e1]; simp only [List.append_assoc]⟩
  · exact ⟨0, by rw [e2]; simp⟩

/-- `littext[l]`: alignment blanks, then the token of the token-level writer; for OPB formulas
(`strip()`) the token alone -/
theorem litText_shape (opb : Bool) (names : List Str) (hcl : CleanNames names) (l : Int) (s : Str)
    (h : litText opb names l = .ok s) :
    ∃ k core, latexLitTok names l = .ok (.word core) ∧ s = List.replicate (if opb then 0 else k) ' ' ++ core ∧
      ∃ c r, core = c :: r ∧ (c = '{' ∨ c = '\\') ∧ NoWS (c :: r) := by
  unfold litText at h
  unfold latexLitTok
  split at h
  · cases h
  · rename_i hl
    simp only [hl, if_false]
    cases hnm : names[l.natAbs - 1]? with
    | none => rw [hnm] at h; cases h
    | some nm =>
      rw [hnm] at h
      simp only at h ⊢
      have hn : NoWS nm := hcl nm (List.mem_of_getElem? hnm)
      obtain ⟨c, r, hcr, hc, hw⟩ := litCore_tok nm (decide (l < 0)) hn
      have hpad : ∃ k, (if l < 0 then litTextNeg nm else litTextPos nm) =
          List.replicate k ' ' ++ litCore nm (decide (l < 0)) := by
        by_cases hneg : l < 0
        · rw [if_pos hneg, decide_eq_true hneg]; exact litTextNeg_eq nm
        · rw [if_neg hneg, decide_eq_false hneg]; exact ⟨11, litTextPos_eq nm⟩
      obtain ⟨k, hk⟩ := hpad
      refine ⟨k, litCore nm (decide (l < 0)), rfl, ?_, c, r, hcr, hc, hw⟩
      cases opb
      · simp only [Bool.false_eq_true, if_false] at h ⊢
        cases h; exact hk
      · simp only [if_true] at h ⊢
        cases h
        rw [hk, hcr, strip_blanks k _ hw]; rfl

/-! ### joined parts -/

/-- `" sep ".join(parts)`: the rows of the parts, joined by the separator token -/
theorem lexL_join (sepT : Str) (tok : Tok) (hsep : IsTok sepT) (htok : splitCoef sepT = [tok]) :
    ∀ (parts : List Str), lexLatexLine (join (' ' :: (sepT ++ [' '])) parts) = sepBy tok (parts.map lexLatexLine)
  | [] => rfl
  | [x] => rfl
  | x :: y :: r => by
    have ih := lexL_join sepT tok hsep htok (y :: r)
    show lexLatexLine (x ++ (' ' :: (sepT ++ [' '])) ++ join (' ' :: (sepT ++ [' '])) (y :: r)) = _
    have e : x ++ (' ' :: (sepT ++ [' '])) ++ join (' ' :: (sepT ++ [' '])) (y :: r) =
        x ++ ' ' :: (sepT ++ ' ' :: join (' ' :: (sepT ++ [' '])) (y :: r)) := by simp
    rw [e, lexL_append, lexL_tok_blank _ _ hsep, htok, ih]
    rfl

theorem noNL_join (sep : Str) (parts : List Str) (hs : NoNL sep) (hp : ∀ p ∈ parts, NoNL p) : NoNL (join sep parts) := by
  intro c hc
  rcases mem_join hc with h | ⟨p, hpm, hcp⟩
  · exact hs c h
  · exact hp p hpm c hcp

theorem noNL_replicate_blank (k : Nat) : NoNL (List.replicate k ' ') := by
  intro c hc
  have := List.eq_of_mem_replicate hc
  subst this; decide

/-! ### clause rows -/

/-- what precedes the content of a clause row: line break (with the `\\` that closes the previous
row), `&`, and the alignment blanks or `\land` -/
def cnfPre (first compact : Bool) : Str :=
  (if first then "\n&".toList else " \\\\\n&".toList) ++
  (if !compact || first then "       ".toList else " \\land ".toList)

theorem lits_shape (names : List Str) (hcl : CleanNames names) : ∀ (c : List Int) (ls : List Str),
    AllRel (fun x y => litText false names x = .ok y) c ls →
    ∃ toks, AllRel (fun x t => latexLitTok names x = .ok t) c toks ∧
      ls.map lexLatexLine = toks.map (fun t => [t]) ∧ ∀ y ∈ ls, NoNL y := by
  intro c ls h
  induction h with
  | nil => exact ⟨[], .nil, rfl, by simp⟩
  | cons hx _ ih =>
    rename_i x y xs ys _
    obtain ⟨toks, h1, h2, h3⟩ := ih
    obtain ⟨k, core, hk, hy, ch, r, hcr, hc, hw⟩ := litText_shape false names hcl x y hx
    simp only [Bool.false_eq_true, if_false] at hy
    refine ⟨.word core :: toks, .cons hk h1, ?_, ?_⟩
    · simp only [List.map_cons, h2]
      congr 1
      rw [hy, lexL_blanks, hcr, lexL_tok _ ⟨by simp, hw⟩, splitCoef_word ch r hc hw]
    · intro z hz
      rcases List.mem_cons.1 hz with e | e
      · subst e; rw [hy, hcr]
        exact (noNL_replicate_blank k).append (noNL_of_noWS hw)
      · exact h3 z e

/-- the text of a clause row = its frame prefix ++ a content that lexes to the token-level content -/
theorem clauseRowText_shape (names : List Str) (hcl : CleanNames names) (first compact : Bool) (c : Clause) (t : Str)
    (h : clauseRowText names first compact c = .ok t) :
    ∃ s core, t = cnfPre first compact ++ s ∧ clauseCore names compact c = .ok core ∧
      lexLatexLine s = core ∧ NoNL s := by
  unfold clauseRowText at h
  unfold clauseCore
  simp only at h
  by_cases he : c.isEmpty = true
  · simp only [he, if_true] at h ⊢
    cases h
    exact ⟨"\\square".toList, _, rfl, rfl, by decide, noNL_lit _ (by decide)⟩
  · simp only [he, if_false, Bool.false_eq_true] at h ⊢
    cases hm : c.mapM (litText false names) with
    | error e => rw [hm] at h; cases h
    | ok ls =>
      rw [hm] at h
      obtain ⟨toks, h1, h2, h3⟩ := lits_shape names hcl c ls (mapM_forall₂ _ c ls hm)
      have hm' := mapM_of_allRel (latexLitTok names) h1
      have hsep : IsTok "\\lor".toList := isTok_lit _ (by decide)
      have hj : lexLatexLine (join " \\lor ".toList ls) = sepBy (W "\\lor") (toks.map (fun t => [t])) := by
        have e : " \\lor ".toList = ' ' :: ("\\lor".toList ++ [' ']) := by decide
        rw [e, lexL_join _ (W "\\lor") hsep (by decide), h2]
      have hjn : NoNL (join " \\lor ".toList ls) := noNL_join _ _ (noNL_lit _ (by decide)) h3
      simp only [hm']
      cases compact
      · simp only [Bool.false_eq_true, if_false] at h ⊢
        cases h
        exact ⟨_, _, rfl, rfl, hj, hjn⟩
      · simp only [if_true] at h ⊢
        cases h
        refine ⟨"\\left( ".toList ++ join " \\lor ".toList ls ++ " \\right)".toList, _, ?_, rfl, ?_, ?_⟩
        · simp only [cnfPre, List.append_assoc]
        · have e1 : "\\left( ".toList = "\\left(".toList ++ [' '] := by decide
          have e2 : " \\right)".toList = ' ' :: "\\right)".toList := by decide
          have e3 : "\\left(".toList ++ [' '] ++ join " \\lor ".toList ls ++ ' ' :: "\\right)".toList =
              "\\left(".toList ++ ' ' :: (join " \\lor ".toList ls ++ ' ' :: "\\right)".toList) := by simp
          rw [e1, e2, e3, lexL_tok_blank "\\left(".toList _ (isTok_lit _ (by decide)), lexL_append, hj,
            lexL_tok "\\right)".toList (isTok_lit _ (by decide))]
          have c1 : splitCoef "\\left(".toList = [W "\\left("] := by decide
          have c2 : splitCoef "\\right)".toList = [W "\\right)"] := by decide
          rw [c1, c2]; rfl
        · exact ((noNL_lit _ (by decide)).append hjn).append (noNL_lit _ (by decide))

/-! ### constraint rows -/

/-- the numbers of a constraint are below CPython's digit limit -/
def SmallPBC (c : PBC) : Prop := c.rhs.natAbs < 10 ^ maxStrDigits ∧ ∀ t ∈ c.terms, t.1.natAbs < 10 ^ maxStrDigits

def opbPre (first : Bool) : Str := if first then "\n& ".toList else " \\\\\n& ".toList

theorem termText_shape (names : List Str) (hcl : CleanNames names) (t : Int × Int) (tt : Str)
    (hz : t.1.natAbs < 10 ^ maxStrDigits) (h : termText names t = .ok tt) :
    ∃ toks, termToks names t = .ok toks ∧ lexLatexLine tt = toks ∧ NoNL tt := by
  unfold termText at h
  unfold termToks
  cases hl : litText true names t.2 with
  | error e => rw [hl] at h; cases h
  | ok lt =>
    rw [hl] at h
    simp only at h
    cases h
    obtain ⟨k, core, hk, hy, ch, r, hcr, hc, hw⟩ := litText_shape true names hcl t.2 lt hl
    simp only [if_true, List.replicate_zero, List.nil_append] at hy
    subst hy
    simp only [hk]
    by_cases h1 : t.1 = 1
    · simp only [h1, if_true, List.nil_append]
      refine ⟨_, rfl, ?_, ?_⟩
      · rw [hcr, lexL_tok _ ⟨by simp, hw⟩, splitCoef_word ch r hc hw]
      · rw [hcr]; exact noNL_of_noWS hw
    · simp only [h1, if_false]
      refine ⟨_, rfl, ?_, ?_⟩
      · rw [hcr, lexL_tok _ ⟨by simp [(intStr_noWS t.1).2], noWS_append (intStr_noWS t.1).1 hw⟩,
          splitCoef_coef t.1 hz ch r hc]
      · rw [hcr]; exact (intStr_noNL t.1).append (noNL_of_noWS hw)

theorem terms_shape (names : List Str) (hcl : CleanNames names) : ∀ (ts : List (Int × Int)) (tts : List Str),
    (∀ t ∈ ts, t.1.natAbs < 10 ^ maxStrDigits) →
    AllRel (fun x y => termText names x = .ok y) ts tts →
    ∃ groups, AllRel (fun x g => termToks names x = .ok g) ts groups ∧
      tts.map lexLatexLine = groups ∧ ∀ y ∈ tts, NoNL y := by
  intro ts tts hs h
  induction h with
  | nil => exact ⟨[], .nil, rfl, by simp⟩
  | cons hx _ ih =>
    rename_i x y xs ys _
    obtain ⟨groups, h1, h2, h3⟩ := ih (fun t ht => hs t (by simp [ht]))
    obtain ⟨toks, g1, g2, g3⟩ := termText_shape names hcl x y (hs x (by simp)) hx
    refine ⟨toks :: groups, .cons g1 h1, by simp [g2, h2], ?_⟩
    intro z hz
    rcases List.mem_cons.1 hz with e | e
    · subst e; exact g3
    · exact h3 z e

theorem latexOpText_lex (o : Op) : IsTok (latexOpText o) ∧ splitCoef (latexOpText o) = [.word (latexOpText o)] ∧
    NoNL (latexOpText o) := by
  unfold latexOpText
  split
  · exact ⟨isTok_lit _ (by decide), by decide, noNL_lit _ (by decide)⟩
  · exact ⟨isTok_lit _ (by decide), by decide, noNL_lit _ (by decide)⟩

/-- the text of a constraint row = its frame prefix ++ a content that lexes to the token-level content -/
theorem constraintRowText_shape (names : List Str) (hcl : CleanNames names) (first : Bool) (c : PBC) (t : Str)
    (hs : SmallPBC c) (h : constraintRowText names first c = .ok t) :
    ∃ s core, t = opbPre first ++ s ∧ constraintCore names c = .ok core ∧ lexLatexLine s = core ∧ NoNL s := by
  unfold constraintRowText at h
  unfold constraintCore
  simp only at h
  obtain ⟨ho1, ho2, ho3⟩ := latexOpText_lex c.op
  have hrhs : splitCoef (intStr c.rhs) = [.int c.rhs] := splitCoef_int c.rhs hs.1
  have hrt : IsTok (intStr c.rhs) := isTok_intStr c.rhs
  -- the part after the left-hand side
  have htail : ∀ (text : Str) (l : Row), lexLatexLine text = l → NoNL text →
      lexLatexLine (text ++ [' '] ++ latexOpText c.op ++ [' '] ++ intStr c.rhs) = l ++ [.word (latexOpText c.op), .int c.rhs] ∧
      NoNL (text ++ [' '] ++ latexOpText c.op ++ [' '] ++ intStr c.rhs) := by
    intro text l hl hn
    constructor
    · have e : text ++ [' '] ++ latexOpText c.op ++ [' '] ++ intStr c.rhs =
          text ++ ' ' :: (latexOpText c.op ++ ' ' :: intStr c.rhs) := by simp
      rw [e, lexL_append, hl, lexL_tok_blank _ _ ho1, ho2, lexL_tok _ hrt, hrhs]; rfl
    · exact ((((hn.append (noNL_lit _ (by decide))).append ho3).append (noNL_lit _ (by decide))).append (intStr_noNL _))
  by_cases he : c.terms.isEmpty = true
  · simp only [he, if_true] at h ⊢
    cases h
    obtain ⟨h1, h2⟩ := htail ['0'] [.int 0] (by decide) (noNL_lit _ (by decide))
    exact ⟨_, _, by simp only [opbPre, List.append_assoc], rfl, h1, h2⟩
  · simp only [he, if_false, Bool.false_eq_true] at h ⊢
    cases hm : c.terms.mapM (termText names) with
    | error e => rw [hm] at h; cases h
    | ok tts =>
      rw [hm] at h
      simp only at h
      cases h
      obtain ⟨groups, g1, g2, g3⟩ := terms_shape names hcl c.terms tts hs.2 (mapM_forall₂ _ _ _ hm)
      have hm' := mapM_of_allRel (termToks names) g1
      have hj : lexLatexLine (join " + ".toList tts) = sepBy (W "+") groups := by
        have e : " + ".toList = ' ' :: ("+".toList ++ [' ']) := by decide
        rw [e, lexL_join _ (W "+") (isTok_lit _ (by decide)) (by decide), g2]
      have hjn : NoNL (join " + ".toList tts) := noNL_join _ _ (noNL_lit _ (by decide)) g3
      obtain ⟨h1, h2⟩ := htail _ _ hj hjn
      simp only [hm']
      exact ⟨_, _, by simp only [opbPre, List.append_assoc], rfl, h1, h2⟩

end Cnfgen.IO
