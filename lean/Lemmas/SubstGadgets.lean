/-
Helper lemmas for C05: what each gadget encoder of substitutions.py means, on the positive and on
the negative literal of an original variable, in terms of the number of true variables of its block.
-/
import Lemmas.Subst
import Props.C04
namespace Cnfgen
namespace Subst
open Linear

/-! ### blocks -/

theorem blockLits_length (k v : Nat) : (blockLits k v).length = k := by simp [blockLits]

theorem mem_blockLits (k v : Nat) (x : Int) :
    x ∈ blockLits k v ↔ ∃ i, i < k ∧ x = (((v - 1) * k + (i + 1) : Nat) : Int) := by
  simp only [blockLits, List.mem_map, List.mem_range]
  constructor
  · rintro ⟨i, hi, rfl⟩; exact ⟨i, hi, rfl⟩
  · rintro ⟨i, hi, rfl⟩; exact ⟨i, hi, rfl⟩

theorem blockLits_nonzero (k v : Nat) : ∀ l ∈ blockLits k v, l ≠ 0 := by
  intro l hl
  obtain ⟨i, _, rfl⟩ := (mem_blockLits k v l).1 hl
  omega

theorem blockLits_bounded (k v N : Nat) (hv : 1 ≤ v) (hN : v ≤ N) :
    ∀ y ∈ blockLits k v, y ≠ 0 ∧ y.natAbs ≤ k * N := by
  intro y hy
  obtain ⟨i, hi, rfl⟩ := (mem_blockLits k v y).1 hy
  have h1 : (v - 1) * k + k = v * k := by
    have : v = (v - 1) + 1 := by omega
    conv => rhs; rw [this, Nat.add_mul, Nat.one_mul]
  have h2 : v * k ≤ N * k := Nat.mul_le_mul_right k hN
  have h3 : N * k = k * N := Nat.mul_comm _ _
  constructor
  · omega
  · simp only [Int.natAbs_natCast]; omega

/-- the count of true literals of a list of positive literals is a count of true variables -/
theorem count_map_pos (β : Assign) (l : List Nat) (f : Nat → Nat) (hf : ∀ i ∈ l, 1 ≤ f i) :
    count β (l.map (fun i => ((f i : Nat) : Int))) = l.countP (fun i => β (f i)) := by
  induction l with
  | nil => simp [count]
  | cons x xs ih =>
    rw [List.map_cons, count_cons, ih (fun i hi => hf i (by simp [hi])),
      litHolds_ofNat β _ (hf x (by simp)), List.countP_cons]

/-- readable form of the block count: how many of the variables `(v-1)k+1 … vk` are true -/
theorem count_blockLits (β : Assign) (k v : Nat) :
    count β (blockLits k v) = (List.range k).countP (fun i => β ((v - 1) * k + (i + 1))) :=
  count_map_pos β (List.range k) (fun i => (v - 1) * k + (i + 1)) (fun i _ => by omega)

theorem clauseHolds_iff_count (β : Assign) (ls : List Int) :
    clauseHolds β ls = true ↔ 1 ≤ count β ls := by
  simp [clauseHolds, count]

theorem count_eq_zero_iff (β : Assign) (ls : List Int) :
    count β ls = 0 ↔ ∀ x ∈ ls, litHolds β x = false := by
  simp [count, List.countP_eq_zero]

theorem count_eq_length_iff (β : Assign) (ls : List Int) :
    count β ls = ls.length ↔ ∀ x ∈ ls, litHolds β x = true := by
  simp [count, List.countP_eq_length]

/-! ### sign bookkeeping for `lit = ±v` -/

theorem pos_lit (v : Nat) (hv : 1 ≤ v) : ((v : Int) > 0) ∧ ((v : Int)).natAbs = v := by
  constructor
  · omega
  · simp

theorem neg_lit (v : Nat) (hv : 1 ≤ v) : ¬ (-(v : Int) > 0) ∧ (-(v : Int)).natAbs = v := by
  constructor
  · omega
  · simp

/-! ### xor -/

theorem xorify_pos (β : Assign) (k v : Nat) (hv : 1 ≤ v) :
    (∀ c ∈ xorify k (v : Int), clauseHolds β c = true) ↔
      decide (count β (blockLits k v) % 2 = 1) = true := by
  have := C04.parity_holds β (blockLits k v) true (blockLits_nonzero k v)
  simp only [xorify, (pos_lit v hv).1, (pos_lit v hv).2, if_true] at this ⊢
  rw [this]; simp

theorem xorify_neg (β : Assign) (k v : Nat) (hv : 1 ≤ v) :
    (∀ c ∈ xorify k (-(v : Int)), clauseHolds β c = true) ↔
      decide (count β (blockLits k v) % 2 = 1) = false := by
  have := C04.parity_holds β (blockLits k v) false (blockLits_nonzero k v)
  simp only [xorify, (neg_lit v hv).1, (neg_lit v hv).2, if_false] at this ⊢
  simp only [Bool.false_eq_true, if_false] at this
  rw [this]; simp

/-! ### or -/

theorem orify_pos (β : Assign) (k v : Nat) (hv : 1 ≤ v) :
    (∀ c ∈ orify k (v : Int), clauseHolds β c = true) ↔
      decide (1 ≤ count β (blockLits k v)) = true := by
  simp only [orify, (pos_lit v hv).1, (pos_lit v hv).2, if_true, List.mem_singleton, forall_eq,
    clauseHolds_iff_count, decide_eq_true_eq]

theorem orify_neg (β : Assign) (k v : Nat) (hv : 1 ≤ v) :
    (∀ c ∈ orify k (-(v : Int)), clauseHolds β c = true) ↔
      decide (1 ≤ count β (blockLits k v)) = false := by
  simp only [orify, (neg_lit v hv).1, (neg_lit v hv).2, if_false, List.mem_map,
    forall_exists_index, and_imp, forall_apply_eq_imp_iff₂, decide_eq_false_iff_not]
  have : ¬ 1 ≤ count β (blockLits k v) ↔ count β (blockLits k v) = 0 := by omega
  rw [this, count_eq_zero_iff]
  constructor
  · intro h x hx
    have := h x hx
    simp only [clauseHolds, List.any_cons, List.any_nil, Bool.or_false] at this
    rw [litHolds_neg β x (blockLits_nonzero k v x hx)] at this
    simpa using this
  · intro h x hx
    simp only [clauseHolds, List.any_cons, List.any_nil, Bool.or_false]
    rw [litHolds_neg β x (blockLits_nonzero k v x hx), h x hx]; rfl

/-! ### majority -/

theorem majorify_pos (β : Assign) (k v : Nat) (hv : 1 ≤ v) :
    (∀ c ∈ majorify k (v : Int), clauseHolds β c = true) ↔
      decide (k ≤ 2 * count β (blockLits k v)) = true := by
  have := C04.looseMajority_holds β (blockLits k v) (blockLits_nonzero k v)
  simp only [majorify, (pos_lit v hv).1, (pos_lit v hv).2, if_true]
  rw [this, blockLits_length]; simp

theorem majorify_neg (β : Assign) (k v : Nat) (hv : 1 ≤ v) :
    (∀ c ∈ majorify k (-(v : Int)), clauseHolds β c = true) ↔
      decide (k ≤ 2 * count β (blockLits k v)) = false := by
  have := C04.strictMinority_holds β (blockLits k v) (blockLits_nonzero k v)
  simp only [majorify, (neg_lit v hv).1, (neg_lit v hv).2, if_false]
  rw [this, blockLits_length]; simp

/-! ### exactly one -/

theorem oneify_pos (β : Assign) (k v : Nat) (hv : 1 ≤ v) :
    (∀ c ∈ oneify k (v : Int), clauseHolds β c = true) ↔
      decide (count β (blockLits k v) = 1) = true := by
  have := C04.linear_holds β (blockLits k v) .eq 1 (blockLits_nonzero k v)
  simp only [oneify, (pos_lit v hv).1, (pos_lit v hv).2, if_true]
  rw [this]; simp [Op.denote]; omega

theorem oneify_neg (β : Assign) (k v : Nat) (hv : 1 ≤ v) :
    (∀ c ∈ oneify k (-(v : Int)), clauseHolds β c = true) ↔
      decide (count β (blockLits k v) = 1) = false := by
  simp only [oneify, (neg_lit v hv).1, (neg_lit v hv).2, if_false, flipEach_eq]
  rw [neqClauses_holds β _ 1 (blockLits_nonzero k v)]; simp

/-! ### linear forms -/

theorem negop_table : negop .eq = .ne ∧ negop .ne = .eq ∧ negop .lt = .ge ∧ negop .ge = .lt ∧
    negop .gt = .le ∧ negop .le = .gt := by decide

theorem negop_denote (o : Op) (a b : Int) : (negop o).denote a b = !(o.denote a b) := by
  obtain ⟨h1, h2, h3, h4, h5, h6⟩ := negop_table
  cases o <;> simp only [h1, h2, h3, h4, h5, h6, Op.denote] <;>
    (apply Bool.eq_iff_iff.2
     simp only [Bool.not_eq_true', decide_eq_true_eq, decide_eq_false_iff_not]
     try omega)

theorem linear_pos (β : Assign) (o : Op) (C : Int) (k v : Nat) (hv : 1 ≤ v) :
    (∀ c ∈ linear o C k (v : Int), clauseHolds β c = true) ↔
      o.denote (count β (blockLits k v)) C = true := by
  simp only [linear, (pos_lit v hv).1, (pos_lit v hv).2, if_true]
  exact C04.linear_holds β _ o C (blockLits_nonzero k v)

theorem linear_neg (β : Assign) (o : Op) (C : Int) (k v : Nat) (hv : 1 ≤ v) :
    (∀ c ∈ linear o C k (-(v : Int)), clauseHolds β c = true) ↔
      o.denote (count β (blockLits k v)) C = false := by
  simp only [linear, (neg_lit v hv).1, (neg_lit v hv).2, if_false]
  rw [C04.linear_holds β _ (negop o) C (blockLits_nonzero k v), negop_denote]; simp

/-! ### all-equal / not-all-equal -/

/-- `[[-nvars[i-1], nvars[i]] for i in range(1, len(nvars))]` by structural recursion -/
def chain : List Int → List Clause
  | x :: y :: r => [-x, y] :: chain (y :: r)
  | _ => []

theorem range_chain (l : List Int) :
    (List.range (l.length - 1)).map (fun j => [-(l.getD j 0), l.getD (j + 1) 0]) = chain l := by
  induction l with
  | nil => simp [chain]
  | cons x r ih =>
    cases r with
    | nil => simp [chain]
    | cons y r =>
      have e : (x :: y :: r).length - 1 = ((y :: r).length - 1) + 1 := by simp
      rw [e, List.range_succ_eq_map, List.map_cons, List.map_map, chain, ← ih]
      simp [Function.comp_def]

theorem chain_mem (l : List Int) : ∀ c ∈ chain l, ∃ a ∈ l, ∃ b ∈ l, c = [-a, b] := by
  induction l with
  | nil => intro c hc; simp [chain] at hc
  | cons x r ih =>
    cases r with
    | nil => intro c hc; simp [chain] at hc
    | cons y r =>
      intro c hc
      simp only [chain, List.mem_cons] at hc
      rcases hc with rfl | hc
      · exact ⟨x, by simp, y, by simp, rfl⟩
      · obtain ⟨a, ha, b, hb, rfl⟩ := ih c hc
        exact ⟨a, List.mem_cons_of_mem _ ha, b, List.mem_cons_of_mem _ hb, rfl⟩

theorem pair_holds (β : Assign) (a b : Int) :
    clauseHolds β [a, b] = (litHolds β a || litHolds β b) := by simp [clauseHolds]

theorem chain_head_true (β : Assign) : ∀ (x : Int) (r : List Int), (∀ y ∈ x :: r, y ≠ 0) →
    (∀ c ∈ chain (x :: r), clauseHolds β c = true) → litHolds β x = true →
    ∀ y ∈ x :: r, litHolds β y = true
  | x, [], _, _, hx => by simp [hx]
  | x, y :: r, hnz, h, hx => by
    have h1 := h [-x, y] (by simp [chain])
    rw [pair_holds, litHolds_neg β x (hnz x (by simp)), hx] at h1
    have hy : litHolds β y = true := by simpa using h1
    have ih := chain_head_true β y r (fun z hz => hnz z (by simp [hz]))
      (fun c hc => h c (by simp [chain, hc])) hy
    intro z hz
    rcases List.mem_cons.1 hz with rfl | hz
    · exact hx
    · exact ih z hz

theorem chain_last_true (β : Assign) : ∀ (x : Int) (r : List Int), (∀ y ∈ x :: r, y ≠ 0) →
    (∀ c ∈ chain (x :: r), clauseHolds β c = true) → (∃ t ∈ x :: r, litHolds β t = true) →
    litHolds β ((x :: r).getD r.length 0) = true
  | x, [], _, _, ht => by
    obtain ⟨t, ht, htt⟩ := ht
    simp at ht; subst ht; simpa using htt
  | x, y :: r, hnz, h, ht => by
    have ih := chain_last_true β y r (fun z hz => hnz z (by simp [hz]))
      (fun c hc => h c (by simp [chain, hc]))
    have e : (x :: y :: r).getD (y :: r).length 0 = (y :: r).getD r.length 0 := by simp
    rw [e]
    obtain ⟨t, ht, htt⟩ := ht
    rcases List.mem_cons.1 ht with rfl | ht
    · have h1 := h [-t, y] (by simp [chain])
      rw [pair_holds, litHolds_neg β t (hnz t (by simp)), htt] at h1
      exact ih ⟨y, by simp, by simpa using h1⟩
    · exact ih ⟨t, ht, htt⟩

theorem getD_last_mem (x : Int) (r : List Int) : (x :: r).getD r.length 0 ∈ x :: r := by
  simp

/-- the "one true implies all true" cycle of `aesubst` holds iff all literals agree -/
theorem allEq_holds (β : Assign) (x : Int) (r : List Int) (hnz : ∀ y ∈ x :: r, y ≠ 0) :
    (∀ c ∈ [x, -((x :: r).getD r.length 0)] :: chain (x :: r), clauseHolds β c = true) ↔
      (count β (x :: r) = 0 ∨ count β (x :: r) = (x :: r).length) := by
  have hlast := getD_last_mem x r
  obtain ⟨L, hL⟩ : ∃ L, L = (x :: r).getD r.length 0 := ⟨_, rfl⟩
  rw [← hL] at hlast ⊢
  constructor
  · intro h
    have h0 := h _ (List.mem_cons_self ..)
    have hch : ∀ c ∈ chain (x :: r), clauseHolds β c = true := fun c hc => h c (List.mem_cons_of_mem _ hc)
    rw [pair_holds, litHolds_neg β _ (hnz _ hlast)] at h0
    cases hx : litHolds β x
    · left
      rw [count_eq_zero_iff]
      intro t ht
      cases htt : litHolds β t
      · rfl
      · have := chain_last_true β x r hnz hch ⟨t, ht, htt⟩
        rw [← hL] at this
        simp [hx, this] at h0
    · right
      rw [count_eq_length_iff]
      exact chain_head_true β x r hnz hch hx
  · intro h c hc
    rcases List.mem_cons.1 hc with rfl | hc
    · rw [pair_holds, litHolds_neg β _ (hnz _ hlast)]
      rcases h with h | h
      · rw [count_eq_zero_iff] at h; simp [h _ hlast]
      · rw [count_eq_length_iff] at h; simp [h x (by simp)]
    · obtain ⟨a, ha, b, hb, rfl⟩ := chain_mem _ c hc
      rw [pair_holds, litHolds_neg β a (hnz a ha)]
      rcases h with h | h
      · rw [count_eq_zero_iff] at h; simp [h a ha]
      · rw [count_eq_length_iff] at h; simp [h b hb]

/-- "at least one true, at least one false" -/
theorem notAllEq_holds (β : Assign) (l : List Int) (hnz : ∀ y ∈ l, y ≠ 0) :
    (∀ c ∈ [l, l.map (fun v => -v)], clauseHolds β c = true) ↔
      ¬ (count β l = 0 ∨ count β l = l.length) := by
  simp only [List.mem_cons, List.not_mem_nil, or_false, forall_eq_or_imp, forall_eq,
    clauseHolds_iff_count, count_map_neg β l hnz]
  have := count_add_falses β l
  omega

theorem aesubst_chain_branch (k v : Nat) (hk : 1 ≤ k) :
    ∃ x r, blockLits k v = x :: r ∧
      ([(blockLits k v).getD 0 0, -((blockLits k v).getD (k - 1) 0)] ::
        (List.range (k - 1)).map (fun j => [-((blockLits k v).getD j 0), (blockLits k v).getD (j + 1) 0]))
      = [x, -((x :: r).getD r.length 0)] :: chain (x :: r) := by
  have hl := blockLits_length k v
  cases hb : blockLits k v with
  | nil => rw [hb] at hl; simp at hl; omega
  | cons x r =>
    refine ⟨x, r, rfl, ?_⟩
    rw [hb] at hl
    have hk' : k - 1 = r.length := by simp at hl; omega
    have := range_chain (x :: r)
    simp only [List.length_cons, Nat.add_sub_cancel] at this
    rw [hk', this]
    simp

theorem aesubst_eq_branch (β : Assign) (k v : Nat) (hk : 1 ≤ k) :
    (∀ c ∈ ([(blockLits k v).getD 0 0, -((blockLits k v).getD (k - 1) 0)] ::
        (List.range (k - 1)).map (fun j => [-((blockLits k v).getD j 0), (blockLits k v).getD (j + 1) 0])),
      clauseHolds β c = true) ↔
      (count β (blockLits k v) = 0 ∨ count β (blockLits k v) = k) := by
  obtain ⟨x, r, hb, e⟩ := aesubst_chain_branch k v hk
  have hnz := blockLits_nonzero k v
  have hl := blockLits_length k v
  rw [e, allEq_holds β x r (by rw [← hb]; exact hnz), ← hb, hl]

theorem aesubst_neq_branch (β : Assign) (k v : Nat) :
    (∀ c ∈ [blockLits k v, (blockLits k v).map (fun v => -v)], clauseHolds β c = true) ↔
      ¬ (count β (blockLits k v) = 0 ∨ count β (blockLits k v) = k) := by
  rw [notAllEq_holds β _ (blockLits_nonzero k v), blockLits_length]

theorem alleq_pos (β : Assign) (k v : Nat) (hk : 1 ≤ k) (hv : 1 ≤ v) :
    (∀ c ∈ aesubst false k (v : Int), clauseHolds β c = true) ↔
      decide (count β (blockLits k v) = 0 ∨ count β (blockLits k v) = k) = true := by
  simp only [aesubst, Bool.false_eq_true, if_false, (pos_lit v hv).1, (pos_lit v hv).2, if_true]
  rw [aesubst_eq_branch β k v hk]; simp

theorem alleq_neg (β : Assign) (k v : Nat) (hv : 1 ≤ v) :
    (∀ c ∈ aesubst false k (-(v : Int)), clauseHolds β c = true) ↔
      decide (count β (blockLits k v) = 0 ∨ count β (blockLits k v) = k) = false := by
  simp only [aesubst, Bool.false_eq_true, if_false, (neg_lit v hv).1, (neg_lit v hv).2]
  rw [aesubst_neq_branch β k v]; simp

theorem notalleq_pos (β : Assign) (k v : Nat) (hv : 1 ≤ v) :
    (∀ c ∈ aesubst true k (v : Int), clauseHolds β c = true) ↔
      (!decide (count β (blockLits k v) = 0 ∨ count β (blockLits k v) = k)) = true := by
  have h : ¬ (-(v : Int) > 0) := by omega
  simp only [aesubst, if_true, h, if_false, (pos_lit v hv).2]
  rw [aesubst_neq_branch β k v]; simp

theorem notalleq_neg (β : Assign) (k v : Nat) (hk : 1 ≤ k) (hv : 1 ≤ v) :
    (∀ c ∈ aesubst true k (-(v : Int)), clauseHolds β c = true) ↔
      (!decide (count β (blockLits k v) = 0 ∨ count β (blockLits k v) = k)) = false := by
  have h : (- -(v : Int) > 0) := by omega
  simp only [aesubst, if_true, h, (neg_lit v hv).2]
  rw [aesubst_eq_branch β k v hk]
  simp only [Bool.not_eq_false', decide_eq_true_eq]

/-! ### if-then-else -/

theorem ite_pos (β : Assign) (N v : Nat) (hv : 1 ≤ v) :
    (∀ c ∈ ite N (v : Int), clauseHolds β c = true) ↔
      (if β v then β (N + v) else β (2 * N + v)) = true := by
  have e1 : (1 : Int) * ((N : Int) + ((v : Nat) : Int)) = ((N + v : Nat) : Int) := by omega
  have e2 : (1 : Int) * (2 * (N : Int) + ((v : Nat) : Int)) = ((2 * N + v : Nat) : Int) := by omega
  simp only [ite, (pos_lit v hv).1, (pos_lit v hv).2, if_true, e1, e2, List.mem_cons,
    List.not_mem_nil, or_false, forall_eq_or_imp, forall_eq, pair_holds,
    litHolds_ofNat β v hv, litHolds_negOfNat β v hv, litHolds_ofNat β (N + v) (by omega),
    litHolds_ofNat β (2 * N + v) (by omega)]
  cases β v <;> simp

theorem ite_neg (β : Assign) (N v : Nat) (hv : 1 ≤ v) :
    (∀ c ∈ ite N (-(v : Int)), clauseHolds β c = true) ↔
      (if β v then β (N + v) else β (2 * N + v)) = false := by
  have e1 : (-1 : Int) * ((N : Int) + ((v : Nat) : Int)) = -((N + v : Nat) : Int) := by omega
  have e2 : (-1 : Int) * (2 * (N : Int) + ((v : Nat) : Int)) = -((2 * N + v : Nat) : Int) := by omega
  simp only [ite, (neg_lit v hv).1, (neg_lit v hv).2, if_false, e1, e2, List.mem_cons,
    List.not_mem_nil, or_false, forall_eq_or_imp, forall_eq, pair_holds,
    litHolds_ofNat β v hv, litHolds_negOfNat β v hv, litHolds_negOfNat β (N + v) (by omega),
    litHolds_negOfNat β (2 * N + v) (by omega)]
  cases β v <;> simp

theorem ite_bounded (N : Nat) : EncB N (3 * N) (ite N) := by
  intro l h0 hN c hc x hx
  simp only [ite, List.mem_cons, List.not_mem_nil, or_false] at hc
  by_cases hp : l > 0
  · simp only [hp, if_true] at hc
    rcases hc with rfl | rfl <;> simp only [List.mem_cons, List.not_mem_nil, or_false] at hx <;>
      rcases hx with rfl | rfl <;> constructor <;> omega
  · simp only [hp, if_false] at hc
    rcases hc with rfl | rfl <;> simp only [List.mem_cons, List.not_mem_nil, or_false] at hx <;>
      rcases hx with rfl | rfl <;> constructor <;> omega

/-! ### polarity flip -/

theorem flip_pos (β : Assign) (v : Nat) (hv : 1 ≤ v) :
    (∀ c ∈ flipLit (v : Int), clauseHolds β c = true) ↔ (!β v) = true := by
  simp [flipLit, clauseHolds, litHolds_negOfNat β v hv]

theorem flip_neg (β : Assign) (v : Nat) (hv : 1 ≤ v) :
    (∀ c ∈ flipLit (-(v : Int)), clauseHolds β c = true) ↔ (!β v) = false := by
  simp [flipLit, clauseHolds, litHolds_ofNat β v hv]

theorem flip_bounded (N : Nat) : EncB N N flipLit := by
  intro l h0 hN c hc x hx
  simp only [flipLit, List.mem_singleton] at hc
  subst hc
  simp only [List.mem_singleton] at hx
  subst hx
  constructor <;> omega

theorem flatten_map_singleton (f : Int → Int) (c : Clause) :
    (c.map (fun l => [f l])).flatten = c.map f := by
  induction c with
  | nil => rfl
  | cons x xs ih => simp [ih]

theorem distribute_singletons (f : Int → Int) (c : Clause) :
    distribute (c.map (fun l => [[f l]])) = [c.map f] := by
  have h : product (c.map (fun l => [[f l]])) = [c.map (fun l => [f l])] := by
    induction c with
    | nil => simp [product]
    | cons x xs ih => simp [product, ih]
  simp [distribute, h, flatten_map_singleton]

/-- flip negates every literal in place: same clauses, same order -/
theorem substClauses_flip (cs : List Clause) :
    substClauses flipLit cs = cs.map (fun c => c.map (fun l => -l)) := by
  induction cs with
  | nil => simp [substClauses]
  | cons c cs ih =>
    have := distribute_singletons (fun l => -l) c
    simp only [substClauses, List.flatMap_cons, List.map_cons] at ih ⊢
    rw [ih]
    show distribute (c.map (fun l => [[-l]])) ++ _ = _
    rw [this]; rfl

theorem clauseMax_map_neg (c : Clause) : clauseMax (c.map (fun l => -l)) = clauseMax c := by
  induction c with
  | nil => rfl
  | cons x xs ih => rw [List.map_cons, clauseMax_cons, clauseMax_cons, ih, Int.natAbs_neg]

theorem maxVar_flip (cs : List Clause) : maxVar (substClauses flipLit cs) = maxVar cs := by
  rw [substClauses_flip]
  induction cs with
  | nil => rfl
  | cons c cs ih => rw [List.map_cons, maxVar_cons, maxVar_cons, ih, clauseMax_map_neg]

/-! ### variable compression -/

/-- the right neighbours recorded by the graph object are right vertices -/
def BipWF (B : BipG) : Prop := ∀ u, ∀ x ∈ B.rnbrs u, 1 ≤ x ∧ x ≤ B.r

theorem nbLits_nonzero (B : BipG) (hB : BipWF B) (v : Nat) : ∀ l ∈ nbLits B v, l ≠ 0 := by
  intro l hl
  obtain ⟨x, hx, rfl⟩ := List.mem_map.1 hl
  have := (hB v x hx).1
  omega

theorem nbLits_bounded (B : BipG) (hB : BipWF B) (v : Nat) :
    ∀ y ∈ nbLits B v, y ≠ 0 ∧ y.natAbs ≤ B.r := by
  intro l hl
  obtain ⟨x, hx, rfl⟩ := List.mem_map.1 hl
  have := hB v x hx
  constructor
  · omega
  · simp only [Int.natAbs_natCast]; omega

theorem nbLits_length (B : BipG) (v : Nat) : (nbLits B v).length = (B.rnbrs v).length := by
  simp [nbLits]

theorem applyxor_pos (β : Assign) (B : BipG) (hB : BipWF B) (v : Nat) (hv : 1 ≤ v) :
    (∀ c ∈ applyxor B (v : Int), clauseHolds β c = true) ↔
      decide (count β (nbLits B v) % 2 = 1) = true := by
  have := C04.parity_holds β (nbLits B v) true (nbLits_nonzero B hB v)
  simp only [applyxor, (pos_lit v hv).1, (pos_lit v hv).2, if_true] at this ⊢
  rw [this]; simp

theorem applyxor_neg (β : Assign) (B : BipG) (hB : BipWF B) (v : Nat) (hv : 1 ≤ v) :
    (∀ c ∈ applyxor B (-(v : Int)), clauseHolds β c = true) ↔
      decide (count β (nbLits B v) % 2 = 1) = false := by
  have := C04.parity_holds β (nbLits B v) false (nbLits_nonzero B hB v)
  simp only [applyxor, (neg_lit v hv).1, (neg_lit v hv).2, if_false] at this ⊢
  simp only [Bool.false_eq_true, if_false] at this
  rw [this]; simp

theorem applymaj_pos (β : Assign) (B : BipG) (hB : BipWF B) (v : Nat) (hv : 1 ≤ v) :
    (∀ c ∈ applymaj B (v : Int), clauseHolds β c = true) ↔
      decide ((B.rnbrs v).length ≤ 2 * count β (nbLits B v)) = true := by
  have := C04.looseMajority_holds β (nbLits B v) (nbLits_nonzero B hB v)
  simp only [applymaj, (pos_lit v hv).1, (pos_lit v hv).2, if_true]
  rw [this, nbLits_length]; simp

theorem applymaj_neg (β : Assign) (B : BipG) (hB : BipWF B) (v : Nat) (hv : 1 ≤ v) :
    (∀ c ∈ applymaj B (-(v : Int)), clauseHolds β c = true) ↔
      decide ((B.rnbrs v).length ≤ 2 * count β (nbLits B v)) = false := by
  have := C04.strictMinority_holds β (nbLits B v) (nbLits_nonzero B hB v)
  simp only [applymaj, (neg_lit v hv).1, (neg_lit v hv).2, if_false]
  rw [this, nbLits_length]; simp

theorem applyxor_bounded (B : BipG) (hB : BipWF B) (N : Nat) : EncB N B.r (applyxor B) :=
  fun _ _ _ => (parity_uses _ _).bounded (nbLits_bounded B hB _)

theorem applymaj_bounded (B : BipG) (hB : BipWF B) (N : Nat) : EncB N B.r (applymaj B) := by
  intro l _ _
  unfold applymaj
  split
  · exact (add_uses _ _ _).bounded (nbLits_bounded B hB _)
  · exact (add_uses _ _ _).bounded (nbLits_bounded B hB _)

/-! ### ranges of the arity-`k` gadgets -/

theorem block_encB (N k : Nat) (enc : Int → List Clause)
    (h : ∀ l : Int, Uses (blockLits k l.natAbs) (enc l)) : EncB N (k * N) enc := by
  intro l h0 hN
  exact (h l).bounded (blockLits_bounded k l.natAbs N (by omega) hN)

theorem xorify_bounded (N k : Nat) : EncB N (k * N) (xorify k) :=
  block_encB N k _ (fun _ => parity_uses _ _)

theorem linear_bounded (N k : Nat) (o : Op) (C : Int) : EncB N (k * N) (linear o C k) :=
  block_encB N k _ (fun _ => add_uses _ _ _)

theorem majorify_bounded (N k : Nat) : EncB N (k * N) (majorify k) :=
  block_encB N k _ (fun _ => by unfold majorify; split <;> exact add_uses _ _ _)

theorem oneify_bounded (N k : Nat) : EncB N (k * N) (oneify k) :=
  block_encB N k _ (fun l => by
    unfold oneify; split
    · exact add_uses _ _ _
    · rw [flipEach_eq]; exact neqClauses_uses _ _)

theorem orify_bounded (N k : Nat) : EncB N (k * N) (orify k) :=
  block_encB N k _ (fun l => by
    unfold orify; split
    · intro c hc x hx; simp only [List.mem_singleton] at hc; subst hc; exact Or.inl hx
    · intro c hc x hx
      obtain ⟨y, hy, rfl⟩ := List.mem_map.1 hc
      simp only [List.mem_singleton] at hx; subst hx
      right; simpa using hy)

theorem aesubst_uses (inv : Bool) (k : Nat) (hk : 1 ≤ k) (l : Int) :
    Uses (blockLits k l.natAbs) (aesubst inv k l) := by
  have hA : Uses (blockLits k l.natAbs)
      ([(blockLits k l.natAbs).getD 0 0, -((blockLits k l.natAbs).getD (k - 1) 0)] ::
        (List.range (k - 1)).map (fun j =>
          [-((blockLits k l.natAbs).getD j 0), (blockLits k l.natAbs).getD (j + 1) 0])) := by
    obtain ⟨x, r, hb, e⟩ := aesubst_chain_branch k l.natAbs hk
    rw [e, hb]
    intro c hc y hy
    rcases List.mem_cons.1 hc with rfl | hc
    · simp only [List.mem_cons, List.not_mem_nil, or_false] at hy
      rcases hy with rfl | rfl
      · left; simp
      · right; rw [Int.neg_neg]; exact getD_last_mem x r
    · obtain ⟨a, ha, b, hb', rfl⟩ := chain_mem _ c hc
      simp only [List.mem_cons, List.not_mem_nil, or_false] at hy
      rcases hy with rfl | rfl
      · right; rw [Int.neg_neg]; exact ha
      · left; exact hb'
  have hB : Uses (blockLits k l.natAbs)
      [blockLits k l.natAbs, (blockLits k l.natAbs).map (fun v => -v)] := by
    intro c hc y hy
    simp only [List.mem_cons, List.not_mem_nil, or_false] at hc
    rcases hc with rfl | rfl
    · exact Or.inl hy
    · obtain ⟨z, hz, rfl⟩ := List.mem_map.1 hy
      right; rw [Int.neg_neg]; exact hz
  unfold aesubst
  by_cases h : (if inv = true then -l else l) > 0
  · simp only [h, if_true]; exact hA
  · simp only [h, if_false]; exact hB

theorem aesubst_bounded (inv : Bool) (N k : Nat) (hk : 1 ≤ k) : EncB N (k * N) (aesubst inv k) :=
  block_encB N k _ (aesubst_uses inv k hk)

/-! ### lifting -/

theorem liftVar_bounds (k v i N : Nat) (hv : 1 ≤ v) (hN : v ≤ N) (hi : i < k) :
    1 ≤ xVar k v i ∧ xVar k v i ≤ 2 * k * N ∧ 1 ≤ yVar k v i ∧ yVar k v i ≤ 2 * k * N := by
  have h1 : (v - 1) * 2 * k + 2 * k = v * (2 * k) := by
    have : v = (v - 1) + 1 := by omega
    conv => rhs; rw [this, Nat.add_mul, Nat.one_mul, ← Nat.mul_assoc]
  have h2 : v * (2 * k) ≤ N * (2 * k) := Nat.mul_le_mul_right _ hN
  have h3 : N * (2 * k) = 2 * k * N := Nat.mul_comm _ _
  unfold xVar yVar
  omega

theorem lift_bounded (N k : Nat) : EncB N (2 * k * N) (lift k) := by
  intro l h0 hN c hc x hx
  simp only [lift, List.mem_map, List.mem_range] at hc
  obtain ⟨i, hi, rfl⟩ := hc
  have hb := liftVar_bounds k l.natAbs i N (by omega) hN hi
  simp only [List.mem_cons, List.not_mem_nil, or_false] at hx
  rcases hx with rfl | rfl
  · constructor <;> omega
  · split <;> constructor <;> omega

theorem lift_pos_raw (β : Assign) (k v : Nat) (hv : 1 ≤ v) :
    (∀ c ∈ lift k (v : Int), clauseHolds β c = true) ↔
      ∀ i, i < k → β (yVar k v i) = true → β (xVar k v i) = true := by
  have hx : ∀ i, 1 ≤ xVar k v i := fun i => by unfold xVar; omega
  have hy : ∀ i, 1 ≤ yVar k v i := fun i => by unfold yVar; omega
  simp only [lift, (pos_lit v hv).1, (pos_lit v hv).2, if_true, Int.one_mul, List.mem_map,
    List.mem_range, forall_exists_index, and_imp, forall_apply_eq_imp_iff₂, pair_holds]
  constructor
  · intro h i hi hyi
    have := h i hi
    rw [litHolds_negOfNat β _ (hy i), litHolds_ofNat β _ (hx i), hyi] at this
    simpa using this
  · intro h i hi
    rw [litHolds_negOfNat β _ (hy i), litHolds_ofNat β _ (hx i)]
    cases hyi : β (yVar k v i)
    · simp
    · simp [h i hi hyi]

theorem lift_neg_raw (β : Assign) (k v : Nat) (hv : 1 ≤ v) :
    (∀ c ∈ lift k (-(v : Int)), clauseHolds β c = true) ↔
      ∀ i, i < k → β (yVar k v i) = true → β (xVar k v i) = false := by
  have hx : ∀ i, 1 ≤ xVar k v i := fun i => by unfold xVar; omega
  have hy : ∀ i, 1 ≤ yVar k v i := fun i => by unfold yVar; omega
  have e : ∀ z : Int, (-1 : Int) * z = -z := fun z => by omega
  simp only [lift, (neg_lit v hv).1, (neg_lit v hv).2, if_false, e, List.mem_map,
    List.mem_range, forall_exists_index, and_imp, forall_apply_eq_imp_iff₂, pair_holds]
  constructor
  · intro h i hi hyi
    have := h i hi
    rw [litHolds_negOfNat β _ (hy i), litHolds_negOfNat β _ (hx i), hyi] at this
    simpa using this
  · intro h i hi
    rw [litHolds_negOfNat β _ (hy i), litHolds_negOfNat β _ (hx i)]
    cases hyi : β (yVar k v i)
    · simp
    · simp [h i hi hyi]

/-- the selector literals of the original variable `v` -/
def yLits (k v : Nat) : List Int := (List.range k).map (fun i => ((yVar k v i : Nat) : Int))

theorem count_yLits (β : Assign) (k v : Nat) :
    count β (yLits k v) = (List.range k).countP (fun i => β (yVar k v i)) :=
  count_map_pos β (List.range k) (fun i => yVar k v i) (fun i _ => by unfold yVar; omega)

theorem countP_eq_one {α : Type} (p : α → Bool) (l : List α) (h : l.countP p = 1) :
    ∃ s ∈ l, p s = true ∧ ∀ t ∈ l, p t = true → t = s := by
  induction l with
  | nil => simp at h
  | cons x xs ih =>
    rw [List.countP_cons] at h
    cases hx : p x
    · simp only [hx, Bool.false_eq_true, if_false, Nat.add_zero] at h
      obtain ⟨s, hs, hps, hu⟩ := ih h
      refine ⟨s, List.mem_cons_of_mem _ hs, hps, ?_⟩
      intro t ht hpt
      rcases List.mem_cons.1 ht with rfl | ht
      · rw [hx] at hpt; cases hpt
      · exact hu t ht hpt
    · simp only [hx, if_true] at h
      have h0 : xs.countP p = 0 := by omega
      rw [List.countP_eq_zero] at h0
      refine ⟨x, by simp, hx, ?_⟩
      intro t ht hpt
      rcases List.mem_cons.1 ht with rfl | ht
      · rfl
      · exact absurd hpt (h0 t ht)

/-- under exactly one true selector, "every selected copy is true" = "some selected copy is true" -/
theorem lift_pos (β : Assign) (k v : Nat) (hv : 1 ≤ v) (hsel : count β (yLits k v) = 1) :
    (∀ c ∈ lift k (v : Int), clauseHolds β c = true) ↔
      (List.range k).any (fun i => β (yVar k v i) && β (xVar k v i)) = true := by
  rw [lift_pos_raw β k v hv]
  rw [count_yLits] at hsel
  obtain ⟨s, hs, hys, hu⟩ := countP_eq_one _ _ hsel
  simp only [List.mem_range] at hs hu
  simp only [List.any_eq_true, List.mem_range, Bool.and_eq_true]
  constructor
  · intro h; exact ⟨s, hs, hys, h s hs hys⟩
  · rintro ⟨i, hi, hyi, hxi⟩ j hj hyj
    have e1 := hu i hi hyi
    have e2 := hu j hj hyj
    subst e1; subst e2; exact hxi

theorem lift_neg (β : Assign) (k v : Nat) (hv : 1 ≤ v) :
    (∀ c ∈ lift k (-(v : Int)), clauseHolds β c = true) ↔
      (List.range k).any (fun i => β (yVar k v i) && β (xVar k v i)) = false := by
  rw [lift_neg_raw β k v hv]
  simp only [List.any_eq_false, List.mem_range, Bool.and_eq_true, not_and, Bool.not_eq_true]

theorem rangeStep_lifting (k N : Nat) (hk : 1 ≤ k) :
    rangeStep (k + 1) (2 * k * N + 1) (2 * k) = (List.range N).map (fun j => k + 1 + 2 * k * j) := by
  unfold rangeStep
  have : (2 * k * N + 1 - (k + 1) + 2 * k - 1) / (2 * k) = N := by
    cases N with
    | zero =>
      simp only [Nat.mul_zero, Nat.zero_add]
      apply Nat.div_eq_of_lt
      omega
    | succ n =>
      have e : 2 * k * (n + 1) = 2 * k * n + 2 * k := Nat.mul_succ _ _
      apply Nat.div_eq_of_lt_le
      · rw [Nat.mul_comm]; omega
      · rw [Nat.add_mul, Nat.one_mul, Nat.mul_comm]; omega
  rw [this]

theorem selLits_eq (k j : Nat) :
    (List.range k).map (fun i => ((k + 1 + 2 * k * j + i : Nat) : Int)) = yLits k (j + 1) := by
  unfold yLits yVar
  apply List.map_congr_left
  intro i _
  have : (j + 1 - 1) * 2 * k = 2 * k * j := by
    rw [Nat.add_sub_cancel, Nat.mul_assoc, Nat.mul_comm]
  rw [this]
  congr 1
  omega

theorem yLits_nonzero (k v : Nat) : ∀ l ∈ yLits k v, l ≠ 0 := by
  intro l hl
  obtain ⟨i, _, rfl⟩ := List.mem_map.1 hl
  unfold yVar; omega

theorem yLits_bounded (k v N : Nat) (hv : 1 ≤ v) (hN : v ≤ N) :
    ∀ y ∈ yLits k v, y ≠ 0 ∧ y.natAbs ≤ 2 * k * N := by
  intro l hl
  obtain ⟨i, hi, rfl⟩ := List.mem_map.1 hl
  have := liftVar_bounds k v i N hv hN (List.mem_range.1 hi)
  constructor
  · omega
  · simp only [Int.natAbs_natCast]; omega

theorem selectors_eq (k N : Nat) (hk : 1 ≤ k) :
    selectors k N = (List.range N).flatMap (fun j => Linear.add (yLits k (j + 1)) .eq 1) := by
  unfold selectors
  rw [rangeStep_lifting k N hk, List.flatMap_map]
  congr 1
  funext j
  rw [selLits_eq]

/-- the selector constraints: exactly one selector of every original variable is true -/
theorem selectors_holds (β : Assign) (k N : Nat) (hk : 1 ≤ k) :
    (∀ c ∈ selectors k N, clauseHolds β c = true) ↔
      ∀ v, 1 ≤ v → v ≤ N → count β (yLits k v) = 1 := by
  rw [selectors_eq k N hk]
  simp only [List.mem_flatMap, List.mem_range, forall_exists_index, and_imp]
  constructor
  · intro h v hv hN
    have := (C04.linear_holds β (yLits k (v - 1 + 1)) .eq 1 (yLits_nonzero k _)).1
      (fun c hc => h c (v - 1) (by omega) hc)
    have e : v - 1 + 1 = v := by omega
    rw [e] at this
    simp only [Op.denote, decide_eq_true_eq] at this
    omega
  · intro h c j hj hc
    refine (C04.linear_holds β (yLits k (j + 1)) .eq 1 (yLits_nonzero k _)).2 ?_ c hc
    have := h (j + 1) (by omega) (by omega)
    simp only [Op.denote, decide_eq_true_eq]
    omega

theorem selectors_bounded (k N : Nat) (hk : 1 ≤ k) : Bounded (2 * k * N) (selectors k N) := by
  rw [selectors_eq k N hk]
  intro c hc
  simp only [List.mem_flatMap, List.mem_range] at hc
  obtain ⟨j, hj, hc⟩ := hc
  exact (add_uses _ _ _).bounded (yLits_bounded k (j + 1) N (by omega) (by omega)) c hc

/-! ### every bipartite graph built through the API satisfies `BipWF` -/

theorem mem_insertSorted (l : List Nat) (v x : Nat) : x ∈ insertSorted l v ↔ x = v ∨ x ∈ l := by
  induction l with
  | nil => simp [insertSorted]
  | cons y ys ih =>
    unfold insertSorted
    split
    · simp only [List.mem_cons, ih]
      constructor
      · rintro (h | h | h)
        · exact Or.inr (Or.inl h)
        · exact Or.inl h
        · exact Or.inr (Or.inr h)
      · rintro (h | h | h)
        · exact Or.inr (Or.inl h)
        · exact Or.inl h
        · exact Or.inr (Or.inr h)
    · simp

theorem mem_getD_modify (l : List (List Nat)) (a u b x : Nat)
    (h : x ∈ (l.modify a (insertSorted · b)).getD u []) : x = b ∨ x ∈ l.getD u [] := by
  rw [List.getD_eq_getElem?_getD, List.getElem?_modify] at h
  rw [List.getD_eq_getElem?_getD]
  cases hu : l[u]? with
  | none => rw [hu] at h; simp at h
  | some y =>
    rw [hu] at h
    simp only [Option.map_eq_map, Option.map_some, Option.getD_some] at h ⊢
    split at h
    · exact (mem_insertSorted y b x).1 h
    · exact Or.inr h

theorem BipWF.init (l r : Nat) : BipWF (BipG.init l r) := by
  intro u x hx
  simp only [BipG.rnbrs, BipG.init, List.getD_eq_getElem?_getD, List.getElem?_replicate] at hx
  split at hx <;> simp at hx

theorem BipWF.addEdge {G G' : BipG} (hG : BipWF G) (u v : Int) (h : G.addEdge u v = .ok G') :
    BipWF G' ∧ G'.r = G.r := by
  unfold BipG.addEdge at h
  split at h
  · cases h
  · rename_i hr
    split at h
    · cases h; exact ⟨hG, rfl⟩
    · cases h
      refine ⟨?_, rfl⟩
      intro w x hx
      simp only [BipG.rnbrs] at hx
      rcases mem_getD_modify _ _ _ _ _ hx with rfl | hx
      · simp only [Classical.not_not] at hr
        show 1 ≤ v.toNat ∧ v.toNat ≤ G.r
        constructor <;> omega
      · exact hG w x hx

theorem BipWF.addEdgesFrom {G G' : BipG} (hG : BipWF G) (es : List (Int × Int))
    (h : G.addEdgesFrom es = .ok G') : BipWF G' := by
  induction es generalizing G with
  | nil => simp [BipG.addEdgesFrom, pure, Except.pure] at h; subst h; exact hG
  | cons e es ih =>
    simp only [BipG.addEdgesFrom, List.foldlM_cons, bind, Except.bind] at h
    cases he : G.addEdge e.1 e.2 with
    | error err => rw [he] at h; cases h
    | ok G1 =>
      rw [he] at h
      exact ih (BipWF.addEdge hG _ _ he).1 h

/-- the graph literals of the driver, and every graph built by `add_edge` calls, are well formed -/
theorem BipWF.ofEdges (l r : Nat) (es : List (Nat × Nat)) (B : BipG)
    (h : BipG.ofEdges l r es = .ok B) : BipWF B :=
  BipWF.addEdgesFrom (BipWF.init l r) _ h

end Subst
end Cnfgen
