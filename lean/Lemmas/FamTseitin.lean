/-
Helper lemmas for `Fam.tseitin`: shape of the constraint list, well-formedness, the
specification, and the parity argument (sum of the vertex equations over a closed vertex set).
-/
import Lemmas.FamGraph
import Lemmas.Constr
import Mathlib.Order.Interval.Finset.Nat
import Mathlib.Algebra.Group.Nat.Even
namespace Cnfgen
namespace Fam

theorem litHolds_pos (α : Assign) (k : Nat) (hk : 1 ≤ k) : litHolds α (k : Int) = α k := by
  unfold litHolds
  have : (0 : Int) < (k : Int) := by omega
  simp [this]
  omega

theorem litHolds_neg (α : Assign) (k : Nat) (hk : 1 ≤ k) : litHolds α (-(k : Int)) = !(α k) := by
  unfold litHolds
  have : ¬ (0 : Int) < -(k : Int) := by omega
  simp [this]

theorem rangeN_one (n : Nat) : rangeN 1 (n + 1) = (List.range n).map (· + 1) := by
  simp [rangeN]

theorem mem_rangeN_one {n v : Nat} : v ∈ rangeN 1 (n + 1) ↔ 1 ≤ v ∧ v ≤ n := by
  rw [rangeN_one]
  simp only [List.mem_map, List.mem_range]
  constructor
  · rintro ⟨i, hi, rfl⟩; omega
  · intro h; exact ⟨v - 1, by omega, by omega⟩

theorem rangeN_one_sorted (n : Nat) : (rangeN 1 (n + 1)).Pairwise (· < ·) := by
  rw [rangeN_one]
  exact List.Pairwise.map _ (fun a b h => by omega) List.pairwise_lt_range

theorem zip_rangeN (n : Nat) (l : List Bool) (h : n ≤ l.length) :
    (rangeN 1 (n + 1)).zip l = (List.range n).map (fun i => (i + 1, l.getD i false)) := by
  rw [rangeN_one]
  apply List.ext_getElem
  · simp; omega
  · intro i h1 h2
    simp only [List.length_map, List.length_range] at h2
    simp [List.getD_eq_getElem?_getD, List.getElem?_eq_getElem (show i < l.length by omega)]

theorem padCharges_length (n : Nat) (c : List Bool) : n ≤ (padCharges n c).length := by
  unfold padCharges
  split
  · simp; omega
  · omega

theorem padCharges_getD (n : Nat) (c : List Bool) (i : Nat) :
    (padCharges n c).getD i false = c.getD i false := by
  unfold padCharges
  split
  · simp only [List.getD_eq_getElem?_getD, List.getElem?_append]
    split
    · rfl
    · rw [List.getElem?_eq_none (l := c) (by omega)]
      simp only [List.getElem?_replicate]
      split <;> rfl
  · rfl

theorem charges_length (n : Nat) (ch : Option (List Bool)) : n ≤ (charges n ch).length :=
  padCharges_length _ _

/-- the charge the formula puts on vertex `v` -/
def chargeAt (n : Nat) (ch : Option (List Bool)) (v : Nat) : Bool := (charges n ch).getD (v - 1) false

/-- default charges: odd on the first vertex only -/
theorem chargeAt_none (n v : Nat) (hv : 1 ≤ v) : chargeAt n none v = decide (v = 1) := by
  unfold chargeAt charges
  rw [padCharges_getD]
  rcases Nat.eq_or_lt_of_le hv with rfl | h1
  · simp
  · obtain ⟨k, rfl⟩ : ∃ k, v = k + 2 := ⟨v - 2, by omega⟩
    simp [List.getD_eq_getElem?_getD, List.getElem?_replicate]
    split <;> rfl

/-- explicit charges: entry `v`, `False` beyond the end of the sequence (padding);
entries beyond `n` are never looked at -/
theorem chargeAt_some (n : Nat) (c : List Bool) (v : Nat) :
    chargeAt n (some c) v = c.getD (v - 1) false := by
  unfold chargeAt charges
  rw [padCharges_getD]

theorem tseitin_cons (G : SimpleG) (ch : Option (List Bool)) :
    (tseitin G ch).cons = (List.range G.n).map (fun i =>
      Con.parity (tseitinLits G (i + 1)) (if chargeAt G.n ch (i + 1) then 1 else 0)) := by
  unfold tseitin
  simp only
  rw [zip_rangeN _ _ (charges_length _ _), List.map_map]
  rfl

theorem edgeId_pos (G : SimpleG) (u v : Nat) : 1 ≤ edgeId G 1 u v := by
  unfold edgeId edgeOffset; omega

theorem count_tseitinLits (G : SimpleG) (α : Assign) (v : Nat) :
    count α (tseitinLits G v) = (G.nbrs v).countP (fun u => α (edgeId G 1 u v)) := by
  unfold count tseitinLits
  rw [List.countP_map]
  congr 1
  funext u
  simp [litHolds_pos α _ (edgeId_pos G u v)]

/-- the specification predicate: at every vertex the number of true incident edge variables has
the parity of the charge -/
def TseitinSpec (G : SimpleG) (ch : Option (List Bool)) (α : Assign) : Prop :=
  ∀ v, 1 ≤ v → v ≤ G.n →
    (G.nbrs v).countP (fun u => α (edgeId G 1 u v)) % 2 = (if chargeAt G.n ch v then 1 else 0)

theorem tseitin_holds_iff (G : SimpleG) (ch : Option (List Bool)) (α : Assign) :
    (tseitin G ch).holds α = true ↔ TseitinSpec G ch α := by
  unfold Formula.holds TseitinSpec
  rw [tseitin_cons]
  simp only [List.all_map, List.all_eq_true, List.mem_range, Function.comp, Con.holds,
    decide_eq_true_eq, count_tseitinLits]
  constructor
  · intro h v hv1 hvn
    have := h (v - 1) (by omega)
    rw [Nat.sub_add_cancel hv1] at this
    rw [this]
    cases chargeAt G.n ch v <;> simp
  · intro h i hi
    rw [h (i + 1) (by omega) (by omega)]
    cases chargeAt G.n ch (i + 1) <;> simp

theorem tseitin_wf (G : SimpleG) (hG : GoodGraph G) (ch : Option (List Bool)) : (tseitin G ch).WF := by
  intro c hc l hl
  rw [tseitin_cons] at hc
  simp only [List.mem_map, List.mem_range] at hc
  obtain ⟨i, hi, rfl⟩ := hc
  simp only [Con.lits, tseitinLits, List.mem_map] at hl
  obtain ⟨u, hu, rfl⟩ := hl
  have hb := edgeId_bounds hG 1 (show i + 1 ≤ G.n by omega) hu
  rw [edgeId_comm] at hb
  have : (tseitin G ch).nvars = G.edges.length := rfl
  rw [this]
  constructor
  · omega
  · simp only [Int.natAbs_natCast]; omega

/-- handshake over a vertex set closed under adjacency: the vertex counts of true incident edge
variables add up to an even number (every edge inside the set is counted at both ends) -/
theorem closed_count_even (G : SimpleG) (hG : GoodGraph G) (α : Assign) (C : Nat → Bool)
    (hC : ∀ v u, C v = true → u ∈ G.nbrs v → C u = true) :
    Even (∑ a ∈ Finset.range (G.n + 1),
      (if C a = true then (G.nbrs a).countP (fun u => α (edgeId G 1 u a)) else 0)) := by
  classical
  let N := G.n + 1
  let g : Nat → Nat → Nat := fun a b =>
    if C a = true ∧ a ≤ G.n ∧ b ∈ G.nbrs a ∧ α (edgeId G 1 b a) = true then 1 else 0
  have hs : ∀ a b, g a b = g b a := by
    intro a b
    simp only [g]
    apply if_congr _ rfl rfl
    constructor
    · rintro ⟨hc, ha, hb, he⟩
      have hm := hG.mem ha hb
      exact ⟨hC a b hc hb, hm.2.1, hm.2.2.2, by rw [edgeId_comm]; exact he⟩
    · rintro ⟨hc, ha, hb, he⟩
      have hm := hG.mem ha hb
      exact ⟨hC b a hc hb, hm.2.1, hm.2.2.2, by rw [edgeId_comm]; exact he⟩
  have hd : ∀ a, g a a = 0 := by
    intro a
    simp only [g]
    rw [if_neg]
    rintro ⟨_, ha, hb, _⟩
    exact (hG.mem ha hb).2.2.1 rfl
  have heven := even_double_sum g hs hd N
  -- inner sums are the vertex counts
  have hinner : ∀ a ∈ Finset.range N, ∑ b ∈ Finset.range N, g a b =
      if C a = true then (G.nbrs a).countP (fun u => α (edgeId G 1 u a)) else 0 := by
    intro a ha
    simp only [Finset.mem_range, N] at ha
    by_cases hc : C a = true
    · rw [if_pos hc, countP_eq_sum_range _ _ N (hG.nodup (by omega))
        (fun x hx => by have := (hG.mem (show a ≤ G.n by omega) hx).2.1; omega)]
      apply Finset.sum_congr rfl
      intro b _
      simp only [g]
      apply if_congr _ rfl rfl
      constructor
      · rintro ⟨_, _, hb, he⟩; exact ⟨hb, he⟩
      · rintro ⟨hb, he⟩; exact ⟨hc, by omega, hb, he⟩
    · rw [if_neg hc]
      apply Finset.sum_eq_zero
      intro b _
      simp only [g]
      rw [if_neg]
      rintro ⟨hc', _⟩; exact hc hc'
  rw [Finset.sum_congr rfl hinner] at heven
  exact heven

/-- sum of the vertex equations over a vertex set closed under adjacency: the number of
odd-charged vertices in it is even -/
theorem tseitin_parity (G : SimpleG) (hG : GoodGraph G) (ch : Option (List Bool)) (α : Assign)
    (h : TseitinSpec G ch α) (C : Nat → Bool)
    (hC : ∀ v u, C v = true → u ∈ G.nbrs v → C u = true) :
    Even ((Finset.Icc 1 G.n).filter (fun v => C v = true ∧ chargeAt G.n ch v = true)).card := by
  classical
  let N := G.n + 1
  have heven := closed_count_even G hG α C hC
  -- reduce modulo 2
  have hmod : (∑ a ∈ Finset.range N,
        (if C a = true then (G.nbrs a).countP (fun u => α (edgeId G 1 u a)) else 0)) % 2 =
      (∑ a ∈ Finset.range N,
        (if 1 ≤ a ∧ C a = true ∧ chargeAt G.n ch a = true then 1 else 0)) % 2 := by
    rw [Finset.sum_nat_mod, Finset.sum_nat_mod (f := fun a =>
      (if 1 ≤ a ∧ C a = true ∧ chargeAt G.n ch a = true then 1 else 0))]
    congr 1
    apply Finset.sum_congr rfl
    intro a ha
    simp only [Finset.mem_range, N] at ha
    by_cases hc : C a = true
    · rcases Nat.eq_zero_or_pos a with rfl | ha1
      · simp [hG.1]
      · have ha1' : 1 ≤ a := ha1
        rw [if_pos hc, h a ha1 (by omega)]
        cases hch : chargeAt G.n ch a <;> simp [hc, ha1']
    · simp [hc]
  have hcard : ((Finset.Icc 1 G.n).filter (fun v => C v = true ∧ chargeAt G.n ch v = true)).card =
      ∑ a ∈ Finset.range N, (if 1 ≤ a ∧ C a = true ∧ chargeAt G.n ch a = true then 1 else 0) := by
    rw [← Finset.card_filter]
    congr 1
    ext v
    simp only [Finset.mem_filter, Finset.mem_Icc, Finset.mem_range, N]
    constructor
    · rintro ⟨⟨h1, h2⟩, h3, h4⟩; exact ⟨by omega, h1, h3, h4⟩
    · rintro ⟨h0, h1, h3, h4⟩; exact ⟨⟨h1, by omega⟩, h3, h4⟩
  rw [hcard, Nat.even_iff, ← hmod, ← Nat.even_iff]
  exact heven

end Fam
end Cnfgen
