/-
Helper lemmas shared by the C01 family proofs: index ranges, literal lists built from
positive identifiers, counting facts on duplicate-free lists, `pairs`.
-/
import CnfgenModel.Fam.Mapping
import Lemmas.Constr
namespace Cnfgen.Fam
open Cnfgen

theorem mem_rangeN {a b x : Nat} : x ∈ rangeN a b ↔ a ≤ x ∧ x < b := by
  simp only [rangeN, List.mem_map, List.mem_range]
  constructor
  · rintro ⟨i, hi, rfl⟩; omega
  · rintro ⟨h1, h2⟩; exact ⟨x - a, by omega, by omega⟩

theorem mem_idx {n x : Nat} : x ∈ idx n ↔ 1 ≤ x ∧ x ≤ n := by
  simp only [idx, mem_rangeN]; omega

theorem rangeN_pairwise_lt (a b : Nat) : (rangeN a b).Pairwise (· < ·) := by
  simp only [rangeN, List.pairwise_map]
  exact List.Pairwise.imp (by intro x y h; omega) List.pairwise_lt_range

theorem idx_pairwise_lt (n : Nat) : (idx n).Pairwise (· < ·) := rangeN_pairwise_lt _ _

theorem idx_nodup (n : Nat) : (idx n).Nodup :=
  (idx_pairwise_lt n).imp (by intro a b h; omega)

theorem length_idx (n : Nat) : (idx n).length = n := by simp [idx, rangeN]

/-! ### literals -/

theorem litHolds_natCast (α : Assign) {x : Nat} (h : 0 < x) : litHolds α ((x : Nat) : Int) = α x := by
  simp [litHolds]; omega

theorem litHolds_neg_natCast (α : Assign) (x : Nat) :
    litHolds α (-((x : Nat) : Int)) = !α x := by
  simp [litHolds]

theorem clauseHolds_map_natCast {β : Type} (α : Assign) (l : List β) (f : β → Nat)
    (h : ∀ b ∈ l, 0 < f b) :
    clauseHolds α (l.map (fun b => ((f b : Nat) : Int))) = l.any (fun b => α (f b)) := by
  induction l with
  | nil => simp [clauseHolds]
  | cons x xs ih =>
    have hx := h x (by simp)
    have := ih (fun b hb => h b (by simp [hb]))
    simp only [clauseHolds, List.map_cons, List.any_cons] at this ⊢
    rw [this, litHolds_natCast α hx]

theorem count_map_natCast {β : Type} (α : Assign) (l : List β) (f : β → Nat)
    (h : ∀ b ∈ l, 0 < f b) :
    count α (l.map (fun b => ((f b : Nat) : Int))) = l.countP (fun b => α (f b)) := by
  induction l with
  | nil => simp [count]
  | cons x xs ih =>
    have hx := h x (by simp)
    have := ih (fun b hb => h b (by simp [hb]))
    simp only [count, List.map_cons, List.countP_cons] at this ⊢
    rw [this, litHolds_natCast α hx]

/-! ### counting on duplicate-free lists -/

theorem countP_le_one_iff_nodup {β : Type} (l : List β) (p : β → Bool) (hl : l.Nodup) :
    l.countP p ≤ 1 ↔ ∀ a ∈ l, ∀ b ∈ l, p a = true → p b = true → a = b := by
  induction l with
  | nil => simp
  | cons x xs ih =>
    have hx : x ∉ xs := (List.nodup_cons.1 hl).1
    have ih := ih (List.nodup_cons.1 hl).2
    rw [List.countP_cons]
    by_cases hp : p x = true
    · simp only [hp, if_true]
      constructor
      · intro h
        have h0 : xs.countP p = 0 := by omega
        rw [List.countP_eq_zero] at h0
        intro a ha b hb pa pb
        rcases List.mem_cons.1 ha with rfl | ha'
        · rcases List.mem_cons.1 hb with rfl | hb'
          · rfl
          · exact absurd pb (h0 b hb')
        · exact absurd pa (h0 a ha')
      · intro h
        have : xs.countP p = 0 := by
          rw [List.countP_eq_zero]
          intro b hb pb
          have := h x (by simp) b (by simp [hb]) hp pb
          exact hx (this ▸ hb)
        omega
    · simp only [hp]
      simp only [Bool.false_eq_true, if_false, Nat.add_zero]
      rw [ih]
      constructor
      · intro h a ha b hb pa pb
        rcases List.mem_cons.1 ha with rfl | ha'
        · exact absurd pa hp
        · rcases List.mem_cons.1 hb with rfl | hb'
          · exact absurd pb hp
          · exact h a ha' b hb' pa pb
      · intro h a ha b hb pa pb
        exact h a (by simp [ha]) b (by simp [hb]) pa pb

theorem countP_pos_iff {β : Type} (l : List β) (p : β → Bool) :
    0 < l.countP p ↔ ∃ a ∈ l, p a = true := by
  simp [List.countP_pos_iff]

theorem countP_eq_one_iff {β : Type} (l : List β) (p : β → Bool) (hl : l.Nodup) :
    l.countP p = 1 ↔ (∃ a ∈ l, p a = true) ∧ ∀ a ∈ l, ∀ b ∈ l, p a = true → p b = true → a = b := by
  rw [← countP_le_one_iff_nodup l p hl, ← countP_pos_iff]; omega

/-! ### `pairs` = `itertools.combinations(·, 2)` -/

theorem mem_pairs_of_pairwise {β : Type} {R : β → β → Prop} (l : List β) (hl : l.Pairwise R) (a b : β) :
    (a, b) ∈ pairs l → a ∈ l ∧ b ∈ l ∧ R a b := by
  induction l with
  | nil => simp [pairs]
  | cons x xs ih =>
    simp only [pairs, List.mem_append, List.mem_map, Prod.mk.injEq]
    rintro (⟨y, hy, rfl, rfl⟩ | h)
    · exact ⟨by simp, by simp [hy], (List.pairwise_cons.1 hl).1 y hy⟩
    · have := ih (List.pairwise_cons.1 hl).2 h
      exact ⟨by simp [this.1], by simp [this.2.1], this.2.2⟩

theorem mem_pairs_idx {n a b : Nat} : (a, b) ∈ pairs (idx n) ↔ 1 ≤ a ∧ a < b ∧ b ≤ n := by
  constructor
  · intro h
    have := mem_pairs_of_pairwise (idx n) (idx_pairwise_lt n) a b h
    rw [mem_idx, mem_idx] at this; omega
  · -- any two members in increasing order of a strictly sorted list form a pair
    have key : ∀ l : List Nat, l.Pairwise (· < ·) → a ∈ l → b ∈ l → a < b → (a, b) ∈ pairs l := by
      intro l
      induction l with
      | nil => simp
      | cons x xs ih =>
        intro hl ha hb hab
        have hp := List.pairwise_cons.1 hl
        simp only [pairs, List.mem_append, List.mem_map, Prod.mk.injEq]
        rcases List.mem_cons.1 ha with rfl | ha'
        · rcases List.mem_cons.1 hb with rfl | hb'
          · omega
          · exact Or.inl ⟨b, hb', rfl, rfl⟩
        · rcases List.mem_cons.1 hb with rfl | hb'
          · have := hp.1 a ha'; omega
          · exact Or.inr (ih hp.2 ha' hb' hab)
    intro h
    exact key (idx n) (idx_pairwise_lt n) (mem_idx.2 (by omega)) (mem_idx.2 (by omega)) h.2.1

/-! ### formulas as conjunctions -/

theorem Formula.holds_mk (α : Assign) (n : Nat) (cs : List Con) :
    Formula.holds α ⟨n, cs⟩ = cs.all (Con.holds α) := rfl

end Cnfgen.Fam
