/-
Unary mappings over the complete bipartite graph (`new_mapping`): identifier arithmetic
(bounds, injectivity, decoding) and the meaning of the four `force_*_mapping` generators.
-/
import Lemmas.C01Basic
namespace Cnfgen.Fam
open Cnfgen

namespace UMap

theorem var_eq (f : UMap) (u v : Nat) : f.var u v = f.start + (u - 1) * f.rng + (v - 1) := rfl

theorem var_pos (f : UMap) (hs : 0 < f.start) (u v : Nat) : 0 < f.var u v := by
  rw [var_eq]; omega

theorem var_ge (f : UMap) (u v : Nat) : f.start ≤ f.var u v := by
  rw [var_eq]; omega

theorem var_lt (f : UMap) {u v : Nat} (hu1 : 1 ≤ u) (hu : u ≤ f.dom) (hv1 : 1 ≤ v) (hv : v ≤ f.rng) :
    f.var u v < f.start + f.dom * f.rng := by
  rw [var_eq]
  have h1 : (u - 1) * f.rng + f.rng ≤ f.dom * f.rng := by
    have : (u - 1 + 1) * f.rng ≤ f.dom * f.rng := Nat.mul_le_mul_right _ (by omega)
    rw [Nat.add_mul] at this; omega
  omega

/-- `to_index`, first coordinate -/
def decU (f : UMap) (x : Nat) : Nat := (x - f.start) / f.rng + 1
/-- `to_index`, second coordinate -/
def decV (f : UMap) (x : Nat) : Nat := (x - f.start) % f.rng + 1

theorem decU_var (f : UMap) {u v : Nat} (hu1 : 1 ≤ u) (hv1 : 1 ≤ v) (hv : v ≤ f.rng) :
    f.decU (f.var u v) = u := by
  have hr : 0 < f.rng := by omega
  have : f.var u v - f.start = (v - 1) + (u - 1) * f.rng := by rw [var_eq]; omega
  rw [decU, this, Nat.add_mul_div_right _ _ hr, Nat.div_eq_of_lt (by omega)]; omega

theorem decV_var (f : UMap) {u v : Nat} (hv1 : 1 ≤ v) (hv : v ≤ f.rng) :
    f.decV (f.var u v) = v := by
  have : f.var u v - f.start = (v - 1) + (u - 1) * f.rng := by rw [var_eq]; omega
  rw [decV, this, Nat.add_mul_mod_self_right, Nat.mod_eq_of_lt (by omega)]; omega

theorem var_inj (f : UMap) {u v u' v' : Nat} (hu1 : 1 ≤ u) (hv1 : 1 ≤ v) (hv : v ≤ f.rng)
    (hu1' : 1 ≤ u') (hv1' : 1 ≤ v') (hv' : v' ≤ f.rng) (h : f.var u v = f.var u' v') :
    u = u' ∧ v = v' := by
  constructor
  · rw [← f.decU_var hu1 hv1 hv, h, f.decU_var hu1' hv1' hv']
  · rw [← f.decV_var (u := u) hv1 hv, h, f.decV_var hv1' hv']

/-- every identifier of the group is `var u v` for a unique in-range pair -/
theorem var_dec (f : UMap) {x : Nat} (h1 : f.start ≤ x) (h2 : x < f.start + f.dom * f.rng) :
    1 ≤ f.decU x ∧ f.decU x ≤ f.dom ∧ 1 ≤ f.decV x ∧ f.decV x ≤ f.rng ∧ f.var (f.decU x) (f.decV x) = x := by
  have hr : 0 < f.rng := by
    rcases Nat.eq_zero_or_pos f.rng with h | h
    · rw [h] at h2; omega
    · exact h
  have hd : (x - f.start) / f.rng < f.dom := by
    rw [Nat.div_lt_iff_lt_mul hr]; omega
  have hm : (x - f.start) % f.rng < f.rng := Nat.mod_lt _ hr
  have hdm := Nat.div_add_mod (x - f.start) f.rng
  refine ⟨by simp [decU], by simp only [decU]; omega, by simp [decV], by simp only [decV]; omega, ?_⟩
  rw [var_eq]; simp only [decU, decV, Nat.add_sub_cancel]
  rw [Nat.mul_comm] at hdm; omega

/-! ### rows and columns -/

theorem row_eq (f : UMap) (u : Nat) : f.row u = (idx f.rng).map (fun v => ((f.var u v : Nat) : Int)) := rfl
theorem col_eq (f : UMap) (v : Nat) : f.col v = (idx f.dom).map (fun u => ((f.var u v : Nat) : Int)) := rfl

theorem clause_row (f : UMap) (hs : 0 < f.start) (α : Assign) (u : Nat) :
    clauseHolds α (f.row u) = true ↔ ∃ v, 1 ≤ v ∧ v ≤ f.rng ∧ α (f.var u v) = true := by
  rw [row_eq, clauseHolds_map_natCast α _ _ (fun v _ => f.var_pos hs u v)]
  simp only [List.any_eq_true, mem_idx]
  constructor
  · rintro ⟨v, ⟨h1, h2⟩, h3⟩; exact ⟨v, h1, h2, h3⟩
  · rintro ⟨v, h1, h2, h3⟩; exact ⟨v, ⟨h1, h2⟩, h3⟩

theorem clause_col (f : UMap) (hs : 0 < f.start) (α : Assign) (v : Nat) :
    clauseHolds α (f.col v) = true ↔ ∃ u, 1 ≤ u ∧ u ≤ f.dom ∧ α (f.var u v) = true := by
  rw [col_eq, clauseHolds_map_natCast α _ _ (fun u _ => f.var_pos hs u v)]
  simp only [List.any_eq_true, mem_idx]
  constructor
  · rintro ⟨u, ⟨h1, h2⟩, h3⟩; exact ⟨u, h1, h2, h3⟩
  · rintro ⟨u, h1, h2, h3⟩; exact ⟨u, ⟨h1, h2⟩, h3⟩

theorem atMostOne_row (f : UMap) (hs : 0 < f.start) (α : Assign) (u : Nat) :
    (Con.lin (f.row u) .le 1).holds α = true ↔
      ∀ v, 1 ≤ v → v ≤ f.rng → ∀ v', 1 ≤ v' → v' ≤ f.rng →
        α (f.var u v) = true → α (f.var u v') = true → v = v' := by
  simp only [Con.holds, Op.denote, decide_eq_true_eq]
  rw [row_eq, count_map_natCast α _ _ (fun v _ => f.var_pos hs u v)]
  have := countP_le_one_iff_nodup (idx f.rng) (fun v => α (f.var u v)) (idx_nodup _)
  simp only [mem_idx] at this
  constructor
  · intro h v h1 h2 v' h1' h2' a a'
    exact this.1 (by omega) v ⟨h1, h2⟩ v' ⟨h1', h2'⟩ a a'
  · intro h
    have := this.2 (fun a ha b hb => h a ha.1 ha.2 b hb.1 hb.2)
    omega

theorem atMostOne_col (f : UMap) (hs : 0 < f.start) (α : Assign) (v : Nat) :
    (Con.lin (f.col v) .le 1).holds α = true ↔
      ∀ u, 1 ≤ u → u ≤ f.dom → ∀ u', 1 ≤ u' → u' ≤ f.dom →
        α (f.var u v) = true → α (f.var u' v) = true → u = u' := by
  simp only [Con.holds, Op.denote, decide_eq_true_eq]
  rw [col_eq, count_map_natCast α _ _ (fun u _ => f.var_pos hs u v)]
  have := countP_le_one_iff_nodup (idx f.dom) (fun u => α (f.var u v)) (idx_nodup _)
  simp only [mem_idx] at this
  constructor
  · intro h u h1 h2 u' h1' h2' a a'
    exact this.1 (by omega) u ⟨h1, h2⟩ u' ⟨h1', h2'⟩ a a'
  · intro h
    have := this.2 (fun a ha b hb => h a ha.1 ha.2 b hb.1 hb.2)
    omega

/-! ### the `force_*_mapping` generators -/

/-- the relation a truth assignment induces on a mapping group -/
def Rel (f : UMap) (α : Assign) (u v : Nat) : Prop := α (f.var u v) = true

/-- every element of the domain has an image -/
def Total (f : UMap) (R : Nat → Nat → Prop) : Prop :=
  ∀ u, 1 ≤ u → u ≤ f.dom → ∃ v, 1 ≤ v ∧ v ≤ f.rng ∧ R u v
/-- at most one image per element -/
def Functional (f : UMap) (R : Nat → Nat → Prop) : Prop :=
  ∀ u, 1 ≤ u → u ≤ f.dom → ∀ v, 1 ≤ v → v ≤ f.rng → ∀ v', 1 ≤ v' → v' ≤ f.rng → R u v → R u v' → v = v'
/-- every element of the range has a preimage -/
def Onto (f : UMap) (R : Nat → Nat → Prop) : Prop :=
  ∀ v, 1 ≤ v → v ≤ f.rng → ∃ u, 1 ≤ u ∧ u ≤ f.dom ∧ R u v
/-- at most one preimage per element -/
def Injective (f : UMap) (R : Nat → Nat → Prop) : Prop :=
  ∀ v, 1 ≤ v → v ≤ f.rng → ∀ u, 1 ≤ u → u ≤ f.dom → ∀ u', 1 ≤ u' → u' ≤ f.dom → R u v → R u' v → u = u'

theorem forceComplete_holds (f : UMap) (hs : 0 < f.start) (α : Assign) :
    f.forceComplete.all (Con.holds α) = true ↔ f.Total (f.Rel α) := by
  simp only [forceComplete, List.all_map, List.all_eq_true, mem_idx, Function.comp, Con.holds,
    clause_row f hs, Total, Rel]
  exact ⟨fun h u h1 h2 => h u ⟨h1, h2⟩, fun h u hu => h u hu.1 hu.2⟩

theorem forceSurjective_holds (f : UMap) (hs : 0 < f.start) (α : Assign) :
    f.forceSurjective.all (Con.holds α) = true ↔ f.Onto (f.Rel α) := by
  simp only [forceSurjective, List.all_map, List.all_eq_true, mem_idx, Function.comp, Con.holds,
    clause_col f hs, Onto, Rel]
  exact ⟨fun h u h1 h2 => h u ⟨h1, h2⟩, fun h u hu => h u hu.1 hu.2⟩

theorem forceFunctional_holds (f : UMap) (hs : 0 < f.start) (α : Assign) :
    f.forceFunctional.all (Con.holds α) = true ↔ f.Functional (f.Rel α) := by
  simp only [forceFunctional, List.all_map, List.all_eq_true, mem_idx, Function.comp,
    atMostOne_row f hs, Functional, Rel]
  exact ⟨fun h u h1 h2 => h u ⟨h1, h2⟩, fun h u hu => h u hu.1 hu.2⟩

theorem forceInjective_holds (f : UMap) (hs : 0 < f.start) (α : Assign) :
    f.forceInjective.all (Con.holds α) = true ↔ f.Injective (f.Rel α) := by
  simp only [forceInjective, List.all_map, List.all_eq_true, mem_idx, Function.comp,
    atMostOne_col f hs, Injective, Rel]
  exact ⟨fun h u h1 h2 => h u ⟨h1, h2⟩, fun h u hu => h u hu.1 hu.2⟩

/-! ### well-formedness of the generated constraints -/

/-- all literals of the constraint list are non-zero and within `N` -/
def ConsWF (N : Nat) (cs : List Con) : Prop := ∀ c ∈ cs, ∀ l ∈ c.lits, l ≠ 0 ∧ l.natAbs ≤ N

theorem lit_wf (f : UMap) (hs : 0 < f.start) {N : Nat} (hN : f.start + f.dom * f.rng ≤ N + 1)
    {u v : Nat} (hu : u ∈ idx f.dom) (hv : v ∈ idx f.rng) :
    f.lit u v ≠ 0 ∧ (f.lit u v).natAbs ≤ N := by
  rw [mem_idx] at hu hv
  have h1 := f.var_pos hs u v
  have h2 := f.var_lt hu.1 hu.2 hv.1 hv.2
  simp only [lit]; omega

theorem neg_lit_wf (f : UMap) (hs : 0 < f.start) {N : Nat} (hN : f.start + f.dom * f.rng ≤ N + 1)
    {u v : Nat} (hu : u ∈ idx f.dom) (hv : v ∈ idx f.rng) :
    -(f.lit u v) ≠ 0 ∧ (-(f.lit u v)).natAbs ≤ N := by
  have := f.lit_wf hs hN hu hv; omega

theorem row_wf (f : UMap) (hs : 0 < f.start) {N : Nat} (hN : f.start + f.dom * f.rng ≤ N + 1)
    {u : Nat} (hu : u ∈ idx f.dom) : ∀ l ∈ f.row u, l ≠ 0 ∧ l.natAbs ≤ N := by
  intro l hl
  simp only [row, List.mem_map] at hl
  obtain ⟨v, hv, rfl⟩ := hl
  exact f.lit_wf hs hN hu hv

theorem col_wf (f : UMap) (hs : 0 < f.start) {N : Nat} (hN : f.start + f.dom * f.rng ≤ N + 1)
    {v : Nat} (hv : v ∈ idx f.rng) : ∀ l ∈ f.col v, l ≠ 0 ∧ l.natAbs ≤ N := by
  intro l hl
  simp only [col, List.mem_map] at hl
  obtain ⟨u, hu, rfl⟩ := hl
  exact f.lit_wf hs hN hu hv

theorem forceComplete_wf (f : UMap) (hs : 0 < f.start) {N : Nat} (hN : f.start + f.dom * f.rng ≤ N + 1) :
    ConsWF N f.forceComplete := by
  intro c hc
  simp only [forceComplete, List.mem_map] at hc
  obtain ⟨u, hu, rfl⟩ := hc
  exact f.row_wf hs hN hu

theorem forceFunctional_wf (f : UMap) (hs : 0 < f.start) {N : Nat} (hN : f.start + f.dom * f.rng ≤ N + 1) :
    ConsWF N f.forceFunctional := by
  intro c hc
  simp only [forceFunctional, List.mem_map] at hc
  obtain ⟨u, hu, rfl⟩ := hc
  exact f.row_wf hs hN hu

theorem forceSurjective_wf (f : UMap) (hs : 0 < f.start) {N : Nat} (hN : f.start + f.dom * f.rng ≤ N + 1) :
    ConsWF N f.forceSurjective := by
  intro c hc
  simp only [forceSurjective, List.mem_map] at hc
  obtain ⟨v, hv, rfl⟩ := hc
  exact f.col_wf hs hN hv

theorem forceInjective_wf (f : UMap) (hs : 0 < f.start) {N : Nat} (hN : f.start + f.dom * f.rng ≤ N + 1) :
    ConsWF N f.forceInjective := by
  intro c hc
  simp only [forceInjective, List.mem_map] at hc
  obtain ⟨v, hv, rfl⟩ := hc
  exact f.col_wf hs hN hv

end UMap

theorem ConsWF_append {N : Nat} {a b : List Con} (ha : UMap.ConsWF N a) (hb : UMap.ConsWF N b) :
    UMap.ConsWF N (a ++ b) := by
  intro c hc
  rcases List.mem_append.1 hc with h | h
  · exact ha c h
  · exact hb c h

theorem ConsWF_nil {N : Nat} : UMap.ConsWF N [] := by intro c hc; simp at hc

theorem ConsWF_ite {N : Nat} {b : Bool} {a : List Con} (ha : UMap.ConsWF N a) :
    UMap.ConsWF N (if b then a else []) := by
  cases b
  · exact ConsWF_nil
  · exact ha

end Cnfgen.Fam
