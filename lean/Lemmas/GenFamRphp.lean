/-
Helper lemmas for the translated families that add their clauses with `check=True` and use complete mappings at an
arbitrary offset plus a block (`RelativizedPigeonholePrinciple`).
-/
import Lemmas.GenFam
import Props.C11.GeneratedCall
import Lemmas.VarsCall
set_option linter.unusedSimpArgs false
namespace Cnfgen.GenFam
open Cnfgen Cnfgen.Vars Cnfgen.PyGen Cnfgen.GenVars Cnfgen.C11 Cnfgen.Fam Cnfgen.PyF

/-! ### `check=True`: nothing happens when the literals are variables the formula already has -/

theorem foldl_max_noop (c : List Int) (m : Int) (h : ∀ l ∈ c, (l.natAbs : Int) ≤ m) :
    c.foldl (fun m l => if (l.natAbs : Int) > m then (l.natAbs : Int) else m) m = m := by
  induction c with
  | nil => rfl
  | cons x xs ih =>
    have hx : ¬ ((x.natAbs : Int) > m) := by have := h x (by simp); omega
    simp only [List.foldl_cons, hx, if_false]
    exact ih (fun l hl => h l (by simp [hl]))

theorem check_and_update_noop (s : FState) (c : List Int)
    (h : ∀ l ∈ c, l ≠ 0 ∧ (l.natAbs : Int) ≤ s.numvar) : PyF.check_and_update s c = Except.ok s := by
  unfold PyF.check_and_update
  by_cases he : c.isEmpty = true
  · rw [if_pos he]
  · rw [if_neg he]
    have h0 : c.contains 0 = false := by
      rw [Bool.eq_false_iff]; intro hc
      exact (h 0 (by simpa using hc)).1 rfl
    rw [h0]
    simp only [Bool.false_eq_true, if_false]
    rw [foldl_max_noop c s.numvar (fun l hl => (h l hl).2)]

theorem add_clause_checked (s : FState) (c : List Int) (h : ∀ l ∈ c, l ≠ 0 ∧ (l.natAbs : Int) ≤ s.numvar) :
    PyF.add_clause s c true = Except.ok (push s (.clause c)) := by
  simp [PyF.add_clause, PyF.checked, check_and_update_noop s c h]

theorem cardinality_leq_checked (s : FState) (c : List Int) (v : Int)
    (h : ∀ l ∈ c, l ≠ 0 ∧ (l.natAbs : Int) ≤ s.numvar) :
    PyF.cardinality_leq s c v true = Except.ok (push s (.lin c .le v)) := by
  simp [PyF.cardinality_leq, PyF.add_linear, Op.ofString?, PyF.checked, check_and_update_noop s c h]

theorem cardinality_eq_checked (s : FState) (c : List Int) (v : Int)
    (h : ∀ l ∈ c, l ≠ 0 ∧ (l.natAbs : Int) ≤ s.numvar) :
    PyF.cardinality_eq s c v true = Except.ok (push s (.lin c .eq v)) := by
  simp [PyF.cardinality_eq, PyF.add_linear, Op.ofString?, PyF.checked, check_and_update_noop s c h]

/-- a loop adding one constraint per element while the number of variables stays `N` -/
theorem foldlM_push_nv {α : Type} (N : Int) (xs : List α) (body : FState → α → Except Err FState) (c : α → Con)
    (h : ∀ s x, x ∈ xs → s.numvar = N → body s x = Except.ok (push s (c x))) (s : FState) (hs : s.numvar = N) :
    List.foldlM body s xs = Except.ok { s with cons := s.cons ++ xs.map c } := by
  induction xs generalizing s with
  | nil => simp
  | cons x xs ih =>
    rw [List.foldlM_cons, h s x (by simp) hs, Py.ok_bind,
      ih (fun s y hy => h s y (by simp [hy])) (push s (c x)) (by simpa [push] using hs)]
    simp [push]

/-- `check=True` on a constraint whose literals a well-formed formula with `N` variables allows -/
theorem lits_ok_of_wf {F : Formula} (hF : F.WF) {c : Con} (hc : c ∈ F.cons) (s : FState) (hs : s.numvar = F.nvars) :
    ∀ l ∈ c.lits, l ≠ 0 ∧ (l.natAbs : Int) ≤ s.numvar := by
  intro l hl
  have := hF c hc l hl
  exact ⟨this.1, by rw [hs]; exact_mod_cast this.2⟩

theorem add_clause_wf {F : Formula} (hF : F.WF) (s : FState) (hs : s.numvar = F.nvars) (c : List Int)
    (hc : Con.clause c ∈ F.cons) :
    ((PyF.add_clause s c true) >>= fun x => Except.ok x) = Except.ok (push s (.clause c)) := by
  rw [add_clause_checked s c (lits_ok_of_wf hF hc s hs)]; rfl

theorem cardinality_leq_wf {F : Formula} (hF : F.WF) (s : FState) (hs : s.numvar = F.nvars) (c : List Int) (v : Int)
    (hc : Con.lin c .le v ∈ F.cons) :
    ((PyF.cardinality_leq s c v true) >>= fun x => Except.ok x) = Except.ok (push s (.lin c .le v)) := by
  rw [cardinality_leq_checked s c v (lits_ok_of_wf hF hc s hs)]; rfl

theorem cardinality_eq_wf {F : Formula} (hF : F.WF) (s : FState) (hs : s.numvar = F.nvars) (c : List Int) (v : Int)
    (hc : Con.lin c .eq v ∈ F.cons) :
    ((PyF.cardinality_eq s c v true) >>= fun x => Except.ok x) = Except.ok (push s (.lin c .eq v)) := by
  rw [cardinality_eq_checked s c v (lits_ok_of_wf hF hc s hs)]; rfl

/-! ### lists of literals with entries computed by `group(…)` -/

theorem lits_inl (l : List Int) : PyF.lits (l.map Sum.inl) = Except.ok l := by
  induction l with
  | nil => rfl
  | cons a l ih =>
    simp only [PyF.lits, List.map_cons, List.mapM_cons] at ih ⊢
    rw [ih]; rfl

theorem lits_inl' {α : Type} (l : List α) (f : α → Int) :
    PyF.lits (l.map (fun a => (Sum.inl (f a) : Sum Int (List Int)))) = Except.ok (l.map f) := by
  have := lits_inl (l.map f)
  simpa [List.map_map, Function.comp_def] using this

theorem lits_two (a b : Int) : PyF.lits [Sum.inl a, Sum.inl b] = Except.ok [a, b] := lits_inl [a, b]

theorem lits_three (a b c : Int) : PyF.lits [Sum.inl a, Sum.inl b, Sum.inl c] = Except.ok [a, b, c] := lits_inl [a, b, c]

theorem lits_append_inl (l : List Int) (a : Int) :
    PyF.lits (l.map (fun z => (Sum.inl z : Sum Int (List Int))) ++ [Sum.inl a]) = Except.ok (l ++ [a]) := by
  have := lits_inl (l ++ [a])
  simpa [List.map_append] using this

/-! ### complete mappings at any offset -/

theorem bipId_complete_start (s m n u v : Nat) (hu : 1 ≤ u ∧ u ≤ m) (hv : 1 ≤ v ∧ v ≤ n) :
    Vars.bipId (BipG.complete m n) s u v = Vars.mapId s n u v := by
  rw [bipId_eq _ _ _ _ hu.1 hu.2, degSum_complete m n (u - 1) (by omega), BipG.complete_rnbrs hu, oneTo_eq_idx,
    idxOf_idx hv.1 hv.2]
  simp only [Vars.mapId]

theorem smap_row_complete_start (s m n u : Nat) (hu : 1 ≤ u ∧ u ≤ m) :
    (SMap.mk (BipG.complete m n) s).row u = (UMap.mk s m n).row u := by
  simp only [SMap.row, UMap.row, BipG.complete_rnbrs hu, oneTo_eq_idx]
  apply List.map_congr_left
  intro v hv
  rw [mem_idx] at hv
  simp only [SMap.lit, SMap.var, UMap.lit, UMap.var, bipId_complete_start s m n u v hu hv]

theorem smap_col_complete_start (s m n v : Nat) (hv : 1 ≤ v ∧ v ≤ n) :
    (SMap.mk (BipG.complete m n) s).col v = (UMap.mk s m n).col v := by
  simp only [SMap.col, UMap.col, BipG.complete_lnbrs hv, oneTo_eq_idx]
  apply List.map_congr_left
  intro u hu
  rw [mem_idx] at hu
  simp only [SMap.lit, SMap.var, UMap.lit, UMap.var, bipId_complete_start s m n u v hu hv]

/-- `p(u, v)` on a complete mapping -/
theorem unary_call_pair_complete (nv m n u v : Nat) (hu : 1 ≤ u ∧ u ≤ m) (hv : 1 ≤ v ∧ v ≤ n) :
    UnaryMappingVariables.call (unarySelf nv (BipG.complete m n)) [some (u : Int), some (v : Int)] =
      Except.ok (Sum.inl ((UMap.mk (nv + 1) m n).lit u v)) := by
  have h := gen_bip_call_pair nv (BipG.wf_complete m n) u v
  have he : (BipG.complete m n).hasEdge u v = true := by
    rw [BipG.hasEdge_iff_mem]
    refine ⟨by omega, by omega, ?_⟩
    simpa using (BipG.mem_completeB_edgeset m n u v).2 ⟨hu.1, hu.2, hv.1, hv.2⟩
  rw [if_pos he] at h
  rw [gen_unary_call_eq_bip]
  simp only [unaryToBip_unarySelf, h, UMap.lit, UMap.var, bipId_complete_start (nv + 1) m n u v hu hv]

/-! ### a block created after other groups -/

theorem block_ids (nv : Nat) (ranges : List Nat) :
    (blockSelf nv ranges).ids = ⟨(nv : Int) + 1, (nv : Int) + ((blockSize ranges : Nat) : Int) + 1⟩ := rfl

theorem add_variable_group_block_eq (s : FState) (nv : Nat) (ranges : List Nat) (hs : s.numvar = nv) :
    VariablesManager.add_variable_group_block s (blockSelf nv ranges) =
      Except.ok { s with numvar := ((nv + blockSize ranges : Nat) : Int) } := by
  simp only [VariablesManager.add_variable_group_block, BlockOfVariables.len, BlockOfVariables.getitem,
    block_ids, range_len']
  by_cases hE : blockSize ranges = 0
  · have : ((blockSize ranges : Nat) : Int) = 0 := by omega
    rw [if_pos this]
    cases s
    simp only at hs
    simp [hs, hE]
  · have h0 : ¬ (((blockSize ranges : Nat) : Int) = 0) := by omega
    rw [if_neg h0, range_get_first _ _ (by omega), range_get_last _ _ (by omega)]
    simp only [Py.ok_bind, PyF.number_of_variables, PyF.update_variable_number, hs]
    have h1 : (nv : Int) + ((blockSize ranges : Nat) : Int) ≥ (nv : Int) + 1 := by omega
    have h2 : ¬ ((nv : Int) + 1 ≤ (nv : Int)) := by omega
    have h3 : ¬ ((nv : Int) + ((blockSize ranges : Nat) : Int) < 0) := by omega
    have h4 : (nv : Int) + ((blockSize ranges : Nat) : Int) > (nv : Int) := by omega
    simp only [h1, if_true, h2, if_false, h3, h4]
    congr 2

/-- `new_block(V, label=…)` with one positive range and a label that formats -/
theorem new_block_one_eq (s : FState) (nv : Nat) (hs : s.numvar = nv) (V : Nat) :
    VariablesManager.new_block s [(V : Int)] (Except.ok ()) =
      Except.ok (blockSelf nv [V], { s with numvar := ((nv + V : Nat) : Int) }) := by
  unfold VariablesManager.new_block
  rw [hs, gen_block_init_eq]
  have hneg : ¬ (List.any [(V : Int)] (· < 0) = true) := by simp
  simp only [Py.tryExcept, List.cons_ne_nil, if_false, hneg, Py.ok_bind, List.map_cons, List.map_nil, Int.toNat_natCast,
    Bool.false_eq_true]
  rw [add_variable_group_block_eq s nv _ hs, Py.ok_bind]
  simp [blockSize]

/-- `r(v)` on a one-dimensional block -/
theorem block_call_one (nv V v : Nat) (hv : 1 ≤ v ∧ v ≤ V) :
    BlockOfVariables.call (blockSelf nv [V]) [some (v : Int)] =
      Except.ok (Sum.inl ((blockId (nv + 1) [V] [v] : Nat) : Int)) := by
  rw [gen_block_call_eq_model]
  have hl : LegalIdx [V] [v] := by simp [LegalIdx, hv]
  have := (block_call_full (nv + 1) [V] "" (idx := [v]) (by simp)).1 hl
  simp only [Group.call, natPat, List.map_cons, List.map_nil] at this
  rw [this]
  rfl

end Cnfgen.GenFam
