/-
Lemmas for T-C11.3 — edge groups: `BipartiteEdgesVariables` (also unary / sparse mappings),
`GraphEdgesVariables`, `DiGraphEdgesVariables` (through their auxiliary bipartite graph).
Offsets are prefix sums of the right degrees, `bisect_right` inverts them.
-/
import CnfgenModel.Vars.Patterns
import Lemmas.BipWF
import Lemmas.IterNodup
namespace Cnfgen
namespace Vars

/-- number of edges of the left vertices `1 … i` -/
def degSum (G : BipG) (i : Nat) : Nat := ((List.range i).map (fun j => (G.rnbrs (j + 1)).length)).sum

theorem degSum_succ (G : BipG) (i : Nat) : degSum G (i + 1) = degSum G i + (G.rnbrs (i + 1)).length := by
  simp [degSum, List.range_succ]
theorem degSum_mono (G : BipG) {i j : Nat} (h : i ≤ j) : degSum G i ≤ degSum G j := by
  induction j with
  | zero =>
    have : i = 0 := by omega
    subst this; exact Nat.le_refl _
  | succ j ih =>
    by_cases hij : i = j + 1
    · subst hij; exact Nat.le_refl _
    · have := ih (by omega)
      rw [degSum_succ]; omega
theorem degSum_total {G : BipG} (h : G.WF) : degSum G G.l = G.numberOfEdges :=
  (BipG.numberOfEdges_eq_sum h).symm

theorem bipOffsets_foldl (G : BipG) (start n : Nat) :
    (List.range n).foldl (fun (acc : List Nat × Nat) i =>
      (acc.1 ++ [acc.2], acc.2 + (G.rnbrs (i + 1)).length)) ([], start) =
    ((List.range n).map (fun i => start + degSum G i), start + degSum G n) := by
  induction n with
  | zero => simp [degSum]
  | succ n ih =>
    rw [List.range_succ, List.foldl_append, ih]
    simp [degSum_succ, Nat.add_assoc]

/-- `offset[u] = start + (number of edges of the vertices before u)`: prefix sums -/
theorem bipOffsets_eq (G : BipG) (start : Nat) :
    bipOffsets G start = 0 :: (List.range G.l).map (fun i => start + degSum G i) := by
  unfold bipOffsets
  rw [bipOffsets_foldl]
theorem bipOffsets_getD (G : BipG) (start : Nat) {u : Nat} (hu : 1 ≤ u ∧ u ≤ G.l) :
    (bipOffsets G start).getD u 0 = start + degSum G (u - 1) := by
  rw [bipOffsets_eq]
  obtain ⟨k, rfl⟩ : ∃ k, u = k + 1 := ⟨u - 1, by omega⟩
  have hk : k < G.l := by omega
  simp [List.getD_eq_getElem?_getD, hk]

/-- the identifier of the `k`-th neighbour of `u` -/
theorem bipId_getElem {G : BipG} (h : G.WF) (start : Nat) {u k : Nat} (hu : 1 ≤ u ∧ u ≤ G.l)
    (hk : k < (G.rnbrs u).length) :
    bipId G start u ((G.rnbrs u)[k]) = start + degSum G (u - 1) + k := by
  unfold bipId
  rw [bipOffsets_getD G start hu, List.Nodup.idxOf_getElem (nodup_of_pairwise_lt (h.row_sorted u))]

/-- the identifier of an edge: offset of the row plus the position in the row -/
theorem bipId_edge {G : BipG} (h : G.WF) (start : Nat) {u v : Nat} (he : (u, v) ∈ G.edgeset) :
    bipId G start u v = start + degSum G (u - 1) + (G.rnbrs u).idxOf v ∧
    (G.rnbrs u).idxOf v < (G.rnbrs u).length ∧ 1 ≤ u ∧ u ≤ G.l := by
  have hr := h.edge_range u v he
  have hm : v ∈ G.rnbrs u := (h.mem_row u v).2 he
  refine ⟨?_, List.idxOf_lt_length_iff.2 hm, hr.1, hr.2.1⟩
  unfold bipId
  rw [bipOffsets_getD G start ⟨hr.1, hr.2.1⟩]

theorem bipId_range {G : BipG} (h : G.WF) (start : Nat) {u v : Nat} (he : (u, v) ∈ G.edgeset) :
    start ≤ bipId G start u v ∧ bipId G start u v < start + G.numberOfEdges := by
  obtain ⟨hid, hk, hu1, hu2⟩ := bipId_edge h start he
  have h1 := degSum_succ G (u - 1)
  have h2 : u - 1 + 1 = u := by omega
  rw [h2] at h1
  have h3 := degSum_mono G hu2
  rw [degSum_total h] at h3
  omega

theorem map_idxOf_eq_range' {l : List Nat} (hl : l.Nodup) (c : Nat) :
    l.map (fun v => c + l.idxOf v) = List.range' c l.length := by
  apply List.ext_getElem
  · simp
  · intro i h1 h2
    simp only [List.getElem_map, List.getElem_range']
    rw [List.Nodup.idxOf_getElem hl]
    omega

theorem bip_ids_aux {G : BipG} (h : G.WF) (start : Nat) (n : Nat) (hn : n ≤ G.l) :
    ((List.range n).flatMap (fun i => (G.rnbrs (i + 1)).map (fun v => (i + 1, v)))).map
      (fun e => bipId G start e.1 e.2) = List.range' start (degSum G n) := by
  induction n with
  | zero => simp [degSum]
  | succ n ih =>
    rw [List.range_succ, List.flatMap_append, List.map_append, ih (by omega), degSum_succ,
      ← List.range'_append_1]
    congr 1
    simp only [List.flatMap_cons, List.flatMap_nil, List.append_nil, List.map_map]
    rw [← map_idxOf_eq_range' (nodup_of_pairwise_lt (h.row_sorted (n + 1)))]
    apply List.map_congr_left
    intro v hv
    simp only [Function.comp]
    unfold bipId
    rw [bipOffsets_getD G start ⟨by omega, by omega⟩]
    simp

/-- contiguity: the edges in the order of `indices()` get `start, start+1, …` -/
theorem bip_ids {G : BipG} (h : G.WF) (start : Nat) :
    G.edges.map (fun e => bipId G start e.1 e.2) = List.range' start G.numberOfEdges := by
  rw [← degSum_total h]
  exact bip_ids_aux h start G.l (Nat.le_refl _)

/-- `bipId` is injective on the edges -/
theorem bipId_inj {G : BipG} (h : G.WF) (start : Nat) {u v u' v' : Nat}
    (he : (u, v) ∈ G.edgeset) (he' : (u', v') ∈ G.edgeset)
    (hid : bipId G start u v = bipId G start u' v') : u = u' ∧ v = v' := by
  have hnd : (G.edges.map (fun e => bipId G start e.1 e.2)).Nodup := by
    rw [bip_ids h]; exact List.nodup_range'
  have := List.inj_on_of_nodup_map hnd ((BipG.mem_edges h u v).2 he)
    ((BipG.mem_edges h u' v').2 he') hid
  exact Prod.mk.injEq _ _ _ _ ▸ this

/-- `bisect_right` as modelled: the length of the longest prefix of entries `≤ x` -/
theorem bisectRight_eq {l : List Nat} {x k : Nat} (hk : k ≤ l.length)
    (h1 : ∀ i, i < k → l.getD i 0 ≤ x) (h2 : k < l.length → x < l.getD k 0) :
    bisectRight l x = k := by
  induction l generalizing k with
  | nil => simp at hk; subst hk; rfl
  | cons y ys ih =>
    unfold bisectRight
    cases k with
    | zero =>
      have := h2 (by simp)
      simp at this
      rw [if_neg (by omega)]
    | succ k =>
      have h0 := h1 0 (by omega)
      simp at h0
      rw [if_pos h0]
      congr 1
      apply ih
      · simpa using hk
      · intro i hi
        have := h1 (i + 1) (by omega)
        simpa using this
      · intro hlt
        have := h2 (by simpa using hlt)
        simpa using this

theorem bipIndex_of_natAbs {G : BipG} (h : G.WF) (start : Nat) {u v : Nat} (he : (u, v) ∈ G.edgeset)
    {lit : Int} (hl : lit.natAbs = bipId G start u v) : bipIndex G start lit = .ok (u, v) := by
  obtain ⟨hid, hk, hu1, hu2⟩ := bipId_edge h start he
  have hrange := bipId_range h start he
  have hsucc := degSum_succ G (u - 1)
  have h2 : u - 1 + 1 = u := by omega
  rw [h2] at hsucc
  have hoffs : (bipOffsets G start).drop 1 = (List.range G.l).map (fun i => start + degSum G i) := by
    rw [bipOffsets_eq]; rfl
  have hget : ∀ i, i < G.l →
      ((List.range G.l).map (fun i => start + degSum G i)).getD i 0 = start + degSum G i := by
    intro i hi
    simp [List.getD_eq_getElem?_getD, hi]
  have hbis : bisectRight ((bipOffsets G start).drop 1) (bipId G start u v) = u := by
    rw [hoffs]
    apply bisectRight_eq
    · simpa using hu2
    · intro i hi
      rw [hget i (by omega)]
      have := degSum_mono G (show i ≤ u - 1 by omega)
      omega
    · intro hlt
      rw [hget u (by simpa using hlt)]
      omega
  have hoff : ((bipOffsets G start).drop 1).getD (u - 1) 0 = start + degSum G (u - 1) := by
    rw [hoffs, hget _ (by omega)]
  have hvidx : bipId G start u v - (start + degSum G (u - 1)) = (G.rnbrs u).idxOf v := by omega
  have hv : (G.rnbrs u)[(G.rnbrs u).idxOf v]? = some v := by
    rw [List.getElem?_eq_getElem hk, List.getElem_idxOf]
  have hedge : G.hasEdge (u : Int) (v : Int) = true := by
    rw [BipG.hasEdge_iff_mem]
    exact ⟨by omega, by omega, by simpa using he⟩
  unfold bipIndex
  simp only [hl]
  rw [if_pos hrange]
  simp only [hbis, hoff, hvidx, hv, hedge]
  simp

/-- edge → id → edge, both polarities (in particular: no IndexError, no AssertionError) -/
theorem bipIndex_bipId {G : BipG} (h : G.WF) (start : Nat) {u v : Nat} (he : (u, v) ∈ G.edgeset) :
    bipIndex G start (bipId G start u v : Int) = .ok (u, v) ∧
    bipIndex G start (-(bipId G start u v : Int)) = .ok (u, v) :=
  ⟨bipIndex_of_natAbs h start he (by simp), bipIndex_of_natAbs h start he (by simp)⟩

set_option linter.unusedVariables false in
/-- id → edge → id -/
theorem bipId_bipIndex {G : BipG} (h : G.WF) {start : Nat} {lit : Int} {u v : Nat}
    (hi : bipIndex G start lit = .ok (u, v)) :
    (u, v) ∈ G.edgeset ∧ bipId G start u v = lit.natAbs := by
  unfold bipIndex at hi
  simp only at hi
  split at hi
  · split at hi
    · cases hi
    · rename_i w hw
      split at hi
      · cases hi
      · rename_i hh
        split at hi
        · cases hi
        · rename_i hid
          injection hi with hi
          rw [Prod.mk.injEq] at hi
          obtain ⟨hu, hv⟩ := hi
          subst hv
          rw [hu] at hh hid
          have hh' := (BipG.hasEdge_iff_mem G _ _).1 (Classical.not_not.1 hh)
          exact ⟨by simpa using hh'.2.2, Classical.not_not.1 hid⟩
  · cases hi

/-- `to_index` is defined exactly on the literals of the group; otherwise ValueError -/
theorem bipIndex_isOk_iff {G : BipG} (h : G.WF) (start : Nat) (lit : Int) :
    (∃ p, bipIndex G start lit = .ok p) ↔ (start ≤ lit.natAbs ∧ lit.natAbs < start + G.numberOfEdges) := by
  constructor
  · rintro ⟨p, hp⟩
    unfold bipIndex at hp
    simp only at hp
    split at hp
    · assumption
    · cases hp
  · intro hr
    have hmem : lit.natAbs ∈ G.edges.map (fun e => bipId G start e.1 e.2) := by
      rw [bip_ids h, List.mem_range'_1]; exact hr
    rw [List.mem_map] at hmem
    obtain ⟨⟨u, v⟩, he, hid⟩ := hmem
    exact ⟨(u, v), bipIndex_of_natAbs h start ((BipG.mem_edges h u v).1 he) hid.symm⟩
theorem bipIndex_error {G : BipG} (h : G.WF) {start : Nat} {lit : Int} {e : Err}
    (he : bipIndex G start lit = .error e) : e = .valueError := by
  by_cases hr : start ≤ lit.natAbs ∧ lit.natAbs < start + G.numberOfEdges
  · obtain ⟨p, hp⟩ := (bipIndex_isOk_iff h start lit).2 hr
    rw [hp] at he; cases he
  · unfold bipIndex at he
    simp only at he
    rw [if_neg hr] at he
    injection he with he
    exact he.symm

/-! ### patterns -/

/-- pattern matching on pairs (ordered) -/
def edgeMatches (pat : Pattern) (p : Nat × Nat) : Bool :=
  match pat with
  | [] => true
  | [a, b] => (match a with | none => true | some x => decide (x = (p.1 : Int))) &&
              (match b with | none => true | some y => decide (y = (p.2 : Int)))
  | _ => false

/-- lexicographic order on pairs: the order of the edge enumeration -/
def lexLt (p q : Nat × Nat) : Prop := p.1 < q.1 ∨ (p.1 = q.1 ∧ p.2 < q.2)

/-- two lists of pairs, strictly increasing for `lexLt`, with the same members are equal -/
theorem eq_of_pairwise_lexLt_of_mem_iff {l₁ l₂ : List (Nat × Nat)} (h₁ : l₁.Pairwise lexLt)
    (h₂ : l₂.Pairwise lexLt) (hm : ∀ x, x ∈ l₁ ↔ x ∈ l₂) : l₁ = l₂ := by
  have nd : ∀ {l : List (Nat × Nat)}, l.Pairwise lexLt → l.Nodup := by
    intro l hl
    refine hl.imp ?_
    intro a b hab heq
    subst heq
    unfold lexLt at hab
    omega
  refine List.Perm.eq_of_pairwise (le := lexLt) ?_ h₁ h₂ ?_
  · intro a b _ _ hab hba
    unfold lexLt at hab hba
    omega
  · exact (List.perm_ext_iff_of_nodup (nd h₁) (nd h₂)).2 hm

/-- the edge enumeration is strictly increasing in lexicographic order -/
theorem edges_pairwise_lexLt {G : BipG} (h : G.WF) : G.edges.Pairwise lexLt := by
  unfold BipG.edges
  rw [List.pairwise_flatMap]
  constructor
  · intro i _
    rw [List.pairwise_map]
    exact (h.row_sorted (i + 1)).imp (fun hab => Or.inr ⟨rfl, hab⟩)
  · refine List.pairwise_lt_range.imp ?_
    intro i j hij x hx y hy
    simp only [List.mem_map] at hx hy
    obtain ⟨a, _, rfl⟩ := hx
    obtain ⟨b, _, rfl⟩ := hy
    exact Or.inl (by simpa using hij)

theorem mem_edges_filter {G : BipG} (h : G.WF) (p : Nat × Nat → Bool) (x : Nat × Nat) :
    x ∈ G.edges.filter p ↔ x ∈ G.edgeset ∧ p x = true := by
  obtain ⟨a, b⟩ := x
  rw [List.mem_filter, BipG.mem_edges h]

/-- a `lexLt`-increasing list with the members of a filter of the enumeration is that filter -/
theorem edges_filter_eq {G : BipG} (h : G.WF) (p : Nat × Nat → Bool) {l : List (Nat × Nat)}
    (hl : l.Pairwise lexLt) (hm : ∀ a b, (a, b) ∈ l ↔ (a, b) ∈ G.edgeset ∧ p (a, b) = true) :
    G.edges.filter p = l := by
  refine eq_of_pairwise_lexLt_of_mem_iff ((edges_pairwise_lexLt h).filter _) hl ?_
  rintro ⟨a, b⟩
  rw [mem_edges_filter h, hm]

/-- `indices()` / `indices(None, None)`: all edges -/
theorem bipIndices_all (G : BipG) : bipIndices G [] = .ok G.edges ∧ bipIndices G [none, none] = .ok G.edges :=
  ⟨rfl, rfl⟩

theorem row_pairwise_lexLt {G : BipG} (h : G.WF) (a : Nat) :
    ((G.rnbrs a).map (fun v => (a, v))).Pairwise lexLt := by
  rw [List.pairwise_map]
  exact (h.row_sorted a).imp (fun hab => Or.inr ⟨rfl, hab⟩)

theorem col_pairwise_lexLt {G : BipG} (h : G.WF) (b : Nat) :
    ((G.lnbrs b).map (fun u => (u, b))).Pairwise lexLt := by
  rw [List.pairwise_map]
  exact (h.col_sorted b).imp (fun hab => Or.inl hab)

/-- `indices(u, None)`: the edges of `u`, in identifier order; ValueError iff `u` is not a left vertex -/
theorem bipIndices_row {G : BipG} (h : G.WF) (u : Int) :
    bipIndices G [some u, none] =
      if 1 ≤ u ∧ u ≤ G.l then .ok (G.edges.filter (edgeMatches [some u, none])) else .error .valueError := by
  unfold bipIndices
  by_cases hu : 1 ≤ u ∧ u ≤ G.l
  · simp only [hu, and_self, not_true_eq_false, if_false, if_true]
    congr 1
    symm
    apply edges_filter_eq h _ (row_pairwise_lexLt h _)
    intro a b
    simp only [List.mem_map, Prod.mk.injEq, edgeMatches, Bool.and_true, decide_eq_true_eq]
    constructor
    · rintro ⟨v, hv, rfl, rfl⟩
      exact ⟨(h.mem_row _ _).1 hv, by omega⟩
    · rintro ⟨he, hua⟩
      have : u.toNat = a := by omega
      exact ⟨b, (h.mem_row _ _).2 (this ▸ he), this, rfl⟩
  · simp only [hu, not_false_eq_true, if_true, if_false]

/-- `indices(None, v)` -/
theorem bipIndices_col {G : BipG} (h : G.WF) (v : Int) :
    bipIndices G [none, some v] =
      if 1 ≤ v ∧ v ≤ G.r then .ok (G.edges.filter (edgeMatches [none, some v])) else .error .valueError := by
  unfold bipIndices
  by_cases hv : 1 ≤ v ∧ v ≤ G.r
  · simp only [hv, and_self, not_true_eq_false, if_false, if_true]
    congr 1
    symm
    apply edges_filter_eq h _ (col_pairwise_lexLt h _)
    intro a b
    simp only [List.mem_map, Prod.mk.injEq, edgeMatches, Bool.true_and, decide_eq_true_eq]
    constructor
    · rintro ⟨w, hw, rfl, rfl⟩
      exact ⟨(h.mem_col _ _).1 hw, by omega⟩
    · rintro ⟨he, hvb⟩
      have : v.toNat = b := by omega
      exact ⟨a, (h.mem_col _ _).2 (this ▸ he), rfl, this⟩
  · simp only [hv, not_false_eq_true, if_true, if_false]

set_option linter.unusedVariables false in
/-- `indices(u, v)`: the edge itself iff it is an edge, else ValueError -/
theorem bipIndices_edge {G : BipG} (h : G.WF) (u v : Int) :
    bipIndices G [some u, some v] =
      if 0 ≤ u ∧ 0 ≤ v ∧ (u.toNat, v.toNat) ∈ G.edgeset then .ok [(u.toNat, v.toNat)] else .error .valueError := by
  unfold bipIndices
  simp only [Bool.not_eq_true]
  by_cases hh : G.hasEdge u v = true
  · rw [if_pos ((BipG.hasEdge_iff_mem G u v).1 hh)]
    simp [hh]
  · rw [if_neg (fun hc => hh ((BipG.hasEdge_iff_mem G u v).2 hc))]
    simp [hh]

/-- on an edge pattern the result is again the filter of the enumeration -/
theorem bipIndices_edge_filter {G : BipG} (h : G.WF) {u v : Nat} (he : (u, v) ∈ G.edgeset) :
    G.edges.filter (edgeMatches [some (u : Int), some (v : Int)]) = [(u, v)] := by
  apply edges_filter_eq h _ (List.pairwise_singleton _ _)
  intro a b
  simp only [List.mem_singleton, Prod.mk.injEq, edgeMatches, Bool.and_eq_true, decide_eq_true_eq]
  constructor
  · rintro ⟨rfl, rfl⟩
    exact ⟨he, rfl, rfl⟩
  · rintro ⟨_, h1, h2⟩
    omega

/-- any other arity: ValueError -/
theorem bipIndices_arity (G : BipG) {pat : Pattern} (h : pat.length ≠ 0 ∧ pat.length ≠ 2) :
    bipIndices G pat = .error .valueError := by
  match pat, h with
  | [], h => simp at h
  | [a], _ => cases a <;> rfl
  | [a, b], h => simp at h
  | a :: b :: c :: rest, _ => cases a <;> cases b <;> rfl

/-- every error of `indices` is a ValueError -/
theorem bipIndices_error {G : BipG} {pat : Pattern} {e : Err} (h : bipIndices G pat = .error e) :
    e = .valueError := by
  unfold bipIndices at h
  split at h
  · cases h
  · cases h
  · split at h
    · injection h with h; exact h.symm
    · cases h
  · split at h
    · injection h with h; exact h.symm
    · cases h
  · split at h
    · injection h with h; exact h.symm
    · cases h
  · injection h with h; exact h.symm

/-- the identifiers of a filtered enumeration are strictly increasing -/
theorem bip_filter_ids_sorted {G : BipG} (h : G.WF) (start : Nat) (p : Nat × Nat → Bool) :
    ((G.edges.filter p).map (fun e => bipId G start e.1 e.2)).Pairwise (· < ·) := by
  have hall : (G.edges.map (fun e => bipId G start e.1 e.2)).Pairwise (· < ·) := by
    rw [bip_ids h]
    exact List.pairwise_lt_range'
  rw [List.pairwise_map] at hall ⊢
  exact hall.filter _

/-! ### the auxiliary bipartite graphs of simple and directed graphs -/

/-- the step of `graphAux` -/
def graphStep (B : BipG) (e : Nat × Nat) : Except Err BipG :=
  let u : Int := min (e.1 : Int) (e.2 : Int); let v : Int := max (e.1 : Int) (e.2 : Int)
  if B.hasEdge u v then pure B else B.addEdge u v

theorem foldlM_cons_ok {α β : Type} {f : β → α → Except Err β} {b b' : β} {a : α} {as : List α}
    (h : (a :: as).foldlM f b = .ok b') : ∃ b₁, f b a = .ok b₁ ∧ as.foldlM f b₁ = .ok b' := by
  rw [List.foldlM_cons] at h
  cases hstep : f b a with
  | error x => rw [hstep] at h; cases h
  | ok b₁ => rw [hstep] at h; exact ⟨b₁, rfl, h⟩

theorem graphStep_spec {B B' : BipG} {e : Nat × Nat} (hw : B.WF) (h : graphStep B e = .ok B') :
    B'.WF ∧ B'.l = B.l ∧ B'.r = B.r ∧
    ∀ a b, (a, b) ∈ B'.edgeset ↔ ((a, b) ∈ B.edgeset ∨ (a = min e.1 e.2 ∧ b = max e.1 e.2)) := by
  unfold graphStep at h
  simp only at h
  split at h
  · rename_i hh
    injection h with h
    subst h
    refine ⟨hw, rfl, rfl, ?_⟩
    intro a b
    constructor
    · exact Or.inl
    · rintro (hm | ⟨rfl, rfl⟩)
      · exact hm
      · have := ((BipG.hasEdge_iff_mem B _ _).1 hh).2.2
        have e1 : (min (e.1 : Int) (e.2 : Int)).toNat = min e.1 e.2 := by omega
        have e2 : (max (e.1 : Int) (e.2 : Int)).toNat = max e.1 e.2 := by omega
        rw [e1, e2] at this
        exact this
  · refine ⟨BipG.wf_addEdge hw h, (BipG.addEdge_lr_wf h).1, (BipG.addEdge_lr_wf h).2, ?_⟩
    intro a b
    rw [BipG.mem_addEdge h]
    constructor
    · rintro (hm | ⟨h1, h2⟩)
      · exact Or.inl hm
      · exact Or.inr ⟨by omega, by omega⟩
    · rintro (hm | ⟨h1, h2⟩)
      · exact Or.inl hm
      · exact Or.inr ⟨by omega, by omega⟩

theorem graphFold_spec {es : List (Nat × Nat)} {B B' : BipG} (hw : B.WF)
    (h : es.foldlM graphStep B = .ok B') :
    B'.WF ∧ B'.l = B.l ∧ B'.r = B.r ∧
    ∀ a b, (a, b) ∈ B'.edgeset ↔
      ((a, b) ∈ B.edgeset ∨ ∃ e ∈ es, a = min e.1 e.2 ∧ b = max e.1 e.2) := by
  induction es generalizing B with
  | nil =>
    injection h with h
    subst h
    exact ⟨hw, rfl, rfl, by simp⟩
  | cons e es ih =>
    obtain ⟨B₁, h1, h2⟩ := foldlM_cons_ok h
    obtain ⟨w1, l1, r1, m1⟩ := graphStep_spec hw h1
    obtain ⟨w2, l2, r2, m2⟩ := ih w1 h2
    refine ⟨w2, by rw [l2, l1], by rw [r2, r1], ?_⟩
    intro a b
    rw [m2, m1]
    simp only [List.mem_cons, exists_eq_or_imp]
    tauto

/-- `GraphEdgesVariables`: `B` is well formed on `V × V` and its edges are the `(min, max)` of the
edges of `G`, whatever the representation `G` -/
theorem graphAux_spec {G : SimpleG} {B : BipG} (h : graphAux G = .ok B) :
    B.WF ∧ B.l = G.n ∧ B.r = G.n ∧
    ∀ a b, (a, b) ∈ B.edgeset ↔ ∃ e ∈ G.edges, a = min e.1 e.2 ∧ b = max e.1 e.2 := by
  have h' : G.edges.foldlM graphStep (BipG.init G.n G.n) = .ok B := by
    exact h
  obtain ⟨w, hl, hr, hm⟩ := graphFold_spec (BipG.wf_init G.n G.n) h'
  refine ⟨w, hl, hr, ?_⟩
  intro a b
  rw [hm]
  simp [BipG.init]

theorem graphAux_le {G : SimpleG} {B : BipG} (h : graphAux G = .ok B) :
    ∀ a b, (a, b) ∈ B.edgeset → a ≤ b := by
  intro a b hm
  obtain ⟨e, _, rfl, rfl⟩ := ((graphAux_spec h).2.2.2 a b).1 hm
  omega

/-- the step of `digraphAux` -/
def digraphStep (succ : Bool) (B : BipG) (e : Nat × Nat) : Except Err BipG :=
  if succ then B.addEdge e.2 e.1 else B.addEdge e.1 e.2

theorem digraphFold_spec {succ : Bool} {es : List (Nat × Nat)} {B B' : BipG} (hw : B.WF)
    (h : es.foldlM (digraphStep succ) B = .ok B') :
    B'.WF ∧ B'.l = B.l ∧ B'.r = B.r ∧
    ∀ a b, (a, b) ∈ B'.edgeset ↔
      ((a, b) ∈ B.edgeset ∨ (if succ then (b, a) else (a, b)) ∈ es) := by
  induction es generalizing B with
  | nil =>
    injection h with h
    subst h
    exact ⟨hw, rfl, rfl, by simp⟩
  | cons e es ih =>
    obtain ⟨B₁, h1, h2⟩ := foldlM_cons_ok h
    obtain ⟨e1, e2⟩ := e
    obtain ⟨w2, l2, r2, m2⟩ := ih (B := B₁) (by
      unfold digraphStep at h1
      cases succ
      · exact BipG.wf_addEdge hw h1
      · exact BipG.wf_addEdge hw h1) h2
    cases succ
    · have h1' : B.addEdge e1 e2 = .ok B₁ := h1
      refine ⟨w2, by rw [l2, (BipG.addEdge_lr_wf h1').1], by rw [r2, (BipG.addEdge_lr_wf h1').2], ?_⟩
      intro a b
      rw [m2, BipG.mem_addEdge h1']
      simp only [Bool.false_eq_true, if_false, List.mem_cons, Prod.mk.injEq]
      constructor
      · rintro ((hm | ⟨h1, h2⟩) | hm)
        · exact Or.inl hm
        · exact Or.inr (Or.inl ⟨by omega, by omega⟩)
        · exact Or.inr (Or.inr hm)
      · rintro (hm | ⟨h1, h2⟩ | hm)
        · exact Or.inl (Or.inl hm)
        · exact Or.inl (Or.inr ⟨by omega, by omega⟩)
        · exact Or.inr hm
    · have h1' : B.addEdge e2 e1 = .ok B₁ := h1
      refine ⟨w2, by rw [l2, (BipG.addEdge_lr_wf h1').1], by rw [r2, (BipG.addEdge_lr_wf h1').2], ?_⟩
      intro a b
      rw [m2, BipG.mem_addEdge h1']
      simp only [if_true, List.mem_cons, Prod.mk.injEq]
      constructor
      · rintro ((hm | ⟨h1, h2⟩) | hm)
        · exact Or.inl hm
        · exact Or.inr (Or.inl ⟨by omega, by omega⟩)
        · exact Or.inr (Or.inr hm)
      · rintro (hm | ⟨h1, h2⟩ | hm)
        · exact Or.inl (Or.inl hm)
        · exact Or.inl (Or.inr ⟨by omega, by omega⟩)
        · exact Or.inr hm

/-- `DiGraphEdgesVariables`: `B` has the edge `(u,v)` (sortby pred) resp. `(v,u)` (sortby succ)
for every edge `(u,v)` of `D` -/
theorem digraphAux_spec {D : DiG} {succ : Bool} {B : BipG} (h : digraphAux D succ = .ok B) :
    B.WF ∧ B.l = D.n ∧ B.r = D.n ∧
    ∀ a b, (a, b) ∈ B.edgeset ↔ (if succ then (b, a) else (a, b)) ∈ D.edges := by
  have h' : D.edges.foldlM (digraphStep succ) (BipG.init D.n D.n) = .ok B := h
  obtain ⟨w, hl, hr, hm⟩ := digraphFold_spec (BipG.wf_init D.n D.n) h'
  refine ⟨w, hl, hr, ?_⟩
  intro a b
  rw [hm]
  simp [BipG.init]

/-- unordered matching for simple graphs: with one vertex given, the edges containing it; with
two, the edge between them -/
def graphMatches (pat : Pattern) (p : Nat × Nat) : Bool :=
  match pat with
  | [] => true
  | [none, none] => true
  | [some w, none] => decide ((p.1 : Int) = w) || decide ((p.2 : Int) = w)
  | [none, some w] => decide ((p.1 : Int) = w) || decide ((p.2 : Int) = w)
  | [some u, some v] => decide ((p.1 : Int) = min u v) && decide ((p.2 : Int) = max u v)
  | _ => false

theorem graphIndices_one_eq (B : BipG) (w : Int) :
    graphIndices B [some w, none] = (do
      let a ← bipIndices B [none, some w]
      let b ← bipIndices B [some w, none]
      pure (a ++ b.filter (fun e => (e.2 : Int) ≠ w))) := rfl

/-- `GraphEdgesVariables.indices(w, None)` = `indices(None, w)`: the edges containing `w` in
identifier order (first those `(x, w)` with `x < w`, then `(w, y)`); needs `a ≤ b` on the edges of `B` -/
theorem graphIndices_one {B : BipG} (h : B.WF) (hlr : B.l = B.r) (hle : ∀ a b, (a, b) ∈ B.edgeset → a ≤ b) (w : Int) :
    graphIndices B [some w, none] =
      (if 1 ≤ w ∧ w ≤ B.l then .ok (B.edges.filter (graphMatches [some w, none])) else .error .valueError) ∧
    graphIndices B [none, some w] = graphIndices B [some w, none] := by
  refine ⟨?_, rfl⟩
  rw [graphIndices_one_eq]
  unfold bipIndices
  by_cases hw : 1 ≤ w ∧ w ≤ B.l
  · have hw' : 1 ≤ w ∧ w ≤ B.r := by omega
    simp only [hw, hw', and_self, not_true_eq_false, if_false, if_true]
    show Except.ok _ = Except.ok _
    congr 1
    symm
    generalize hc : w.toNat = c
    have hcw : (c : Int) = w := by omega
    apply edges_filter_eq h
    · rw [List.pairwise_append]
      refine ⟨col_pairwise_lexLt h c, (row_pairwise_lexLt h c).filter _, ?_⟩
      intro x hx y hy
      rw [List.mem_filter] at hy
      simp only [List.mem_map, ne_eq, decide_not, Bool.not_eq_eq_eq_not, Bool.not_true,
        decide_eq_false_iff_not] at hx hy
      obtain ⟨a, ha, rfl⟩ := hx
      obtain ⟨⟨b, hb, rfl⟩, hne⟩ := hy
      have h1 := hle a c ((h.mem_col a c).1 ha)
      have h2 := hle c b ((h.mem_row c b).1 hb)
      simp only at hne
      unfold lexLt
      simp only
      omega
    · intro a b
      simp only [List.mem_append, List.mem_map, List.mem_filter, Prod.mk.injEq, graphMatches,
        Bool.or_eq_true, decide_eq_true_eq, ne_eq, decide_not, Bool.not_eq_eq_eq_not, Bool.not_true,
        decide_eq_false_iff_not]
      constructor
      · rintro (⟨x, hx, rfl, rfl⟩ | ⟨⟨y, hy, rfl, rfl⟩, hne⟩)
        · exact ⟨(h.mem_col _ _).1 hx, Or.inr hcw⟩
        · exact ⟨(h.mem_row _ _).1 hy, Or.inl hcw⟩
      · rintro ⟨he, hab⟩
        by_cases hb : b = c
        · subst hb
          exact Or.inl ⟨a, (h.mem_col _ _).2 he, rfl, rfl⟩
        · have hac : a = c := by omega
          subst hac
          exact Or.inr ⟨⟨b, (h.mem_row _ _).2 he, rfl, rfl⟩, by omega⟩
  · have hw' : ¬ (1 ≤ w ∧ w ≤ B.r) := by omega
    simp only [hw, hw', not_false_eq_true, if_true, if_false]
    rfl

theorem graphIndices_two (B : BipG) (u v : Int) :
    graphIndices B [some u, some v] = bipIndices B [some (min u v), some (max u v)] := rfl

theorem graphIndices_all (B : BipG) : graphIndices B [] = .ok B.edges ∧ graphIndices B [none, none] = .ok B.edges :=
  ⟨rfl, rfl⟩

theorem bind_error_of {α β : Type} {x : Except Err α} {f : α → Except Err β} {e : Err}
    (h : (x >>= f) = .error e) : x = .error e ∨ ∃ a, x = .ok a ∧ f a = .error e := by
  cases x with
  | error e' => left; simpa [bind, Except.bind] using h
  | ok a => right; exact ⟨a, rfl, h⟩

theorem graphIndices_error {B : BipG} {pat : Pattern} {e : Err} (h : graphIndices B pat = .error e) :
    e = .valueError := by
  unfold graphIndices at h
  split at h
  · exact bipIndices_error h
  · exact bipIndices_error h
  · exact bipIndices_error h
  · rcases bind_error_of h with h1 | ⟨a, _, h2⟩
    · exact bipIndices_error h1
    · rcases bind_error_of h2 with h3 | ⟨b, _, h4⟩
      · exact bipIndices_error h3
      · cases h4
  · rcases bind_error_of h with h1 | ⟨a, _, h2⟩
    · exact bipIndices_error h1
    · rcases bind_error_of h2 with h3 | ⟨b, _, h4⟩
      · exact bipIndices_error h3
      · cases h4
  · injection h with h; exact h.symm

/-- `DiGraphEdgesVariables.indices` for `sortby='succ'`: the pattern is read in reverse and the pairs are swapped -/
theorem digraphIndices_pred (B : BipG) (pat : Pattern) : digraphIndices B false pat = bipIndices B pat := by
  simp [digraphIndices]
theorem digraphIndices_succ (B : BipG) (pat : Pattern) :
    digraphIndices B true pat = (bipIndices B pat.reverse).map (fun l => l.map (fun e => (e.2, e.1))) := by
  simp [digraphIndices]

end Vars
end Cnfgen
