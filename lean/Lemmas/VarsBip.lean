/-
Lemmas for T-C11.3 — edge groups: `BipartiteEdgesVariables` (also unary / sparse mappings),
`GraphEdgesVariables`, `DiGraphEdgesVariables` (through their auxiliary bipartite graph).
Offsets are prefix sums of the right degrees, `bisect_right` inverts them.
-/
import CnfgenModel.Vars.Patterns
import Lemmas.BipWF
import Lemmas.IterNodup
namespace Cnfgen
namespace Vars

/-- number of edges of the left vertices `1 … i` -/
def degSum (G : BipG) (i : Nat) : Nat := ((List.range i).map (fun j => (G.rnbrs (j + 1)).length)).sum

theorem degSum_succ (G : BipG) (i : Nat) : degSum G (i + 1) = degSum G i + (G.rnbrs (i + 1)).length := sorry
theorem degSum_mono (G : BipG) {i j : Nat} (h : i ≤ j) : degSum G i ≤ degSum G j := sorry
theorem degSum_total {G : BipG} (h : G.WF) : degSum G G.l = G.numberOfEdges := sorry

/-- `offset[u] = start + (number of edges of the vertices before u)`: prefix sums -/
theorem bipOffsets_eq (G : BipG) (start : Nat) :
    bipOffsets G start = 0 :: (List.range G.l).map (fun i => start + degSum G i) := sorry
theorem bipOffsets_getD (G : BipG) (start : Nat) {u : Nat} (hu : 1 ≤ u ∧ u ≤ G.l) :
    (bipOffsets G start).getD u 0 = start + degSum G (u - 1) := sorry

/-- the identifier of the `k`-th neighbour of `u` -/
theorem bipId_getElem {G : BipG} (h : G.WF) (start : Nat) {u k : Nat} (hu : 1 ≤ u ∧ u ≤ G.l)
    (hk : k < (G.rnbrs u).length) :
    bipId G start u ((G.rnbrs u)[k]) = start + degSum G (u - 1) + k := sorry

theorem bipId_range {G : BipG} (h : G.WF) (start : Nat) {u v : Nat} (he : (u, v) ∈ G.edgeset) :
    start ≤ bipId G start u v ∧ bipId G start u v < start + G.numberOfEdges := sorry

/-- contiguity: the edges in the order of `indices()` get `start, start+1, …` -/
theorem bip_ids {G : BipG} (h : G.WF) (start : Nat) :
    G.edges.map (fun e => bipId G start e.1 e.2) = List.range' start G.numberOfEdges := sorry

/-- `bipId` is injective on the edges -/
theorem bipId_inj {G : BipG} (h : G.WF) (start : Nat) {u v u' v' : Nat}
    (he : (u, v) ∈ G.edgeset) (he' : (u', v') ∈ G.edgeset)
    (hid : bipId G start u v = bipId G start u' v') : u = u' ∧ v = v' := sorry

/-- edge → id → edge, both polarities (in particular: no IndexError, no AssertionError) -/
theorem bipIndex_bipId {G : BipG} (h : G.WF) (start : Nat) {u v : Nat} (he : (u, v) ∈ G.edgeset) :
    bipIndex G start (bipId G start u v : Int) = .ok (u, v) ∧
    bipIndex G start (-(bipId G start u v : Int)) = .ok (u, v) := sorry

/-- id → edge → id -/
theorem bipId_bipIndex {G : BipG} (h : G.WF) {start : Nat} {lit : Int} {u v : Nat}
    (hi : bipIndex G start lit = .ok (u, v)) :
    (u, v) ∈ G.edgeset ∧ bipId G start u v = lit.natAbs := sorry

/-- `to_index` is defined exactly on the literals of the group; otherwise ValueError -/
theorem bipIndex_isOk_iff {G : BipG} (h : G.WF) (start : Nat) (lit : Int) :
    (∃ p, bipIndex G start lit = .ok p) ↔ (start ≤ lit.natAbs ∧ lit.natAbs < start + G.numberOfEdges) := sorry
theorem bipIndex_error {G : BipG} (h : G.WF) {start : Nat} {lit : Int} {e : Err}
    (he : bipIndex G start lit = .error e) : e = .valueError := sorry

/-! ### patterns -/

/-- pattern matching on pairs (ordered) -/
def edgeMatches (pat : Pattern) (p : Nat × Nat) : Bool :=
  match pat with
  | [] => true
  | [a, b] => (match a with | none => true | some x => decide (x = (p.1 : Int))) &&
              (match b with | none => true | some y => decide (y = (p.2 : Int)))
  | _ => false

/-- `indices()` / `indices(None, None)`: all edges -/
theorem bipIndices_all (G : BipG) : bipIndices G [] = .ok G.edges ∧ bipIndices G [none, none] = .ok G.edges := sorry

/-- `indices(u, None)`: the edges of `u`, in identifier order; ValueError iff `u` is not a left vertex -/
theorem bipIndices_row {G : BipG} (h : G.WF) (u : Int) :
    bipIndices G [some u, none] =
      if 1 ≤ u ∧ u ≤ G.l then .ok (G.edges.filter (edgeMatches [some u, none])) else .error .valueError := sorry

/-- `indices(None, v)` -/
theorem bipIndices_col {G : BipG} (h : G.WF) (v : Int) :
    bipIndices G [none, some v] =
      if 1 ≤ v ∧ v ≤ G.r then .ok (G.edges.filter (edgeMatches [none, some v])) else .error .valueError := sorry

/-- `indices(u, v)`: the edge itself iff it is an edge, else ValueError -/
theorem bipIndices_edge {G : BipG} (h : G.WF) (u v : Int) :
    bipIndices G [some u, some v] =
      if 0 ≤ u ∧ 0 ≤ v ∧ (u.toNat, v.toNat) ∈ G.edgeset then .ok [(u.toNat, v.toNat)] else .error .valueError := sorry

/-- on an edge pattern the result is again the filter of the enumeration -/
theorem bipIndices_edge_filter {G : BipG} (h : G.WF) {u v : Nat} (he : (u, v) ∈ G.edgeset) :
    G.edges.filter (edgeMatches [some (u : Int), some (v : Int)]) = [(u, v)] := sorry

/-- any other arity: ValueError -/
theorem bipIndices_arity (G : BipG) {pat : Pattern} (h : pat.length ≠ 0 ∧ pat.length ≠ 2) :
    bipIndices G pat = .error .valueError := sorry

/-- every error of `indices` is a ValueError -/
theorem bipIndices_error {G : BipG} {pat : Pattern} {e : Err} (h : bipIndices G pat = .error e) :
    e = .valueError := sorry

/-- the identifiers of a filtered enumeration are strictly increasing -/
theorem bip_filter_ids_sorted {G : BipG} (h : G.WF) (start : Nat) (p : Nat × Nat → Bool) :
    ((G.edges.filter p).map (fun e => bipId G start e.1 e.2)).Pairwise (· < ·) := sorry

/-! ### the auxiliary bipartite graphs of simple and directed graphs -/

/-- `GraphEdgesVariables`: `B` is well formed on `V × V` and its edges are the `(min, max)` of the
edges of `G`, whatever the representation `G` -/
theorem graphAux_spec {G : SimpleG} {B : BipG} (h : graphAux G = .ok B) :
    B.WF ∧ B.l = G.n ∧ B.r = G.n ∧
    ∀ a b, (a, b) ∈ B.edgeset ↔ ∃ e ∈ G.edges, a = min e.1 e.2 ∧ b = max e.1 e.2 := sorry

theorem graphAux_le {G : SimpleG} {B : BipG} (h : graphAux G = .ok B) :
    ∀ a b, (a, b) ∈ B.edgeset → a ≤ b := sorry

/-- `DiGraphEdgesVariables`: `B` has the edge `(u,v)` (sortby pred) resp. `(v,u)` (sortby succ)
for every edge `(u,v)` of `D` -/
theorem digraphAux_spec {D : DiG} {succ : Bool} {B : BipG} (h : digraphAux D succ = .ok B) :
    B.WF ∧ B.l = D.n ∧ B.r = D.n ∧
    ∀ a b, (a, b) ∈ B.edgeset ↔ (if succ then (b, a) else (a, b)) ∈ D.edges := sorry

/-- unordered matching for simple graphs: with one vertex given, the edges containing it; with
two, the edge between them -/
def graphMatches (pat : Pattern) (p : Nat × Nat) : Bool :=
  match pat with
  | [] => true
  | [none, none] => true
  | [some w, none] => decide ((p.1 : Int) = w) || decide ((p.2 : Int) = w)
  | [none, some w] => decide ((p.1 : Int) = w) || decide ((p.2 : Int) = w)
  | [some u, some v] => decide ((p.1 : Int) = min u v) && decide ((p.2 : Int) = max u v)
  | _ => false

/-- `GraphEdgesVariables.indices(w, None)` = `indices(None, w)`: the edges containing `w` in
identifier order (first those `(x, w)` with `x < w`, then `(w, y)`); needs `a ≤ b` on the edges of `B` -/
theorem graphIndices_one {B : BipG} (h : B.WF) (hlr : B.l = B.r) (hle : ∀ a b, (a, b) ∈ B.edgeset → a ≤ b) (w : Int) :
    graphIndices B [some w, none] =
      (if 1 ≤ w ∧ w ≤ B.l then .ok (B.edges.filter (graphMatches [some w, none])) else .error .valueError) ∧
    graphIndices B [none, some w] = graphIndices B [some w, none] := sorry

theorem graphIndices_two (B : BipG) (u v : Int) :
    graphIndices B [some u, some v] = bipIndices B [some (min u v), some (max u v)] := sorry

theorem graphIndices_all (B : BipG) : graphIndices B [] = .ok B.edges ∧ graphIndices B [none, none] = .ok B.edges := sorry

theorem graphIndices_error {B : BipG} {pat : Pattern} {e : Err} (h : graphIndices B pat = .error e) :
    e = .valueError := sorry

/-- `DiGraphEdgesVariables.indices` for `sortby='succ'`: the pattern is read in reverse and the pairs are swapped -/
theorem digraphIndices_pred (B : BipG) (pat : Pattern) : digraphIndices B false pat = bipIndices B pat := sorry
theorem digraphIndices_succ (B : BipG) (pat : Pattern) :
    digraphIndices B true pat = (bipIndices B pat.reverse).map (fun l => l.map (fun e => (e.2, e.1))) := sorry

end Vars
end Cnfgen
