/-
C19 heap lemmas — the deep snapshot of a formula depends only on the cells of its footprint.
-/
import Lemmas.HeapTrans
namespace Cnfgen
namespace Heap
local notation "Addr" => Nat

theorem readIntsAll_congr {s s' : Store} : ∀ {as : List Addr}, (∀ a ∈ as, s'[a]? = s[a]?) →
    readIntsAll s' as = readIntsAll s as
  | [], _ => rfl
  | a :: as, h => by
    have h1 : readInts s' a = readInts s a := by unfold readInts; rw [h a (by simp)]
    have h2 := readIntsAll_congr (as := as) (fun x hx => h x (by simp [hx]))
    simp only [readIntsAll, h1, h2]

theorem r_mem_footprint (s : Store) (r : Addr) : r ∈ footprint s r := by
  unfold footprint; split <;> simp

/-- if two stores agree on the footprint of `r`, the formula at `r` looks the same in both -/
theorem snap_congr {s s' : Store} {r : Addr} (h : ∀ a ∈ footprint s r, s'[a]? = s[a]?) :
    snap s' r = snap s r ∧ footprint s' r = footprint s r := by
  have hr : s'[r]? = s[r]? := h r (r_mem_footprint s r)
  have hcnf : readCNF s' r = readCNF s r := by unfold readCNF; rw [hr]
  unfold footprint snap at *
  rw [hcnf]
  cases ho : readCNF s r with
  | none => simp
  | some o =>
    simp only [ho] at h
    have hcl : s'[o.cl]? = s[o.cl]? := h _ (by simp)
    have hhd : s'[o.hd]? = s[o.hd]? := h _ (by simp)
    have hgr : s'[o.gr]? = s[o.gr]? := h _ (by simp)
    have e1 : readRefs s' o.cl = readRefs s o.cl := by unfold readRefs; rw [hcl]
    have e2 : readDict s' o.hd = readDict s o.hd := by unfold readDict; rw [hhd]
    have e3 : readGroups s' o.gr = readGroups s o.gr := by unfold readGroups; rw [hgr]
    simp only [e1, e2, e3, and_true]
    cases has : readRefs s o.cl with
    | none => simp
    | some as =>
      have e4 : readIntsAll s' as = readIntsAll s as :=
        readIntsAll_congr (fun a ha => h a (by simp [has, ha]))
      cases readDict s o.hd <;> cases readGroups s o.gr <;> simp [e4]

theorem readIntsAll_inbounds {s : Store} : ∀ {as : List Addr} {cs : List (List Int)},
    readIntsAll s as = some cs → ∀ a ∈ as, a < s.size
  | [], _, _ => by simp
  | a :: as, cs, h => by
    unfold readIntsAll at h
    split at h
    · rename_i x xs h1 h2
      intro b hb
      simp at hb
      rcases hb with hb | hb
      · subst hb
        unfold readInts at h1
        split at h1
        · rename_i heq; exact lt_size_of_getElem? heq
        · cases h1
      · exact readIntsAll_inbounds h2 b hb
    · cases h

/-- a formula that can be observed has no dangling part -/
theorem footprint_inbounds {s : Store} {r : Addr} {S : Snap} (h : snap s r = some S) :
    ∀ a ∈ footprint s r, a < s.size := by
  unfold snap at h
  unfold footprint
  cases ho : readCNF s r with
  | none => simp [ho] at h
  | some o =>
    simp only [ho] at h ⊢
    have hr : r < s.size := by
      unfold readCNF at ho; split at ho
      · rename_i heq; exact lt_size_of_getElem? heq
      · cases ho
    split at h
    · rename_i as es gs h1 h2 h3
      split at h
      · rename_i cs h4
        have hcl : o.cl < s.size := by
          unfold readRefs at h1; split at h1
          · rename_i heq; exact lt_size_of_getElem? heq
          · cases h1
        have hhd : o.hd < s.size := by
          unfold readDict at h2; split at h2
          · rename_i heq; exact lt_size_of_getElem? heq
          · cases h2
        have hgr : o.gr < s.size := by
          unfold readGroups at h3; split at h3
          · rename_i heq; exact lt_size_of_getElem? heq
          · cases h3
        intro a ha
        simp [h1] at ha
        rcases ha with ha | ha | ha | ha | ha
        · omega
        · omega
        · omega
        · omega
        · exact readIntsAll_inbounds h4 a ha
      · cases h
    · cases h

/-- a call on something that is not an observable formula fails without touching the store -/
theorem apply_of_snap_none (cfg : Cfg) (t : Tr) {s : Store} {f : Addr} (h : snap s f = none) :
    t.apply cfg s f = (s, .error modelErr) := by
  unfold Tr.apply; rw [h]

/-- the input formula looks exactly the same after the call (normal or exceptional exit) -/
theorem snap_apply (cfg : Cfg) (t : Tr) (s : Store) (f : Addr) :
    snap (t.apply cfg s f).1 f = snap s f ∧ footprint (t.apply cfg s f).1 f = footprint s f := by
  cases h : snap s f with
  | none => rw [apply_of_snap_none cfg t h]; simp [h]
  | some S =>
    have hin := footprint_inbounds h
    have := snap_congr (s := s) (s' := (t.apply cfg s f).1) (r := f)
      (fun a ha => (good_apply cfg t s f).1.frame a (hin a ha))
    rw [h] at this; exact this

end Heap
end Cnfgen
