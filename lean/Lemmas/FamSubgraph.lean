/-
Subgraph / clique formulas (unary mapping; the Ramsey witness is in `FamRamseyWitness.lean`): the meaning of each block of
constraints on the table encoded by the assignment, well-formedness.
-/
import CnfgenModel.Fam.Subgraph
import Lemmas.FamIso
namespace Cnfgen
namespace Fam
namespace G2
open Vars

/-! ### the common prefix `complete ++ functional ++ injective` -/

theorem prefix_holds (α : Assign) {st : Nat} (k N : Nat) (hst : 1 ≤ st) :
    (∀ c ∈ forceComplete st k N ++ forceFunctional st k N ++ forceInjective st k N, Con.holds α c = true) ↔
      ∃ l, EncL st k N α l ∧ l.Nodup := by
  simp only [List.mem_append, or_imp, forall_and]
  rw [forceComplete_holds α k N hst, forceFunctional_holds α k N hst, forceInjective_holds α k N hst]
  constructor
  · rintro ⟨⟨hc, hf⟩, hi⟩
    obtain ⟨l, hl⟩ := TotFun.exists_encL (st := st) ⟨hc, hf⟩
    exact ⟨l, hl, hl.injective_iff.1 hi⟩
  · rintro ⟨l, hl, hnd⟩
    exact ⟨⟨hl.totFun.1, hl.totFun.2⟩, hl.injective_iff.2 hnd⟩

theorem prefix_in {st : Nat} (k N : Nat) (hst : 1 ≤ st) :
    ConsIn st (st + k * N - 1) (forceComplete st k N ++ forceFunctional st k N ++ forceInjective st k N) :=
  ((forceComplete_in k N hst).append (forceFunctional_in k N hst)).append (forceInjective_in k N hst)

theorem nondecreasing_iff {st k N : Nat} {α : Assign} {l : List Nat} (h : EncL st k N α l) (hst : 1 ≤ st) :
    (∀ c ∈ forceNondecreasing st k N, Con.holds α c = true) ↔ l.Pairwise (· ≤ ·) := by
  rw [forceNondecreasing_holds α k N hst, h.pairs_iff (fun _ _ j j' => j ≤ j'), pairwise_img_iff h.len]

theorem sorted_of_le_nodup {l : List Nat} (h : l.Pairwise (· ≤ ·)) (hn : l.Nodup) : l.Pairwise (· < ·) := by
  rw [List.nodup_iff_pairwise_ne] at hn
  exact (h.and hn).imp (by intro a b hab; omega)

theorem nodup_of_sorted {l : List Nat} (h : l.Pairwise (· < ·)) : l.Nodup := by
  rw [List.nodup_iff_pairwise_ne]
  exact h.imp (by intro a b hab; omega)

theorem le_of_sorted {l : List Nat} (h : l.Pairwise (· < ·)) : l.Pairwise (· ≤ ·) :=
  h.imp (by intro a b hab; omega)

/-- the shape of the table: strictly increasing with symmetry breaking, without repetition otherwise -/
def Shape (symbreak : Bool) (l : List Nat) : Prop := if symbreak then l.Pairwise (· < ·) else l.Nodup

theorem Shape.nodup {symbreak : Bool} {l : List Nat} (h : Shape symbreak l) : l.Nodup := by
  cases symbreak
  · exact h
  · exact nodup_of_sorted h

/-- prefix and optional symmetry breaking together -/
theorem prefix_sym_holds (α : Assign) (k N : Nat) (symbreak : Bool) :
    (∀ c ∈ forceComplete 1 k N ++ forceFunctional 1 k N ++ forceInjective 1 k N ++
        (if symbreak then forceNondecreasing 1 k N else []), Con.holds α c = true) ↔
      ∃ l, EncL 1 k N α l ∧ Shape symbreak l := by
  rw [List.forall_mem_append, prefix_holds α k N (Nat.le_refl 1)]
  cases symbreak
  · simp [Shape]
  · simp only [if_true, Shape]
    constructor
    · rintro ⟨⟨l, hl, hnd⟩, hs⟩
      exact ⟨l, hl, sorted_of_le_nodup ((nondecreasing_iff hl (Nat.le_refl 1)).1 hs) hnd⟩
    · rintro ⟨l, hl, hs⟩
      exact ⟨⟨l, hl, nodup_of_sorted hs⟩, (nondecreasing_iff hl (Nat.le_refl 1)).2 (le_of_sorted hs)⟩

theorem prefix_sym_in (k N : Nat) (symbreak : Bool) :
    ConsIn 1 (k * N) (forceComplete 1 k N ++ forceFunctional 1 k N ++ forceInjective 1 k N ++
        (if symbreak then forceNondecreasing 1 k N else [])) := by
  have e : 1 + k * N - 1 = k * N := by omega
  have := (prefix_in k N (Nat.le_refl 1)).append (b := if symbreak then forceNondecreasing 1 k N else [])
    (by cases symbreak
        · exact ConsIn.nil
        · exact forceNondecreasing_in k N (Nat.le_refl 1))
  rw [e] at this
  exact this

/-! ### k-clique -/

theorem mem_nonEdges {G : SimpleG} {a b : Nat} :
    (a, b) ∈ nonEdges G ↔ 1 ≤ a ∧ a < b ∧ b ≤ G.n ∧ adj G a b = false := by
  simp only [nonEdges, List.mem_filter, mem_pairs2_verts, Bool.not_eq_true']
  constructor
  · rintro ⟨⟨a1, a2, a3⟩, a4⟩; exact ⟨a1, a2, a3, a4⟩
  · rintro ⟨a1, a2, a3, a4⟩; exact ⟨⟨a1, a2, a3⟩, a4⟩

/-- the condition the clique clauses put on two pairs `i ↦ j`, `i' ↦ j'` with `i < i'` -/
def CliqueP (G : SimpleG) (symbreak : Bool) (j j' : Nat) : Prop :=
  (j < j' → adj G j j' = true) ∧ (j' < j → symbreak = false → adj G j' j = true)

theorem cliqueEdgeCons_holds (α : Assign) (G : SimpleG) (k : Nat) (symbreak : Bool) :
    (∀ c ∈ cliqueEdgeCons G k symbreak, Con.holds α c = true) ↔
      ∀ i, 1 ≤ i → ∀ i', i < i' → i' ≤ k → ∀ j, 1 ≤ j → j ≤ G.n → ∀ j', 1 ≤ j' → j' ≤ G.n →
        α (mapId 1 G.n i j) = true → α (mapId 1 G.n i' j') = true → CliqueP G symbreak j j' := by
  simp only [cliqueEdgeCons, List.mem_flatMap, Prod.exists, mem_pairs2_verts, mem_nonEdges,
    forall_exists_index, and_imp]
  constructor
  · intro h i hi i' hii' hi' j hj1 hj2 j' hj1' hj2' r r'
    constructor
    · intro hlt
      cases e : adj G j j'
      · have := h _ i i' hi hii' hi' j j' hj1 hlt hj2' e List.mem_cons_self
        rw [clause_two_neg_mlit α (Nat.le_refl 1)] at this
        exact absurd ⟨r, r'⟩ this
      · rfl
    · intro hlt hs
      cases e : adj G j' j
      · subst hs
        have := h (Con.clause [-mlit 1 G.n i j, -mlit 1 G.n i' j']) i i' hi hii' hi' j' j hj1' hlt hj2 e
          (List.mem_cons_of_mem _ (by simp))
        rw [clause_two_neg_mlit α (Nat.le_refl 1)] at this
        exact absurd ⟨r, r'⟩ this
      · rfl
  · intro h c i i' hi hii' hi' a b ha hab hb hne hc
    rcases List.mem_cons.1 hc with rfl | hc
    · rw [clause_two_neg_mlit α (Nat.le_refl 1)]
      rintro ⟨r, r'⟩
      have := (h i hi i' hii' hi' a ha (by omega) b (by omega) hb r r').1 hab
      rw [hne] at this; exact Bool.noConfusion this
    · cases symbreak
      · simp only [Bool.not_false, if_true, List.mem_singleton] at hc
        subst hc
        rw [clause_two_neg_mlit α (Nat.le_refl 1)]
        rintro ⟨r, r'⟩
        have := (h i hi i' hii' hi' b (by omega) hb a ha (by omega) r r').2 hab rfl
        rw [hne] at this; exact Bool.noConfusion this
      · simp at hc

theorem cliqueEdgeCons_in (G : SimpleG) (k : Nat) (symbreak : Bool) :
    ConsIn 1 (1 + k * G.n - 1) (cliqueEdgeCons G k symbreak) := by
  intro c hc
  simp only [cliqueEdgeCons, List.mem_flatMap, Prod.exists, mem_pairs2_verts, mem_nonEdges] at hc
  obtain ⟨i, i', ⟨hi, hii', hi'⟩, a, b, ⟨ha, hab, hb, _⟩, hc⟩ := hc
  rcases List.mem_cons.1 hc with rfl | hc
  · exact clause_neg2_in (Nat.le_refl 1) hi (by omega) ha (by omega) (by omega) hi' (by omega) hb
  · cases symbreak
    · simp only [Bool.not_false, if_true, List.mem_singleton] at hc
      subst hc
      exact clause_neg2_in (Nat.le_refl 1) hi (by omega) (by omega) hb (by omega) hi' ha (by omega)
    · simp at hc

/-- on the table: the clique clauses say that the listed vertices are pairwise adjacent -/
theorem cliqueEdges_iff {G : SimpleG} (hG : GoodGraph G) {k : Nat} {symbreak : Bool} {α : Assign} {l : List Nat}
    (h : EncL 1 k G.n α l) (hs : Shape symbreak l) :
    (∀ c ∈ cliqueEdgeCons G k symbreak, Con.holds α c = true) ↔ l.Pairwise (fun a b => adj G a b = true) := by
  rw [cliqueEdgeCons_holds, h.pairs_iff (fun _ _ j j' => CliqueP G symbreak j j'), pairwise_img_iff h.len]
  have hnd := hs.nodup
  rw [List.nodup_iff_pairwise_ne] at hnd
  constructor
  · intro hp
    cases symbreak
    · refine (hp.and hnd).imp ?_
      rintro a b ⟨⟨p1, p2⟩, hne⟩
      rcases Nat.lt_or_gt_of_ne hne with hlt | hgt
      · exact p1 hlt
      · rw [hG.symm]; exact p2 hgt rfl
    · have hs' : l.Pairwise (· < ·) := hs
      refine (hp.and hs').imp ?_
      rintro a b ⟨⟨p1, _⟩, hlt⟩
      exact p1 hlt
  · intro hp
    cases symbreak
    · refine hp.imp ?_
      intro a b hab
      exact ⟨fun _ => hab, fun _ _ => by rw [hG.symm]; exact hab⟩
    · have hs' : l.Pairwise (· < ·) := hs
      refine (hp.and hs').imp ?_
      rintro a b ⟨hab, hlt⟩
      exact ⟨fun _ => hab, fun h' _ => by omega⟩

theorem cliqueCore_consIn (G : SimpleG) (k : Nat) (symbreak : Bool) :
    ConsIn 1 (k * G.n) (cliqueCore G k symbreak).cons := by
  have e : 1 + k * G.n - 1 = k * G.n := by omega
  have := cliqueEdgeCons_in G k symbreak
  rw [e] at this
  exact (prefix_sym_in k G.n symbreak).append this

/-- a repetition-free list of pairwise (non-)adjacent vertices can be sorted -/
theorem exists_sorted_mono (G : SimpleG) (hG : GoodGraph G) (C : Bool) {l : List Nat} (hn : l.Nodup)
    (hm : l.Pairwise (fun a b => adj G a b = C)) :
    ∃ l' : List Nat, l'.Perm l ∧ l'.Pairwise (· < ·) ∧ l'.Pairwise (fun a b => adj G a b = C) := by
  refine ⟨l.mergeSort (fun a b => decide (a ≤ b)), List.mergeSort_perm _ _, ?_, ?_⟩
  · have hle : (l.mergeSort (fun a b => decide (a ≤ b))).Pairwise (fun a b => decide (a ≤ b) = true) :=
      List.pairwise_mergeSort (by intro a b c; simp; omega) (by intro a b; simp; omega) l
    have hnd : (l.mergeSort (fun a b => decide (a ≤ b))).Nodup := (List.mergeSort_perm _ _).nodup_iff.2 hn
    exact sorted_of_le_nodup (hle.imp (by intro a b h; simpa using h)) hnd
  · exact ((List.mergeSort_perm l _).pairwise_iff (fun {x y} h => by rw [hG.symm]; exact h)).2 hm

theorem pairwise_mono_iff {G : SimpleG} (hG : GoodGraph G) (C : Bool) {l : List Nat} (hn : l.Nodup) :
    l.Pairwise (fun a b => adj G a b = C) ↔ ∀ u ∈ l, ∀ v ∈ l, u ≠ v → adj G u v = C := by
  induction l with
  | nil => simp
  | cons x xs ih =>
    rw [List.nodup_cons] at hn
    rw [List.pairwise_cons, ih hn.2]
    constructor
    · rintro ⟨h1, h2⟩ u hu v hv hne
      rcases List.mem_cons.1 hu with hu | hu
      · rcases List.mem_cons.1 hv with hv | hv
        · exact absurd (hu.trans hv.symm) hne
        · rw [hu]; exact h1 v hv
      · rcases List.mem_cons.1 hv with hv | hv
        · rw [hv, hG.symm]; exact h1 u hu
        · exact h2 u hu v hv hne
    · intro h
      refine ⟨fun a ha => h x List.mem_cons_self a (List.mem_cons_of_mem _ ha) ?_,
        fun u hu v hv hne => h u (List.mem_cons_of_mem _ hu) v (List.mem_cons_of_mem _ hv) hne⟩
      rintro rfl; exact hn.1 ha

/-- pairwise adjacency of a repetition-free list, as a statement about its members -/
theorem pairwise_adj_iff {G : SimpleG} (hG : GoodGraph G) {l : List Nat} (hn : l.Nodup) :
    l.Pairwise (fun a b => adj G a b = true) ↔ ∀ u ∈ l, ∀ v ∈ l, u ≠ v → adj G u v = true :=
  pairwise_mono_iff hG true hn

/-- sorting a repetition-free list of pairwise adjacent vertices -/
theorem exists_sorted_of_nodup {G : SimpleG} (hG : GoodGraph G) {l : List Nat} (hn : l.Nodup)
    (ha : l.Pairwise (fun a b => adj G a b = true)) :
    ∃ l' : List Nat, l'.Perm l ∧ l'.Pairwise (· < ·) ∧ l'.Pairwise (fun a b => adj G a b = true) :=
  exists_sorted_mono G hG true hn ha

/-! ### subgraph / induced subgraph -/

theorem consistent_iff (g t ind : Bool) :
    consistent g t ind = true ↔ (t = true → g = true) ∧ (ind = true → g = true → t = true) := by
  cases g <;> cases t <;> cases ind <;> simp [consistent]

/-- the condition the subgraph clauses put on two pairs `i ↦ j`, `i' ↦ j'` with `i < i'` -/
def SubP (G H : SimpleG) (induced symbreak : Bool) (i i' j j' : Nat) : Prop :=
  (j < j' → consistent (adj G j j') (adj H i i') induced = true) ∧
  (j' < j → symbreak = false → consistent (adj G j' j) (adj H i i') induced = true)

theorem subgraphEdgeCons_holds (α : Assign) (G H : SimpleG) (induced symbreak : Bool) :
    (∀ c ∈ subgraphEdgeCons G H induced symbreak, Con.holds α c = true) ↔
      ∀ i, 1 ≤ i → ∀ i', i < i' → i' ≤ H.n → ∀ j, 1 ≤ j → j ≤ G.n → ∀ j', 1 ≤ j' → j' ≤ G.n →
        α (mapId 1 G.n i j) = true → α (mapId 1 G.n i' j') = true → SubP G H induced symbreak i i' j j' := by
  simp only [subgraphEdgeCons, List.mem_flatMap, Prod.exists, mem_pairs2_verts, forall_exists_index, and_imp]
  constructor
  · intro h i hi i' hii' hi' j hj1 hj2 j' hj1' hj2' r r'
    constructor
    · intro hlt
      cases e : consistent (adj G j j') (adj H i i') induced
      · have := h (Con.clause [-mlit 1 G.n i j, -mlit 1 G.n i' j']) i i' hi hii' hi' j j' hj1 hlt hj2'
          (by simp [e])
        rw [clause_two_neg_mlit α (Nat.le_refl 1)] at this
        exact absurd ⟨r, r'⟩ this
      · rfl
    · intro hlt hs
      subst hs
      cases e : consistent (adj G j' j) (adj H i i') induced
      · have := h (Con.clause [-mlit 1 G.n i j, -mlit 1 G.n i' j']) i i' hi hii' hi' j' j hj1' hlt hj2
          (by simp [e])
        rw [clause_two_neg_mlit α (Nat.le_refl 1)] at this
        exact absurd ⟨r, r'⟩ this
      · rfl
  · intro h c i i' hi hii' hi' a b ha hab hb hc
    split at hc
    · rename_i hne
      have hne' : consistent (adj G a b) (adj H i i') induced = false := by simpa using hne
      rcases List.mem_cons.1 hc with rfl | hc
      · rw [clause_two_neg_mlit α (Nat.le_refl 1)]
        rintro ⟨r, r'⟩
        have := (h i hi i' hii' hi' a ha (by omega) b (by omega) hb r r').1 hab
        rw [hne'] at this; exact Bool.noConfusion this
      · cases symbreak
        · simp only [Bool.not_false, if_true, List.mem_singleton] at hc
          subst hc
          rw [clause_two_neg_mlit α (Nat.le_refl 1)]
          rintro ⟨r, r'⟩
          have := (h i hi i' hii' hi' b (by omega) hb a ha (by omega) r r').2 hab rfl
          rw [hne'] at this; exact Bool.noConfusion this
        · simp at hc
    · simp at hc

theorem subgraphEdgeCons_in (G H : SimpleG) (induced symbreak : Bool) :
    ConsIn 1 (1 + H.n * G.n - 1) (subgraphEdgeCons G H induced symbreak) := by
  intro c hc
  simp only [subgraphEdgeCons, List.mem_flatMap, Prod.exists, mem_pairs2_verts] at hc
  obtain ⟨i, i', ⟨hi, hii', hi'⟩, a, b, ⟨ha, hab, hb⟩, hc⟩ := hc
  split at hc
  · rcases List.mem_cons.1 hc with rfl | hc
    · exact clause_neg2_in (Nat.le_refl 1) hi (by omega) ha (by omega) (by omega) hi' (by omega) hb
    · cases symbreak
      · simp only [Bool.not_false, if_true, List.mem_singleton] at hc
        subst hc
        exact clause_neg2_in (Nat.le_refl 1) hi (by omega) (by omega) hb (by omega) hi' ha (by omega)
      · simp at hc
  · simp at hc

theorem subgraphFormula_consIn (G H : SimpleG) (induced symbreak : Bool) :
    ConsIn 1 (H.n * G.n) (subgraphFormula G H induced symbreak).cons := by
  have e : 1 + H.n * G.n - 1 = H.n * G.n := by omega
  have := subgraphEdgeCons_in G H induced symbreak
  rw [e] at this
  exact (prefix_sym_in H.n G.n symbreak).append this

/-- on the table: every pair `i < i'` of vertices of `H` is mapped consistently -/
theorem subgraphEdges_iff {G H : SimpleG} (hG : GoodGraph G) {induced symbreak : Bool} {α : Assign} {l : List Nat}
    (h : EncL 1 H.n G.n α l) (hs : Shape symbreak l) :
    (∀ c ∈ subgraphEdgeCons G H induced symbreak, Con.holds α c = true) ↔
      ∀ i, 1 ≤ i → ∀ i', i < i' → i' ≤ H.n →
        consistent (adj G (img l i) (img l i')) (adj H i i') induced = true := by
  rw [subgraphEdgeCons_holds, h.pairs_iff (fun i i' j j' => SubP G H induced symbreak i i' j j')]
  have hne : ∀ i, 1 ≤ i → ∀ i', i < i' → i' ≤ H.n → img l i ≠ img l i' := by
    have := hs.nodup
    rw [List.nodup_iff_pairwise_ne, ← pairwise_img_iff h.len] at this
    exact this
  constructor
  · intro hp i hi i' hii' hi'
    obtain ⟨p1, p2⟩ := hp i hi i' hii' hi'
    cases symbreak
    · rcases Nat.lt_or_gt_of_ne (hne i hi i' hii' hi') with hlt | hgt
      · exact p1 hlt
      · rw [hG.symm]; exact p2 hgt rfl
    · have hs' : l.Pairwise (· < ·) := hs
      rw [← pairwise_img_iff h.len] at hs'
      exact p1 (hs' i hi i' hii' hi')
  · intro hp i hi i' hii' hi'
    have := hp i hi i' hii' hi'
    cases symbreak
    · exact ⟨fun _ => this, fun _ _ => by rw [hG.symm]; exact this⟩
    · have hs' : l.Pairwise (· < ·) := hs
      rw [← pairwise_img_iff h.len] at hs'
      have := hs' i hi i' hii' hi'
      exact ⟨fun _ => hp i hi i' hii' hi', fun h' _ => by omega⟩

end G2
end Fam
end Cnfgen
