/-
C14 — the DIMACS edge-format reader (`_read_graph_dimacs_format`): what a text denotes,
reader contract, round trip.
-/
import Lemmas.GraphIOBase
namespace Cnfgen.GraphFmt
open Cnfgen Cnfgen.GraphLex

/-! ### what a DIMACS text says -/

/-- the problem lines of the text -/
def dimacsProbs : List DRow → List (Option (Int × Int))
  | [] => []
  | .prob p :: rs => p :: dimacsProbs rs
  | _ :: rs => dimacsProbs rs

/-- the edge lines of the text -/
def dimacsEdges : List DRow → List (Option (Int × Int))
  | [] => []
  | .edge e :: rs => e :: dimacsEdges rs
  | _ :: rs => dimacsEdges rs

/-- the pairs stated by the well-formed edge lines -/
def dimacsPairs (rows : List DRow) : List (Int × Int) := (dimacsEdges rows).filterMap id

section
variable {γ : Type} {C : GClass γ} (S : GSem C)

/-- the loop, once the problem line has been seen -/
theorem readDimacsBody_some {rows : List DRow} {G : γ} {m : Int} {cnt : Nat} {st : DSt γ} (h : S.Inv G)
    (e : readDimacsBody C ⟨some G, m, cnt⟩ rows = .ok st) :
    ∃ G', st.G = some G' ∧ st.m = m ∧ st.cnt = cnt + (dimacsEdges rows).length ∧ dimacsProbs rows = [] ∧
      S.Inv G' ∧ C.order G' = C.order G ∧ (∀ x ∈ dimacsPairs rows, S.Valid (C.order G) x.1 x.2) ∧
      ∀ p, p ∈ S.E G' ↔ (p ∈ S.E G ∨ ∃ x ∈ dimacsPairs rows, S.contrib x.1 x.2 p) := by
  induction rows generalizing G cnt with
  | nil => simp only [readDimacsBody] at e; cases e; exact ⟨G, rfl, rfl, rfl, rfl, h, rfl, by simp [dimacsPairs, dimacsEdges], by simp [dimacsPairs, dimacsEdges]⟩
  | cons r rs ih =>
    cases r with
    | blank => simpa [dimacsEdges, dimacsProbs, dimacsPairs] using ih h (by simpa [readDimacsBody] using e)
    | comment => simpa [dimacsEdges, dimacsProbs, dimacsPairs] using ih h (by simpa [readDimacsBody] using e)
    | other => simpa [dimacsEdges, dimacsProbs, dimacsPairs] using ih h (by simpa [readDimacsBody] using e)
    | prob p => simp [readDimacsBody] at e
    | edge a =>
      cases a with
      | none => simp [readDimacsBody] at e
      | some vw =>
        obtain ⟨v, w⟩ := vw
        simp only [readDimacsBody] at e
        cases ha : C.addEdge G v w with
        | error x => rw [ha] at e; cases e
        | ok G₁ =>
          rw [ha] at e
          obtain ⟨hv, hi, ho, hm⟩ := S.add_ok h ha
          obtain ⟨G', h1, h2, h3, h4, h5, h6, hv', h7⟩ := ih hi e
          refine ⟨G', h1, h2, by rw [h3]; simp [dimacsEdges]; omega, by simpa [dimacsProbs] using h4, h5,
            by rw [h6, ho], ?_, ?_⟩
          · intro x hx
            simp only [dimacsPairs, dimacsEdges, List.filterMap_cons, id, List.mem_cons] at hx
            rcases hx with rfl | hx
            · exact hv
            · rw [← ho]; exact hv' x hx
          · intro p
            rw [h7, hm]
            simp only [dimacsPairs, dimacsEdges, List.filterMap_cons, id, List.mem_cons, exists_eq_or_imp,
              or_assoc]

omit S in
theorem readDimacsBody_err {rows : List DRow} {st : DSt γ} {x : Err}
    (e : readDimacsBody C st rows = .error x) : x = .valueError := by
  induction rows generalizing st with
  | nil => simp [readDimacsBody] at e
  | cons r rs ih =>
    cases r with
    | blank => exact ih (by simpa [readDimacsBody] using e)
    | comment => exact ih (by simpa [readDimacsBody] using e)
    | other => exact ih (by simpa [readDimacsBody] using e)
    | prob p =>
      simp only [readDimacsBody] at e
      split at e
      · cases e; rfl
      · split at e
        · cases e; rfl
        · split at e
          · cases e; rfl
          · exact ih e
    | edge a =>
      simp only [readDimacsBody] at e
      split at e
      · cases e; rfl
      · split at e
        · cases e; rfl
        · split at e
          · cases e; rfl
          · exact ih e

/-- the loop before the problem line: nothing but comments, blank and foreign lines, then the
problem line -/
theorem readDimacsBody_none {rows : List DRow} {m0 : Int} {cnt0 : Nat} {st : DSt γ}
    (e : readDimacsBody C ⟨none, m0, cnt0⟩ rows = .ok st) :
    (st.G = none ∧ st.m = m0 ∧ st.cnt = cnt0) ∨
    ∃ n m G', dimacsProbs rows = [some (n, m)] ∧ 0 ≤ n ∧ st.G = some G' ∧ st.m = m ∧
      st.cnt = cnt0 + (dimacsEdges rows).length ∧ S.Inv G' ∧ C.order G' = n.toNat ∧
      (∀ x ∈ dimacsPairs rows, S.Valid n.toNat x.1 x.2) ∧
      ∀ p, p ∈ S.E G' ↔ ∃ x ∈ dimacsPairs rows, S.contrib x.1 x.2 p := by
  induction rows with
  | nil => simp only [readDimacsBody] at e; cases e; exact Or.inl ⟨rfl, rfl, rfl⟩
  | cons r rs ih =>
    cases r with
    | blank => simpa [dimacsEdges, dimacsProbs, dimacsPairs] using ih (by simpa [readDimacsBody] using e)
    | comment => simpa [dimacsEdges, dimacsProbs, dimacsPairs] using ih (by simpa [readDimacsBody] using e)
    | other => simpa [dimacsEdges, dimacsProbs, dimacsPairs] using ih (by simpa [readDimacsBody] using e)
    | edge a => simp [readDimacsBody] at e
    | prob p =>
      cases p with
      | none => simp [readDimacsBody] at e
      | some nm =>
        obtain ⟨n, m⟩ := nm
        simp only [readDimacsBody] at e
        split at e
        · cases e
        · rename_i hn
          obtain ⟨G', h1, h2, h3, h4, h5, h6, hv, h7⟩ := readDimacsBody_some S (S.init_inv n.toNat) e
          right
          refine ⟨n, m, G', by simp [dimacsProbs, h4], by omega, h1, h2, by simpa [dimacsEdges] using h3, h5,
            by rw [h6, S.init_order], ?_, ?_⟩
          · rw [S.init_order] at hv
            simpa [dimacsPairs, dimacsEdges] using hv
          · intro p
            rw [h7, S.init_E]
            simp [dimacsPairs, dimacsEdges]

/-- T-C14.2 for `_read_graph_dimacs_format`: the only exception is ValueError; an accepted text
has exactly one problem line `p edge n m`, placed before every edge line, `m` is the number of
edge lines, and the object has `n` vertices and exactly the edges the edge lines state -/
theorem readDimacs_contract (rows : List DRow) :
    (∀ x, readDimacs C rows = .error x → x = .valueError) ∧
    (∀ G, readDimacs C rows = .ok G → ∃ n : Int, 0 ≤ n ∧
      dimacsProbs rows = [some (n, ((dimacsEdges rows).length : Int))] ∧
      S.Inv G ∧ C.order G = n.toNat ∧ (∀ x ∈ dimacsPairs rows, S.Valid n.toNat x.1 x.2) ∧
      ∀ p, p ∈ S.E G ↔ ∃ x ∈ dimacsPairs rows, S.contrib x.1 x.2 p) := by
  unfold readDimacs
  cases hb : readDimacsBody C ⟨none, -1, 0⟩ rows with
  | error y =>
    refine ⟨fun x e => ?_, fun G e => by cases e⟩
    cases e; exact readDimacsBody_err hb
  | ok st =>
    simp only
    constructor
    · intro x e
      split at e
      · cases e; rfl
      · split at e
        · cases e
        · cases e; rfl
    · intro G e
      split at e
      · cases e
      · rename_i hm
        rcases readDimacsBody_none S hb with ⟨_, h2, h3⟩ | ⟨n, m, G', h1, h2, h3, h4, h5, h6, h7, hv, h8⟩
        · rw [h2, h3] at hm; simp at hm
        · rw [h3] at e
          simp only [Except.ok.injEq] at e
          subst e
          have : m = ((dimacsEdges rows).length : Int) := by
            have := Classical.not_not.1 hm
            rw [h4, h5] at this; simpa using this
          exact ⟨n, h2, by rw [h1, this], h6, h7, hv, h8⟩

end

/-! ### reading what the writer wrote -/

theorem readDimacsBody_edges {γ : Type} (C : GClass γ) (es : List (Nat × Nat)) (G : γ) (m : Int) (cnt : Nat) :
    readDimacsBody C ⟨some G, m, cnt⟩ (es.map (fun e => DRow.edge (some ((e.1 : Int), (e.2 : Int))))) =
      match GSem.addAll C G (es.map (fun e => ((e.1 : Int), (e.2 : Int)))) with
      | .ok G' => .ok ⟨some G', m, cnt + es.length⟩
      | .error _ => .error .valueError := by
  induction es generalizing G cnt with
  | nil => simp [readDimacsBody, GSem.addAll_nil]
  | cons a as ih =>
    simp only [List.map_cons, readDimacsBody, GSem.addAll_cons]
    cases C.addEdge G (a.1 : Int) (a.2 : Int) with
    | error x => rfl
    | ok G₁ =>
      simp only
      rw [ih]
      cases GSem.addAll C G₁ (as.map (fun e => ((e.1 : Int), (e.2 : Int)))) with
      | error x => rfl
      | ok G₂ => simp only [List.length_cons]; congr 2; omega

theorem readDimacsBody_comments {γ : Type} (C : GClass γ) (k : Nat) (st : DSt γ) (rs : List DRow) :
    readDimacsBody C st (List.replicate k .comment ++ rs) = readDimacsBody C st rs := by
  induction k with
  | zero => rfl
  | succ k ih => simp only [List.replicate_succ, List.cons_append, readDimacsBody, ih]

theorem readDimacs_rows {γ : Type} (C : GClass γ) (k n m : Nat) (es : List (Nat × Nat)) :
    readDimacs C (dimacsRows k n m es) =
      match GSem.addAll C (C.init n) (es.map (fun e => ((e.1 : Int), (e.2 : Int)))) with
      | .ok G' => if m ≠ es.length then .error .valueError else .ok G'
      | .error _ => .error .valueError := by
  have hn : ¬ ((n : Int) < 0) := by omega
  simp only [readDimacs, dimacsRows, readDimacsBody_comments, readDimacsBody, hn, if_false, Int.toNat_natCast,
    readDimacsBody_edges]
  cases GSem.addAll C (C.init n) (es.map (fun e => ((e.1 : Int), (e.2 : Int)))) with
  | error x => rfl
  | ok G' =>
    simp only [Nat.zero_add]
    by_cases hm : m = es.length
    · simp [hm]
    · have : (m : Int) ≠ (es.length : Int) := by omega
      simp [hm, this]

/-- T-C14.1 (DIMACS, simple graph) -/
theorem roundtrip_dimacs_simple (k : Nat) {G : SimpleG} (h : SimpleG.Inv G) :
    ∃ G', readDimacs simpleClass (writeDimacsSimple k G) = .ok G' ∧ SimpleG.Same G G' := by
  have hvalid : ∀ x ∈ G.edges.map (fun e => ((e.1 : Int), (e.2 : Int))),
      simpleSem.Valid (simpleClass.order (simpleClass.init G.n)) x.1 x.2 := by
    intro x hx
    obtain ⟨e, he, rfl⟩ := List.mem_map.1 hx
    have := h.edges_range (u := e.1) (v := e.2) he
    show SimpleG.Valid G.n _ _
    unfold SimpleG.Valid
    omega
  obtain ⟨G', hG'⟩ := simpleSem.addAll_valid (simpleSem.init_inv G.n) hvalid
  obtain ⟨_, hi, ho, hm⟩ := simpleSem.addAll_ok (simpleSem.init_inv G.n) hG'
  have ho' : G'.n = G.n := ho
  refine ⟨G', ?_, SimpleG.same_of_inv h hi ho' ?_⟩
  · unfold writeDimacsSimple
    rw [readDimacs_rows, hG']
    simp [h.m_eq_length_edges]
  · intro p
    have := hm p
    simp only [simpleSem, simpleClass, SimpleG.init, List.not_mem_nil, false_or] at this
    rw [this]
    obtain ⟨a, b⟩ := p
    constructor
    · rintro ⟨x, hx, hc⟩
      obtain ⟨e, he, rfl⟩ := List.mem_map.1 hx
      have hmem := (h.mem_edges'.1 he).2
      simp only [Int.toNat_natCast, Prod.mk.injEq] at hc
      rcases hc with ⟨rfl, rfl⟩ | ⟨rfl, rfl⟩
      · exact hmem
      · exact h.symm _ _ hmem
    · intro hab
      have hr := h.range a b hab
      rcases Nat.lt_or_gt_of_ne hr.2.2.2.2 with hlt | hgt
      · exact ⟨((a : Int), (b : Int)), List.mem_map.2 ⟨(a, b), h.mem_edges'.2 ⟨hlt, hab⟩, rfl⟩, by simp⟩
      · exact ⟨((b : Int), (a : Int)), List.mem_map.2 ⟨(b, a), h.mem_edges'.2 ⟨hgt, h.symm _ _ hab⟩, rfl⟩, by simp⟩

theorem DiG.Inv.length_edges {G : DiG} (h : DiG.Inv G) : G.edges.length = G.m := by
  rw [← h.count]
  exact ((List.perm_ext_iff_of_nodup h.edges_nodup h.nodup).2 (fun e => h.mem_edges)).length_eq

/-- T-C14.1 (DIMACS, directed graph; the same file is read for `digraph` and `dag`) -/
theorem roundtrip_dimacs_di (k : Nat) {G : DiG} (h : DiG.Inv G) :
    ∃ G', readDimacs diClass (writeDimacsDi k G) = .ok G' ∧ DiG.Same G G' := by
  have hvalid : ∀ x ∈ G.edges.map (fun e => ((e.1 : Int), (e.2 : Int))),
      diSem.Valid (diClass.order (diClass.init G.n)) x.1 x.2 := by
    intro x hx
    obtain ⟨e, he, rfl⟩ := List.mem_map.1 hx
    have := h.range e.1 e.2 (h.mem_edges.1 he)
    show DiG.Valid G.n _ _
    unfold DiG.Valid
    omega
  obtain ⟨G', hG'⟩ := diSem.addAll_valid (diSem.init_inv G.n) hvalid
  obtain ⟨_, hi, ho, hm⟩ := diSem.addAll_ok (diSem.init_inv G.n) hG'
  have ho' : G'.n = G.n := ho
  refine ⟨G', ?_, DiG.same_of_inv h hi ho' ?_⟩
  · unfold writeDimacsDi
    rw [readDimacs_rows, hG']
    simp [DiG.Inv.length_edges h]
  · intro p
    have := hm p
    simp only [diSem, diClass, DiG.init, List.not_mem_nil, false_or] at this
    rw [this]
    constructor
    · rintro ⟨x, hx, hc⟩
      obtain ⟨e, he, rfl⟩ := List.mem_map.1 hx
      simp only [Int.toNat_natCast] at hc
      rw [hc]; exact h.mem_edges.1 he
    · intro hab
      exact ⟨((p.1 : Int), (p.2 : Int)), List.mem_map.2 ⟨p, h.mem_edges.2 hab, rfl⟩, by simp⟩

end Cnfgen.GraphFmt
