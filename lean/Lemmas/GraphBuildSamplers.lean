/-
Lemmas for C15, bipartite samplers: folds of `add_edge`, `bipartite_random_left_regular`,
`bipartite_random_m_edges`, `bipartite_random`.  No Mathlib.
-/
import Lemmas.GraphBuildBasic
namespace Cnfgen
open GRand

def natPair (e : Int × Int) : Nat × Nat := (e.1.toNat, e.2.toNat)

theorem nodup_map_inj {α β} (f : α → β) (hf : ∀ a b, f a = f b → a = b) {l : List α} (h : l.Nodup) :
    (l.map f).Nodup :=
  List.Pairwise.map f (fun a b hab heq => hab (hf a b heq)) h

namespace BipG

theorem addEdgesFrom_nil (G : BipG) : G.addEdgesFrom [] = .ok G := rfl

theorem addEdgesFrom_cons_gb (G : BipG) (e : Int × Int) (es : List (Int × Int)) :
    G.addEdgesFrom (e :: es) = (G.addEdge e.1 e.2 >>= fun g => g.addEdgesFrom es) := by
  simp [addEdgesFrom, List.foldlM]

/-- a sequence of `add_edge` calls that returns: the object stays consistent, no edge is lost,
the edges that appear are exactly the ones asked for, and every call was inside the graph -/
theorem addEdgesFrom_spec_gb (es : List (Int × Int)) (G G' : BipG) (hI : G.InvGB)
    (h : G.addEdgesFrom es = .ok G') :
    G'.InvGB ∧ G'.l = G.l ∧ G'.r = G.r ∧
    (∀ e, e ∈ G'.edgeset ↔ e ∈ G.edgeset ∨ e ∈ es.map natPair) ∧
    (∀ e ∈ es, 1 ≤ e.1 ∧ e.1 ≤ G.l ∧ 1 ≤ e.2 ∧ e.2 ≤ G.r) := by
  induction es generalizing G with
  | nil =>
    simp [addEdgesFrom_nil] at h; subst h
    exact ⟨hI, rfl, rfl, by simp, by simp⟩
  | cons e es ih =>
    rw [addEdgesFrom_cons_gb, except_bind_ok] at h
    obtain ⟨G1, h1, h2⟩ := h
    have hI1 := inv_addEdge_gb G G1 _ _ hI h1
    obtain ⟨hl1, hr1⟩ := sides_addEdge G G1 _ _ h1
    obtain ⟨hI', hl, hr, hmem, hin⟩ := ih G1 hI1 h2
    refine ⟨hI', by omega, by omega, ?_, ?_⟩
    · intro x
      rw [hmem x, edgeset_addEdge G G1 _ _ h1 x]
      simp only [List.map_cons, List.mem_cons, natPair]
      constructor
      · rintro ((h | h) | h)
        · exact Or.inr (Or.inl h)
        · exact Or.inl h
        · exact Or.inr (Or.inr h)
      · rintro (h | h | h)
        · exact Or.inl (Or.inr h)
        · exact Or.inl (Or.inl h)
        · exact Or.inr h
    · intro x hx
      rcases List.mem_cons.1 hx with rfl | hx
      · exact (addEdge_ok G G1 _ _ h1).1
      · have := hin x hx; rw [hl1, hr1] at this; exact this

/-- when the calls name distinct edges none of which is present, each call stores one edge -/
theorem addEdgesFrom_fresh (es : List (Int × Int)) (G G' : BipG)
    (h : G.addEdgesFrom es = .ok G') (hnd : (es.map natPair).Nodup)
    (hnew : ∀ e ∈ es.map natPair, e ∉ G.edgeset) :
    G'.edgeset = (es.map natPair).reverse ++ G.edgeset := by
  induction es generalizing G with
  | nil => simp [addEdgesFrom_nil] at h; subst h; simp
  | cons e es ih =>
    rw [addEdgesFrom_cons_gb, except_bind_ok] at h
    obtain ⟨G1, h1, h2⟩ := h
    simp only [List.map_cons, List.nodup_cons] at hnd
    obtain ⟨hr, hcase⟩ := addEdge_ok G G1 _ _ h1
    have hfresh : G.hasEdge e.1 e.2 = false := by
      cases hh : G.hasEdge e.1 e.2
      · rfl
      · exfalso
        exact hnew (natPair e) (by simp) ((hasEdge_iff G _ _).1 hh).2.2
    rcases hcase with ⟨he, _⟩ | ⟨_, _, _, hes, _⟩
    · rw [hfresh] at he; cases he
    · have := ih G1 h2 hnd.2 (by
        intro x hx hx'
        rw [hes] at hx'
        rcases List.mem_cons.1 hx' with rfl | hx'
        · exact hnd.1 hx
        · exact hnew x (by simp [hx]) hx')
      rw [this, hes]
      simp [natPair]

theorem addEdgesFrom_error_gb (es : List (Int × Int)) (G : BipG) (e : Err)
    (h : G.addEdgesFrom es = .error e) :
    e = .valueError ∧ ∃ x ∈ es, ¬ (1 ≤ x.1 ∧ x.1 ≤ G.l ∧ 1 ≤ x.2 ∧ x.2 ≤ G.r) := by
  induction es generalizing G with
  | nil => simp [addEdgesFrom_nil] at h
  | cons x es ih =>
    rw [addEdgesFrom_cons_gb, except_bind_error] at h
    rcases h with h | ⟨G1, h1, h2⟩
    · obtain ⟨he, hr⟩ := addEdge_error G _ _ e h
      exact ⟨he, x, by simp, hr⟩
    · obtain ⟨he, y, hy, hr⟩ := ih G1 h2
      obtain ⟨hl1, hr1⟩ := sides_addEdge G G1 _ _ h1
      rw [hl1, hr1] at hr
      exact ⟨he, y, by simp [hy], hr⟩

theorem numberOfEdges_init (l r : Nat) : (init l r).numberOfEdges = 0 := rfl

theorem addEdgesFrom_sides (es : List (Int × Int)) (G G' : BipG) (h : G.addEdgesFrom es = .ok G') :
    G'.l = G.l ∧ G'.r = G.r := by
  induction es generalizing G with
  | nil => simp [addEdgesFrom_nil] at h; subst h; exact ⟨rfl, rfl⟩
  | cons x es ih =>
    rw [addEdgesFrom_cons_gb, except_bind_ok] at h
    obtain ⟨G2, h1, h2⟩ := h
    have := sides_addEdge _ _ _ _ h1
    have := ih G2 h2
    omega

/-- no edge is ever lost by `add_edge` calls (no consistency needed) -/
theorem addEdgesFrom_mono (es : List (Int × Int)) (G G' : BipG) (h : G.addEdgesFrom es = .ok G')
    (e : Nat × Nat) (he : e ∈ G.edgeset) : e ∈ G'.edgeset := by
  induction es generalizing G with
  | nil => simp [addEdgesFrom_nil] at h; subst h; exact he
  | cons x es ih =>
    rw [addEdgesFrom_cons_gb, except_bind_ok] at h
    obtain ⟨G2, h1, h2⟩ := h
    exact ih G2 h2 ((edgeset_addEdge _ _ _ _ h1 e).2 (Or.inr he))

end BipG

namespace GRand

theorem pairsToInt_natPair (es : List (Nat × Nat)) : (pairsToInt es).map natPair = es := by
  induction es with
  | nil => rfl
  | cons e es ih =>
    simp only [pairsToInt, List.map_cons, List.map_map] at ih ⊢
    simp [natPair, ih]

theorem mem_allPairs {L R : Nat} {e : Nat × Nat} :
    e ∈ allPairs L R ↔ 1 ≤ e.1 ∧ e.1 ≤ L ∧ 1 ≤ e.2 ∧ e.2 ≤ R := by
  obtain ⟨a, b⟩ := e
  simp only [allPairs, List.mem_flatMap, List.mem_map, mem_rangeN, Prod.mk.injEq]
  constructor
  · rintro ⟨u, hu, v, hv, rfl, rfl⟩; omega
  · intro h; exact ⟨a, by omega, b, by omega, rfl, rfl⟩

theorem sum_map_const {α} (l : List α) (c : Nat) : (l.map (fun _ => c)).sum = l.length * c := by
  induction l with
  | nil => simp
  | cons x xs ih => simp [ih, Nat.succ_mul]; omega

theorem nodup_pairs (us vs : List Nat) (hu : us.Nodup) (hv : vs.Nodup) :
    (us.flatMap (fun u => vs.map (fun v => (u, v)))).Nodup := by
  induction us with
  | nil => simp
  | cons u us ih =>
    simp only [List.flatMap_cons, List.nodup_cons] at hu ⊢
    rw [List.nodup_append]
    refine ⟨nodup_map_inj _ (fun a b hab => by simpa using hab) hv, ih hu.2, ?_⟩
    intro a ha b hb
    simp only [List.mem_map, List.mem_flatMap] at ha hb
    obtain ⟨v, _, rfl⟩ := ha
    obtain ⟨u', hu', w, _, rfl⟩ := hb
    intro heq
    simp at heq
    exact hu.1 (heq.1 ▸ hu')

theorem nodup_allPairs (L R : Nat) : (allPairs L R).Nodup :=
  nodup_pairs _ _ (nodup_rangeN _ _) (nodup_rangeN _ _)

theorem length_allPairs (L R : Nat) : (allPairs L R).length = L * R := by
  simp only [allPairs, List.length_flatMap, List.length_map, length_rangeN]
  rw [sum_map_const, length_rangeN]; simp

/-! ### addRow -/
def rowCalls (u : Nat) (vs : List Nat) : List (Int × Int) := vs.map (fun (v : Nat) => ((u : Int), (v : Int)))

theorem rowCalls_natPair (u : Nat) (vs : List Nat) : (rowCalls u vs).map natPair = vs.map (fun v => (u, v)) := by
  simp [rowCalls, natPair, List.map_map, Function.comp_def]

theorem addRow_eq (G : BipG) (u : Nat) (vs : List Nat) :
    addRow G u vs = G.addEdgesFrom (rowCalls u vs) := by
  simp only [addRow, BipG.addEdgesFrom, rowCalls]
  induction vs generalizing G with
  | nil => rfl
  | cons v vs ih =>
    simp only [List.foldlM, List.map_cons]
    cases G.addEdge u v <;> simp [bind, Except.bind, ih]

/-! ### bipartite_random_left_regular -/

/-- the rejection loop of the `r > sys.maxsize` branch, whenever it ends: `need` more values,
all distinct and in `[1, r]` — whatever was drawn and however often a value was repeated -/
theorem distinctRandints_ok (r : Int) (fuel need : Nat) (acc s : List Nat) (ds rest : List Draw)
    (hnd : acc.Nodup) (hmem : ∀ v ∈ acc, 1 ≤ v ∧ (v : Int) ≤ r)
    (h : distinctRandints r fuel need acc ds = .ok s rest) :
    s.length = acc.length + need ∧ s.Nodup ∧ ∀ v ∈ s, 1 ≤ v ∧ (v : Int) ≤ r := by
  induction fuel generalizing need acc ds with
  | zero =>
    cases need with
    | zero => simp only [distinctRandints, pure_ok] at h; obtain ⟨rfl, _⟩ := h; exact ⟨rfl, hnd, hmem⟩
    | succ n => simp [distinctRandints] at h
  | succ fuel ih =>
    cases need with
    | zero => simp only [distinctRandints, pure_ok] at h; obtain ⟨rfl, _⟩ := h; exact ⟨rfl, hnd, hmem⟩
    | succ n =>
      simp only [distinctRandints] at h
      rw [bind_ok] at h
      obtain ⟨v, mid, hv, h⟩ := h
      obtain ⟨hv1, hv2, _⟩ := randint_ok _ _ _ _ _ hv
      split at h
      · exact ih (n + 1) acc mid hnd hmem h
      · rename_i hc
        have := ih n (v.toNat :: acc) mid (List.nodup_cons.2 ⟨by simpa using hc, hnd⟩) (by
          intro w hw
          rcases List.mem_cons.1 hw with rfl | hw
          · omega
          · exact hmem w hw) h
        simp only [List.length_cons] at this
        exact ⟨by omega, this.2⟩

/-- the rejection loop never raises -/
theorem distinctRandints_exc (r : Int) (fuel need : Nat) (acc : List Nat) (ds : List Draw) (e : Err)
    (hr : 1 ≤ r) (h : distinctRandints r fuel need acc ds = .exc e) : False := by
  induction fuel generalizing need acc ds with
  | zero => cases need <;> simp [distinctRandints] at h
  | succ fuel ih =>
    cases need with
    | zero => simp [distinctRandints] at h
    | succ n =>
      simp only [distinctRandints] at h
      rw [bind_exc] at h
      rcases h with h | ⟨v, mid, _, h⟩
      · have := (randint_exc _ _ _ _ h).2; omega
      · split at h
        · exact ih _ _ _ h
        · exact ih _ _ _ h

theorem distinctRandints_noForeign (r : Int) (fuel need : Nat) (acc : List Nat) :
    NoForeign (distinctRandints r fuel need acc) := by
  induction fuel generalizing need acc with
  | zero =>
    cases need with
    | zero => exact NoForeign.pure _
    | succ n => exact NoForeign.stuck
  | succ fuel ih =>
    cases need with
    | zero => exact NoForeign.pure _
    | succ n =>
      simp only [distinctRandints]
      exact NoForeign.bind (NoForeign.randint _ _) (fun v => NoForeign.ite (ih _ _) (ih _ _))

/-- the rejection loop ends on every draw list that starts with `need` fresh legal values
(repeats of values already collected may be interspersed: see `distinctRandints_skip`) -/
theorem distinctRandints_complete (r : Int) (vs : List Nat) (fuel : Nat) (acc : List Nat) (rest : List Draw)
    (hfuel : vs.length ≤ fuel) (hnd : vs.Nodup) (hdisj : ∀ v ∈ vs, v ∉ acc)
    (hmem : ∀ v ∈ vs, 1 ≤ v ∧ (v : Int) ≤ r) :
    distinctRandints r fuel vs.length acc (vs.map (fun (v : Nat) => Draw.randint (v : Int)) ++ rest)
      = .ok (vs.reverse ++ acc) rest := by
  induction vs generalizing fuel acc with
  | nil => cases fuel <;> simp [distinctRandints, pure, RM.pure]
  | cons v vs ih =>
    cases fuel with
    | zero => simp at hfuel
    | succ fuel =>
      have hv := hmem v (by simp)
      have hr : ¬ r < 1 := by omega
      simp only [List.nodup_cons] at hnd
      have := ih fuel (v :: acc) (by simpa using hfuel) hnd.2 (by
        intro w hw hc
        rcases List.mem_cons.1 hc with rfl | hc
        · exact hnd.1 hw
        · exact hdisj w (by simp [hw]) hc) (fun w hw => hmem w (by simp [hw]))
      have hna' : v ∉ acc := hdisj v (by simp)
      have h1 : (1 : Int) ≤ (v : Int) := by omega
      simp only [List.length_cons, List.map_cons, List.cons_append, distinctRandints]
      show RM.bind _ _ _ = _
      simp [RM.bind, randint, hr, h1, hv.2, hna', this]

/-- a draw that repeats a value already collected is consumed and changes nothing else -/
theorem distinctRandints_skip (r : Int) (fuel need : Nat) (acc : List Nat) (v : Nat) (ds : List Draw)
    (hv : v ∈ acc) (hv1 : 1 ≤ v ∧ (v : Int) ≤ r) :
    distinctRandints r (fuel + 1) (need + 1) acc (Draw.randint (v : Int) :: ds)
      = distinctRandints r fuel (need + 1) acc ds := by
  have hr : ¬ r < 1 := by omega
  have h1 : (1 : Int) ≤ (v : Int) := by omega
  simp only [distinctRandints]
  show RM.bind _ _ _ = _
  simp [RM.bind, randint, hr, h1, hv1.2, hv]

/-- the neighbours of one left vertex (either branch), whenever they are obtained -/
theorem glrdNeighbours_ok (r : Nat) (d : Int) (ds rest : List Draw) (s : List Nat) (hd : 0 ≤ d)
    (h : glrdNeighbours r d ds = .ok s rest) :
    (s.length : Int) = d ∧ s.Nodup ∧ ∀ x ∈ s, x ∈ rangeN 1 (r + 1) := by
  unfold glrdNeighbours at h
  split at h
  · obtain ⟨h1, h2, h3, _⟩ := sample_ok _ _ _ _ _ h
    exact ⟨h1, h2, h3⟩
  · obtain ⟨h1, h2, h3⟩ := distinctRandints_ok r ds.length d.toNat [] s ds rest List.nodup_nil (by simp) h
    refine ⟨by simp at h1; omega, h2, ?_⟩
    intro x hx; have := h3 x hx; rw [mem_rangeN]; omega

theorem glrdNeighbours_exc (r : Nat) (d : Int) (ds : List Draw) (e : Err)
    (h : glrdNeighbours r d ds = .exc e) : e = .valueError ∧ (d < 0 ∨ (r : Int) < d) := by
  unfold glrdNeighbours at h
  split at h
  · have := sample_exc _ _ _ _ h
    rw [length_rangeN] at this
    exact ⟨this.1, by omega⟩
  · rename_i hr
    exact (distinctRandints_exc r _ _ _ ds e (by simp only [sysMaxsize] at hr; omega) h).elim

theorem glrdNeighbours_noForeign (r : Nat) (d : Int) : NoForeign (glrdNeighbours r d) := by
  unfold glrdNeighbours
  split
  · exact NoForeign.sample _ _
  · intro ds; exact distinctRandints_noForeign _ _ _ _ ds

/-- the loop of `bipartite_random_left_regular` over the left vertices `us` still to do
(for every `r`: both the `random.sample` branch and the rejection loop of `r > sys.maxsize`) -/
theorem leftRegularLoop_spec (r : Nat) (d : Int) (us : List Nat) (G G' : BipG) (ds rest : List Draw)
    (hd : 0 ≤ d) (hI : G.InvGB) (hr : G.r = r) (hus : us.Nodup)
    (hfree : ∀ e ∈ G.edgeset, e.1 ∉ us)
    (h : leftRegularLoop r d us G ds = .ok G' rest) :
    G'.InvGB ∧ G'.l = G.l ∧ G'.r = G.r ∧
    (∀ u ∈ us, (G'.leftDeg u : Int) = d) ∧ (∀ u, u ∉ us → G'.leftDeg u = G.leftDeg u) := by
  induction us generalizing G ds with
  | nil =>
    simp only [leftRegularLoop, pure_ok] at h
    obtain ⟨rfl, _⟩ := h
    exact ⟨hI, rfl, rfl, by simp, by simp⟩
  | cons u us ih =>
    simp only [leftRegularLoop] at h
    rw [bind_ok] at h
    obtain ⟨s, mid, hs, h⟩ := h
    rw [bind_ok] at h
    obtain ⟨G1, mid2, hrow, h⟩ := h
    rw [lift_ok] at hrow
    obtain ⟨hrow, rfl⟩ := hrow
    obtain ⟨hlen, hnd, hmem⟩ := glrdNeighbours_ok _ _ _ _ _ hd hs
    rw [addRow_eq] at hrow
    obtain ⟨hI1, hl1, hr1, hm1, _⟩ := BipG.addEdgesFrom_spec_gb _ G G1 hI hrow
    have hmap := rowCalls_natPair u (sortNat s)
    have hperm := perm_sortNat s
    have hnd' : (sortNat s).Nodup := hperm.nodup_iff.2 hnd
    have hfresh := BipG.addEdgesFrom_fresh _ G G1 hrow (by
        rw [hmap]
        exact nodup_map_inj _ (fun a b hab => by simpa using hab) hnd') (by
        rw [hmap]; intro e he
        simp only [List.mem_map] at he
        obtain ⟨v, _, rfl⟩ := he
        intro hc; exact hfree _ hc (by simp))
    rw [hmap] at hfresh
    simp only [List.nodup_cons] at hus
    have := ih G1 mid hI1 (by omega) hus.2 (by
      intro e he
      rw [hm1 e, hmap] at he
      rcases he with he | he
      · intro hc; exact hfree e he (by simp [hc])
      · simp only [List.mem_map] at he
        obtain ⟨v, _, rfl⟩ := he
        exact hus.1) h
    obtain ⟨hI', hl', hr', hdeg, hother⟩ := this
    refine ⟨hI', by omega, by omega, ?_, ?_⟩
    · intro x hx
      rcases List.mem_cons.1 hx with rfl | hx
      · rw [hother x hus.1, hI1.ldeg, hfresh]
        have h0 : G.edgeset.countP (fun e => e.1 == x) = 0 := by
          rw [List.countP_eq_zero]
          intro e he; have := hfree e he; simp at this ⊢; exact this.1
        simp only [List.countP_append, List.countP_reverse, List.countP_map, h0]
        have : List.countP ((fun e : Nat × Nat => e.1 == x) ∘ fun v => (x, v)) (sortNat s) = (sortNat s).length := by
          rw [List.countP_eq_length]; intro a _; simp
        rw [this, hperm.length_eq]; omega
      · exact hdeg x hx
    · intro x hx
      simp only [List.mem_cons, not_or] at hx
      rw [hother x hx.2, hI1.ldeg, hfresh, hI.ldeg]
      simp only [List.countP_append, List.countP_reverse, List.countP_map]
      have : List.countP ((fun e : Nat × Nat => e.1 == x) ∘ fun v => (u, v)) (sortNat s) = 0 := by
        rw [List.countP_eq_zero]; intro a _; simp; exact fun h => hx.1 h.symm
      omega

/-- `bipartite_random_left_regular(l, r, d)`, whenever it returns (every `r`, both branches) -/
theorem leftRegular_ok (l r d : Int) (ds rest : List Draw) (G : BipG)
    (h : leftRegular l r d ds = .ok G rest) :
    0 ≤ l ∧ 0 ≤ r ∧ 0 ≤ d ∧ G.InvGB ∧ G.l = l.toNat ∧ G.r = r.toNat ∧
    ∀ u, 1 ≤ u → u ≤ G.l → (G.leftDeg u : Int) = min r d := by
  unfold leftRegular at h
  split at h
  · simp at h
  · rename_i hg
    have hg' : 0 ≤ l ∧ 0 ≤ r ∧ 0 ≤ d := by omega
    obtain ⟨hI, hl, hr, hdeg, _⟩ := leftRegularLoop_spec r.toNat (min r d) _ _ G ds rest (by omega)
      (BipG.inv_init_gb _ _) rfl (nodup_rangeN _ _) (by simp [BipG.init]) h
    refine ⟨hg'.1, hg'.2.1, hg'.2.2, hI, hl, hr, ?_⟩
    intro u h1 h2
    apply hdeg u
    rw [mem_rangeN]; rw [hl] at h2; simp only [BipG.init] at h2; omega

theorem leftRegularLoop_exc (r : Nat) (d : Int) (us : List Nat) (G : BipG) (ds : List Draw) (e : Err)
    (hr : G.r = r) (hd : 0 ≤ d ∧ d ≤ r) (hus : ∀ u ∈ us, 1 ≤ u ∧ u ≤ G.l)
    (h : leftRegularLoop r d us G ds = .exc e) : False := by
  induction us generalizing G ds with
  | nil => simp [leftRegularLoop] at h
  | cons u us ih =>
    simp only [leftRegularLoop] at h
    rw [bind_exc] at h
    rcases h with h | ⟨s, mid, hs, h⟩
    · have := (glrdNeighbours_exc _ _ _ _ h).2
      omega
    · rw [bind_exc] at h
      obtain ⟨_, _, hmem⟩ := glrdNeighbours_ok _ _ _ _ _ hd.1 hs
      rcases h with h | ⟨G1, mid2, hrow, h⟩
      · rw [lift_exc, addRow_eq] at h
        obtain ⟨_, x, hx, hbad⟩ := BipG.addEdgesFrom_error_gb _ _ _ h
        simp only [rowCalls, List.mem_map] at hx
        obtain ⟨v, hv, rfl⟩ := hx
        have hv' := hmem v ((perm_sortNat s).mem_iff.1 hv)
        rw [mem_rangeN] at hv'
        have := hus u (by simp)
        apply hbad; simp only; omega
      · rw [lift_ok] at hrow
        obtain ⟨hrow, rfl⟩ := hrow
        rw [addRow_eq] at hrow
        have hsides := BipG.addEdgesFrom_sides _ _ _ hrow
        exact ih G1 mid (by omega) (by
          intro x hx; have := hus x (by simp [hx]); omega) h

/-- `bipartite_random_left_regular` raises only its documented `ValueError`, and only for a
negative argument (every `r`, both branches) -/
theorem leftRegular_exc (l r d : Int) (ds : List Draw) (e : Err)
    (h : leftRegular l r d ds = .exc e) : e = .valueError ∧ (l < 0 ∨ r < 0 ∨ d < 0) := by
  unfold leftRegular at h
  split at h
  · rename_i hg; simp at h; exact ⟨h.symm, hg⟩
  · rename_i hg
    exfalso
    refine leftRegularLoop_exc r.toNat (min r d) _ _ ds e rfl ?_ ?_ h
    · omega
    · intro u hu; rw [mem_rangeN] at hu; simp only [BipG.init]; omega

theorem leftRegularLoop_noForeign (r : Nat) (d : Int) (us : List Nat) (G : BipG) :
    NoForeign (leftRegularLoop r d us G) := by
  induction us generalizing G with
  | nil => exact NoForeign.pure _
  | cons u us ih =>
    simp only [leftRegularLoop]
    exact NoForeign.bind (glrdNeighbours_noForeign _ _) (fun s => NoForeign.bind (NoForeign.lift _) (fun G1 => ih G1))

theorem leftRegular_noForeign (l r d : Int) : NoForeign (leftRegular l r d) := by
  unfold leftRegular
  exact NoForeign.ite (NoForeign.raise _) (leftRegularLoop_noForeign _ _ _ _)

/-- one left vertex of the `r > sys.maxsize` branch: the rejection loop ends on every draw list
that starts with `d` distinct legal values -/
theorem glrdNeighbours_complete (r : Nat) (d : Int) (vs : List Nat) (rest : List Draw)
    (hbig : sysMaxsize < r) (hd : d = vs.length) (hnd : vs.Nodup) (hmem : ∀ v ∈ vs, 1 ≤ v ∧ v ≤ r) :
    glrdNeighbours r d (vs.map (fun (v : Nat) => Draw.randint (v : Int)) ++ rest) = .ok vs.reverse rest := by
  unfold glrdNeighbours
  rw [if_neg (by omega)]
  have := distinctRandints_complete r vs (vs.map (fun (v : Nat) => Draw.randint (v : Int)) ++ rest).length [] rest
    (by simp) hnd (by simp) (fun v hv => by have := hmem v hv; omega)
  simp only [List.append_nil] at this
  subst hd
  simpa using this

/-- a legal draw list on which the `r > sys.maxsize` branch returns: `1, …, d` for every left vertex -/
def glrdEasyDraws (n : Nat) (d : Nat) : List Draw :=
  (List.replicate n ((rangeN 1 (d + 1)).map (fun (v : Nat) => Draw.randint (v : Int)))).flatten

/-- termination of the rejection loops, in the only form the draws-as-inputs model can state it:
for every `r > sys.maxsize` there is a legal draw list on which the loop over the left vertices returns -/
theorem leftRegularLoop_returns (r : Nat) (d : Nat) (us : List Nat) (G : BipG)
    (hbig : sysMaxsize < r) (hr : G.r = r) (hd : d ≤ r) (hus : ∀ u ∈ us, 1 ≤ u ∧ u ≤ G.l) :
    ∃ G', leftRegularLoop r d us G (glrdEasyDraws us.length d) = .ok G' [] := by
  induction us generalizing G with
  | nil => exact ⟨G, rfl⟩
  | cons u us ih =>
    have hs := glrdNeighbours_complete r d (rangeN 1 (d + 1)) (glrdEasyDraws us.length d) hbig
      (by rw [length_rangeN]; simp) (nodup_rangeN _ _) (by intro v hv; rw [mem_rangeN] at hv; omega)
    have hmem : ∀ v ∈ sortNat (rangeN 1 (d + 1)).reverse, 1 ≤ v ∧ v ≤ r := by
      intro v hv
      have := (perm_sortNat _).mem_iff.1 hv
      rw [List.mem_reverse, mem_rangeN] at this; omega
    cases hrow : addRow G u (sortNat (rangeN 1 (d + 1)).reverse) with
    | error e =>
      rw [addRow_eq] at hrow
      obtain ⟨_, x, hx, hbad⟩ := BipG.addEdgesFrom_error_gb _ _ _ hrow
      simp only [rowCalls, List.mem_map] at hx
      obtain ⟨v, hv, rfl⟩ := hx
      have := hmem v hv
      have := hus u (by simp)
      exact (hbad (by simp only; omega)).elim
    | ok G1 =>
      have hsides : G1.l = G.l ∧ G1.r = G.r := by
        rw [addRow_eq] at hrow; exact BipG.addEdgesFrom_sides _ _ _ hrow
      obtain ⟨G', hG'⟩ := ih G1 (by omega) (by intro x hx; have := hus x (by simp [hx]); omega)
      refine ⟨G', ?_⟩
      simp only [leftRegularLoop, glrdEasyDraws, List.length_cons, List.replicate_succ, List.flatten_cons]
      show RM.bind _ _ _ = _
      unfold RM.bind
      rw [show (List.replicate us.length ((rangeN 1 (d + 1)).map (fun (v : Nat) => Draw.randint (v : Int)))).flatten
        = glrdEasyDraws us.length d from rfl, hs]
      show RM.bind _ _ _ = _
      unfold RM.bind
      rw [hrow]
      exact hG'

/-- `bipartite_random_left_regular(l, r, d)` with `r > sys.maxsize` returns on some legal draw list
(so `leftRegular_ok` is not vacuous on the new branch, for any arguments) -/
theorem leftRegular_returns (l r d : Int) (hl : 0 ≤ l) (hd : 0 ≤ d) (hbig : (sysMaxsize : Int) < r) :
    ∃ G, leftRegular l r d (glrdEasyDraws l.toNat (min r d).toNat) = .ok G [] := by
  unfold leftRegular
  rw [if_neg (by omega)]
  have := leftRegularLoop_returns r.toNat (min r d).toNat (rangeN 1 (l.toNat + 1)) (BipG.init l.toNat r.toNat)
    (by omega) rfl (by omega) (by intro u hu; rw [mem_rangeN] at hu; simp only [BipG.init]; omega)
  rw [length_rangeN, Int.toNat_of_nonneg (by omega)] at this
  simpa using this

/-! ### `leftRegularNoRadj`: what the compiled driver runs for `r > sys.maxsize` -/

/-- apply `f` to the value returned -/
def outMap {α β} (f : α → β) : Out α → Out β
  | .ok a rest => .ok (f a) rest
  | .exc e => .exc e
  | .foreign => .foreign
  | .stuck => .stuck

theorem dropRadj_addEdge (G : BipG) (u v : Int) :
    (dropRadj G).addEdge u v = (G.addEdge u v).map dropRadj := by
  unfold BipG.addEdge
  by_cases h1 : (1 ≤ u ∧ u ≤ G.l ∧ 1 ≤ v ∧ v ≤ G.r)
  · by_cases h2 : G.hasEdge u v = true
    · simp [h1, h2, dropRadj, Except.map]
      exact h2
    · simp [h1, h2, dropRadj, Except.map]
      exact Bool.eq_false_iff.2 h2
  · have h1' : ¬ (1 ≤ u ∧ u ≤ (dropRadj G).l ∧ 1 ≤ v ∧ v ≤ (dropRadj G).r) := h1
    simp only [h1, h1', not_false_eq_true, if_true, Except.map]

theorem dropRadj_addRow (G : BipG) (u : Nat) (vs : List Nat) :
    addRow (dropRadj G) u vs = (addRow G u vs).map dropRadj := by
  induction vs generalizing G with
  | nil => rfl
  | cons v vs ih =>
    simp only [addRow, List.foldlM] at ih ⊢
    rw [dropRadj_addEdge]
    cases G.addEdge u v with
    | error e => rfl
    | ok G1 => exact ih G1

theorem dropRadj_leftRegularLoop (r : Nat) (d : Int) (us : List Nat) (G : BipG) (ds : List Draw) :
    leftRegularLoop r d us (dropRadj G) ds = outMap dropRadj (leftRegularLoop r d us G ds) := by
  induction us generalizing G ds with
  | nil => rfl
  | cons u us ih =>
    simp only [leftRegularLoop]
    show RM.bind _ _ _ = outMap _ (RM.bind _ _ _)
    unfold RM.bind
    cases glrdNeighbours r d ds with
    | ok s mid =>
      show RM.bind _ _ _ = outMap _ (RM.bind _ _ _)
      unfold RM.bind
      rw [dropRadj_addRow]
      cases addRow G u (sortNat s) with
      | error e => rfl
      | ok G1 => exact ih G1 mid
    | exc e => rfl
    | foreign => rfl
    | stuck => rfl

/-- the run without right adjacency table is the run of the model, minus that table: same
outcome kind, same draws consumed, same `l`, `r`, left adjacency lists and edge set -/
theorem leftRegularNoRadj_eq (l r d : Int) (ds : List Draw) :
    leftRegularNoRadj l r d ds = outMap dropRadj (leftRegular l r d ds) := by
  unfold leftRegularNoRadj leftRegular
  split
  · rfl
  · exact dropRadj_leftRegularLoop _ _ _ (BipG.init l.toNat r.toNat) ds

theorem dropRadj_edges (G : BipG) : (dropRadj G).edges = G.edges := rfl
theorem dropRadj_numberOfEdges (G : BipG) : (dropRadj G).numberOfEdges = G.numberOfEdges := rfl

/-! ### bipartite_random_m_edges -/

theorem numberOfEdges_addEdge_new (G G' : BipG) (u v : Int) (h : G.addEdge u v = .ok G')
    (hn : G.hasEdge u v = false) : G'.numberOfEdges = G.numberOfEdges + 1 := by
  obtain ⟨_, hcase⟩ := BipG.addEdge_ok G G' u v h
  rcases hcase with ⟨he, _⟩ | ⟨_, _, _, hes, _⟩
  · rw [hn] at he; cases he
  · simp [BipG.numberOfEdges, hes]

/-- the sparse strategy: whatever is drawn, when the loop ends exactly `need` new edges are there -/
theorem mEdgesSparse_ok (L R : Int) (fuel need : Nat) (G G' : BipG) (ds rest : List Draw)
    (hI : G.InvGB) (h : mEdgesSparse L R fuel need G ds = .ok G' rest) :
    G'.InvGB ∧ G'.l = G.l ∧ G'.r = G.r ∧ G'.numberOfEdges = G.numberOfEdges + need := by
  induction fuel generalizing need G ds with
  | zero =>
    cases need with
    | zero => simp only [mEdgesSparse, pure_ok] at h; obtain ⟨rfl, _⟩ := h; exact ⟨hI, rfl, rfl, rfl⟩
    | succ n => simp [mEdgesSparse] at h
  | succ fuel ih =>
    cases need with
    | zero => simp only [mEdgesSparse, pure_ok] at h; obtain ⟨rfl, _⟩ := h; exact ⟨hI, rfl, rfl, rfl⟩
    | succ n =>
      simp only [mEdgesSparse] at h
      rw [bind_ok] at h
      obtain ⟨u, mid, _, h⟩ := h
      rw [bind_ok] at h
      obtain ⟨v, mid2, _, h⟩ := h
      split at h
      · exact ih (n + 1) G mid2 hI h
      · rename_i he
        rw [bind_ok] at h
        obtain ⟨G1, mid3, h1, h⟩ := h
        rw [lift_ok] at h1
        obtain ⟨h1, rfl⟩ := h1
        have hI1 := BipG.inv_addEdge_gb G G1 u v hI h1
        obtain ⟨hl1, hr1⟩ := BipG.sides_addEdge G G1 u v h1
        have hn1 := numberOfEdges_addEdge_new G G1 u v h1 (by simpa using he)
        obtain ⟨hI', hl', hr', hn'⟩ := ih n G1 mid2 hI1 h
        exact ⟨hI', by omega, by omega, by omega⟩

/-- the sparse loop never raises -/
theorem mEdgesSparse_exc (L R : Int) (fuel need : Nat) (G : BipG) (ds : List Draw) (e : Err)
    (hL : 1 ≤ L ∧ L = G.l) (hR : 1 ≤ R ∧ R = G.r)
    (h : mEdgesSparse L R fuel need G ds = .exc e) : False := by
  induction fuel generalizing need G ds with
  | zero => cases need <;> simp [mEdgesSparse] at h
  | succ fuel ih =>
    cases need with
    | zero => simp [mEdgesSparse] at h
    | succ n =>
      simp only [mEdgesSparse] at h
      rw [bind_exc] at h
      rcases h with h | ⟨u, mid, hu, h⟩
      · have := (randint_exc _ _ _ _ h).2; omega
      · rw [bind_exc] at h
        rcases h with h | ⟨v, mid2, hv, h⟩
        · have := (randint_exc _ _ _ _ h).2; omega
        · obtain ⟨hu1, hu2, _⟩ := randint_ok _ _ _ _ _ hu
          obtain ⟨hv1, hv2, _⟩ := randint_ok _ _ _ _ _ hv
          split at h
          · exact ih (n + 1) G mid2 hL hR h
          · rw [bind_exc] at h
            rcases h with h | ⟨G1, mid3, h1, h⟩
            · rw [lift_exc] at h
              exact (BipG.addEdge_error _ _ _ _ h).2 (by omega)
            · rw [lift_ok] at h1
              obtain ⟨h1, rfl⟩ := h1
              obtain ⟨hl1, hr1⟩ := BipG.sides_addEdge G G1 u v h1
              exact ih n G1 mid2 (by omega) (by omega) h

theorem mEdgesSparse_noForeign (L R : Int) (fuel need : Nat) (G : BipG) :
    NoForeign (mEdgesSparse L R fuel need G) := by
  induction fuel generalizing need G with
  | zero =>
    cases need with
    | zero => exact NoForeign.pure _
    | succ n => exact NoForeign.stuck
  | succ fuel ih =>
    cases need with
    | zero => exact NoForeign.pure _
    | succ n =>
      simp only [mEdgesSparse]
      refine NoForeign.bind (NoForeign.randint _ _) (fun u => NoForeign.bind (NoForeign.randint _ _) (fun v => ?_))
      exact NoForeign.ite (ih _ _) (NoForeign.bind (NoForeign.lift _) (fun G1 => ih _ _))

/-- both strategies of `bipartite_random_m_edges`, for a request in range: exactly `m` edges -/
theorem mEdgesBody_ok (L R m : Int) (_hL : 1 ≤ L) (_hR : 1 ≤ R) (hm : 0 ≤ m)
    (ds rest : List Draw) (G : BipG) (h : mEdgesBody L R m ds = .ok G rest) :
    G.InvGB ∧ G.l = L.toNat ∧ G.r = R.toNat ∧ G.numberOfEdges = m.toNat := by
  unfold mEdgesBody at h
  split at h
  · rw [bind_ok] at h
    obtain ⟨es, mid, hs, h⟩ := h
    rw [lift_ok] at h
    obtain ⟨hadd, rfl⟩ := h
    obtain ⟨hlen, hnd, hmem, _⟩ := samplePairs_ok _ _ _ _ _ hs
    obtain ⟨hI, hl, hr, _, _⟩ := BipG.addEdgesFrom_spec_gb _ _ G (BipG.inv_init_gb _ _) hadd
    have hf := BipG.addEdgesFrom_fresh _ _ G hadd (by rw [pairsToInt_natPair]; exact hnd)
      (by simp [BipG.init])
    refine ⟨hI, hl, hr, ?_⟩
    rw [BipG.numberOfEdges, hf, pairsToInt_natPair]
    simp [BipG.init]; omega
  · have := mEdgesSparse_ok L R ds.length m.toNat (BipG.init L.toNat R.toNat) G ds rest (BipG.inv_init_gb _ _) h
    obtain ⟨hI', hl', hr', hn'⟩ := this
    exact ⟨hI', hl', hr', by rw [hn']; simp [BipG.numberOfEdges, BipG.init]⟩

theorem mEdgesBody_exc (L R m : Int) (hL : 1 ≤ L) (hR : 1 ≤ R) (hm : 0 ≤ m ∧ m ≤ L * R)
    (ds : List Draw) (e : Err) (h : mEdgesBody L R m ds = .exc e) : False := by
  unfold mEdgesBody at h
  split at h
  · rw [bind_exc] at h
    rcases h with h | ⟨es, mid, hs, h⟩
    · have := (samplePairs_exc _ _ _ _ h).2
      rw [length_allPairs] at this
      have h2 : ((L.toNat * R.toNat : Nat) : Int) = L * R := by
        rw [Int.natCast_mul, Int.toNat_of_nonneg (by omega), Int.toNat_of_nonneg (by omega)]
      omega
    · obtain ⟨hlen, hnd, hmem, _⟩ := samplePairs_ok _ _ _ _ _ hs
      rw [lift_exc] at h
      obtain ⟨_, x, hx, hbad⟩ := BipG.addEdgesFrom_error_gb _ _ _ h
      simp only [pairsToInt, List.mem_map] at hx
      obtain ⟨y, hy, rfl⟩ := hx
      have := mem_allPairs.1 (hmem y hy)
      apply hbad; simp only [BipG.init]; omega
  · exact mEdgesSparse_exc L R _ _ _ ds e ⟨hL, by simp [BipG.init]; omega⟩ ⟨hR, by simp [BipG.init]; omega⟩ h

/-- `bipartite_random_m_edges(L, R, m)` whenever it returns: exactly `m` edges -/
theorem randomMEdges_ok (L R m : Int) (ds rest : List Draw) (G : BipG)
    (h : randomMEdges L R m ds = .ok G rest) :
    1 ≤ L ∧ 1 ≤ R ∧ 0 ≤ m ∧ m ≤ L * R ∧ G.InvGB ∧ G.l = L.toNat ∧ G.r = R.toNat ∧
    G.numberOfEdges = m.toNat := by
  unfold randomMEdges at h
  split at h
  · simp at h
  · rename_i hg
    rw [bind_ok] at h
    obtain ⟨G', mid, hb, h⟩ := h
    obtain ⟨hI, hl, hr, hn⟩ := mEdgesBody_ok L R m (by omega) (by omega) (by omega) _ _ _ hb
    rw [if_pos hn] at h
    simp only [pure_ok] at h
    obtain ⟨rfl, _⟩ := h
    exact ⟨by omega, by omega, by omega, by omega, hI, hl, hr, hn⟩

/-- the only exception of `bipartite_random_m_edges` is the documented `ValueError` for a request
out of range; in particular the final assertion never fails, in either strategy -/
theorem randomMEdges_exc (L R m : Int) (ds : List Draw) (e : Err)
    (h : randomMEdges L R m ds = .exc e) :
    e = .valueError ∧ (L < 1 ∨ R < 1 ∨ m < 0 ∨ m > L * R) := by
  unfold randomMEdges at h
  split at h
  · rename_i hg; simp at h; exact ⟨h.symm, hg⟩
  · rename_i hg
    exfalso
    rw [bind_exc] at h
    rcases h with h | ⟨G', mid, hb, h⟩
    · exact mEdgesBody_exc L R m (by omega) (by omega) (by omega) ds e h
    · obtain ⟨_, _, _, hn⟩ := mEdgesBody_ok L R m (by omega) (by omega) (by omega) _ _ _ hb
      rw [if_pos hn] at h
      exact pure_ne_exc _ _ _ h

theorem randomMEdges_noForeign (L R m : Int) : NoForeign (randomMEdges L R m) := by
  unfold randomMEdges
  refine NoForeign.ite (NoForeign.raise _) (NoForeign.bind ?_ (fun G => NoForeign.ite (NoForeign.pure _) (NoForeign.raise _)))
  unfold mEdgesBody
  refine NoForeign.ite (NoForeign.bind (NoForeign.samplePairs _ _) (fun es => NoForeign.lift _)) ?_
  intro ds; exact mEdgesSparse_noForeign _ _ _ _ _ ds

/-! ### bipartite_random -/
theorem coinLoop_mono (le : Nat → Bool) (ps : List (Nat × Nat)) (G G' : BipG) (ds rest : List Draw)
    (h : coinLoop le ps G ds = .ok G' rest) (e : Nat × Nat) (he : e ∈ G.edgeset) : e ∈ G'.edgeset := by
  induction ps generalizing G ds with
  | nil => simp only [coinLoop, pure_ok] at h; obtain ⟨rfl, _⟩ := h; exact he
  | cons q qs ih =>
    obtain ⟨a, b⟩ := q
    simp only [coinLoop] at h
    rw [bind_ok] at h
    obtain ⟨y, m2, _, h⟩ := h
    split at h
    · rw [bind_ok] at h
      obtain ⟨G2, m3, h2, h⟩ := h
      rw [lift_ok] at h2
      obtain ⟨h2, rfl⟩ := h2
      exact ih G2 m2 h ((BipG.edgeset_addEdge _ _ _ _ h2 e).2 (Or.inr he))
    · exact ih G m2 h he

/-- the loop of `bipartite_random`: a consistent graph on the same sides whose edges are among the
pairs visited; when the comparison succeeds for every possible draw (p = 1), all of them -/
theorem coinLoop_spec (le : Nat → Bool) (ps : List (Nat × Nat)) (G G' : BipG) (ds rest : List Draw)
    (hI : G.InvGB) (h : coinLoop le ps G ds = .ok G' rest) :
    G'.InvGB ∧ G'.l = G.l ∧ G'.r = G.r ∧
    (∀ e, e ∈ G'.edgeset → e ∈ G.edgeset ∨ e ∈ ps) ∧
    ((∀ x, x < unitDen → le x = true) → ∀ e ∈ ps, e ∈ G'.edgeset) := by
  induction ps generalizing G ds with
  | nil =>
    simp only [coinLoop, pure_ok] at h
    obtain ⟨rfl, _⟩ := h
    exact ⟨hI, rfl, rfl, fun e he => Or.inl he, by simp⟩
  | cons p ps ih =>
    obtain ⟨u, v⟩ := p
    simp only [coinLoop] at h
    rw [bind_ok] at h
    obtain ⟨x, mid, hx, h⟩ := h
    obtain ⟨hxlt, _⟩ := random_ok _ _ _ hx
    split at h
    · rename_i hle
      rw [bind_ok] at h
      obtain ⟨G1, mid2, h1, h⟩ := h
      rw [lift_ok] at h1
      obtain ⟨h1, rfl⟩ := h1
      have hI1 := BipG.inv_addEdge_gb G G1 _ _ hI h1
      obtain ⟨hl1, hr1⟩ := BipG.sides_addEdge G G1 _ _ h1
      obtain ⟨hI', hl', hr', hsub, hall⟩ := ih G1 mid hI1 h
      have hm := BipG.edgeset_addEdge G G1 _ _ h1
      refine ⟨hI', by omega, by omega, ?_, ?_⟩
      · intro e he
        rcases hsub e he with he | he
        · rcases (hm e).1 he with rfl | he
          · right; simp
          · left; exact he
        · right; simp [he]
      · intro hle' e he
        rcases List.mem_cons.1 he with rfl | he
        · exact coinLoop_mono le ps G1 G' mid rest h _ ((hm (u, v)).2 (Or.inl (by simp)))
        · exact hall hle' e he
    · rename_i hle
      obtain ⟨hI', hl', hr', hsub, hall⟩ := ih G mid hI h
      refine ⟨hI', hl', hr', ?_, ?_⟩
      · intro e he
        rcases hsub e he with he | he
        · left; exact he
        · right; simp [he]
      · intro hle'; exfalso; exact hle (hle' x hxlt)

theorem coinLoop_exc (le : Nat → Bool) (ps : List (Nat × Nat)) (G : BipG) (ds : List Draw) (e : Err)
    (hps : ∀ p ∈ ps, 1 ≤ p.1 ∧ p.1 ≤ G.l ∧ 1 ≤ p.2 ∧ p.2 ≤ G.r)
    (h : coinLoop le ps G ds = .exc e) : False := by
  induction ps generalizing G ds with
  | nil => simp [coinLoop] at h
  | cons p ps ih =>
    obtain ⟨u, v⟩ := p
    simp only [coinLoop] at h
    rw [bind_exc] at h
    rcases h with h | ⟨x, mid, _, h⟩
    · exact random_ne_exc _ _ h
    · split at h
      · rw [bind_exc] at h
        rcases h with h | ⟨G1, mid2, h1, h⟩
        · rw [lift_exc] at h
          have := hps (u, v) (by simp)
          exact (BipG.addEdge_error _ _ _ _ h).2 (by simp only at this; omega)
        · rw [lift_ok] at h1
          obtain ⟨h1, rfl⟩ := h1
          obtain ⟨hl1, hr1⟩ := BipG.sides_addEdge G G1 _ _ h1
          exact ih G1 mid (by intro p hp; have := hps p (by simp [hp]); omega) h
      · exact ih G mid (by intro p hp; exact hps p (by simp [hp])) h

theorem coinLoop_noForeign (le : Nat → Bool) (ps : List (Nat × Nat)) (G : BipG) :
    NoForeign (coinLoop le ps G) := by
  induction ps generalizing G with
  | nil => exact NoForeign.pure _
  | cons p ps ih =>
    obtain ⟨u, v⟩ := p
    simp only [coinLoop]
    exact NoForeign.bind NoForeign.random (fun x => NoForeign.ite
      (NoForeign.bind (NoForeign.lift _) (fun G1 => ih G1)) (ih G))

/-- `bipartite_random(L, R, p)` whenever it returns -/
theorem bipRandom_ok (L R pn : Int) (pd : Nat) (ds rest : List Draw) (G : BipG)
    (h : bipRandom L R pn pd ds = .ok G rest) :
    1 ≤ L ∧ 1 ≤ R ∧ 0 ≤ pn ∧ pn ≤ pd ∧ G.InvGB ∧ G.l = L.toNat ∧ G.r = R.toNat ∧
    (pn = pd → G.numberOfEdges = L.toNat * R.toNat) := by
  unfold bipRandom at h
  split at h
  · simp at h
  · rename_i hg
    obtain ⟨hI, hl, hr, hsub, hall⟩ := coinLoop_spec _ _ _ G ds rest (BipG.inv_init_gb _ _) h
    refine ⟨by omega, by omega, by omega, by omega, hI, hl, hr, ?_⟩
    intro hp
    have hall' := hall (by
      intro x hx; simp only [unitLe, decide_eq_true_eq]; subst hp
      have : (x : Int) ≤ (unitDen : Int) := by omega
      rw [Int.mul_comm]
      exact Int.mul_le_mul_of_nonneg_left this (by omega))
    -- edgeset is a duplicate-free list with the same members as allPairs
    have hperm : G.edgeset.Perm (allPairs L.toNat R.toNat) := by
      rw [List.perm_ext_iff_of_nodup hI.nodup (nodup_allPairs _ _)]
      intro e
      constructor
      · intro he
        rcases hsub e he with he | he
        · simp [BipG.init] at he
        · exact he
      · exact hall' e
    rw [BipG.numberOfEdges, hperm.length_eq, length_allPairs]

theorem bipRandom_exc (L R pn : Int) (pd : Nat) (ds : List Draw) (e : Err)
    (h : bipRandom L R pn pd ds = .exc e) :
    e = .valueError ∧ (L < 1 ∨ R < 1 ∨ pn < 0 ∨ pn > pd) := by
  unfold bipRandom at h
  split at h
  · rename_i hg; simp at h; exact ⟨h.symm, hg⟩
  · exfalso
    refine coinLoop_exc _ _ _ ds e ?_ h
    intro p hp
    have := mem_allPairs.1 hp
    simp only [BipG.init]; omega

theorem bipRandom_noForeign (L R pn : Int) (pd : Nat) : NoForeign (bipRandom L R pn pd) := by
  unfold bipRandom
  exact NoForeign.ite (NoForeign.raise _) (coinLoop_noForeign _ _ _)


end GRand
end Cnfgen
