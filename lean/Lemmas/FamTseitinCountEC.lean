/-
Even colouring, converse direction — shared definitions: the cnfgen graph as a Mathlib
`SimpleGraph` on `ℕ` (so that the `Walk` / `IsTrail` API can be used for the Euler-circuit
argument), and the alternating colouring of a list of edges.
-/
import Lemmas.FamTseitinCount
import Lemmas.FamColoring
import Mathlib.Combinatorics.SimpleGraph.Trails
namespace Cnfgen
namespace Fam

variable {G : SimpleG}

/-- the graph as a Mathlib `SimpleGraph` on `ℕ`: `a ~ b` iff `b` is listed as a neighbour of the
vertex `a ≤ n` or vice versa (for a `GoodGraph` the two are equivalent) -/
def toSG (G : SimpleG) : SimpleGraph ℕ :=
  SimpleGraph.fromRel (fun a b => a ≤ G.n ∧ b ∈ G.nbrs a)

theorem toSG_adj (hG : GoodGraph G) {a b : ℕ} : (toSG G).Adj a b ↔ a ≤ G.n ∧ b ∈ G.nbrs a := by
  unfold toSG
  rw [SimpleGraph.fromRel_adj]
  constructor
  · rintro ⟨_, h | h⟩
    · exact h
    · exact ⟨(hG.mem h.1 h.2).2.1, hG.symm h.1 h.2⟩
  · intro h
    exact ⟨fun e => (hG.mem h.1 h.2).2.2.1 e.symm, Or.inl h⟩

theorem toSG_adj_iff_step (hG : GoodGraph G) {a b : ℕ} : (toSG G).Adj a b ↔ Step G a b :=
  toSG_adj hG

/-- colour of an edge in a list of edges: `true` on the even positions -/
def altCol (L : List (Sym2 ℕ)) (e : Sym2 ℕ) : Bool := L.idxOf e % 2 == 0

end Fam
end Cnfgen
