/-
C14 — the two bipartite readers (`_read_graph_matrix_format`, `_read_bipartite_kthlist`):
what a text denotes, reader contract, round trip.
-/
import Lemmas.GraphIOKth
namespace Cnfgen
open GraphFmt GraphLex

namespace BipG

/-- `for e in es: G.add_edge(e)` -/
theorem addEdgesFrom_cons_io (G : BipG) (e : Int × Int) (es : List (Int × Int)) :
    G.addEdgesFrom (e :: es) = match G.addEdge e.1 e.2 with
      | .ok G' => G'.addEdgesFrom es
      | .error x => .error x := by
  simp only [addEdgesFrom, List.foldlM_cons]
  cases G.addEdge e.1 e.2 <;> rfl

theorem addEdgesFrom_append (G : BipG) (es fs : List (Int × Int)) :
    G.addEdgesFrom (es ++ fs) = match G.addEdgesFrom es with
      | .ok G' => G'.addEdgesFrom fs
      | .error x => .error x := by
  induction es generalizing G with
  | nil => rfl
  | cons e es ih =>
    simp only [List.cons_append, addEdgesFrom_cons_io]
    cases G.addEdge e.1 e.2 with
    | error x => rfl
    | ok G' => exact ih G'

theorem addEdgesFrom_ok {G G' : BipG} (h : Inv G) {es : List (Int × Int)} (e : G.addEdgesFrom es = .ok G') :
    (∀ x ∈ es, Valid G.l G.r x.1 x.2) ∧ Inv G' ∧ G'.l = G.l ∧ G'.r = G.r ∧
      ∀ p, p ∈ G'.edgeset ↔ (p ∈ G.edgeset ∨ ∃ x ∈ es, p = (x.1.toNat, x.2.toNat)) := by
  induction es generalizing G with
  | nil => cases e; simp [h]
  | cons a es ih =>
    rw [addEdgesFrom_cons_io] at e
    cases ha : G.addEdge a.1 a.2 with
    | error x => rw [ha] at e; cases e
    | ok G₁ =>
      rw [ha] at e
      obtain ⟨hv, hi, hl, hr, hm⟩ := addEdge_ok h ha
      obtain ⟨hv', hi', hl', hr', hm'⟩ := ih hi e
      refine ⟨?_, hi', by rw [hl', hl], by rw [hr', hr], ?_⟩
      · intro x hx
        rcases List.mem_cons.1 hx with rfl | hx
        · exact hv
        · rw [← hl, ← hr]; exact hv' x hx
      · intro p
        rw [hm', hm]
        simp only [List.mem_cons, exists_eq_or_imp, or_assoc]

theorem addEdgesFrom_valid {G : BipG} (h : Inv G) {es : List (Int × Int)}
    (hv : ∀ x ∈ es, Valid G.l G.r x.1 x.2) : ∃ G', G.addEdgesFrom es = .ok G' := by
  induction es generalizing G with
  | nil => exact ⟨G, rfl⟩
  | cons a es ih =>
    obtain ⟨G₁, ha⟩ := addEdge_valid (hv a (List.mem_cons_self ..))
    obtain ⟨_, hi, hl, hr, _⟩ := addEdge_ok h ha
    obtain ⟨G', hG'⟩ := ih hi (fun x hx => by rw [hl, hr]; exact hv x (List.mem_cons_of_mem _ hx))
    exact ⟨G', by rw [addEdgesFrom_cons_io, ha]; exact hG'⟩

theorem addEdgesFrom_err {G : BipG} {es : List (Int × Int)} {x : Err} (e : G.addEdgesFrom es = .error x) :
    x = .valueError := by
  induction es generalizing G with
  | nil => cases e
  | cons a es ih =>
    rw [addEdgesFrom_cons_io] at e
    cases ha : G.addEdge a.1 a.2 with
    | error y => rw [ha] at e; cases e; exact addEdge_err ha
    | ok G₁ => rw [ha] at e; exact ih e

end BipG

namespace GraphFmt

/-! ## matrix -/

theorem nextTok_err {s : List (Option Int)} {x : Err} (e : nextTok s = .error x) : x = .valueError := by
  unfold nextTok at e
  split at e <;> cases e <;> rfl

theorem nextTok_ok {s rest : List (Option Int)} {b : Int} (e : nextTok s = .ok (b, rest)) : s = some b :: rest := by
  unfold nextTok at e
  split at e
  · cases e
  · cases e
  · cases e; rfl

theorem readCells_err {cs : List (Nat × Nat)} {G : BipG} {s : List (Option Int)} {x : Err}
    (e : readCells cs G s = .error x) : x = .valueError := by
  induction cs generalizing G s with
  | nil => simp [readCells] at e
  | cons c cs ih =>
    simp only [readCells] at e
    cases hn : nextTok s with
    | error y => rw [hn] at e; cases e; exact nextTok_err hn
    | ok bs =>
      obtain ⟨b, s'⟩ := bs
      rw [hn] at e
      simp only at e
      split at e
      · cases ha : G.addEdge (c.1 : Int) (c.2 : Int) with
        | error y => rw [ha] at e; cases e; exact BipG.addEdge_err ha
        | ok G₁ => rw [ha] at e; exact ih e
      · split at e
        · exact ih e
        · cases e; rfl

/-- what `readCells` consumed and what it built -/
theorem readCells_ok {cs : List (Nat × Nat)} {G G' : BipG} {s rest : List (Option Int)} (h : BipG.Inv G)
    (e : readCells cs G s = .ok (G', rest)) :
    ∃ bits : List Int, s = bits.map some ++ rest ∧ bits.length = cs.length ∧ (∀ b ∈ bits, b = 0 ∨ b = 1) ∧
      BipG.Inv G' ∧ G'.l = G.l ∧ G'.r = G.r ∧
      ∀ p, p ∈ G'.edgeset ↔ (p ∈ G.edgeset ∨ (p, (1 : Int)) ∈ cs.zip bits) := by
  induction cs generalizing G s with
  | nil => simp only [readCells] at e; cases e; exact ⟨[], by simp, rfl, by simp, h, rfl, rfl, by simp⟩
  | cons c cs ih =>
    simp only [readCells] at e
    cases hn : nextTok s with
    | error y => rw [hn] at e; cases e
    | ok bs =>
      obtain ⟨b, s'⟩ := bs
      rw [hn] at e
      simp only at e
      have hs := nextTok_ok hn
      split at e
      · rename_i hb
        cases ha : G.addEdge (c.1 : Int) (c.2 : Int) with
        | error y => rw [ha] at e; cases e
        | ok G₁ =>
          rw [ha] at e
          obtain ⟨_, hi, hl, hr, hm⟩ := BipG.addEdge_ok h ha
          obtain ⟨bits, h1, h2, h3, h4, h5, h6, h7⟩ := ih hi e
          refine ⟨b :: bits, by rw [hs, h1]; rfl, by simp [h2], ?_, h4, by rw [h5, hl], by rw [h6, hr], ?_⟩
          · intro x hx
            rcases List.mem_cons.1 hx with rfl | hx
            · exact Or.inr hb
            · exact h3 x hx
          · intro p
            rw [h7, hm]
            simp only [Int.toNat_natCast, List.zip_cons_cons, List.mem_cons, Prod.mk.injEq, hb, and_true,
              or_assoc]
      · rename_i hb
        split at e
        · rename_i hb0
          obtain ⟨bits, h1, h2, h3, h4, h5, h6, h7⟩ := ih h e
          refine ⟨b :: bits, by rw [hs, h1]; rfl, by simp [h2], ?_, h4, h5, h6, ?_⟩
          · intro x hx
            rcases List.mem_cons.1 hx with rfl | hx
            · exact Or.inl hb0
            · exact h3 x hx
          · intro p
            rw [h7]
            simp only [List.zip_cons_cons, List.mem_cons, Prod.mk.injEq]
            constructor
            · rintro (hp | hp)
              · exact Or.inl hp
              · exact Or.inr (Or.inr hp)
            · rintro (hp | ⟨_, h1⟩ | hp)
              · exact Or.inl hp
              · omega
              · exact Or.inr hp
        · cases e

theorem length_matrixCells (l r : Nat) : (matrixCells l r).length = l * r := by
  induction l with
  | zero => simp [matrixCells]
  | succ l ih =>
    have : matrixCells (l + 1) r = matrixCells l r ++ (List.range r).map (fun j => (l + 1, j + 1)) := by
      simp [matrixCells, List.range_succ, List.flatMap_append]
    rw [this, List.length_append, ih, List.length_map, List.length_range, Nat.succ_mul]

/-- T-C14.2 for `_read_graph_matrix_format`: the only exception is ValueError; an accepted text
consists of the two dimensions followed by exactly `l·r` entries, each 0 or 1, and the object
has an edge `(i, j)` exactly where the entry of row `i`, column `j` is 1 -/
theorem readMatrix_contract (rows : List MRow) :
    (∀ x, readMatrix rows = .error x → x = .valueError) ∧
    (∀ G, readMatrix rows = .ok G → ∃ bits : List Int,
      matrixStream rows = (((G.l : Int) :: (G.r : Int) :: bits).map some) ∧ bits.length = G.l * G.r ∧
      (∀ b ∈ bits, b = 0 ∨ b = 1) ∧ BipG.Inv G ∧
      ∀ p, p ∈ G.edgeset ↔ (p, (1 : Int)) ∈ (matrixCells G.l G.r).zip bits) := by
  unfold readMatrix
  cases h1 : nextTok (matrixStream rows) with
  | error y => exact ⟨fun x e => by cases e; exact nextTok_err h1, fun G e => by cases e⟩
  | ok ns =>
    obtain ⟨n, s1⟩ := ns
    simp only
    cases h2 : nextTok s1 with
    | error y => exact ⟨fun x e => by cases e; exact nextTok_err h2, fun G e => by cases e⟩
    | ok ms =>
      obtain ⟨m, s2⟩ := ms
      simp only
      by_cases hneg : n < 0 ∨ m < 0
      · simp only [hneg, if_true]
        exact ⟨fun x e => by cases e; rfl, fun G e => by cases e⟩
      · simp only [hneg, if_false]
        cases h3 : readCells (matrixCells n.toNat m.toNat) (BipG.init n.toNat m.toNat) s2 with
        | error y => exact ⟨fun x e => by cases e; exact readCells_err h3, fun G e => by cases e⟩
        | ok Gr =>
          obtain ⟨G₁, rest⟩ := Gr
          simp only
          constructor
          · intro x e
            split at e
            · cases e
            · cases e; rfl
          · intro G e
            split at e
            · rename_i hrest
              cases e
              obtain ⟨bits, hb1, hb2, hb3, hb4, hb5, hb6, hb7⟩ := readCells_ok (BipG.inv_init _ _) h3
              have hl : G₁.l = n.toNat := hb5
              have hr : G₁.r = m.toNat := hb6
              have hrest' : rest = [] := by simpa using hrest
              refine ⟨bits, ?_, ?_, hb3, hb4, ?_⟩
              · rw [nextTok_ok h1, nextTok_ok h2, hb1, hrest', hl, hr]
                have : ((n.toNat : Nat) : Int) = n := by omega
                have : ((m.toNat : Nat) : Int) = m := by omega
                simp [*]
              · rw [hb2, hl, hr, length_matrixCells]
              · intro p
                rw [hb7, hl, hr]
                simp [BipG.init]
            · cases e

/-! ### reading the matrix the writer wrote -/

def bit (G : BipG) (c : Nat × Nat) : Int := if G.hasEdge (c.1 : Int) (c.2 : Int) then 1 else 0

theorem matrixStream_row (G : BipG) (u : Nat) (rs : List MRow) :
    matrixStream (matrixRow G u :: rs) =
      (List.range G.r).map (fun j => some (bit G (u, j + 1))) ++ matrixStream rs := by
  unfold matrixRow
  by_cases hr : G.r = 0
  · simp [hr, matrixStream]
  · simp only [hr, if_false, matrixStream, List.map_map]
    rfl

theorem matrixStream_rows (G : BipG) (is : List Nat) :
    matrixStream (is.map (fun i => matrixRow G (i + 1))) =
      is.flatMap (fun i => (List.range G.r).map (fun j => some (bit G (i + 1, j + 1)))) := by
  induction is with
  | nil => rfl
  | cons i is ih => rw [List.map_cons, matrixStream_row, ih, List.flatMap_cons]

theorem matrixStream_write (G : BipG) :
    matrixStream (writeMatrix G) =
      some (G.l : Int) :: some (G.r : Int) :: (matrixCells G.l G.r).map (fun c => some (bit G c)) := by
  simp only [writeMatrix, matrixStream, List.map_cons, List.map_nil, List.cons_append, List.nil_append,
    matrixStream_rows, matrixCells, List.map_flatMap, List.map_map]
  rfl

/-- the `add_edge` calls made while reading the cells `cs` of the matrix of `G₀` -/
def cellCalls (G₀ : BipG) (cs : List (Nat × Nat)) : List (Int × Int) :=
  (cs.filter (fun c => G₀.hasEdge (c.1 : Int) (c.2 : Int))).map (fun c => ((c.1 : Int), (c.2 : Int)))

theorem readCells_bits (G₀ : BipG) (cs : List (Nat × Nat)) (G : BipG) (rest : List (Option Int)) :
    readCells cs G (cs.map (fun c => some (bit G₀ c)) ++ rest) =
      match G.addEdgesFrom (cellCalls G₀ cs) with
      | .ok G' => .ok (G', rest)
      | .error x => .error x := by
  induction cs generalizing G with
  | nil => rfl
  | cons c cs ih =>
    simp only [cellCalls, List.map_cons, List.cons_append, readCells, nextTok, bit]
    by_cases hc : G₀.hasEdge (c.1 : Int) (c.2 : Int) = true
    · simp only [hc, if_true, List.filter_cons_of_pos, List.map_cons, BipG.addEdgesFrom_cons_io]
      cases G.addEdge (c.1 : Int) (c.2 : Int) with
      | error x => rfl
      | ok G₁ => exact ih G₁
    · simp only [hc, Bool.false_eq_true, if_false, List.filter_cons_of_neg, not_false_eq_true]
      simp only [show ¬ ((0 : Int) = 1) by omega, if_false, if_true]
      exact ih G

theorem mem_matrixCells {l r : Nat} {c : Nat × Nat} :
    c ∈ matrixCells l r ↔ (1 ≤ c.1 ∧ c.1 ≤ l) ∧ (1 ≤ c.2 ∧ c.2 ≤ r) := by
  obtain ⟨a, b⟩ := c
  simp only [matrixCells, List.mem_flatMap, List.mem_range, List.mem_map, Prod.mk.injEq]
  constructor
  · rintro ⟨i, hi, j, hj, rfl, rfl⟩; omega
  · rintro ⟨⟨h1, h2⟩, h3, h4⟩
    exact ⟨a - 1, by omega, b - 1, by omega, by omega, by omega⟩

/-- T-C14.1 (matrix) -/
theorem roundtrip_matrix {G : BipG} (h : BipG.Inv G) :
    ∃ G', readMatrix (writeMatrix G) = .ok G' ∧ BipG.Same G G' := by
  have hmem : ∀ x, x ∈ cellCalls G (matrixCells G.l G.r) ↔
      ∃ c, (c ∈ matrixCells G.l G.r ∧ G.hasEdge (c.1 : Int) (c.2 : Int) = true) ∧ x = ((c.1 : Int), (c.2 : Int)) := by
    intro x
    simp only [cellCalls, List.mem_map, List.mem_filter]
    constructor
    · rintro ⟨c, hc, rfl⟩; exact ⟨c, hc, rfl⟩
    · rintro ⟨c, hc, rfl⟩; exact ⟨c, hc, rfl⟩
  have hvalid : ∀ x ∈ cellCalls G (matrixCells G.l G.r),
      BipG.Valid (BipG.init G.l G.r).l (BipG.init G.l G.r).r x.1 x.2 := by
    intro x hx
    obtain ⟨c, ⟨hc, _⟩, rfl⟩ := (hmem x).1 hx
    have := mem_matrixCells.1 hc
    show BipG.Valid G.l G.r _ _
    unfold BipG.Valid
    omega
  obtain ⟨G', hG'⟩ := BipG.addEdgesFrom_valid (BipG.inv_init G.l G.r) hvalid
  obtain ⟨_, hi, hl, hr, hm⟩ := BipG.addEdgesFrom_ok (BipG.inv_init G.l G.r) hG'
  refine ⟨G', ?_, BipG.same_of_inv h hi hl hr ?_⟩
  · unfold readMatrix
    have hneg : ¬ ((G.l : Int) < 0 ∨ (G.r : Int) < 0) := by omega
    rw [matrixStream_write]
    simp only [nextTok, hneg, if_false, Int.toNat_natCast]
    have := readCells_bits G (matrixCells G.l G.r) (BipG.init G.l G.r) []
    rw [List.append_nil] at this
    rw [this, hG']
    rfl
  · intro p
    rw [hm]
    simp only [BipG.init, List.not_mem_nil, false_or]
    constructor
    · rintro ⟨x, hx, rfl⟩
      obtain ⟨c, ⟨_, hc⟩, rfl⟩ := (hmem x).1 hx
      have := (BipG.hasEdge_iff G _ _).1 hc
      simpa using this.2.2
    · intro hp
      have hr := h.range p.1 p.2 hp
      refine ⟨((p.1 : Int), (p.2 : Int)), (hmem _).2 ⟨p, ⟨mem_matrixCells.2 ⟨⟨hr.1, hr.2.1⟩, hr.2.2⟩, ?_⟩, rfl⟩, by simp⟩
      exact (BipG.hasEdge_iff G _ _).2 ⟨by omega, by omega, by simpa using hp⟩

/-! ## bipartite kthlist -/

/-- the `add_edge` calls of the final loop of `_read_bipartite_kthlist` -/
def bipCalls (L : Nat) (d : List (Nat × List Nat)) : List (Int × Int) :=
  d.flatMap (fun p => p.2.map (fun (v : Nat) => ((p.1 : Int), (v : Int) - (L : Int))))

theorem addBipLists_eq (L : Nat) (G : BipG) (d : List (Nat × List Nat)) :
    addBipLists L G d = G.addEdgesFrom (bipCalls L d) := by
  induction d generalizing G with
  | nil => rfl
  | cons p ps ih =>
    have hc : bipCalls L (p :: ps) =
        p.2.map (fun (v : Nat) => ((p.1 : Int), (v : Int) - (L : Int))) ++ bipCalls L ps := by
      simp [bipCalls]
    rw [hc, BipG.addEdgesFrom_append]
    simp only [addBipLists, List.foldlM_cons]
    have : (p.2.foldlM (fun g (v : Nat) => g.addEdge (p.1 : Int) ((v : Int) - (L : Int))) G) =
        G.addEdgesFrom (p.2.map (fun (v : Nat) => ((p.1 : Int), (v : Int) - (L : Int)))) := by
      simp only [BipG.addEdgesFrom, List.foldlM_map]
    rw [this]
    cases G.addEdgesFrom (p.2.map (fun (v : Nat) => ((p.1 : Int), (v : Int) - (L : Int)))) with
    | error x => rfl
    | ok G₁ => exact ih G₁

theorem mem_bipCalls {L : Nat} {d : List (Nat × List Nat)} {x : Int × Int} :
    x ∈ bipCalls L d ↔ ∃ p ∈ d, ∃ v ∈ p.2, x = ((p.1 : Int), (v : Int) - (L : Int)) := by
  simp only [bipCalls, List.mem_flatMap, List.mem_map]
  constructor
  · rintro ⟨p, hp, v, hv, rfl⟩; exact ⟨p, hp, v, hv, rfl⟩
  · rintro ⟨p, hp, v, hv, rfl⟩; exact ⟨p, hp, v, hv, rfl⟩

theorem bipRight_above {lo B : Nat} {vs : List Nat} {hi : Nat} (hB : B ≤ hi)
    (hv : ∀ x ∈ vs, lo ≤ x ∧ B + 1 ≤ x) : ∃ hi', bipRight lo hi vs = .ok hi' ∧ B ≤ hi' := by
  induction vs generalizing hi with
  | nil => exact ⟨hi, rfl, hB⟩
  | cons v vs ih =>
    have h1 := hv v (List.mem_cons_self ..)
    have : ¬ v < lo := by omega
    simp only [bipRight, this, if_false]
    exact ih (by omega) (fun x hx => hv x (List.mem_cons_of_mem _ hx))

theorem dictSet_fresh {d : List (Nat × List Nat)} {k : Nat} {v : List Nat} (h : ∀ q ∈ d, q.1 ≠ k) :
    dictSet d k v = d ++ [(k, v)] := by
  unfold dictSet
  have : d.any (fun p => p.1 == k) = false := by
    simp only [List.any_eq_false, beq_iff_eq]
    exact h
  simp [this]

/-- the loop of the bipartite reader on the lines of a written file: left vertices `≤ B`, in
increasing order, neighbours `> B` -/
theorem readBipBody_lists (size B : Nat) (ls : List (Nat × List Nat)) (prev lo hi : Nat)
    (d : List (Nat × List Nat))
    (hsorted : (ls.map (·.1)).Pairwise (· < ·)) (hprev : ∀ p ∈ ls, prev < p.1)
    (hrange : ∀ p ∈ ls, (1 ≤ p.1 ∧ p.1 ≤ B) ∧ ∀ x ∈ p.2, B + 1 ≤ x ∧ x ≤ size)
    (hB : B ≤ hi) (hBs : B ≤ size) (hlo : lo ≤ B + 1) (hd : ∀ q ∈ d, q.1 ≤ prev) :
    readBipBody size prev lo hi d (ls.map (fun p => kthAdjRow p.1 p.2) ++ [.blank]) =
      .ok (ls.foldl (fun lo p => max lo (p.1 + 1)) lo, d ++ ls) := by
  induction ls generalizing prev lo hi d with
  | nil => simp [readBipBody]
  | cons p ps ih =>
    obtain ⟨v, ns⟩ := p
    have hr := hrange (v, ns) (List.mem_cons_self ..)
    have hpv : prev < v := hprev (v, ns) (List.mem_cons_self ..)
    have hadj : kthAdj size (some ((v : Int), ns.map Int.ofNat ++ [0])) = .ok (v, ns) :=
      kthAdj_row ⟨hr.1.1, by omega⟩ (fun x hx => by have := hr.2 x hx; omega)
    have h1 : ¬ v ≤ prev := by omega
    have h2 : ¬ v > hi := by omega
    obtain ⟨hi', hhi, hB'⟩ := bipRight_above (lo := max lo (v + 1)) (vs := ns) hB
      (fun x hx => by have := hr.2 x hx; omega)
    simp only [List.map_cons, List.cons_append, kthAdjRow, readBipBody, hadj, h1, h2, if_false, hhi,
      bipAdvance, List.foldl_cons]
    have hfresh : dictSet d v ns = d ++ [(v, ns)] :=
      dictSet_fresh (fun q hq => by have := hd q hq; omega)
    rw [hfresh]
    have hs : (∀ a ∈ ps.map (·.1), v < a) ∧ (ps.map (·.1)).Pairwise (· < ·) := by
      simpa only [List.map_cons, List.pairwise_cons] using hsorted
    have ih' := ih v (max lo (v + 1)) hi' (d ++ [(v, ns)]) hs.2
      (fun q hq => hs.1 q.1 (List.mem_map.2 ⟨q, hq, rfl⟩))
      (fun q hq => hrange q (List.mem_cons_of_mem _ hq)) hB' (by omega)
      (fun q hq => by
        rcases List.mem_append.1 hq with hq | hq
        · have := hd q hq; omega
        · simp only [List.mem_singleton] at hq; subst hq; exact Nat.le_refl _)
    simp only [kthAdjRow] at ih'
    rw [ih']
    simp

/-! ### reader contract -/

/-- the left vertices a bipartite kthlist text lists, in order -/
def kthLefts (rows : List KRow) : List Int :=
  rows.filterMap (fun r => match r with | .adj (some (l, _)) => some l | _ => none)

theorem bipRight_err {lo hi : Nat} {vs : List Nat} {x : Err} (e : bipRight lo hi vs = .error x) :
    x = .valueError := by
  induction vs generalizing hi with
  | nil => cases e
  | cons v vs ih =>
    simp only [bipRight] at e
    split at e
    · cases e; rfl
    · exact ih e

theorem bipRight_ok {lo hi hi' : Nat} {vs : List Nat} (hlo : 1 ≤ lo) (e : bipRight lo hi vs = .ok hi') :
    hi' ≤ hi ∧ ∀ v ∈ vs, lo ≤ v ∧ hi' + 1 ≤ v := by
  induction vs generalizing hi with
  | nil => cases e; simp
  | cons v vs ih =>
    simp only [bipRight] at e
    split at e
    · cases e
    · rename_i hv
      obtain ⟨h1, h2⟩ := ih e
      refine ⟨by omega, ?_⟩
      intro w hw
      rcases List.mem_cons.1 hw with rfl | hw
      · omega
      · exact h2 w hw

theorem readBipBody_err {size : Nat} {rows : List KRow} {prev lo hi : Nat} {d : List (Nat × List Nat)} {x : Err}
    (e : readBipBody size prev lo hi d rows = .error x) : x = .valueError := by
  induction rows generalizing prev lo hi d with
  | nil => simp [readBipBody] at e
  | cons r rs ih =>
    cases r with
    | comment => exact ih (by simpa [readBipBody] using e)
    | blank => exact ih (by simpa [readBipBody] using e)
    | spec s => simp only [readBipBody] at e; cases e; rfl
    | adj a =>
      simp only [readBipBody] at e
      cases ha : kthAdj size a with
      | error y => rw [ha] at e; cases e; exact kthAdj_err ha
      | ok sp =>
        obtain ⟨left, right⟩ := sp
        rw [ha] at e
        simp only at e
        split at e
        · cases e; rfl
        · split at e
          · cases e; rfl
          · cases hb : bipRight (max lo (left + 1)) hi right with
            | error y => rw [hb] at e; cases e; exact bipRight_err hb
            | ok hi' => rw [hb] at e; exact ih e

theorem listCalls_cons (p : Nat × List Nat) (ps : List (Nat × List Nat)) :
    listCalls (p :: ps) = p.2.map (fun (v : Nat) => ((v : Int), (p.1 : Int))) ++ listCalls ps := by
  simp [listCalls]

theorem readBipBody_ok {size : Nat} {rows : List KRow} {prev lo hi lo' : Nat} {d d' : List (Nat × List Nat)}
    (hlo : 1 ≤ lo) (hd : ∀ q ∈ d, q.1 ≤ prev)
    (e : readBipBody size prev lo hi d rows = .ok (lo', d')) :
    ∃ ls, d' = d ++ ls ∧ kthPairs rows = listCalls ls ∧ kthLefts rows = ls.map (fun p => (p.1 : Int)) ∧
      lo ≤ lo' ∧ lo' ≤ max lo (hi + 1) ∧
      (∀ p ∈ ls, prev < p.1 ∧ p.1 + 1 ≤ lo' ∧ p.1 ≤ size ∧ ∀ v ∈ p.2, lo' ≤ v ∧ v ≤ size) ∧
      (lo' = lo ∨ ∃ p ∈ ls, lo' = p.1 + 1) := by
  induction rows generalizing prev lo hi d with
  | nil =>
    simp only [readBipBody] at e; cases e
    exact ⟨[], by simp, rfl, rfl, Nat.le_refl _, by omega, by simp, Or.inl rfl⟩
  | cons r rs ih =>
    cases r with
    | comment => simpa [kthPairs_cons, kthRowPairs, kthLefts] using ih hlo hd (by simpa [readBipBody] using e)
    | blank => simpa [kthPairs_cons, kthRowPairs, kthLefts] using ih hlo hd (by simpa [readBipBody] using e)
    | spec s => simp [readBipBody] at e
    | adj a =>
      simp only [readBipBody] at e
      cases ha : kthAdj size a with
      | error y => rw [ha] at e; cases e
      | ok sp =>
        obtain ⟨left, right⟩ := sp
        rw [ha] at e
        simp only at e
        split at e
        · cases e
        · rename_i h1
          split at e
          · cases e
          · rename_i h2
            cases hb : bipRight (max lo (left + 1)) hi right with
            | error y => rw [hb] at e; cases e
            | ok hi1 =>
              rw [hb] at e
              simp only [bipAdvance] at e
              obtain ⟨l, r, rfl, hl, hr, _, hl1, hl2, hrr⟩ := kthAdj_ok ha
              obtain ⟨hb1, hb2⟩ := bipRight_ok (by omega) hb
              have hfresh : dictSet d left right = d ++ [(left, right)] :=
                dictSet_fresh (fun q hq => by have := hd q hq; omega)
              rw [hfresh] at e
              obtain ⟨ls, h3, h4, h5, h6, h7, h8, h9⟩ := ih (lo := max lo (left + 1)) (by omega)
                (fun q hq => by
                  rcases List.mem_append.1 hq with hq | hq
                  · have := hd q hq; omega
                  · simp only [List.mem_singleton] at hq; subst hq; exact Nat.le_refl _) e
              have key : kthRowPairs (.adj (some (l, r))) =
                  right.map (fun (v : Nat) => ((v : Int), (left : Int))) := by
                simp only [kthRowPairs, hr, hl, List.map_map]; rfl
              have hA : lo ≤ lo' := Nat.le_trans (Nat.le_max_left _ _) h6
              have hB : lo' ≤ max lo (hi + 1) := by
                refine Nat.le_trans h7 ?_
                have h2' : left ≤ hi := Nat.le_of_not_gt h2
                simp only [Nat.max_def]
                split <;> split <;> split <;> omega
              refine ⟨(left, right) :: ls, by rw [h3]; simp, ?_, ?_, hA, hB, ?_, ?_⟩
              · rw [kthPairs_cons, key, h4, listCalls_cons]
              · simp only [kthLefts, List.filterMap_cons, List.map_cons, hl]
                exact congrArg _ h5
              · clear h9
                intro p hp
                rcases List.mem_cons.1 hp with rfl | hp
                · refine ⟨by omega, by omega, hl2, fun v hv => ?_⟩
                  have := hb2 v hv
                  have := hrr v hv
                  omega
                · have := h8 p hp
                  exact ⟨by omega, this.2.1, this.2.2.1, this.2.2.2⟩
              · rcases h9 with h9 | ⟨p, hp, h9⟩
                · by_cases hc : lo ≤ left + 1
                  · exact Or.inr ⟨(left, right), List.mem_cons_self .., by rw [h9]; exact Nat.max_eq_right hc⟩
                  · exact Or.inl (by omega)
                · exact Or.inr ⟨p, List.mem_cons_of_mem _ hp, h9⟩

/-- T-C14.2 for `_read_bipartite_kthlist`: the only exception is ValueError; an accepted text
declares `l + r` vertices, lists left vertices only (all `≤ l`, and `l` itself unless `l = 0`),
names only right vertices (`> l`) as neighbours, and the object has the edge `(a, b)` exactly
when some line of `a` names `b + l` -/
theorem readBipKth_contract (rows : List KRow) :
    (∀ x, readBipKth rows = .error x → x = .valueError) ∧
    (∀ G, readBipKth rows = .ok G → BipG.Inv G ∧ kthSize rows = some ((G.l + G.r : Nat) : Int) ∧
      (∀ x ∈ kthLefts rows, 1 ≤ x ∧ x ≤ (G.l : Int)) ∧ (G.l = 0 ∨ (G.l : Int) ∈ kthLefts rows) ∧
      (∀ x ∈ kthPairs rows, (G.l : Int) + 1 ≤ x.1 ∧ x.1 ≤ ((G.l + G.r : Nat) : Int)) ∧
      ∀ a b, (a, b) ∈ G.edgeset ↔ (((b + G.l : Nat) : Int), (a : Int)) ∈ kthPairs rows) := by
  unfold readBipKth
  cases hh : kthHeader rows with
  | error y => exact ⟨fun x e => by cases e; exact kthHeader_err hh, fun G e => by cases e⟩
  | ok sr =>
    obtain ⟨size, rest⟩ := sr
    simp only
    obtain ⟨hsize, hpairs⟩ := kthHeader_ok hh
    cases hb : readBipBody size 0 1 size [] rest with
    | error y => exact ⟨fun x e => by cases e; exact readBipBody_err hb, fun G e => by cases e⟩
    | ok ld =>
      obtain ⟨lo', d⟩ := ld
      simp only
      obtain ⟨ls, h3, h4, h5, h6, h7, h8, h9⟩ := readBipBody_ok (Nat.le_refl 1) (by simp) hb
      rw [List.nil_append] at h3
      subst h3
      have hneg : ¬ ((lo' : Int) - 1 < 0 ∨ (size : Int) - (lo' : Int) + 1 < 0) := by omega
      have eL : ((lo' : Int) - 1).toNat = lo' - 1 := by omega
      have eR : ((size : Int) - (lo' : Int) + 1).toNat = size - (lo' - 1) := by omega
      simp only [hneg, if_false, eL, eR, addBipLists_eq]
      cases ha : (BipG.init (lo' - 1) (size - (lo' - 1))).addEdgesFrom (bipCalls (lo' - 1) d) with
      | error y => exact ⟨fun x e => by cases e; exact BipG.addEdgesFrom_err ha, fun G e => by cases e⟩
      | ok G₁ =>
        simp only
        obtain ⟨hv, hi, hl, hr, hm⟩ := BipG.addEdgesFrom_ok (BipG.inv_init _ _) ha
        have hl' : G₁.l = lo' - 1 := hl
        have hr' : G₁.r = size - (lo' - 1) := hr
        constructor
        · intro x e
          split at e
          · cases e; rfl
          · cases e
        · intro G e
          split at e
          · cases e
          · cases e
            have hleftsrows : kthLefts rows = kthLefts rest := by
              clear hb hsize hpairs
              induction rows with
              | nil => cases hh
              | cons r rs ih =>
                cases r with
                | comment => simpa [kthLefts] using ih (by simpa [kthHeader] using hh)
                | blank => simpa [kthLefts] using ih (by simpa [kthHeader] using hh)
                | spec s =>
                  cases s with
                  | none => cases hh
                  | some s =>
                    simp only [kthHeader] at hh
                    split at hh
                    · cases hh
                    · cases hh; simp [kthLefts]
                | adj a => cases hh
            refine ⟨hi, by rw [hsize, hl', hr']; congr 1; omega, ?_, ?_, ?_, ?_⟩
            · intro x hx
              rw [hleftsrows, h5] at hx
              obtain ⟨p, hp, rfl⟩ := List.mem_map.1 hx
              have := h8 p hp
              rw [hl']; omega
            · rcases h9 with h9 | ⟨p, hp, h9⟩
              · left; rw [hl', h9]
              · right
                rw [hleftsrows, h5, hl']
                exact List.mem_map.2 ⟨p, hp, by omega⟩
            · intro x hx
              rw [hpairs, h4] at hx
              obtain ⟨p, hp, v, hv, rfl⟩ := mem_listCalls.1 hx
              have := (h8 p hp).2.2.2 v hv
              rw [hl', hr']
              simp only
              omega
            · intro a b
              rw [hm, hpairs, h4]
              simp only [BipG.init, List.not_mem_nil, false_or, hl']
              constructor
              · rintro ⟨x, hx, hc⟩
                obtain ⟨p, hp, v, hv, rfl⟩ := mem_bipCalls.1 hx
                have := (h8 p hp).2.2.2 v hv
                simp only [Prod.mk.injEq, Int.toNat_natCast] at hc
                obtain ⟨rfl, rfl⟩ := hc
                refine mem_listCalls.2 ⟨p, hp, v, hv, ?_⟩
                simp only [Prod.mk.injEq, and_true]
                omega
              · intro hx
                obtain ⟨p, hp, v, hv, hc⟩ := mem_listCalls.1 hx
                have := (h8 p hp).2.2.2 v hv
                simp only [Prod.mk.injEq] at hc
                refine ⟨((p.1 : Int), (v : Int) - ((lo' - 1 : Nat) : Int)), mem_bipCalls.2 ⟨p, hp, v, hv, rfl⟩, ?_⟩
                simp only [Int.toNat_natCast, Prod.mk.injEq]
                omega

theorem foldl_lo_range (l : Nat) (f : Nat → List Nat) :
    ((List.range l).map (fun i => (i + 1, f i))).foldl (fun lo p => max lo (p.1 + 1)) 1 = l + 1 := by
  induction l with
  | zero => rfl
  | succ l ih =>
    rw [List.range_succ, List.map_append, List.foldl_append, ih]
    simp

/-- T-C14.1 (kthlist, bipartite graph) -/
theorem roundtrip_kth_bip (k : Nat) {G : BipG} (h : BipG.Inv G) :
    ∃ G', readBipKth (writeKthBip k G) = .ok G' ∧ BipG.Same G G' := by
  have hfirst : ((bipLists G).map (·.1)) = (List.range G.l).map (· + 1) := by
    simp [bipLists, Function.comp_def]
  have hrange : ∀ p ∈ bipLists G, (1 ≤ p.1 ∧ p.1 ≤ G.l) ∧ ∀ x ∈ p.2, G.l + 1 ≤ x ∧ x ≤ G.l + G.r := by
    intro p hp
    simp only [bipLists, List.mem_map, List.mem_range] at hp
    obtain ⟨i, hi, rfl⟩ := hp
    refine ⟨⟨by omega, by omega⟩, fun x hx => ?_⟩
    simp only [List.mem_map] at hx
    obtain ⟨w, hw, rfl⟩ := hx
    have := h.rnbrs_range hw
    omega
  have hbody := readBipBody_lists (G.l + G.r) G.l (bipLists G) 0 1 (G.l + G.r) []
    (by rw [hfirst]; exact pairwise_range_succ _) (fun p hp => (hrange p hp).1.1) hrange
    (by omega) (by omega) (by omega) (by simp)
  have hlo : (bipLists G).foldl (fun lo p => max lo (p.1 + 1)) 1 = G.l + 1 :=
    foldl_lo_range G.l (fun i => (G.rnbrs (i + 1)).map (· + G.l))
  rw [hlo, List.nil_append] at hbody
  have hvalid : ∀ x ∈ bipCalls G.l (bipLists G), BipG.Valid (BipG.init G.l G.r).l (BipG.init G.l G.r).r x.1 x.2 := by
    intro x hx
    obtain ⟨p, hp, v, hv, rfl⟩ := mem_bipCalls.1 hx
    have := hrange p hp
    have := this.2 v hv
    show BipG.Valid G.l G.r _ _
    unfold BipG.Valid
    omega
  obtain ⟨G', hG'⟩ := BipG.addEdgesFrom_valid (BipG.inv_init G.l G.r) hvalid
  obtain ⟨_, hi, hl, hr, hm⟩ := BipG.addEdgesFrom_ok (BipG.inv_init G.l G.r) hG'
  have hl' : G'.l = G.l := hl
  have hr' : G'.r = G.r := hr
  refine ⟨G', ?_, BipG.same_of_inv h hi hl hr ?_⟩
  · have hn : ¬ (((G.l + G.r : Nat) : Int) < 0) := by omega
    simp only [readBipKth, writeKthBip, kthRows, kthHeader_comments, kthHeader, hn, if_false, Int.toNat_natCast, hbody]
    have e1 : ((G.l + 1 : Nat) : Int) - 1 = (G.l : Int) := by omega
    have e2 : ((G.l + G.r : Nat) : Int) - ((G.l + 1 : Nat) : Int) + 1 = (G.r : Int) := by omega
    have hneg : ¬ ((G.l : Int) < 0 ∨ (G.r : Int) < 0) := by omega
    simp only [e1, e2, hneg, if_false, Int.toNat_natCast, addBipLists_eq, hG']
    simp [hl', hr']
  · intro p
    rw [hm]
    simp only [BipG.init, List.not_mem_nil, false_or]
    obtain ⟨a, b⟩ := p
    constructor
    · rintro ⟨x, hx, hc⟩
      obtain ⟨q, hq, v, hv, rfl⟩ := mem_bipCalls.1 hx
      simp only [bipLists, List.mem_map, List.mem_range] at hq
      obtain ⟨i, hi, rfl⟩ := hq
      simp only [List.mem_map] at hv
      obtain ⟨w, hw, rfl⟩ := hv
      simp only [Prod.mk.injEq] at hc
      obtain ⟨rfl, rfl⟩ := hc
      have := h.mem_rnbrs.1 hw
      have e : (((w + G.l : Nat) : Int) - (G.l : Int)).toNat = w := by omega
      simpa [e] using this
    · intro hab
      have hr := h.range a b hab
      have hv : b ∈ G.rnbrs a := h.mem_rnbrs.2 hab
      refine ⟨((a : Int), ((b + G.l : Nat) : Int) - (G.l : Int)),
        mem_bipCalls.2 ⟨(a, (G.rnbrs a).map (· + G.l)), ?_, b + G.l, List.mem_map.2 ⟨b, hv, rfl⟩, rfl⟩, ?_⟩
      · simp only [bipLists, List.mem_map, List.mem_range]
        exact ⟨a - 1, by omega, by rw [show a - 1 + 1 = a by omega]⟩
      · simp only [Int.toNat_natCast, Prod.mk.injEq, true_and]; omega

end GraphFmt
end Cnfgen
