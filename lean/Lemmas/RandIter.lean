/-
Lemmas on the Python-order iterators used by the random-formula samplers:
`combos` (itertools.combinations), `productRep` (itertools.product(repeat=k)),
insertion sort (`sorted`), `vars n` (= range(1, n+1)).
-/
import CnfgenModel.Rand.KCNF
import Mathlib.Data.List.Nodup
import Mathlib.Data.List.Perm.Subperm
namespace Cnfgen.Rand
open Cnfgen

/-! ### combinations -/

theorem mem_combos_iff {α : Type} (l : List α) (k : Nat) (c : List α) :
    c ∈ combos l k ↔ c.Sublist l ∧ c.length = k := by
  induction l generalizing k c with
  | nil =>
    cases k with
    | zero => simp [combos]
    | succ k => simp [combos]; intro h; simp [h]
  | cons x xs ih =>
    cases k with
    | zero =>
      simp only [combos, List.mem_singleton]
      constructor
      · rintro rfl; simp
      · rintro ⟨_, h⟩; exact List.length_eq_zero_iff.mp h
    | succ k =>
      simp only [combos, List.mem_append, List.mem_map]
      constructor
      · rintro (⟨c', hc', rfl⟩ | hc)
        · obtain ⟨h1, h2⟩ := (ih k c').1 hc'
          exact ⟨h1.cons_cons x, by simp [h2]⟩
        · obtain ⟨h1, h2⟩ := (ih (k+1) c).1 hc
          exact ⟨h1.cons x, h2⟩
      · rintro ⟨hs, hl⟩
        cases hs with
        | cons _ h => right; exact (ih (k+1) c).2 ⟨h, hl⟩
        | cons_cons _ h =>
          rename_i c'
          left; refine ⟨c', (ih k c').2 ⟨h, ?_⟩, rfl⟩
          simpa using hl

theorem nodup_combos {α : Type} (l : List α) (k : Nat) (h : l.Nodup) : (combos l k).Nodup := by
  induction l generalizing k with
  | nil => cases k <;> simp [combos]
  | cons x xs ih =>
    cases k with
    | zero => simp [combos]
    | succ k =>
      rw [List.nodup_cons] at h
      simp only [combos]
      rw [List.nodup_append]
      refine ⟨(ih k h.2).map (fun a b hab => by simpa using hab), ih (k+1) h.2, ?_⟩
      intro a ha b hb hab
      subst hab
      simp only [List.mem_map] at ha
      obtain ⟨c', _, rfl⟩ := ha
      have := ((mem_combos_iff xs (k+1) _).1 hb).1
      exact h.1 (this.subset (by simp))

/-! ### product with repetition -/

theorem mem_productRep_iff {α : Type} (l : List α) (k : Nat) (p : List α) :
    p ∈ productRep l k ↔ p.length = k ∧ ∀ x ∈ p, x ∈ l := by
  induction k generalizing p with
  | zero =>
    simp only [productRep, List.mem_singleton]
    constructor
    · rintro rfl; simp
    · rintro ⟨h, _⟩; exact List.length_eq_zero_iff.mp h
  | succ k ih =>
    simp only [productRep, List.mem_flatMap, List.mem_map]
    constructor
    · rintro ⟨x, hx, q, hq, rfl⟩
      obtain ⟨h1, h2⟩ := (ih q).1 hq
      refine ⟨by simp [h1], ?_⟩
      intro y hy
      rcases List.mem_cons.1 hy with rfl | hy
      · exact hx
      · exact h2 y hy
    · rintro ⟨hl, hm⟩
      cases p with
      | nil => simp at hl
      | cons x q =>
        refine ⟨x, hm x (by simp), q, (ih q).2 ⟨by simpa using hl, fun y hy => hm y (by simp [hy])⟩, rfl⟩

theorem nodup_productRep {α : Type} (l : List α) (k : Nat) (h : l.Nodup) : (productRep l k).Nodup := by
  induction k with
  | zero => simp [productRep]
  | succ k ih =>
    simp only [productRep]
    rw [List.nodup_flatMap]
    refine ⟨fun x _ => ih.map (fun a b hab => by simpa using hab), ?_⟩
    refine h.imp ?_
    intro a b hab
    simp only [Function.onFun]
    intro c hc1 hc2
    simp only [List.mem_map] at hc1 hc2
    obtain ⟨_, _, rfl⟩ := hc1
    obtain ⟨_, _, h2⟩ := hc2
    simp at h2
    exact hab h2.1.symm

/-! ### insertion sort -/

theorem insertSorted_perm (x : Int) (l : List Int) : (insertSorted x l).Perm (x :: l) := by
  induction l with
  | nil => simp [insertSorted]
  | cons y ys ih =>
    simp only [insertSorted]
    split
    · exact List.Perm.refl _
    · exact (List.Perm.cons y ih).trans (List.Perm.swap x y ys)

theorem isort_perm (l : List Int) : (isort l).Perm l := by
  induction l with
  | nil => simp [isort]
  | cons x xs ih => exact (insertSorted_perm x (isort xs)).trans (List.Perm.cons x ih)

theorem insertSorted_sorted (x : Int) (l : List Int) (h : l.Pairwise (· ≤ ·)) :
    (insertSorted x l).Pairwise (· ≤ ·) := by
  induction l with
  | nil => simp [insertSorted]
  | cons y ys ih =>
    simp only [insertSorted]
    rw [List.pairwise_cons] at h
    split
    · rename_i hxy
      refine List.pairwise_cons.2 ⟨?_, List.pairwise_cons.2 h⟩
      intro z hz
      rcases List.mem_cons.1 hz with rfl | hz
      · exact hxy
      · exact Int.le_trans hxy (h.1 z hz)
    · rename_i hxy
      refine List.pairwise_cons.2 ⟨?_, ih h.2⟩
      intro z hz
      have := (insertSorted_perm x ys).subset hz
      rcases List.mem_cons.1 this with rfl | hz
      · omega
      · exact h.1 z hz

theorem isort_sorted (l : List Int) : (isort l).Pairwise (· ≤ ·) := by
  induction l with
  | nil => simp [isort]
  | cons x xs ih => exact insertSorted_sorted x _ ih

theorem isort_length (l : List Int) : (isort l).length = l.length := (isort_perm l).length_eq

theorem isort_strict (l : List Int) (h : l.Nodup) : (isort l).Pairwise (· < ·) := by
  have hs := isort_sorted l
  have hn : (isort l).Nodup := (isort_perm l).nodup_iff.2 h
  have := hs.and hn
  refine this.imp ?_
  intro a b hab
  omega

/-! ### `vars n` = 1, …, n -/

theorem mem_vars {n : Nat} {v : Int} : v ∈ vars n ↔ 1 ≤ v ∧ v ≤ n := by
  simp only [vars, List.mem_map, List.mem_range]
  constructor
  · rintro ⟨i, hi, rfl⟩; omega
  · rintro ⟨h1, h2⟩; exact ⟨(v - 1).toNat, by omega, by omega⟩

theorem vars_strict (n : Nat) : (vars n).Pairwise (· < ·) := by
  unfold vars
  rw [List.pairwise_map]
  have : (List.range n).Pairwise (· < ·) := List.pairwise_lt_range
  exact this.imp (by intro a b h; omega)

theorem vars_nodup (n : Nat) : (vars n).Nodup := (vars_strict n).imp (by intro a b h; omega)

/-- a strictly increasing list all of whose members belong to a strictly increasing list is a sublist of it -/
theorem sublist_of_strict (l c : List Int) (hl : l.Pairwise (· < ·)) (hc : c.Pairwise (· < ·))
    (hsub : ∀ x ∈ c, x ∈ l) : c.Sublist l := by
  induction l generalizing c with
  | nil =>
    cases c with
    | nil => exact List.Sublist.refl _
    | cons x xs => exact absurd (hsub x (by simp)) (by simp)
  | cons y ys ih =>
    rw [List.pairwise_cons] at hl
    cases c with
    | nil => exact List.nil_sublist _
    | cons x xs =>
      rw [List.pairwise_cons] at hc
      by_cases hxy : x = y
      · subst hxy
        refine (ih xs hl.2 hc.2 ?_).cons_cons x
        intro z hz
        have h1 := hc.1 z hz
        rcases List.mem_cons.1 (hsub z (by simp [hz])) with rfl | h2
        · omega
        · exact h2
      · have hx : x ∈ ys := by
          rcases List.mem_cons.1 (hsub x (by simp)) with h | h
          · exact absurd h hxy
          · exact h
        have hyx := hl.1 x hx
        refine (ih (x :: xs) hl.2 (List.pairwise_cons.2 hc) ?_).cons y
        intro z hz
        have hz' : x ≤ z := by
          rcases List.mem_cons.1 hz with rfl | hz
          · omega
          · have := hc.1 z hz; omega
        rcases List.mem_cons.1 (hsub z hz) with rfl | h2
        · omega
        · exact h2

/-- `itertools.combinations(range(1,n+1), k)` = the strictly increasing `k`-lists over `1..n` -/
theorem mem_combos_vars {k n : Nat} {X : List Int} :
    X ∈ combos (vars n) k ↔ X.length = k ∧ X.Pairwise (· < ·) ∧ ∀ x ∈ X, 1 ≤ x ∧ x ≤ n := by
  rw [mem_combos_iff]
  constructor
  · rintro ⟨hs, hl⟩
    exact ⟨hl, (vars_strict n).sublist hs, fun x hx => mem_vars.1 (hs.subset hx)⟩
  · rintro ⟨hl, hp, hm⟩
    exact ⟨sublist_of_strict _ _ (vars_strict n) hp (fun x hx => mem_vars.2 (hm x hx)), hl⟩

/-- a duplicate-free list inside another list is not longer -/
theorem length_le_of_nodup_subset {α : Type} [DecidableEq α] {a b : List α} (hn : a.Nodup)
    (hs : ∀ x ∈ a, x ∈ b) : a.length ≤ b.length :=
  (List.subperm_of_subset hn hs).length_le

end Cnfgen.Rand
