/-
Group-level form of T-C11.1 … T-C11.4: for every class of variable group, the legal indices are
enumerated in identifier order on a contiguous range, and index ↔ identifier conversions are
mutually inverse for both polarities.  (Per-class lemmas: VarsBlock, VarsWords, VarsBip, VarsBinary.)
-/
import Lemmas.VarsBlock
import Lemmas.VarsWords
import Lemmas.VarsBip
import Lemmas.VarsBinary
namespace Cnfgen
namespace Vars

/-- what every group handed out by the manager satisfies: identifiers start at 1 or later, word
enumerations are duplicate-free, graphs are well-formed `BipartiteGraph` objects; for a simple
graph the auxiliary graph lives on `V × V` and stores each edge as `(min, max)` -/
def Group.WF : Group → Prop
  | .single s _ => 1 ≤ s
  | .block s _ _ => 1 ≤ s
  | .word s seqs _ => 1 ≤ s ∧ seqs.Nodup
  | .bip s G _ _ => 1 ≤ s ∧ G.WF
  | .graph s B _ => 1 ≤ s ∧ B.WF ∧ B.l = B.r ∧ ∀ a b, (a, b) ∈ B.edgeset → a ≤ b
  | .digraph s B _ _ => 1 ≤ s ∧ B.WF
  | .binary s _ _ _ => 1 ≤ s

theorem Group.WF.start_pos {g : Group} (h : g.WF) : 1 ≤ g.start := by
  cases g <;> simp only [Group.WF, Group.start] at * <;> omega

theorem pairList_map {α} (l : List (Nat × Nat)) (f : List Nat → α) :
    (pairList l).map f = l.map (fun p => f [p.1, p.2]) := by
  simp [pairList, List.map_map, Function.comp_def]

/-- (A) `indices()` succeeds and the identifiers of the enumerated indices are exactly
`start, start+1, …, start+len-1`, in this order -/
theorem Group.indices_nil {g : Group} (h : g.WF) :
    ∃ idxs, g.indices [] = .ok idxs ∧ idxs.map g.unsafeId = List.range' g.start g.len := by
  cases g with
  | single s name => exact ⟨[[]], rfl, by simp [Group.unsafeId, Group.start, Group.len]⟩
  | block s ranges f =>
    refine ⟨blockAll ranges, ?_, ?_⟩
    · simp [Group.indices, blockIndices_nil]
    · have hf : (Group.block s ranges f).unsafeId = blockId s ranges := by funext idx; rfl
      rw [hf]; exact blockAll_ids s ranges
  | word s seqs f =>
    refine ⟨seqs, by simp [Group.indices], ?_⟩
    have hf : (Group.word s seqs f).unsafeId = fun w => (seq2vid s seqs w).getD 0 := by funext idx; rfl
    rw [hf]; exact word_ids h.2 s
  | bip s G f un =>
    refine ⟨pairList G.edges, by simp [Group.indices, (bipIndices_all G).1, Except.map], ?_⟩
    rw [pairList_map]
    simpa [Group.unsafeId, Group.start, Group.len] using bip_ids h.2 s
  | graph s B f =>
    refine ⟨pairList B.edges, by simp [Group.indices, (graphIndices_all B).1, Except.map], ?_⟩
    rw [pairList_map]
    have := bip_ids h.2.1 s
    simp only [Group.unsafeId, Group.start, Group.len, List.getD_cons_zero, List.getD_cons_succ]
    rw [← this]
    apply List.map_congr_left
    intro e he
    have hle := h.2.2.2 e.1 e.2 ((BipG.mem_edges h.2.1 e.1 e.2).1 he)
    simp [Nat.min_eq_left hle, Nat.max_eq_right hle]
  | digraph s B succ f =>
    cases succ with
    | false =>
      refine ⟨pairList B.edges, by simp [Group.indices, digraphIndices, (bipIndices_all B).1, Except.map], ?_⟩
      rw [pairList_map]
      simpa [Group.unsafeId, Group.start, Group.len] using bip_ids h.2 s
    | true =>
      refine ⟨pairList (B.edges.map (fun e => (e.2, e.1))), ?_, ?_⟩
      · simp [Group.indices, digraphIndices, (bipIndices_all B).1, Except.map]
      · rw [pairList_map, List.map_map]
        simpa [Group.unsafeId, Group.start, Group.len, Function.comp_def] using bip_ids h.2 s
  | binary s n m f =>
    refine ⟨pairList (binAll n (clog2 m)), ?_, ?_⟩
    · have := (binIndices_pattern n (clog2 m) []).1 (Or.inl rfl)
      have hfil : (binAll n (clog2 m)).filter (pairMatches []) = binAll n (clog2 m) :=
        List.filter_eq_self.2 (fun _ _ => rfl)
      simp [Group.indices, this, Except.map, hfil]
    · rw [pairList_map]
      simpa [Group.unsafeId, Group.start, Group.len] using binAll_ids h n (clog2 m)

/-- the number of legal indices is the length of the group -/
theorem Group.length_indices {g : Group} (h : g.WF) {idxs : List (List Nat)}
    (hi : g.indices [] = .ok idxs) : idxs.length = g.len := by
  obtain ⟨idxs', h1, h2⟩ := Group.indices_nil h
  rw [hi] at h1; cases h1
  have := congrArg List.length h2
  simpa using this

/-- (B) index → identifier → index, for the positive and the negative literal -/
theorem Group.toIndex_unsafeId {g : Group} (h : g.WF) {idxs : List (List Nat)}
    (hi : g.indices [] = .ok idxs) {idx : List Nat} (hm : idx ∈ idxs) :
    g.toIndex (g.unsafeId idx : Int) = .ok idx ∧ g.toIndex (-(g.unsafeId idx : Int)) = .ok idx := by
  cases g with
  | single s name =>
    simp only [Group.indices] at hi
    cases hi
    simp at hm; subst hm
    simp [Group.toIndex, Group.unsafeId]
  | block s ranges f =>
    simp only [Group.indices, blockIndices_nil] at hi
    cases hi
    exact blockIndex_blockId s (mem_blockAll.1 hm)
  | word s seqs f =>
    have hse : seqs = idxs := by simpa [Group.indices] using hi
    subst hse
    have hs : (seq2vid s seqs idx).isSome := (seq2vid_isSome_iff s seqs idx).2 hm
    obtain ⟨v, hv⟩ := Option.isSome_iff_exists.1 hs
    have := wordIndex_seq2vid h.2 s hv
    simp only [Group.toIndex, Group.unsafeId, hv, Option.getD_some]
    exact ⟨this.2.2.1, this.2.2.2⟩
  | bip s G f un =>
    simp only [Group.indices, (bipIndices_all G).1, Except.map] at hi
    cases hi
    simp only [pairList, List.mem_map] at hm
    obtain ⟨e, he, rfl⟩ := hm
    have := bipIndex_bipId h.2 s ((BipG.mem_edges h.2 e.1 e.2).1 he)
    simp [Group.toIndex, Group.unsafeId, this.1, this.2, Except.map]
  | graph s B f =>
    simp only [Group.indices, (graphIndices_all B).1, Except.map] at hi
    cases hi
    simp only [pairList, List.mem_map] at hm
    obtain ⟨e, he, rfl⟩ := hm
    have hmem := (BipG.mem_edges h.2.1 e.1 e.2).1 he
    have hle := h.2.2.2 e.1 e.2 hmem
    have := bipIndex_bipId h.2.1 s hmem
    simp [Group.toIndex, Group.unsafeId, Nat.min_eq_left hle, Nat.max_eq_right hle, this.1, this.2, Except.map]
  | digraph s B succ f =>
    cases succ with
    | false =>
      simp only [Group.indices, digraphIndices, (bipIndices_all B).1, Except.map] at hi
      cases hi
      simp only [pairList, List.mem_map] at hm
      obtain ⟨e, he, rfl⟩ := hm
      have := bipIndex_bipId h.2 s ((BipG.mem_edges h.2 e.1 e.2).1 he)
      simp [Group.toIndex, Group.unsafeId, this.1, this.2, Except.map]
    | true =>
      simp only [Group.indices, digraphIndices, List.reverse_nil, (bipIndices_all B).1, Except.map] at hi
      cases hi
      simp only [pairList, List.mem_map] at hm
      obtain ⟨e', ⟨e, he, rfl⟩, rfl⟩ := hm
      have := bipIndex_bipId h.2 s ((BipG.mem_edges h.2 e.1 e.2).1 he)
      simp [Group.toIndex, Group.unsafeId, this.1, this.2, Except.map]
  | binary s n m f =>
    have hp := (binIndices_pattern n (clog2 m) []).1 (Or.inl rfl)
    simp only [Group.indices, hp, Except.map] at hi
    cases hi
    simp only [pairList, List.mem_map, List.mem_filter] at hm
    obtain ⟨p, ⟨hp1, _⟩, rfl⟩ := hm
    obtain ⟨i, b⟩ := p
    have hib := mem_binAll.1 hp1
    have := binIndex_binId (start := s) (n := n) h hib.1 hib.2
    simp [Group.toIndex, Group.unsafeId, this.1, this.2, Except.map]

/-- the `i`-th enumerated index has identifier `start + i` -/
theorem Group.unsafeId_nth {g : Group} (h : g.WF) {idxs : List (List Nat)}
    (hi : g.indices [] = .ok idxs) {i : Nat} (hlt : i < idxs.length) :
    g.unsafeId idxs[i] = g.start + i := by
  obtain ⟨idxs', h1, h2⟩ := Group.indices_nil h
  rw [hi] at h1; cases h1
  have hlen : i < g.len := by rw [← Group.length_indices h hi]; exact hlt
  have := congrArg (fun l => l[i]?) h2
  simp only [List.getElem?_map, List.getElem?_eq_getElem hlt, Option.map_some] at this
  rw [List.getElem?_range' hlen] at this
  simpa using this

/-- the `i`-th identifier of the group converts back to the `i`-th enumerated index -/
theorem Group.toIndex_nth {g : Group} (h : g.WF) {idxs : List (List Nat)}
    (hi : g.indices [] = .ok idxs) {i : Nat} (hlt : i < idxs.length) :
    g.toIndex ((g.start + i : Nat) : Int) = .ok idxs[i] ∧ g.toIndex (-((g.start + i : Nat) : Int)) = .ok idxs[i] := by
  have := Group.toIndex_unsafeId h hi (List.getElem_mem hlt)
  rwa [Group.unsafeId_nth h hi hlt] at this

/-- (C) `to_index` answers exactly on the literals of the group; the answer is a legal index
whose identifier is the variable of the literal -/
theorem Group.toIndex_ok {g : Group} (h : g.WF) {lit : Int}
    (hr : g.start ≤ lit.natAbs ∧ lit.natAbs < g.start + g.len) :
    ∃ idxs idx, g.indices [] = .ok idxs ∧ idx ∈ idxs ∧ g.toIndex lit = .ok idx ∧ g.unsafeId idx = lit.natAbs := by
  obtain ⟨idxs, h1, _⟩ := Group.indices_nil h
  have hlen := Group.length_indices h h1
  obtain ⟨k, hk1, hk2⟩ : ∃ k, k < idxs.length ∧ g.start + k = lit.natAbs :=
    ⟨lit.natAbs - g.start, by omega, by omega⟩
  refine ⟨idxs, idxs[k], h1, List.getElem_mem hk1, ?_, ?_⟩
  · have hn := Group.toIndex_nth h h1 hk1
    rw [hk2] at hn
    rcases Int.natAbs_eq lit with hl | hl
    · rw [hl]; exact hn.1
    · rw [hl]; exact hn.2
  · rw [Group.unsafeId_nth h h1 hk1, hk2]

/-- (D) literals outside the group are rejected with ValueError -/
theorem Group.toIndex_reject {g : Group} (h : g.WF) {lit : Int}
    (hr : ¬ (g.start ≤ lit.natAbs ∧ lit.natAbs < g.start + g.len)) :
    g.toIndex lit = .error .valueError := by
  cases g with
  | single s name =>
    simp only [Group.start, Group.len] at hr
    have : lit.natAbs ≠ s := by omega
    simp [Group.toIndex, this]
  | block s ranges f =>
    simp only [Group.start, Group.len] at hr
    simp [Group.toIndex, blockIndex, hr]
  | word s seqs f =>
    simp only [Group.start, Group.len] at hr
    simp [Group.toIndex, wordIndex, hr]
  | bip s G f un =>
    simp only [Group.start, Group.len] at hr
    simp [Group.toIndex, bipIndex, hr, Except.map]
  | graph s B f =>
    simp only [Group.start, Group.len] at hr
    simp [Group.toIndex, bipIndex, hr, Except.map]
  | digraph s B succ f =>
    simp only [Group.start, Group.len] at hr
    simp [Group.toIndex, bipIndex, hr, Except.map]
  | binary s n m f =>
    simp only [Group.start, Group.len] at hr
    simp [Group.toIndex, binIndex, hr, Except.map]

end Vars
end Cnfgen
