/-
C19 heap lemmas — REFINEMENT of the statements executed on the result formula, and of whole transformations:
the deep snapshot of the returned object is what the pure models of C05 / C09 compute from the snapshot of the input.
-/
import Lemmas.HeapRep
import Lemmas.HeapHeader
namespace Cnfgen
namespace Heap
local notation "Addr" => Nat

/-- pure effect of `newF.add_linear(lits, op, k)` (check=True) -/
def addLinearPure (R : Snap) (lits : List Int) (op : Op) (k : Int) : Except Err Snap :=
  if lits.isEmpty then .ok { R with clauses := R.clauses ++ Linear.add lits op k }
  else match checkLits R.numvar lits with
    | .error e => .error e
    | .ok nv' => .ok { R with numvar := nv', clauses := R.clauses ++ Linear.add lits op k }

def addLinearAllPure (op : Op) (k : Int) : Snap → List (List Int) → Except Err Snap
  | R, [] => .ok R
  | R, l :: ls =>
    match addLinearPure R l op k with
    | .error e => .error e
    | .ok R' => addLinearAllPure op k R' ls

/-- the literal lists of the selector constraints of `FormulaLifting`, for a result with `nv` variables -/
def selectorLists (k nv : Nat) : List (List Int) :=
  (rangeStep (k + 1) (nv + 1) (2 * k)).map (fun y => (List.range k).map (fun i => ((y + i : Nat) : Int)))

/-- pure effect of one statement on the snapshot `R` of the result, `F` being the snapshot of the input -/
def Act.pure (F : Snap) : Act → Snap → Except Err Snap
  | .copyHeader _, R => .ok { R with header := F.header }
  | .describe t, R => .ok { R with header := addDescription R.header t }
  | .reshuffled, R =>
    .ok { R with header := R.header.map (fun p => if p.1 == "description" then (p.1, p.2 ++ " (reshuffled)") else p) }
  | .updVar n, R => if n < 0 then .error .valueError else .ok { R with numvar := max R.numvar n.toNat }
  | .newGroup spec, R =>
    match Vars.newGroup ⟨R.numvar, R.groups, []⟩ spec with
    | (_, .error e) => .error e
    | (m, .ok _) => .ok { R with numvar := m.numvar, groups := m.groups }
  | .substFrom _ enc, R =>
    match Subst.run R.cnf F.numvar enc F.clauses with
    | .error e => .error e
    | .ok G => .ok { R with numvar := G.nvars, clauses := G.clauses }
  | .liftSelectors k, R => addLinearAllPure .eq 1 R (selectorLists k R.numvar)
  | .loadShuffled _ tbl mapping, R =>
    match Shuffle.foldE (Shuffle.loadStep F.cnf tbl) R.cnf mapping with
    | .error e => .error e
    | .ok G => .ok { R with numvar := G.nvars, clauses := G.clauses }

/-- the statements covered by the refinement theorem, reading from the input `f` -/
def Act.Covered (f : Nat) : Act → Prop
  | .copyHeader src => src = f
  | .substFrom src _ => src = f
  | .loadShuffled src _ _ => src = f
  | _ => True

def runActsPure (F : Snap) : List Act → Snap → Except Err Snap
  | [], R => .ok R
  | a :: as, R =>
    match a.pure F R with
    | .error e => .error e
    | .ok R' => runActsPure F as R'

theorem layout_rebind_header {s : Store} {x : Nat} {R : Snap} {cl hd gr : Nat} {as : List Addr}
    (L : Layout s x R cl hd gr as) (es : Hdr) :
    Layout (write (alloc s (.dict es)).1 x (.cnf cl s.size gr R.numvar)) x { R with header := es } cl s.size gr as := by
  have L1 := layout_alloc L (.dict es)
  have bx := lt_size_of_getElem? L.hx
  have bcl := lt_size_of_getElem? L.hcl
  have bgr := lt_size_of_getElem? L.hgr
  have nxcl : x ≠ cl := by rintro rfl; have := L.hx; rw [L.hcl] at this; cases this
  have nxgr : x ≠ gr := by rintro rfl; have := L.hx; rw [L.hgr] at this; cases this
  refine ⟨get_write_eq (by simp; omega), ?_, ?_, ?_, ?_⟩
  · rw [get_write_ne nxcl]; exact L1.hcl
  · rw [get_write_ne (by omega)]; exact get_alloc_eq
  · rw [get_write_ne nxgr]; exact L1.hgr
  · exact readIntsAll_write L1.hcs L1.hx (by intro xs h; cases h)

/-- the loop of `apply_substitution` = `Subst.run`, as long as the clause objects of the input are not objects
of the result -/
theorem snap_substLoop {x : Nat} (N : Nat) (enc : Int → List Clause) :
    ∀ (cs : List Addr) (Fcl : List Clause) (s : Store) (R : Snap), snap s x = some R →
      readIntsAll s cs = some Fcl → (∀ c ∈ cs, c ∉ footprint s x) →
      match Subst.run R.cnf N enc Fcl with
      | .ok G => (substLoop x (Subst.table N enc) s cs).2 = .ok () ∧
          snap (substLoop x (Subst.table N enc) s cs).1 x = some { R with numvar := G.nvars, clauses := G.clauses }
      | .error e => (substLoop x (Subst.table N enc) s cs).2 = .error e
  | [], Fcl, s, R, h, hr, _ => by
    simp [readIntsAll] at hr; subst hr
    simpa [Subst.run, substLoop, Snap.cnf] using h
  | c :: cs, Fcl, s, R, h, hr, hd => by
    unfold readIntsAll at hr
    split at hr
    · rename_i lits rest e1 e2
      cases hr
      unfold Subst.run substLoop
      simp only [e1]
      cases hb : Subst.substClausePy (Subst.table N enc) lits with
      | error e => rfl
      | ok block =>
        simp only []
        have h1 := snap_addAllVals_true block s R h
        have hst := step_addAllVals (x := x) true block s (wt_iff_snap.mpr ⟨R, h⟩)
        rcases hp : addAllVals s x true block with ⟨s1, r⟩
        rw [hp] at h1 hst
        cases ha : Subst.addAll R.cnf block with
        | error e => simp only [ha] at h1 ⊢; subst h1; rfl
        | ok G =>
          simp only [ha] at h1 ⊢
          obtain ⟨e3, e4⟩ := h1
          simp only [] at e3 e4 hst
          subst e3
          -- the remaining clause objects of the input are still what they were, and still not part of `x`
          have hin : ∀ c' ∈ cs, c' < s.size := readIntsAll_inbounds e2
          have hr' : readIntsAll s1 cs = some rest := by
            rw [readIntsAll_congr (s := s) (s' := s1)]
            · exact e2
            · intro b hb; exact hst.touch b (hin b hb) (hd b (by simp [hb]))
          have hd' : ∀ c' ∈ cs, c' ∉ footprint s1 x := by
            intro c' hc' hmem
            rcases hst.grow c' hmem with h' | h'
            · exact hd c' (by simp [hc']) h'
            · have := hin c' hc'; omega
          have ih := snap_substLoop N enc cs rest s1 _ e4 hr' hd'
          simp only [Snap.cnf] at ih ⊢
          cases hrun : Subst.run G N enc rest with
          | error e => simp only [hrun] at ih ⊢; exact ih
          | ok G' => simp only [hrun] at ih ⊢; exact ih
    · cases hr

theorem snap_addLinear {s : Store} {x : Nat} {R : Snap} (hR : snap s x = some R) (lits : List Int) (op : Op) (k : Int) :
    match addLinearPure R lits op k with
    | .ok R' => (addLinear s x lits op k).2 = .ok () ∧ snap (addLinear s x lits op k).1 x = some R'
    | .error e => (addLinear s x lits op k).2 = .error e := by
  obtain ⟨cl, hd, gr, as, L⟩ := layout_of_snap hR
  unfold addLinearPure addLinear
  simp only [readCNF, L.hx]
  by_cases he : lits.isEmpty = true
  · simp only [he, if_true]
    exact snap_addAllVals_false _ s R hR
  · simp only [he]
    cases hc : checkLits R.numvar lits with
    | error e => rfl
    | ok nv' =>
      simp only []
      have := snap_addAllVals_false (Linear.add lits op k) _ _ (snap_write_numvar L nv').snap
      exact this

theorem snap_addLinearAll {x : Nat} (op : Op) (k : Int) : ∀ (ls : List (List Int)) (s : Store) (R : Snap),
    snap s x = some R →
    match addLinearAllPure op k R ls with
    | .ok R' => (addLinearAll s x op k ls).2 = .ok () ∧ snap (addLinearAll s x op k ls).1 x = some R'
    | .error e => (addLinearAll s x op k ls).2 = .error e
  | [], s, R, h => by simpa [addLinearAllPure, addLinearAll] using h
  | l :: ls, s, R, h => by
    have h1 := snap_addLinear h l op k
    unfold addLinearAllPure addLinearAll
    rcases hp : addLinear s x l op k with ⟨s1, res⟩
    rw [hp] at h1
    cases ha : addLinearPure R l op k with
    | error e => simp only [ha] at h1 ⊢; subst h1; rfl
    | ok R1 =>
      simp only [ha] at h1 ⊢
      obtain ⟨e1, e2⟩ := h1
      subst e1
      exact snap_addLinearAll op k ls s1 R1 e2

theorem readIntsAll_length {s : Store} : ∀ {as : List Addr} {cs : List (List Int)},
    readIntsAll s as = some cs → as.length = cs.length
  | [], cs, h => by simp [readIntsAll] at h; subst h; rfl
  | a :: as, cs, h => by
    unfold readIntsAll at h
    split at h
    · rename_i x xs e1 e2; cases h; simp [readIntsAll_length e2]
    · cases h

theorem readIntsAll_getElem? {s : Store} : ∀ {as : List Addr} {cs : List (List Int)} (i : Nat),
    readIntsAll s as = some cs → (as[i]?).bind (readInts s) = cs[i]?
  | [], cs, i, h => by simp [readIntsAll] at h; subst h; simp
  | a :: as, cs, i, h => by
    unfold readIntsAll at h
    split at h
    · rename_i x xs e1 e2
      cases h
      cases i with
      | zero => simpa using e1
      | succ j => simpa using readIntsAll_getElem? j e2
    · cases h

/-- `F[old]`: indexing the list of clause objects and reading the object = indexing the list of clauses -/
theorem pyIdx_read {s : Store} {as : List Addr} {cs : List (List Int)} (h : readIntsAll s as = some cs) (i : Int) :
    match Shuffle.pyIndex cs i with
    | .ok c => ∃ a, pyIdx as i = .ok a ∧ readInts s a = some c
    | .error e => pyIdx as i = .error e := by
  have hl := readIntsAll_length h
  simp only [Shuffle.pyIndex, pyIdx, hl]
  generalize (if i < 0 then i + (cs.length : Int) else i) = j
  by_cases hj : j < 0
  · simp [hj]
  · simp only [hj, if_false]
    have hg := readIntsAll_getElem? j.toNat h
    cases hc : cs[j.toNat]? with
    | none =>
      cases ha : as[j.toNat]? with
      | none => simp
      | some a =>
        have : j.toNat < as.length := by
          rcases Nat.lt_or_ge j.toNat as.length with h' | h'
          · exact h'
          · simp [List.getElem?_eq_none h'] at ha
        have : j.toNat < cs.length := by omega
        simp [List.getElem?_eq_getElem this] at hc
    | some c =>
      cases ha : as[j.toNat]? with
      | none => simp [ha, hc] at hg
      | some a =>
        simp only [ha, hc, Option.bind_some] at hg
        exact ⟨a, rfl, hg⟩

/-- the loop of `Shuffle` = `foldE (loadStep F tbl)` -/
theorem snap_shuffleLoop {x f : Nat} {F : Snap} (tbl : List (Option Int)) :
    ∀ (ms : List (Nat × Int)) (s : Store) (R : Snap), Sep s x f → snap s x = some R → snap s f = some F →
      match Shuffle.foldE (Shuffle.loadStep F.cnf tbl) R.cnf ms with
      | .ok G => (shuffleLoop x f tbl s ms).2 = .ok () ∧
          snap (shuffleLoop x f tbl s ms).1 x = some { R with numvar := G.nvars, clauses := G.clauses }
      | .error e => (shuffleLoop x f tbl s ms).2 = .error e
  | [], s, R, _, hR, _ => by simpa [Shuffle.foldE, shuffleLoop, Snap.cnf] using hR
  | m :: ms, s, R, hsep, hR, hF => by
    obtain ⟨cl, hd, gr, as, L⟩ := layout_of_snap hR
    obtain ⟨fcl, fhd, fgr, fas, LF⟩ := layout_of_snap hF
    have hlen := readIntsAll_length L.hcs
    unfold Shuffle.foldE shuffleLoop Shuffle.loadStep
    simp only [readCNF, L.hx, LF.hx, readRefs, L.hcl, LF.hcl, Snap.cnf, hlen]
    by_cases hm : m.2 ≠ (R.clauses.length : Int)
    · simp [hm]
    · simp only [hm, if_false]
      have hidx := pyIdx_read LF.hcs (m.1 : Int)
      cases hp : Shuffle.pyIndex F.clauses (m.1 : Int) with
      | error e => simp only [hp] at hidx ⊢; simp [hidx]
      | ok c =>
        simp only [hp] at hidx ⊢
        obtain ⟨a, ha, hc⟩ := hidx
        simp only [ha, hc]
        cases hsc : Shuffle.substClause tbl c with
        | error e => rfl
        | ok c' =>
          simp only []
          have h1 := snap_addClauseVals hR c' true
          have hst := step_addClauseVals (x := x) c' true hsep.wtx
          obtain ⟨ef, hsep'⟩ := sep_step hsep hst
          rcases hq : addClauseVals s x c' true with ⟨s1, res⟩
          rw [hq] at h1 ef hsep'
          simp only [Snap.cnf] at h1
          cases hadd : CNF.addClause ⟨R.numvar, R.clauses⟩ c' true with
          | error e => simp only [hadd] at h1 ⊢; obtain ⟨e1, _⟩ := h1; subst e1; rfl
          | ok G =>
            simp only [hadd] at h1 ⊢
            obtain ⟨e1, e2⟩ := h1
            subst e1
            have ih := snap_shuffleLoop tbl ms s1 _ hsep' e2 (by rw [ef]; exact hF)
            exact ih

/-- one statement: the heap operation and the pure effect agree (outcome and snapshot) -/
theorem runAct_refines {s : Store} {r f : Nat} {R F : Snap} (a : Act) (hc : a.Covered f)
    (hsep : Sep s r f) (hR : snap s r = some R) (hF : snap s f = some F) :
    match a.pure F R with
    | .ok R' => (runAct s r a).2 = .ok () ∧ snap (runAct s r a).1 r = some R'
    | .error e => (runAct s r a).2 = .error e := by
  obtain ⟨cl, hd, gr, as, L⟩ := layout_of_snap hR
  obtain ⟨fcl, fhd, fgr, fas, LF⟩ := layout_of_snap hF
  cases a with
  | copyHeader src =>
    simp only [Act.Covered] at hc; subst hc
    simp only [Act.pure, runAct, copyHeader, readCNF, L.hx, LF.hx, readDict, LF.hhd, alloc]
    exact ⟨trivial, (layout_rebind_header L F.header).snap⟩
  | describe t =>
    simp only [Act.pure, runAct, describe, readCNF, L.hx, readDict, L.hhd]
    exact ⟨trivial, (snap_write_header L _).snap⟩
  | reshuffled =>
    simp only [Act.pure, runAct, readCNF, L.hx, readDict, L.hhd]
    exact ⟨trivial, (snap_write_header L _).snap⟩
  | updVar n =>
    simp only [Act.pure, runAct, updVar, readCNF, L.hx]
    by_cases hn : n < 0
    · simp [hn]
    · simp only [hn, if_false]
      exact ⟨trivial, (snap_write_numvar L _).snap⟩
  | newGroup spec =>
    simp only [Act.pure, runAct, newGroup, readCNF, L.hx, readGroups, L.hgr]
    rcases hg : Vars.newGroup ⟨R.numvar, R.groups, []⟩ spec with ⟨m, res⟩
    cases res with
    | error e => simp
    | ok g =>
      simp only []
      refine ⟨trivial, ?_⟩
      have L1 := snap_write_groups L m.groups
      exact (snap_write_numvar L1 m.numvar).snap
  | liftSelectors k =>
    simp only [Act.pure, runAct, readCNF, L.hx]
    exact snap_addLinearAll .eq 1 _ s R hR
  | loadShuffled src tbl mp =>
    simp only [Act.Covered] at hc; subst hc
    simp only [Act.pure, runAct]
    have := snap_shuffleLoop (x := r) (f := src) (F := F) tbl mp s R hsep hR hF
    cases hrun : Shuffle.foldE (Shuffle.loadStep F.cnf tbl) R.cnf mp with
    | error e => simp only [hrun] at this ⊢; exact this
    | ok G => simp only [hrun] at this ⊢; exact this
  | substFrom src enc =>
    simp only [Act.Covered] at hc; subst hc
    simp only [Act.pure, runAct, readCNF, LF.hx, readRefs, LF.hcl]
    have hdisj : ∀ c ∈ fas, c ∉ footprint s r := by
      intro c hc hmem
      exact hsep.disj c hmem (by rw [footprint_eq LF.hx LF.hcl]; simp [hc])
    have := snap_substLoop (x := r) F.numvar enc fas F.clauses s R hR LF.hcs hdisj
    cases hrun : Subst.run R.cnf F.numvar enc F.clauses with
    | error e => simp only [hrun] at this ⊢; exact this
    | ok G => simp only [hrun] at this ⊢; exact this

/-- a list of statements -/
theorem runActs_refines {r f : Nat} {F : Snap} : ∀ (acts : List Act) (s : Store) (R : Snap),
    (∀ a ∈ acts, a.Covered f) → Sep s r f → snap s r = some R → snap s f = some F →
    match runActsPure F acts R with
    | .ok R' => (runActs r s acts).2 = .ok () ∧ snap (runActs r s acts).1 r = some R'
    | .error e => (runActs r s acts).2 = .error e
  | [], s, R, _, _, hR, _ => by simpa [runActsPure, runActs] using hR
  | a :: as, s, R, hc, hsep, hR, hF => by
    have h1 := runAct_refines a (hc a (by simp)) hsep hR hF
    have hst := step_runAct (x := r) a hsep.wtx
    obtain ⟨ef, hsep'⟩ := sep_step hsep hst
    unfold runActsPure runActs
    rcases hp : runAct s r a with ⟨s1, res⟩
    rw [hp] at h1 ef hsep'
    cases ha : a.pure F R with
    | error e => simp only [ha] at h1 ⊢; subst h1; rfl
    | ok R1 =>
      simp only [ha] at h1 ⊢
      obtain ⟨e1, e2⟩ := h1
      simp only [] at e1 e2 ef hsep'
      subst e1
      have ih := runActs_refines as s1 R1 (fun a' ha' => hc a' (by simp [ha'])) hsep' e2 (by rw [ef]; exact hF)
      cases hr : runActsPure F as R1 with
      | error e => simp only [hr] at ih ⊢; exact ih
      | ok R2 => simp only [hr] at ih ⊢; exact ih

end Heap
end Cnfgen
