/-
Totality of the extended interpreter on EVERY list of tokens, for the sub-commands whose options are standard:
what the parser binds is typed and complete (`parseX_typed`, `parseX_bound`), so the evaluation lemmas of
Lemmas/ArgparseEval.lean apply: `dispatchSpecX` answers a library call, a CLIError or the help exit — or the
TypeError of a single-argument option that holds the empty list (`dispatchX_total_std`).
-/
import Lemmas.ArgparseInv
import Lemmas.ArgparseEval
import Lemmas.ArgparseRefine
import Lemmas.DispatchFlag
namespace Cnfgen.Cli.AP
open Cnfgen.Gen Cnfgen.Cli

/-- what an action can store under the dest of its option: a value of the option's type, or — single-argument
options only — the empty list -/
def RB (o : OptSpec) (p : String × Val) : Prop :=
  o.dest = p.1 ∧ (producible o p.2 ∨ (o.arity = .one ∧ p.2 = .ints []))

theorem mainBind_std' (s : CliSpec) (o : OptSpec) (h : o.standard = true) (toks : List String) :
    mainBind s o toks = bindBase o toks := by
  have hb := dnum_std_basic o h
  unfold mainBind
  simp only [hb.2.1, hb.2.2.1, Bool.false_eq_true, if_false]

theorem liftE_ok {α : Type} (r : Except CliErr α) (a : α) (h : liftE r = .ok a) : r = .ok a := by
  cases r with
  | ok x => simp [liftE] at h; rw [h]
  | error e => simp [liftE] at h

theorem bindBase_typed (o : OptSpec) (hs : o.standard = true) (toks : List String) (b : Ns)
    (h : bindBase o toks = .ok b) : (∀ p ∈ b, RB o p) ∧ ∃ v, (o.dest, v) ∈ b := by
  have hstd := dtot_std o hs
  unfold bindBase at h
  simp only [std_notFile o hs, Bool.false_eq_true, if_false] at h
  split at h
  · rename_i ha
    simp at h; subst h
    refine ⟨fun p hp => ?_, ⟨.ints [], by simp⟩⟩
    simp at hp; subst hp
    exact ⟨rfl, Or.inr ⟨ha, rfl⟩⟩
  · rename_i ha
    split at h
    · rename_i k hk
      simp at h; subst h
      refine ⟨fun p hp => ?_, ⟨.graph k [], by simp⟩⟩
      simp at hp; subst hp
      refine ⟨rfl, Or.inl ?_⟩
      unfold producible
      rw [ha]
      exact ⟨k, [], rfl⟩
    · simp at h
  · have hbo := liftE_ok _ _ h
    refine ⟨fun p hp => ?_, dtot_bindOne_dest o hstd.2.1 _ b hbo⟩
    have := dtot_bindOne_binds o hstd.2.1 _ b hbo p hp
    obtain ⟨hd, hor⟩ := this
    refine ⟨hd, Or.inl ?_⟩
    rcases hor with ⟨_, hp'⟩ | ⟨hc, _⟩
    · exact hp'
    · exact absurd hc hstd.2.2.1

/-- all the options of the sub-command are standard (so are those of the inline helpers `and`, `or`, `true`, …) -/
def OptsStd (s : CliSpec) : Prop := ∀ o ∈ s.opts, o.standard = true

theorem optsStd_main (s : CliSpec) (h : OptsStd s) : mainOpts s = s.opts := by
  unfold mainOpts
  apply List.filter_eq_self.2
  intro o ho
  simp [(dtot_std o (h o ho)).1]

theorem mainSpec_mem (s : CliSpec) (o : OptSpec) (ho : o ∈ (mainSpec s).opts ++ (mainSpec s).poss) : o ∈ s.opts := by
  unfold mainSpec positionals mainOpts at ho
  simp only [List.mem_append, List.mem_filter] at ho
  rcases ho with ho | ho
  · exact ho.1.1
  · exact ho.1.1

theorem mainSpec_arity (s : CliSpec) (h : OptsStd s) :
    ∀ o ∈ (mainSpec s).opts, o.arity = .zero ∨ o.arity = .one ∨ o.arity = .plus := by
  intro o ho
  have hm := mainSpec_mem s o (by simp [ho])
  unfold mainSpec at ho
  simp only [List.mem_filter, Bool.not_eq_true'] at ho
  exact std_opt_arity o (h o hm) ho.2

/-- every binding the extended parser makes is typed by one of the sub-command's options -/
theorem parseX_typed (s : CliSpec) (h : OptsStd s) (argv : List String) (b : Ns) (hp : parseX s argv = .ok b) :
    ∀ q ∈ b, ∃ o ∈ s.opts, RB o q := by
  have hK : EngInv (mainBind s) (fun o => o ∈ s.opts) (fun o => o ∈ s.opts)
      (fun _ ns => ∀ q ∈ ns, ∃ o ∈ s.opts, RB o q) := by
    refine ⟨?_, ?_⟩ <;>
    · intro o toks b' ps ns ho hb hk q hq
      rcases List.mem_append.1 hq with hq | hq
      · rw [mainBind_std' s o (h o ho)] at hb
        exact ⟨o, ho, (bindBase_typed o (h o ho) toks b' hb).1 q hq⟩
      · exact hk q hq
  exact engine_inv hK (mainSpec s) (mainSpec_arity s h) (fun o ho => mainSpec_mem s o (by simp [ho]))
    (fun o ho => mainSpec_mem s o (by simp [ho])) argv b (by intro q hq; simp at hq) hp

/-- every positional is bound when the extended parser accepts -/
theorem parseX_bound (s : CliSpec) (h : OptsStd s) (argv : List String) (b : Ns) (hp : parseX s argv = .ok b) :
    ∀ o ∈ positionals s, ∃ v, (o.dest, v) ∈ b := by
  have hK : EngInv (mainBind s) (fun o => o ∈ s.opts) (fun o => o ∈ s.opts)
      (fun ps ns => ∃ done, positionals s = done ++ ps ∧ ∀ o ∈ done, ∃ v, (o.dest, v) ∈ ns) := by
    refine ⟨?_, ?_⟩
    · intro o toks b' ps ns _ _ hk
      obtain ⟨done, h1, h2⟩ := hk
      refine ⟨done, h1, fun o' ho' => ?_⟩
      obtain ⟨v, hv⟩ := h2 o' ho'
      exact ⟨v, List.mem_append_right _ hv⟩
    · intro o toks b' ps ns ho hb hk
      obtain ⟨done, h1, h2⟩ := hk
      refine ⟨done ++ [o], by simp [h1], fun o' ho' => ?_⟩
      rcases List.mem_append.1 ho' with ho' | ho'
      · obtain ⟨v, hv⟩ := h2 o' ho'
        exact ⟨v, List.mem_append_right _ hv⟩
      · simp at ho'; subst ho'
        rw [mainBind_std' s o' (h o' ho)] at hb
        obtain ⟨v, hv⟩ := (bindBase_typed o' (h o' ho) toks b' hb).2
        exact ⟨v, List.mem_append_left _ hv⟩
  have := engine_inv hK (mainSpec s) (mainSpec_arity s h) (fun o ho => mainSpec_mem s o (by simp [ho]))
    (fun o ho => mainSpec_mem s o (by simp [ho])) argv b ⟨[], by simp [mainSpec], by simp⟩ hp
  obtain ⟨done, h1, h2⟩ := this
  intro o ho
  rw [h1] at ho
  simp at ho
  exact h2 o ho

/-- without the empty-list quirk the namespace is as the fragment's parser would have made it -/
theorem parseX_NsOK (s : CliSpec) (h : OptsStd s) (argv : List String) (b : Ns) (hp : parseX s argv = .ok b)
    (hq : hasQuirk s b = false) : NsOK s b := by
  refine ⟨?_, parseX_bound s h argv b hp⟩
  intro q hqm
  obtain ⟨o, ho, hd, hor⟩ := parseX_typed s h argv b hp q hqm
  refine ⟨o, ho, hd, ?_⟩
  rcases hor with hpr | ⟨ha, hv⟩
  · exact hpr
  · exfalso
    unfold hasQuirk at hq
    rw [List.any_eq_false] at hq
    have := hq q hqm
    apply this
    simp only [Bool.and_eq_true, beq_iff_eq]
    refine ⟨hv, ?_⟩
    unfold quirkDest
    rw [List.any_eq_true]
    exact ⟨o, ho, by simp [hd, ha]⟩

/-- the answers of the extended interpreter -/
def Answers (r : Except PErr Built) : Prop :=
  (∃ x, r = .ok x) ∨ r = .error .cliError ∨ r = .error .helpExit

theorem instantiate_class (ns : Ns) (t : CallTemplate) (hr : (t.raises == "" || shielded t.raises) = true) :
    (∃ c, instantiate ns t = .ok c) ∨ instantiate ns t = .error .cliError ∨
    ∃ w, instantiate ns t = .error (.unsupported w) := by
  unfold instantiate
  by_cases h1 : t.raises = ""
  · simp only [h1, bne_self_eq_false, Bool.false_eq_true, if_false]
    split
    · exact Or.inr (Or.inr ⟨_, rfl⟩)
    · split
      · exact Or.inl ⟨_, rfl⟩
      · exact Or.inr (Or.inr ⟨_, rfl⟩)
  · have h2 : (t.raises != "") = true := by simpa using h1
    have h3 : shielded t.raises = true := by
      simp only [Bool.or_eq_true, beq_iff_eq] at hr
      rcases hr with hr | hr
      · exact absurd hr h1
      · exact hr
    simp [h2, h3]

/-- TOTALITY ON EVERY LIST OF TOKENS, sub-commands with standard options -/
theorem dispatchX_total_std (tool : String) (ord : List String → Nat) (s : CliSpec) (ht : totalClassExt s = true)
    (hof : s.templates.all templateOrderFree = true) (hni : s.inline = false) (hgood : ∀ o ∈ s.opts, goodOpt o = true)
    (argv : List String) : Answers (dispatchSpecX tool ord s argv) := by
  have hstd := dtot_totalClassExt_std s ht
  have hopts : OptsStd s := dtot_std_opts s hstd
  have hsup : s.supported = true := by unfold CliSpec.supported; simp [hstd]
  have hsx : s.supportedX = true := by unfold CliSpec.supportedX; simp [hsup]
  have hmap : ∀ ns, s.templates.map (fixTemplate ord ns) = s.templates := by
    intro ns
    conv => rhs; rw [← List.map_id s.templates]
    exact List.map_congr_left (fun t ht' => fixTemplate_id ord ns t ((List.all_eq_true.1 hof) t ht'))
  unfold dispatchSpecX
  simp only [hsx, hni, Bool.not_true, Bool.false_eq_true, if_false]
  split
  · exact Or.inr (Or.inl rfl)
  · rcases parseX_total s hgood argv with ⟨b, hb⟩ | hb | hb
    · rw [hb]
      dsimp only
      unfold callOf
      rw [hmap]
      by_cases hq : hasQuirk s b = true
      · -- the quirk: whatever cannot be evaluated is the TypeError
        have hall : ∀ t ∈ s.templates, (t.raises == "" || shielded t.raises) = true := by
          intro t htm
          unfold totalClassExt at ht
          simp only [Bool.and_eq_true] at ht
          have := (List.all_eq_true.1 ht.1.2) t htm
          simp only [Bool.and_eq_true] at this
          exact this.1.1.2
        cases hsel : selectTemplate (namespaceOf s b) s.templates with
        | error e =>
          obtain ⟨w, rfl⟩ := selectTemplate_err _ _ e hsel
          simp only [liftErr, quirkCrash, hq, if_true]
          exact Or.inr (Or.inl rfl)
        | ok t =>
          dsimp only
          have htm := selectTemplate_mem (namespaceOf s b) s.templates t hsel
          rcases instantiate_class (namespaceOf s b) t (hall t htm) with ⟨c, hc⟩ | hc | ⟨w, hc⟩
          · rw [hc]; exact Or.inl ⟨_, rfl⟩
          · rw [hc]; exact Or.inr (Or.inl rfl)
          · rw [hc]
            simp only [liftE, liftErr, Except.map, quirkCrash, hq, if_true]
            exact Or.inr (Or.inl rfl)
      · have hq' : hasQuirk s b = false := by simpa using hq
        obtain ⟨t, _, hsel, hins⟩ := n_eval_total s ht b (parseX_NsOK s hopts argv b hb hq')
        rw [hsel]
        dsimp only
        rcases hins with ⟨c, hc⟩ | hc
        · rw [hc]; exact Or.inl ⟨_, rfl⟩
        · rw [hc]; exact Or.inr (Or.inl rfl)
    · rw [hb]; exact Or.inr (Or.inl rfl)
    · rw [hb]; exact Or.inr (Or.inr rfl)

/-! ### the helpers that build their formula inline -/

/-- what the totality of an inline helper needs of its option table: `and` / `or` have the two typed positionals `P`,
`N` and nothing else; `dimacs` has an `input` with a default -/
def inlineTableOK (s : CliSpec) : Bool :=
  (if s.cls == "AND" || s.cls == "OR" then
     s.opts.all (fun o => o.standard && o.arity == .one && o.ty != "" && o.positional) &&
     (positionals s).map (·.dest) == ["P", "N"]
   else if s.cls == "DimacsCmdHelper" then ((defaults s).lookup "input").isSome
   else s.cls == "TRUE" || s.cls == "FALSE" || s.cls == "NoSubstitutionCmd")

/-- a typed single-argument positional holds an integer, or the empty list of the quirk -/
theorem numeric_lookup (s : CliSpec) (hopts : OptsStd s)
    (hall : ∀ o ∈ s.opts, o.arity = .one ∧ o.ty ≠ "") (argv : List String) (b : Ns)
    (hp : parseX s argv = .ok b) (o : OptSpec) (ho : o ∈ positionals s) :
    (∃ i, (namespaceOf s b).lookup o.dest = some (.int i)) ∨ (namespaceOf s b).lookup o.dest = some (.ints []) := by
  obtain ⟨v0, hv0⟩ := parseX_bound s hopts argv b hp o ho
  obtain ⟨v, hv⟩ := dtot_lookup_some b o.dest v0 hv0
  have hns : (namespaceOf s b).lookup o.dest = some v := by
    unfold namespaceOf
    rw [List.lookup_append, hv]; rfl
  obtain ⟨o', ho', hd, hor⟩ := parseX_typed s hopts argv b hp _ (dtot_lookup_mem b o.dest v hv)
  rw [hns]
  rcases hor with hpr | ⟨_, hq⟩
  · left
    unfold producible at hpr
    rw [(hall o' ho').1] at hpr
    obtain ⟨t, ht⟩ := hpr
    obtain ⟨i, hi⟩ := dtot_convertOne_int o' t v (hall o' ho').2 ht
    exact ⟨i, by rw [hi]⟩
  · right; simp at hq; rw [hq]

theorem dispatchX_total_inline (tool : String) (ord : List String → Nat) (s : CliSpec) (hin : s.inline = true)
    (htab : inlineTableOK s = true) (hgood : ∀ o ∈ s.opts, goodOpt o = true) (argv : List String) :
    Answers (dispatchSpecX tool ord s argv) := by
  have hsx : s.supportedX = true := by unfold CliSpec.supportedX; simp [hin]
  unfold dispatchSpecX
  simp only [hsx, hin, Bool.not_true, Bool.false_eq_true, if_false, if_true]
  split
  · exact Or.inr (Or.inl rfl)
  · rcases parseX_total s hgood argv with ⟨b, hb⟩ | hb | hb
    · rw [hb]
      dsimp only
      unfold inlineTableOK at htab
      unfold inlineBuild
      by_cases hand : (s.cls == "AND" || s.cls == "OR") = true
      · simp only [hand, if_true, Bool.and_eq_true, List.all_eq_true, beq_iff_eq, bne_iff_ne, ne_eq] at htab
        obtain ⟨hall, hpn⟩ := htab
        have hopts : OptsStd s := fun o ho => (hall o ho).1.1.1
        have hall' : ∀ o ∈ s.opts, o.arity = .one ∧ o.ty ≠ "" := fun o ho => ⟨(hall o ho).1.1.2, (hall o ho).1.2⟩
        -- the two positionals
        obtain ⟨oP, oN, hpos, hdP, hdN⟩ : ∃ oP oN, positionals s = [oP, oN] ∧ oP.dest = "P" ∧ oN.dest = "N" := by
          generalize positionals s = l at hpn
          cases l with
          | nil => simp at hpn
          | cons a l =>
            cases l with
            | nil => simp at hpn
            | cons c l =>
              cases l with
              | nil => simp at hpn; exact ⟨a, c, rfl, hpn.1, hpn.2⟩
              | cons d l => simp at hpn
        have hP := numeric_lookup s hopts hall' argv b hb oP (by rw [hpos]; simp)
        have hN := numeric_lookup s hopts hall' argv b hb oN (by rw [hpos]; simp)
        rw [hdP] at hP
        rw [hdN] at hN
        simp only [Bool.or_eq_true, beq_iff_eq] at hand
        rcases hand with hc | hc
        · simp only [hc, beq_self_eq_true, if_true]
          rcases hP with ⟨p, hP⟩ | hP <;> rcases hN with ⟨n, hN⟩ | hN <;> rw [hP, hN]
          · exact Or.inl ⟨_, rfl⟩
          · exact Or.inr (Or.inl rfl)
          · exact Or.inr (Or.inl rfl)
          · exact Or.inr (Or.inl rfl)
        · have hne : ("OR" == "AND") = false := by decide
          simp only [hc, hne, beq_self_eq_true, Bool.false_eq_true, if_false, if_true]
          rcases hP with ⟨p, hP⟩ | hP <;> rcases hN with ⟨n, hN⟩ | hN <;> rw [hP, hN]
          · exact Or.inl ⟨_, rfl⟩
          · exact Or.inr (Or.inl rfl)
          · exact Or.inr (Or.inl rfl)
          · exact Or.inr (Or.inl rfl)
      · have hand' : (s.cls == "AND" || s.cls == "OR") = false := by simpa using hand
        simp only [hand', Bool.false_eq_true, if_false] at htab
        simp only [Bool.or_eq_false_iff] at hand'
        simp only [hand'.1, hand'.2, Bool.false_eq_true, if_false]
        by_cases hdm : (s.cls == "DimacsCmdHelper") = true
        · simp only [hdm, if_true] at htab ⊢
          have h1 : (s.cls == "TRUE") = false := by
            have : s.cls = "DimacsCmdHelper" := by simpa using hdm
            rw [this]; decide
          have h2 : (s.cls == "FALSE") = false := by
            have : s.cls = "DimacsCmdHelper" := by simpa using hdm
            rw [this]; decide
          simp only [h1, h2, Bool.false_eq_true, if_false]
          have : ((namespaceOf s b).lookup "input").isSome = true := by
            unfold namespaceOf
            rw [List.lookup_append]
            cases b.lookup "input" with
            | some v => rfl
            | none => simpa using htab
          cases hl : (namespaceOf s b).lookup "input" with
          | none => rw [hl] at this; simp at this
          | some v => exact Or.inl ⟨_, rfl⟩
        · have hdm' : (s.cls == "DimacsCmdHelper") = false := by simpa using hdm
          simp only [hdm', Bool.false_eq_true, if_false, Bool.or_eq_true] at htab ⊢
          rcases htab with (h1 | h2) | h3
          · simp only [h1, if_true]; exact Or.inl ⟨_, rfl⟩
          · have h1 : (s.cls == "TRUE") = false := by
              have : s.cls = "FALSE" := by simpa using h2
              rw [this]; decide
            simp only [h1, h2, Bool.false_eq_true, if_false, if_true]; exact Or.inl ⟨_, rfl⟩
          · have hc : s.cls = "NoSubstitutionCmd" := by simpa using h3
            have h1 : (s.cls == "TRUE") = false := by rw [hc]; decide
            have h2 : (s.cls == "FALSE") = false := by rw [hc]; decide
            simp only [h1, h2, h3, Bool.false_eq_true, if_false, if_true]; exact Or.inl ⟨_, rfl⟩
    · rw [hb]; exact Or.inr (Or.inl rfl)
    · rw [hb]; exact Or.inr (Or.inr rfl)

end Cnfgen.Cli.AP
