/-
Even colouring, converse direction — Euler's theorem for one component: if every vertex has even
degree, the edges of the component of `r` form a closed trail.
-/
import Lemmas.FamTseitinCountEC
namespace Cnfgen
namespace Fam

variable {G : SimpleG}

theorem ect_walk_reach (hG : GoodGraph G) {u v : ℕ} (p : (toSG G).Walk u v) : Reach G u v := by
  induction p with
  | nil => exact reach_refl _
  | cons h p ih =>
    have h1 := (toSG_adj hG).1 h
    exact reach_trans (reach_adj h1.1 h1.2) ih

theorem ect_support_reach (hG : GoodGraph G) {u v x : ℕ} (p : (toSG G).Walk u v)
    (hx : x ∈ p.support) : Reach G u x :=
  ect_walk_reach hG (p.takeUntil x hx)

theorem ect_len_bound (hG : GoodGraph G) {u v : ℕ} (p : (toSG G).Walk u v) (hp : p.IsTrail) :
    p.length ≤ (G.n + 1) * (G.n + 1) := by
  classical
  rw [← SimpleGraph.Walk.length_edges, ← List.toFinset_card_of_nodup hp.edges_nodup]
  have hsub : p.edges.toFinset ⊆
      ((Finset.range (G.n + 1)) ×ˢ (Finset.range (G.n + 1))).image (fun q => s(q.1, q.2)) := by
    intro e he
    rw [List.mem_toFinset] at he
    have hE := p.edges_subset_edgeSet he
    induction e using Sym2.ind with
    | _ a b =>
      rw [SimpleGraph.mem_edgeSet] at hE
      have h1 := (toSG_adj hG).1 hE
      have h2 := hG.mem h1.1 h1.2
      simp only [Finset.mem_image, Finset.mem_product, Finset.mem_range, Prod.exists]
      exact ⟨a, b, ⟨by omega, by omega⟩, rfl⟩
  calc _ ≤ _ := Finset.card_le_card hsub
    _ ≤ _ := Finset.card_image_le
    _ = _ := by simp

theorem ect_count (hG : GoodGraph G) {u v : ℕ} (p : (toSG G).Walk u v) (hp : p.IsTrail) {x : ℕ}
    (hx : x ≤ G.n) (hall : ∀ w ∈ G.nbrs x, s(x, w) ∈ p.edges) :
    p.edges.countP (fun e => x ∈ e) = (G.nbrs x).length := by
  rw [List.countP_eq_length_filter, ← List.length_map (f := fun w => s(x, w)) (as := G.nbrs x)]
  apply List.Perm.length_eq
  have hnd : ((G.nbrs x).map (fun w => s(x, w))).Nodup := by
    refine (hG.nodup hx).map ?_
    intro a b hab
    exact Sym2.congr_right.1 hab
  rw [List.perm_ext_iff_of_nodup (hp.edges_nodup.filter _) hnd]
  intro e
  simp only [List.mem_filter, List.mem_map, decide_eq_true_eq]
  constructor
  · rintro ⟨he, hxe⟩
    obtain ⟨w, rfl⟩ := Sym2.mem_iff_exists.1 hxe
    have hE := p.edges_subset_edgeSet he
    rw [SimpleGraph.mem_edgeSet] at hE
    exact ⟨w, ((toSG_adj hG).1 hE).2, rfl⟩
  · rintro ⟨w, hw, rfl⟩
    exact ⟨hall w hw, Sym2.mem_mk_left _ _⟩

theorem ect_concat_trail {u v w : ℕ} (p : (toSG G).Walk u v) (hp : p.IsTrail)
    (h : (toSG G).Adj v w) (hn : s(v, w) ∉ p.edges) : (p.concat h).IsTrail := by
  rw [SimpleGraph.Walk.isTrail_def, SimpleGraph.Walk.edges_concat, List.nodup_concat]
  exact ⟨hn, hp.edges_nodup⟩

theorem ect_closed (hG : GoodGraph G)
    (hdeg : ∀ v, 1 ≤ v → v ≤ G.n → (G.nbrs v).length % 2 = 0)
    {u v : ℕ} (p : (toSG G).Walk u v) (hp : p.IsTrail) (hu : 1 ≤ u ∧ u ≤ G.n)
    (hmax : ∀ v' (q : (toSG G).Walk u v'), q.IsTrail → q.length ≤ p.length) : u = v := by
  by_contra hne
  have hv := reach_range hG hu (ect_walk_reach hG p)
  have hodd : ¬ Even (p.edges.countP fun e => v ∈ e) := by
    rw [hp.even_countP_edges_iff v]
    intro h
    exact (h hne).2 rfl
  by_cases hall : ∀ w ∈ G.nbrs v, s(v, w) ∈ p.edges
  · apply hodd
    rw [ect_count hG p hp hv.2 hall]
    exact Nat.even_iff.2 (hdeg v hv.1 hv.2)
  · push Not at hall
    obtain ⟨w, hw, hnot⟩ := hall
    have hadj : (toSG G).Adj v w := (toSG_adj hG).2 ⟨hv.2, hw⟩
    have := hmax w (p.concat hadj) (ect_concat_trail p hp hadj hnot)
    rw [SimpleGraph.Walk.length_concat] at this
    omega

theorem ect_cover (hG : GoodGraph G) {u : ℕ} (p : (toSG G).Walk u u) {a : ℕ} (h : Reach G u a) :
    a ∈ p.support ∨ ∃ x ∈ p.support, ∃ y, (toSG G).Adj x y ∧ s(x, y) ∉ p.edges := by
  induction h with
  | refl => exact Or.inl p.start_mem_support
  | @tail b c _ hstep ih =>
    rcases ih with hb | hex
    · by_cases hin : s(b, c) ∈ p.edges
      · exact Or.inl (p.snd_mem_support_of_mem_edges hin)
      · exact Or.inr ⟨b, hb, c, (toSG_adj hG).2 hstep, hin⟩
    · exact Or.inr hex

theorem ect_exists_max (hG : GoodGraph G) {r : ℕ} :
    ∃ (u v : ℕ) (p : (toSG G).Walk u v), Reach G r u ∧ p.IsTrail ∧
      ∀ (u' v' : ℕ) (q : (toSG G).Walk u' v'), Reach G r u' → q.IsTrail → q.length ≤ p.length := by
  classical
  let P : ℕ → Prop := fun k => ∃ (u v : ℕ) (p : (toSG G).Walk u v),
    Reach G r u ∧ p.IsTrail ∧ p.length = k
  have h0 : P 0 := ⟨r, r, SimpleGraph.Walk.nil, reach_refl r, SimpleGraph.Walk.IsTrail.nil, rfl⟩
  have hspec : P (Nat.findGreatest P ((G.n + 1) * (G.n + 1))) :=
    Nat.findGreatest_spec (Nat.zero_le _) h0
  obtain ⟨u, v, p, hru, hp, hlen⟩ := hspec
  refine ⟨u, v, p, hru, hp, ?_⟩
  intro u' v' q hru' hq
  by_contra hlt
  push Not at hlt
  rw [hlen] at hlt
  exact Nat.findGreatest_is_greatest hlt (ect_len_bound hG q hq) ⟨u', v', q, hru', hq, rfl⟩

/-- Euler: all degrees even ⇒ there is a closed trail, based at a vertex of the component of `r`,
that contains every edge of that component -/
theorem exists_euler_circuit (hG : GoodGraph G)
    (hdeg : ∀ v, 1 ≤ v → v ≤ G.n → (G.nbrs v).length % 2 = 0)
    {r : ℕ} (hr : 1 ≤ r ∧ r ≤ G.n) :
    ∃ (u : ℕ) (p : (toSG G).Walk u u), Reach G r u ∧ p.IsTrail ∧
      ∀ a b, Reach G r a → b ∈ G.nbrs a → s(a, b) ∈ p.edges := by
  obtain ⟨u, v, p, hru, hp, hmax⟩ := ect_exists_max hG (r := r)
  have hu := reach_range hG hr hru
  have huv : u = v := ect_closed hG hdeg p hp hu (fun v' q hq => hmax u v' q hru hq)
  subst huv
  refine ⟨u, p, hru, hp, ?_⟩
  intro a b hra hb
  by_contra hnot
  have ha := reach_range hG hr hra
  have hua : Reach G u a := reach_trans (reach_symm hG hru) hra
  have hex : ∃ x ∈ p.support, ∃ y, (toSG G).Adj x y ∧ s(x, y) ∉ p.edges := by
    rcases ect_cover hG p hua with hs | hex
    · exact ⟨a, hs, b, (toSG_adj hG).2 ⟨ha.2, hb⟩, hnot⟩
    · exact hex
  obtain ⟨x, hx, y, hxy, hn⟩ := hex
  have hrx : Reach G r x := reach_trans hru (ect_support_reach hG p hx)
  have hrot : (p.rotate x hx).IsTrail := (SimpleGraph.Walk.isTrail_rotate hx).2 hp
  have hn' : s(x, y) ∉ (p.rotate x hx).edges := by
    rw [(p.rotate_edges x hx).mem_iff]; exact hn
  have := hmax x y ((p.rotate x hx).concat hxy) hrx (ect_concat_trail _ hrot hxy hn')
  rw [SimpleGraph.Walk.length_concat, SimpleGraph.Walk.length_rotate] at this
  omega

end Fam
end Cnfgen
