/-
Lemmas for the model of `cnfgen/families/randomformulas.py` (Rand/KCNF.lean).
-/
import Lemmas.RandDraws
import Lemmas.RandIter
namespace Cnfgen.Rand
open Cnfgen

/-- a clause over `k` distinct variables of `1..n`, literals in increasing order of variable -/
def IsKClause (k n : Nat) (c : Clause) : Prop :=
  c.length = k ∧ (c.map Int.natAbs).Pairwise (· < ·) ∧ ∀ l ∈ c, 1 ≤ l.natAbs ∧ l.natAbs ≤ n

/-! ### `signed` -/

theorem signed_length (pol dom : List Int) (h : pol.length = dom.length) :
    (signed pol dom).length = dom.length := by
  simp [signed, h]

theorem signed_natAbs (pol dom : List Int) (h : pol.length = dom.length)
    (hp : ∀ p ∈ pol, p = -1 ∨ p = 1) : (signed pol dom).map Int.natAbs = dom.map Int.natAbs := by
  induction pol generalizing dom with
  | nil => cases dom with
    | nil => rfl
    | cons _ _ => simp at h
  | cons p ps ih =>
    cases dom with
    | nil => simp at h
    | cons v vs =>
      simp only [signed, List.zipWith_cons_cons, List.map_cons, List.cons.injEq]
      refine ⟨?_, ih vs (by simpa using h) (fun q hq => hp q (by simp [hq]))⟩
      rcases hp p (by simp) with rfl | rfl <;> simp

theorem signed_inj (p q dom : List Int) (hp : p.length = dom.length) (hq : q.length = dom.length)
    (hd : ∀ v ∈ dom, v ≠ 0) (h : signed p dom = signed q dom) : p = q := by
  induction dom generalizing p q with
  | nil =>
    rw [List.length_nil, List.length_eq_zero_iff] at hp hq
    rw [hp, hq]
  | cons v vs ih =>
    cases p with
    | nil => simp at hp
    | cons a as =>
      cases q with
      | nil => simp at hq
      | cons b bs =>
        simp only [signed, List.zipWith_cons_cons, List.cons.injEq] at h
        have hv := hd v (by simp)
        have hab : a = b := Int.eq_of_mul_eq_mul_right hv h.1
        rw [hab, ih as bs (by simpa using hp) (by simpa using hq) (fun w hw => hd w (by simp [hw])) h.2]

theorem signed_map_self (c : List Int) :
    signed (c.map (fun l => if 0 < l then (1 : Int) else -1)) (c.map (fun l => (l.natAbs : Int))) = c := by
  induction c with
  | nil => rfl
  | cons l ls ih =>
    simp only [signed, List.map_cons, List.zipWith_cons_cons, List.cons.injEq]
    refine ⟨?_, ih⟩
    split <;> omega

theorem map_cast_natAbs (dom : List Int) (h : ∀ v ∈ dom, 0 < v) :
    (dom.map Int.natAbs).map (fun (i : Nat) => (i : Int)) = dom := by
  induction dom with
  | nil => rfl
  | cons v vs ih =>
    simp only [List.map_cons, List.cons.injEq]
    have := h v (by simp)
    exact ⟨by omega, ih (fun w hw => h w (by simp [hw]))⟩

/-! ### `all_clauses` enumerates exactly the compatible k-clauses, once each -/

theorem combos_vars_natAbs {k n : Nat} {dom : List Int} (h : dom ∈ combos (vars n) k) :
    dom.length = k ∧ (dom.map Int.natAbs).Pairwise (· < ·) ∧
      (∀ v ∈ dom, 1 ≤ v.natAbs ∧ v.natAbs ≤ n) ∧ ∀ v ∈ dom, 0 < v := by
  obtain ⟨hl, hp, hm⟩ := mem_combos_vars.1 h
  refine ⟨hl, ?_, ?_, fun v hv => by have := hm v hv; omega⟩
  · rw [List.pairwise_map]
    refine hp.imp_of_mem ?_
    intro a b ha hb hab
    have := hm a ha; have := hm b hb; omega
  · intro v hv; have := hm v hv; omega

theorem mem_allClauses {k n : Nat} {planted : List (List Int)} {c : Clause} :
    c ∈ allClauses k n planted ↔ IsKClause k n c ∧ clauseSatisfied c planted = true := by
  unfold allClauses
  simp only [List.mem_flatMap, List.mem_filter, List.mem_map]
  constructor
  · rintro ⟨dom, hdom, ⟨pol, hpol, rfl⟩, hsat⟩
    refine ⟨?_, hsat⟩
    obtain ⟨hl, hp, hm, _⟩ := combos_vars_natAbs hdom
    obtain ⟨hpl, hpm⟩ := (mem_productRep_iff _ _ _).1 hpol
    have hpm' : ∀ p ∈ pol, p = -1 ∨ p = 1 := by intro p hp'; simpa using hpm p hp'
    have hlen : pol.length = dom.length := by omega
    have hna := signed_natAbs pol dom hlen hpm'
    refine ⟨by rw [signed_length _ _ hlen, hl], by rw [hna]; exact hp, ?_⟩
    intro l hl'
    have : l.natAbs ∈ (signed pol dom).map Int.natAbs := List.mem_map_of_mem hl'
    rw [hna, List.mem_map] at this
    obtain ⟨v, hv, hvl⟩ := this
    rw [← hvl]; exact hm v hv
  · rintro ⟨⟨hl, hp, hm⟩, hsat⟩
    refine ⟨c.map (fun l => (l.natAbs : Int)), ?_, ⟨c.map (fun l => if 0 < l then (1 : Int) else -1), ?_, signed_map_self c⟩, hsat⟩
    · rw [mem_combos_vars]
      refine ⟨by simpa using hl, ?_, ?_⟩
      · rw [List.pairwise_map] at hp ⊢
        exact hp.imp (by intro a b h; omega)
      · intro x hx
        simp only [List.mem_map] at hx
        obtain ⟨l, hl', rfl⟩ := hx
        have := hm l hl'; omega
    · rw [mem_productRep_iff]
      refine ⟨by simpa using hl, ?_⟩
      intro x hx
      simp only [List.mem_map] at hx
      obtain ⟨l, _, rfl⟩ := hx
      split <;> simp

theorem nodup_allClauses (k n : Nat) (planted : List (List Int)) : (allClauses k n planted).Nodup := by
  unfold allClauses
  rw [List.nodup_flatMap]
  constructor
  · intro dom hdom
    obtain ⟨hl, _, _, hpos⟩ := combos_vars_natAbs hdom
    refine List.Nodup.filter _ ?_
    refine List.Nodup.map_on ?_ (nodup_productRep _ k (by decide))
    intro p hp q hq hpq
    have h1 := ((mem_productRep_iff _ _ _).1 hp).1
    have h2 := ((mem_productRep_iff _ _ _).1 hq).1
    exact signed_inj p q dom (by omega) (by omega) (fun v hv => by have := hpos v hv; omega) hpq
  · refine (nodup_combos _ k (vars_nodup n)).imp_of_mem ?_
    intro dom dom' hd hd' hne
    simp only [Function.onFun]
    intro c hc hc'
    simp only [List.mem_filter, List.mem_map] at hc hc'
    obtain ⟨⟨pol, hpol, rfl⟩, _⟩ := hc
    obtain ⟨⟨pol', hpol', heq⟩, _⟩ := hc'
    obtain ⟨hl, _, _, hpos⟩ := combos_vars_natAbs hd
    obtain ⟨hl', _, _, hpos'⟩ := combos_vars_natAbs hd'
    obtain ⟨h1, h1m⟩ := (mem_productRep_iff _ _ _).1 hpol
    obtain ⟨h2, h2m⟩ := (mem_productRep_iff _ _ _).1 hpol'
    have e1 := signed_natAbs pol dom (by omega) (by intro p hp; simpa using h1m p hp)
    have e2 := signed_natAbs pol' dom' (by omega) (by intro p hp; simpa using h2m p hp)
    rw [heq, e1] at e2
    apply hne
    rw [← map_cast_natAbs dom hpos, ← map_cast_natAbs dom' hpos', e2]

/-- the number of compatible clauses bounds any duplicate-free list of compatible clauses -/
theorem length_le_allClauses {k n : Nat} {planted : List (List Int)} {cls : List Clause}
    (hn : cls.Nodup) (hm : ∀ c ∈ cls, c ∈ allClauses k n planted) :
    cls.length ≤ (allClauses k n planted).length :=
  length_le_of_nodup_subset hn hm

/-! ### one candidate of the rejection loop -/

theorem rejectVars_nil (k n : Nat) (chosen : List Int) :
    rejectVars k n chosen [] = if chosen.length < k then .error .outOfDraws else .ok (chosen, []) := rfl

theorem rejectVars_cons (k n : Nat) (chosen : List Int) (d : Draw) (rest : List Draw) :
    rejectVars k n chosen (d :: rest) =
      if chosen.length < k then
        match d with
        | .randint a b v =>
          if a = 1 ∧ b = (n : Int) then rejectVars k n (if chosen.contains v then chosen else v :: chosen) rest
          else .error .mismatch
        | _ => .error .mismatch
      else .ok (chosen, d :: rest) := rfl

/-- invariant of the `chosen` set of `sample_variables` -/
def ChosenInv (k n : Nat) (chosen : List Int) : Prop :=
  chosen.Nodup ∧ (∀ x ∈ chosen, 1 ≤ x ∧ x ≤ (n : Int)) ∧ chosen.length ≤ k

theorem ChosenInv.step {k n : Nat} {chosen : List Int} {v : Int} (h : ChosenInv k n chosen)
    (hlt : chosen.length < k) (hv : 1 ≤ v ∧ v ≤ (n : Int)) :
    ChosenInv k n (if chosen.contains v then chosen else v :: chosen) := by
  obtain ⟨hnd, hm, _⟩ := h
  split
  · exact ⟨hnd, hm, by omega⟩
  · rename_i hc
    refine ⟨List.nodup_cons.2 ⟨by simpa using hc, hnd⟩, ?_, by simp; omega⟩
    intro x hx
    rcases List.mem_cons.1 hx with rfl | hx
    · exact hv
    · exact hm x hx

theorem rejectVars_ok {k n : Nat} {ds : List Draw} : ∀ {ds' : List Draw} {chosen sel : List Int}, Legal ds →
    ChosenInv k n chosen → rejectVars k n chosen ds = .ok (sel, ds') →
    ChosenInv k n sel ∧ sel.length = k ∧ Legal ds' ∧ ds'.length ≤ ds.length := by
  induction ds with
  | nil =>
    intro ds' chosen sel hL hI h
    rw [rejectVars_nil] at h
    split at h
    · cases h
    · simp only [Except.ok.injEq, Prod.mk.injEq] at h
      obtain ⟨rfl, rfl⟩ := h
      exact ⟨hI, by have := hI.2.2; omega, hL, Nat.le_refl _⟩
  | cons d rest ih =>
    intro ds' chosen sel hL hI h
    obtain ⟨hd, hL'⟩ := Legal.cons.1 hL
    rw [rejectVars_cons] at h
    split at h
    · rename_i hlt
      cases d with
      | randint a b v =>
        simp only at h
        split at h
        · rename_i hab
          obtain ⟨rfl, rfl⟩ := hab
          obtain ⟨a1, a2, a3, a4⟩ := ih hL' (hI.step hlt hd) h
          exact ⟨a1, a2, a3, by simp; omega⟩
        · cases h
      | _ => cases h
    · simp only [Except.ok.injEq, Prod.mk.injEq] at h
      obtain ⟨rfl, rfl⟩ := h
      exact ⟨hI, by have := hI.2.2; omega, hL, Nat.le_refl _⟩

theorem rejectVars_error {k n : Nat} {ds : List Draw} : ∀ {chosen : List Int} {e : RErr},
    rejectVars k n chosen ds = .error e → e = .outOfDraws ∨ e = .mismatch := by
  induction ds with
  | nil =>
    intro chosen e h
    rw [rejectVars_nil] at h
    split at h
    · left; cases h; rfl
    · cases h
  | cons d rest ih =>
    intro chosen e h
    rw [rejectVars_cons] at h
    split at h
    · cases d with
      | randint a b v =>
        simp only at h
        split at h
        · exact ih h
        · right; cases h; rfl
      | _ => right; cases h; rfl
    · cases h

theorem drawVars_small {k n : Nat} (h : n ≤ sysMaxsize) :
    drawVars k n = (sample n k >>= fun idx => pure (isort (idx.map (fun (i : Nat) => (i : Int) + 1)))) := by
  unfold drawVars; rw [if_pos h]

theorem drawVars_big {k n : Nat} (h : ¬ n ≤ sysMaxsize) :
    drawVars k n = if n < k then RandM.raise .valueError
      else (rejectVars k n [] >>= fun chosen => pure (isort chosen)) := by
  unfold drawVars; rw [if_neg h]

theorem drawVars_ok {k n : Nat} {ds ds' : List Draw} {sel : List Int} (hL : Legal ds)
    (h : drawVars k n ds = .ok (sel, ds')) :
    k ≤ n ∧ sel ∈ combos (vars n) k ∧ Legal ds' ∧ (n ≤ sysMaxsize → ds.length = ds'.length + 1) := by
  by_cases hn : n ≤ sysMaxsize
  · rw [drawVars_small hn] at h
    obtain ⟨idx, ds1, h1, h2⟩ := RandM.bind_eq_ok.1 h
    obtain ⟨hkn, rfl⟩ := sample_eq_ok.1 h1
    have h2' := RandM.pure_eq_ok.1 h2
    simp only [Prod.mk.injEq] at h2'
    obtain ⟨rfl, rfl⟩ := h2'
    obtain ⟨hd, hL'⟩ := Legal.cons.1 hL
    obtain ⟨hlen, hnd, hlt⟩ := hd
    refine ⟨hkn, ?_, hL', fun _ => by simp⟩
    rw [mem_combos_vars]
    refine ⟨by rw [isort_length]; simpa using hlen, ?_, ?_⟩
    · apply isort_strict
      exact hnd.map (fun a b hab => by simp at hab; omega)
    · intro x hx
      have := (isort_perm _).subset hx
      simp only [List.mem_map] at this
      obtain ⟨i, hi, rfl⟩ := this
      have := hlt i hi; omega
  · rw [drawVars_big hn] at h
    by_cases hk : n < k
    · simp only [hk, if_true, RandM.raise_apply] at h; cases h
    · simp only [hk, if_false] at h
      obtain ⟨chosen, ds1, h1, h2⟩ := RandM.bind_eq_ok.1 h
      have h2' := RandM.pure_eq_ok.1 h2
      simp only [Prod.mk.injEq] at h2'
      obtain ⟨rfl, rfl⟩ := h2'
      obtain ⟨⟨hnd, hm, _⟩, hlen, hL', _⟩ :=
        rejectVars_ok hL ⟨List.nodup_nil, by simp, Nat.zero_le _⟩ h1
      refine ⟨by omega, ?_, hL', fun h' => absurd h' hn⟩
      rw [mem_combos_vars]
      refine ⟨by rw [isort_length]; exact hlen, isort_strict _ hnd, ?_⟩
      intro x hx
      exact hm x ((isort_perm _).subset hx)

theorem drawVars_error {k n : Nat} {ds : List Draw} {e : RErr} (h : drawVars k n ds = .error e) :
    (e = .py .valueError ∧ n < k) ∨ (e = .outOfDraws ∧ (n ≤ sysMaxsize → ds = [])) ∨ e = .mismatch := by
  by_cases hn : n ≤ sysMaxsize
  · rw [drawVars_small hn] at h
    rcases RandM.bind_eq_error.1 h with h1 | ⟨_, _, _, h2⟩
    · rcases sample_eq_error h1 with h | ⟨h, h'⟩ | h
      · exact Or.inl h
      · exact Or.inr (Or.inl ⟨h, fun _ => h'⟩)
      · exact Or.inr (Or.inr h)
    · exact absurd h2 RandM.pure_ne_error
  · rw [drawVars_big hn] at h
    by_cases hk : n < k
    · simp only [hk, if_true, RandM.raise_apply] at h
      left; cases h; exact ⟨rfl, hk⟩
    · simp only [hk, if_false] at h
      rcases RandM.bind_eq_error.1 h with h1 | ⟨_, _, _, h2⟩
      · rcases rejectVars_error h1 with h | h
        · exact Or.inr (Or.inl ⟨h, fun h' => absurd h' hn⟩)
        · exact Or.inr (Or.inr h)
      · exact absurd h2 RandM.pure_ne_error
theorem choiceFrom_ok {α : Type} {seq : List α} {dflt a : α} {ds ds' : List Draw}
    (h : choiceFrom seq dflt ds = .ok (a, ds')) :
    ∃ i, ds = .choice seq.length i :: ds' ∧ a = seq.getD i dflt := by
  unfold choiceFrom at h
  obtain ⟨i, ds1, h1, h2⟩ := RandM.bind_eq_ok.1 h
  obtain ⟨_, rfl⟩ := choice_eq_ok.1 h1
  have h2' := RandM.pure_eq_ok.1 h2
  simp only [Prod.mk.injEq] at h2'
  obtain ⟨rfl, rfl⟩ := h2'
  exact ⟨i, rfl, rfl⟩

theorem choiceFrom_error {α : Type} {seq : List α} {dflt : α} {ds : List Draw} {e : RErr}
    (h : choiceFrom seq dflt ds = .error e) :
    (e = .py .indexError ∧ seq.length = 0) ∨ (e = .outOfDraws ∧ ds = []) ∨ e = .mismatch := by
  unfold choiceFrom at h
  rcases RandM.bind_eq_error.1 h with h1 | ⟨_, _, _, h2⟩
  · exact choice_eq_error h1
  · exact absurd h2 RandM.pure_ne_error

theorem signClause_ok {vs : List Int} {ds ds' : List Draw} {c : Clause} (hL : Legal ds)
    (h : signClause vs ds = .ok (c, ds')) :
    c.length = vs.length ∧ c.map Int.natAbs = vs.map Int.natAbs ∧ Legal ds' ∧
      ds.length = ds'.length + vs.length := by
  induction vs generalizing ds c with
  | nil =>
    have := RandM.pure_eq_ok.1 h
    simp only [Prod.mk.injEq] at this
    obtain ⟨rfl, rfl⟩ := this
    exact ⟨rfl, rfl, hL, rfl⟩
  | cons v vs ih =>
    unfold signClause at h
    obtain ⟨s, ds1, h1, h2⟩ := RandM.bind_eq_ok.1 h
    obtain ⟨rest, ds2, h3, h4⟩ := RandM.bind_eq_ok.1 h2
    have h4' := RandM.pure_eq_ok.1 h4
    simp only [Prod.mk.injEq] at h4'
    obtain ⟨rfl, rfl⟩ := h4'
    obtain ⟨i, rfl, hs⟩ := choiceFrom_ok h1
    obtain ⟨hd, hL1⟩ := Legal.cons.1 hL
    obtain ⟨e1, e2, hL2, e3⟩ := ih hL1 h3
    have hi : i < 2 := hd
    have hs' : s = 1 ∨ s = -1 := by
      rw [hs]
      rcases (by omega : i = 0 ∨ i = 1) with rfl | rfl <;> simp
    refine ⟨by simp [e1], ?_, hL2, by simp [e3]; omega⟩
    simp only [List.map_cons, List.cons.injEq]
    refine ⟨?_, e2⟩
    rcases hs' with rfl | rfl <;> simp

theorem signClause_error {vs : List Int} {ds : List Draw} {e : RErr} (hL : Legal ds)
    (h : signClause vs ds = .error e) :
    (e = .outOfDraws ∧ ds.length < vs.length) ∨ e = .mismatch := by
  induction vs generalizing ds with
  | nil => exact absurd h RandM.pure_ne_error
  | cons v vs ih =>
    unfold signClause at h
    rcases RandM.bind_eq_error.1 h with h1 | ⟨s, ds1, h1, h2⟩
    · rcases choiceFrom_error h1 with ⟨_, h0⟩ | ⟨rfl, rfl⟩ | rfl
      · simp at h0
      · left; simp
      · right; rfl
    · obtain ⟨i, rfl, _⟩ := choiceFrom_ok h1
      obtain ⟨_, hL1⟩ := Legal.cons.1 hL
      rcases RandM.bind_eq_error.1 h2 with h3 | ⟨_, _, _, h4⟩
      · rcases ih hL1 h3 with ⟨rfl, hlt⟩ | rfl
        · left; simp; omega
        · right; rfl
      · exact absurd h4 RandM.pure_ne_error

theorem isKClause_of_natAbs {k n : Nat} {sel : List Int} {c : Clause} (hsel : sel ∈ combos (vars n) k)
    (hlen : c.length = sel.length) (hna : c.map Int.natAbs = sel.map Int.natAbs) : IsKClause k n c := by
  obtain ⟨hl, hp, hm, _⟩ := combos_vars_natAbs hsel
  refine ⟨by omega, by rw [hna]; exact hp, ?_⟩
  intro l hl'
  have : l.natAbs ∈ c.map Int.natAbs := List.mem_map_of_mem hl'
  rw [hna, List.mem_map] at this
  obtain ⟨v, hv, hvl⟩ := this
  rw [← hvl]; exact hm v hv

theorem drawClause_ok {k n : Nat} {ds ds' : List Draw} {c : Clause} (hL : Legal ds)
    (h : drawClause k n ds = .ok (c, ds')) :
    k ≤ n ∧ IsKClause k n c ∧ Legal ds' ∧ (n ≤ sysMaxsize → ds.length = ds'.length + (k + 1)) := by
  unfold drawClause at h
  obtain ⟨sel, ds1, h1, h2⟩ := RandM.bind_eq_ok.1 h
  obtain ⟨hkn, hsel, hL1, e1⟩ := drawVars_ok hL h1
  obtain ⟨e2, e3, hL2, e4⟩ := signClause_ok hL1 h2
  have hl := (combos_vars_natAbs hsel).1
  exact ⟨hkn, isKClause_of_natAbs hsel e2 e3, hL2, fun hS => by have := e1 hS; omega⟩

theorem drawClause_error {k n : Nat} {ds : List Draw} {e : RErr} (hL : Legal ds)
    (h : drawClause k n ds = .error e) :
    (e = .py .valueError ∧ n < k) ∨ (e = .outOfDraws ∧ (n ≤ sysMaxsize → ds.length < k + 1)) ∨
      e = .mismatch := by
  unfold drawClause at h
  rcases RandM.bind_eq_error.1 h with h1 | ⟨sel, ds1, h1, h2⟩
  · rcases drawVars_error h1 with h | ⟨rfl, hd⟩ | rfl
    · exact Or.inl h
    · right; left; exact ⟨rfl, fun hS => by rw [hd hS]; simp⟩
    · right; right; rfl
  · obtain ⟨_, hsel, hL1, e1⟩ := drawVars_ok hL h1
    have hl := (combos_vars_natAbs hsel).1
    rcases signClause_error hL1 h2 with ⟨rfl, hlt⟩ | rfl
    · right; left; exact ⟨rfl, fun hS => by have := e1 hS; omega⟩
    · right; right; rfl

/-! ### the rejection loop -/

/-- invariant of `clauses` / `sampled` -/
def AccInv (k n m : Nat) (planted : List (List Int)) (acc : List Clause) : Prop :=
  acc.Nodup ∧ (∀ c ∈ acc, c ∈ allClauses k n planted) ∧ acc.length ≤ m

theorem sparseLoop_unfold (k n m : Nat) (planted : List (List Int)) (fuel : Nat) (acc : List Clause) :
    sparseLoop k n m planted (fuel + 1) acc =
      if acc.length < m then
        drawClause k n >>= fun cls =>
          if acc.contains cls then sparseLoop k n m planted fuel acc
          else if !clauseSatisfied cls planted then sparseLoop k n m planted fuel acc
          else sparseLoop k n m planted fuel (acc ++ [cls])
      else pure acc := rfl

theorem sparseLoop_ok {k n m : Nat} {planted : List (List Int)} {fuel : Nat} {acc res : List Clause}
    {ds ds' : List Draw} (hL : Legal ds) (hI : AccInv k n m planted acc)
    (h : sparseLoop k n m planted fuel acc ds = .ok (res, ds')) :
    AccInv k n m planted res ∧ Legal ds' ∧ (n ≤ sysMaxsize → ds.length ≤ ds'.length + fuel * (k + 1) ∧
      (res.length = m ∨ ds.length = ds'.length + fuel * (k + 1))) := by
  induction fuel generalizing acc ds with
  | zero =>
    have := RandM.pure_eq_ok.1 h
    simp only [Prod.mk.injEq] at this
    obtain ⟨rfl, rfl⟩ := this
    exact ⟨hI, hL, fun _ => ⟨by omega, Or.inr (by omega)⟩⟩
  | succ fuel ih =>
    rw [sparseLoop_unfold] at h
    by_cases hlt : acc.length < m
    · simp only [hlt, if_true] at h
      obtain ⟨cls, ds1, h1, h2⟩ := RandM.bind_eq_ok.1 h
      obtain ⟨_, hK, hL1, e1⟩ := drawClause_ok hL h1
      have step : ∀ acc', AccInv k n m planted acc' →
          sparseLoop k n m planted fuel acc' ds1 = .ok (res, ds') →
          AccInv k n m planted res ∧ Legal ds' ∧ (n ≤ sysMaxsize →
            ds.length ≤ ds'.length + (fuel + 1) * (k + 1) ∧
            (res.length = m ∨ ds.length = ds'.length + (fuel + 1) * (k + 1))) := by
        intro acc' hI' h'
        obtain ⟨a, b, cd⟩ := ih hL1 hI' h'
        refine ⟨a, b, fun hS => ?_⟩
        obtain ⟨c, d⟩ := cd hS
        have e1 := e1 hS
        refine ⟨?_, ?_⟩
        · rw [Nat.add_mul]; omega
        · rcases d with d | d
          · exact Or.inl d
          · right; rw [Nat.add_mul]; omega
      by_cases hc : acc.contains cls = true
      · simp only [hc, if_true] at h2
        exact step acc hI h2
      · simp only [hc] at h2
        by_cases hs : clauseSatisfied cls planted = true
        · simp only [hs, Bool.not_true] at h2
          refine step (acc ++ [cls]) ?_ h2
          obtain ⟨hn, hm, _⟩ := hI
          refine ⟨?_, ?_, by simp; omega⟩
          · rw [List.nodup_append]
            refine ⟨hn, by simp, ?_⟩
            intro a ha b hb hab
            simp only [List.mem_singleton] at hb
            subst hb; subst hab
            exact hc (by simpa using ha)
          · intro c hc'
            rcases List.mem_append.1 hc' with h' | h'
            · exact hm c h'
            · simp only [List.mem_singleton] at h'
              subst h'
              exact mem_allClauses.2 ⟨hK, hs⟩
        · simp only [hs] at h2
          exact step acc hI h2
    · simp only [hlt, if_false] at h
      have := RandM.pure_eq_ok.1 h
      simp only [Prod.mk.injEq] at this
      obtain ⟨rfl, rfl⟩ := this
      refine ⟨hI, hL, fun _ => ⟨by omega, Or.inl ?_⟩⟩
      have := hI.2.2; omega

theorem sparseLoop_error {k n m : Nat} {planted : List (List Int)} {fuel : Nat} {acc : List Clause}
    {ds : List Draw} {e : RErr} (hL : Legal ds)
    (h : sparseLoop k n m planted fuel acc ds = .error e) :
    (e = .py .valueError ∧ n < k) ∨ (e = .outOfDraws ∧ (n ≤ sysMaxsize → ds.length < fuel * (k + 1))) ∨
      e = .mismatch := by
  induction fuel generalizing acc ds with
  | zero => exact absurd h RandM.pure_ne_error
  | succ fuel ih =>
    rw [sparseLoop_unfold] at h
    by_cases hlt : acc.length < m
    · simp only [hlt, if_true] at h
      rcases RandM.bind_eq_error.1 h with h1 | ⟨cls, ds1, h1, h2⟩
      · rcases drawClause_error hL h1 with h' | ⟨rfl, hl⟩ | rfl
        · exact Or.inl h'
        · right; left; refine ⟨rfl, fun hS => ?_⟩; have hl := hl hS; rw [Nat.add_mul]; omega
        · right; right; rfl
      · obtain ⟨_, _, hL1, e1⟩ := drawClause_ok hL h1
        have step : ∀ acc', sparseLoop k n m planted fuel acc' ds1 = .error e →
            (e = .py .valueError ∧ n < k) ∨
              (e = .outOfDraws ∧ (n ≤ sysMaxsize → ds.length < (fuel + 1) * (k + 1))) ∨
              e = .mismatch := by
          intro acc' h'
          rcases ih hL1 h' with h'' | ⟨rfl, hl⟩ | rfl
          · exact Or.inl h''
          · right; left; refine ⟨rfl, fun hS => ?_⟩
            have hl := hl hS; have e1 := e1 hS; rw [Nat.add_mul]; omega
          · right; right; rfl
        by_cases hc : acc.contains cls = true
        · simp only [hc, if_true] at h2; exact step _ h2
        · simp only [hc] at h2
          by_cases hs : clauseSatisfied cls planted = true
          · simp only [hs, Bool.not_true] at h2; exact step _ h2
          · simp only [hs] at h2; exact step _ h2
    · simp only [hlt, if_false] at h
      exact absurd h RandM.pure_ne_error

/-! ### dense sampling -/

theorem sampleFrom_ok {α : Type} {pop : List α} {k : Nat} {dflt : α} {ds ds' : List Draw} {res : List α}
    (hL : Legal ds) (h : sampleFrom pop k dflt ds = .ok (res, ds')) :
    k ≤ pop.length ∧ res.length = k ∧ (∀ x ∈ res, x ∈ pop) ∧ (pop.Nodup → res.Nodup) ∧
      Legal ds' ∧ ds.length = ds'.length + 1 := by
  unfold sampleFrom at h
  obtain ⟨idx, ds1, h1, h2⟩ := RandM.bind_eq_ok.1 h
  obtain ⟨hk, rfl⟩ := sample_eq_ok.1 h1
  have h2' := RandM.pure_eq_ok.1 h2
  simp only [Prod.mk.injEq] at h2'
  obtain ⟨rfl, rfl⟩ := h2'
  obtain ⟨⟨hlen, hnd, hlt⟩, hL'⟩ := Legal.cons.1 hL
  refine ⟨hk, by simpa using hlen, ?_, ?_, hL', by simp⟩
  · intro x hx
    simp only [List.mem_map] at hx
    obtain ⟨i, hi, rfl⟩ := hx
    have := hlt i hi
    have e : pop.getD i dflt = pop[i] := by simp [List.getD_eq_getElem?_getD, this]
    rw [e]
    exact List.getElem_mem _
  · intro hp
    refine List.Nodup.map_on ?_ hnd
    intro i hi j hj hij
    have h1 := hlt i hi
    have h2 := hlt j hj
    have e1 : pop.getD i dflt = pop[i] := by simp [List.getD_eq_getElem?_getD, h1]
    have e2 : pop.getD j dflt = pop[j] := by simp [List.getD_eq_getElem?_getD, h2]
    rw [e1, e2] at hij
    exact (List.Nodup.getElem_inj_iff hp).1 hij

theorem sampleFrom_error {α : Type} {pop : List α} {k : Nat} {dflt : α} {ds : List Draw} {e : RErr}
    (h : sampleFrom pop k dflt ds = .error e) :
    (e = .py .valueError ∧ pop.length < k) ∨ (e = .outOfDraws ∧ ds = []) ∨ e = .mismatch := by
  unfold sampleFrom at h
  rcases RandM.bind_eq_error.1 h with h1 | ⟨_, _, _, h2⟩
  · exact sample_eq_error h1
  · exact absurd h2 RandM.pure_ne_error

theorem denseClauses_ok {k n m : Nat} {planted : List (List Int)} {ds ds' : List Draw} {res : List Clause}
    (hL : Legal ds) (h : denseClauses k n m planted ds = .ok (res, ds')) :
    AccInv k n m planted res ∧ res.length = m ∧ Legal ds' ∧ ds.length = ds'.length + 1 ∧ n ≤ sysMaxsize := by
  unfold denseClauses at h
  by_cases hbig : sysMaxsize < n
  · rw [if_pos hbig, RandM.raise_apply] at h; cases h
  · rw [if_neg hbig] at h
    by_cases hlt : (allClauses k n planted).length < m
    · simp only [hlt, if_true, RandM.raise_apply] at h; cases h
    · simp only [hlt, if_false] at h
      obtain ⟨_, hlen, hmem, hnd, hL', e⟩ := sampleFrom_ok hL h
      exact ⟨⟨hnd (nodup_allClauses k n planted), hmem, by omega⟩, hlen, hL', e, by omega⟩

theorem denseClauses_error {k n m : Nat} {planted : List (List Int)} {ds : List Draw} {e : RErr}
    (h : denseClauses k n m planted ds = .error e) :
    (e = .py .valueError ∧ (allClauses k n planted).length < m ∧ n ≤ sysMaxsize) ∨
      (e = .outOfDraws ∧ ds = [] ∧ n ≤ sysMaxsize) ∨ e = .mismatch ∨ (e = .py .overflowError ∧ sysMaxsize < n) := by
  unfold denseClauses at h
  by_cases hbig : sysMaxsize < n
  · rw [if_pos hbig, RandM.raise_apply] at h
    cases h; exact Or.inr (Or.inr (Or.inr ⟨rfl, hbig⟩))
  · rw [if_neg hbig] at h
    by_cases hlt : (allClauses k n planted).length < m
    · simp only [hlt, if_true, RandM.raise_apply] at h
      cases h; exact Or.inl ⟨rfl, hlt, by omega⟩
    · simp only [hlt, if_false] at h
      rcases sampleFrom_error h with ⟨_, h'⟩ | ⟨h', h''⟩ | h'
      · exact absurd h' hlt
      · exact Or.inr (Or.inl ⟨h', h'', by omega⟩)
      · exact Or.inr (Or.inr (Or.inl h'))

/-! ### `sample_clauses` -/

/-- the number of draws a complete run can consume: `10*m` candidates of `k+1` draws each,
plus the single draw of the dense path -/
def drawBudget (k m : Nat) : Nat := retryBudget m * (k + 1) + 1

theorem accInv_nil (k n m : Nat) (planted : List (List Int)) : AccInv k n m planted [] :=
  ⟨List.nodup_nil, by simp, by simp⟩

theorem sampleClauses_ok {k n m : Nat} {planted : List (List Int)} {ds ds' : List Draw} {res : List Clause}
    (hL : Legal ds) (h : sampleClauses k n m planted ds = .ok (res, ds')) :
    AccInv k n m planted res ∧ res.length = m ∧ Legal ds' ∧
      (n ≤ sysMaxsize → ds.length ≤ ds'.length + drawBudget k m) := by
  unfold sampleClauses at h
  obtain ⟨cl, ds1, h1, h2⟩ := RandM.bind_eq_ok.1 h
  obtain ⟨hI, hL1, e1⟩ := sparseLoop_ok hL (accInv_nil k n m planted) h1
  by_cases hm : cl.length = m
  · simp only [hm, if_true] at h2
    have := RandM.pure_eq_ok.1 h2
    simp only [Prod.mk.injEq] at this
    obtain ⟨rfl, rfl⟩ := this
    exact ⟨hI, hm, hL1, fun hS => by have := (e1 hS).1; unfold drawBudget; omega⟩
  · simp only [hm, if_false] at h2
    obtain ⟨a, b, c, d, _⟩ := denseClauses_ok hL1 h2
    exact ⟨a, b, c, fun hS => by have := (e1 hS).1; unfold drawBudget; omega⟩

theorem sampleClauses_error {k n m : Nat} {planted : List (List Int)} {ds : List Draw} {e : RErr}
    (hL : Legal ds) (h : sampleClauses k n m planted ds = .error e) :
    (e = .py .valueError ∧ (n < k ∨ ((allClauses k n planted).length < m ∧ n ≤ sysMaxsize))) ∨
      (e = .outOfDraws ∧ (n ≤ sysMaxsize → ds.length < drawBudget k m)) ∨ e = .mismatch ∨
      (e = .py .overflowError ∧ sysMaxsize < n) := by
  unfold sampleClauses at h
  rcases RandM.bind_eq_error.1 h with h1 | ⟨cl, ds1, h1, h2⟩
  · rcases sparseLoop_error hL h1 with ⟨rfl, h'⟩ | ⟨rfl, h'⟩ | rfl
    · exact Or.inl ⟨rfl, Or.inl h'⟩
    · right; left; exact ⟨rfl, fun hS => by have := h' hS; unfold drawBudget; omega⟩
    · right; right; left; rfl
  · obtain ⟨hI, hL1, e12⟩ := sparseLoop_ok hL (accInv_nil k n m planted) h1
    by_cases hm : cl.length = m
    · simp only [hm, if_true] at h2
      exact absurd h2 RandM.pure_ne_error
    · simp only [hm, if_false] at h2
      rcases denseClauses_error h2 with ⟨rfl, h', hS⟩ | ⟨rfl, rfl, hS⟩ | rfl | ⟨rfl, hb⟩
      · exact Or.inl ⟨rfl, Or.inr ⟨h', hS⟩⟩
      · right; left; refine ⟨rfl, fun _ => ?_⟩
        obtain ⟨e1, e2⟩ := e12 hS
        rcases e2 with e2 | e2
        · exact absurd e2 hm
        · unfold drawBudget; simp at e2; omega
      · right; right; left; rfl
      · right; right; right; exact ⟨rfl, hb⟩

/-! ### `RandomKCNF` -/

/-- the generator state the sampler actually reads: `σ s` after `random.seed(s)`, else the prior state -/
def usedStream (σ : Int → List Draw) (seed : Option Int) (rng : List Draw) : List Draw :=
  match seed with
  | some s => σ s
  | none => rng

theorem randomKCNF_eq (σ : Int → List Draw) (k n m : Nat) (seed : Option Int) (planted : List (List Int))
    (rng : List Draw) :
    randomKCNF σ k n m seed planted rng =
      if n < k then .error (.py .valueError)
      else match sampleClauses k n m planted (usedStream σ seed rng) with
        | .ok (cls, rest) => .ok ({ nvars := n, cons := cls.map Con.clause }, rest)
        | .error e => .error e := by
  unfold randomKCNF
  rw [RandM.bind_apply, reseed_apply]
  simp only [usedStream]
  by_cases h : n < k
  · simp only [h, if_true]; rfl
  · simp only [h, if_false]
    rw [RandM.bind_apply]
    cases hs : sampleClauses k n m planted (match seed with | some s => σ s | none => rng) with
    | error e => rfl
    | ok p => obtain ⟨cls, rest⟩ := p; rfl

theorem randomKCNF_ok {σ : Int → List Draw} {k n m : Nat} {seed : Option Int} {planted : List (List Int)}
    {rng rest : List Draw} {F : Formula} (h : randomKCNF σ k n m seed planted rng = .ok (F, rest)) :
    k ≤ n ∧ ∃ cls, sampleClauses k n m planted (usedStream σ seed rng) = .ok (cls, rest) ∧
      F = { nvars := n, cons := cls.map Con.clause } := by
  rw [randomKCNF_eq] at h
  by_cases hk : n < k
  · simp [hk] at h
  · simp only [hk, if_false] at h
    cases hs : sampleClauses k n m planted (usedStream σ seed rng) with
    | error e => rw [hs] at h; cases h
    | ok p =>
      obtain ⟨cls, rest'⟩ := p
      rw [hs] at h
      simp only [Except.ok.injEq, Prod.mk.injEq] at h
      obtain ⟨rfl, rfl⟩ := h
      exact ⟨by omega, cls, rfl, rfl⟩

theorem randomKCNF_error {σ : Int → List Draw} {k n m : Nat} {seed : Option Int} {planted : List (List Int)}
    {rng : List Draw} {e : RErr} (h : randomKCNF σ k n m seed planted rng = .error e) :
    (e = .py .valueError ∧ n < k) ∨
      (¬ n < k ∧ sampleClauses k n m planted (usedStream σ seed rng) = .error e) := by
  rw [randomKCNF_eq] at h
  by_cases hk : n < k
  · simp only [hk, if_true, Except.error.injEq] at h
    exact Or.inl ⟨h.symm, hk⟩
  · simp only [hk, if_false] at h
    right; refine ⟨hk, ?_⟩
    cases hs : sampleClauses k n m planted (usedStream σ seed rng) with
    | error e' => rw [hs] at h; simpa using h
    | ok p => obtain ⟨cls, rest'⟩ := p; rw [hs] at h; cases h

theorem toCNF_clauses (n : Nat) (cls : List Clause) :
    (Formula.toCNF { nvars := n, cons := cls.map Con.clause }).clauses = cls := by
  simp only [Formula.toCNF, List.flatMap_map]
  induction cls with
  | nil => rfl
  | cons c cs _ => simp [List.flatMap_cons, Con.toCNF]

/-! ### semantics of `clause_satisfied` -/

/-- the Boolean assignment a list of literals stands for -/
def asg (a : List Int) : Assign := fun v => a.contains (v : Int)

/-- no variable occurs with both signs -/
def Consistent (a : List Int) : Prop := ∀ l ∈ a, -l ∉ a

theorem litHolds_asg {a : List Int} (hc : Consistent a) {l : Int} (h : l ∈ a) :
    litHolds (asg a) l = true := by
  unfold litHolds asg
  by_cases hp : 0 < l
  · simp only [hp, if_true]
    have : ((l.natAbs : Nat) : Int) = l := by omega
    rw [this]; simpa using h
  · simp only [hp, if_false]
    have e : ((l.natAbs : Nat) : Int) = -l := by omega
    rw [e]
    have := hc l h
    simpa using this

theorem clauseSatisfied_iff {c : Clause} {planted : List (List Int)} :
    clauseSatisfied c planted = true ↔ ∀ a ∈ planted, ∃ l ∈ c, l ∈ a := by
  simp [clauseSatisfied]

theorem clauseHolds_of_satisfied {c : Clause} {a : List Int} (hc : Consistent a)
    (h : ∃ l ∈ c, l ∈ a) : clauseHolds (asg a) c = true := by
  obtain ⟨l, hl, hla⟩ := h
  simp only [clauseHolds, List.any_eq_true]
  exact ⟨l, hl, litHolds_asg hc hla⟩

/-- two clauses written in increasing order of variable that contain the same literals are equal -/
theorem eq_of_same_literals {c c' : Clause} (h : (c.map Int.natAbs).Pairwise (· < ·))
    (h' : (c'.map Int.natAbs).Pairwise (· < ·)) (hm : ∀ l, l ∈ c ↔ l ∈ c') : c = c' := by
  induction c generalizing c' with
  | nil =>
    cases c' with
    | nil => rfl
    | cons y ys => exact absurd ((hm y).2 (by simp)) (by simp)
  | cons x xs ih =>
    cases c' with
    | nil => exact absurd ((hm x).1 (by simp)) (by simp)
    | cons y ys =>
      simp only [List.map_cons, List.pairwise_cons, List.mem_map, forall_exists_index, and_imp,
        forall_apply_eq_imp_iff₂] at h h'
      have hxy : x = y := by
        rcases List.mem_cons.1 ((hm x).1 (by simp)) with e | e
        · exact e
        · rcases List.mem_cons.1 ((hm y).2 (by simp)) with e' | e'
          · exact e'.symm
          · have := h.1 y e'; have := h'.1 x e; omega
      subst hxy
      rw [ih h.2 h'.2]
      intro l
      constructor
      · intro hl
        rcases List.mem_cons.1 ((hm l).1 (by simp [hl])) with e | e
        · subst e; have := h.1 l hl; omega
        · exact e
      · intro hl
        rcases List.mem_cons.1 ((hm l).2 (by simp [hl])) with e | e
        · subst e; have := h'.1 l hl; omega
        · exact e

end Cnfgen.Rand
