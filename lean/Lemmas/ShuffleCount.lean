/-
C09 — equality of model counts (the only part of the C09 lemmas that needs Mathlib: `Fintype.card`).
-/
import Lemmas.Shuffle
import Mathlib.Data.Fintype.Card
import Mathlib.Data.Fintype.Pi
namespace Cnfgen.Shuffle
open Cnfgen

/-! ### counting satisfying assignments over the variables `1..N` -/

/-- an assignment of the variables `1..N` (as a function on `Fin N`) seen as an `Assign` -/
def extend (N : Nat) (a : Fin N → Bool) : Assign :=
  fun v => if h : 1 ≤ v ∧ v ≤ N then a ⟨v - 1, by omega⟩ else false

/-- restriction of an `Assign` to the variables `1..N` -/
def restrict (N : Nat) (α : Assign) : Fin N → Bool := fun i => α (i.val + 1)

theorem restrict_extend (N : Nat) (a : Fin N → Bool) : restrict N (extend N a) = a := by
  funext i
  have : 1 ≤ i.val + 1 ∧ i.val + 1 ≤ N := ⟨by omega, by have := i.isLt; omega⟩
  simp [restrict, extend, this]

theorem extend_restrict (N : Nat) (α : Assign) (v : Nat) (h1 : 1 ≤ v) (h2 : v ≤ N) :
    extend N (restrict N α) v = α v := by
  have : 1 ≤ v ∧ v ≤ N := ⟨h1, h2⟩
  simp only [extend, this, restrict, and_self, ↓reduceDIte]
  congr 1; omega

theorem litHolds_congr (α β : Assign) (l : Int) (h : α l.natAbs = β l.natAbs) :
    litHolds α l = litHolds β l := by
  unfold litHolds; rw [h]

/-- a well-formed formula only looks at the variables `1..nvars` -/
theorem holds_congr (F : CNF) (hwf : F.WF) (α β : Assign)
    (h : ∀ v, 1 ≤ v → v ≤ F.nvars → α v = β v) : F.holds α = F.holds β := by
  unfold CNF.holds
  rw [Bool.eq_iff_iff]
  simp only [List.all_eq_true]
  have key : ∀ c ∈ F.clauses, clauseHolds α c = clauseHolds β c := by
    intro c hc
    unfold clauseHolds
    rw [Bool.eq_iff_iff]
    simp only [List.any_eq_true]
    have hL : ∀ l ∈ c, litHolds α l = litHolds β l := by
      intro l hl
      have := hwf c hc l hl
      exact litHolds_congr α β l (h _ (by omega) this.2)
    exact ⟨fun ⟨l, hl, hh⟩ => ⟨l, hl, by rw [← hL l hl]; exact hh⟩,
           fun ⟨l, hl, hh⟩ => ⟨l, hl, by rw [hL l hl]; exact hh⟩⟩
  exact ⟨fun hh c hc => by rw [← key c hc]; exact hh c hc, fun hh c hc => by rw [key c hc]; exact hh c hc⟩

theorem pull_congr {N : Nat} {fl vp : List Int} (hf : ValidFlips N fl) (hv : ValidPerm 1 N vp)
    (α α' : Assign) (h : ∀ v, 1 ≤ v → v ≤ N → α v = α' v) (v : Nat) (h1 : 1 ≤ v) (h2 : v ≤ N) :
    pull fl vp α v = pull fl vp α' v := by
  have hl : LitIn N (sigma fl vp (v : Int)) := sigma_litIn hf hv (by unfold LitIn; omega)
  exact litHolds_congr α α' _ (h _ (by have := hl.1; omega) hl.2)

theorem push_congr {N : Nat} {fl vp : List Int} (hf : ValidFlips N fl) (hv : ValidPerm 1 N vp)
    (β β' : Assign) (h : ∀ v, 1 ≤ v → v ≤ N → β v = β' v) (w : Nat) (h1 : 1 ≤ w) (h2 : w ≤ N) :
    push fl vp β w = push fl vp β' w := by
  have hl : LitIn N (sigmaInv fl vp (w : Int)) := sigmaInv_litIn hf hv (by unfold LitIn; omega)
  exact litHolds_congr β β' _ (h _ (by have := hl.1; omega) hl.2)

/-- `α ↦ pull α`, restricted to the variables `1..N`, is a bijection of the `2^N` assignments;
its inverse is `β ↦ push β` -/
def pullEquiv {N : Nat} {fl vp : List Int} (hf : ValidFlips N fl) (hv : ValidPerm 1 N vp) :
    (Fin N → Bool) ≃ (Fin N → Bool) where
  toFun a := restrict N (pull fl vp (extend N a))
  invFun b := restrict N (push fl vp (extend N b))
  left_inv a := by
    funext i
    have hi : 1 ≤ i.val + 1 ∧ i.val + 1 ≤ N := ⟨by omega, by have := i.isLt; omega⟩
    show push fl vp (extend N (restrict N (pull fl vp (extend N a)))) (i.val + 1) = a i
    rw [push_congr hf hv _ (pull fl vp (extend N a)) (extend_restrict N _) _ hi.1 hi.2,
      push_pull hf hv _ _ hi.1 hi.2]
    exact congrFun (restrict_extend N a) i
  right_inv b := by
    funext i
    have hi : 1 ≤ i.val + 1 ∧ i.val + 1 ≤ N := ⟨by omega, by have := i.isLt; omega⟩
    show pull fl vp (extend N (restrict N (push fl vp (extend N b)))) (i.val + 1) = b i
    rw [pull_congr hf hv _ (push fl vp (extend N b)) (extend_restrict N _) _ hi.1 hi.2,
      pull_push hf hv _ _ hi.1 hi.2]
    exact congrFun (restrict_extend N b) i

/-- number of satisfying assignments of a formula over its own variables `1..nvars` -/
def modelCount (F : CNF) : Nat :=
  Fintype.card {a : Fin F.nvars → Bool // F.holds (extend F.nvars a) = true}

theorem modelCount_result (F : CNF) (hwf : F.WF) (fl vp cp : List Int) (h : Valid F fl vp cp) :
    modelCount ⟨F.nvars, resultClauses F fl vp (sortedMapping cp)⟩ = modelCount F := by
  unfold modelCount
  apply Fintype.card_congr
  refine Equiv.subtypeEquiv (pullEquiv h.1 h.2.1) ?_
  intro a
  show CNF.holds (extend F.nvars a) ⟨F.nvars, resultClauses F fl vp (sortedMapping cp)⟩ = true ↔
    F.holds (extend F.nvars (restrict F.nvars (pull fl vp (extend F.nvars a)))) = true
  rw [result_holds F hwf fl vp cp h,
    holds_congr F hwf _ (pull fl vp (extend F.nvars a)) (extend_restrict F.nvars _)]

end Cnfgen.Shuffle
