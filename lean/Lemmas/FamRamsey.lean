/-
Lemmas for the models of cnfgen/families/ramsey.py (`Fam/Ramsey.lean`):
Pythagorean triples, Ramsey number, the progression generator and van der Waerden.
-/
import CnfgenModel.Fam.Ramsey
import Lemmas.FamIter
import Lemmas.Constr
import Mathlib.Data.Nat.Sqrt
import Mathlib.Tactic.Choose
namespace Cnfgen.FamRamsey
open Cnfgen Cnfgen.Fam Cnfgen.FamIter

/-! ### literals that are casts of positive identifiers -/

theorem litHolds_pos (α : Assign) (n : Nat) (h : 1 ≤ n) : litHolds α (n : Int) = α n := by
  simp [litHolds]; omega

theorem litHolds_negc (α : Assign) (n : Nat) (_h : 1 ≤ n) : litHolds α (-(n : Int)) = !α n := by
  simp [litHolds]

theorem holds_iff (α : Assign) (F : Formula) : F.holds α = true ↔ ∀ c ∈ F.cons, c.holds α = true := by
  simp [Formula.holds, List.all_eq_true]

theorem clause_pos_holds (α : Assign) (ids : List Nat) (h : ∀ i ∈ ids, 1 ≤ i) :
    clauseHolds α (ids.map (fun (i : Nat) => (i : Int))) = true ↔ ∃ i ∈ ids, α i = true := by
  simp only [clauseHolds, List.any_eq_true, List.mem_map]
  constructor
  · rintro ⟨l, ⟨i, hi, rfl⟩, hl⟩; exact ⟨i, hi, by rwa [litHolds_pos α i (h i hi)] at hl⟩
  · rintro ⟨i, hi, hl⟩; exact ⟨_, ⟨i, hi, rfl⟩, by rwa [litHolds_pos α i (h i hi)]⟩

theorem clause_neg_holds (α : Assign) (ids : List Nat) (h : ∀ i ∈ ids, 1 ≤ i) :
    clauseHolds α (ids.map (fun (i : Nat) => -(i : Int))) = true ↔ ∃ i ∈ ids, α i = false := by
  simp only [clauseHolds, List.any_eq_true, List.mem_map]
  constructor
  · rintro ⟨l, ⟨i, hi, rfl⟩, hl⟩
    refine ⟨i, hi, ?_⟩
    rw [litHolds_negc α i (h i hi)] at hl; simpa using hl
  · rintro ⟨i, hi, hl⟩
    refine ⟨_, ⟨i, hi, rfl⟩, ?_⟩
    rw [litHolds_negc α i (h i hi)]; simp [hl]

/-! ### Pythagorean triples -/

theorem ptn_eq (N : Nat) : Ramsey.ptn (N : Int) = .ok ⟨N, Ramsey.ptnCons N⟩ := by
  have : ¬ ((N : Int) < 0) := by omega
  simp [Ramsey.ptn, Ramsey.nonNegInt, this, bind, Except.bind, pure, Except.pure]

theorem ptn_neg (N : Int) (h : N < 0) : Ramsey.ptn N = .error .valueError := by
  simp [Ramsey.ptn, Ramsey.nonNegInt, h, bind, Except.bind]

theorem lt_of_sq_add_sq {x y z : Nat} (hx : 1 ≤ x) (h : x ^ 2 + y ^ 2 = z ^ 2) : y < z := by
  by_contra hc
  have h1 : z ^ 2 ≤ y ^ 2 := Nat.pow_le_pow_left (by omega) 2
  have h2 : 0 < x ^ 2 := Nat.pow_pos (by omega)
  omega

/-- exact axioms of `PythagoreanTriples(N)`: two clauses per triple `x < y < z ≤ N`, `x² + y² = z²` -/
theorem mem_ptnCons (N : Nat) (con : Con) :
    con ∈ Ramsey.ptnCons N ↔ ∃ x y z : Nat, 1 ≤ x ∧ x < y ∧ y < z ∧ z ≤ N ∧ x ^ 2 + y ^ 2 = z ^ 2 ∧
      (con = Con.clause [(x : Int), (y : Int), (z : Int)] ∨
       con = Con.clause [-(x : Int), -(y : Int), -(z : Int)]) := by
  simp only [Ramsey.ptnCons, List.mem_flatMap]
  constructor
  · rintro ⟨p, hp, hcon⟩
    rw [mem_combos] at hp
    obtain ⟨hsub, hlen⟩ := hp
    obtain ⟨x, y, rfl⟩ := List.length_eq_two.1 hlen
    rw [pair_sublist_iff (rangeN_pairwise _ _)] at hsub
    simp only [mem_rangeN] at hsub
    simp only [Ramsey.ptnPair] at hcon
    split at hcon
    · rename_i hc
      have hyz := lt_of_sq_add_sq hsub.1.1 hc.2.symm
      refine ⟨x, y, Nat.sqrt (x ^ 2 + y ^ 2), hsub.1.1, hsub.2.2, hyz, hc.1, hc.2.symm, ?_⟩
      simpa using hcon
    · simp at hcon
  · rintro ⟨x, y, z, hx, hxy, hyz, hz, hsq, hcon⟩
    refine ⟨[x, y], ?_, ?_⟩
    · rw [mem_combos, pair_sublist_iff (rangeN_pairwise _ _)]
      simp only [mem_rangeN]
      exact ⟨⟨⟨hx, by omega⟩, ⟨by omega, by omega⟩, hxy⟩, rfl⟩
    · have hs : Nat.sqrt (x ^ 2 + y ^ 2) = z := by rw [hsq, Nat.sqrt_eq']
      simp only [Ramsey.ptnPair, hs]
      rw [if_pos ⟨hz, hsq.symm⟩]
      simpa using hcon

theorem ptn_holds_iff (N : Nat) (α : Assign) :
    (⟨N, Ramsey.ptnCons N⟩ : Formula).holds α = true ↔
      ∀ x y z : Nat, 1 ≤ x → x < y → y < z → z ≤ N → x ^ 2 + y ^ 2 = z ^ 2 →
        ¬ (α x = α y ∧ α y = α z) := by
  rw [holds_iff]
  simp only [mem_ptnCons]
  constructor
  · intro h x y z hx hxy hyz hz hsq
    have h1 := h _ ⟨x, y, z, hx, hxy, hyz, hz, hsq, Or.inl rfl⟩
    have h2 := h _ ⟨x, y, z, hx, hxy, hyz, hz, hsq, Or.inr rfl⟩
    simp only [Con.holds, clauseHolds, List.any_cons, List.any_nil, Bool.or_false,
      litHolds_pos α x hx, litHolds_pos α y (by omega), litHolds_pos α z (by omega),
      litHolds_negc α x hx, litHolds_negc α y (by omega), litHolds_negc α z (by omega)] at h1 h2
    revert h1 h2
    cases α x <;> cases α y <;> cases α z <;> simp
  · rintro h con ⟨x, y, z, hx, hxy, hyz, hz, hsq, rfl | rfl⟩
    all_goals
      have := h x y z hx hxy hyz hz hsq
      simp only [Con.holds, clauseHolds, List.any_cons, List.any_nil, Bool.or_false,
        litHolds_pos α x hx, litHolds_pos α y (by omega), litHolds_pos α z (by omega),
        litHolds_negc α x hx, litHolds_negc α y (by omega), litHolds_negc α z (by omega)]
      revert this
      cases α x <;> cases α y <;> cases α z <;> simp

theorem ptn_wf (N : Nat) : (⟨N, Ramsey.ptnCons N⟩ : Formula).WF := by
  intro c hc l hl
  rw [mem_ptnCons] at hc
  obtain ⟨x, y, z, hx, hxy, hyz, hz, _, rfl | rfl⟩ := hc <;>
    simp only [Con.lits, List.mem_cons, List.not_mem_nil, or_false] at hl <;>
    rcases hl with rfl | rfl | rfl <;> simp <;> omega

/-! ### Ramsey number -/

theorem ramsey_eq (s k N : Nat) (hs : 1 ≤ s) (hk : 1 ≤ k) :
    Ramsey.ramseyNumber (s : Int) (k : Int) (N : Int) =
      .ok ⟨(Vars.combosSeqs N 2).length, Ramsey.ramseyCons s k N⟩ := by
  have h1 : ¬ ((N : Int) < 0) := by omega
  have h2 : ¬ ((s : Int) < 1) := by omega
  have h3 : ¬ ((k : Int) < 1) := by omega
  simp [Ramsey.ramseyNumber, Ramsey.nonNegInt, Ramsey.positiveInt, h1, h2, h3, bind, Except.bind, pure,
    Except.pure]

theorem ramsey_err (s k N : Int) (h : N < 0 ∨ s < 1 ∨ k < 1) :
    Ramsey.ramseyNumber s k N = .error .valueError := by
  simp only [Ramsey.ramseyNumber, Ramsey.nonNegInt, Ramsey.positiveInt, bind, Except.bind]
  by_cases h1 : N < 0
  · simp [h1]
  · by_cases h2 : s < 1
    · simp [h1, h2]
    · have h3 : k < 1 := by omega
      simp [h1, h2, h3]

theorem mem_pairs {N u v : Nat} : [u, v] ∈ Vars.combosSeqs N 2 ↔ 1 ≤ u ∧ u < v ∧ v ≤ N := by
  rw [Vars.combosSeqs, mem_combos, pair_sublist_iff (rangeN_pairwise _ _)]
  simp only [mem_rangeN]
  constructor
  · rintro ⟨⟨⟨h1, h2⟩, ⟨h3, h4⟩, h5⟩, _⟩; omega
  · intro h; exact ⟨⟨⟨by omega, by omega⟩, ⟨by omega, by omega⟩, by omega⟩, rfl⟩

theorem pairs_nodup (N : Nat) : (Vars.combosSeqs N 2).Nodup := combos_nodup 2 (rangeN_nodup _ _)

/-- documented number of variables: one per pair, `N(N-1)/2` -/
theorem two_mul_length_pairs (N : Nat) : 2 * (Vars.combosSeqs N 2).length = N * (N - 1) := by
  rw [Vars.combosSeqs, two_mul_length_combos_two, length_rangeN]; simp

theorem eId_range {N u v : Nat} (h : 1 ≤ u ∧ u < v ∧ v ≤ N) :
    1 ≤ Ramsey.eId N u v ∧ Ramsey.eId N u v ≤ (Vars.combosSeqs N 2).length := by
  have := List.idxOf_lt_length_of_mem (mem_pairs.2 h)
  simp only [Ramsey.eId]; omega

theorem eId_inj {N u v u' v' : Nat} (h : 1 ≤ u ∧ u < v ∧ v ≤ N)
    (he : Ramsey.eId N u v = Ramsey.eId N u' v') : u = u' ∧ v = v' := by
  simp only [Ramsey.eId, Nat.add_left_cancel_iff] at he
  have := (List.idxOf_inj (mem_pairs.2 h)).1 he
  simpa using this

theorem eId_surj {N i : Nat} (h1 : 1 ≤ i) (h2 : i ≤ (Vars.combosSeqs N 2).length) :
    ∃ u v, (1 ≤ u ∧ u < v ∧ v ≤ N) ∧ Ramsey.eId N u v = i := by
  have hlt : i - 1 < (Vars.combosSeqs N 2).length := by omega
  have hm : (Vars.combosSeqs N 2)[i - 1] ∈ Vars.combosSeqs N 2 := List.getElem_mem hlt
  have hlen : ((Vars.combosSeqs N 2)[i - 1]).length = 2 :=
    ((mem_combos (l := rangeN 1 (N + 1)) (k := 2)).1 hm).2
  obtain ⟨u, v, huv⟩ := List.length_eq_two.1 hlen
  refine ⟨u, v, mem_pairs.1 (huv ▸ hm), ?_⟩
  have := (pairs_nodup N).idxOf_getElem (i - 1) hlt
  rw [huv] at this
  simp only [Ramsey.eId, this]; omega

theorem combos_two_of_sorted {S : List Nat} (hS : S.Pairwise (· < ·)) (p : List Nat) :
    p ∈ combos S 2 ↔ ∃ u v, p = [u, v] ∧ u ∈ S ∧ v ∈ S ∧ u < v := by
  rw [mem_combos]
  constructor
  · rintro ⟨hsub, hlen⟩
    obtain ⟨u, v, rfl⟩ := List.length_eq_two.1 hlen
    exact ⟨u, v, rfl, (pair_sublist_iff hS u v).1 hsub⟩
  · rintro ⟨u, v, rfl, h⟩
    exact ⟨(pair_sublist_iff hS u v).2 h, rfl⟩

theorem mem_pairLits {N : Nat} {S : List Nat} (hS : S.Pairwise (· < ·)) (e : Nat) :
    e ∈ Ramsey.pairLits N S ↔ ∃ u v, u ∈ S ∧ v ∈ S ∧ u < v ∧ e = Ramsey.eId N u v := by
  simp only [Ramsey.pairLits, List.mem_map, combos_two_of_sorted hS]
  constructor
  · rintro ⟨p, ⟨u, v, rfl, h⟩, rfl⟩; exact ⟨u, v, h.1, h.2.1, h.2.2, rfl⟩
  · rintro ⟨u, v, h1, h2, h3, rfl⟩; exact ⟨[u, v], ⟨u, v, rfl, h1, h2, h3⟩, rfl⟩

theorem pairLits_pos {N : Nat} {S : List Nat} (hS : S.Pairwise (· < ·)) : ∀ e ∈ Ramsey.pairLits N S, 1 ≤ e := by
  intro e he
  obtain ⟨u, v, _, _, _, rfl⟩ := (mem_pairLits hS e).1 he
  simp [Ramsey.eId]

theorem mem_vertexSets {N n : Nat} {S : List Nat} :
    S ∈ combos (rangeN 1 (N + 1)) n ↔ (S.Pairwise (· < ·) ∧ ∀ x ∈ S, 1 ≤ x ∧ x ≤ N) ∧ S.length = n := by
  rw [mem_combos, sublist_iff_of_sorted (rangeN_pairwise _ _)]
  simp only [mem_rangeN]
  constructor
  · rintro ⟨⟨h1, h2⟩, h3⟩; exact ⟨⟨h1, fun x hx => by have := h2 x hx; omega⟩, h3⟩
  · rintro ⟨⟨h1, h2⟩, h3⟩; exact ⟨⟨h1, fun x hx => by have := h2 x hx; omega⟩, h3⟩

/-- `RamseyNumber(s,k,N)` holds iff the graph `{uv | α e_uv}` on `1..N` has an edge inside every
`s`-set of vertices and a non-edge inside every `k`-set -/
theorem ramsey_holds_iff (s k N : Nat) (α : Assign) :
    (⟨(Vars.combosSeqs N 2).length, Ramsey.ramseyCons s k N⟩ : Formula).holds α = true ↔
      (∀ S : List Nat, (S.Pairwise (· < ·) ∧ ∀ x ∈ S, 1 ≤ x ∧ x ≤ N) → S.length = s →
          ∃ u ∈ S, ∃ v ∈ S, u < v ∧ α (Ramsey.eId N u v) = true) ∧
      (∀ S : List Nat, (S.Pairwise (· < ·) ∧ ∀ x ∈ S, 1 ≤ x ∧ x ≤ N) → S.length = k →
          ∃ u ∈ S, ∃ v ∈ S, u < v ∧ α (Ramsey.eId N u v) = false) := by
  rw [holds_iff]
  simp only [Ramsey.ramseyCons, List.mem_append, List.mem_map]
  constructor
  · intro h
    constructor
    · intro S hS hlen
      have := h _ (Or.inl ⟨S, mem_vertexSets.2 ⟨hS, hlen⟩, rfl⟩)
      simp only [Con.holds] at this
      rw [clause_pos_holds α _ (pairLits_pos hS.1)] at this
      obtain ⟨e, he, hα⟩ := this
      obtain ⟨u, v, hu, hv, huv, rfl⟩ := (mem_pairLits hS.1 e).1 he
      exact ⟨u, hu, v, hv, huv, hα⟩
    · intro S hS hlen
      have := h _ (Or.inr ⟨S, mem_vertexSets.2 ⟨hS, hlen⟩, rfl⟩)
      simp only [Con.holds] at this
      rw [clause_neg_holds α _ (pairLits_pos hS.1)] at this
      obtain ⟨e, he, hα⟩ := this
      obtain ⟨u, v, hu, hv, huv, rfl⟩ := (mem_pairLits hS.1 e).1 he
      exact ⟨u, hu, v, hv, huv, hα⟩
  · rintro ⟨h1, h2⟩ c (⟨S, hS, rfl⟩ | ⟨S, hS, rfl⟩)
    · obtain ⟨hS, hlen⟩ := mem_vertexSets.1 hS
      obtain ⟨u, hu, v, hv, huv, hα⟩ := h1 S hS hlen
      simp only [Con.holds]
      rw [clause_pos_holds α _ (pairLits_pos hS.1)]
      exact ⟨_, (mem_pairLits hS.1 _).2 ⟨u, v, hu, hv, huv, rfl⟩, hα⟩
    · obtain ⟨hS, hlen⟩ := mem_vertexSets.1 hS
      obtain ⟨u, hu, v, hv, huv, hα⟩ := h2 S hS hlen
      simp only [Con.holds]
      rw [clause_neg_holds α _ (pairLits_pos hS.1)]
      exact ⟨_, (mem_pairLits hS.1 _).2 ⟨u, v, hu, hv, huv, rfl⟩, hα⟩

theorem ramsey_wf (s k N : Nat) :
    (⟨(Vars.combosSeqs N 2).length, Ramsey.ramseyCons s k N⟩ : Formula).WF := by
  intro c hc l hl
  simp only [Ramsey.ramseyCons, List.mem_append, List.mem_map] at hc
  have key : ∀ S n, S ∈ combos (rangeN 1 (N + 1)) n → ∀ e ∈ Ramsey.pairLits N S,
      1 ≤ e ∧ e ≤ (Vars.combosSeqs N 2).length := by
    intro S n hS e he
    obtain ⟨hS, _⟩ := mem_vertexSets.1 hS
    obtain ⟨u, v, hu, hv, huv, rfl⟩ := (mem_pairLits hS.1 e).1 he
    exact eId_range ⟨(hS.2 u hu).1, huv, (hS.2 v hv).2⟩
  rcases hc with ⟨S, hS, rfl⟩ | ⟨S, hS, rfl⟩
  · simp only [Con.lits, List.mem_map] at hl
    obtain ⟨e, he, rfl⟩ := hl
    have := key S _ hS e he
    simp only [Int.natAbs_natCast]; omega
  · simp only [Con.lits, List.mem_map] at hl
    obtain ⟨e, he, rfl⟩ := hl
    have := key S _ hS e he
    simp only [Int.natAbs_neg, Int.natAbs_natCast]; omega

/-! ### the arithmetic-progression generator -/

/-- `_vdw_ap_generator(N, k)`, `k ≥ 1`, lists exactly the `k`-term progressions
`i, i+d, …, i+(k-1)d` inside `1..N` with `d ≥ 1` (for `k = 1`: the singletons) -/
theorem mem_apGenerator {N k : Nat} (hk : 1 ≤ k) (ap : List Nat) :
    ap ∈ Ramsey.apGenerator N k ↔
      ∃ i d, 1 ≤ i ∧ 1 ≤ d ∧ i + (k - 1) * d ≤ N ∧ ap = (List.range k).map (fun t => i + d * t) := by
  unfold Ramsey.apGenerator
  by_cases h1 : k = 1
  · subst h1
    simp only [if_true, List.mem_map, mem_rangeN]
    constructor
    · rintro ⟨i, hi, rfl⟩; exact ⟨i, 1, hi.1, le_refl _, by omega, by simp⟩
    · rintro ⟨i, d, hi, _, hN, rfl⟩; exact ⟨i, ⟨hi, by omega⟩, by simp⟩
  · simp only [h1, if_false, List.mem_flatMap, List.mem_map, mem_rangeN]
    obtain ⟨k', rfl⟩ : ∃ k', k = k' + 2 := ⟨k - 2, by omega⟩
    have hk' : k' + 2 - 1 = k' + 1 := by omega
    simp only [hk']
    constructor
    · rintro ⟨d, ⟨hd1, hd2⟩, i, ⟨hi1, hi2⟩, rfl⟩
      have hd3 : d ≤ (N - 1) / (k' + 1) := by omega
      rw [Nat.le_div_iff_mul_le (by omega)] at hd3
      refine ⟨i, d, hi1, hd1, ?_, rfl⟩
      have e1 : d * (k' + 2) = d * (k' + 1) + d := by ring
      have e2 : (k' + 1) * d = d * (k' + 1) := by ring
      rw [e1] at hi2; rw [e2]; omega
    · rintro ⟨i, d, hi, hd, hN, rfl⟩
      have e1 : d * (k' + 2) = d * (k' + 1) + d := by ring
      have e2 : (k' + 1) * d = d * (k' + 1) := by ring
      rw [e2] at hN
      refine ⟨d, ⟨hd, ?_⟩, i, ⟨hi, ?_⟩, rfl⟩
      · have : d ≤ (N - 1) / (k' + 1) := by
          rw [Nat.le_div_iff_mul_le (by omega)]; omega
        omega
      · rw [e1]; omega

theorem ap_elems {N k i d : Nat} (hi : 1 ≤ i) (hN : i + (k - 1) * d ≤ N) :
    ∀ x ∈ (List.range k).map (fun t => i + d * t), 1 ≤ x ∧ x ≤ N := by
  intro x hx
  simp only [List.mem_map, List.mem_range] at hx
  obtain ⟨t, ht, rfl⟩ := hx
  have : d * t ≤ (k - 1) * d := by
    rw [Nat.mul_comm]; exact Nat.mul_le_mul_right d (by omega)
  omega

theorem ap_map_inj {k : Nat} (hk : 1 ≤ k) {i d i' d' : Nat}
    (h : (List.range k).map (fun t => i + d * t) = (List.range k).map (fun t => i' + d' * t)) :
    i = i' ∧ (2 ≤ k → d = d') := by
  rw [List.map_inj_left] at h
  have h0 := h 0 (List.mem_range.2 (by omega))
  simp only [Nat.mul_zero, Nat.add_zero] at h0
  refine ⟨h0, fun h2 => ?_⟩
  have h1 := h 1 (List.mem_range.2 (by omega))
  simp only [Nat.mul_one] at h1
  omega

/-- every progression is listed once -/
theorem apGenerator_nodup {N k : Nat} (hk : 1 ≤ k) : (Ramsey.apGenerator N k).Nodup := by
  unfold Ramsey.apGenerator
  by_cases h1 : k = 1
  · simp only [h1, if_true]
    exact (rangeN_nodup _ _).map (fun a b hab => by simpa using hab)
  · simp only [h1, if_false]
    rw [List.nodup_flatMap]
    constructor
    · intro d _
      refine (rangeN_nodup _ _).map (fun a b hab => ?_)
      exact (ap_map_inj hk hab).1
    · refine (rangeN_nodup _ _).imp ?_
      intro d d' hdd
      simp only [Function.onFun]
      rw [List.disjoint_left]
      intro ap h1 h2
      simp only [List.mem_map] at h1 h2
      obtain ⟨i, _, rfl⟩ := h1
      obtain ⟨i', _, hh⟩ := h2
      exact hdd ((ap_map_inj hk hh).2 (by omega)).symm

/-! ### van der Waerden, two colours -/

theorem vdw2_eq (N k1 k2 : Nat) (h1 : 1 ≤ k1) (h2 : 1 ≤ k2) :
    Ramsey.vdw (N : Int) (k1 : Int) (k2 : Int) [] = .ok ⟨N, Ramsey.vdw2Cons N k1 k2⟩ := by
  have a1 : ¬ ((N : Int) < 0) := by omega
  have a2 : ¬ ((k1 : Int) < 1) := by omega
  have a3 : ¬ ((k2 : Int) < 1) := by omega
  simp [Ramsey.vdw, Ramsey.nonNegInt, Ramsey.positiveInt, Ramsey.positiveIntSeq, a1, a2, a3, bind,
    Except.bind, pure, Except.pure]

theorem vdw_err (N k1 k2 : Int) (ks : List Int) (h : N < 0 ∨ k1 < 1 ∨ k2 < 1 ∨ ∃ x ∈ ks, x < 1) :
    Ramsey.vdw N k1 k2 ks = .error .valueError := by
  simp only [Ramsey.vdw, Ramsey.nonNegInt, Ramsey.positiveInt, Ramsey.positiveIntSeq, bind, Except.bind]
  by_cases a1 : N < 0
  · simp [a1]
  by_cases a2 : k1 < 1
  · simp [a1, a2]
  by_cases a3 : k2 < 1
  · simp [a1, a2, a3]
  have a4 : ∃ x ∈ ks, x < 1 := by tauto
  have : ks.any (fun x => decide (x < 1)) = true := by
    simpa [List.any_eq_true] using a4
  simp [a1, a2, a3, this]

/-- the colouring `i ↦ α i` has no `k1`-progression in colour `false` and no `k2`-progression in
colour `true` -/
theorem vdw2_holds_iff (N k1 k2 : Nat) (h1 : 1 ≤ k1) (h2 : 1 ≤ k2) (α : Assign) :
    (⟨N, Ramsey.vdw2Cons N k1 k2⟩ : Formula).holds α = true ↔
      (∀ i d, 1 ≤ i → 1 ≤ d → i + (k1 - 1) * d ≤ N → ∃ t < k1, α (i + d * t) = true) ∧
      (∀ i d, 1 ≤ i → 1 ≤ d → i + (k2 - 1) * d ≤ N → ∃ t < k2, α (i + d * t) = false) := by
  rw [holds_iff]
  simp only [Ramsey.vdw2Cons, List.mem_append, List.mem_map]
  constructor
  · intro h
    constructor
    · intro i d hi hd hN
      have := h _ (Or.inl ⟨_, (mem_apGenerator h1 _).2 ⟨i, d, hi, hd, hN, rfl⟩, rfl⟩)
      simp only [Con.holds] at this
      rw [clause_pos_holds α _ (fun x hx => (ap_elems hi hN x hx).1)] at this
      obtain ⟨x, hx, hα⟩ := this
      simp only [List.mem_map, List.mem_range] at hx
      obtain ⟨t, ht, rfl⟩ := hx
      exact ⟨t, ht, hα⟩
    · intro i d hi hd hN
      have := h _ (Or.inr ⟨_, (mem_apGenerator h2 _).2 ⟨i, d, hi, hd, hN, rfl⟩, rfl⟩)
      simp only [Con.holds] at this
      rw [clause_neg_holds α _ (fun x hx => (ap_elems hi hN x hx).1)] at this
      obtain ⟨x, hx, hα⟩ := this
      simp only [List.mem_map, List.mem_range] at hx
      obtain ⟨t, ht, rfl⟩ := hx
      exact ⟨t, ht, hα⟩
  · rintro ⟨ha, hb⟩ c (⟨ap, hap, rfl⟩ | ⟨ap, hap, rfl⟩)
    · obtain ⟨i, d, hi, hd, hN, rfl⟩ := (mem_apGenerator h1 _).1 hap
      obtain ⟨t, ht, hα⟩ := ha i d hi hd hN
      simp only [Con.holds]
      rw [clause_pos_holds α _ (fun x hx => (ap_elems hi hN x hx).1)]
      exact ⟨_, List.mem_map.2 ⟨t, List.mem_range.2 ht, rfl⟩, hα⟩
    · obtain ⟨i, d, hi, hd, hN, rfl⟩ := (mem_apGenerator h2 _).1 hap
      obtain ⟨t, ht, hα⟩ := hb i d hi hd hN
      simp only [Con.holds]
      rw [clause_neg_holds α _ (fun x hx => (ap_elems hi hN x hx).1)]
      exact ⟨_, List.mem_map.2 ⟨t, List.mem_range.2 ht, rfl⟩, hα⟩

theorem vdw2_wf (N k1 k2 : Nat) (h1 : 1 ≤ k1) (h2 : 1 ≤ k2) :
    (⟨N, Ramsey.vdw2Cons N k1 k2⟩ : Formula).WF := by
  intro c hc l hl
  simp only [Ramsey.vdw2Cons, List.mem_append, List.mem_map] at hc
  rcases hc with ⟨ap, hap, rfl⟩ | ⟨ap, hap, rfl⟩
  · obtain ⟨i, d, hi, hd, hN, rfl⟩ := (mem_apGenerator h1 _).1 hap
    simp only [Con.lits, List.mem_map] at hl
    obtain ⟨x, hx, rfl⟩ := hl
    have := ap_elems hi hN x (List.mem_map.2 hx)
    simp only [Int.natAbs_natCast]; omega
  · obtain ⟨i, d, hi, hd, hN, rfl⟩ := (mem_apGenerator h2 _).1 hap
    simp only [Con.lits, List.mem_map] at hl
    obtain ⟨x, hx, rfl⟩ := hl
    have := ap_elems hi hN x (List.mem_map.2 hx)
    simp only [Int.natAbs_neg, Int.natAbs_natCast]; omega

/-! ### van der Waerden, more than two colours -/

theorem xId_eq (N C i c : Nat) : Ramsey.xId N C i c = 1 + (i - 1) * C + (c - 1) := by
  simp [Ramsey.xId, Vars.blockId, Vars.weights]; omega

theorem xId_range {N C i c : Nat} (hi : 1 ≤ i ∧ i ≤ N) (hc : 1 ≤ c ∧ c ≤ C) :
    1 ≤ Ramsey.xId N C i c ∧ Ramsey.xId N C i c ≤ N * C := by
  rw [xId_eq]
  obtain ⟨i', rfl⟩ : ∃ i', i = i' + 1 := ⟨i - 1, by omega⟩
  obtain ⟨N', rfl⟩ : ∃ N', N = N' + 1 := ⟨N - 1, by omega⟩
  have : i' * C ≤ N' * C := Nat.mul_le_mul_right C (by omega)
  have e : (N' + 1) * C = N' * C + C := by ring
  simp only [Nat.add_sub_cancel]
  rw [e]; omega

theorem xId_inj {N C i c i' c' : Nat} (hc : 1 ≤ c ∧ c ≤ C) (hc' : 1 ≤ c' ∧ c' ≤ C) (hi : 1 ≤ i) (hi' : 1 ≤ i')
    (h : Ramsey.xId N C i c = Ramsey.xId N C i' c') : i = i' ∧ c = c' := by
  rw [xId_eq, xId_eq] at h
  have hC : 0 < C := by omega
  have h' : (c - 1) + (i - 1) * C = (c' - 1) + (i' - 1) * C := by omega
  have hd := congrArg (· / C) h'
  have hm := congrArg (· % C) h'
  simp only [Nat.add_mul_div_right _ _ hC, Nat.add_mul_mod_self_right] at hd hm
  rw [Nat.div_eq_of_lt (by omega), Nat.div_eq_of_lt (by omega)] at hd
  rw [Nat.mod_eq_of_lt (by omega), Nat.mod_eq_of_lt (by omega)] at hm
  omega

theorem xId_surj {N C v : Nat} (h1 : 1 ≤ v) (h2 : v ≤ N * C) :
    ∃ i c, (1 ≤ i ∧ i ≤ N) ∧ (1 ≤ c ∧ c ≤ C) ∧ Ramsey.xId N C i c = v := by
  have hC : 0 < C := by
    rcases Nat.eq_zero_or_pos C with h | h
    · subst h; simp at h2; omega
    · exact h
  refine ⟨(v - 1) / C + 1, (v - 1) % C + 1, ⟨Nat.le_add_left 1 _, ?_⟩, ⟨Nat.le_add_left 1 _, ?_⟩, ?_⟩
  · have : (v - 1) / C < N := by
      rw [Nat.div_lt_iff_lt_mul hC]; omega
    omega
  · have := Nat.mod_lt (v - 1) hC; omega
  · rw [xId_eq]
    have := Nat.div_add_mod (v - 1) C
    simp only [Nat.add_sub_cancel]
    rw [Nat.mul_comm] at this; omega

theorem getD_mem {β : Type} {l : List β} {i : Nat} {d : β} (hlt : i < l.length) : l.getD i d ∈ l := by
  simp [List.getD_eq_getElem?_getD, List.getElem?_eq_getElem hlt]

theorem countP_eq_one_iff {β : Type} (q : β → Bool) : ∀ {l : List β}, l.Nodup →
    (l.countP q = 1 ↔ ∃ x, (x ∈ l ∧ q x = true) ∧ ∀ y, y ∈ l → q y = true → y = x)
  | [], _ => by simp
  | a :: l, h => by
      rw [List.nodup_cons] at h
      rw [List.countP_cons]
      by_cases ha : q a = true
      · simp only [ha, if_true, Nat.add_eq_right, List.countP_eq_zero]
        constructor
        · intro h0
          refine ⟨a, ⟨by simp, ha⟩, ?_⟩
          intro y hy hq
          rcases List.mem_cons.1 hy with rfl | hy'
          · rfl
          · exact absurd hq (h0 y hy')
        · rintro ⟨x, ⟨_, _⟩, huniq⟩ y hy hq
          have e1 := huniq y (List.mem_cons_of_mem _ hy) hq
          have e2 := huniq a (by simp) ha
          exact h.1 (e2 ▸ e1 ▸ hy)
      · simp only [ha, Bool.false_eq_true, if_false, Nat.add_zero]
        rw [countP_eq_one_iff q h.2]
        constructor
        · rintro ⟨x, ⟨hx, hqx⟩, huniq⟩
          refine ⟨x, ⟨List.mem_cons_of_mem _ hx, hqx⟩, ?_⟩
          intro y hy hq
          rcases List.mem_cons.1 hy with rfl | hy'
          · exact absurd hq ha
          · exact huniq y hy' hq
        · rintro ⟨x, ⟨hx, hqx⟩, huniq⟩
          rcases List.mem_cons.1 hx with rfl | hx'
          · exact absurd hqx ha
          · exact ⟨x, ⟨hx', hqx⟩, fun y hy hq => huniq y (List.mem_cons_of_mem _ hy) hq⟩

theorem count_cast_map (α : Assign) {β : Type} (l : List β) (f : β → Nat) (hf : ∀ x ∈ l, 1 ≤ f x) :
    count α (l.map (fun x => (f x : Int))) = l.countP (fun x => α (f x)) := by
  simp only [count, List.countP_map]
  apply List.countP_congr
  intro x hx
  simp [litHolds_pos α (f x) (hf x hx)]

theorem vdwMulti_eq (N k1 k2 : Nat) (ks : List Nat) (hne : ks ≠ []) (h1 : 1 ≤ k1) (h2 : 1 ≤ k2)
    (hks : ∀ x ∈ ks, 1 ≤ x) :
    Ramsey.vdw (N : Int) (k1 : Int) (k2 : Int) (ks.map (fun (x : Nat) => (x : Int))) =
      .ok ⟨N * (ks.length + 2), Ramsey.vdwMultiCons N (k1 :: k2 :: ks)⟩ := by
  have a1 : ¬ ((N : Int) < 0) := by omega
  have a2 : ¬ ((k1 : Int) < 1) := by omega
  have a3 : ¬ ((k2 : Int) < 1) := by omega
  have a4 : (ks.map (fun (x : Nat) => (x : Int))).any (fun x => decide (x < 1)) = false := by
    rw [List.any_eq_false]
    intro x hx
    simp only [List.mem_map] at hx
    obtain ⟨y, hy, rfl⟩ := hx
    have := hks y hy
    simp; omega
  have a5 : (ks.map (fun (x : Nat) => (x : Int))).isEmpty = false := by
    cases ks with
    | nil => exact absurd rfl hne
    | cons a l => rfl
  have a6 : (ks.map (fun (x : Nat) => (x : Int))).map Int.toNat = ks := by
    rw [List.map_map]; conv => rhs; rw [← List.map_id ks]
    apply List.map_congr_left; intro x _; simp
  simp [Ramsey.vdw, Ramsey.nonNegInt, Ramsey.positiveInt, Ramsey.positiveIntSeq, a1, a2, a3, a4, a5, a6, bind,
    Except.bind, pure, Except.pure]

/-- meaning of the multi-colour encoding: every number of `1..N` has exactly one colour among `1..C`,
and for each colour `c` no progression of length `K[c-1]` is entirely of colour `c` -/
theorem vdwMulti_holds_iff (N : Nat) (K : List Nat) (hK : ∀ x ∈ K, 1 ≤ x) (α : Assign) :
    (⟨N * K.length, Ramsey.vdwMultiCons N K⟩ : Formula).holds α = true ↔
      (∀ i, 1 ≤ i ∧ i ≤ N → ∃ c, ((1 ≤ c ∧ c ≤ K.length) ∧ α (Ramsey.xId N K.length i c) = true) ∧
          ∀ c', (1 ≤ c' ∧ c' ≤ K.length) → α (Ramsey.xId N K.length i c') = true → c' = c) ∧
      (∀ c, 1 ≤ c ∧ c ≤ K.length → ∀ i d, 1 ≤ i → 1 ≤ d → i + (K.getD (c - 1) 0 - 1) * d ≤ N →
          ∃ t < K.getD (c - 1) 0, α (Ramsey.xId N K.length (i + d * t) c) = false) := by
  rw [holds_iff]
  simp only [Ramsey.vdwMultiCons, List.mem_append, List.mem_map, List.mem_flatMap, mem_rangeN]
  have hKc : ∀ c, 1 ≤ c ∧ c ≤ K.length → 1 ≤ K.getD (c - 1) 0 := by
    intro c hc
    have hlt : c - 1 < K.length := by omega
    exact hK _ (getD_mem hlt)
  have hcard : ∀ i, 1 ≤ i ∧ i ≤ N →
      ((Con.lin ((rangeN 1 (K.length + 1)).map (fun c => (Ramsey.xId N K.length i c : Int))) Op.eq 1).holds α = true ↔
        ∃ c, ((1 ≤ c ∧ c ≤ K.length) ∧ α (Ramsey.xId N K.length i c) = true) ∧
          ∀ c', (1 ≤ c' ∧ c' ≤ K.length) → α (Ramsey.xId N K.length i c') = true → c' = c) := by
    intro i hi
    simp only [Con.holds, Op.denote, decide_eq_true_eq]
    rw [count_cast_map α _ _ (fun c hc => by
      have := (mem_rangeN.1 hc); exact (xId_range hi ⟨this.1, by omega⟩).1)]
    have := countP_eq_one_iff (fun c => α (Ramsey.xId N K.length i c)) (rangeN_nodup 1 (K.length + 1))
    constructor
    · intro h
      obtain ⟨c, ⟨hc, hα⟩, hu⟩ := this.1 (by exact_mod_cast h)
      have hc' := mem_rangeN.1 hc
      exact ⟨c, ⟨⟨hc'.1, by omega⟩, hα⟩, fun c' hc'' h' => hu c' (mem_rangeN.2 ⟨hc''.1, by omega⟩) h'⟩
    · rintro ⟨c, ⟨hc, hα⟩, hu⟩
      have := this.2 ⟨c, ⟨mem_rangeN.2 ⟨hc.1, by omega⟩, hα⟩, fun c' hc' h' =>
        hu c' ⟨(mem_rangeN.1 hc').1, by have := (mem_rangeN.1 hc').2; omega⟩ h'⟩
      exact_mod_cast this
  have hlits : ∀ c i d, 1 ≤ c ∧ c ≤ K.length → 1 ≤ i → i + (K.getD (c - 1) 0 - 1) * d ≤ N →
      ∀ y ∈ ((List.range (K.getD (c - 1) 0)).map (fun t => i + d * t)).map (fun j => Ramsey.xId N K.length j c),
        1 ≤ y := by
    intro c i d hc hi hN y hy
    simp only [List.mem_map] at hy
    obtain ⟨j, hj, rfl⟩ := hy
    exact (xId_range (ap_elems hi hN j (List.mem_map.2 hj)) hc).1
  constructor
  · intro h
    constructor
    · intro i hi
      exact (hcard i hi).1 (h _ (Or.inl ⟨i, ⟨hi.1, by omega⟩, rfl⟩))
    · intro c hc i d hi hd hN
      have := h _ (Or.inr ⟨c, ⟨hc.1, by omega⟩, _,
        (mem_apGenerator (hKc c hc) _).2 ⟨i, d, hi, hd, hN, rfl⟩, rfl⟩)
      simp only [Con.holds] at this
      have e : ((List.range (K.getD (c - 1) 0)).map (fun t => i + d * t)).map
            (fun j => -(Ramsey.xId N K.length j c : Int)) =
          (((List.range (K.getD (c - 1) 0)).map (fun t => i + d * t)).map
            (fun j => Ramsey.xId N K.length j c)).map (fun (y : Nat) => -(y : Int)) := by
        simp [List.map_map]
      rw [e, clause_neg_holds α _ (hlits c i d hc hi hN)] at this
      obtain ⟨y, hy, hα⟩ := this
      simp only [List.mem_map, List.mem_range] at hy
      obtain ⟨j, ⟨t, ht, rfl⟩, rfl⟩ := hy
      exact ⟨t, ht, hα⟩
  · rintro ⟨ha, hb⟩ con (⟨i, hi, rfl⟩ | ⟨c, hc, ap, hap, rfl⟩)
    · exact (hcard i ⟨hi.1, by omega⟩).2 (ha i ⟨hi.1, by omega⟩)
    · have hc' : 1 ≤ c ∧ c ≤ K.length := ⟨hc.1, by omega⟩
      obtain ⟨i, d, hi, hd, hN, rfl⟩ := (mem_apGenerator (hKc c hc') _).1 hap
      obtain ⟨t, ht, hα⟩ := hb c hc' i d hi hd hN
      simp only [Con.holds]
      have e : ((List.range (K.getD (c - 1) 0)).map (fun t => i + d * t)).map
            (fun j => -(Ramsey.xId N K.length j c : Int)) =
          (((List.range (K.getD (c - 1) 0)).map (fun t => i + d * t)).map
            (fun j => Ramsey.xId N K.length j c)).map (fun (y : Nat) => -(y : Int)) := by
        simp [List.map_map]
      rw [e, clause_neg_holds α _ (hlits c i d hc' hi hN)]
      exact ⟨_, List.mem_map.2 ⟨_, List.mem_map.2 ⟨t, List.mem_range.2 ht, rfl⟩, rfl⟩, hα⟩

theorem vdwMulti_wf (N : Nat) (K : List Nat) (hK : ∀ x ∈ K, 1 ≤ x) :
    (⟨N * K.length, Ramsey.vdwMultiCons N K⟩ : Formula).WF := by
  intro con hcon l hl
  simp only [Ramsey.vdwMultiCons, List.mem_append, List.mem_map, List.mem_flatMap, mem_rangeN] at hcon
  rcases hcon with ⟨i, hi, rfl⟩ | ⟨c, hc, ap, hap, rfl⟩
  · simp only [Con.lits, List.mem_map, mem_rangeN] at hl
    obtain ⟨c, hc, rfl⟩ := hl
    have := xId_range (N := N) (C := K.length) (i := i) (c := c) ⟨hi.1, by omega⟩ ⟨hc.1, by omega⟩
    simp only [Int.natAbs_natCast]; omega
  · have hc' : 1 ≤ c ∧ c ≤ K.length := ⟨hc.1, by omega⟩
    have hKc : 1 ≤ K.getD (c - 1) 0 := by
      have hlt : c - 1 < K.length := by omega
      exact hK _ (getD_mem hlt)
    obtain ⟨i, d, hi, hd, hN, rfl⟩ := (mem_apGenerator hKc _).1 hap
    simp only [Con.lits, List.mem_map] at hl
    obtain ⟨j, hj, rfl⟩ := hl
    have := xId_range (N := N) (C := K.length) (ap_elems hi hN j (List.mem_map.2 hj)) hc'
    simp only [Int.natAbs_neg, Int.natAbs_natCast]; omega

end Cnfgen.FamRamsey
