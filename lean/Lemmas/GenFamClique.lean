/-
Lemmas for the translated `CliqueFormula`: `to_dict()` of a unary mapping and its lookups, `force_nondecreasing_mapping`,
`non_edges`.
-/
import Lemmas.GenFamRphp
import Lemmas.GenWords
import Lemmas.GraphComplete
import Lemmas.PyFold
import CnfgenModel.Fam.Subgraph
set_option linter.unusedSimpArgs false
namespace Cnfgen.GenFam
open Cnfgen Cnfgen.Vars Cnfgen.PyGen Cnfgen.GenVars Cnfgen.PyF Cnfgen.C11 Cnfgen.Fam

/-- looking a key up in a dictionary built by a comprehension whose values are a function of the key -/
theorem lookup_foldl_dictSet {κ ν : Type} [BEq κ] [LawfulBEq κ] (l : List (κ × ν)) (d : List (κ × ν)) (k : κ) (v : ν)
    (hval : ∀ p ∈ l, p.1 = k → p.2 = v) (hex : (∃ p ∈ l, p.1 = k) ∨ List.lookup k d = some v) :
    List.lookup k (l.foldl (fun d kv => Py.dictSet d kv.1 kv.2) d) = some v := by
  induction l generalizing d with
  | nil =>
    rcases hex with ⟨p, hp, _⟩ | h
    · simp at hp
    · simpa using h
  | cons q l ih =>
    rw [List.foldl_cons]
    apply ih _ (fun p hp => hval p (by simp [hp]))
    by_cases hq : q.1 = k
    · right
      rw [GenVars.lookup_dictSet, hq]
      simp [hval q (by simp) hq]
    · rcases hex with ⟨p, hp, hpk⟩ | h
      · rcases List.mem_cons.1 hp with rfl | hp
        · exact absurd hpk hq
        · exact Or.inl ⟨p, hp, hpk⟩
      · right
        rw [GenVars.lookup_dictSet]
        have : ¬ ((k == q.1) = true) := by
          intro hc; exact hq (by simpa using hc : k = q.1).symm
        rw [if_neg this]; exact h

theorem dictGet_dictOfPairs {κ ν : Type} [BEq κ] [LawfulBEq κ] (l : List (κ × ν)) (k : κ) (v : ν)
    (hval : ∀ p ∈ l, p.1 = k → p.2 = v) (hex : ∃ p ∈ l, p.1 = k) :
    Py.dictGet (Py.dictOfPairs l) k = Except.ok v := by
  simp only [Py.dictGet, Py.dictOfPairs, lookup_foldl_dictSet l [] k v hval (Or.inl hex)]

/-- the dictionary `f.to_dict()` of a unary mapping -/
def unaryDict (nv : Nat) (G : BipG) : List ((Int × Int) × Int) :=
  Py.dictOfPairs (G.edges.map (fun p => (((p.1 : Int), (p.2 : Int)), ((bipId G (nv + 1) p.1 p.2 : Nat) : Int))))

theorem unary_pairs_ids (nv : Nat) {G : BipG} (h : G.WF) (l : List (Nat × Nat)) (hl : ∀ p ∈ l, p ∈ G.edgeset) :
    List.mapM (fun (t : Int × Int) => (UnaryMappingVariables.index_to_lit (unarySelf nv G) [t.1, t.2]) >>=
        fun r => Except.ok (t, r)) (intPairs l) =
      Except.ok (l.map (fun p => (((p.1 : Int), (p.2 : Int)), ((bipId G (nv + 1) p.1 p.2 : Nat) : Int)))) := by
  induction l with
  | nil => rfl
  | cons p ps ih =>
    have hp : (p.1, p.2) ∈ G.edgeset := hl p (by simp)
    simp only [intPairs, List.map_cons, List.mapM_cons, gen_unary_index_to_lit_eq_model nv h hp,
      Py.ok_bind] at ih ⊢
    rw [ih (fun q hq => hl q (by simp [hq]))]
    rfl

theorem to_dict_unary_eq (nv : Nat) {G : BipG} (h : G.WF) :
    UnaryMappingVariables.to_dict (unarySelf nv G) = Except.ok (unaryDict nv G) := by
  unfold UnaryMappingVariables.to_dict
  rw [gen_unary_indices_eq_model]
  simp only [bipIndices, Py.map_ok, Py.ok_bind]
  rw [unary_pairs_ids nv h G.edges (fun p hp => (BipG.mem_edges h p.1 p.2).1 hp), Py.ok_bind]
  rfl

theorem unaryDict_get (nv : Nat) {G : BipG} (h : G.WF) (u v : Nat) (he : (u, v) ∈ G.edgeset) :
    Py.dictGet (unaryDict nv G) ((u : Int), (v : Int)) = Except.ok ((bipId G (nv + 1) u v : Nat) : Int) := by
  apply dictGet_dictOfPairs
  · intro p hp hk
    simp only [List.mem_map] at hp
    obtain ⟨q, _, rfl⟩ := hp
    simp only [Prod.mk.injEq, Int.natCast_inj] at hk
    rw [hk.1, hk.2]
  · exact ⟨_, List.mem_map.2 ⟨(u, v), (BipG.mem_edges h u v).2 he, rfl⟩, rfl⟩

theorem flatMap_ite_single {α β : Type} (l : List α) (p : α → Prop) [DecidablePred p] (f : α → β) :
    l.flatMap (fun a => if p a then [f a] else []) = l.filterMap (fun a => if p a then some (f a) else none) := by
  induction l with
  | nil => rfl
  | cons a l ih => by_cases h : p a <;> simp [h, ih]

theorem pairs_eq_pairs2 {α : Type} (l : List α) : pairs l = G2.pairs2 l := by
  induction l with
  | nil => rfl
  | cons x xs ih => simp [pairs, G2.pairs2, ih]

/-- `force_nondecreasing_mapping(f)` on a complete unary mapping: the model's `forceNondecreasing` -/
theorem force_nondecreasing_unary_complete (s : FState) (nv k N : Nat) :
    VariablesManager.force_nondecreasing_mapping_unary s (unarySelf nv (BipG.complete k N)) =
      Except.ok { s with cons := s.cons ++ G2.forceNondecreasing (nv + 1) k N } := by
  have hw := BipG.wf_complete k N
  unfold VariablesManager.force_nondecreasing_mapping_unary
  rw [to_dict_unary_eq nv hw, Py.ok_bind, gen_unary_domain_none, Py.ok_bind, range'_eq_idx, combos2_eq_pairs, ints,
    pairs_map]
  have hl : (BipG.complete k N).l = k := rfl
  rw [hl, foldlM_pushAll _ _ (fun (x : Int × Int) =>
    (G2.verts N).flatMap (fun v1 => (G2.verts N).filterMap (fun v2 =>
      if v1 > v2 then some (Con.clause [-(G2.mlit (nv + 1) N x.1.toNat v1), -(G2.mlit (nv + 1) N x.2.toNat v2)]) else none)))]
  · simp [G2.forceNondecreasing, pairs_eq_pairs2, List.flatMap_map, G2.verts, idx]
  · intro s x hx
    simp only [List.mem_map] at hx
    obtain ⟨p, hp, rfl⟩ := hx
    have hp' := mem_of_mem_pairs' hp
    have h1 := mem_idx.1 hp'.1
    have h2 := mem_idx.1 hp'.2
    simp only [Int.ofNat_eq_natCast, gen_unary_range_row nv _ (show 1 ≤ p.1 ∧ p.1 ≤ (BipG.complete k N).l from h1),
      gen_unary_range_row nv _ (show 1 ≤ p.2 ∧ p.2 ≤ (BipG.complete k N).l from h2), Py.ok_bind,
      BipG.complete_rnbrs h1, BipG.complete_rnbrs h2, oneTo_eq_idx, Int.toNat_natCast]
    rw [foldlM_pushAll _ _ (fun (y : Int × Int) =>
      if y.1 > y.2 then [Con.clause [-(G2.mlit (nv + 1) N p.1 y.1.toNat), -(G2.mlit (nv + 1) N p.2 y.2.toNat)]] else [])]
    · simp only [Py.ok_bind, Py.product2, ints, List.flatMap_map, List.map_map, Function.comp_def, Int.toNat_natCast,
        Int.ofNat_eq_natCast, G2.verts, idx]
      congr 3
      rw [List.flatMap_assoc]
      apply List.flatMap_congr
      intro v1 _
      rw [← flatMap_ite_single, List.flatMap_map]
      apply List.flatMap_congr
      intro v2 _
      by_cases hgt : v1 > v2
      · have : ((v1 : Int) > (v2 : Int)) := by omega
        simp [hgt, this]
      · have : ¬ ((v1 : Int) > (v2 : Int)) := by omega
        simp [hgt, this]
    · intro s y hy
      simp only [Py.product2, ints, List.mem_flatMap, List.mem_map] at hy
      obtain ⟨a', ⟨a, ha, rfl⟩, b', ⟨b, hb, rfl⟩, rfl⟩ := hy
      have ha' := mem_idx.1 ha
      have hb' := mem_idx.1 hb
      by_cases hgt : (Int.ofNat a) > (Int.ofNat b)
      · have he1 : (p.1, a) ∈ (BipG.complete k N).edgeset := BipG.mem_complete_edgeset.2 ⟨h1.1, h1.2, ha'.1, ha'.2⟩
        have he2 : (p.2, b) ∈ (BipG.complete k N).edgeset := BipG.mem_complete_edgeset.2 ⟨h2.1, h2.2, hb'.1, hb'.2⟩
        have hgt' : ((a : Int) > (b : Int)) := hgt
        simp only [Int.ofNat_eq_natCast, hgt', if_true, unaryDict_get nv hw p.1 a he1, unaryDict_get nv hw p.2 b he2,
          Py.ok_bind, add_clause_nocheck, bipId_complete_start (nv + 1) k N p.1 a h1 ha',
          bipId_complete_start (nv + 1) k N p.2 b h2 hb', Int.toNat_natCast, G2.mlit, push]
      · have hgt' : ¬ ((a : Int) > (b : Int)) := hgt
        simp only [Int.ofNat_eq_natCast, hgt', if_false, Py.ok_bind, Int.toNat_natCast]
        cases s; simp

/-! ### `non_edges(G)` -/

theorem foldl_cond_append {α : Type} (c : α → Bool) (l : List α) (out : List α) :
    List.foldl (fun (out : List α) (v : α) => if c v = true then out ++ [v] else out) out l = out ++ l.filter c := by
  induction l generalizing out with
  | nil => simp
  | cons a l ih =>
    rw [List.foldl_cons, ih]
    cases h : c a <;> simp [h]

theorem foldl_foldl_cond {α γ : Type} (R : α → List γ) (c : α → γ → Bool) (L : List α) (out : List (α × γ)) :
    List.foldl (fun (out : List (α × γ)) (u : α) =>
        List.foldl (fun (out : List (α × γ)) (v : γ) => if c u v = true then out ++ [(u, v)] else out) out (R u)) out L =
      out ++ L.flatMap (fun u => ((R u).filter (c u)).map (fun v => (u, v))) := by
  induction L generalizing out with
  | nil => simp
  | cons u L ih =>
    rw [List.foldl_cons, ih]
    have : List.foldl (fun (out : List (α × γ)) (v : γ) => if c u v = true then out ++ [(u, v)] else out) out (R u) =
        out ++ ((R u).filter (c u)).map (fun v => (u, v)) := by
      generalize R u = r
      induction r generalizing out with
      | nil => simp
      | cons a r ihr =>
        rw [List.foldl_cons, ihr]
        cases h : c u a <;> simp [h]
    rw [this]
    simp

/-- `pairs2` of a range, as two nested ranges -/
theorem pairs2_rangeN (a b : Nat) :
    G2.pairs2 (rangeN a b) = (rangeN a b).flatMap (fun u => (rangeN (u + 1) b).map (fun v => (u, v))) := by
  generalize hn : b - a = n
  induction n generalizing a with
  | zero =>
    have : rangeN a b = [] := by simp [rangeN, hn]
    simp [this, G2.pairs2]
  | succ n ih =>
    have hr : rangeN a b = a :: rangeN (a + 1) b := by
      simp only [rangeN, hn, show b - (a + 1) = n by omega, List.range_succ_eq_map, List.map_cons, List.map_map,
        Nat.zero_add, Function.comp_def]
      congr 1
      apply List.map_congr_left; intro x _; omega
    rw [hr, G2.pairs2, ih (a + 1) (by omega), List.flatMap_cons]

theorem rangeI_nat (a b : Nat) : Py.Range.toList ⟨(a : Int), (b : Int)⟩ = ints (rangeN a b) := range_nat_toList a b

/-- **`non_edges(G)` of the source is the model's `nonEdges`** (pairs `u < v` that are not edges, in order) -/
theorem gen_non_edges_eq_model (G : SimpleG) : non_edges (absGraph G) = intPairs (G2.nonEdges G) := by
  unfold non_edges
  have hn : (absGraph G).order = (G.n : Int) := rfl
  simp only [hn]
  have h1 : Py.Range.toList ⟨(1 : Int), (G.n : Int)⟩ = ints (rangeN 1 G.n) := rangeI_nat 1 G.n
  rw [h1]
  have hbody : ∀ (out : List (Int × Int)) (u : Int),
      List.foldl (fun (out : List (Int × Int)) (v : Int) =>
        (if (¬ (((absGraph G).has_edge u v) = true)) then out ++ [(u, v)] else out)) out
        (Py.Range.toList (Py.Range.mk (u + (1 : Int)) ((G.n : Int) + (1 : Int)))) =
      List.foldl (fun (out : List (Int × Int)) (v : Int) =>
        if (!(absGraph G).has_edge u v) = true then out ++ [(u, v)] else out) out
        (Py.Range.toList (Py.Range.mk (u + (1 : Int)) ((G.n : Int) + (1 : Int)))) := by
    intro out u
    apply List.foldl_ext
    intro o v _
    cases (absGraph G).has_edge u v <;> simp
  rw [Py.foldl_ext _ _ hbody]
  rw [foldl_foldl_cond (fun (u : Int) => Py.Range.toList (Py.Range.mk (u + (1 : Int)) ((G.n : Int) + (1 : Int))))
    (fun u v => !(absGraph G).has_edge u v)]
  simp only [List.nil_append, G2.nonEdges, G2.verts]
  rw [pairs2_rangeN, ints, List.flatMap_map]
  -- the outer range of the source stops at N - 1: the last vertex contributes nothing
  have hlast : (rangeN 1 (G.n + 1)).flatMap (fun u => (rangeN (u + 1) (G.n + 1)).map (fun v => (u, v))) =
      (rangeN 1 G.n).flatMap (fun u => (rangeN (u + 1) (G.n + 1)).map (fun v => (u, v))) := by
    rcases Nat.eq_zero_or_pos G.n with h0 | hpos
    · simp [h0, rangeN]
    · have : rangeN 1 (G.n + 1) = rangeN 1 G.n ++ [G.n] := by
        simp only [rangeN, show G.n + 1 - 1 = (G.n - 1) + 1 by omega, List.range_succ, List.map_append,
          List.map_cons, List.map_nil]
        congr 2; omega
      rw [this, List.flatMap_append]
      simp [rangeN]
  rw [hlast, List.filter_flatMap, intPairs, List.map_flatMap]
  apply List.flatMap_congr
  intro u hu
  have e : ((Int.ofNat u) + 1 : Int) = ((u + 1 : Nat) : Int) := by simp
  have e2 : ((G.n : Int) + 1) = ((G.n + 1 : Nat) : Int) := by simp
  rw [e, e2, rangeI_nat, ints, List.filter_map, List.map_map, List.filter_map, List.map_map]
  congr 1

end Cnfgen.GenFam
