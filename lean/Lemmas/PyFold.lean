/-
Generic facts about the loops the translator emits (`for … : out.append(…)`, nested) and about `range`.
-/
import CnfgenModel.Core.Py
import Lemmas.PyRt
import Mathlib.Tactic.Linarith
namespace Cnfgen
namespace Py

/-- `for x in l: out.append(f(x))` -/
theorem foldl_append_map {α β : Type} (f : α → β) (l : List α) (out : List β) :
    List.foldl (fun (out : List β) (x : α) => out ++ [f x]) out l = out ++ l.map f := by
  induction l generalizing out with
  | nil => simp
  | cons x xs ih => simp [ih]

/-- `for d in ds: for i in L(d): out.append(g(d, i))` -/
theorem foldl_foldl_append {α γ β : Type} (L : α → List γ) (g : α → γ → β) (ds : List α) (out : List β) :
    List.foldl (fun (out : List β) (d : α) => List.foldl (fun (out : List β) (i : γ) => out ++ [g d i]) out (L d)) out ds =
      out ++ ds.flatMap (fun d => (L d).map (g d)) := by
  induction ds generalizing out with
  | nil => simp
  | cons d ds ih =>
    rw [List.foldl_cons, foldl_append_map, ih, List.flatMap_cons, List.append_assoc]

/-- `range(1, z + 1)` for any integer `z` (empty when `z ≤ 0`) -/
theorem range_one_toList (z : Int) :
    Py.Range.toList ⟨1, z + 1⟩ = (rangeN 1 (z.toNat + 1)).map Int.ofNat := by
  simp only [Py.Range.toList, rangeI, rangeN, List.map_map]
  have : (z + 1 - 1).toNat = z.toNat + 1 - 1 := by omega
  rw [this]
  apply List.map_congr_left
  intro a _
  simp; omega

/-- `range(k)` -/
theorem range_zero_toList (k : Nat) : Py.Range.toList ⟨0, (k : Int)⟩ = (List.range k).map Int.ofNat := by
  simp only [Py.Range.toList, rangeI]
  have : ((k : Int) - 0).toNat = k := by omega
  rw [this]
  apply List.map_congr_left
  intro a _
  simp

/-- `a // 2` on a natural -/
theorem floordiv_two (a : Nat) : Py.floordiv (a : Int) 2 = .ok ((a / 2 : Nat) : Int) := by
  have := Py.floordiv_nat a 2 (by omega)
  simpa using this

/-- `-1 // b` for a positive `b` -/
theorem floordiv_neg_one (b : Nat) (hb : 0 < b) : Py.floordiv (-1) (b : Int) = .ok (-1) := by
  have hb' : (0 : Int) < (b : Int) := by omega
  have hne : ¬ ((b : Int) = 0) := by omega
  simp only [Py.floordiv, hne, if_false]
  congr 1
  rw [Int.fdiv_eq_ediv_of_nonneg _ (le_of_lt hb')]
  have := Int.ediv_neg_of_neg_of_pos (a := -1) (b := (b : Int)) (by omega) hb'
  have h := Int.mul_ediv_add_emod (-1) (b : Int)
  have h2 := Int.emod_nonneg (-1) hne
  have h3 := Int.emod_lt_of_pos (-1) hb'
  nlinarith

end Py
end Cnfgen
