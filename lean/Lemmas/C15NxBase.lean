/-
C15, networkx-backed constructions: facts about the operational model of `networkx.Graph`
(`Nx.NxG`: insertion-ordered adjacency, `G.edges()`, relabelling copy) and about cnfgen's
`Graph.from_networkx` on it (`Nx.fromNetworkx`): which `SimpleG` object comes out, in terms of the
UNORDERED edge relation `NxG.E` of the networkx graph.  The order of dict iteration is part of the
model (and compared with the installed networkx); none of the statements here depends on it.
-/
import Lemmas.GraphInv
import CnfgenModel.Graph.NxBuild
import Mathlib.Data.List.Nodup
namespace Cnfgen.Nx
open Cnfgen

/-! ### dict keys -/
theorem mem_dedup {l : List Nat} {x : Nat} : x ∈ dedup l ↔ x ∈ l := by
  induction l with
  | nil => simp [dedup]
  | cons y ys ih =>
    simp only [dedup, List.mem_cons, List.mem_filter, ih]
    constructor
    · rintro (h | ⟨h, _⟩)
      · exact Or.inl h
      · exact Or.inr h
    · rintro (h | h)
      · exact Or.inl h
      · by_cases hxy : x = y
        · exact Or.inl hxy
        · exact Or.inr ⟨h, by simpa using hxy⟩

theorem nodup_dedup (l : List Nat) : (dedup l).Nodup := by
  induction l with
  | nil => simp [dedup]
  | cons y ys ih =>
    simp only [dedup, List.nodup_cons, List.mem_filter]
    exact ⟨by simp, ih.filter _⟩

namespace NxG

/-- the unordered edge relation of the networkx graph -/
def E (G : NxG) (u v : Nat) : Prop := (u, v) ∈ G.tedges ∨ (v, u) ∈ G.tedges

instance (G : NxG) (u v : Nat) : Decidable (G.E u v) := by unfold E; exact inferInstance

theorem E_comm {G : NxG} {u v : Nat} : G.E u v ↔ G.E v u := by unfold E; exact Or.comm

/-- every edge joins two nodes of the graph -/
def WF (G : NxG) : Prop := ∀ e ∈ G.tedges, e.1 < G.n ∧ e.2 < G.n

def Loopless (G : NxG) : Prop := ∀ e ∈ G.tedges, e.1 ≠ e.2

/-- every `add_edge` call was made as `(smaller, larger)` -/
def Oriented (G : NxG) : Prop := ∀ e ∈ G.tedges, e.1 < e.2

theorem Oriented.loopless {G : NxG} (h : G.Oriented) : G.Loopless := fun e he => Nat.ne_of_lt (h e he)

theorem WF.of_E {G : NxG} (h : G.WF) {u v : Nat} (hE : G.E u v) : u < G.n ∧ v < G.n := by
  rcases hE with hE | hE
  · exact h _ hE
  · exact (h _ hE).symm

theorem Loopless.of_E {G : NxG} (h : G.Loopless) {u v : Nat} (hE : G.E u v) : u ≠ v := by
  rcases hE with hE | hE
  · exact h _ hE
  · exact (h _ hE).symm

theorem mem_adj {G : NxG} {w x : Nat} : x ∈ G.adj w ↔ G.E w x := by
  simp only [adj, mem_dedup, List.mem_filterMap, otherEnd, E]
  constructor
  · rintro ⟨⟨a, b⟩, he, h⟩
    simp only at h
    split at h
    · rename_i h1; cases h; subst h1; exact Or.inl he
    · split at h
      · rename_i h1 h2; cases h; subst h2; exact Or.inr he
      · cases h
  · rintro (h | h)
    · exact ⟨(w, x), h, by simp⟩
    · refine ⟨(x, w), h, ?_⟩
      by_cases hxw : x = w
      · subst hxw; simp
      · simp [hxw]

theorem nodup_adj (G : NxG) (w : Nat) : (G.adj w).Nodup := nodup_dedup _

/-- `G.edges()` reports every unordered edge once, from its smaller end -/
theorem mem_edges {G : NxG} {u v : Nat} : (u, v) ∈ G.edges ↔ u < G.n ∧ u ≤ v ∧ G.E u v := by
  simp only [edges, List.mem_flatMap, List.mem_range, List.mem_map, List.mem_filter, mem_adj,
    decide_eq_true_eq, Prod.mk.injEq]
  constructor
  · rintro ⟨w, hw, x, ⟨hE, hle⟩, rfl, rfl⟩; exact ⟨hw, hle, hE⟩
  · rintro ⟨h1, h2, h3⟩; exact ⟨u, h1, v, ⟨h3, h2⟩, rfl, rfl⟩

theorem mem_edges' {G : NxG} {e : Nat × Nat} : e ∈ G.edges ↔ e.1 < G.n ∧ e.1 ≤ e.2 ∧ G.E e.1 e.2 := by
  obtain ⟨u, v⟩ := e; exact mem_edges

theorem nodup_edges (G : NxG) : G.edges.Nodup := by
  unfold edges
  rw [List.nodup_flatMap]
  constructor
  · intro w _
    exact ((nodup_adj G w).filter _).map (fun a b h => by simpa using h)
  · apply List.Pairwise.imp _ (List.nodup_iff_pairwise_ne.1 List.nodup_range)
    intro a b hab
    simp only [Function.onFun]
    intro e h1 h2
    simp only [List.mem_map, List.mem_filter] at h1 h2
    obtain ⟨x, _, rfl⟩ := h1
    obtain ⟨y, _, hy⟩ := h2
    simp only [Prod.mk.injEq] at hy
    exact hab hy.1.symm

/-! ### relabelling copy -/
theorem relabelCopy_n (G : NxG) : G.relabelCopy.n = G.n := rfl

theorem relabelCopy_E {G : NxG} (h : G.WF) {u v : Nat} : G.relabelCopy.E u v ↔ G.E u v := by
  simp only [E, relabelCopy, mem_edges]
  constructor
  · rintro (⟨_, _, hE⟩ | ⟨_, _, hE⟩)
    · exact hE
    · exact E_comm.1 hE
  · intro hE
    have hr := h.of_E hE
    rcases Nat.le_total u v with hle | hle
    · exact Or.inl ⟨hr.1, hle, hE⟩
    · exact Or.inr ⟨hr.2, hle, E_comm.1 hE⟩

theorem relabelCopy_WF {G : NxG} (h : G.WF) : G.relabelCopy.WF := by
  intro e he
  have := mem_edges'.1 he
  exact h.of_E this.2.2

theorem relabelCopy_oriented {G : NxG} (h : G.Loopless) : G.relabelCopy.Oriented := by
  intro e he
  have := mem_edges'.1 he
  have hne := h.of_E this.2.2
  omega

theorem relabelCopy_nodup (G : NxG) : G.relabelCopy.tedges.Nodup := nodup_edges G

/-- a graph built by distinct, oriented `add_edge` calls: `G.edges()` is a rearrangement of the calls -/
theorem edges_perm {G : NxG} (hW : G.WF) (hO : G.Oriented) (hN : G.tedges.Nodup) : G.edges.Perm G.tedges := by
  rw [List.perm_ext_iff_of_nodup (nodup_edges G) hN]
  intro e
  rw [mem_edges']
  constructor
  · rintro ⟨_, hle, hE | hE⟩
    · exact hE
    · have := hO _ hE; simp only at this; omega
  · intro he
    exact ⟨(hW e he).1, Nat.le_of_lt (hO e he), Or.inl he⟩

theorem length_edges {G : NxG} (hW : G.WF) (hO : G.Oriented) (hN : G.tedges.Nodup) :
    G.edges.length = G.tedges.length := (edges_perm hW hO hN).length_eq

/-- the number of edges `G.edges()` reports depends only on the unordered edge relation -/
theorem edges_perm_congr {G H : NxG} (hn : G.n = H.n) (hE : ∀ u v, G.E u v ↔ H.E u v) : G.edges.Perm H.edges := by
  rw [List.perm_ext_iff_of_nodup (nodup_edges G) (nodup_edges H)]
  intro e
  rw [mem_edges', mem_edges', hn, hE]

theorem edges_length_congr {G H : NxG} (hn : G.n = H.n) (hE : ∀ u v, G.E u v ↔ H.E u v) :
    G.edges.length = H.edges.length := (edges_perm_congr hn hE).length_eq

/-- `(min, max)` of a pair -/
def norm (e : Nat × Nat) : Nat × Nat := (min e.1 e.2, max e.1 e.2)

theorem mem_map_norm {l : List (Nat × Nat)} {u v : Nat} (huv : u ≤ v) :
    (u, v) ∈ l.map norm ↔ (u, v) ∈ l ∨ (v, u) ∈ l := by
  simp only [List.mem_map, norm, Prod.mk.injEq]
  constructor
  · rintro ⟨⟨a, b⟩, he, h1, h2⟩
    simp only at h1 h2
    rcases Nat.le_total a b with hab | hab
    · rw [Nat.min_eq_left hab] at h1; rw [Nat.max_eq_right hab] at h2
      subst h1 h2; exact Or.inl he
    · rw [Nat.min_eq_right hab] at h1; rw [Nat.max_eq_left hab] at h2
      subst h1 h2; exact Or.inr he
  · rintro (h | h)
    · exact ⟨(u, v), h, Nat.min_eq_left huv, Nat.max_eq_right huv⟩
    · exact ⟨(v, u), h, Nat.min_eq_right huv, Nat.max_eq_left huv⟩

/-- the same graph with every call made as `(smaller, larger)` -/
def normalized (G : NxG) : NxG := ⟨G.n, G.tedges.map norm⟩

/-- distinct unordered loop-free `add_edge` calls: `G.edges()` reports as many edges as calls were made -/
theorem length_edges_of_norm {G : NxG} (hW : G.WF) (hL : G.Loopless) (hN : (G.tedges.map norm).Nodup) :
    G.edges.length = G.tedges.length := by
  have hE : ∀ u v, G.E u v ↔ (normalized G).E u v := by
    intro u v
    show (_ ∨ _) ↔ ((u, v) ∈ G.tedges.map norm ∨ (v, u) ∈ G.tedges.map norm)
    rcases Nat.lt_trichotomy u v with h | h | h
    · rw [mem_map_norm (Nat.le_of_lt h)]
      constructor
      · intro hx; exact Or.inl hx
      · rintro (hx | hx)
        · exact hx
        · simp only [List.mem_map, norm, Prod.mk.injEq] at hx
          obtain ⟨e, _, h1, h2⟩ := hx; omega
    · subst h
      constructor
      · intro hx; exact absurd rfl (hL.of_E hx)
      · rintro (hx | hx) <;>
        · simp only [List.mem_map, norm, Prod.mk.injEq] at hx
          obtain ⟨e, he, h1, h2⟩ := hx
          have := hL e he; omega
    · rw [mem_map_norm (Nat.le_of_lt h)]
      constructor
      · intro hx; exact Or.inr (Or.comm.1 hx)
      · rintro (hx | hx)
        · simp only [List.mem_map, norm, Prod.mk.injEq] at hx
          obtain ⟨e, _, h1, h2⟩ := hx; omega
        · exact Or.comm.1 hx
  have hHW : (normalized G).WF := by
    intro e he
    simp only [normalized, List.mem_map, norm] at he
    obtain ⟨f, hf, rfl⟩ := he
    have := hW f hf
    show min f.1 f.2 < G.n ∧ max f.1 f.2 < G.n
    omega
  have hHO : (normalized G).Oriented := by
    intro e he
    simp only [normalized, List.mem_map, norm] at he
    obtain ⟨f, hf, rfl⟩ := he
    have := hL f hf
    show min f.1 f.2 < max f.1 f.2
    omega
  have h1 := edges_length_congr (G := G) (H := normalized G) rfl hE
  rw [h1, length_edges hHW hHO hN]
  simp [normalized]

theorem length_edges_relabelCopy {G : NxG} (hW : G.WF) (hL : G.Loopless) :
    G.relabelCopy.edges.length = G.edges.length :=
  length_edges (relabelCopy_WF hW) (relabelCopy_oriented hL) (relabelCopy_nodup G)

end NxG

/-! ### `Graph(n)` followed by `add_edge` calls -/

/-- in-range calls `add_edge(u, v)` with `u < v` on `Graph(n)`: the object, its invariant, its edges -/
theorem ofEdges_spec (n : Nat) (es : List (Nat × Nat))
    (hin : ∀ e ∈ es, 1 ≤ e.1 ∧ e.1 < e.2 ∧ e.2 ≤ n) :
    ∃ G, SimpleG.ofEdges n es = .ok G ∧ G.n = n ∧ SimpleG.Inv G ∧
      (∀ u v, (u, v) ∈ G.edgeset ↔ (u, v) ∈ es ∨ (v, u) ∈ es) ∧
      (es.Nodup → G.m = es.length) := by
  suffices H : ∀ (es : List (Nat × Nat)) (G0 : SimpleG), SimpleG.Inv G0 → G0.n = n →
      (∀ e ∈ es, 1 ≤ e.1 ∧ e.1 < e.2 ∧ e.2 ≤ n) →
      ∃ G, G0.addEdgesFrom (es.map (fun e => ((e.1 : Int), (e.2 : Int)))) = .ok G ∧ G.n = n ∧ SimpleG.Inv G ∧
        (∀ u v, (u, v) ∈ G.edgeset ↔ (u, v) ∈ G0.edgeset ∨ (u, v) ∈ es ∨ (v, u) ∈ es) ∧
        (es.Nodup → (∀ e ∈ es, e ∉ G0.edgeset) → G.m = G0.m + es.length) by
    obtain ⟨G, h1, h2, h3, h4, h5⟩ := H es (SimpleG.init n) (SimpleG.inv_init n) rfl hin
    refine ⟨G, h1, h2, h3, ?_, ?_⟩
    · intro u v; rw [h4]; simp [SimpleG.init]
    · intro hnd; rw [h5 hnd (by simp [SimpleG.init])]; simp [SimpleG.init]
  intro es
  induction es with
  | nil =>
    intro G0 hI hn _
    exact ⟨G0, rfl, hn, hI, by simp, by simp⟩
  | cons e es ih =>
    intro G0 hI hn hin
    have he := hin e (by simp)
    have hv : SimpleG.Valid G0.n (e.1 : Int) (e.2 : Int) := by
      unfold SimpleG.Valid; omega
    simp only [List.map_cons, SimpleG.addEdgesFrom, List.foldlM_cons]
    rcases SimpleG.addEdge_cases G0 (e.1 : Int) (e.2 : Int) with ⟨hnv, _⟩ | ⟨_, hmem, h1⟩ | ⟨_, hnmem, h1⟩
    · exact absurd hv hnv
    · -- already present
      rw [h1]
      simp only [Int.toNat_natCast] at hmem
      obtain ⟨G, g1, g2, g3, g4, g5⟩ := ih G0 hI hn (fun x hx => hin x (by simp [hx]))
      refine ⟨G, g1, g2, g3, ?_, ?_⟩
      · intro u v
        rw [g4]
        simp only [List.mem_cons]
        constructor
        · rintro (h | h | h)
          · exact Or.inl h
          · exact Or.inr (Or.inl (Or.inr h))
          · exact Or.inr (Or.inr (Or.inr h))
        · rintro (h | (h | h) | (h | h))
          · exact Or.inl h
          · rw [h]; exact Or.inl hmem
          · exact Or.inr (Or.inl h)
          · have hvu : (v, u) ∈ G0.edgeset := by rw [h]; exact hmem
            exact Or.inl (hI.symm _ _ hvu)
          · exact Or.inr (Or.inr h)
      · intro _ hnew
        exact absurd hmem (hnew e (by simp))
    · rw [h1]
      simp only [Int.toNat_natCast] at hnmem h1 ⊢
      rw [Nat.min_eq_left (by omega), Nat.max_eq_right (by omega)]
      rw [Nat.min_eq_left (by omega), Nat.max_eq_right (by omega)] at h1
      have hI1 : SimpleG.Inv (SimpleG.insertNew G0 e.1 e.2) := by
        have := SimpleG.inv_addEdge hI h1; exact this
      obtain ⟨G, g1, g2, g3, g4, g5⟩ := ih (SimpleG.insertNew G0 e.1 e.2) hI1 (by simp [SimpleG.insertNew, hn])
        (fun x hx => hin x (by simp [hx]))
      refine ⟨G, g1, g2, g3, ?_, ?_⟩
      · intro u v
        rw [g4]
        simp only [SimpleG.insertNew, List.mem_cons, Prod.mk.injEq]
        constructor
        · rintro ((h | h | h) | h | h)
          · exact Or.inr (Or.inr (Or.inl (by obtain ⟨a, b⟩ := h; exact Prod.ext b a)))
          · exact Or.inr (Or.inl (Or.inl (by obtain ⟨a, b⟩ := h; exact Prod.ext a b)))
          · exact Or.inl h
          · exact Or.inr (Or.inl (Or.inr h))
          · exact Or.inr (Or.inr (Or.inr h))
        · rintro (h | (h | h) | (h | h))
          · exact Or.inl (Or.inr (Or.inr h))
          · exact Or.inl (Or.inr (Or.inl (by rw [← h]; exact ⟨rfl, rfl⟩)))
          · exact Or.inr (Or.inl h)
          · exact Or.inl (Or.inl (by rw [← h]; exact ⟨rfl, rfl⟩))
          · exact Or.inr (Or.inr h)
      · intro hnd hnew
        rw [List.nodup_cons] at hnd
        rw [g5 hnd.2 ?_]
        · simp [SimpleG.insertNew]; omega
        · intro x hx hmem
          simp only [SimpleG.insertNew, List.mem_cons] at hmem
          rcases hmem with h | h | h
          · have hxin := hin x (by simp [hx])
            have : x.1 = e.2 ∧ x.2 = e.1 := by rw [h]; exact ⟨rfl, rfl⟩
            omega
          · have hxe : x = e := by rw [h]
            exact hnd.1 (hxe ▸ hx)
          · exact hnew x (by simp [hx]) h

/-! ### `Graph.from_networkx` -/

theorem mem_fromNxCalls {G : NxG} {a b : Nat} :
    (a, b) ∈ fromNxCalls G ↔ 1 ≤ a ∧ 1 ≤ b ∧ (a - 1, b - 1) ∈ G.relabelCopy.edges := by
  simp only [fromNxCalls, List.mem_map, Prod.mk.injEq]
  constructor
  · rintro ⟨⟨u, v⟩, h, rfl, rfl⟩
    exact ⟨by omega, by omega, by simpa using h⟩
  · rintro ⟨h1, h2, h⟩
    exact ⟨(a - 1, b - 1), h, by simp only; omega, by simp only; omega⟩

theorem nodup_fromNxCalls (G : NxG) : (fromNxCalls G).Nodup := by
  unfold fromNxCalls
  apply (NxG.nodup_edges _).map
  intro a b h
  simp only [Prod.mk.injEq] at h
  exact Prod.ext (by omega) (by omega)

/-- `Graph.from_networkx` of a loop-free networkx graph: the object with exactly the edges of the
networkx graph (vertex `i+1` for the node at position `i`), satisfying the invariant of C16, its edge
counter equal to the number of edges `G.edges()` reports -/
theorem fromNetworkx_spec {G : NxG} (hW : G.WF) (hL : G.Loopless) :
    ∃ S, fromNetworkx G = .ok S ∧ S.n = G.n ∧ SimpleG.Inv S ∧
      (∀ u v, (u, v) ∈ S.edgeset ↔ 1 ≤ u ∧ 1 ≤ v ∧ G.E (u - 1) (v - 1)) ∧
      S.m = G.edges.length := by
  have hWc := NxG.relabelCopy_WF hW
  have hin : ∀ e ∈ fromNxCalls G, 1 ≤ e.1 ∧ e.1 < e.2 ∧ e.2 ≤ G.n := by
    rintro ⟨a, b⟩ he
    obtain ⟨h1, h2, h3⟩ := mem_fromNxCalls.1 he
    obtain ⟨g1, g2, g3⟩ := NxG.mem_edges.1 h3
    have hE := (NxG.relabelCopy_E hW).1 g3
    have hne := hL.of_E hE
    have hr := hW.of_E hE
    simp only at *
    omega
  obtain ⟨S, s1, s2, s3, s4, s5⟩ := ofEdges_spec G.n (fromNxCalls G) hin
  refine ⟨S, s1, s2, s3, ?_, ?_⟩
  · intro u v
    rw [s4, mem_fromNxCalls, mem_fromNxCalls, NxG.mem_edges, NxG.mem_edges]
    simp only [NxG.relabelCopy_E hW, NxG.relabelCopy_n]
    constructor
    · rintro (⟨h1, h2, _, _, hE⟩ | ⟨h1, h2, _, _, hE⟩)
      · exact ⟨h1, h2, hE⟩
      · exact ⟨h2, h1, NxG.E_comm.1 hE⟩
    · rintro ⟨h1, h2, hE⟩
      have hr := hW.of_E hE
      rcases Nat.le_total (u - 1) (v - 1) with hle | hle
      · exact Or.inl ⟨h1, h2, hr.1, hle, hE⟩
      · exact Or.inr ⟨h2, h1, hr.2, hle, NxG.E_comm.1 hE⟩
  · rw [s5 (nodup_fromNxCalls G)]
    simp only [fromNxCalls, List.length_map]
    exact NxG.length_edges_relabelCopy hW hL

/-- a self-loop in the networkx graph: `add_edge(u, u)` is refused, `from_networkx` raises `ValueError` -/
theorem fromNetworkx_loop {G : NxG} (hW : G.WF) {u : Nat} (hu : (u, u) ∈ G.tedges) :
    fromNetworkx G = .error .valueError := by
  have hmem : (u + 1, u + 1) ∈ fromNxCalls G := by
    rw [mem_fromNxCalls]
    refine ⟨by omega, by omega, ?_⟩
    simp only [Nat.add_sub_cancel]
    rw [NxG.mem_edges]
    exact ⟨(hW _ hu).1, Nat.le_refl _, (NxG.relabelCopy_E hW).2 (Or.inl hu)⟩
  unfold fromNetworkx SimpleG.ofEdges
  generalize SimpleG.init G.n = G0
  generalize fromNxCalls G = cs at hmem
  induction cs generalizing G0 with
  | nil => cases hmem
  | cons e es ih =>
    simp only [List.map_cons, SimpleG.addEdgesFrom, List.foldlM_cons]
    rcases SimpleG.addEdge_cases G0 (e.1 : Int) (e.2 : Int) with ⟨_, h1⟩ | ⟨hv, _, h1⟩ | ⟨hv, _, h1⟩
    · rw [h1]; rfl
    · rw [h1]
      rcases List.mem_cons.1 hmem with h | h
      · exfalso; unfold SimpleG.Valid at hv; rw [← h] at hv; simp at hv
      · exact ih G0 h
    · rw [h1]
      rcases List.mem_cons.1 hmem with h | h
      · exfalso; unfold SimpleG.Valid at hv; rw [← h] at hv; simp at hv
      · exact ih _ h

/-! ### degrees -/

/-- the neighbours of node `r` -/
def NxG.nbrList (G : NxG) (r : Nat) : List Nat := (List.range G.n).filter (fun s => decide (G.E r s))

/-- the degree of node `r` -/
def NxG.deg (G : NxG) (r : Nat) : Nat := (G.nbrList r).length

theorem NxG.mem_nbrList {G : NxG} {r s : Nat} : s ∈ G.nbrList r ↔ s < G.n ∧ G.E r s := by
  simp [NxG.nbrList]

theorem NxG.nodup_nbrList (G : NxG) (r : Nat) : (G.nbrList r).Nodup := List.nodup_range.filter _

theorem NxG.deg_congr {G H : NxG} (hn : G.n = H.n) (hE : ∀ u v, G.E u v ↔ H.E u v) (r : Nat) : G.deg r = H.deg r := by
  unfold NxG.deg NxG.nbrList
  rw [hn]
  congr 1
  apply List.filter_congr
  intro s _
  simp [hE]

/-- the neighbour row of vertex `r + 1` of the cnfgen object has as many entries as node `r` has
neighbours in the networkx graph -/
theorem fromNetworkx_degree {G : NxG} (hW : G.WF) {S : SimpleG} (hI : SimpleG.Inv S)
    (hmem : ∀ u v, (u, v) ∈ S.edgeset ↔ 1 ≤ u ∧ 1 ≤ v ∧ G.E (u - 1) (v - 1)) (r : Nat) :
    (S.nbrs (r + 1)).length = G.deg r := by
  unfold NxG.deg
  rw [← List.length_map (f := fun s => s + 1) (as := G.nbrList r)]
  apply List.Perm.length_eq
  rw [List.perm_ext_iff_of_nodup (hI.nbrs_nodup _)]
  · intro w
    rw [hI.mem_nbrs, hmem]
    simp only [List.mem_map, NxG.mem_nbrList, Nat.add_sub_cancel]
    constructor
    · rintro ⟨_, hw, hE⟩
      exact ⟨w - 1, ⟨(hW.of_E hE).2, hE⟩, by omega⟩
    · rintro ⟨s, ⟨_, hE⟩, rfl⟩
      exact ⟨by omega, by omega, by simpa using hE⟩
  · apply (NxG.nodup_nbrList _ _).map
    intro a b h; simp only at h; omega

end Cnfgen.Nx
