/-
C15, `complete N B`: `networkx.complete_multipartite_graph(*sizes)` as modelled in
`Nx.completeMultipartite`: two nodes are joined iff they lie in different blocks; number of edges.
-/
import Lemmas.C15NxBase
import Mathlib.Tactic.Ring
namespace Cnfgen.Nx
open Cnfgen

/-- the index of the block that contains position `r` (blocks of the given sizes, laid out in order) -/
def blockOf : List Nat → Nat → Nat
  | [], _ => 0
  | s :: ss, r => if r < s then 0 else 1 + blockOf ss (r - s)

/-- `Σ_{i<j} s_i · s_j` -/
def multiEdgeCount : List Nat → Nat
  | [] => 0
  | s :: ss => s * ss.sum + multiEdgeCount ss

theorem mem_blocks_range {st : Nat} {sizes : List Nat} {t : List Nat} (ht : t ∈ blocks st sizes) :
    ∀ x ∈ t, st ≤ x ∧ x < st + sizes.sum := by
  induction sizes generalizing st with
  | nil => simp [blocks] at ht
  | cons s ss ih =>
    simp only [blocks, List.mem_cons] at ht
    intro x hx
    simp only [List.sum_cons]
    rcases ht with rfl | ht
    · have := List.mem_range'_1.1 hx; omega
    · have := ih ht x hx; omega

theorem exists_block {st : Nat} {sizes : List Nat} {x : Nat} (h1 : st ≤ x) (h2 : x < st + sizes.sum) :
    ∃ t ∈ blocks st sizes, x ∈ t := by
  induction sizes generalizing st with
  | nil => simp at h2; omega
  | cons s ss ih =>
    simp only [List.sum_cons] at h2
    by_cases hx : x < st + s
    · exact ⟨List.range' st s, by simp [blocks], List.mem_range'_1.2 ⟨h1, hx⟩⟩
    · obtain ⟨t, ht, hxt⟩ := ih (st := st + s) (by omega) (by omega)
      exact ⟨t, by simp [blocks, ht], hxt⟩

/-- the `add_edge` calls of `complete_multipartite_graph`: `(u, v)` with `u` in an earlier block than `v` -/
theorem mem_blockPairs {st : Nat} {sizes : List Nat} {u v : Nat} :
    (u, v) ∈ blockPairs (blocks st sizes) ↔
      st ≤ u ∧ u < st + sizes.sum ∧ st ≤ v ∧ v < st + sizes.sum ∧ blockOf sizes (u - st) < blockOf sizes (v - st) := by
  induction sizes generalizing st with
  | nil => simp [blocks, blockPairs]; omega
  | cons s ss ih =>
    simp only [blocks, blockPairs, List.mem_append, List.mem_flatMap, List.mem_map, Prod.mk.injEq, List.sum_cons,
      blockOf, ih]
    constructor
    · rintro (⟨t, ht, a, ha, b, hb, rfl, rfl⟩ | ⟨h1, h2, h3, h4, h5⟩)
      · have hr := mem_blocks_range ht b hb
        have ha' := List.mem_range'_1.1 ha
        refine ⟨by omega, by omega, by omega, by omega, ?_⟩
        rw [if_pos (by omega), if_neg (by omega)]; omega
      · refine ⟨by omega, by omega, by omega, by omega, ?_⟩
        rw [if_neg (by omega), if_neg (by omega)]
        have e1 : u - st - s = u - (st + s) := by omega
        have e2 : v - st - s = v - (st + s) := by omega
        rw [e1, e2]; omega
    · rintro ⟨h1, h2, h3, h4, h5⟩
      by_cases hu : u - st < s
      · rw [if_pos hu] at h5
        by_cases hv : v - st < s
        · rw [if_pos hv] at h5; omega
        · left
          obtain ⟨t, ht, hvt⟩ := exists_block (st := st + s) (sizes := ss) (x := v) (by omega) (by omega)
          exact ⟨t, ht, u, List.mem_range'_1.2 ⟨h1, by omega⟩, v, hvt, rfl, rfl⟩
      · rw [if_neg hu] at h5
        by_cases hv : v - st < s
        · rw [if_pos hv] at h5; omega
        · rw [if_neg hv] at h5
          right
          have e1 : u - st - s = u - (st + s) := by omega
          have e2 : v - st - s = v - (st + s) := by omega
          rw [e1, e2] at h5
          exact ⟨by omega, by omega, by omega, by omega, by omega⟩

theorem blockOf_mono {sizes : List Nat} {u v : Nat} (h : u ≤ v) : blockOf sizes u ≤ blockOf sizes v := by
  induction sizes generalizing u v with
  | nil => simp [blockOf]
  | cons s ss ih =>
    simp only [blockOf]
    by_cases hu : u < s
    · rw [if_pos hu]; omega
    · rw [if_neg hu, if_neg (by omega)]
      have := ih (u := u - s) (v := v - s) (by omega); omega

theorem completeMultipartite_n (sizes : List Nat) : (completeMultipartite sizes).n = sizes.sum := rfl

/-- two nodes are joined iff they lie in different blocks -/
theorem completeMultipartite_E {sizes : List Nat} {u v : Nat} :
    (completeMultipartite sizes).E u v ↔ u < sizes.sum ∧ v < sizes.sum ∧ blockOf sizes u ≠ blockOf sizes v := by
  unfold NxG.E completeMultipartite
  simp only [mem_blockPairs, Nat.zero_le, Nat.zero_add, Nat.sub_zero, true_and]
  omega

theorem completeMultipartite_WF (sizes : List Nat) : (completeMultipartite sizes).WF := by
  intro e he
  have h : (completeMultipartite sizes).E e.1 e.2 := Or.inl he
  rw [completeMultipartite_E] at h
  exact ⟨h.1, h.2.1⟩

theorem completeMultipartite_oriented (sizes : List Nat) : (completeMultipartite sizes).Oriented := by
  rintro ⟨u, v⟩ he
  have h := (mem_blockPairs (st := 0)).1 he
  simp only [Nat.sub_zero] at h
  simp only
  by_contra hlt
  have := blockOf_mono (sizes := sizes) (u := v) (v := u) (by omega)
  omega

/-! ### counting -/

theorem mem_blockPairs_fst {bs : List (List Nat)} {e : Nat × Nat} (h : e ∈ blockPairs bs) : ∃ b ∈ bs, e.1 ∈ b := by
  induction bs with
  | nil => simp [blockPairs] at h
  | cons s rest ih =>
    simp only [blockPairs, List.mem_append, List.mem_flatMap, List.mem_map] at h
    rcases h with ⟨t, _, u, hu, v, _, rfl⟩ | h
    · exact ⟨s, by simp, hu⟩
    · obtain ⟨b, hb, h⟩ := ih h
      exact ⟨b, by simp [hb], h⟩

theorem nodup_blockPairs : ∀ bs : List (List Nat), (∀ b ∈ bs, b.Nodup) → bs.Pairwise List.Disjoint →
    (blockPairs bs).Nodup := by
  intro bs
  induction bs with
  | nil => intro _ _; simp [blockPairs]
  | cons s rest ih =>
    intro hnd hpw
    rw [List.pairwise_cons] at hpw
    simp only [blockPairs]
    apply List.Nodup.append
    · rw [List.nodup_flatMap]
      constructor
      · intro t ht
        rw [List.nodup_flatMap]
        constructor
        · intro u _
          apply (hnd t (by simp [ht])).map
          intro a b h; simp only [Prod.mk.injEq] at h; exact h.2
        · apply (hnd s (by simp)).pairwise_of_forall_ne
          intro a _ b _ hne
          simp only [Function.onFun]
          intro z hz1 hz2
          simp only [List.mem_map] at hz1 hz2
          obtain ⟨x, _, rfl⟩ := hz1
          obtain ⟨y, _, h⟩ := hz2
          simp only [Prod.mk.injEq] at h
          exact hne h.1.symm
      · apply hpw.2.imp
        intro t t' hd
        simp only [Function.onFun]
        intro z hz1 hz2
        simp only [List.mem_flatMap, List.mem_map] at hz1 hz2
        obtain ⟨_, _, x, hx, rfl⟩ := hz1
        obtain ⟨_, _, y, hy, h⟩ := hz2
        simp only [Prod.mk.injEq] at h
        rw [h.2] at hy
        exact hd hx hy
    · exact ih (fun b hb => hnd b (by simp [hb])) hpw.2
    · intro z hz1 hz2
      simp only [List.mem_flatMap, List.mem_map] at hz1
      obtain ⟨t, _, u, hu, v, _, rfl⟩ := hz1
      obtain ⟨b, hb, h⟩ := mem_blockPairs_fst hz2
      exact hpw.1 b hb hu h

theorem blocks_nodup (st : Nat) (sizes : List Nat) : ∀ b ∈ blocks st sizes, b.Nodup := by
  induction sizes generalizing st with
  | nil => simp [blocks]
  | cons s ss ih =>
    intro b hb
    simp only [blocks, List.mem_cons] at hb
    rcases hb with rfl | hb
    · exact List.nodup_range'
    · exact ih _ b hb

theorem blocks_disjoint (st : Nat) (sizes : List Nat) : (blocks st sizes).Pairwise List.Disjoint := by
  induction sizes generalizing st with
  | nil => simp [blocks]
  | cons s ss ih =>
    simp only [blocks, List.pairwise_cons]
    refine ⟨?_, ih _⟩
    intro t ht x hx1 hx2
    have h1 := List.mem_range'_1.1 hx1
    have h2 := mem_blocks_range ht x hx2
    omega

theorem sum_length_blocks (st : Nat) (sizes : List Nat) : ((blocks st sizes).map List.length).sum = sizes.sum := by
  induction sizes generalizing st with
  | nil => simp [blocks]
  | cons s ss ih => simp [blocks, ih]

theorem length_blockPairs (bs : List (List Nat)) :
    (blockPairs bs).length = multiEdgeCount (bs.map List.length) := by
  induction bs with
  | nil => simp [blockPairs, multiEdgeCount]
  | cons s rest ih =>
    simp only [blockPairs, List.length_append, ih, List.map_cons, multiEdgeCount]
    congr 1
    clear ih
    induction rest with
    | nil => simp
    | cons t ts ih2 =>
      simp only [List.flatMap_cons, List.length_append, ih2, List.map_cons, List.sum_cons, Nat.mul_add]
      congr 1
      clear ih2
      induction s with
      | nil => simp
      | cons a as ih3 => simp [List.flatMap_cons, ih3, Nat.add_mul, Nat.add_comm]

/-- the number of edges of the complete multipartite graph -/
theorem completeMultipartite_edges_length (sizes : List Nat) :
    (completeMultipartite sizes).edges.length = multiEdgeCount sizes := by
  rw [NxG.length_edges (completeMultipartite_WF sizes) (completeMultipartite_oriented sizes)
    (nodup_blockPairs _ (blocks_nodup 0 sizes) (blocks_disjoint 0 sizes))]
  show (blockPairs (blocks 0 sizes)).length = _
  rw [length_blockPairs]
  congr 1
  generalize (0 : Nat) = st
  induction sizes generalizing st with
  | nil => simp [blocks]
  | cons s ss ih => simp [blocks, ih]

/-! ### `complete N B`: `B` blocks of `N` vertices -/

theorem sum_replicate (b n : Nat) : (List.replicate b n).sum = b * n := by
  induction b with
  | zero => simp
  | succ k ih => simp [List.replicate_succ, ih, Nat.add_mul, Nat.add_comm]

theorem blockOf_replicate {b n r : Nat} (hr : r < b * n) : blockOf (List.replicate b n) r = r / n := by
  induction b generalizing r with
  | zero => simp at hr
  | succ k ih =>
    have hn : 0 < n := by
      rcases Nat.eq_zero_or_pos n with h | h
      · subst h; simp at hr
      · exact h
    simp only [List.replicate_succ, blockOf]
    by_cases h : r < n
    · rw [if_pos h, Nat.div_eq_of_lt h]
    · rw [if_neg h, ih (by rw [Nat.add_mul] at hr; omega)]
      have : r = (r - n) + n := by omega
      conv_rhs => rw [this, Nat.add_div_right _ hn]
      omega

theorem multiEdgeCount_replicate (b n : Nat) : 2 * multiEdgeCount (List.replicate b n) = n * n * (b * (b - 1)) := by
  induction b with
  | zero => simp [multiEdgeCount]
  | succ k ih =>
    simp only [List.replicate_succ, multiEdgeCount, sum_replicate, Nat.mul_add, ih, Nat.add_sub_cancel]
    cases k with
    | zero => simp
    | succ j => simp only [Nat.add_sub_cancel]; ring

end Cnfgen.Nx
