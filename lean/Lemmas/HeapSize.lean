/-
C19 heap lemmas — nothing is ever freed: every operation leaves the store at least as large as it was.
-/
import Lemmas.HeapFrame
namespace Cnfgen
namespace Heap
local notation "Addr" => Nat

theorem size_addClauseVals (s : Store) (r : Addr) (xs : List Int) (check : Bool) :
    s.size ≤ (addClauseVals s r xs check).1.size := by
  unfold addClauseVals
  split
  · simp
  · simp only []
    split
    · simp
    · split
      · split <;> simp
      · simp

theorem size_addAllVals (r : Addr) (check : Bool) :
    ∀ (cs : List (List Int)) (s : Store), s.size ≤ (addAllVals s r check cs).1.size
  | [], s => by simp [addAllVals]
  | c :: cs, s => by
    unfold addAllVals
    have h1 := size_addClauseVals s r c check
    split
    · rename_i s1 e heq; rw [heq] at h1; exact h1
    · rename_i s1 u heq; rw [heq] at h1; exact Nat.le_trans h1 (size_addAllVals r check cs s1)

theorem size_updVar (s : Store) (r : Addr) (n : Int) : s.size ≤ (updVar s r n).1.size := by
  unfold updVar; split
  · simp
  · split <;> simp

theorem size_newGroup (s : Store) (r : Addr) (spec : Vars.GroupSpec) : s.size ≤ (newGroup s r spec).1.size := by
  unfold newGroup; split
  · simp
  · split
    · simp
    · split <;> simp

theorem size_hdrSet (s : Store) (r : Addr) (k v : String) : s.size ≤ (hdrSet s r k v).1.size := by
  unfold hdrSet; split
  · simp
  · split <;> simp

theorem size_describe (s : Store) (r : Addr) (t : String) : s.size ≤ (describe s r t).1.size := by
  unfold describe; split
  · simp
  · split <;> simp

theorem size_copyHeader (s : Store) (r src : Addr) : s.size ≤ (copyHeader s r src).1.size := by
  unfold copyHeader; split
  · split <;> simp
  · simp

theorem size_addLinear (s : Store) (r : Addr) (lits : List Int) (op : Op) (k : Int) :
    s.size ≤ (addLinear s r lits op k).1.size := by
  unfold addLinear; split
  · simp
  · split
    · exact size_addAllVals ..
    · split
      · simp
      · exact Nat.le_trans (by simp) (size_addAllVals ..)

theorem size_addLinearAll (r : Addr) (op : Op) (k : Int) :
    ∀ (ls : List (List Int)) (s : Store), s.size ≤ (addLinearAll s r op k ls).1.size
  | [], s => by simp [addLinearAll]
  | l :: ls, s => by
    unfold addLinearAll
    have h1 := size_addLinear s r l op k
    split
    · rename_i s1 e heq; rw [heq] at h1; exact h1
    · rename_i s1 u heq; rw [heq] at h1; exact Nat.le_trans h1 (size_addLinearAll r op k ls s1)

theorem size_substLoop (r : Addr) (tbl : List (Option (List Clause))) :
    ∀ (cs : List Addr) (s : Store), s.size ≤ (substLoop r tbl s cs).1.size
  | [], s => by simp [substLoop]
  | c :: cs, s => by
    unfold substLoop
    split
    · simp
    · split
      · simp
      · rename_i block _
        have h1 := size_addAllVals r true block s
        split
        · rename_i s1 e heq; rw [heq] at h1; exact h1
        · rename_i s1 u heq; rw [heq] at h1; exact Nat.le_trans h1 (size_substLoop r tbl cs s1)

theorem size_shuffleLoop (r src : Addr) (tbl : List (Option Int)) :
    ∀ (ms : List (Nat × Int)) (s : Store), s.size ≤ (shuffleLoop r src tbl s ms).1.size
  | [], s => by simp [shuffleLoop]
  | m :: ms, s => by
    unfold shuffleLoop
    split
    · split
      · split
        · simp
        · split
          · simp
          · split
            · simp
            · split
              · simp
              · rename_i c' _
                have h1 := size_addClauseVals s r c' true
                split
                · rename_i s1 e heq; rw [heq] at h1; exact h1
                · rename_i s1 u heq; rw [heq] at h1; exact Nat.le_trans h1 (size_shuffleLoop r src tbl ms s1)
      · simp
    · simp

theorem size_runAct (s : Store) (r : Addr) (a : Act) : s.size ≤ (runAct s r a).1.size := by
  cases a with
  | copyHeader src => exact size_copyHeader ..
  | describe text => exact size_describe ..
  | reshuffled =>
    simp only [runAct]
    split
    · simp
    · split <;> simp
  | updVar n => exact size_updVar ..
  | newGroup spec => exact size_newGroup ..
  | liftSelectors k =>
    simp only [runAct]
    split
    · simp
    · exact size_addLinearAll ..
  | substFrom src enc =>
    simp only [runAct]
    split
    · simp
    · split
      · simp
      · exact size_substLoop ..
  | loadShuffled src tbl mapping => exact size_shuffleLoop ..

theorem size_runActs (r : Addr) : ∀ (as : List Act) (s : Store), s.size ≤ (runActs r s as).1.size
  | [], s => by simp [runActs]
  | a :: as, s => by
    unfold runActs
    have h1 := size_runAct s r a
    split
    · rename_i s1 e heq; rw [heq] at h1; exact h1
    · rename_i s1 u heq; rw [heq] at h1; exact Nat.le_trans h1 (size_runActs r as s1)

theorem newCNF_addr_lt (cfg : Cfg) (s : Store) (d : Option String) :
    ((newCNF cfg s d).2 : Nat) < (newCNF cfg s d).1.size := by
  simp [newCNF]

end Heap
end Cnfgen
