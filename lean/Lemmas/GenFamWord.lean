/-
Lemmas for the translated family generators that use word groups (`new_combinations` …): creation on the formula
object, `group(u, v, …)` on a word of the enumeration, `group()` (all identifiers).
-/
import Lemmas.GenFamBlock
import Props.C11.GeneratedWords
set_option linter.unusedSimpArgs false
namespace Cnfgen.GenFam
open Cnfgen Cnfgen.Vars Cnfgen.PyGen Cnfgen.GenVars Cnfgen.PyF Cnfgen.C11

theorem word_ids (nv : Nat) (n k : Int) (wt : String) (seqs : List (List Nat)) :
    (wordSelf nv n k wt seqs).ids = ⟨(nv : Int) + 1, (nv : Int) + ((seqs.length : Nat) : Int) + 1⟩ := rfl

theorem add_variable_group_word_eq (s : FState) (nv : Nat) (n k : Int) (wt : String) (seqs : List (List Nat))
    (hs : s.numvar = nv) :
    VariablesManager.add_variable_group_word s (wordSelf nv n k wt seqs) =
      Except.ok { s with numvar := ((nv + seqs.length : Nat) : Int) } := by
  simp only [VariablesManager.add_variable_group_word, WordOfIndicesVariables.len, WordOfIndicesVariables.getitem,
    word_ids, range_len']
  by_cases hE : seqs.length = 0
  · have : ((seqs.length : Nat) : Int) = 0 := by omega
    rw [if_pos this]
    cases s
    simp only at hs
    simp [hs, hE]
  · have h0 : ¬ (((seqs.length : Nat) : Int) = 0) := by omega
    rw [if_neg h0, range_get_first _ _ (by omega), range_get_last _ _ (by omega)]
    simp only [Py.ok_bind, PyF.number_of_variables, PyF.update_variable_number, hs]
    have h1 : (nv : Int) + ((seqs.length : Nat) : Int) ≥ (nv : Int) + 1 := by omega
    have h2 : ¬ ((nv : Int) + 1 ≤ (nv : Int)) := by omega
    have h3 : ¬ ((nv : Int) + ((seqs.length : Nat) : Int) < 0) := by omega
    have h4 : (nv : Int) + ((seqs.length : Nat) : Int) > (nv : Int) := by omega
    simp only [h1, if_true, h2, if_false, h3, h4]
    congr 2

/-- `new_combinations(n, k, label=…)` with a label that formats -/
theorem new_combinations_eq (s : FState) (nv : Nat) (hs : s.numvar = nv) (n k : Nat) :
    VariablesManager.new_combinations s (n : Int) (k : Int) (Except.ok ()) =
      Except.ok (wordSelf nv n k "combinations" (combosSeqs n k),
        { s with numvar := ((nv + (combosSeqs n k).length : Nat) : Int) }) := by
  unfold VariablesManager.new_combinations
  rw [hs, gen_word_init_eq]
  have hneg : ¬ ((n : Int) < 0 ∨ (k : Int) < 0) := by omega
  simp only [Py.tryExcept, hneg, if_false, wordEnum, if_true, Int.toNat_natCast, Py.ok_bind]
  rw [add_variable_group_word_eq s nv _ _ _ _ hs, Py.ok_bind]

/-- `group(w₁, …, w_k)` on a word of the enumeration: its identifier -/
theorem word_call_word (nv : Nat) (n k : Int) (wt : String) {seqs : List (List Nat)} (hnd : seqs.Nodup)
    (w : List Nat) (hne : w ≠ []) (hw : w ∈ seqs) :
    WordOfIndicesVariables.call (wordSelf nv n k wt seqs) (natPat w) =
      Except.ok (Sum.inl ((nv + 1 + seqs.idxOf w : Nat) : Int)) := by
  rw [gen_word_call_eq_model, (word_call_full "" hnd w hne).1 hw]
  rfl

/-- `group()`: the identifiers of all words, in enumeration order (no word is empty) -/
theorem word_call_all (nv : Nat) (n k : Int) (wt : String) {seqs : List (List Nat)} (hnd : seqs.Nodup)
    (hne : [] ∉ seqs) :
    WordOfIndicesVariables.call (wordSelf nv n k wt seqs) [] =
      Except.ok (Sum.inr ((List.range seqs.length).map (fun j => ((nv + 1 + j : Nat) : Int)))) := by
  rw [gen_word_call_eq_model]
  have hnone : seq2vid (nv + 1) seqs [] = none := by
    cases hh : seq2vid (nv + 1) seqs [] with
    | none => rfl
    | some v => exact absurd ((seq2vid_isSome_iff (nv + 1) seqs []).1 (by simp [hh])) hne
  have hp : patternNats ([] : Pattern) = some [] := rfl
  simp only [Group.call, hp, Option.bind_some, hnone, Group.indices, List.isEmpty_nil, if_true, Py.map_ok, bind,
    Except.bind, pure, Except.pure, resSum, Except.map]
  congr 2
  simp only [ints, List.map_map]
  apply List.ext_getElem
  · simp
  · intro i h1 h2
    simp only [List.length_map] at h1
    simp only [List.getElem_map, List.getElem_range, Function.comp]
    rw [seq2vid_eq_wordId hnd]
    have hidx : seqs.idxOf seqs[i] = i := hnd.idxOf_getElem i h1
    simp [wordId, hidx, h1]

end Cnfgen.GenFam
