import CnfgenModel.Build.Constr
import Props.C04
namespace Cnfgen
open C04

theorem Con.toCNF_holds (α : Assign) (c : Con) (h : ∀ l ∈ c.lits, l ≠ 0) :
    (∀ cl ∈ c.toCNF, clauseHolds α cl = true) ↔ c.holds α = true := by
  cases c with
  | clause cl => simp [Con.toCNF, Con.holds]
  | lin ls o k => exact linear_holds α ls o k h
  | parity ls b =>
    simp only [Con.toCNF, Con.holds, Linear.parity]
    rw [parityClauses_holds α ls _ h]
    cases hbb : (b == 1) <;> simp <;> omega
  | maj kind ls =>
    cases kind <;> simp only [Con.toCNF, Con.holds, decide_eq_true_eq]
    · exact looseMajority_holds α ls h
    · exact looseMinority_holds α ls h
    · exact strictMajority_holds α ls h
    · exact strictMinority_holds α ls h

theorem Con.toOPB_holds (α : Assign) (c : Con) (h : ∀ l ∈ c.lits, l ≠ 0) :
    (∀ p ∈ c.toOPB, p.holds α = true) ↔ c.holds α = true := by
  cases c with
  | clause cl => simp [Con.toOPB, Con.holds, ofClause_holds]
  | lin ls o k => exact opb_linear_holds α ls o k h
  | parity ls b =>
    simp only [Con.toOPB, Con.holds, PB.parity, List.mem_map, forall_exists_index, and_imp,
      forall_apply_eq_imp_iff₂, ofClause_holds, Linear.parity]
    rw [parityClauses_holds α ls _ h]
    cases hbb : (b == 1) <;> simp <;> omega
  | maj kind ls =>
    cases kind <;> simp only [Con.toOPB, Con.holds, decide_eq_true_eq]
    · exact opb_looseMajority_holds α ls h
    · exact opb_looseMinority_holds α ls h
    · exact opb_strictMajority_holds α ls h
    · exact opb_strictMinority_holds α ls h

theorem Formula.toCNF_holds (α : Assign) (F : Formula) (h : F.WF) :
    F.toCNF.holds α = F.holds α := by
  rw [Bool.eq_iff_iff]
  simp only [CNF.holds, Formula.toCNF, Formula.holds, List.all_eq_true, List.mem_flatMap]
  constructor
  · intro hh c hc
    exact (Con.toCNF_holds α c (fun l hl => (h c hc l hl).1)).1 (fun cl hcl => hh cl ⟨c, hc, hcl⟩)
  · rintro hh cl ⟨c, hc, hcl⟩
    exact (Con.toCNF_holds α c (fun l hl => (h c hc l hl).1)).2 (hh c hc) cl hcl

theorem Formula.toOPB_holds (α : Assign) (F : Formula) (h : F.WF) :
    F.toOPB.holds α = F.holds α := by
  rw [Bool.eq_iff_iff]
  simp only [OPB.holds, Formula.toOPB, Formula.holds, List.all_eq_true, List.mem_flatMap]
  constructor
  · intro hh c hc
    exact (Con.toOPB_holds α c (fun l hl => (h c hc l hl).1)).1 (fun p hp => hh p ⟨c, hc, hp⟩)
  · rintro hh p ⟨c, hc, hp⟩
    exact (Con.toOPB_holds α c (fun l hl => (h c hc l hl).1)).2 (hh c hc) p hp

end Cnfgen
