/-
C14 — inversion of `readGraph`: which reader produced an accepted result.
-/
import Lemmas.GraphIOBip
import Lemmas.GraphIODimacs
namespace Cnfgen.GraphFmt
open Cnfgen Cnfgen.GraphLex

theorem readGraph_simple_kth {rows G} (h : readGraph .simple (.kth rows) = .ok G) :
    ∃ g, G = .simple g ∧ readKth simpleClass rows = .ok g := by
  have hc : checkArgs .simple (Rows.kth rows).fmt = .ok () := by simp only [Rows.fmt]; rfl
  simp only [readGraph, hc] at h
  cases hr : readKth simpleClass rows with
  | error x => rw [hr] at h; cases h
  | ok g =>
    rw [hr] at h
    cases h; exact ⟨g, rfl, rfl⟩

theorem readGraph_simple_dimacs {rows G} (h : readGraph .simple (.dimacs rows) = .ok G) :
    ∃ g, G = .simple g ∧ readDimacs simpleClass rows = .ok g := by
  have hc : checkArgs .simple (Rows.dimacs rows).fmt = .ok () := by simp only [Rows.fmt]; rfl
  simp only [readGraph, hc] at h
  cases hr : readDimacs simpleClass rows with
  | error x => rw [hr] at h; cases h
  | ok g =>
    rw [hr] at h
    cases h; exact ⟨g, rfl, rfl⟩

theorem readGraph_digraph_kth {rows G} (h : readGraph .digraph (.kth rows) = .ok G) :
    ∃ g, G = .di g ∧ readKth diClass rows = .ok g := by
  have hc : checkArgs .digraph (Rows.kth rows).fmt = .ok () := by simp only [Rows.fmt]; rfl
  simp only [readGraph, hc] at h
  cases hr : readKth diClass rows with
  | error x => rw [hr] at h; cases h
  | ok g =>
    rw [hr] at h
    cases h; exact ⟨g, rfl, rfl⟩

theorem readGraph_digraph_dimacs {rows G} (h : readGraph .digraph (.dimacs rows) = .ok G) :
    ∃ g, G = .di g ∧ readDimacs diClass rows = .ok g := by
  have hc : checkArgs .digraph (Rows.dimacs rows).fmt = .ok () := by simp only [Rows.fmt]; rfl
  simp only [readGraph, hc] at h
  cases hr : readDimacs diClass rows with
  | error x => rw [hr] at h; cases h
  | ok g =>
    rw [hr] at h
    cases h; exact ⟨g, rfl, rfl⟩

theorem readGraph_dag_kth {rows G} (h : readGraph .dag (.kth rows) = .ok G) :
    ∃ g, G = .di g ∧ readKth diClass rows = .ok g ∧ g.stillDag = true := by
  have hc : checkArgs .dag (Rows.kth rows).fmt = .ok () := by simp only [Rows.fmt]; rfl
  simp only [readGraph, hc] at h
  cases hr : readKth diClass rows with
  | error x => rw [hr] at h; cases h
  | ok g =>
    rw [hr] at h
    simp only at h
    split at h
    · rename_i hd; cases h; exact ⟨g, rfl, rfl, hd⟩
    · cases h

theorem readGraph_dag_dimacs {rows G} (h : readGraph .dag (.dimacs rows) = .ok G) :
    ∃ g, G = .di g ∧ readDimacs diClass rows = .ok g ∧ g.stillDag = true := by
  have hc : checkArgs .dag (Rows.dimacs rows).fmt = .ok () := by simp only [Rows.fmt]; rfl
  simp only [readGraph, hc] at h
  cases hr : readDimacs diClass rows with
  | error x => rw [hr] at h; cases h
  | ok g =>
    rw [hr] at h
    simp only at h
    split at h
    · rename_i hd; cases h; exact ⟨g, rfl, rfl, hd⟩
    · cases h

theorem readGraph_bipartite_kth {rows G} (h : readGraph .bipartite (.kth rows) = .ok G) :
    ∃ g, G = .bip g ∧ readBipKth rows = .ok g := by
  have hc : checkArgs .bipartite (Rows.kth rows).fmt = .ok () := by simp only [Rows.fmt]; rfl
  simp only [readGraph, hc] at h
  cases hr : readBipKth rows with
  | error x => rw [hr] at h; cases h
  | ok g =>
    rw [hr] at h
    cases h; exact ⟨g, rfl, rfl⟩

theorem readGraph_bipartite_matrix {rows G} (h : readGraph .bipartite (.matrix rows) = .ok G) :
    ∃ g, G = .bip g ∧ readMatrix rows = .ok g := by
  have hc : checkArgs .bipartite (Rows.matrix rows).fmt = .ok () := by simp only [Rows.fmt]; rfl
  simp only [readGraph, hc] at h
  cases hr : readMatrix rows with
  | error x => rw [hr] at h; cases h
  | ok g =>
    rw [hr] at h
    cases h; exact ⟨g, rfl, rfl⟩

end Cnfgen.GraphFmt
