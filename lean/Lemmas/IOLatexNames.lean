/-
A syntactic sufficient condition for `TableOK` (pairwise distinct literal texts): the names are
pairwise distinct, none starts with `\overline{`, and no `}` occurs before the point where the
name is split for `\overline` (the first `_` / `^` at a positive index).
-/
import Lemmas.IOLatex
namespace Cnfgen.IO

abbrev OV : Str := overlineOpen

def NameOK (nm : Str) : Prop :=
  ¬ (OV <+: nm) ∧ ∀ k, splitPoint nm = some k → '}' ∉ nm.take k

theorem split_unique {α} (x : α) : ∀ (a a' b b' : List α), x ∉ a → x ∉ a' →
    a ++ x :: b = a' ++ x :: b' → a = a' ∧ b = b'
  | [], [], b, b', _, _, h => by simp at h; exact ⟨rfl, h⟩
  | [], y :: a', b, b', _, h', h => by
    simp at h; exact absurd (by simp [h.1]) h'
  | y :: a, [], b, b', h', _, h => by
    simp at h; exact absurd (by simp [h.1]) h'
  | y :: a, y' :: a', b, b', h1, h2, h => by
    simp at h
    have := split_unique x a a' b b' (fun hh => h1 (by simp [hh])) (fun hh => h2 (by simp [hh])) h.2
    exact ⟨by rw [h.1, this.1], this.2⟩

theorem litCore_pos (n : Str) : litCore n false = '{' :: (n ++ ['}']) := by simp [litCore]
theorem litCore_neg_nosplit (n : Str) (h : splitPoint n = none) : litCore n true = '\\' :: (OV.drop 1 ++ n ++ ['}']) := by
  simp [litCore, h, overlineOpen]
theorem litCore_neg_split (n : Str) (k : Nat) (h : splitPoint n = some k) :
    litCore n true = '{' :: ((OV ++ (n.take k ++ '}' :: n.drop k)) ++ ['}']) := by
  simp [litCore, h]

theorem litCore_inj (n n' : Str) (b b' : Bool) (hn : NameOK n) (hn' : NameOK n')
    (h : litCore n b = litCore n' b') : n = n' ∧ b = b' := by
  cases b <;> cases b'
  · rw [litCore_pos, litCore_pos] at h
    simp only [List.cons.injEq, true_and] at h
    exact ⟨List.append_cancel_right h, rfl⟩
  · -- positive vs negative
    rw [litCore_pos] at h
    cases hs : splitPoint n' with
    | none => rw [litCore_neg_nosplit n' hs] at h; simp at h
    | some k =>
      rw [litCore_neg_split n' k hs] at h
      simp only [List.cons.injEq, true_and] at h
      have := List.append_cancel_right h
      exact absurd ⟨_, this.symm⟩ hn.1
  · rw [litCore_pos] at h
    cases hs : splitPoint n with
    | none => rw [litCore_neg_nosplit n hs] at h; simp at h
    | some k =>
      rw [litCore_neg_split n k hs] at h
      simp only [List.cons.injEq, true_and] at h
      have := List.append_cancel_right h
      exact absurd ⟨_, this⟩ hn'.1
  · cases hs : splitPoint n with
    | none =>
      cases hs' : splitPoint n' with
      | none =>
        rw [litCore_neg_nosplit n hs, litCore_neg_nosplit n' hs'] at h
        simp only [List.cons.injEq, true_and] at h
        have := List.append_cancel_right h
        exact ⟨List.append_cancel_left this, rfl⟩
      | some k' => rw [litCore_neg_nosplit n hs, litCore_neg_split n' k' hs'] at h; simp at h
    | some k =>
      cases hs' : splitPoint n' with
      | none => rw [litCore_neg_split n k hs, litCore_neg_nosplit n' hs'] at h; simp at h
      | some k' =>
        rw [litCore_neg_split n k hs, litCore_neg_split n' k' hs'] at h
        simp only [List.cons.injEq, true_and] at h
        have h1 := List.append_cancel_left (List.append_cancel_right h)
        obtain ⟨e1, e2⟩ := split_unique '}' _ _ _ _ (hn.2 k hs) (hn'.2 k' hs') h1
        refine ⟨?_, rfl⟩
        rw [← List.take_append_drop k n, ← List.take_append_drop k' n', e1, e2]

theorem keys_enumFrom : ∀ (names : List Str) (i : Nat),
    ((enumFrom i names).flatMap (fun p => [(litCore p.2 false, (p.1 : Int)), (litCore p.2 true, -(p.1 : Int))])).map Prod.fst =
      names.flatMap (fun nm => [litCore nm false, litCore nm true])
  | [], _ => rfl
  | nm :: names, i => by
    simp only [enumFrom, List.flatMap_cons, List.map_append]
    rw [keys_enumFrom names (i + 1)]
    rfl

/-- pairwise distinct well-formed names have pairwise distinct literal texts -/
theorem tableOK_of_names : ∀ (names : List Str), names.Nodup → (∀ nm ∈ names, NameOK nm) → TableOK names := by
  intro names hd hok
  unfold TableOK litTable enum1
  rw [keys_enumFrom]
  induction names with
  | nil => simp
  | cons nm names ih =>
    simp only [List.nodup_cons] at hd
    have hnm := hok nm (by simp)
    simp only [List.flatMap_cons]
    rw [List.nodup_append]
    refine ⟨?_, ih hd.2 (fun x hx => hok x (by simp [hx])), ?_⟩
    · have : litCore nm false ≠ litCore nm true := fun e => by simpa using (litCore_inj nm nm false true hnm hnm e).2
      simp [this]
    · intro a ha b hb e
      subst e
      simp only [List.mem_flatMap] at hb
      obtain ⟨nm', hnm', hb⟩ := hb
      have hok' := hok nm' (by simp [hnm'])
      simp only [List.mem_cons, List.not_mem_nil, or_false] at ha hb
      have : nm = nm' := by
        rcases ha with ha | ha <;> rcases hb with hb | hb
        · exact (litCore_inj nm nm' false false hnm hok' (ha.symm.trans hb)).1
        · exact (litCore_inj nm nm' false true hnm hok' (ha.symm.trans hb)).1
        · exact (litCore_inj nm nm' true false hnm hok' (ha.symm.trans hb)).1
        · exact (litCore_inj nm nm' true true hnm hok' (ha.symm.trans hb)).1
      exact hd.1 (this ▸ hnm')

end Cnfgen.IO
