/-
`CompleteBipartiteGraph(L, R)` (C16): the value `BipG.complete l r` satisfies the bipartite
invariant, and the closed-form views of the class (`CBipG`) are the views of that value.
Updates never change it; illegal insertions are refused.  Core Lean only.
-/
import Lemmas.GraphNx
namespace Cnfgen

/-- `[1, …, k]` -/
def oneTo (k : Nat) : List Nat := (List.range k).map (· + 1)

theorem mem_oneTo {k v : Nat} : v ∈ oneTo k ↔ 1 ≤ v ∧ v ≤ k := by
  simp only [oneTo, List.mem_map, List.mem_range]
  constructor
  · rintro ⟨i, hi, rfl⟩; omega
  · intro h; exact ⟨v - 1, by omega, by omega⟩

theorem sorted_oneTo (k : Nat) : SortedLt (oneTo k) :=
  List.pairwise_lt_range.map _ (fun a b h => by omega)

theorem length_oneTo (k : Nat) : (oneTo k).length = k := by simp [oneTo]

theorem sum_map_const_range (l r : Nat) : ((List.range l).map (fun _ => r)).sum = l * r := by
  induction l with
  | zero => simp
  | succ l ih => rw [List.range_succ, List.map_append, List.sum_append, ih]; simp [Nat.succ_mul]

theorem row_cons_replicate (k : Nat) (R : List Nat) (u : Nat) :
    row ([] :: List.replicate k R) u = if 1 ≤ u ∧ u ≤ k then R else [] := by
  cases u with
  | zero => simp [row]
  | succ u =>
    simp only [row, List.getD_eq_getElem?_getD, List.getElem?_cons_succ, List.getElem?_replicate]
    by_cases h : u < k
    · rw [if_pos h, if_pos (by omega)]; rfl
    · rw [if_neg h, if_neg (by omega)]; rfl

namespace BipG

theorem complete_edgeset (l r : Nat) : (complete l r).edgeset = tableEdges (fun _ => oneTo r) l := by
  simp only [complete, tableEdges, oneTo, List.map_map]
  rfl

theorem mem_complete_edgeset {l r : Nat} {e : Nat × Nat} :
    e ∈ (complete l r).edgeset ↔ 1 ≤ e.1 ∧ e.1 ≤ l ∧ 1 ≤ e.2 ∧ e.2 ≤ r := by
  rw [complete_edgeset, mem_tableEdges, mem_oneTo]

/-- the complete bipartite graph, as a value, satisfies the invariant -/
theorem inv_complete (l r : Nat) : Inv (complete l r) := by
  refine ⟨⟨?_, ?_, ?_⟩, ⟨?_, ?_, ?_⟩, ?_, ?_⟩
  · simp [complete]
  · intro u
    show SortedLt (row ([] :: List.replicate l (oneTo r)) u)
    rw [row_cons_replicate]; split
    · exact sorted_oneTo r
    · exact List.Pairwise.nil
  · intro u v
    show v ∈ row ([] :: List.replicate l (oneTo r)) u ↔ _
    rw [row_cons_replicate, mem_complete_edgeset]
    split
    · rw [mem_oneTo]; simp only; omega
    · simp only [List.not_mem_nil, false_iff]; omega
  · simp [complete]
  · intro v
    show SortedLt (row ([] :: List.replicate r (oneTo l)) v)
    rw [row_cons_replicate]; split
    · exact sorted_oneTo l
    · exact List.Pairwise.nil
  · intro v u
    show u ∈ row ([] :: List.replicate r (oneTo l)) v ↔ _
    rw [row_cons_replicate, mem_complete_edgeset]
    split
    · rw [mem_oneTo]; simp only; omega
    · simp only [List.not_mem_nil, false_iff]; omega
  · intro u v hm; exact mem_complete_edgeset.1 hm
  · rw [complete_edgeset]
    exact (sorted_tableEdges (fun _ => sorted_oneTo r) l).nodup

theorem complete_rnbrs {l r u : Nat} (hu : 1 ≤ u ∧ u ≤ l) : (complete l r).rnbrs u = oneTo r := by
  show row ([] :: List.replicate l (oneTo r)) u = _
  rw [row_cons_replicate, if_pos hu]

theorem complete_lnbrs {l r v : Nat} (hv : 1 ≤ v ∧ v ≤ r) : (complete l r).lnbrs v = oneTo l := by
  show row ([] :: List.replicate r (oneTo l)) v = _
  rw [row_cons_replicate, if_pos hv]

end BipG

namespace CBipG

/-- no update changes a `CompleteBipartiteGraph` -/
theorem step_state (G : CBipG) (op : GOp) : (G.step op).1 = G := by cases op <;> rfl

theorem run_state (G : CBipG) (ops : List GOp) : G.run ops = G := by
  induction ops with
  | nil => rfl
  | cons o os ih =>
    show ((G.step o).1).run os = G
    rw [step_state]; exact ih

theorem legal_iff (G : CBipG) (u v : Int) : G.legal u v = true ↔ BipG.Valid G.l G.r u v := by
  simp [legal, BipG.Valid]

/-- a legal insertion is a no-op (every legal pair is an edge already) -/
theorem step_addEdge_valid (G : CBipG) {u v : Int} (h : BipG.Valid G.l G.r u v) :
    G.step (.addEdge u v) = (G, .ok) := by
  simp only [step, (legal_iff G u v).2 h, if_true]

/-- an illegal insertion is refused with `ValueError`, no side effect -/
theorem step_addEdge_invalid (G : CBipG) {u v : Int} (h : ¬ BipG.Valid G.l G.r u v) :
    G.step (.addEdge u v) = (G, .raised .valueError) := by
  have : G.legal u v = false := by
    cases hh : G.legal u v with
    | false => rfl
    | true => exact absurd ((legal_iff G u v).1 hh) h
  simp only [step, this]
  rfl

/-- `add_edges_from`: `ValueError` iff some pair is illegal; nothing changes either way -/
theorem step_addEdgesFrom (G : CBipG) (es : List (Int × Int)) :
    (G.step (.addEdgesFrom es)).1 = G ∧
    ((G.step (.addEdgesFrom es)).2 = .ok ↔ ∀ e ∈ es, BipG.Valid G.l G.r e.1 e.2) ∧
    ((G.step (.addEdgesFrom es)).2 = .ok ∨ (G.step (.addEdgesFrom es)).2 = .raised .valueError) := by
  refine ⟨rfl, ?_, ?_⟩
  · simp only [step]
    by_cases hall : es.all (fun e => G.legal e.1 e.2) = true
    · rw [if_pos hall]
      rw [List.all_eq_true] at hall
      exact ⟨fun _ e he => (legal_iff G e.1 e.2).1 (hall e he), fun _ => rfl⟩
    · rw [if_neg hall]
      constructor
      · intro hh; cases hh
      · intro hv; exact absurd (List.all_eq_true.2 (fun e he => (legal_iff G e.1 e.2).2 (hv e he))) hall
  · simp only [step]; split
    · exact Or.inl rfl
    · exact Or.inr rfl

theorem edges_eq (G : CBipG) : G.edges = G.toBipG.edges := by
  have h := BipG.inv_complete G.l G.r
  apply SortedLex.ext
  · exact sorted_tableEdges (f := fun _ => oneTo G.r) (fun _ => sorted_oneTo G.r) G.l
  · exact h.edges_sorted
  · intro e
    rw [toBipG, h.mem_edges, BipG.mem_complete_edgeset]
    exact (mem_tableEdges (f := fun _ => oneTo G.r)).trans (by rw [mem_oneTo])

theorem mem_edges (G : CBipG) (e : Nat × Nat) :
    e ∈ G.edges ↔ 1 ≤ e.1 ∧ e.1 ≤ G.l ∧ 1 ≤ e.2 ∧ e.2 ≤ G.r := by
  rw [edges_eq, toBipG, (BipG.inv_complete G.l G.r).mem_edges, BipG.mem_complete_edgeset]

theorem hasEdge_eq (G : CBipG) (u v : Int) : G.hasEdge u v = G.toBipG.hasEdge u v := by
  rw [Bool.eq_iff_iff, BipG.hasEdge_iff, toBipG, BipG.mem_complete_edgeset]
  simp only [hasEdge, decide_eq_true_eq]
  omega

theorem numberOfEdges_eq (G : CBipG) : G.numberOfEdges = G.toBipG.numberOfEdges := by
  have h := BipG.inv_complete G.l G.r
  rw [toBipG, h.numberOfEdges_eq, ← toBipG, ← edges_eq]
  simp [numberOfEdges, edges, rightNeighbors, List.length_flatMap, sum_map_const_range]

theorem rightNeighbors_eq (G : CBipG) {u : Int} (hu : 1 ≤ u ∧ u ≤ G.l) :
    G.toBipG.rightNeighbors u = .ok (G.rightNeighbors u) := by
  unfold BipG.rightNeighbors
  rw [if_neg (fun hn => hn hu)]
  exact congrArg _ (BipG.complete_rnbrs (by omega))

theorem leftNeighbors_eq (G : CBipG) {v : Int} (hv : 1 ≤ v ∧ v ≤ G.r) :
    G.toBipG.leftNeighbors v = .ok (G.leftNeighbors v) := by
  unfold BipG.leftNeighbors
  rw [if_neg (fun hn => hn hv)]
  exact congrArg _ (BipG.complete_lnbrs (by omega))

end CBipG
end Cnfgen
