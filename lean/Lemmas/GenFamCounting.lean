/-
The double loop of `CountingPrinciple` (`stars[i-1].append(var)` for every element `i` of every subset): the rows
after the loop, in closed form.
-/
import Lemmas.GenFamWord
import Lemmas.C01Counting
set_option linter.unusedSimpArgs false
namespace Cnfgen.GenFam
open Cnfgen Cnfgen.Vars Cnfgen.PyGen Cnfgen.GenVars Cnfgen.PyF Cnfgen.C11 Cnfgen.Fam

/-- the list of rows `[f 1, …, f M]` -/
def rowsOf (M : Nat) (f : Nat → List Int) : List (List Int) := (idx M).map f

theorem rowsOf_length (M : Nat) (f : Nat → List Int) : (rowsOf M f).length = M := by
  simp [rowsOf, idx, rangeN]

theorem rowsOf_getElem (M : Nat) (f : Nat → List Int) (j : Nat) (h : j < (rowsOf M f).length) :
    (rowsOf M f)[j] = f (j + 1) := by
  simp [rowsOf, idx, rangeN]

theorem rowsOf_index (M : Nat) (f : Nat → List Int) (i : Nat) (hi : 1 ≤ i ∧ i ≤ M) :
    Py.index (rowsOf M f) ((i : Int) - 1) = Except.ok (f i) := by
  have e : ((i : Int) - 1) = ((i - 1 : Nat) : Int) := by omega
  rw [e, Py.index_nat _ _ (by rw [rowsOf_length]; omega), rowsOf_getElem]
  congr 2; omega

theorem rowsOf_set (M : Nat) (f : Nat → List Int) (i : Nat) (hi : 1 ≤ i ∧ i ≤ M) (v : List Int) :
    Py.listSet (rowsOf M f) ((i : Int) - 1) v = Except.ok (rowsOf M (fun x => if x = i then v else f x)) := by
  have h0 : (0 : Int) ≤ (i : Int) - 1 := by omega
  have h1 : ((i : Int) - 1).toNat < (rowsOf M f).length := by rw [rowsOf_length]; omega
  simp only [Py.listSet, h0, if_true, h1]
  congr 1
  apply List.ext_getElem
  · simp [rowsOf_length]
  · intro j hj1 hj2
    rw [List.getElem_set, rowsOf_getElem, rowsOf_getElem]
    have : ((i : Int) - 1).toNat = i - 1 := by omega
    rw [this]
    by_cases hji : i - 1 = j
    · have : j + 1 = i := by omega
      simp [hji, this]
    · have : ¬ (j + 1 = i) := by omega
      simp [hji, this]

theorem unNone_some {α : Type} (a : α) : Py.unNone (some a) = Except.ok a := rfl

/-- the inner loop: the variable is appended to the row of every element of the subset -/
theorem star_inner (M : Nat) (var : Int) (w : List Nat) (hnd : w.Nodup) (hw : ∀ i ∈ w, 1 ≤ i ∧ i ≤ M)
    (f : Nat → List Int) :
    List.foldlM (fun (stars : List (List Int)) (i : Option Int) =>
        (Py.unNone i) >>= fun v =>
        (Py.index stars (v - 1)) >>= fun row =>
        (Py.listSet stars (v - 1) (row ++ [var])) >>= fun l =>
        Except.ok l) (rowsOf M f) (upPat w) =
      Except.ok (rowsOf M (fun x => if x ∈ w then f x ++ [var] else f x)) := by
  induction w generalizing f with
  | nil => simp [upPat, ints]
  | cons i w ih =>
    have hi := hw i (by simp)
    have hiw : i ∉ w := (List.nodup_cons.1 hnd).1
    simp only [upPat, ints, List.map_cons, List.foldlM_cons, unNone_some, Py.ok_bind, Int.ofNat_eq_natCast,
      rowsOf_index M f i hi, rowsOf_set M f i hi]
    have := ih (List.nodup_cons.1 hnd).2 (fun j hj => hw j (by simp [hj])) (fun x => if x = i then f i ++ [var] else f x)
    simp only [upPat, ints, Int.ofNat_eq_natCast] at this
    rw [this]
    congr 2
    funext x
    by_cases hx : x = i
    · subst hx; simp [hiw]
    · simp [hx]

/-- the outer loop over the subsets and their variables -/
theorem star_outer (M : Nat) (L : List (List Nat × Int)) (hnd : ∀ S ∈ L, S.1.Nodup)
    (hw : ∀ S ∈ L, ∀ i ∈ S.1, 1 ≤ i ∧ i ≤ M) (f : Nat → List Int) :
    List.foldlM (fun (stars : List (List Int)) (x : List (Option Int) × Int) =>
        (List.foldlM (fun (stars : List (List Int)) (i : Option Int) =>
          (Py.unNone i) >>= fun v =>
          (Py.index stars (v - 1)) >>= fun row =>
          (Py.listSet stars (v - 1) (row ++ [x.2])) >>= fun l =>
          Except.ok l) stars x.1) >>= fun stars => Except.ok stars)
      (rowsOf M f) (L.map (fun S => (upPat S.1, S.2))) =
      Except.ok (rowsOf M (fun x => f x ++ L.filterMap (fun S => if S.1.contains x then some S.2 else none))) := by
  induction L generalizing f with
  | nil => simp
  | cons S L ih =>
    simp only [List.map_cons, List.foldlM_cons]
    rw [star_inner M S.2 S.1 (hnd S (by simp)) (hw S (by simp)) f, Py.ok_bind, Py.ok_bind,
      ih (fun T hT => hnd T (by simp [hT])) (fun T hT => hw T (by simp [hT]))]
    congr 2
    funext x
    by_cases hx : x ∈ S.1
    · simp [hx]
    · simp [hx]

end Cnfgen.GenFam
