/-
C14 — the kthlist reader for simple and directed graphs (`_read_nonbipartite_kthlist` over
`_kthlist_parse`): what a text denotes, reader contract, round trip.
-/
import Lemmas.GraphIOBase
namespace Cnfgen.GraphFmt
open Cnfgen Cnfgen.GraphLex

/-! ### what a kthlist text says -/

/-- the number of vertices the text declares: its first line that is neither a comment nor
blank, when that line is a size line -/
def kthSize : List KRow → Option Int
  | [] => none
  | .comment :: rs => kthSize rs
  | .blank :: rs => kthSize rs
  | .spec s :: _ => s
  | .adj _ :: _ => none

/-- the pairs `(v, left)` an adjacency line `left : v₁ … v_k 0` states -/
def kthRowPairs : KRow → List (Int × Int)
  | .adj (some (l, r)) => r.dropLast.map (fun v => (v, l))
  | _ => []

def kthPairs (rows : List KRow) : List (Int × Int) := rows.flatMap kthRowPairs

theorem kthPairs_cons (r : KRow) (rs : List KRow) : kthPairs (r :: rs) = kthRowPairs r ++ kthPairs rs := by
  simp [kthPairs]

/-! ### `_kthlist_parse` -/

theorem kthHeader_err {rows : List KRow} {x : Err} (e : kthHeader rows = .error x) : x = .valueError := by
  induction rows with
  | nil => cases e; rfl
  | cons r rs ih =>
    cases r with
    | comment => exact ih (by simpa [kthHeader] using e)
    | blank => exact ih (by simpa [kthHeader] using e)
    | spec s =>
      cases s with
      | none => cases e; rfl
      | some s =>
        simp only [kthHeader] at e
        split at e
        · cases e; rfl
        · cases e
    | adj a => cases e; rfl

theorem kthHeader_ok {rows rest : List KRow} {size : Nat} (e : kthHeader rows = .ok (size, rest)) :
    kthSize rows = some (size : Int) ∧ kthPairs rows = kthPairs rest := by
  induction rows with
  | nil => cases e
  | cons r rs ih =>
    cases r with
    | comment =>
      have := ih (by simpa [kthHeader] using e)
      simpa [kthSize, kthPairs_cons, kthRowPairs] using this
    | blank =>
      have := ih (by simpa [kthHeader] using e)
      simpa [kthSize, kthPairs_cons, kthRowPairs] using this
    | spec s =>
      cases s with
      | none => cases e
      | some s =>
        simp only [kthHeader] at e
        split at e
        · cases e
        · rename_i hs
          cases e
          refine ⟨?_, by simp [kthPairs_cons, kthRowPairs]⟩
          simp only [kthSize]; congr 1; omega
    | adj a => cases e

theorem kthAdj_err {size : Nat} {a : Option (Int × List Int)} {x : Err} (e : kthAdj size a = .error x) :
    x = .valueError := by
  unfold kthAdj at e
  split at e
  · cases e; rfl
  · split at e
    · cases e; rfl
    · split at e
      · cases e; rfl
      · split at e
        · cases e; rfl
        · cases e

theorem kthAdj_ok {size : Nat} {a : Option (Int × List Int)} {s : Nat} {ps : List Nat}
    (e : kthAdj size a = .ok (s, ps)) :
    ∃ l r, a = some (l, r) ∧ l = (s : Int) ∧ r.dropLast = ps.map Int.ofNat ∧ r.getLast? = some 0 ∧
      1 ≤ s ∧ s ≤ size ∧ ∀ x ∈ ps, 1 ≤ x ∧ x ≤ size := by
  unfold kthAdj at e
  split at e
  · cases e
  · rename_i left right
    split at e
    · cases e
    · rename_i h1
      split at e
      · cases e
      · rename_i h2
        split at e
        · cases e
        · rename_i h3
          simp only [Except.ok.injEq, Prod.mk.injEq] at e
          obtain ⟨rfl, rfl⟩ := e
          simp only [List.any_eq_true, Bool.or_eq_true, decide_eq_true_eq, not_exists, not_and, not_or,
            Int.not_lt] at h3
          refine ⟨left, right, rfl, by omega, ?_, by simpa using h1, by omega, by omega, ?_⟩
          · rw [List.map_map]
            symm
            calc (right.dropLast).map (Int.ofNat ∘ Int.toNat) = right.dropLast.map id := by
                  apply List.map_congr_left
                  intro x hx
                  have := h3 x hx
                  simp only [Function.comp, id]
                  show ((x.toNat : Nat) : Int) = x
                  omega
              _ = right.dropLast := List.map_id _
          · intro x hx
            simp only [List.mem_map] at hx
            obtain ⟨y, hy, rfl⟩ := hx
            have := h3 y hy
            omega

/-- the row a writer produces is accepted as it is -/
theorem kthAdj_row {size v : Nat} {ns : List Nat} (hv : 1 ≤ v ∧ v ≤ size) (hn : ∀ x ∈ ns, 1 ≤ x ∧ x ≤ size) :
    kthAdj size (some ((v : Int), ns.map Int.ofNat ++ [0])) = .ok (v, ns) := by
  unfold kthAdj
  have h1 : (ns.map Int.ofNat ++ [0]).getLast? = some (0 : Int) := by simp
  have h2 : ¬ ((v : Int) < 1 ∨ (v : Int) > size) := by omega
  have h3 : ((ns.map Int.ofNat).any (fun x => decide (x < 1) || decide (x > (size : Int)))) = false := by
    simp only [List.any_eq_false, List.mem_map, Bool.or_eq_true, decide_eq_true_eq, not_or,
      forall_exists_index, and_imp, forall_apply_eq_imp_iff₂]
    intro x hx
    have := hn x hx
    show ¬ ((x : Int) < 1) ∧ ¬ ((x : Int) > size)
    omega
  simp only [h1, ne_eq, not_true_eq_false, if_false, h2, List.dropLast_concat, h3, Bool.false_eq_true,
    List.map_map]
  congr 2
  calc ns.map (Int.toNat ∘ Int.ofNat) = ns.map id := List.map_congr_left (fun x _ => by simp)
    _ = ns := List.map_id _


/-! ### `_read_nonbipartite_kthlist` -/

theorem addPreds_eq {γ} (C : GClass γ) (G : γ) (succ : Nat) (preds : List Nat) :
    addPreds C G succ preds = GSem.addAll C G (preds.map (fun (v : Nat) => ((v : Int), (succ : Int)))) := by
  simp only [addPreds, GSem.addAll, List.foldlM_map]

section
variable {γ : Type} {C : GClass γ} (S : GSem C)

theorem readKthBody_ok {size : Nat} {rows : List KRow} {G G' : γ} {prev : Nat} (h : S.Inv G)
    (e : readKthBody C size G prev rows = .ok G') :
    S.Inv G' ∧ C.order G' = C.order G ∧ (∀ x ∈ kthPairs rows, S.Valid (C.order G) x.1 x.2) ∧
      ∀ p, p ∈ S.E G' ↔ (p ∈ S.E G ∨ ∃ x ∈ kthPairs rows, S.contrib x.1 x.2 p) := by
  induction rows generalizing G prev with
  | nil => simp only [readKthBody] at e; cases e; simp [h, kthPairs]
  | cons r rs ih =>
    cases r with
    | comment => simpa [kthPairs_cons, kthRowPairs] using ih h (by simpa [readKthBody] using e)
    | blank => simpa [kthPairs_cons, kthRowPairs] using ih h (by simpa [readKthBody] using e)
    | spec s => simp [readKthBody] at e
    | adj a =>
      simp only [readKthBody] at e
      cases ha : kthAdj size a with
      | error x => rw [ha] at e; cases e
      | ok sp =>
        obtain ⟨succ, preds⟩ := sp
        rw [ha] at e
        simp only at e
        split at e
        · cases e
        · cases hp : addPreds C G succ preds with
          | error x => rw [hp] at e; cases e
          | ok G₁ =>
            rw [hp] at e
            simp only at e
            obtain ⟨l, r, rfl, hl, hr, _, _, _, _⟩ := kthAdj_ok ha
            rw [addPreds_eq] at hp
            obtain ⟨hv, hi, ho, hm⟩ := S.addAll_ok h hp
            obtain ⟨hi', ho', hv', hm'⟩ := ih hi e
            have key : kthRowPairs (.adj (some (l, r))) =
                preds.map (fun (v : Nat) => ((v : Int), (succ : Int))) := by
              simp only [kthRowPairs, hr, hl, List.map_map]; rfl
            refine ⟨hi', by rw [ho', ho], ?_, ?_⟩
            · intro x hx
              rw [kthPairs_cons, key, List.mem_append] at hx
              rcases hx with hx | hx
              · exact hv x hx
              · rw [← ho]; exact hv' x hx
            · intro p
              rw [hm', hm, kthPairs_cons, key]
              simp only [List.mem_append, or_and_right, exists_or, or_assoc]

include S in
theorem readKthBody_err {size : Nat} {rows : List KRow} {G : γ} {prev : Nat} {x : Err}
    (e : readKthBody C size G prev rows = .error x) : x = .valueError := by
  induction rows generalizing G prev with
  | nil => simp [readKthBody] at e
  | cons r rs ih =>
    cases r with
    | comment => exact ih (by simpa [readKthBody] using e)
    | blank => exact ih (by simpa [readKthBody] using e)
    | spec s => simp only [readKthBody] at e; cases e; rfl
    | adj a =>
      simp only [readKthBody] at e
      cases ha : kthAdj size a with
      | error y => rw [ha] at e; cases e; exact kthAdj_err ha
      | ok sp =>
        obtain ⟨succ, preds⟩ := sp
        rw [ha] at e
        simp only at e
        split at e
        · cases e; rfl
        · cases hp : addPreds C G succ preds with
          | error y => rw [hp] at e; cases e; rw [addPreds_eq] at hp; exact S.addAll_err hp
          | ok G₁ => rw [hp] at e; exact ih e

/-- T-C14.2 for `_read_nonbipartite_kthlist`: the only exception is ValueError, and an accepted
text yields a consistent object with the declared number of vertices and exactly the edges its
adjacency lines state -/
theorem readKth_contract (rows : List KRow) :
    (∀ x, readKth C rows = .error x → x = .valueError) ∧
    (∀ G, readKth C rows = .ok G → S.Inv G ∧ kthSize rows = some (C.order G : Int) ∧
      (∀ x ∈ kthPairs rows, S.Valid (C.order G) x.1 x.2) ∧
      ∀ p, p ∈ S.E G ↔ ∃ x ∈ kthPairs rows, S.contrib x.1 x.2 p) := by
  unfold readKth
  cases hh : kthHeader rows with
  | error y =>
    refine ⟨fun x e => ?_, fun G e => by cases e⟩
    cases e; exact kthHeader_err hh
  | ok sr =>
    obtain ⟨size, rest⟩ := sr
    simp only
    obtain ⟨hsize, hpairs⟩ := kthHeader_ok hh
    cases hb : readKthBody C size (C.init size) 0 rest with
    | error y =>
      refine ⟨fun x e => ?_, fun G e => by cases e⟩
      cases e; exact readKthBody_err S hb
    | ok G₁ =>
      simp only
      obtain ⟨hi, ho, hv, hm⟩ := readKthBody_ok S (S.init_inv size) hb
      rw [S.init_order] at ho hv
      constructor
      · intro x e
        split at e
        · cases e; rfl
        · cases e
      · intro G e
        split at e
        · cases e
        · cases e
          refine ⟨hi, by rw [hsize, ho], by rw [hpairs, ho]; exact hv, ?_⟩
          intro p
          rw [hm, S.init_E, hpairs]
          simp

end

/-! ### reading what the writer wrote -/

/-- the `add_edge` calls the reader makes on the lists of a written file -/
def listCalls (ls : List (Nat × List Nat)) : List (Int × Int) :=
  ls.flatMap (fun p => p.2.map (fun (v : Nat) => ((v : Int), (p.1 : Int))))

theorem mem_listCalls {ls : List (Nat × List Nat)} {x : Int × Int} :
    x ∈ listCalls ls ↔ ∃ p ∈ ls, ∃ v ∈ p.2, x = ((v : Int), (p.1 : Int)) := by
  simp only [listCalls, List.mem_flatMap, List.mem_map]
  constructor
  · rintro ⟨p, hp, v, hv, rfl⟩; exact ⟨p, hp, v, hv, rfl⟩
  · rintro ⟨p, hp, v, hv, rfl⟩; exact ⟨p, hp, v, hv, rfl⟩

theorem readKthBody_lists {γ : Type} (C : GClass γ) (size : Nat) (ls : List (Nat × List Nat)) (G : γ) (prev : Nat)
    (hsorted : (ls.map (·.1)).Pairwise (· < ·)) (hprev : ∀ p ∈ ls, prev < p.1)
    (hrange : ∀ p ∈ ls, (1 ≤ p.1 ∧ p.1 ≤ size) ∧ ∀ x ∈ p.2, 1 ≤ x ∧ x ≤ size) :
    readKthBody C size G prev (ls.map (fun p => kthAdjRow p.1 p.2) ++ [.blank]) =
      GSem.addAll C G (listCalls ls) := by
  induction ls generalizing G prev with
  | nil => simp [readKthBody, listCalls, GSem.addAll_nil]
  | cons p ps ih =>
    obtain ⟨v, ns⟩ := p
    have hr := hrange (v, ns) (List.mem_cons_self ..)
    have hlt : ¬ v ≤ prev := by have := hprev (v, ns) (List.mem_cons_self ..); simp only at this; omega
    simp only [List.map_cons, List.cons_append, kthAdjRow, readKthBody, kthAdj_row hr.1 hr.2, hlt, if_false]
    have hcalls : listCalls ((v, ns) :: ps) =
        ns.map (fun (x : Nat) => ((x : Int), (v : Int))) ++ listCalls ps := by
      simp [listCalls]
    rw [hcalls, GSem.addAll_append, addPreds_eq]
    cases GSem.addAll C G (ns.map (fun (x : Nat) => ((x : Int), (v : Int)))) with
    | error x => rfl
    | ok G₁ =>
      simp only
      have hs : (∀ a ∈ ps.map (·.1), v < a) ∧ (ps.map (·.1)).Pairwise (· < ·) := by
        simpa only [List.map_cons, List.pairwise_cons] using hsorted
      apply ih
      · exact hs.2
      · intro q hq
        exact hs.1 q.1 (List.mem_map.2 ⟨q, hq, rfl⟩)
      · intro q hq; exact hrange q (List.mem_cons_of_mem _ hq)

theorem kthHeader_comments (k : Nat) (rs : List KRow) :
    kthHeader (List.replicate k .comment ++ rs) = kthHeader rs := by
  induction k with
  | zero => rfl
  | succ k ih => simp only [List.replicate_succ, List.cons_append, kthHeader, ih]

theorem readKth_rows {γ : Type} (C : GClass γ) (k n : Nat) (ls : List (Nat × List Nat))
    (hsorted : (ls.map (·.1)).Pairwise (· < ·))
    (hrange : ∀ p ∈ ls, (1 ≤ p.1 ∧ p.1 ≤ n) ∧ ∀ x ∈ p.2, 1 ≤ x ∧ x ≤ n) :
    readKth C (kthRows k n ls) =
      match GSem.addAll C (C.init n) (listCalls ls) with
      | .error e => .error e
      | .ok G => if n ≠ C.order G then .error .valueError else .ok G := by
  have hn : ¬ ((n : Int) < 0) := by omega
  simp only [readKth, kthRows, kthHeader_comments, kthHeader, hn, if_false, Int.toNat_natCast]
  rw [readKthBody_lists C n ls (C.init n) 0 hsorted (fun p hp => (hrange p hp).1.1) hrange]
  cases GSem.addAll C (C.init n) (listCalls ls) <;> rfl

/-- vertices `1..n` in increasing order -/
theorem pairwise_range_succ (n : Nat) : ((List.range n).map (· + 1)).Pairwise (· < ·) := by
  rw [List.pairwise_map]
  exact List.pairwise_lt_range.imp (by omega)

/-- T-C14.1 (kthlist, simple graph) -/
theorem roundtrip_kth_simple (k : Nat) {G : SimpleG} (h : SimpleG.Inv G) :
    ∃ G', readKth simpleClass (writeKthSimple k G) = .ok G' ∧ SimpleG.Same G G' := by
  have hfirst : ((simpleLists G).map (·.1)) = (List.range G.n).map (· + 1) := by
    simp [simpleLists, Function.comp_def]
  have hrange : ∀ p ∈ simpleLists G, (1 ≤ p.1 ∧ p.1 ≤ G.n) ∧ ∀ x ∈ p.2, 1 ≤ x ∧ x ≤ G.n := by
    intro p hp
    simp only [simpleLists, List.mem_map, List.mem_range] at hp
    obtain ⟨i, hi, rfl⟩ := hp
    refine ⟨⟨by omega, by omega⟩, fun x hx => ?_⟩
    have := h.nbrs_range hx
    omega
  have hrows := readKth_rows simpleClass k G.n (simpleLists G) (by rw [hfirst]; exact pairwise_range_succ _) hrange
  have hvalid : ∀ x ∈ listCalls (simpleLists G), simpleSem.Valid (simpleClass.order (simpleClass.init G.n)) x.1 x.2 := by
    intro x hx
    obtain ⟨p, hp, v, hv, rfl⟩ := mem_listCalls.1 hx
    simp only [simpleLists, List.mem_map, List.mem_range] at hp
    obtain ⟨i, hi, rfl⟩ := hp
    have := h.nbrs_range hv
    show SimpleG.Valid G.n _ _
    unfold SimpleG.Valid
    omega
  obtain ⟨G', hG'⟩ := simpleSem.addAll_valid (simpleSem.init_inv G.n) hvalid
  obtain ⟨_, hi, ho, hm⟩ := simpleSem.addAll_ok (simpleSem.init_inv G.n) hG'
  have ho' : G'.n = G.n := ho
  refine ⟨G', ?_, SimpleG.same_of_inv h hi ho' ?_⟩
  · unfold writeKthSimple
    rw [hrows, hG']
    have : ¬ (G.n ≠ simpleClass.order G') := by simp [simpleClass, ho']
    simp only [this, if_false]
  · intro p
    have := hm p
    simp only [simpleSem, simpleClass, SimpleG.init, List.not_mem_nil, false_or] at this
    rw [this]
    obtain ⟨a, b⟩ := p
    constructor
    · rintro ⟨x, hx, hc⟩
      obtain ⟨q, hq, v, hv, rfl⟩ := mem_listCalls.1 hx
      simp only [simpleLists, List.mem_map, List.mem_range] at hq
      obtain ⟨i, hi, rfl⟩ := hq
      simp only [Int.toNat_natCast, Prod.mk.injEq] at hc
      have hmem := h.mem_nbrs.1 hv
      rcases hc with ⟨rfl, rfl⟩ | ⟨rfl, rfl⟩
      · exact h.symm _ _ hmem
      · exact hmem
    · intro hab
      have hr := h.range a b hab
      have hv : b ∈ G.nbrs a := h.mem_nbrs.2 hab
      refine ⟨((b : Int), (a : Int)), mem_listCalls.2 ⟨(a, G.nbrs a), ?_, b, hv, rfl⟩, ?_⟩
      · simp only [simpleLists, List.mem_map, List.mem_range]
        exact ⟨a - 1, by omega, by simp only [Prod.mk.injEq]; constructor <;> congr 1 <;> omega⟩
      · simp

/-- T-C14.1 (kthlist, directed graph; the same file is read for `digraph` and `dag`) -/
theorem roundtrip_kth_di (k : Nat) {G : DiG} (h : DiG.Inv G) :
    ∃ G', readKth diClass (writeKthDi k G) = .ok G' ∧ DiG.Same G G' := by
  have hfirst : ((diLists G).map (·.1)) = (List.range G.n).map (· + 1) := by
    simp [diLists, Function.comp_def]
  have hpr : ∀ {u v : Nat}, v ∈ G.preds u → 1 ≤ u ∧ u ≤ G.n ∧ 1 ≤ v ∧ v ≤ G.n := by
    intro u v hv
    have := h.range v u (h.mem_preds.1 hv)
    omega
  have hrange : ∀ p ∈ diLists G, (1 ≤ p.1 ∧ p.1 ≤ G.n) ∧ ∀ x ∈ p.2, 1 ≤ x ∧ x ≤ G.n := by
    intro p hp
    simp only [diLists, List.mem_map, List.mem_range] at hp
    obtain ⟨i, hi, rfl⟩ := hp
    refine ⟨⟨by omega, by omega⟩, fun x hx => ?_⟩
    have := hpr hx
    omega
  have hrows := readKth_rows diClass k G.n (diLists G) (by rw [hfirst]; exact pairwise_range_succ _) hrange
  have hvalid : ∀ x ∈ listCalls (diLists G), diSem.Valid (diClass.order (diClass.init G.n)) x.1 x.2 := by
    intro x hx
    obtain ⟨p, hp, v, hv, rfl⟩ := mem_listCalls.1 hx
    simp only [diLists, List.mem_map, List.mem_range] at hp
    obtain ⟨i, hi, rfl⟩ := hp
    have := hpr hv
    show DiG.Valid G.n _ _
    unfold DiG.Valid
    omega
  obtain ⟨G', hG'⟩ := diSem.addAll_valid (diSem.init_inv G.n) hvalid
  obtain ⟨_, hi, ho, hm⟩ := diSem.addAll_ok (diSem.init_inv G.n) hG'
  have ho' : G'.n = G.n := ho
  refine ⟨G', ?_, DiG.same_of_inv h hi ho' ?_⟩
  · unfold writeKthDi
    rw [hrows, hG']
    have : ¬ (G.n ≠ diClass.order G') := by simp [diClass, ho']
    simp only [this, if_false]
  · intro p
    have := hm p
    simp only [diSem, diClass, DiG.init, List.not_mem_nil, false_or] at this
    rw [this]
    obtain ⟨a, b⟩ := p
    constructor
    · rintro ⟨x, hx, hc⟩
      obtain ⟨q, hq, v, hv, rfl⟩ := mem_listCalls.1 hx
      simp only [diLists, List.mem_map, List.mem_range] at hq
      obtain ⟨i, hi, rfl⟩ := hq
      simp only [Int.toNat_natCast, Prod.mk.injEq] at hc
      obtain ⟨rfl, rfl⟩ := hc
      exact h.mem_preds.1 hv
    · intro hab
      have hr := h.range a b hab
      have hv : a ∈ G.preds b := h.mem_preds.2 hab
      refine ⟨((a : Int), (b : Int)), mem_listCalls.2 ⟨(b, G.preds b), ?_, a, hv, rfl⟩, ?_⟩
      · simp only [diLists, List.mem_map, List.mem_range]
        exact ⟨b - 1, by omega, by simp only [Prod.mk.injEq]; constructor <;> congr 1 <;> omega⟩
      · simp

end Cnfgen.GraphFmt
