/-
Assignments of a unary mapping group ↔ lists of images.
`EncL st k N α l` says: on the identifiers `st … st+k·N-1` the assignment `α` is the graph of the
function `i ↦ l[i-1]` from `1..k` to `1..N`.  Total functional relations are exactly the encodable
ones; the list is unique; two assignments encoding the same list agree on the group.
-/
import Lemmas.FamMapping
namespace Cnfgen
namespace Fam
namespace G2
open Vars

/-- image of `i` (1-based) under the table `l` -/
def img (l : List Nat) (i : Nat) : Nat := l.getD (i - 1) 0

theorem img_eq {l : List Nat} {i : Nat} (h1 : 1 ≤ i) (h2 : i ≤ l.length) :
    img l i = l[i - 1]'(by omega) := by
  have : i - 1 < l.length := by omega
  simp [img, List.getD, List.getElem?_eq_getElem this]

theorem img_mem {l : List Nat} {i : Nat} (h1 : 1 ≤ i) (h2 : i ≤ l.length) : img l i ∈ l := by
  rw [img_eq h1 h2]; exact List.getElem_mem _

theorem exists_img_of_mem {l : List Nat} {v : Nat} (h : v ∈ l) : ∃ i, 1 ≤ i ∧ i ≤ l.length ∧ img l i = v := by
  obtain ⟨p, hp, rfl⟩ := List.getElem_of_mem h
  exact ⟨p + 1, by omega, by omega, by rw [img_eq (by omega) (by omega)]; simp⟩

theorem img_map_range (f : Nat → Nat) {k i : Nat} (h1 : 1 ≤ i) (h2 : i ≤ k) :
    img ((List.range k).map (fun p => f (p + 1))) i = f i := by
  have : i - 1 < k := by omega
  simp [img, List.getD, this]
  congr 1; omega

theorem img_verts {n i : Nat} (h1 : 1 ≤ i) (h2 : i ≤ n) : img (verts n) i = i := by
  have : verts n = (List.range n).map (fun p => id (p + 1)) := by simp [verts, rangeN]
  rw [this, img_map_range id h1 h2]; rfl

/-- two tables of the same length with the same images are equal -/
theorem ext_img {l l' : List Nat} (hl : l.length = l'.length)
    (h : ∀ i, 1 ≤ i → i ≤ l.length → img l i = img l' i) : l = l' := by
  apply List.ext_getElem hl
  intro p hp hp'
  have := h (p + 1) (by omega) (by omega)
  rw [img_eq (by omega) (by omega), img_eq (by omega) (by omega)] at this
  simpa using this

/-- the relation induced by `α` on `1..k × 1..N` is the graph of a total function -/
def TotFun (st k N : Nat) (α : Assign) : Prop :=
  (∀ i, 1 ≤ i → i ≤ k → ∃ j, 1 ≤ j ∧ j ≤ N ∧ α (mapId st N i j) = true) ∧
  (∀ i, 1 ≤ i → i ≤ k → ∀ j, 1 ≤ j → j ≤ N → ∀ j', 1 ≤ j' → j' ≤ N →
      α (mapId st N i j) = true → α (mapId st N i j') = true → j = j')

structure EncL (st k N : Nat) (α : Assign) (l : List Nat) : Prop where
  len : l.length = k
  rng : ∀ v ∈ l, 1 ≤ v ∧ v ≤ N
  enc : ∀ i, 1 ≤ i → i ≤ k → ∀ j, 1 ≤ j → j ≤ N → (α (mapId st N i j) = true ↔ img l i = j)

theorem EncL.img_rng {st k N : Nat} {α : Assign} {l : List Nat} (h : EncL st k N α l) {i : Nat}
    (h1 : 1 ≤ i) (h2 : i ≤ k) : 1 ≤ img l i ∧ img l i ≤ N :=
  h.rng _ (img_mem h1 (by rw [h.len]; exact h2))

theorem EncL.holds_img {st k N : Nat} {α : Assign} {l : List Nat} (h : EncL st k N α l) {i : Nat}
    (h1 : 1 ≤ i) (h2 : i ≤ k) : α (mapId st N i (img l i)) = true :=
  (h.enc i h1 h2 _ (h.img_rng h1 h2).1 (h.img_rng h1 h2).2).2 rfl

theorem EncL.totFun {st k N : Nat} {α : Assign} {l : List Nat} (h : EncL st k N α l) : TotFun st k N α := by
  constructor
  · intro i h1 h2
    exact ⟨img l i, (h.img_rng h1 h2).1, (h.img_rng h1 h2).2, h.holds_img h1 h2⟩
  · intro i h1 h2 j hj1 hj2 j' hj1' hj2' ha hb
    rw [h.enc i h1 h2 j hj1 hj2] at ha
    rw [h.enc i h1 h2 j' hj1' hj2'] at hb
    omega

theorem TotFun.exists_encL {st k N : Nat} {α : Assign} (h : TotFun st k N α) : ∃ l, EncL st k N α l := by
  classical
  let f : Nat → Nat := fun i =>
    if hi : 1 ≤ i ∧ i ≤ k then Classical.choose (h.1 i hi.1 hi.2) else 0
  have hf : ∀ i, 1 ≤ i → i ≤ k → 1 ≤ f i ∧ f i ≤ N ∧ α (mapId st N i (f i)) = true := by
    intro i h1 h2
    have := Classical.choose_spec (h.1 i h1 h2)
    simp only [f, h1, h2, and_self, dite_true]
    exact this
  refine ⟨(List.range k).map (fun p => f (p + 1)), ?_, ?_, ?_⟩
  · simp
  · intro v hv
    simp only [List.mem_map, List.mem_range] at hv
    obtain ⟨p, hp, rfl⟩ := hv
    have := hf (p + 1) (by omega) (by omega)
    exact ⟨this.1, this.2.1⟩
  · intro i h1 h2 j hj1 hj2
    rw [img_map_range f h1 h2]
    have := hf i h1 h2
    constructor
    · intro ha; exact h.2 i h1 h2 _ this.1 this.2.1 _ hj1 hj2 this.2.2 ha
    · intro e; rw [← e]; exact this.2.2

theorem totFun_iff_exists_encL {st k N : Nat} {α : Assign} : TotFun st k N α ↔ ∃ l, EncL st k N α l :=
  ⟨TotFun.exists_encL, fun ⟨_, h⟩ => h.totFun⟩

theorem EncL.unique {st k N : Nat} {α : Assign} {l l' : List Nat} (h : EncL st k N α l) (h' : EncL st k N α l') :
    l = l' := by
  apply ext_img (by rw [h.len, h'.len])
  intro i h1 h2
  rw [h.len] at h2
  have := h.holds_img h1 h2
  rw [h'.enc i h1 h2 _ (h.img_rng h1 h2).1 (h.img_rng h1 h2).2] at this
  exact this.symm

/-- assignments that encode the same table agree on the whole group -/
theorem EncL.agree {st k N : Nat} {α β : Assign} {l : List Nat} (h : EncL st k N α l) (h' : EncL st k N β l)
    {x : Nat} (h1 : st ≤ x) (h2 : x < st + k * N) : α x = β x := by
  obtain ⟨u, v, hu1, hu, hv1, hv, rfl⟩ := mapId_surj h1 h2
  have a := h.enc u hu1 hu v hv1 hv
  have b := h'.enc u hu1 hu v hv1 hv
  rw [Bool.eq_iff_iff, a, b]

/-- if `α` and `β` agree on the group they encode the same tables -/
theorem EncL.congr {st k N : Nat} {α β : Assign} {l : List Nat} (h : EncL st k N α l)
    (hab : ∀ x, st ≤ x → x < st + k * N → α x = β x) : EncL st k N β l := by
  refine ⟨h.len, h.rng, ?_⟩
  intro i h1 h2 j hj1 hj2
  have := mapId_lt (st := st) h1 h2 hj1 hj2
  rw [← hab _ this.1 this.2]
  exact h.enc i h1 h2 j hj1 hj2

/-! ### the assignment of a table -/

theorem mapId_div {st N u v : Nat} (_hu : 1 ≤ u) (hv1 : 1 ≤ v) (hv : v ≤ N) :
    (mapId st N u v - st) / N = u - 1 := by
  unfold mapId
  have hN : 0 < N := by omega
  have : st + (u - 1) * N + (v - 1) - st = N * (u - 1) + (v - 1) := by rw [Nat.mul_comm]; omega
  rw [this, Nat.mul_add_div hN, Nat.div_eq_of_lt (by omega)]; omega

theorem mapId_mod {st N u v : Nat} (_hu : 1 ≤ u) (hv1 : 1 ≤ v) (hv : v ≤ N) :
    (mapId st N u v - st) % N = v - 1 := by
  unfold mapId
  have : st + (u - 1) * N + (v - 1) - st = N * (u - 1) + (v - 1) := by rw [Nat.mul_comm]; omega
  rw [this, Nat.mul_add_mod, Nat.mod_eq_of_lt (by omega)]

/-- the assignment whose true variables are exactly `f(i) = l[i-1]` -/
def encode (st k N : Nat) (l : List Nat) : Assign :=
  fun x => decide (st ≤ x ∧ x < st + k * N ∧ l.getD ((x - st) / N) 0 = (x - st) % N + 1)

theorem encode_encL {st k N : Nat} {l : List Nat} (hlen : l.length = k) (hr : ∀ v ∈ l, 1 ≤ v ∧ v ≤ N) :
    EncL st k N (encode st k N l) l := by
  refine ⟨hlen, hr, ?_⟩
  intro i h1 h2 j hj1 hj2
  have hb := mapId_lt (st := st) h1 h2 hj1 hj2
  simp only [encode, decide_eq_true_eq, mapId_div h1 hj1 hj2, mapId_mod h1 hj1 hj2, img]
  constructor
  · rintro ⟨_, _, h⟩; omega
  · intro h; exact ⟨hb.1, hb.2, by omega⟩

theorem encode_support {st k N : Nat} {l : List Nat} {x : Nat} (h : encode st k N l x = true) :
    st ≤ x ∧ x < st + k * N := by
  simp only [encode, decide_eq_true_eq] at h; exact ⟨h.1, h.2.1⟩

/-! ### properties of the relation, read on the table -/

theorem EncL.rel_iff {st k N : Nat} {α : Assign} {l : List Nat} (h : EncL st k N α l)
    {i j : Nat} (h1 : 1 ≤ i) (h2 : i ≤ k) (hj1 : 1 ≤ j) (hj2 : j ≤ N) :
    α (mapId st N i j) = true ↔ img l i = j := h.enc i h1 h2 j hj1 hj2

/-- injectivity of the relation = the table has no repetition -/
theorem EncL.injective_iff {st k N : Nat} {α : Assign} {l : List Nat} (h : EncL st k N α l) :
    (∀ j, 1 ≤ j → j ≤ N → ∀ i, 1 ≤ i → i ≤ k → ∀ i', 1 ≤ i' → i' ≤ k →
        α (mapId st N i j) = true → α (mapId st N i' j) = true → i = i') ↔ l.Nodup := by
  constructor
  · intro hinj
    rw [List.nodup_iff_pairwise_ne, List.pairwise_iff_getElem]
    intro p q hp hq hpq e
    have hlen := h.len
    have r1 := h.img_rng (i := p + 1) (by omega) (by omega)
    have e1 : img l (p + 1) = l[p] := by rw [img_eq (by omega) (by omega)]; simp
    have e2 : img l (q + 1) = l[q] := by rw [img_eq (by omega) (by omega)]; simp
    have a := h.holds_img (i := p + 1) (by omega) (by omega)
    have b := h.holds_img (i := q + 1) (by omega) (by omega)
    rw [e2, ← e, ← e1] at b
    have := hinj _ r1.1 r1.2 (p + 1) (by omega) (by omega) (q + 1) (by omega) (by omega) a b
    omega
  · intro hnd j hj1 hj2 i h1 h2 i' h1' h2' ha hb
    rw [h.rel_iff h1 h2 hj1 hj2] at ha
    rw [h.rel_iff h1' h2' hj1 hj2] at hb
    rw [List.nodup_iff_pairwise_ne, List.pairwise_iff_getElem] at hnd
    have hlen := h.len
    rw [img_eq h1 (by omega)] at ha
    rw [img_eq h1' (by omega)] at hb
    rcases Nat.lt_trichotomy i i' with hlt | heq | hgt
    · exact absurd (ha.trans hb.symm) (hnd (i - 1) (i' - 1) (by omega) (by omega) (by omega))
    · exact heq
    · exact absurd (hb.trans ha.symm) (hnd (i' - 1) (i - 1) (by omega) (by omega) (by omega))

/-- surjectivity of the relation = every element of the range is in the table -/
theorem EncL.surjective_iff {st k N : Nat} {α : Assign} {l : List Nat} (h : EncL st k N α l) :
    (∀ j, 1 ≤ j → j ≤ N → ∃ i, 1 ≤ i ∧ i ≤ k ∧ α (mapId st N i j) = true) ↔
      ∀ j, 1 ≤ j → j ≤ N → j ∈ l := by
  constructor
  · intro hs j hj1 hj2
    obtain ⟨i, h1, h2, ha⟩ := hs j hj1 hj2
    rw [h.rel_iff h1 h2 hj1 hj2] at ha
    rw [← ha]; exact img_mem h1 (by rw [h.len]; exact h2)
  · intro hs j hj1 hj2
    obtain ⟨i, h1, h2, e⟩ := exists_img_of_mem (hs j hj1 hj2)
    rw [h.len] at h2
    exact ⟨i, h1, h2, (h.rel_iff h1 h2 hj1 hj2).2 e⟩

/-- a binary condition on pairs of the relation with increasing first components, read on the table -/
theorem EncL.pairs_iff {st k N : Nat} {α : Assign} {l : List Nat} (h : EncL st k N α l) (P : Nat → Nat → Nat → Nat → Prop) :
    (∀ i, 1 ≤ i → ∀ i', i < i' → i' ≤ k → ∀ j, 1 ≤ j → j ≤ N → ∀ j', 1 ≤ j' → j' ≤ N →
        α (mapId st N i j) = true → α (mapId st N i' j') = true → P i i' j j') ↔
      ∀ i, 1 ≤ i → ∀ i', i < i' → i' ≤ k → P i i' (img l i) (img l i') := by
  constructor
  · intro hp i h1 i' hlt h2'
    have r := h.img_rng (i := i) h1 (by omega)
    have r' := h.img_rng (i := i') (by omega) h2'
    exact hp i h1 i' hlt h2' _ r.1 r.2 _ r'.1 r'.2 (h.holds_img h1 (by omega)) (h.holds_img (by omega) h2')
  · intro hp i h1 i' hlt h2' j hj1 hj2 j' hj1' hj2' ha hb
    rw [h.rel_iff h1 (by omega) hj1 hj2] at ha
    rw [h.rel_iff (by omega) h2' hj1' hj2'] at hb
    subst ha; subst hb
    exact hp i h1 i' hlt h2'

/-- a condition on all pairs of positions of the table, as `List.Pairwise` -/
theorem pairwise_img_iff {l : List Nat} {k : Nat} (hlen : l.length = k) (R : Nat → Nat → Prop) :
    (∀ i, 1 ≤ i → ∀ i', i < i' → i' ≤ k → R (img l i) (img l i')) ↔ l.Pairwise R := by
  rw [List.pairwise_iff_getElem]
  constructor
  · intro h p q hp hq hpq
    have := h (p + 1) (by omega) (q + 1) (by omega) (by omega)
    rw [img_eq (by omega) (by omega), img_eq (by omega) (by omega)] at this
    simpa using this
  · intro h i h1 i' hlt h2
    rw [img_eq h1 (by omega), img_eq (by omega) (by omega)]
    exact h (i - 1) (i' - 1) (by omega) (by omega) (by omega)

end G2
end Fam
end Cnfgen
