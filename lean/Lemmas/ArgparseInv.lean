/-
An invariant principle for the argparse engine (CnfgenModel/Cli/Argparse.lean): a property `K ps ns` of (positionals
not yet consumed, bindings made) that every action of an optional preserves and every action of the NEXT positional
carries to the rest of the positionals holds at the end (`engine_inv`).  Two instances: the bindings are typed by the
options that made them (`engine_sound`), every positional is bound (`engine_bound`).
-/
import CnfgenModel.Cli.Argparse
import Lemmas.ArgparseTotal
namespace Cnfgen.Cli.AP
open Cnfgen.Gen Cnfgen.Cli

/-- `K` is kept by the actions -/
structure EngInv (bind : Bind) (Go Gp : OptSpec → Prop) (K : List OptSpec → Ns → Prop) : Prop where
  opt : ∀ o toks b ps ns, Go o → bind o toks = .ok b → K ps ns → K ps (b ++ ns)
  pos : ∀ o toks b ps ns, Gp o → bind o toks = .ok b → K (o :: ps) ns → K ps (b ++ ns)

/-! ### an optional never touches the list of positionals -/

theorem takeAction_keep (bind : Bind) (o : OptSpec) (toks : List String) (st st' : PState)
    (h : takeAction bind o toks st = .ok st') : st'.ps = st.ps := by
  unfold takeAction at h
  split at h
  · simp at h
  · split at h
    · simp at h
    · simp at h; subst h; rfl

theorem runFlags_keep (bind : Bind) : ∀ (l : List Target) (st st' : PState), runFlags bind l st = .ok st' →
    st'.ps = st.ps := by
  intro l
  induction l with
  | nil => intro st st' h; unfold runFlags at h; simp at h; subst h; rfl
  | cons tg rest ih =>
    intro st st' h
    cases tg with
    | help => unfold runFlags at h; simp at h
    | opt o =>
      unfold runFlags at h
      split at h
      · simp at h
      · rename_i st1 h1
        rw [ih st1 st' h, takeAction_keep bind o _ st st1 h1]

theorem stepOpt_keep (bind : Bind) (strs : List (String × Target)) (oi : OptItem) (run run' : Run)
    (st st' : PState) (h : stepOpt bind strs oi run st = .ok (st', run')) : st'.ps = st.ps := by
  unfold stepOpt at h
  cases oi with
  | unknown => simp at h; rw [← h.1]
  | known tg os ex =>
    dsimp only at h
    unfold consumeOptX at h
    split at h
    · simp at h
    · split at h
      · simp at h
      · split at h
        · simp at h
        · rename_i st1 hf
          split at h
          · simp at h
          · rename_i st2 hl
            simp at h
            obtain ⟨rfl, _⟩ := h
            have e1 := runFlags_keep bind _ st st1 hf
            unfold lastAction at hl
            split at hl
            · simp at hl
            · split at hl
              · simp at hl
              · rw [takeAction_keep bind _ _ st1 st2 hl, e1]

section inv
variable {bind : Bind} {Go Gp : OptSpec → Prop} {K : List OptSpec → Ns → Prop} (hK : EngInv bind Go Gp K)
include hK

theorem takeAction_ns (o : OptSpec) (toks : List String) (st st' : PState)
    (h : takeAction bind o toks st = .ok st') : ∃ b, bind o toks = .ok b ∧ st'.ns = b ++ st.ns ∧ st'.ps = st.ps := by
  unfold takeAction at h
  split at h
  · simp at h
  · split at h
    · simp at h
    · rename_i b hb
      simp at h; subst h
      exact ⟨b, hb, rfl, rfl⟩

theorem applyPosX_inv : ∀ (l : List OptSpec) (sls : List (List String)) (i : Nat) (ddg : Option Nat)
    (st st' : PState) (tail : List OptSpec), (∀ o ∈ l, Gp o) → K (l ++ tail) st.ns →
    applyPosX bind l sls i ddg st = .ok st' → K (l.drop sls.length ++ tail) st'.ns := by
  intro l
  induction l with
  | nil =>
    intro sls i ddg st st' tail _ hk h
    unfold applyPosX at h
    simp at h; subst h
    simpa using hk
  | cons o os ih =>
    intro sls i ddg st st' tail hg hk h
    cases sls with
    | nil => unfold applyPosX at h; simp at h; subst h; simpa using hk
    | cons sl sls =>
      unfold applyPosX at h
      split at h
      · simp at h
      · rename_i st1 h1
        obtain ⟨b, hb, hns, _⟩ := takeAction_ns hK o _ st st1 h1
        have hk1 : K (os ++ tail) st1.ns := by
          rw [hns]
          exact hK.pos o _ b (os ++ tail) st.ns (hg o (by simp)) hb (by simpa using hk)
        have := ih sls (i + 1) ddg st1 st' tail (fun o' ho' => hg o' (by simp [ho'])) hk1 h
        simpa using this

theorem slices_length : ∀ (cs : List Nat) (toks : List String), (slices cs toks).length = cs.length := by
  intro cs
  induction cs with
  | nil => intro toks; rfl
  | cons c cs ih => intro toks; simp [slices, ih]

theorem consumePosX_inv (run : Run) (final : Bool) (st st' : PState) (hg : ∀ o ∈ st.ps, Gp o)
    (hk : K st.ps st.ns) (h : consumePosX bind run final st = .ok st') : K st'.ps st'.ns := by
  unfold consumePosX at h
  split at h
  · simp at h; subst h; exact hk
  · split at h
    · simp at h
    · rename_i st1 h1
      simp at h; subst h
      have := applyPosX_inv hK st.ps _ 0 _ st st1 [] hg (by simpa using hk) h1
      rw [slices_length hK] at this
      simpa using this

theorem runFlags_inv : ∀ (l : List Target) (st st' : PState), (∀ o, Target.opt o ∈ l → Go o) →
    K st.ps st.ns → runFlags bind l st = .ok st' → K st'.ps st'.ns := by
  intro l
  induction l with
  | nil => intro st st' _ hk h; unfold runFlags at h; simp at h; subst h; exact hk
  | cons tg rest ih =>
    intro st st' hl hk h
    cases tg with
    | help => unfold runFlags at h; simp at h
    | opt o =>
      unfold runFlags at h
      split at h
      · simp at h
      · rename_i st1 h1
        obtain ⟨b, hb, hns, hps⟩ := takeAction_ns hK o _ st st1 h1
        apply ih st1 st' (fun o' ho' => hl o' (by simp [ho'])) _ h
        rw [hns, hps]
        exact hK.opt o _ b st.ps st.ns (hl o (by simp)) hb hk

end inv

section loop
variable {bind : Bind} {Go Gp : OptSpec → Prop} {K : List OptSpec → Ns → Prop} (hK : EngInv bind Go Gp K)
variable (strs : List (String × Target)) (ha : ∀ tg, TgIn strs tg → OptArity tg)
variable (hg : ∀ o, TgIn strs (.opt o) → Go o)
include hK ha hg

theorem consumeOptX_inv (tg : Target) (htg : TgIn strs tg) (os : String) (ex : Option String) (run run' : Run)
    (st st' : PState) (hk : K st.ps st.ns) (h : consumeOptX bind strs tg os ex run st = .ok (st', run')) :
    K st'.ps st'.ns := by
  unfold consumeOptX at h
  split at h
  · simp at h
  · rename_i flags last lex hch
    -- the targets of the chain belong to the parser
    have hchain : (∀ tg' ∈ flags, TgIn strs tg') ∧ TgIn strs last := by
      unfold chainOf at hch
      cases ex with
      | none => simp at hch; obtain ⟨rfl, rfl, rfl⟩ := hch; exact ⟨by simp, htg⟩
      | some e =>
        have := (cluster_tot strs ha e.toList tg (singleDash os) (ha tg htg)).2 flags last lex hch
        refine ⟨fun x hx => ?_, ?_⟩
        · rcases this.1 x hx with rfl | g
          · exact htg
          · exact g
        · rcases this.2.1 with rfl | g
          · exact htg
          · exact g
    split at h
    · simp at h
    · rename_i toks run1 _
      split at h
      · simp at h
      · rename_i st1 hf
        have hk1 := runFlags_inv hK flags st st1 (fun o ho => hg o (hchain.1 _ ho)) hk hf
        split at h
        · simp at h
        · rename_i st2 hl
          simp at h
          obtain ⟨rfl, _⟩ := h
          unfold lastAction at hl
          cases last with
          | help => simp at hl
          | opt o =>
            dsimp only at hl
            split at hl
            · simp at hl
            obtain ⟨b, hb, hns, hps⟩ := takeAction_ns hK o _ st1 st2 hl
            rw [hns, hps]
            exact hK.opt o _ b st1.ps st1.ns (hg o hchain.2) hb hk1

theorem runSegs_inv : ∀ (ss : List (OptItem × Run)) (st st' : PState),
    (∀ tg os ex run, (OptItem.known tg os ex, run) ∈ ss → TgIn strs tg) → (∀ o ∈ st.ps, Gp o) →
    K st.ps st.ns → runSegs bind strs ss st = .ok st' → K st'.ps st'.ns := by
  intro ss
  induction ss with
  | nil => intro st st' _ _ hk h; unfold runSegs at h; simp at h; subst h; exact hk
  | cons x rest ih =>
    intro st st' hss hps hk h
    obtain ⟨oi, run⟩ := x
    unfold runSegs at h
    split at h
    · simp at h
    · rename_i st1 run1 hs
      have hps1e := stepOpt_keep bind strs oi run run1 st st1 hs
      have hk1 : K st1.ps st1.ns := by
        unfold stepOpt at hs
        cases oi with
        | unknown => simp at hs; obtain ⟨rfl, _⟩ := hs; exact hk
        | known tg os ex =>
          dsimp only at hs
          exact consumeOptX_inv hK strs ha hg tg (hss tg os ex run (by simp)) os ex run run1 st st1 hk hs
      split at h
      · simp at h
      · rename_i st2 hc
        have hps1 : ∀ o ∈ st1.ps, Gp o := by rw [hps1e]; exact hps
        have hk2 := consumePosX_inv hK run1 rest.isEmpty st1 st2 hps1 hk1 hc
        have hps2 : ∀ o ∈ st2.ps, Gp o := by
          unfold consumePosX at hc
          split at hc
          · simp at hc; subst hc; exact hps1
          · split at hc
            · simp at hc
            · simp at hc; subst hc
              intro o ho
              exact hps1 o (List.mem_of_mem_drop ho)
        exact ih st2 st' (fun tg os ex run h' => hss tg os ex run (List.mem_cons_of_mem _ h')) hps2 hk2 h

end loop

/-- THE INVARIANT PRINCIPLE -/
theorem engine_inv {bind : Bind} {Go Gp : OptSpec → Prop} {K : List OptSpec → Ns → Prop}
    (hK : EngInv bind Go Gp K)
    (p : PSpec) (ha : ∀ o ∈ p.opts, o.arity = .zero ∨ o.arity = .one ∨ o.arity = .plus)
    (hgo : ∀ o ∈ p.opts, Go o) (hgp : ∀ o ∈ p.poss, Gp o) (argv : List String) (ns : Ns) (h0 : K p.poss [])
    (h : engine bind p argv = .ok ns) : K [] ns := by
  have hin : ∀ o, TgIn p.strings (.opt o) → o ∈ p.opts := by
    intro o ⟨y, hy, hyo⟩
    unfold PSpec.strings optStrings at hy
    simp only [List.mem_append, List.mem_cons, List.mem_flatMap, List.mem_map] at hy
    rcases hy with (rfl | rfl | h) | h
    · simp at hyo
    · simp at hyo
    · simp at h
    · obtain ⟨o', ho', f, _, rfl⟩ := h
      simp at hyo; subst hyo; exact ho'
  have ha' : ∀ tg, TgIn p.strings tg → OptArity tg := by
    intro tg htg
    cases tg with
    | help => exact Or.inl rfl
    | opt o => exact ha o (hin o htg)
  have hg' : ∀ o, TgIn p.strings (.opt o) → Go o := fun o h => hgo o (hin o h)
  unfold engine engineItems at h
  split at h
  · simp at h
  · split at h
    · simp at h
    · rename_i st0 h0'
      have hss : ∀ tg os ex run, (OptItem.known tg os ex, run) ∈ (segs (itemize p.strings argv)).2 →
          TgIn p.strings tg := by
        intro tg os ex run h
        exact itemize_TgIn p.strings argv tg os ex (segs_known (itemize p.strings argv) tg os ex run h)
      have hps0 : ∀ o ∈ p.poss, Gp o := hgp
      have hk0 := consumePosX_inv hK _ _ ⟨p.poss, [], false, []⟩ st0 hps0 h0 h0'
      have hps0' : ∀ o ∈ st0.ps, Gp o := by
        unfold consumePosX at h0'
        split at h0'
        · simp at h0'; subst h0'; exact hps0
        · split at h0'
          · simp at h0'
          · simp at h0'; subst h0'
            intro o ho
            exact hps0 o (List.mem_of_mem_drop ho)
      unfold finish at h
      split at h
      · simp at h
      · rename_i st hr
        have hk := runSegs_inv hK p.strings ha' hg' _ st0 st hss hps0' hk0 hr
        split at h
        · simp at h
        · rename_i hfin
          simp at h; subst h
          simp only [Bool.or_eq_true, Bool.not_eq_true', not_or, Bool.not_eq_true] at hfin
          have : st.ps = [] := by
            have := hfin.1.1
            cases hp : st.ps <;> simp_all
          rw [this] at hk
          exact hk

end Cnfgen.Cli.AP
