/-
Closed forms for the exact maximum when nothing is planted:
`all_clauses(k,n,[])` has `C(n,k)·2^k` members, `all_good_parities(k,n,[])` has `2·C(n,k)`.
-/
import Lemmas.RandKXOR
import Mathlib.Data.Nat.Choose.Basic
namespace Cnfgen.Rand
open Cnfgen

theorem length_combos {α : Type} (l : List α) (k : Nat) : (combos l k).length = l.length.choose k := by
  induction l generalizing k with
  | nil => cases k <;> simp [combos]
  | cons x xs ih =>
    cases k with
    | zero => simp [combos]
    | succ k => simp [combos, ih, Nat.choose_succ_succ]

theorem length_flatMap_const {α β : Type} (l : List α) (f : α → List β) (c : Nat)
    (h : ∀ x ∈ l, (f x).length = c) : (l.flatMap f).length = l.length * c := by
  induction l with
  | nil => simp
  | cons x xs ih =>
    simp only [List.flatMap_cons, List.length_append, List.length_cons]
    rw [h x (by simp), ih (fun y hy => h y (by simp [hy])), Nat.add_mul]; omega

theorem length_productRep {α : Type} (l : List α) (k : Nat) : (productRep l k).length = l.length ^ k := by
  induction k with
  | zero => simp [productRep]
  | succ k ih =>
    simp only [productRep]
    rw [length_flatMap_const l _ (l.length ^ k) (fun x _ => by simp [ih]), Nat.pow_succ, Nat.mul_comm]

/-- without planted assignments the exact maximum is `C(n,k)·2^k` -/
theorem length_allClauses_nil (k n : Nat) : (allClauses k n []).length = n.choose k * 2 ^ k := by
  unfold allClauses
  rw [length_flatMap_const _ _ (2 ^ k)]
  · rw [length_combos]; simp [vars]
  · intro dom _
    have : ∀ c : Clause, clauseSatisfied c [] = true := fun c => by simp [clauseSatisfied]
    simp [this, length_productRep]

theorem goodParitiesOf_nil (Xs : List (List Int)) :
    ∃ full, goodParitiesOf [] Xs = .ok full ∧ full.length = 2 * Xs.length := by
  induction Xs with
  | nil => exact ⟨[], rfl, rfl⟩
  | cons X Xs ih =>
    obtain ⟨rest, h1, h2⟩ := ih
    refine ⟨[(X, 0)] ++ [(X, 1)] ++ rest, ?_, by simp [h2]; omega⟩
    simp [goodParitiesOf, paritySatisfied, h1]

/-- without planted assignments the exact maximum is `2·C(n,k)` -/
theorem length_allGoodParities_nil (k n : Nat) :
    ∃ full, allGoodParities k n [] = .ok full ∧ full.length = 2 * n.choose k := by
  obtain ⟨full, h1, h2⟩ := goodParitiesOf_nil (combos (vars n) k)
  refine ⟨full, h1, ?_⟩
  rw [h2, length_combos]; simp [vars]

end Cnfgen.Rand
