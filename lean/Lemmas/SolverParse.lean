/-
Helper lemmas for C20: the `s`/`v` loop (`runLines`) read line by line, and rendered
well-formed solver answers.
-/
import Lemmas.SolverTokens
namespace Cnfgen.Solver

/-! ### line-by-line reading of the loop -/

/-- the exception the loop raises at this line, if any (a value line with a non-integer word:
the `ValueError` of `int()` re-raised as `RuntimeError`; status lines never raise) -/
def lineErr (l : Str) : Option Err :=
  match l with
  | [] => none
  | c :: _ =>
    if c = 'v' then
      match catchValueError (vInts l) with
      | .error e => some e
      | .ok _ => none
    else none

/-- `some r`: the line is a status line and sets `result := r` -/
def lineVerdict (l : Str) : Option (Option Bool) :=
  match l with
  | [] => none
  | c :: _ => if c = 's' then some (verdictOfWords (pySplit l)) else none

/-- the integers a value line contributes to `witness` -/
def lineLits (l : Str) : List Int :=
  match l with
  | [] => []
  | c :: _ =>
    if c = 'v' then
      match vInts l with
      | .ok ws => ws
      | .error _ => []
    else []

def applyVerdict (r : Option Bool) (l : Str) : Option Bool :=
  match lineVerdict l with
  | some v => v
  | none => r

/-- `result` after the loop when it started as `init` -/
def lastVerdict (init : Option Bool) (lines : List Str) : Option Bool :=
  lines.foldl applyVerdict init

theorem s_ne_v : ('s' : Char) ≠ 'v' := by decide

theorem stepLine_ok (st : PState) (l : Str) (h : lineErr l = none) :
    stepLine st l = .ok ⟨applyVerdict st.result l, st.witness ++ lineLits l⟩ := by
  cases l with
  | nil => simp [stepLine, applyVerdict, lineVerdict, lineLits]
  | cons c cs =>
    by_cases hv : c = 'v'
    · subst hv
      have hs : ('v' : Char) ≠ 's' := by decide
      simp only [lineErr, if_true] at h
      simp only [stepLine, applyVerdict, lineVerdict, lineLits, hs, if_false, if_true]
      split at h
      · cases h
      · rename_i ws heq
        have hv := (catchValueError_ok _ _).mp heq
        simp [hv, catchValueError]
    · by_cases hs : c = 's'
      · subst hs
        simp [stepLine, applyVerdict, lineVerdict, lineLits, hv]
      · simp [stepLine, applyVerdict, lineVerdict, lineLits, hs, hv]

theorem stepLine_err (st : PState) (l : Str) (e : Err) (h : lineErr l = some e) :
    stepLine st l = .error e := by
  cases l with
  | nil => simp [lineErr] at h
  | cons c cs =>
    by_cases hv : c = 'v'
    · subst hv
      simp only [lineErr, if_true] at h
      simp only [stepLine, if_true]
      split at h
      · rename_i e' heq
        injection h with h; subst h
        simp [heq]
      · cases h
    · simp [lineErr, hv] at h

theorem lineErr_of_stepLine_ok (st st' : PState) (l : Str) (h : stepLine st l = .ok st') :
    lineErr l = none := by
  cases he : lineErr l with
  | none => rfl
  | some e => rw [stepLine_err st l e he] at h; cases h

theorem runLines_ok (st : PState) (lines : List Str) (h : ∀ l ∈ lines, lineErr l = none) :
    runLines st lines = .ok ⟨lastVerdict st.result lines, st.witness ++ lines.flatMap lineLits⟩ := by
  induction lines generalizing st with
  | nil => simp [runLines, lastVerdict]
  | cons l ls ih =>
    have hl := h l (by simp)
    have hls : ∀ x ∈ ls, lineErr x = none := fun x hx => h x (by simp [hx])
    simp only [runLines, stepLine_ok st l hl]
    rw [ih _ hls]
    simp [lastVerdict, List.flatMap_cons, List.append_assoc]

theorem runLines_err (st : PState) (pre post : List Str) (bad : Str) (e : Err)
    (hpre : ∀ l ∈ pre, lineErr l = none) (hbad : lineErr bad = some e) :
    runLines st (pre ++ bad :: post) = .error e := by
  induction pre generalizing st with
  | nil => simp [runLines, stepLine_err st bad e hbad]
  | cons l ls ih =>
    have hl := hpre l (by simp)
    have hls : ∀ x ∈ ls, lineErr x = none := fun x hx => hpre x (by simp [hx])
    simp only [List.cons_append, runLines, stepLine_ok st l hl]
    exact ih _ hls

theorem lineErr_of_runLines_ok (st st' : PState) (lines : List Str)
    (h : runLines st lines = .ok st') : ∀ l ∈ lines, lineErr l = none := by
  induction lines generalizing st with
  | nil => simp
  | cons l ls ih =>
    simp only [runLines] at h
    cases hs : stepLine st l with
    | error e => rw [hs] at h; cases h
    | ok st1 =>
      rw [hs] at h
      intro x hx
      simp only [List.mem_cons] at hx
      rcases hx with rfl | hx
      · exact lineErr_of_stepLine_ok st st1 _ hs
      · exact ih st1 h x hx

theorem lastVerdict_append (init : Option Bool) (a b : List Str) :
    lastVerdict init (a ++ b) = lastVerdict (lastVerdict init a) b := by
  simp [lastVerdict, List.foldl_append]

theorem lastVerdict_no_status (init : Option Bool) (lines : List Str)
    (h : ∀ l ∈ lines, lineVerdict l = none) : lastVerdict init lines = init := by
  induction lines generalizing init with
  | nil => rfl
  | cons l ls ih =>
    have hl := h l (by simp)
    have hls : ∀ x ∈ ls, lineVerdict x = none := fun x hx => h x (by simp [hx])
    simp only [lastVerdict, List.foldl_cons, applyVerdict, hl]
    exact ih _ hls

/-- the LAST status line decides -/
theorem lastVerdict_last (init : Option Bool) (pre post : List Str) (sl : Str) (v : Option Bool)
    (hs : lineVerdict sl = some v) (hpost : ∀ l ∈ post, lineVerdict l = none) :
    lastVerdict init (pre ++ sl :: post) = v := by
  rw [lastVerdict_append]
  simp only [lastVerdict, List.foldl_cons, applyVerdict, hs]
  exact lastVerdict_no_status v post hpost

/-- if every status line says the same and there is one, that is the result -/
theorem lastVerdict_const (init : Option Bool) (lines : List Str) (v : Option Bool)
    (hall : ∀ l ∈ lines, lineVerdict l = none ∨ lineVerdict l = some v)
    (hex : ∃ l ∈ lines, lineVerdict l = some v) : lastVerdict init lines = v := by
  induction lines generalizing init with
  | nil => obtain ⟨l, hl, _⟩ := hex; simp at hl
  | cons l ls ih =>
    have hls : ∀ x ∈ ls, lineVerdict x = none ∨ lineVerdict x = some v :=
      fun x hx => hall x (by simp [hx])
    simp only [lastVerdict, List.foldl_cons]
    by_cases hex' : ∃ x ∈ ls, lineVerdict x = some v
    · exact ih _ hls hex'
    · have hnone : ∀ x ∈ ls, lineVerdict x = none := by
        intro x hx
        rcases hls x hx with h | h
        · exact h
        · exact absurd ⟨x, hx, h⟩ hex'
      have hl : lineVerdict l = some v := by
        obtain ⟨x, hx, hxv⟩ := hex
        simp only [List.mem_cons] at hx
        rcases hx with rfl | hx
        · exact hxv
        · exact absurd ⟨x, hx, hxv⟩ hex'
      have := lastVerdict_no_status (applyVerdict init l) ls hnone
      simp only [lastVerdict] at this
      rw [this]
      simp [applyVerdict, hl]

theorem parseStdout_of_ok (lines : List Str) (h : ∀ l ∈ lines, lineErr l = none) :
    parseStdout lines = finish ⟨lastVerdict none lines, lines.flatMap lineLits⟩ := by
  simp [parseStdout, runLines_ok _ lines h]

theorem parseStdout_ok_inv (lines : List Str) (r : Bool × Option (List Int))
    (h : parseStdout lines = .ok r) :
    (∀ l ∈ lines, lineErr l = none) ∧
      finish ⟨lastVerdict none lines, lines.flatMap lineLits⟩ = .ok r := by
  unfold parseStdout at h
  cases hr : runLines ⟨none, []⟩ lines with
  | error e => rw [hr] at h; cases h
  | ok st =>
    have hall := lineErr_of_runLines_ok _ _ _ hr
    refine ⟨hall, ?_⟩
    rw [← parseStdout_of_ok lines hall]
    simp [parseStdout, hr] at h ⊢
    exact h

/-! ### rendered well-formed answers -/

/-- the separators and the integer tokens of a value line / result file -/
def litSegs (lits : List (Str × Int)) : List (Str × Str) := lits.map (fun p => (p.1, showInt p.2))

/-- optional terminating `0` (with its separator) -/
def zeroSeg : Option Str → List (Str × Str)
  | none => []
  | some s => [(s, tok0)]

/-- what is required of the literals of a rendered answer: proper separators, non-zero, below the
digit limit of `int()` -/
def GoodLits (lits : List (Str × Int)) : Prop :=
  ∀ p ∈ lits, AllSpace p.1 ∧ p.1 ≠ [] ∧ p.2 ≠ 0 ∧ p.2.natAbs < 10 ^ maxStrDigits

def GoodZero : Option Str → Prop
  | none => True
  | some s => AllSpace s ∧ s ≠ []

theorem noSpace_tok0 : NoSpace tok0 := by intro c hc; simp [tok0] at hc; subst hc; decide

theorem goodSegs_lits (lits : List (Str × Int)) (z : Option Str) (h : GoodLits lits) (hz : GoodZero z) :
    GoodSegs (litSegs lits ++ zeroSeg z) := by
  intro p hp
  simp only [List.mem_append, litSegs, List.mem_map] at hp
  rcases hp with ⟨q, hq, rfl⟩ | hp
  · obtain ⟨h1, h2, _, _⟩ := h q hq
    exact ⟨h1, h2, noSpace_showInt _, showInt_ne_nil _⟩
  · cases z with
    | none => simp [zeroSeg] at hp
    | some s =>
      simp only [zeroSeg, List.mem_singleton] at hp
      subst hp
      exact ⟨hz.1, hz.2, noSpace_tok0, by simp [tok0]⟩

theorem filter_map_lits (lits : List (Str × Int)) (z : Option Str) (h : GoodLits lits) :
    ((litSegs lits ++ zeroSeg z).map (·.2)).filter (fun el => el != tokV && el != tok0)
      = lits.map (fun p => showInt p.2) := by
  have hz : ((zeroSeg z).map (·.2)).filter (fun el => el != tokV && el != tok0) = [] := by
    cases z <;> simp [zeroSeg]
  rw [List.map_append, List.filter_append, hz, List.append_nil]
  simp only [litSegs, List.map_map]
  rw [List.filter_eq_self.mpr]
  · rfl
  · intro t ht
    simp only [List.mem_map, Function.comp] at ht
    obtain ⟨p, hp, rfl⟩ := ht
    obtain ⟨_, _, h3, _⟩ := h p hp
    simp [showInt_ne_tokV, showInt_ne_tok0 _ h3]

theorem filter0_map_lits (lits : List (Str × Int)) (z : Option Str) (h : GoodLits lits) :
    ((litSegs lits ++ zeroSeg z).map (·.2)).filter (fun el => el != tok0)
      = lits.map (fun p => showInt p.2) := by
  have hz : ((zeroSeg z).map (·.2)).filter (fun el => el != tok0) = [] := by
    cases z <;> simp [zeroSeg]
  rw [List.map_append, List.filter_append, hz, List.append_nil]
  simp only [litSegs, List.map_map]
  rw [List.filter_eq_self.mpr]
  · rfl
  · intro t ht
    simp only [List.mem_map, Function.comp] at ht
    obtain ⟨p, hp, rfl⟩ := ht
    obtain ⟨_, _, h3, _⟩ := h p hp
    simp [showInt_ne_tok0 _ h3]

theorem mapE_showInt (lits : List (Str × Int)) (h : GoodLits lits) :
    mapE pyIntE (lits.map (fun p => showInt p.2)) = .ok (lits.map (·.2)) := by
  induction lits with
  | nil => rfl
  | cons p r ih =>
    obtain ⟨_, _, _, h4⟩ := h p (by simp)
    have hr : GoodLits r := fun q hq => h q (by simp [hq])
    simp [mapE, pyIntE, pyInt_showInt p.2 h4, ih hr]

/-- a value line: `v`, literals each preceded by whitespace, optional `0`, trailing blanks -/
def renderValues (lits : List (Str × Int)) (z : Option Str) (trail : Str) : Str :=
  tokV ++ (glue (litSegs lits ++ zeroSeg z) ++ trail)

theorem noSpace_tokV : NoSpace tokV := by intro c hc; simp [tokV] at hc; subst hc; decide

theorem vInts_renderValues (lits : List (Str × Int)) (z : Option Str) (trail : Str)
    (h : GoodLits lits) (hz : GoodZero z) (ht : AllSpace trail) :
    vInts (renderValues lits z trail) = .ok (lits.map (·.2)) := by
  unfold vInts renderValues
  rw [pySplit_word_glue tokV noSpace_tokV (by simp [tokV]) _ (goodSegs_lits lits z h hz) trail ht]
  have : (tokV :: (litSegs lits ++ zeroSeg z).map (·.2)).filter (fun el => el != tokV && el != tok0)
      = lits.map (fun p => showInt p.2) := by
    rw [List.filter_cons]
    simp only [bne_self_eq_false, Bool.false_and]
    exact filter_map_lits lits z h
  rw [this]
  exact mapE_showInt lits h

theorem renderValues_head (lits z trail) : ∃ cs, renderValues lits z trail = 'v' :: cs := by
  exact ⟨_, rfl⟩

theorem lineErr_renderValues (lits : List (Str × Int)) (z : Option Str) (trail : Str)
    (h : GoodLits lits) (hz : GoodZero z) (ht : AllSpace trail) :
    lineErr (renderValues lits z trail) = none := by
  have hv := vInts_renderValues lits z trail h hz ht
  obtain ⟨cs, hcs⟩ := renderValues_head lits z trail
  rw [hcs] at hv ⊢
  simp [lineErr, hv, catchValueError]

theorem lineLits_renderValues (lits : List (Str × Int)) (z : Option Str) (trail : Str)
    (h : GoodLits lits) (hz : GoodZero z) (ht : AllSpace trail) :
    lineLits (renderValues lits z trail) = lits.map (·.2) := by
  have hv := vInts_renderValues lits z trail h hz ht
  obtain ⟨cs, hcs⟩ := renderValues_head lits z trail
  rw [hcs] at hv ⊢
  simp [lineLits, hv]

theorem lineVerdict_renderValues (lits z trail) : lineVerdict (renderValues lits z trail) = none := by
  obtain ⟨cs, hcs⟩ := renderValues_head lits z trail
  rw [hcs]
  simp [lineVerdict]

/-- every line whose first character is `s` is a status line -/
theorem lineVerdict_status (cs : Str) :
    lineVerdict ('s' :: cs) = some (verdictOfWords (pySplit ('s' :: cs))) := by
  simp [lineVerdict]

theorem lineErr_status (cs : Str) : lineErr ('s' :: cs) = none := by
  simp [lineErr, s_ne_v]

theorem lineLits_status (cs : Str) : lineLits ('s' :: cs) = [] := by
  simp [lineLits, s_ne_v]

/-- a line that is neither a status nor a value line: empty, or first character not `s`/`v` -/
def IsOther (l : Str) : Prop := l = [] ∨ ∃ c cs, l = c :: cs ∧ c ≠ 's' ∧ c ≠ 'v'

theorem lineErr_other (l : Str) (h : IsOther l) : lineErr l = none := by
  rcases h with rfl | ⟨c, cs, rfl, h1, h2⟩ <;> simp [lineErr, *]

theorem lineLits_other (l : Str) (h : IsOther l) : lineLits l = [] := by
  rcases h with rfl | ⟨c, cs, rfl, h1, h2⟩ <;> simp [lineLits, *]

theorem lineVerdict_other (l : Str) (h : IsOther l) : lineVerdict l = none := by
  rcases h with rfl | ⟨c, cs, rfl, h1, h2⟩ <;> simp [lineVerdict, *]

/-! ### `splitlines` of newline-terminated lines -/

/-- no character of the line is a `splitlines()` boundary -/
def NoBreak (l : Str) : Prop := ∀ c ∈ l, isBreak c = false

/-- every line followed by `\n` -/
def joinLines (lines : List Str) : Str := lines.flatMap (· ++ ['\n'])

theorem splitLinesAux_line (l rest cur : Str) (h : NoBreak l) :
    splitLinesAux (l ++ '\n' :: rest) cur false = (cur ++ l) :: splitLinesAux rest [] false := by
  induction l generalizing cur with
  | nil =>
    have : isBreak '\n' = true := by decide
    simp [splitLinesAux, this]
  | cons c cs ih =>
    have hc : isBreak c = false := h c (by simp)
    have hcs : NoBreak cs := fun d hd => h d (by simp [hd])
    simp only [List.cons_append, splitLinesAux, hc, Bool.false_and, Bool.false_eq_true, if_false]
    rw [ih (cur ++ [c]) hcs]
    simp

theorem splitLines_joinLines (lines : List Str) (h : ∀ l ∈ lines, NoBreak l) :
    splitLines (joinLines lines) = lines := by
  unfold splitLines
  induction lines with
  | nil => simp [joinLines, splitLinesAux]
  | cons l ls ih =>
    have hl := h l (by simp)
    have hls : ∀ x ∈ ls, NoBreak x := fun x hx => h x (by simp [hx])
    have e : joinLines (l :: ls) = l ++ '\n' :: joinLines ls := by simp [joinLines]
    rw [e, splitLinesAux_line l _ [] hl, ih hls]
    simp

end Cnfgen.Solver
