/-
C19 heap lemmas — the constraint builders never write into an object of the caller: of the cells that
existed before the call only formula objects (their variable counter) and lists of objects (`_clauses`,
`_constraints`: an append) are ever overwritten; the in-place `!=` loop works on a cell allocated by the call.
-/
import Lemmas.HeapMut
import CnfgenModel.Heap.Linear
namespace Cnfgen
namespace Heap
local notation "Addr" => Nat

/-- a cell that the builders may overwrite: a formula object or a list of objects -/
def Cell.isContainer : Cell → Bool
  | .cnf _ _ _ _ => true
  | .opb _ _ _ _ => true
  | .refs _ => true
  | _ => false

/-- every non-container cell below `b` keeps its content -/
structure PresB (b : Nat) (s s' : Store) : Prop where
  size_le : s.size ≤ s'.size
  keep : ∀ a : Nat, a < b → ∀ c, s[a]? = some c → c.isContainer = false → s'[a]? = some c

theorem PresB.refl (b : Nat) (s : Store) : PresB b s s := ⟨Nat.le_refl _, fun _ _ _ h _ => h⟩

theorem PresB.trans {b : Nat} {s s1 s2 : Store} (h1 : PresB b s s1) (h2 : PresB b s1 s2) : PresB b s s2 :=
  ⟨Nat.le_trans h1.size_le h2.size_le, fun a ha c hc hn => h2.keep a ha c (h1.keep a ha c hc hn) hn⟩

theorem presB_alloc {b : Nat} {s : Store} (c : Cell) : PresB b s (alloc s c).1 :=
  ⟨by simp, fun a _ c' hc _ => by rw [get_alloc_lt (lt_size_of_getElem? hc)]; exact hc⟩

theorem presB_write_new {b : Nat} {s : Store} {a : Nat} (c : Cell) (h : b ≤ a) : PresB b s (write s a c) :=
  ⟨by simp, fun a' ha' c' hc _ => by rw [get_write_ne (by omega)]; exact hc⟩

theorem presB_write_container {b : Nat} {s : Store} {a : Nat} {c0 : Cell} (c : Cell) (h0 : s[a]? = some c0)
    (hc0 : c0.isContainer = true) : PresB b s (write s a c) := by
  refine ⟨by simp, fun a' _ c' hc hn => ?_⟩
  have : a ≠ a' := by rintro rfl; rw [h0] at hc; cases hc; rw [hc0] at hn; cases hn
  rw [get_write_ne this]; exact hc

theorem presB_appendRef {b : Nat} {s : Store} (l x : Nat) : PresB b s (appendRef s l x) := by
  unfold appendRef
  split
  · rename_i as heq; exact presB_write_container _ heq rfl
  · exact PresB.refl _ _

theorem presB_addClauseVals {b : Nat} (s : Store) (x : Nat) (xs : List Int) (check : Bool) :
    PresB b s (addClauseVals s x xs check).1 := by
  unfold addClauseVals readCNF
  split
  · exact PresB.refl _ _
  · rename_i o ho
    split at ho
    · rename_i cl hd gr nv hx
      cases ho
      have h1 : PresB b s (alloc s (.ints xs)).1 := presB_alloc _
      simp only []
      split
      · exact h1.trans (presB_appendRef _ _)
      · split
        · split
          · exact h1
          · refine (h1.trans (presB_write_container (c0 := .cnf cl hd gr nv) _ ?_ rfl)).trans (presB_appendRef _ _)
            rw [get_alloc_lt (lt_size_of_getElem? hx)]; exact hx
        · exact h1.trans (presB_appendRef _ _)
    · cases ho

theorem presB_addClauseFrom {b : Nat} (s : Store) (x l : Nat) (check : Bool) :
    PresB b s (addClauseFrom s x l check).1 := by
  unfold addClauseFrom; split
  · exact PresB.refl _ _
  · exact presB_addClauseVals ..

theorem presB_addAllVals {b : Nat} (x : Nat) (check : Bool) :
    ∀ (cs : List (List Int)) (s : Store), PresB b s (addAllVals s x check cs).1
  | [], s => by simpa [addAllVals] using PresB.refl _ _
  | c :: cs, s => by
    unfold addAllVals
    have h1 := presB_addClauseVals (b := b) s x c check
    split
    · rename_i s1 e heq; rw [heq] at h1; exact h1
    · rename_i s1 u heq; rw [heq] at h1; exact h1.trans (presB_addAllVals x check cs s1)

/-- the in-place loop on a working cell `w` of the new region -/
theorem presB_neqLoop {b : Nat} (emit : Store → Nat → Store × Except Err Unit) (w : Nat) (hw : b ≤ w)
    (hemit : ∀ s a, PresB b s (emit s a).1) :
    ∀ (sets : List (List Nat)) (s : Store), PresB b s (neqLoop emit w s sets).1
  | [], s => by simpa [neqLoop] using PresB.refl _ _
  | S :: rest, s => by
    unfold neqLoop
    split
    · exact PresB.refl _ _
    · rename_i cur _
      have h1 : PresB b s (write s w (.ints (flipAt S cur))) := presB_write_new _ hw
      have h2 := hemit (write s w (.ints (flipAt S cur))) w
      simp only []
      split
      · rename_i s2 e heq; rw [heq] at h2; exact h1.trans h2
      · rename_i s2 u heq
        rw [heq] at h2
        split
        · exact h1.trans h2
        · rename_i cur2 _
          exact (h1.trans h2).trans ((presB_write_new _ hw).trans (presB_neqLoop emit w hw hemit rest _))

/-- `F.add_linear(L, op, k, check)` — every operator, every exit -/
theorem presB_addLinearFrom (s : Store) (x l : Nat) (op : Op) (k : Int) (check : Bool) :
    PresB s.size s (addLinearFrom s x l op k check).1 := by
  unfold addLinearFrom
  split
  · rename_i o xs ho hl
    have hx : ∃ c0, s[x]? = some c0 ∧ c0.isContainer = true := by
      unfold readCNF at ho; split at ho
      · rename_i heq; exact ⟨_, heq, rfl⟩
      · cases ho
    obtain ⟨c0, hx0, hc0⟩ := hx
    -- the optional check
    have key : ∀ s1 : Store, PresB s.size s s1 →
        PresB s.size s (match op with
          | .ne =>
            if k < 0 ∨ k > xs.length then ((alloc s1 (.ints xs)).1, Except.ok ())
            else neqLoop (fun s a => addClauseFrom s x a false) (alloc s1 (.ints xs)).2 (alloc s1 (.ints xs)).1
              (combos (List.range xs.length) k.toNat)
          | o' => addAllVals s1 x false (Linear.add xs o' k)).1 := by
      intro s1 h1
      cases op with
      | ne =>
        simp only []
        split
        · exact h1.trans (presB_alloc _)
        · refine h1.trans ((presB_alloc _).trans (presB_neqLoop _ _ ?_ (fun s a => presB_addClauseFrom s x a false) _ _))
          simp; exact h1.size_le
      | _ => exact h1.trans (presB_addAllVals x false _ s1)
    by_cases hchk : check = true ∧ ¬ xs.isEmpty = true
    · simp only [hchk, and_self, if_true]
      cases hcl : checkLits o.nv xs with
      | error e => exact PresB.refl _ _
      | ok nv' =>
        simp only [hcl]
        have := key (write s x (.cnf o.cl o.hd o.gr nv')) (presB_write_container _ hx0 hc0)
        cases op <;> exact this
    · simp only [hchk, if_false]
      have := key s (PresB.refl _ _)
      cases op <;> exact this
  · exact PresB.refl _ _

/-! ### the working copy is restored -/

theorem flipAt_involutive (S : List Nat) (l : List Int) : flipAt S (flipAt S l) = l := by
  unfold flipAt
  apply List.ext_getElem
  · simp
  · intro i h1 h2
    simp only [List.getElem_mapIdx]
    by_cases hc : S.contains i = true
    · simp only [hc, if_true]; omega
    · simp only [hc]; simp

/-- if `add_clause` leaves the working list alone, then after the loop — and at every iteration boundary — the
working list has its initial content (normal exit) -/
theorem neqLoop_restores (emit : Store → Nat → Store × Except Err Unit) (w : Nat)
    (hemit : ∀ s xs, readInts s w = some xs → readInts (emit s w).1 w = some xs) :
    ∀ (sets : List (List Nat)) (s : Store) (xs : List Int), readInts s w = some xs →
      (neqLoop emit w s sets).2 = .ok () → readInts (neqLoop emit w s sets).1 w = some xs
  | [], s, xs, h, _ => by simpa [neqLoop] using h
  | S :: rest, s, xs, h, hok => by
    unfold neqLoop at hok ⊢
    simp only [h] at hok ⊢
    have hw : w < s.size := by
      unfold readInts at h; split at h
      · rename_i heq; exact lt_size_of_getElem? heq
      · cases h
    have h1 : readInts (write s w (.ints (flipAt S xs))) w = some (flipAt S xs) := by
      simp [readInts, get_write_eq hw]
    have h2 := hemit _ _ h1
    split at hok
    · cases hok
    · rename_i s2 u heq
      rw [heq] at h2
      simp only [heq, h2] at hok ⊢
      have hw2 : w < s2.size := by
        unfold readInts at h2; split at h2
        · rename_i heq'; exact lt_size_of_getElem? heq'
        · cases h2
      apply neqLoop_restores emit w hemit rest _ xs _ hok
      simp [readInts, get_write_eq hw2, flipAt_involutive]

/-- `add_clause(lits, check=False)` does not write into the list it copies -/
theorem addClauseFrom_keeps (x w : Nat) (s : Store) (xs : List Int) (h : readInts s w = some xs) :
    readInts (addClauseFrom s x w false).1 w = some xs := by
  have hc : s[w]? = some (.ints xs) := by
    unfold readInts at h; split at h
    · rename_i ys heq; cases h; exact heq
    · cases h
  have := (presB_addClauseFrom (b := s.size) s x w false).keep w (lt_size_of_getElem? hc) _ hc rfl
  simp [readInts, this]

/-! ### BaseOPB -/

theorem presB_opbStore {b : Nat} (s : Store) (x : Nat) (c : PBC) (check : Bool) :
    PresB b s (opbStore s x c check).1 := by
  unfold opbStore readOPB
  split
  · exact PresB.refl _ _
  · rename_i o ho
    split at ho
    · rename_i cl hd gr nv hx
      cases ho
      have h1 : PresB b s (alloc s (.pbc c)).1 := presB_alloc _
      simp only []
      split
      · split
        · exact h1
        · refine (h1.trans (presB_write_container (c0 := .opb cl hd gr nv) _ ?_ rfl)).trans (presB_appendRef _ _)
          rw [get_alloc_lt (lt_size_of_getElem? hx)]; exact hx
      · exact h1.trans (presB_appendRef _ _)
    · cases ho

theorem presB_opbAddClauseFrom {b : Nat} (s : Store) (x l : Nat) (check : Bool) :
    PresB b s (opbAddClauseFrom s x l check).1 := by
  unfold opbAddClauseFrom opbAddClauseVals; split
  · exact PresB.refl _ _
  · exact presB_opbStore ..

theorem presB_opbAddConstraintFrom (s : Store) (x c : Nat) (check : Bool) :
    PresB s.size s (opbAddConstraintFrom s x c check).1 := by
  unfold opbAddConstraintFrom; split
  · exact PresB.refl _ _
  · exact presB_opbStore ..

theorem presB_opbCardFrom (s : Store) (x l : Nat) (op : Op) (k : Int) (check : Bool) :
    PresB s.size s (opbCardFrom s x l op k check).1 := by
  unfold opbCardFrom; split
  · exact PresB.refl _ _
  · exact presB_opbStore ..

theorem presB_opbCardNeqFrom (s : Store) (x l : Nat) (k : Int) (check : Bool) :
    PresB s.size s (opbCardNeqFrom s x l k check).1 := by
  unfold opbCardNeqFrom
  split
  · rename_i o xs ho hl
    have hx : ∃ c0, s[x]? = some c0 ∧ c0.isContainer = true := by
      unfold readOPB at ho; split at ho
      · rename_i heq; exact ⟨_, heq, rfl⟩
      · cases ho
    obtain ⟨c0, hx0, hc0⟩ := hx
    have h0 : PresB s.size s (alloc s (.ints xs)).1 := presB_alloc _
    have key : ∀ s2 : Store, PresB s.size s s2 → s.size + 1 ≤ s2.size →
        PresB s.size s (if k < 0 ∨ k > xs.length then (s2, Except.ok ())
          else neqLoop (fun s a => opbAddClauseFrom s x a false) (alloc s (.ints xs)).2 s2
            (combos (List.range xs.length) k.toNat)).1 := by
      intro s2 h2 _
      split
      · exact h2
      · exact h2.trans (presB_neqLoop _ _ (by simp) (fun s a => presB_opbAddClauseFrom s x a false) _ _)
    simp only []
    by_cases hchk : check = true
    · simp only [hchk, if_true]
      cases hcl : PB.check o.nv ⟨PB.unit xs, .eq, 0⟩ with
      | error e => exact h0
      | ok nv' =>
        simp only []
        refine key _ (h0.trans (presB_write_container (c0 := c0) _ ?_ hc0)) (by simp)
        rw [get_alloc_lt (lt_size_of_getElem? hx0)]; exact hx0
    · simp only [hchk]
      exact key _ h0 (by simp)
  · exact PresB.refl _ _

end Heap
end Cnfgen
