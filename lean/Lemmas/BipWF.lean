/-
Representation invariant of `BipartiteGraph` (model `BipG`) and the basic facts
about `add_edge`, `has_edge`, the edge iterator, `number_of_edges`, the neighbour views
and `CompleteBipartiteGraph`.
-/
import CnfgenModel.Graph.Basic
import Mathlib.Data.List.Nodup
import Mathlib.Data.List.Perm.Basic
namespace Cnfgen

/-! ### `insertSorted`, `List.modify`, `range` helpers -/

theorem mem_insertSorted_iff {l : List Nat} {v x : Nat} :
    x ∈ insertSorted l v ↔ x = v ∨ x ∈ l := by
  induction l with
  | nil => simp [insertSorted]
  | cons y ys ih =>
    simp only [insertSorted]
    split
    · simp only [List.mem_cons, ih]; tauto
    · simp

theorem pairwise_insertSorted {l : List Nat} {v : Nat} (hs : l.Pairwise (· < ·)) (hv : v ∉ l) :
    (insertSorted l v).Pairwise (· < ·) := by
  induction l with
  | nil => simp [insertSorted]
  | cons y ys ih =>
    simp only [insertSorted]
    have hs' := List.pairwise_cons.1 hs
    have hvy : v ≠ y := fun h => hv (by simp [h])
    have hvys : v ∉ ys := fun h => hv (by simp [h])
    split
    · rename_i hle
      rw [List.pairwise_cons]
      refine ⟨?_, ih hs'.2 hvys⟩
      intro z hz
      rw [mem_insertSorted_iff] at hz
      rcases hz with rfl | hz
      · omega
      · exact hs'.1 z hz
    · rename_i hle
      rw [List.pairwise_cons]
      refine ⟨?_, hs⟩
      intro z hz
      rcases List.mem_cons.1 hz with rfl | hz
      · omega
      · have := hs'.1 z hz; omega

theorem getD_modify_nil (l : List (List Nat)) (i j : Nat) (f : List Nat → List Nat) :
    (l.modify i f).getD j [] =
      if i = j ∧ j < l.length then f (l.getD j []) else l.getD j [] := by
  simp only [List.getD_eq_getElem?_getD, List.getElem?_modify]
  by_cases hj : j < l.length
  · rw [List.getElem?_eq_getElem hj]
    by_cases hij : i = j <;> simp [hij, hj]
  · rw [List.getElem?_eq_none (Nat.le_of_not_lt hj)]
    simp [hj]

theorem mem_range_succ {n x : Nat} : x ∈ (List.range n).map (· + 1) ↔ 1 ≤ x ∧ x ≤ n := by
  simp only [List.mem_map, List.mem_range]
  constructor
  · rintro ⟨i, hi, rfl⟩; omega
  · rintro ⟨h1, h2⟩; exact ⟨x - 1, by omega, by omega⟩

theorem pairwise_range_succ (n : Nat) : ((List.range n).map (· + 1)).Pairwise (· < ·) := by
  rw [List.pairwise_map]
  exact List.pairwise_lt_range.imp (by intro a b h; omega)

theorem nodup_of_pairwise_lt {l : List Nat} (h : l.Pairwise (· < ·)) : l.Nodup :=
  h.imp (fun hab => Nat.ne_of_lt hab)

/-- two strictly increasing lists with the same members are equal -/
theorem eq_of_pairwise_lt_of_mem_iff {l₁ l₂ : List Nat} (h₁ : l₁.Pairwise (· < ·))
    (h₂ : l₂.Pairwise (· < ·)) (hm : ∀ x, x ∈ l₁ ↔ x ∈ l₂) : l₁ = l₂ := by
  refine List.Perm.eq_of_pairwise (le := (· < ·)) ?_ h₁ h₂ ?_
  · intro a b _ _ hab hba; omega
  · exact (List.perm_ext_iff_of_nodup (nodup_of_pairwise_lt h₁) (nodup_of_pairwise_lt h₂)).2 hm

/-! ### the invariant -/

/-- the representation invariant of `BipartiteGraph` -/
structure BipG.WF (G : BipG) : Prop where
  ladj_len : G.ladj.length = G.l + 1
  radj_len : G.radj.length = G.r + 1
  row_sorted : ∀ u, (G.rnbrs u).Pairwise (· < ·)
  col_sorted : ∀ v, (G.lnbrs v).Pairwise (· < ·)
  mem_row : ∀ u v, v ∈ G.rnbrs u ↔ (u, v) ∈ G.edgeset
  mem_col : ∀ u v, u ∈ G.lnbrs v ↔ (u, v) ∈ G.edgeset
  edge_range : ∀ u v, (u, v) ∈ G.edgeset → 1 ≤ u ∧ u ≤ G.l ∧ 1 ≤ v ∧ v ≤ G.r
  edges_nodup : G.edgeset.Nodup

namespace BipG

theorem getD_replicate_nil (n u : Nat) :
    (List.replicate n ([] : List Nat)).getD u [] = [] := by
  rw [List.getD_eq_getElem?_getD]
  by_cases h : u < n
  · simp [h]
  · simp [h]

theorem init_rnbrs (l r u : Nat) : (BipG.init l r).rnbrs u = [] := getD_replicate_nil _ _
theorem init_lnbrs (l r v : Nat) : (BipG.init l r).lnbrs v = [] := getD_replicate_nil _ _

theorem wf_init (l r : Nat) : (BipG.init l r).WF where
  ladj_len := by simp [init]
  radj_len := by simp [init]
  row_sorted := by intro u; rw [init_rnbrs]; exact List.Pairwise.nil
  col_sorted := by intro v; rw [init_lnbrs]; exact List.Pairwise.nil
  mem_row := by intro u v; rw [init_rnbrs]; simp [init]
  mem_col := by intro u v; rw [init_lnbrs]; simp [init]
  edge_range := by intro u v h; simp [init] at h
  edges_nodup := by simp [init]

/-- `has_edge` -/
theorem hasEdge_iff_mem (G : BipG) (u v : Int) :
    G.hasEdge u v = true ↔ 0 ≤ u ∧ 0 ≤ v ∧ (u.toNat, v.toNat) ∈ G.edgeset := by
  simp [hasEdge, and_assoc]

/-- case analysis of a successful `add_edge` -/
theorem addEdge_cases_wf {G G' : BipG} {u v : Int} (he : G.addEdge u v = .ok G') :
    (1 ≤ u ∧ u ≤ G.l ∧ 1 ≤ v ∧ v ≤ G.r) ∧
    (((u.toNat, v.toNat) ∈ G.edgeset ∧ G' = G) ∨
     ((u.toNat, v.toNat) ∉ G.edgeset ∧
        G' = { G with ladj := G.ladj.modify u.toNat (insertSorted · v.toNat),
                      radj := G.radj.modify v.toNat (insertSorted · u.toNat),
                      edgeset := (u.toNat, v.toNat) :: G.edgeset })) := by
  unfold addEdge at he
  split at he
  · cases he
  · rename_i hr
    have hr' : 1 ≤ u ∧ u ≤ G.l ∧ 1 ≤ v ∧ v ≤ G.r := Classical.not_not.1 hr
    refine ⟨hr', ?_⟩
    split at he
    · rename_i hh
      left
      refine ⟨((hasEdge_iff_mem G u v).1 hh).2.2, ?_⟩
      injection he with he
      exact he.symm
    · rename_i hh
      right
      refine ⟨?_, ?_⟩
      · intro hm
        exact hh ((hasEdge_iff_mem G u v).2 ⟨by omega, by omega, hm⟩)
      · injection he with he
        exact he.symm

theorem addEdge_lr_wf {G G' : BipG} {u v : Int} (he : G.addEdge u v = .ok G') :
    G'.l = G.l ∧ G'.r = G.r := by
  rcases (addEdge_cases_wf he).2 with ⟨_, rfl⟩ | ⟨_, rfl⟩ <;> exact ⟨rfl, rfl⟩

theorem wf_addEdge {G G' : BipG} {u v : Int} (h : G.WF) (he : G.addEdge u v = .ok G') :
    G'.WF := by
  obtain ⟨hr, hc⟩ := addEdge_cases_wf he
  rcases hc with ⟨_, rfl⟩ | ⟨hfresh, rfl⟩
  · exact h
  · -- fresh edge
    generalize ha : u.toNat = a at hfresh ⊢
    generalize hb : v.toNat = b at hfresh ⊢
    have ha1 : 1 ≤ a ∧ a ≤ G.l := by omega
    have hb1 : 1 ≤ b ∧ b ≤ G.r := by omega
    have hrow : ∀ x, (G.ladj.modify a (insertSorted · b)).getD x [] =
        if a = x then insertSorted (G.rnbrs x) b else G.rnbrs x := by
      intro x
      rw [getD_modify_nil]
      by_cases hx : a = x
      · subst hx
        have : a < G.ladj.length := by rw [h.ladj_len]; omega
        simp [this, rnbrs]
      · simp [hx, rnbrs]
    have hcol : ∀ y, (G.radj.modify b (insertSorted · a)).getD y [] =
        if b = y then insertSorted (G.lnbrs y) a else G.lnbrs y := by
      intro y
      rw [getD_modify_nil]
      by_cases hy : b = y
      · subst hy
        have : b < G.radj.length := by rw [h.radj_len]; omega
        simp [this, lnbrs]
      · simp [hy, lnbrs]
    refine ⟨?_, ?_, ?_, ?_, ?_, ?_, ?_, ?_⟩
    · simp [List.length_modify, h.ladj_len]
    · simp [List.length_modify, h.radj_len]
    · intro x
      show ((G.ladj.modify a (insertSorted · b)).getD x []).Pairwise (· < ·)
      rw [hrow]
      split
      · rename_i hx; subst hx
        exact pairwise_insertSorted (h.row_sorted a) (fun hm => hfresh ((h.mem_row a b).1 hm))
      · exact h.row_sorted x
    · intro y
      show ((G.radj.modify b (insertSorted · a)).getD y []).Pairwise (· < ·)
      rw [hcol]
      split
      · rename_i hy; subst hy
        exact pairwise_insertSorted (h.col_sorted b) (fun hm => hfresh ((h.mem_col a b).1 hm))
      · exact h.col_sorted y
    · intro x y
      show y ∈ (G.ladj.modify a (insertSorted · b)).getD x [] ↔ (x, y) ∈ (a, b) :: G.edgeset
      rw [hrow, List.mem_cons, Prod.mk.injEq]
      split
      · rename_i hx; subst hx
        rw [mem_insertSorted_iff, h.mem_row]; simp
      · rename_i hx
        rw [h.mem_row]
        constructor
        · intro hm; exact Or.inr hm
        · rintro (⟨h1, _⟩ | hm)
          · exact absurd h1.symm hx
          · exact hm
    · intro x y
      show x ∈ (G.radj.modify b (insertSorted · a)).getD y [] ↔ (x, y) ∈ (a, b) :: G.edgeset
      rw [hcol, List.mem_cons, Prod.mk.injEq]
      split
      · rename_i hy; subst hy
        rw [mem_insertSorted_iff, h.mem_col]; simp
      · rename_i hy
        rw [h.mem_col]
        constructor
        · intro hm; exact Or.inr hm
        · rintro (⟨_, h2⟩ | hm)
          · exact absurd h2.symm hy
          · exact hm
    · intro x y hm
      show 1 ≤ x ∧ x ≤ G.l ∧ 1 ≤ y ∧ y ≤ G.r
      rcases List.mem_cons.1 hm with heq | hm
      · rw [Prod.mk.injEq] at heq
        obtain ⟨rfl, rfl⟩ := heq
        omega
      · exact h.edge_range x y hm
    · show ((a, b) :: G.edgeset).Nodup
      exact List.nodup_cons.2 ⟨hfresh, h.edges_nodup⟩

/-- membership in the edge set after an insertion -/
theorem mem_addEdge {G G' : BipG} {u v : Int} (he : G.addEdge u v = .ok G') (a b : Nat) :
    (a, b) ∈ G'.edgeset ↔ ((a, b) ∈ G.edgeset ∨ ((a : Int) = u ∧ (b : Int) = v)) := by
  obtain ⟨hr, hc⟩ := addEdge_cases_wf he
  rcases hc with ⟨hin, rfl⟩ | ⟨_, rfl⟩
  · constructor
    · intro hm; exact Or.inl hm
    · rintro (hm | ⟨h1, h2⟩)
      · exact hm
      · have e1 : u.toNat = a := by omega
        have e2 : v.toNat = b := by omega
        rw [e1, e2] at hin
        exact hin
  · show (a, b) ∈ (u.toNat, v.toNat) :: G.edgeset ↔ _
    rw [List.mem_cons, Prod.mk.injEq]
    constructor
    · rintro (⟨h1, h2⟩ | hm)
      · right; omega
      · exact Or.inl hm
    · rintro (hm | ⟨h1, h2⟩)
      · exact Or.inr hm
      · left; omega

theorem addEdgesFrom_nil (G : BipG) : G.addEdgesFrom [] = .ok G := rfl

theorem addEdgesFrom_cons {G G' : BipG} {e : Int × Int} {es : List (Int × Int)}
    (he : G.addEdgesFrom (e :: es) = .ok G') :
    ∃ G₁, G.addEdge e.1 e.2 = .ok G₁ ∧ G₁.addEdgesFrom es = .ok G' := by
  unfold addEdgesFrom at he
  rw [List.foldlM_cons] at he
  cases hstep : G.addEdge e.1 e.2 with
  | error x => rw [hstep] at he; cases he
  | ok G₁ => rw [hstep] at he; exact ⟨G₁, rfl, he⟩

theorem wf_addEdgesFrom {G G' : BipG} {es : List (Int × Int)} (h : G.WF)
    (he : G.addEdgesFrom es = .ok G') : G'.WF ∧ G'.l = G.l ∧ G'.r = G.r := by
  induction es generalizing G with
  | nil =>
    rw [addEdgesFrom_nil] at he
    injection he with he
    subst he
    exact ⟨h, rfl, rfl⟩
  | cons e es ih =>
    obtain ⟨G₁, h1, h2⟩ := addEdgesFrom_cons he
    have hw := wf_addEdge h h1
    have hlr := addEdge_lr_wf h1
    obtain ⟨hw', hl, hr⟩ := ih hw h2
    exact ⟨hw', by rw [hl, hlr.1], by rw [hr, hlr.2]⟩

theorem mem_addEdgesFrom {G G' : BipG} {es : List (Int × Int)}
    (he : G.addEdgesFrom es = .ok G') (a b : Nat) :
    (a, b) ∈ G'.edgeset ↔ ((a, b) ∈ G.edgeset ∨ ((a : Int), (b : Int)) ∈ es) := by
  induction es generalizing G with
  | nil =>
    rw [addEdgesFrom_nil] at he
    injection he with he
    subst he
    simp
  | cons e es ih =>
    obtain ⟨G₁, h1, h2⟩ := addEdgesFrom_cons he
    rw [ih h2, mem_addEdge h1, List.mem_cons]
    obtain ⟨e1, e2⟩ := e
    simp only [Prod.mk.injEq]
    tauto

theorem wf_ofEdges {l r : Nat} {es : List (Nat × Nat)} {G : BipG}
    (he : BipG.ofEdges l r es = .ok G) : G.WF ∧ G.l = l ∧ G.r = r :=
  wf_addEdgesFrom (wf_init l r) he

/-! ### the edge iterator -/

/-- the edge iterator enumerates the edge set, without repetition -/
theorem mem_edges {G : BipG} (h : G.WF) (u v : Nat) : (u, v) ∈ G.edges ↔ (u, v) ∈ G.edgeset := by
  unfold edges
  simp only [List.mem_flatMap, List.mem_range, List.mem_map, Prod.mk.injEq]
  constructor
  · rintro ⟨i, _, w, hw, rfl, rfl⟩
    exact (h.mem_row _ _).1 hw
  · intro hm
    have hr := h.edge_range u v hm
    refine ⟨u - 1, by omega, v, ?_, by omega, rfl⟩
    have : u - 1 + 1 = u := by omega
    rw [this]
    exact (h.mem_row u v).2 hm

theorem edges_nodup {G : BipG} (h : G.WF) : G.edges.Nodup := by
  unfold edges
  rw [List.nodup_flatMap]
  constructor
  · intro i _
    refine (nodup_of_pairwise_lt (h.row_sorted (i + 1))).map ?_
    intro x y hxy
    exact (Prod.mk.injEq _ _ _ _ ▸ hxy : _ ∧ _).2
  · refine List.pairwise_lt_range.imp ?_
    intro i j hij
    simp only [Function.onFun]
    intro p hp hq
    simp only [List.mem_map] at hp hq
    obtain ⟨x, _, rfl⟩ := hp
    obtain ⟨y, _, hy⟩ := hq
    rw [Prod.mk.injEq] at hy
    omega

theorem edges_perm {G : BipG} (h : G.WF) : G.edges.Perm G.edgeset :=
  (List.perm_ext_iff_of_nodup (edges_nodup h) h.edges_nodup).2
    (by rintro ⟨u, v⟩; exact mem_edges h u v)

theorem numberOfEdges_eq_length_edges {G : BipG} (h : G.WF) :
    G.numberOfEdges = G.edges.length :=
  (edges_perm h).length_eq.symm

/-- `number_of_edges()` is the sum of the right degrees of the left vertices (in vertex order) -/
theorem numberOfEdges_eq_sum {G : BipG} (h : G.WF) :
    G.numberOfEdges = ((List.range G.l).map (fun i => (G.rnbrs (i + 1)).length)).sum := by
  rw [numberOfEdges_eq_length_edges h]
  unfold edges
  rw [List.length_flatMap]
  simp only [List.length_map]

/-! ### neighbour views -/

/-- neighbours of a vertex outside 1..l : none -/
theorem rnbrs_out {G : BipG} (h : G.WF) {u : Nat} (hu : u = 0 ∨ G.l < u) : G.rnbrs u = [] := by
  rw [List.eq_nil_iff_forall_not_mem]
  intro v hv
  have := h.edge_range u v ((h.mem_row u v).1 hv)
  omega

/-- left neighbours of `v` are exactly the left vertices (in increasing order) adjacent to v -/
theorem lnbrs_eq_filter {G : BipG} (h : G.WF) (v : Nat) :
    G.lnbrs v = ((List.range G.l).map (· + 1)).filter (fun u => decide (v ∈ G.rnbrs u)) := by
  refine eq_of_pairwise_lt_of_mem_iff (h.col_sorted v) ((pairwise_range_succ G.l).filter _) ?_
  intro u
  rw [List.mem_filter, mem_range_succ, decide_eq_true_eq, h.mem_col, h.mem_row]
  constructor
  · intro hm
    have := h.edge_range u v hm
    exact ⟨⟨this.1, this.2.1⟩, hm⟩
  · exact fun hm => hm.2

/-! ### complete bipartite graphs -/

theorem getD_cons_replicate (n u : Nat) (x : List Nat) :
    (([] : List Nat) :: List.replicate n x).getD u [] = if 1 ≤ u ∧ u ≤ n then x else [] := by
  rw [List.getD_eq_getElem?_getD]
  cases u with
  | zero => simp
  | succ k =>
    rw [List.getElem?_cons_succ, List.getElem?_replicate]
    by_cases hk : k < n
    · have : 1 ≤ k + 1 ∧ k + 1 ≤ n := by omega
      simp [hk, this]
    · have : ¬ (1 ≤ k + 1 ∧ k + 1 ≤ n) := by omega
      rw [if_neg this]; simp [hk]

theorem completeB_rnbrs' (l r u : Nat) :
    (BipG.complete l r).rnbrs u = if 1 ≤ u ∧ u ≤ l then (List.range r).map (· + 1) else [] := by
  simp only [complete, rnbrs]
  exact getD_cons_replicate l u _

theorem completeB_lnbrs' (l r v : Nat) :
    (BipG.complete l r).lnbrs v = if 1 ≤ v ∧ v ≤ r then (List.range l).map (· + 1) else [] := by
  simp only [complete, lnbrs]
  exact getD_cons_replicate r v _

theorem completeB_rnbrs (l r u : Nat) (hu : 1 ≤ u ∧ u ≤ l) :
    (BipG.complete l r).rnbrs u = (List.range r).map (· + 1) := by
  rw [completeB_rnbrs', if_pos hu]

theorem completeB_lnbrs (l r v : Nat) (hv : 1 ≤ v ∧ v ≤ r) :
    (BipG.complete l r).lnbrs v = (List.range l).map (· + 1) := by
  rw [completeB_lnbrs', if_pos hv]

theorem mem_completeB_edgeset (l r u v : Nat) :
    (u, v) ∈ (BipG.complete l r).edgeset ↔ 1 ≤ u ∧ u ≤ l ∧ 1 ≤ v ∧ v ≤ r := by
  simp only [complete, List.mem_flatMap, List.mem_range, List.mem_map, Prod.mk.injEq]
  constructor
  · rintro ⟨i, hi, j, hj, rfl, rfl⟩; omega
  · rintro ⟨h1, h2, h3, h4⟩
    exact ⟨u - 1, by omega, v - 1, by omega, by omega, by omega⟩

theorem wf_complete (l r : Nat) : (BipG.complete l r).WF where
  ladj_len := by simp [complete]
  radj_len := by simp [complete]
  row_sorted := by
    intro u
    rw [completeB_rnbrs']
    split
    · exact pairwise_range_succ r
    · exact List.Pairwise.nil
  col_sorted := by
    intro v
    rw [completeB_lnbrs']
    split
    · exact pairwise_range_succ l
    · exact List.Pairwise.nil
  mem_row := by
    intro u v
    rw [completeB_rnbrs', mem_completeB_edgeset]
    split
    · rw [mem_range_succ]; tauto
    · simp only [List.not_mem_nil, false_iff]; tauto
  mem_col := by
    intro u v
    rw [completeB_lnbrs', mem_completeB_edgeset]
    split
    · rw [mem_range_succ]; tauto
    · simp only [List.not_mem_nil, false_iff]; tauto
  edge_range := by
    intro u v hm
    exact (mem_completeB_edgeset l r u v).1 hm
  edges_nodup := by
    show ((List.range l).flatMap (fun i => (List.range r).map (fun j => (i + 1, j + 1)))).Nodup
    rw [List.nodup_flatMap]
    constructor
    · intro i _
      refine List.nodup_range.map ?_
      intro x y hxy
      simp only [Prod.mk.injEq] at hxy
      omega
    · refine List.pairwise_lt_range.imp ?_
      intro i j hij
      simp only [Function.onFun]
      intro p hp hq
      simp only [List.mem_map] at hp hq
      obtain ⟨x, _, rfl⟩ := hp
      obtain ⟨y, _, hy⟩ := hq
      rw [Prod.mk.injEq] at hy
      omega

end BipG

end Cnfgen
