/-
Token-level forms of the equivalences of Lemmas/ArgparseSound.lean, and when a token is classified as
`--opt=value` (`eq_token_classified`).
-/
import Lemmas.ArgparseSound
namespace Cnfgen.Cli.AP
open Cnfgen.Gen Cnfgen.Cli

theorem itemize_cons_ne (strs : List (String × Target)) (t : String) (rest : List String) (h : t ≠ "--") :
    itemize strs (t :: rest) = classifyTok strs t :: itemize strs rest := by
  have : (t == "--") = false := by simpa using h
  simp [itemize, this]

/-- the engine sees the tokens only through their classification: two tokens that are classified alike can be
exchanged anywhere before the first `--` -/
theorem engine_same_class (bind : Bind) (p : PSpec) (pre post : List String) (a f : String)
    (hpre : "--" ∉ pre) (ha : a ≠ "--") (hf : f ≠ "--")
    (hcls : classifyTok p.strings a = classifyTok p.strings f) :
    engine bind p (pre ++ a :: post) = engine bind p (pre ++ f :: post) := by
  unfold engine
  rw [itemize_append _ _ _ hpre, itemize_append _ _ _ hpre, itemize_cons_ne _ _ _ ha, itemize_cons_ne _ _ _ hf, hcls]

/-- `--opt=v` for `--opt v`, option with ONE argument, anywhere before the first `--` -/
theorem engine_eqform_one (bind : Bind) (p : PSpec) (pre post : List String) (t f v : String) (tg : Target)
    (hpre : "--" ∉ pre) (ht : t ≠ "--") (hf : f ≠ "--") (hv : v ≠ "--")
    (hct : classifyTok p.strings t = .opt tg f (some v)) (hcf : classifyTok p.strings f = .opt tg f none)
    (hcv : classifyTok p.strings v = .arg v) (h1 : arityT tg = .one) :
    engine bind p (pre ++ t :: post) = engine bind p (pre ++ f :: v :: post) := by
  unfold engine
  rw [itemize_append _ _ _ hpre, itemize_append _ _ _ hpre, itemize_cons_ne _ _ _ ht, itemize_cons_ne _ _ _ hf,
    itemize_cons_ne _ _ _ hv, hct, hcf, hcv]
  have := eqform_one_items bind p (pre.map (classifyTok p.strings)) (itemize p.strings post) tg f v h1
  simpa using this

/-- `-e=v` for `-e v`, option with ONE OR MORE arguments, when the next token is not an argument -/
theorem engine_eqform_plus (bind : Bind) (p : PSpec) (pre post : List String) (t f v : String) (tg : Target)
    (hpre : "--" ∉ pre) (ht : t ≠ "--") (hf : f ≠ "--") (hv : v ≠ "--")
    (hct : classifyTok p.strings t = .opt tg f (some v)) (hcf : classifyTok p.strings f = .opt tg f none)
    (hcv : classifyTok p.strings v = .arg v) (h1 : arityT tg = .plus)
    (hpost : (segs (itemize p.strings post)).1.avail = []) :
    engine bind p (pre ++ t :: post) = engine bind p (pre ++ f :: v :: post) := by
  unfold engine
  rw [itemize_append _ _ _ hpre, itemize_append _ _ _ hpre, itemize_cons_ne _ _ _ ht, itemize_cons_ne _ _ _ hf,
    itemize_cons_ne _ _ _ hv, hct, hcf, hcv]
  have := eqform_plus_items bind p (pre.map (classifyTok p.strings)) (itemize p.strings post) tg f v h1 hpost
  simpa using this

/-- nothing the option could take follows: the command line ends, or goes on with an option or `--` -/
theorem avail_nil_of_head (strs : List (String × Target)) (post : List String)
    (h : post = [] ∨ ∃ t rest, post = t :: rest ∧ (t = "--" ∨ ∀ x, classifyTok strs t ≠ .arg x)) :
    (segs (itemize strs post)).1.avail = [] := by
  rcases h with rfl | ⟨t, rest, rfl, h⟩
  · simp [itemize, segs, Run.avail]
  · rcases h with rfl | h
    · have : itemize strs ("--" :: rest) = .dd :: rest.map .arg := by simp [itemize]
      rw [this, segs_cons]
      simp [stepItem, Run.avail]
    · by_cases hdd : t = "--"
      · subst hdd
        have : itemize strs ("--" :: rest) = .dd :: rest.map .arg := by simp [itemize]
        rw [this, segs_cons]
        simp [stepItem, Run.avail]
      · rw [itemize_cons_ne _ _ _ hdd, segs_cons]
        cases hc : classifyTok strs t with
        | arg x => exact absurd hc (h x)
        | dd => simp [stepItem, Run.avail]
        | opt tg os ex => simp [stepItem, Run.avail]
        | unknown x => simp [stepItem, Run.avail]
        | ambiguous x => simp [stepItem, Run.avail]

/-- `-xyz` for `-x -y -z`, anywhere before the first `--` -/
theorem engine_cluster (bind : Bind) (p : PSpec) (pre post : List String) (t os e : String) (tg : Target)
    (ts : List (Target × String))
    (hpre : "--" ∉ pre) (ht : t ≠ "--") (hos : os ≠ "--") (hts : ∀ x ∈ ts, x.2 ≠ "--")
    (hct : classifyTok p.strings t = .opt tg os (some e)) (hcos : classifyTok p.strings os = .opt tg os none)
    (hcts : ∀ x ∈ ts, classifyTok p.strings x.2 = .opt x.1 x.2 none)
    (hs : singleDash os = true) (he : e.toList ≠ []) (h0 : arityT tg = .zero)
    (hall : FlagsOf p.strings e.toList (ts.map (·.1))) :
    engine bind p (pre ++ t :: post) = engine bind p (pre ++ os :: ts.map (·.2) ++ post) := by
  unfold engine
  have hY : "--" ∉ pre ++ os :: ts.map (·.2) := by
    intro h
    rcases List.mem_append.1 h with h | h
    · exact hpre h
    · rcases List.mem_cons.1 h with h | h
      · exact hos h.symm
      · obtain ⟨x, hx, hxe⟩ := List.mem_map.1 h
        exact hts x hx hxe
  rw [itemize_append _ _ _ hpre, itemize_cons_ne _ _ _ ht, hct, itemize_append _ _ _ hY]
  have hmap : (pre ++ os :: ts.map (·.2)).map (classifyTok p.strings) =
      pre.map (classifyTok p.strings) ++ ((tg, os) :: ts).map (fun x => Item.opt x.1 x.2 none) := by
    simp only [List.map_append, List.map_cons, hcos, List.map_map]
    congr 2
    apply List.map_congr_left
    intro x hx
    simpa using hcts x hx
  rw [hmap]
  have := cluster_items bind p (pre.map (classifyTok p.strings)) (itemize p.strings post) tg os e ts hs he h0 hall
  simpa using this

/-! ### when is a token read as `--opt=value` -/

theorem splitEq_append (a b : List Char) (h : '=' ∉ a) : splitEq (a ++ '=' :: b) = some (a, b) := by
  induction a with
  | nil => simp [splitEq]
  | cons c a ih =>
    have hc : c ≠ '=' := fun e => h (by simp [e])
    have ha : '=' ∉ a := fun e => h (by simp [e])
    simp [splitEq, hc, ih ha]

/-- an option string followed by `=` and anything is that option with the explicit argument -/
theorem eq_token_classified (strs : List (String × Target)) (f v : String) (tg : Target) (fr : List Char)
    (hf : f.toList = '-' :: fr) (hfr : fr ≠ []) (hne : '=' ∉ f.toList) (hl : lookupOS strs f = some tg)
    (hnot : lookupOS strs (f ++ "=" ++ v) = none) :
    classifyTok strs (f ++ "=" ++ v) = .opt tg f (some v) := by
  have htl : (f ++ "=" ++ v).toList = '-' :: (fr ++ '=' :: v.toList) := by
    simp [String.toList_append, hf]
  unfold classifyTok
  rw [htl]
  simp only [bne_self_eq_false, Bool.false_eq_true, if_false, hnot]
  have hne2 : (fr ++ '=' :: v.toList).isEmpty = false := by cases fr <;> simp
  simp only [hne2, Bool.false_eq_true, if_false]
  have hsp : splitEq ('-' :: (fr ++ '=' :: v.toList)) = some (f.toList, v.toList) := by
    have := splitEq_append f.toList v.toList hne
    rw [hf] at this ⊢
    simpa using this
  rw [hsp]
  simp [String.ofList_toList, hl]

end Cnfgen.Cli.AP
