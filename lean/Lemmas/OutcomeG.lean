/-
Lemmas for the end-to-end theorem with graph arguments (Props/C18/Graphs.lean): `cliOutcomeG`
(CnfgenModel/Cli/OutcomeG.lean) on the sub-commands with standard options.

Part 1: the bindings of the parser are typed, kind of the graph action included (`og_typedBy`); what the namespace
        holds for a dest whose options are all of one sort (`og_*_val`).
Part 2: the calls made from such dests are calls `evalCallG` maps (`og_shapeOK`, `og_mapped`).
Part 3: every mapped build step is clean.
-/
import CnfgenModel.Cli.OutcomeG
import Lemmas.DispatchTotal
import Lemmas.CliText
namespace Cnfgen.Cli
open Cnfgen Cnfgen.Gen

/-! ### Part 1: typed bindings -/

/-- what the action of option `o` can store — `producible` with the kind of the graph pinned to the action -/
def og_typedBy (o : OptSpec) (v : Val) : Prop :=
  match o.arity with
  | .zero => v = o.flagVal
  | .one => ∃ t, convertOne o t = some v
  | .plus => ∃ k toks, graphKind o.action = some k ∧ v = .graph k toks
  | .star => ∃ l, v = .ints l
  | .opt => v = o.defaultVal ∨ ∃ t, convertOne o t = some v
  | .other => False

def og_R (o : OptSpec) (p : String × Val) : Prop := o.dest = p.1 ∧ og_typedBy o p.2

theorem og_bindOne_binds (o : OptSpec) (hact : o.action ≠ "PHPArgs") (hc : o.action ≠ "compose_two_parsers") :
    dtot_binds og_R o := by
  intro toks b h p hp
  unfold bindOne at h
  have h1 : (o.action == "PHPArgs") = false := by simpa using hact
  have h2 : (o.action == "compose_two_parsers") = false := by simpa using hc
  simp only [h1, h2, Bool.false_eq_true, if_false] at h
  unfold og_R og_typedBy
  cases har : o.arity <;> rw [har] at h <;> dsimp only at h ⊢
  all_goals (repeat' split at h)
  all_goals first
    | (simp at h; done)
    | (simp at h; subst h; simp at hp; subst hp; simp; done)
    | (simp at h; subst h; simp at hp; subst hp; simp_all; done)
    | (simp at h; subst h; simp at hp; subst hp; exact ⟨rfl, _, by assumption⟩)
    | (simp at h; subst h; simp at hp; subst hp; exact ⟨rfl, Or.inr ⟨_, by assumption⟩⟩)
    | (simp at h; subst h; simp at hp; subst hp; exact ⟨rfl, _, _, by assumption, rfl⟩)

/-- the bindings of a standard sub-command are typed by its options -/
theorem og_parseArgs_typed (s : CliSpec) (hstd : s.standard = true) (argv : List String) (b : Ns)
    (h : parseArgs s argv = .ok b) : dtot_snd og_R s.opts b := by
  rw [dtot_parseArgs_raw s hstd argv] at h
  have hR : ∀ o ∈ mainOpts s, dtot_binds og_R o := by
    intro o ho
    rw [dtot_std_main s hstd] at ho
    have := dtot_std o (dtot_std_opts s hstd o ho)
    exact og_bindOne_binds o this.2.1 this.2.2.1
  have := (dtot_parseRaw s (dtot_std_mainOK s hstd) hR argv).2 b h
  rw [dtot_std_main s hstd] at this
  exact this

/-- where a value of the namespace comes from -/
theorem og_ns_lookup (s : CliSpec) (b : Ns) (hb : dtot_snd og_R s.opts b) (d : String) (v : Val)
    (h : (namespaceOf s b).lookup d = some v) :
    ∃ o ∈ optsFor s d, og_typedBy o v ∨ (v = o.defaultVal ∧ b.lookup d = none) := by
  unfold namespaceOf at h
  rw [List.lookup_append] at h
  cases hl : b.lookup d with
  | some w =>
    rw [hl] at h
    simp at h
    subst h
    obtain ⟨o, ho, hd, hp⟩ := hb _ (dtot_lookup_mem b d w hl)
    exact ⟨o, dtot_mem_optsFor s d o ho hd, Or.inl hp⟩
  | none =>
    rw [hl] at h
    simp at h
    have := dtot_lookup_mem _ d v h
    unfold defaults at this
    obtain ⟨o, ho, he⟩ := List.mem_map.1 this
    simp at he
    exact ⟨o, dtot_mem_optsFor s d o ((dtot_mem_mainOpts s o).1 ho).1 he.1, Or.inr ⟨he.2.symm, rfl⟩⟩

/-- a successful parse has seen every required option -/
theorem og_requiredSeen (s : CliSpec) (hstd : s.standard = true) (argv : List String) (b : Ns)
    (h : parseArgs s argv = .ok b) : requiredSeen s b = true := by
  rw [dtot_parseArgs_raw s hstd argv] at h
  unfold parseRaw at h
  repeat' split at h
  all_goals first
    | (simp at h; done)
    | (dsimp only at h
       split at h
       · simp only [Except.ok.injEq] at h; subst h; assumption
       · simp at h)

/-- the dest of a positional or required option is bound by the command line -/
theorem og_bound (s : CliSpec) (hstd : s.standard = true) (argv : List String) (b : Ns)
    (h : parseArgs s argv = .ok b) (o : OptSpec) (ho : o ∈ s.opts) (hpr : o.positional = true ∨ o.required = true) :
    ∃ v, b.lookup o.dest = some v := by
  by_cases hpos : o.positional = true
  · have hp : o ∈ positionals s := by
      unfold positionals
      rw [dtot_std_main s hstd]
      exact List.mem_filter.2 ⟨ho, hpos⟩
    obtain ⟨v0, hv0⟩ := dtot_positionals_bound s hstd argv b h o hp
    exact dtot_lookup_some b o.dest v0 hv0
  · have hreq : o.required = true := by
      rcases hpr with h1 | h1
      · exact absurd h1 hpos
      · exact h1
    have hrs := og_requiredSeen s hstd argv b h
    unfold requiredSeen at hrs
    have := List.all_eq_true.1 hrs o ho
    simp only [Bool.or_eq_true, Bool.not_eq_true', List.any_eq_true, beq_iff_eq] at this
    rcases this with (h1 | h1) | ⟨p, hp, hpd⟩
    · exact absurd h1 hpos
    · rw [hreq] at h1; cases h1
    · obtain ⟨k, v⟩ := p
      simp only at hpd
      subst hpd
      exact dtot_lookup_some b _ v hp

/-! #### sorts of dests -/

def og_isBoolVal : Val → Bool
  | .bool _ => true
  | _ => false

/-- `d` is set by flags storing booleans, with a boolean default -/
def og_boolFlag (s : CliSpec) (d : String) : Bool :=
  !(optsFor s d).isEmpty &&
  (optsFor s d).all (fun o => o.arity == .zero && og_isBoolVal o.flagVal && og_isBoolVal o.defaultVal)

/-- `d` is set by graph actions of kind `k` that are positional or required: always bound, to a graph of that kind -/
def og_graphBound (s : CliSpec) (k d : String) : Bool :=
  !(optsFor s d).isEmpty &&
  (optsFor s d).all (fun o => o.arity == .plus && graphKind o.action == some k && (o.positional || o.required))

/-- `d` is set by optional graph actions of kind `k` whose default is `None` -/
def og_graphOpt (s : CliSpec) (k d : String) : Bool :=
  !(optsFor s d).isEmpty &&
  (optsFor s d).all (fun o => o.arity == .plus && graphKind o.action == some k && o.defaultVal == .none)

theorem og_isBoolVal_spec (v : Val) (h : og_isBoolVal v = true) : ∃ b, v = .bool b := by
  cases v <;> simp [og_isBoolVal] at h
  exact ⟨_, rfl⟩

theorem og_boolFlag_val (s : CliSpec) (hstd : s.standard = true) (argv : List String) (b : Ns)
    (h : parseArgs s argv = .ok b) (d : String) (hd : og_boolFlag s d = true) :
    ∃ x, (namespaceOf s b).lookup d = some (.bool x) := by
  unfold og_boolFlag at hd
  simp only [Bool.and_eq_true] at hd
  obtain ⟨v, hv⟩ := dtot_ns_some s (dtot_std_main s hstd) b d (by simpa using hd.1)
  obtain ⟨o, ho, hor⟩ := og_ns_lookup s b (og_parseArgs_typed s hstd argv b h) d v hv
  have h1 := List.all_eq_true.1 hd.2 o ho
  simp only [Bool.and_eq_true, beq_iff_eq] at h1
  obtain ⟨⟨har, hf⟩, hdf⟩ := h1
  rcases hor with hp | ⟨hdv, _⟩
  · unfold og_typedBy at hp
    rw [har] at hp
    dsimp only at hp
    obtain ⟨x, hx⟩ := og_isBoolVal_spec _ hf
    exact ⟨x, by rw [hv, hp, hx]⟩
  · obtain ⟨x, hx⟩ := og_isBoolVal_spec _ hdf
    exact ⟨x, by rw [hv, hdv, hx]⟩

theorem og_graphBound_val (s : CliSpec) (hstd : s.standard = true) (argv : List String) (b : Ns)
    (h : parseArgs s argv = .ok b) (k d : String) (hd : og_graphBound s k d = true) :
    ∃ toks, (namespaceOf s b).lookup d = some (.graph k toks) := by
  unfold og_graphBound at hd
  simp only [Bool.and_eq_true] at hd
  obtain ⟨o0, ho0⟩ := dtot_optsFor_head s d hd.1
  have hall := List.all_eq_true.1 hd.2
  have h0 := hall o0 ho0
  simp only [Bool.and_eq_true, Bool.or_eq_true, beq_iff_eq] at h0
  obtain ⟨ho0s, ho0d⟩ : o0 ∈ s.opts ∧ o0.dest = d := by
    unfold optsFor at ho0
    obtain ⟨a, c⟩ := List.mem_filter.1 ho0
    exact ⟨a, by simpa using c⟩
  obtain ⟨w, hw⟩ := og_bound s hstd argv b h o0 ho0s h0.2
  rw [ho0d] at hw
  have hv : (namespaceOf s b).lookup d = some w := by
    unfold namespaceOf
    rw [List.lookup_append, hw]; rfl
  obtain ⟨o, ho, hor⟩ := og_ns_lookup s b (og_parseArgs_typed s hstd argv b h) d w hv
  have h1 := hall o ho
  simp only [Bool.and_eq_true, Bool.or_eq_true, beq_iff_eq] at h1
  rcases hor with hp | ⟨_, hnone⟩
  · unfold og_typedBy at hp
    rw [h1.1.1] at hp
    dsimp only at hp
    obtain ⟨k', toks, hk', rfl⟩ := hp
    rw [h1.1.2] at hk'
    cases hk'
    exact ⟨toks, hv⟩
  · rw [hw] at hnone; cases hnone

theorem og_graphOpt_val (s : CliSpec) (hstd : s.standard = true) (argv : List String) (b : Ns)
    (h : parseArgs s argv = .ok b) (k d : String) (hd : og_graphOpt s k d = true) :
    ∃ v, (namespaceOf s b).lookup d = some v ∧ (v = .none ∨ ∃ toks, v = .graph k toks) := by
  unfold og_graphOpt at hd
  simp only [Bool.and_eq_true] at hd
  obtain ⟨v, hv⟩ := dtot_ns_some s (dtot_std_main s hstd) b d (by simpa using hd.1)
  refine ⟨v, hv, ?_⟩
  obtain ⟨o, ho, hor⟩ := og_ns_lookup s b (og_parseArgs_typed s hstd argv b h) d v hv
  have h1 := List.all_eq_true.1 hd.2 o ho
  simp only [Bool.and_eq_true, beq_iff_eq] at h1
  rcases hor with hp | ⟨hdv, _⟩
  · unfold og_typedBy at hp
    rw [h1.1.1] at hp
    dsimp only at hp
    obtain ⟨k', toks, hk', rfl⟩ := hp
    rw [h1.1.2] at hk'
    cases hk'
    exact Or.inr ⟨toks, rfl⟩
  · exact Or.inl (by rw [hdv, h1.2])

/-! ### Part 2: the calls made from such dests are mapped -/

def og_isG (s : CliSpec) (k : String) : Expr → Bool
  | .arg d => og_graphBound s k d
  | _ => false

/-- a graph that is always bound, or an optional graph on a path whose guard is `args.<d> is not None` -/
def og_isGg (s : CliSpec) (guard : Expr) (k : String) : Expr → Bool
  | .arg d => og_graphBound s k d || (og_graphOpt s k d && guard == .isNotNone (.getattr d .none))
  | _ => false

def og_isI (s : CliSpec) : Expr → Bool
  | .arg d => dtot_intBound s d
  | .int _ => true
  | _ => false

def og_isB (s : CliSpec) : Expr → Bool
  | .arg d => og_boolFlag s d
  | .bool _ => true
  | _ => false

def og_kwOK (s : CliSpec) : Expr → Bool
  | .name _ => true
  | e => og_isB s e

def og_kwIsB (s : CliSpec) (kw : List (String × Expr)) (name : String) : Bool :=
  match kw.lookup name with
  | some e => og_isB s e
  | none => false

/-- the positional arguments of a call of `fn` come from typed dests at the positions `evalCallG` expects -/
def og_posOK (s : CliSpec) (guard : Expr) (kw : List (String × Expr)) (fn : String) (pos : List Expr) : Bool :=
  if fn == "CliqueFormula" then
    (match pos with | [g, k, b] => og_isG s "simple" g && og_isI s k && og_isB s b | _ => false)
  else if fn == "BinaryCliqueFormula" then
    (match pos with | [g, k] => og_isG s "simple" g && og_isI s k | _ => false)
  else if fn == "RamseyWitnessFormula" then
    (match pos with | [g, k, k2] => og_isG s "simple" g && og_isI s k && og_isI s k2 | _ => false)
  else if fn == "GraphColoringFormula" then
    (match pos with | [g, k] => og_isG s "simple" g && og_isI s k | _ => false)
  else if fn == "EvenColoringFormula" then
    (match pos with | [g] => og_isG s "simple" g | _ => false)
  else if fn == "DominatingSet" then
    (match pos with | [g, k] => og_isG s "simple" g && og_isI s k && og_kwIsB s kw "alternative" | _ => false)
  else if fn == "Tiling" then
    (match pos with | [g] => og_isG s "simple" g | _ => false)
  else if fn == "PerfectMatchingPrinciple" then
    (match pos with | [g] => og_isG s "simple" g | _ => false)
  else if fn == "GraphAutomorphism" then
    (match pos with | [g] => og_isG s "simple" g | _ => false)
  else if fn == "GraphIsomorphism" then
    (match pos with | [g, g2] => og_isG s "simple" g && og_isGg s guard "simple" g2 | _ => false)
  else if fn == "SubgraphFormula" then
    (match pos with
     | [g, g2] => og_isG s "simple" g && og_isG s "simple" g2 && og_kwIsB s kw "induced" && og_kwIsB s kw "symbreak"
     | _ => false)
  else if fn == "PebblingFormula" then
    (match pos with | [g] => og_isG s "dag" g | _ => false)
  else if fn == "StoneFormula" then
    (match pos with | [g, k] => og_isG s "dag" g && og_isI s k | _ => false)
  else false

/-- the generators with graph arguments reached from sub-commands with standard options -/
def og_fns : List String :=
  ["CliqueFormula", "BinaryCliqueFormula", "RamseyWitnessFormula", "GraphColoringFormula", "EvenColoringFormula",
   "DominatingSet", "Tiling", "PerfectMatchingPrinciple", "GraphAutomorphism", "GraphIsomorphism", "SubgraphFormula",
   "PebblingFormula", "StoneFormula"]

/-- the call templates whose arguments come from typed dests at the positions `evalCallG` expects -/
def og_shapeOK (s : CliSpec) (t : CallTemplate) : Bool :=
  t.raises == "" && t.kw.all (fun p => og_kwOK s p.2) &&
  og_fns.any (fun f => t.fn == f && og_posOK s t.guard t.kw f t.pos)

theorem og_evalPos_cons (ns : Ns) (e : Expr) (rest : List Expr) (v : Val) (vs : List Val)
    (hns : ∀ e', e ≠ .star e') (hv : evalE ns e = some v) (hr : evalPos ns rest = some vs) :
    evalPos ns (e :: rest) = some (v :: vs) := by
  unfold evalPos
  rw [hv, hr]
  cases e <;> simp_all

theorem og_kwBool (fn : String) (pos : List Val) (k : List (String × Val)) (name : String) (x : Bool)
    (hx : k.lookup name = some (.bool x)) : kwBool ⟨fn, pos, k⟩ name = some x := by
  simp [kwBool, hx]

section
variable (s : CliSpec) (hstd : s.standard = true) (argv : List String) (b : Ns) (h : parseArgs s argv = .ok b)
include hstd h

theorem og_isG_eval (k : String) (e : Expr) (he : og_isG s k e = true) :
    (∀ e', e ≠ .star e') ∧ ∃ toks, evalE (namespaceOf s b) e = some (.graph k toks) := by
  cases e <;> simp only [og_isG, Bool.false_eq_true] at he
  case arg d =>
    obtain ⟨toks, ht⟩ := og_graphBound_val s hstd argv b h k d he
    exact ⟨(by intro e' hc; cases hc), toks, by simp [evalE, ht]⟩

theorem og_isI_eval (e : Expr) (he : og_isI s e = true) :
    (∀ e', e ≠ .star e') ∧ ∃ i, evalE (namespaceOf s b) e = some (.int i) := by
  cases e <;> simp only [og_isI, Bool.false_eq_true] at he
  case arg d =>
    obtain ⟨i, hi⟩ := dtot_intBound_val s hstd argv b h d he
    exact ⟨(by intro e' hc; cases hc), i, by simp [evalE, hi]⟩
  case int i => exact ⟨(by intro e' hc; cases hc), i, rfl⟩

theorem og_isB_eval (e : Expr) (he : og_isB s e = true) :
    (∀ e', e ≠ .star e') ∧ ∃ x, evalE (namespaceOf s b) e = some (.bool x) := by
  cases e <;> simp only [og_isB, Bool.false_eq_true] at he
  case arg d =>
    obtain ⟨x, hx⟩ := og_boolFlag_val s hstd argv b h d he
    exact ⟨(by intro e' hc; cases hc), x, by simp [evalE, hx]⟩
  case bool x => exact ⟨(by intro e' hc; cases hc), x, rfl⟩

theorem og_isGg_eval (guard : Expr) (hg : evalGuard (namespaceOf s b) guard = some true) (k : String) (e : Expr)
    (he : og_isGg s guard k e = true) :
    (∀ e', e ≠ .star e') ∧ ∃ toks, evalE (namespaceOf s b) e = some (.graph k toks) := by
  cases e <;> simp only [og_isGg, Bool.false_eq_true] at he
  case arg d =>
    refine ⟨(by intro e' hc; cases hc), ?_⟩
    simp only [Bool.or_eq_true, Bool.and_eq_true, beq_iff_eq] at he
    rcases he with he | ⟨he, hgd⟩
    · obtain ⟨toks, ht⟩ := og_graphBound_val s hstd argv b h k d he
      exact ⟨toks, by simp [evalE, ht]⟩
    · obtain ⟨v, hv, hor⟩ := og_graphOpt_val s hstd argv b h k d he
      rcases hor with rfl | ⟨toks, rfl⟩
      · exfalso
        rw [hgd] at hg
        simp [evalGuard, evalE, hv, isNoneV, truthy] at hg
      · exact ⟨toks, by simp [evalE, hv]⟩

theorem og_evalKw (kw : List (String × Expr)) (hk : kw.all (fun p => og_kwOK s p.2) = true) :
    ∃ k, evalKw (namespaceOf s b) kw = some k ∧
      ∀ name, og_kwIsB s kw name = true → ∃ x, k.lookup name = some (.bool x) := by
  induction kw with
  | nil => exact ⟨[], rfl, by intro name hn; simp [og_kwIsB] at hn⟩
  | cons p rest ih =>
    obtain ⟨key, e⟩ := p
    simp only [List.all_cons, Bool.and_eq_true] at hk
    obtain ⟨k, hk1, hk2⟩ := ih hk.2
    have hev : ∃ v, evalE (namespaceOf s b) e = some v ∧ (og_isB s e = true → ∃ x, v = .bool x) := by
      have hke := hk.1
      by_cases hb : og_isB s e = true
      · obtain ⟨_, x, hx⟩ := og_isB_eval s hstd argv b h e hb
        exact ⟨_, hx, fun _ => ⟨x, rfl⟩⟩
      · cases e <;> simp only [og_kwOK] at hke <;> first
          | exact absurd hke hb
          | exact ⟨_, rfl, fun hc => absurd hc hb⟩
    obtain ⟨v, hv, hvb⟩ := hev
    refine ⟨(key, v) :: k, by simp [evalKw, hv, hk1], ?_⟩
    intro name hn
    unfold og_kwIsB at hn
    rw [List.lookup_cons] at hn ⊢
    by_cases hkey : (name == key) = true
    · simp only [hkey] at hn ⊢
      obtain ⟨x, rfl⟩ := hvb hn
      exact ⟨x, rfl⟩
    · have hkey' : (name == key) = false := by simpa using hkey
      simp only [hkey'] at hn ⊢
      exact hk2 name (by unfold og_kwIsB; exact hn)

/-- a template of the right shape, on a namespace the parser produced, instantiates to a call that `evalCallG` maps -/
theorem og_mapped (env : GraphEnv) (t : CallTemplate) (hsh : og_shapeOK s t = true)
    (hg : evalGuard (namespaceOf s b) t.guard = some true) :
    ∃ c, instantiate (namespaceOf s b) t = .ok c ∧ (evalCallG env (namespaceOf s b) c).isSome = true := by
  unfold og_shapeOK at hsh
  rw [Bool.and_eq_true, Bool.and_eq_true, List.any_eq_true] at hsh
  obtain ⟨⟨hraises, hkw⟩, f, hfmem, hff⟩ := hsh
  rw [Bool.and_eq_true] at hff
  obtain ⟨hfeq, hpos⟩ := hff
  have hraises : t.raises = "" := by simpa using hraises
  have hfeq : t.fn = f := by simpa using hfeq
  obtain ⟨k, hk, hkb⟩ := og_evalKw s hstd argv b h t.kw hkw
  have G := og_isG_eval s hstd argv b h
  have I := og_isI_eval s hstd argv b h
  have B := og_isB_eval s hstd argv b h
  have GG := og_isGg_eval s hstd argv b h t.guard hg
  have hinst : ∀ p, evalPos (namespaceOf s b) t.pos = some p → f ≠ "" →
      instantiate (namespaceOf s b) t = .ok ⟨f, p, k⟩ := by
    intro p hp hne
    unfold instantiate
    have h1 : (t.raises != "") = false := by rw [hraises]; rfl
    have h2 : (f == "") = false := by simpa using hne
    simp only [h1, hfeq, h2, Bool.false_eq_true, if_false, hp, hk]
  have C := og_evalPos_cons (namespaceOf s b)
  simp only [og_fns, List.mem_cons, List.not_mem_nil, or_false] at hfmem
  rcases hfmem with rfl | rfl | rfl | rfl | rfl | rfl | rfl | rfl | rfl | rfl | rfl | rfl | rfl
  · -- CliqueFormula
    change (match t.pos with | [g, k, b] => og_isG s "simple" g && og_isI s k && og_isB s b | _ => false) = true at hpos
    split at hpos
    · rename_i g kk bb hp
      simp only [Bool.and_eq_true] at hpos
      obtain ⟨n1, toks, h1⟩ := G _ g hpos.1.1
      obtain ⟨n2, i, h2⟩ := I kk hpos.1.2
      obtain ⟨n3, x, h3⟩ := B bb hpos.2
      exact ⟨_, hinst _ (by rw [hp]; exact C _ _ _ _ n1 h1 (C _ _ _ _ n2 h2 (C _ _ _ _ n3 h3 rfl))) (by decide), rfl⟩
    · cases hpos
  · -- BinaryCliqueFormula
    change (match t.pos with | [g, k] => og_isG s "simple" g && og_isI s k | _ => false) = true at hpos
    split at hpos
    · rename_i g kk hp
      simp only [Bool.and_eq_true] at hpos
      obtain ⟨n1, toks, h1⟩ := G _ g hpos.1
      obtain ⟨n2, i, h2⟩ := I kk hpos.2
      exact ⟨_, hinst _ (by rw [hp]; exact C _ _ _ _ n1 h1 (C _ _ _ _ n2 h2 rfl)) (by decide), rfl⟩
    · cases hpos
  · -- RamseyWitnessFormula
    change (match t.pos with | [g, k, k2] => og_isG s "simple" g && og_isI s k && og_isI s k2 | _ => false) = true at hpos
    split at hpos
    · rename_i g kk k2 hp
      simp only [Bool.and_eq_true] at hpos
      obtain ⟨n1, toks, h1⟩ := G _ g hpos.1.1
      obtain ⟨n2, i, h2⟩ := I kk hpos.1.2
      obtain ⟨n3, j, h3⟩ := I k2 hpos.2
      exact ⟨_, hinst _ (by rw [hp]; exact C _ _ _ _ n1 h1 (C _ _ _ _ n2 h2 (C _ _ _ _ n3 h3 rfl))) (by decide), rfl⟩
    · cases hpos
  · -- GraphColoringFormula
    change (match t.pos with | [g, k] => og_isG s "simple" g && og_isI s k | _ => false) = true at hpos
    split at hpos
    · rename_i g kk hp
      simp only [Bool.and_eq_true] at hpos
      obtain ⟨n1, toks, h1⟩ := G _ g hpos.1
      obtain ⟨n2, i, h2⟩ := I kk hpos.2
      exact ⟨_, hinst _ (by rw [hp]; exact C _ _ _ _ n1 h1 (C _ _ _ _ n2 h2 rfl)) (by decide), rfl⟩
    · cases hpos
  · -- EvenColoringFormula
    change (match t.pos with | [g] => og_isG s "simple" g | _ => false) = true at hpos
    split at hpos
    · rename_i g hp
      obtain ⟨n1, toks, h1⟩ := G _ g hpos
      exact ⟨_, hinst _ (by rw [hp]; exact C _ _ _ _ n1 h1 rfl) (by decide), rfl⟩
    · cases hpos
  · -- DominatingSet
    change (match t.pos with
      | [g, k] => og_isG s "simple" g && og_isI s k && og_kwIsB s t.kw "alternative" | _ => false) = true at hpos
    split at hpos
    · rename_i g kk hp
      simp only [Bool.and_eq_true] at hpos
      obtain ⟨n1, toks, h1⟩ := G _ g hpos.1.1
      obtain ⟨n2, i, h2⟩ := I kk hpos.1.2
      obtain ⟨x, hx⟩ := hkb _ hpos.2
      refine ⟨_, hinst _ (by rw [hp]; exact C _ _ _ _ n1 h1 (C _ _ _ _ n2 h2 rfl)) (by decide), ?_⟩
      have hb := og_kwBool "DominatingSet" [.graph "simple" toks, .int i] k "alternative" x hx
      show (gDomset env (namespaceOf s b) ⟨"DominatingSet", [.graph "simple" toks, .int i], k⟩).isSome = true
      unfold gDomset
      simp only [hb]
      rfl
    · cases hpos
  · -- Tiling
    change (match t.pos with | [g] => og_isG s "simple" g | _ => false) = true at hpos
    split at hpos
    · rename_i g hp
      obtain ⟨n1, toks, h1⟩ := G _ g hpos
      exact ⟨_, hinst _ (by rw [hp]; exact C _ _ _ _ n1 h1 rfl) (by decide), rfl⟩
    · cases hpos
  · -- PerfectMatchingPrinciple
    change (match t.pos with | [g] => og_isG s "simple" g | _ => false) = true at hpos
    split at hpos
    · rename_i g hp
      obtain ⟨n1, toks, h1⟩ := G _ g hpos
      exact ⟨_, hinst _ (by rw [hp]; exact C _ _ _ _ n1 h1 rfl) (by decide), rfl⟩
    · cases hpos
  · -- GraphAutomorphism
    change (match t.pos with | [g] => og_isG s "simple" g | _ => false) = true at hpos
    split at hpos
    · rename_i g hp
      obtain ⟨n1, toks, h1⟩ := G _ g hpos
      exact ⟨_, hinst _ (by rw [hp]; exact C _ _ _ _ n1 h1 rfl) (by decide), rfl⟩
    · cases hpos
  · -- GraphIsomorphism
    change (match t.pos with
      | [g, g2] => og_isG s "simple" g && og_isGg s t.guard "simple" g2 | _ => false) = true at hpos
    split at hpos
    · rename_i g g2 hp
      simp only [Bool.and_eq_true] at hpos
      obtain ⟨n1, toks, h1⟩ := G _ g hpos.1
      obtain ⟨n2, toks2, h2⟩ := GG _ g2 hpos.2
      exact ⟨_, hinst _ (by rw [hp]; exact C _ _ _ _ n1 h1 (C _ _ _ _ n2 h2 rfl)) (by decide), rfl⟩
    · cases hpos
  · -- SubgraphFormula
    change (match t.pos with
      | [g, g2] => og_isG s "simple" g && og_isG s "simple" g2 && og_kwIsB s t.kw "induced" && og_kwIsB s t.kw "symbreak"
      | _ => false) = true at hpos
    split at hpos
    · rename_i g g2 hp
      simp only [Bool.and_eq_true] at hpos
      obtain ⟨n1, toks, h1⟩ := G _ g hpos.1.1.1
      obtain ⟨n2, toks2, h2⟩ := G _ g2 hpos.1.1.2
      obtain ⟨x, hx⟩ := hkb _ hpos.1.2
      obtain ⟨y, hy⟩ := hkb _ hpos.2
      refine ⟨_, hinst _ (by rw [hp]; exact C _ _ _ _ n1 h1 (C _ _ _ _ n2 h2 rfl)) (by decide), ?_⟩
      have hb1 := og_kwBool "SubgraphFormula" [.graph "simple" toks, .graph "simple" toks2] k "induced" x hx
      have hb2 := og_kwBool "SubgraphFormula" [.graph "simple" toks, .graph "simple" toks2] k "symbreak" y hy
      show (gSubgraph env (namespaceOf s b)
        ⟨"SubgraphFormula", [.graph "simple" toks, .graph "simple" toks2], k⟩).isSome = true
      unfold gSubgraph
      simp only [hb1, hb2]
      rfl
    · cases hpos
  · -- PebblingFormula
    change (match t.pos with | [g] => og_isG s "dag" g | _ => false) = true at hpos
    split at hpos
    · rename_i g hp
      obtain ⟨n1, toks, h1⟩ := G _ g hpos
      exact ⟨_, hinst _ (by rw [hp]; exact C _ _ _ _ n1 h1 rfl) (by decide), rfl⟩
    · cases hpos
  · -- StoneFormula
    change (match t.pos with | [g, k] => og_isG s "dag" g && og_isI s k | _ => false) = true at hpos
    split at hpos
    · rename_i g kk hp
      simp only [Bool.and_eq_true] at hpos
      obtain ⟨n1, toks, h1⟩ := G _ g hpos.1
      obtain ⟨n2, i, h2⟩ := I kk hpos.2
      exact ⟨_, hinst _ (by rw [hp]; exact C _ _ _ _ n1 h1 (C _ _ _ _ n2 h2 rfl)) (by decide), rfl⟩
    · cases hpos
end

/-! ### Part 3: the whole run -/

theorem og_select_guard (ns : Ns) (ts : List CallTemplate) (t : CallTemplate)
    (h : selectTemplate ns ts = .ok t) : evalGuard ns t.guard = some true := by
  induction ts with
  | nil => simp [selectTemplate] at h
  | cons t1 rest ih =>
    unfold selectTemplate at h
    split at h
    · cases h
    · rename_i hg; cases h; exact hg
    · exact ih h

/-- a path of the helper that raises an exception `cli()` shields, or makes a call of the right shape -/
def pathCovered (s : CliSpec) (t : CallTemplate) : Bool :=
  (t.raises != "" && shielded t.raises) || og_shapeOK s t

/-- the sub-commands with graph arguments of the end-to-end theorem: standard options, and every path covered -/
def graphCovered (s : CliSpec) : Bool :=
  s.standard && s.templates.all (pathCovered s)

/-- the path of the helper on a namespace the parser produced: when covered, a shielded `raise`, or a call
`evalCallG` maps -/
theorem og_path (s : CliSpec) (hstd : s.standard = true) (hs : s ∈ cliSpecs)
    (argv : List String) (b : Ns) (h : parseArgs s argv = .ok b) (env : GraphEnv) :
    ∃ t ∈ s.templates, dispatchTemplate s argv = .ok (t, namespaceOf s b) ∧
      (pathCovered s t = true →
        ((t.raises ≠ "" ∧ instantiate (namespaceOf s b) t = .error .cliError) ∨
         (∃ c, instantiate (namespaceOf s b) t = .ok c ∧ (evalCallG env (namespaceOf s b) c).isSome = true))) := by
  have ht := (List.all_eq_true.1 standard_commands_totalClassExt) s (List.mem_filter.2 ⟨hs, hstd⟩)
  unfold totalClassExt at ht
  simp only [Bool.and_eq_true] at ht
  obtain ⟨⟨_, hall⟩, hpe⟩ := ht
  have hall' := List.all_eq_true.1 hall
  obtain ⟨t, htm, hsel⟩ := dtot_selectX (namespaceOf s b) s.templates (fun t htm => by
    have := hall' t htm
    simp only [Bool.and_eq_true] at this
    obtain ⟨c, hc, _⟩ := dtot_guardTotalX_eval s hstd argv b h t.guard [] this.1.1.1
      (fun d hd => by cases hd)
    exact ⟨c, hc⟩) hpe
  have hd : dispatchTemplate s argv = .ok (t, namespaceOf s b) := by
    unfold dispatchTemplate
    rw [dtot_supported s hstd, h]
    dsimp only
    rw [hsel]
    rfl
  refine ⟨t, htm, hd, ?_⟩
  intro hct
  unfold pathCovered at hct
  simp only [Bool.or_eq_true, Bool.and_eq_true, bne_iff_ne] at hct
  rcases hct with ⟨hne, hsh⟩ | hsh
  · left
    refine ⟨hne, ?_⟩
    unfold instantiate
    simp [hne, hsh]
  · right
    exact og_mapped s hstd argv b h env t hsh (og_select_guard _ _ _ hsel)

end Cnfgen.Cli
