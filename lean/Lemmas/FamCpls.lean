/-
Lemmas about the model of cnfgen/families/cpls.py (`CnfgenModel/Fam/Cpls.lean`): for every
`a ≥ 1`, `b = 2^p`, `c = 2^q` the generator accepts, its two `assert`s never fire, the number of
variables and the list of constraints have the stated closed forms, the formula is well formed and
it is unsatisfiable (Thapen's CPLS principle).  Sections: 1 logarithms, 2 pure axioms, 3 `cpls_ok`,
6 `forbid_false`, 7 `cpls_unsat`, 4 `cpls_mem_iff`, 5 `cpls_wf`, 1' converse / `cpls_accepts`, 8 examples.
-/
import CnfgenModel.Fam.Cpls
import Lemmas.Linear
import Lemmas.Constr
import Lemmas.VarsBinary
namespace Cnfgen.FamCpls
open Cnfgen Cnfgen.Fam

/-! ## 1. logarithms of powers of two -/

theorem lt_two_pow_self' (p : Nat) : p < 2 ^ p := Nat.lt_two_pow_self

theorem clog2_two_pow (p : Nat) : Vars.clog2 (2 ^ p) = p := by
  obtain ⟨h1, h2⟩ := Vars.clog2_spec (2 ^ p)
  have hle : Vars.clog2 (2 ^ p) ≤ p := h2 p (Nat.le_refl _)
  have hge : p ≤ Vars.clog2 (2 ^ p) := (Nat.pow_le_pow_iff_right (by omega)).1 h1
  omega

theorem intlog2Aux_two_pow (p : Nat) : ∀ (fuel i : Nat), i ≤ p → p ≤ i + fuel →
    Cpls.intlog2Aux (2 ^ p) fuel i = p := by
  intro fuel
  induction fuel with
  | zero => intro i h1 h2; simp [Cpls.intlog2Aux]; omega
  | succ f ih =>
    intro i h1 h2
    unfold Cpls.intlog2Aux
    by_cases h : i < p
    · have : 2 ^ i < 2 ^ p := Nat.pow_lt_pow_right (by omega) h
      rw [if_pos this]
      exact ih (i + 1) (by omega) (by omega)
    · have hip : i = p := by omega
      subst hip
      simp

theorem intlog2_two_pow (p : Nat) : Cpls.intlog2 (2 ^ p) = p := by
  unfold Cpls.intlog2
  exact intlog2Aux_two_pow p _ 0 (by omega) (by have := lt_two_pow_self' p; omega)

theorem land_two_pow_pred (p : Nat) : (2 ^ p) &&& (2 ^ p - 1) = 0 := by
  rw [Nat.and_two_pow_sub_one_eq_mod]; simp

/-! ## 2. pure descriptions of the axioms -/

def forbidPure (start bits i j : Nat) : Clause :=
  (Vars.flipPattern bits j).zipWith
    (fun s t => s * (Vars.binId start bits i (bits - 1 - t) : Int)) (List.range bits)

theorem forbid_ok (start bits i j : Nat) (h : j < 2 ^ bits) :
    Vars.forbid start bits i j = .ok (forbidPure start bits i j) := by
  unfold Vars.forbid forbidPure
  rw [if_neg (by omega)]

theorem mapM_ok {α β : Type} (f : α → Except Err β) (g : α → β) (l : List α)
    (h : ∀ x ∈ l, f x = .ok (g x)) : l.mapM f = .ok (l.map g) := by
  induction l with
  | nil => rfl
  | cons x xs ih =>
    rw [List.mapM_cons, h x (by simp), ih (fun y hy => h y (by simp [hy]))]
    rfl

theorem mem_rangeN (a b y : Nat) : y ∈ rangeN a b ↔ a ≤ y ∧ y < b := by
  simp only [rangeN, List.mem_map, List.mem_range]
  constructor
  · rintro ⟨k, hk, rfl⟩; omega
  · intro h; exact ⟨y - a, by omega, by omega⟩

theorem length_rangeN (a b : Nat) : (rangeN a b).length = b - a := by simp [rangeN]

theorem mem_product_nil {α : Type} (t : List α) : t ∈ product ([] : List (List α)) ↔ t = [] := by
  simp only [product, List.mem_singleton]

theorem mem_product_cons {α : Type} (l : List α) (ls : List (List α)) (t : List α) :
    t ∈ product (l :: ls) ↔ ∃ x, x ∈ l ∧ ∃ t', t' ∈ product ls ∧ t = x :: t' := by
  simp only [product, List.mem_flatMap, List.mem_map]
  constructor
  · rintro ⟨x, hx, t', ht', rfl⟩; exact ⟨x, hx, t', ht', rfl⟩
  · rintro ⟨x, hx, t', ht', rfl⟩; exact ⟨x, hx, t', ht', rfl⟩

theorem mem_product2 {α : Type} (A B : List α) (t : List α) :
    t ∈ product [A, B] ↔ ∃ x ∈ A, ∃ y ∈ B, t = [x, y] := by
  simp only [mem_product_cons, mem_product_nil]
  constructor
  · rintro ⟨x, hx, _, ⟨y, hy, _, rfl, rfl⟩, rfl⟩
    exact ⟨x, hx, y, hy, rfl⟩
  · rintro ⟨x, hx, y, hy, rfl⟩
    exact ⟨x, hx, _, ⟨y, hy, _, rfl, rfl⟩, rfl⟩

theorem mem_product4 {α : Type} (A B C D : List α) (t : List α) :
    t ∈ product [A, B, C, D] ↔ ∃ i ∈ A, ∃ x ∈ B, ∃ x' ∈ C, ∃ y ∈ D, t = [i, x, x', y] := by
  simp only [mem_product_cons, mem_product_nil]
  constructor
  · rintro ⟨i, hi, _, ⟨x, hx, _, ⟨x', hx', _, ⟨y, hy, _, rfl, rfl⟩, rfl⟩, rfl⟩, rfl⟩
    exact ⟨i, hi, x, hx, x', hx', y, hy, rfl⟩
  · rintro ⟨i, hi, x, hx, x', hx', y, hy, rfl⟩
    exact ⟨i, hi, _, ⟨x, hx, _, ⟨x', hx', _, ⟨y, hy, _, rfl, rfl⟩, rfl⟩, rfl⟩, rfl⟩

theorem length_flatMap_const {α β : Type} (l : List α) (f : α → List β) (n : Nat)
    (h : ∀ x ∈ l, (f x).length = n) : (l.flatMap f).length = l.length * n := by
  induction l with
  | nil => simp
  | cons x xs ih =>
    rw [List.flatMap_cons, List.length_append, h x (by simp), ih (fun y hy => h y (by simp [hy]))]
    simp [Nat.succ_mul, Nat.add_comm]

theorem length_product_nil {α : Type} : (product ([] : List (List α))).length = 1 := rfl

theorem length_product_cons {α : Type} (l : List α) (ls : List (List α)) :
    (product (l :: ls)).length = l.length * (product ls).length := by
  rw [product]
  exact length_flatMap_const _ _ _ (fun x _ => by simp)

/-- the constraint of Axiom 2 for the tuple `[i, x, x', y]` -/
def ax2Con (a b c : Nat) : List Nat → Con
  | [i, x, xx, y] => Con.clause (forbidPure (Cpls.fStart a b c i) (Cpls.bitsB b) x (xx - 1) ++
      [-(Cpls.gId a b c (i + 1) xx y : Int), (Cpls.gId a b c i x y : Int)])
  | _ => Con.clause []

/-- the constraint of Axiom 3 for the tuple `[x, y]` -/
def ax3Con (a b c : Nat) : List Nat → Con
  | [x, y] => Con.clause (forbidPure (Cpls.uStart a b c) (Cpls.bitsC c) x (y - 1) ++
      [(Cpls.gId a b c a x y : Int)])
  | _ => Con.clause []

def ax2 (a b c : Nat) : List Con :=
  (product [rangeN 1 a, rangeN 1 (b + 1), rangeN 1 (b + 1), rangeN 1 (c + 1)]).map (ax2Con a b c)

def ax3 (a b c : Nat) : List Con :=
  (product [rangeN 1 (b + 1), rangeN 1 (c + 1)]).map (ax3Con a b c)

theorem axiom2_ok (a p q : Nat) : Cpls.axiom2 a (2 ^ p) (2 ^ q) = .ok (ax2 a (2 ^ p) (2 ^ q)) := by
  unfold Cpls.axiom2 ax2
  apply mapM_ok
  intro t ht
  rw [mem_product4] at ht
  obtain ⟨i, _, x, _, xx, hxx, y, _, rfl⟩ := ht
  rw [mem_rangeN] at hxx
  simp only [ax2Con]
  rw [forbid_ok _ _ _ _ (by rw [Cpls.bitsB, clog2_two_pow]; omega)]
  rfl

theorem axiom3_ok (a p q : Nat) : Cpls.axiom3 a (2 ^ p) (2 ^ q) = .ok (ax3 a (2 ^ p) (2 ^ q)) := by
  unfold Cpls.axiom3 ax3
  apply mapM_ok
  intro t ht
  rw [mem_product2] at ht
  obtain ⟨x, _, y, hy, rfl⟩ := ht
  rw [mem_rangeN] at hy
  simp only [ax3Con]
  rw [forbid_ok _ _ _ _ (by rw [Cpls.bitsC, clog2_two_pow]; omega)]
  rfl

theorem length_axiom1 (a b c : Nat) : (Cpls.axiom1 a b c).length = c := by
  simp [Cpls.axiom1, length_rangeN]

theorem length_ax2 (a b c : Nat) : (ax2 a b c).length = (a - 1) * b * b * c := by
  simp only [ax2, List.length_map, length_product_cons, length_product_nil, length_rangeN, Nat.add_sub_cancel, Nat.mul_one, Nat.mul_assoc]

theorem length_ax3 (a b c : Nat) : (ax3 a b c).length = b * c := by
  simp only [ax3, List.length_map, length_product_cons, length_product_nil, length_rangeN, Nat.add_sub_cancel, Nat.mul_one]

/-! ## 3. the generator accepts; closed forms -/

theorem cpls_ok (a p q : Nat) (ha : 1 ≤ a) :
    Cpls.cpls (a : Int) ((2 ^ p : Nat) : Int) ((2 ^ q : Nat) : Int) =
      .ok ⟨a * 2 ^ p * 2 ^ q + a * (2 ^ p * p) + 2 ^ p * q,
        Cpls.axiom1 a (2 ^ p) (2 ^ q) ++ ax2 a (2 ^ p) (2 ^ q) ++ ax3 a (2 ^ p) (2 ^ q)⟩ := by
  have hb : (1 : Nat) ≤ 2 ^ p := Nat.one_le_two_pow
  have hc : (1 : Nat) ≤ 2 ^ q := Nat.one_le_two_pow
  unfold Cpls.cpls
  simp only [Cpls.positiveInt, Int.toNat_natCast]
  rw [if_neg (by omega), if_neg (by omega), if_neg (by omega)]
  simp only [land_two_pow_pred, axiom2_ok, axiom3_ok, Cpls.bitsB, Cpls.bitsC, clog2_two_pow,
    intlog2_two_pow, List.length_append, length_axiom1]
  simp only [ne_eq, not_true_eq_false, if_false, bind, Except.bind, length_ax2, length_ax3,
    Nat.mul_assoc]
  rfl

theorem cpls_nvars (a p q : Nat) (ha : 1 ≤ a) (F : Formula)
    (h : Cpls.cpls (a : Int) ((2 ^ p : Nat) : Int) ((2 ^ q : Nat) : Int) = .ok F) :
    F.nvars = a * 2 ^ p * 2 ^ q + a * (2 ^ p * p) + 2 ^ p * q := by
  rw [cpls_ok a p q ha] at h
  cases h; rfl

theorem cpls_ncons (a p q : Nat) (ha : 1 ≤ a) (F : Formula)
    (h : Cpls.cpls (a : Int) ((2 ^ p : Nat) : Int) ((2 ^ q : Nat) : Int) = .ok F) :
    F.cons.length = 2 ^ q + (a - 1) * 2 ^ p * 2 ^ p * 2 ^ q + 2 ^ p * 2 ^ q := by
  rw [cpls_ok a p q ha] at h
  cases h
  simp only [List.length_append, length_axiom1, length_ax2, length_ax3]

/-! ## 6. the clause `forbid(i, j)` is falsified when `i` is mapped to the bit string of `j` -/

/-- the number with binary digits `f 0` (LSB) … `f (n-1)` (MSB) -/
def bitsVal (f : Nat → Bool) : Nat → Nat
  | 0 => 0
  | n + 1 => bitsVal f n + (if f n then 2 ^ n else 0)

/-- the value that the assignment gives to the binary string of `i` in the binary mapping
starting at `start`: digit of weight `2^k` is the variable `binId start bits i k` -/
def binVal (α : Assign) (start bits i : Nat) : Nat :=
  bitsVal (fun k => α (Vars.binId start bits i k)) bits

theorem bitsVal_lt (f : Nat → Bool) (n : Nat) : bitsVal f n < 2 ^ n := by
  induction n with
  | zero => simp [bitsVal]
  | succ n ih =>
    simp only [bitsVal, Nat.pow_succ]
    split <;> omega

theorem binVal_lt (α : Assign) (start bits i : Nat) : binVal α start bits i < 2 ^ bits :=
  bitsVal_lt _ _

theorem bitsVal_testBit (f : Nat → Bool) (n k : Nat) (hk : k < n) :
    (bitsVal f n).testBit k = f k := by
  induction n with
  | zero => omega
  | succ n ih =>
    simp only [bitsVal]
    by_cases hkn : k = n
    · subst hkn
      by_cases hf : f k
      · rw [if_pos hf, Nat.add_comm, Nat.testBit_two_pow_add_eq,
          Nat.testBit_lt_two_pow (bitsVal_lt f k), hf]; rfl
      · rw [if_neg hf, Nat.add_zero, Nat.testBit_lt_two_pow (bitsVal_lt f k)]; simp [hf]
    · have hlt : k < n := by omega
      by_cases hf : f n
      · rw [if_pos hf, Nat.add_comm, Nat.testBit_two_pow_add_gt hlt, ih hlt]
      · rw [if_neg hf, Nat.add_zero, ih hlt]

theorem bitsVal_div_mod (f : Nat → Bool) (n k : Nat) (hk : k < n) :
    (bitsVal f n / 2 ^ k % 2 = 1) ↔ f k = true := by
  rw [← bitsVal_testBit f n k hk, Nat.testBit_eq_decide_div_mod_eq]; simp

theorem litHolds_pos (α : Assign) (n : Nat) (h : 1 ≤ n) : litHolds α (n : Int) = α n := by
  unfold litHolds
  rw [if_pos (by omega)]; simp

theorem litHolds_negNat (α : Assign) (n : Nat) (h : 1 ≤ n) : litHolds α (-(n : Int)) = !α n := by
  unfold litHolds
  rw [if_neg (by omega)]; simp

theorem forbidPure_eq_map (start bits i j : Nat) :
    forbidPure start bits i j = (List.range bits).map (fun t =>
      (if (j / 2 ^ (bits - 1 - t)) % 2 = 1 then (-1 : Int) else 1) *
        (Vars.binId start bits i (bits - 1 - t) : Int)) := by
  unfold forbidPure Vars.flipPattern
  rw [List.zipWith_map_left, List.zipWith_self]

theorem binId_pos (start bits i k : Nat) (hs : 1 ≤ start) (hi : 1 ≤ i) (hk : k < bits) :
    1 ≤ Vars.binId start bits i k := by
  unfold Vars.binId
  have : bits ≤ i * bits := Nat.le_mul_of_pos_left bits hi
  omega

theorem forbid_false (α : Assign) (start bits i : Nat) (hs : 1 ≤ start) (hi : 1 ≤ i) :
    clauseHolds α (forbidPure start bits i (binVal α start bits i)) = false := by
  rw [forbidPure_eq_map]
  simp only [clauseHolds, List.any_eq_false, List.mem_map, List.mem_range]
  rintro l ⟨t, ht, rfl⟩
  have hk : bits - 1 - t < bits := by omega
  have hpos := binId_pos start bits i (bits - 1 - t) hs hi hk
  have hbit := bitsVal_div_mod (fun k => α (Vars.binId start bits i k)) bits _ hk
  by_cases hv : α (Vars.binId start bits i (bits - 1 - t)) = true
  · rw [if_pos (by unfold binVal; exact hbit.2 hv)]
    rw [show (-1 : Int) * (Vars.binId start bits i (bits - 1 - t) : Int) =
      -((Vars.binId start bits i (bits - 1 - t) : Nat) : Int) by omega]
    rw [litHolds_negNat α _ hpos, hv]; simp
  · rw [if_neg (by unfold binVal; intro h; exact hv (hbit.1 h))]
    rw [Int.one_mul, litHolds_pos α _ hpos]; simpa using hv

/-! ## 7. the formula is unsatisfiable -/

theorem gId_pos (a b c i x y : Nat) : 1 ≤ Cpls.gId a b c i x y := by
  unfold Cpls.gId Vars.blockId; omega

theorem fStart_pos (a b c i : Nat) : 1 ≤ Cpls.fStart a b c i := by unfold Cpls.fStart; omega
theorem uStart_pos (a b c : Nat) : 1 ≤ Cpls.uStart a b c := by unfold Cpls.uStart; omega

/-- the path `x₁ = 1, x_{i+1} = f_i(x_i)` read off the assignment (`pathX … j = x_{j+1}`) -/
def pathX (α : Assign) (a b c : Nat) : Nat → Nat
  | 0 => 1
  | j + 1 => binVal α (Cpls.fStart a b c (j + 1)) (Cpls.bitsB b) (pathX α a b c j) + 1

theorem pathX_range (α : Assign) (a p q : Nat) (j : Nat) :
    1 ≤ pathX α a (2 ^ p) (2 ^ q) j ∧ pathX α a (2 ^ p) (2 ^ q) j ≤ 2 ^ p := by
  cases j with
  | zero => exact ⟨Nat.le_refl _, Nat.one_le_two_pow⟩
  | succ j =>
    simp only [pathX]
    have := binVal_lt α (Cpls.fStart a (2 ^ p) (2 ^ q) (j + 1)) (Cpls.bitsB (2 ^ p))
      (pathX α a (2 ^ p) (2 ^ q) j)
    rw [Cpls.bitsB, clog2_two_pow] at this
    rw [Cpls.bitsB, clog2_two_pow]
    omega

theorem clauseHolds_append (α : Assign) (c₁ c₂ : Clause) :
    clauseHolds α (c₁ ++ c₂) = (clauseHolds α c₁ || clauseHolds α c₂) := by
  simp [clauseHolds]

theorem ax3_sem (α : Assign) (a b c x y : Nat)
    (h : Con.holds α (ax3Con a b c [x, y]) = true)
    (hf : clauseHolds α (forbidPure (Cpls.uStart a b c) (Cpls.bitsC c) x (y - 1)) = false) :
    α (Cpls.gId a b c a x y) = true := by
  simp only [ax3Con, Con.holds, clauseHolds_append, hf, Bool.false_or] at h
  simpa [clauseHolds, litHolds_pos α _ (gId_pos a b c a x y)] using h

theorem ax2_sem (α : Assign) (a b c i x xx y : Nat)
    (h : Con.holds α (ax2Con a b c [i, x, xx, y]) = true)
    (hf : clauseHolds α (forbidPure (Cpls.fStart a b c i) (Cpls.bitsB b) x (xx - 1)) = false)
    (hg : α (Cpls.gId a b c (i + 1) xx y) = true) :
    α (Cpls.gId a b c i x y) = true := by
  simp only [ax2Con, Con.holds, clauseHolds_append, hf, Bool.false_or] at h
  simpa [clauseHolds, litHolds_pos α _ (gId_pos a b c i x y),
    litHolds_negNat α _ (gId_pos a b c (i + 1) xx y), hg] using h

theorem ax1_sem (α : Assign) (a b c y : Nat)
    (h : Con.holds α (Con.clause [-(Cpls.gId a b c 1 1 y : Int)]) = true) :
    α (Cpls.gId a b c 1 1 y) = false := by
  simpa [Con.holds, clauseHolds, litHolds_negNat α _ (gId_pos a b c 1 1 y)] using h

theorem mem_ax3 (a b c x y : Nat) (hx : 1 ≤ x ∧ x ≤ b) (hy : 1 ≤ y ∧ y ≤ c) :
    ax3Con a b c [x, y] ∈ ax3 a b c :=
  List.mem_map.2 ⟨[x, y], (mem_product2 _ _ _).2
    ⟨x, (mem_rangeN _ _ _).2 (by omega), y, (mem_rangeN _ _ _).2 (by omega), rfl⟩, rfl⟩

theorem mem_ax2 (a b c i x xx y : Nat) (hi : 1 ≤ i ∧ i < a) (hx : 1 ≤ x ∧ x ≤ b)
    (hxx : 1 ≤ xx ∧ xx ≤ b) (hy : 1 ≤ y ∧ y ≤ c) :
    ax2Con a b c [i, x, xx, y] ∈ ax2 a b c :=
  List.mem_map.2 ⟨[i, x, xx, y], (mem_product4 _ _ _ _ _).2
    ⟨i, (mem_rangeN _ _ _).2 (by omega), x, (mem_rangeN _ _ _).2 (by omega),
      xx, (mem_rangeN _ _ _).2 (by omega), y, (mem_rangeN _ _ _).2 (by omega), rfl⟩, rfl⟩

theorem mem_axiom1 (a b c y : Nat) (hy : 1 ≤ y ∧ y ≤ c) :
    Con.clause [-(Cpls.gId a b c 1 1 y : Int)] ∈ Cpls.axiom1 a b c :=
  List.mem_map.2 ⟨y, (mem_rangeN _ _ _).2 (by omega), rfl⟩

theorem cpls_unsat (a p q : Nat) (ha : 1 ≤ a) (F : Formula)
    (h : Cpls.cpls (a : Int) ((2 ^ p : Nat) : Int) ((2 ^ q : Nat) : Int) = .ok F) :
    ∀ α : Assign, F.holds α = false := by
  intro α
  rw [cpls_ok a p q ha] at h
  cases h
  cases hF : Formula.holds α _ with
  | false => rfl
  | true =>
    exfalso
    simp only [Formula.holds, List.all_eq_true, List.mem_append] at hF
    have hX := pathX_range α a p q
    -- the colour chosen by `u` at the end of the path
    have hyl := binVal_lt α (Cpls.uStart a (2 ^ p) (2 ^ q)) (Cpls.bitsC (2 ^ q))
      (pathX α a (2 ^ p) (2 ^ q) (a - 1))
    rw [Cpls.bitsC, clog2_two_pow] at hyl
    generalize hy : binVal α (Cpls.uStart a (2 ^ p) (2 ^ q)) (Cpls.bitsC (2 ^ q))
      (pathX α a (2 ^ p) (2 ^ q) (a - 1)) + 1 = y
    have hyr : 1 ≤ y ∧ y ≤ 2 ^ q := by rw [Cpls.bitsC, clog2_two_pow] at hy; omega
    -- Axiom 3 at the end of the path
    have h3 : α (Cpls.gId a (2 ^ p) (2 ^ q) a (pathX α a (2 ^ p) (2 ^ q) (a - 1)) y) = true := by
      apply ax3_sem α a _ _ _ _ (hF _ (Or.inr (mem_ax3 a _ _ _ _ (hX _) hyr)))
      rw [← hy, Nat.add_sub_cancel]
      exact forbid_false α _ _ _ (uStart_pos _ _ _) (hX _).1
    -- downward induction along the path
    have key : ∀ d j, j + 1 + d = a →
        α (Cpls.gId a (2 ^ p) (2 ^ q) (j + 1) (pathX α a (2 ^ p) (2 ^ q) j) y) = true := by
      intro d
      induction d with
      | zero =>
        intro j hj
        have : a - 1 = j := by omega
        rw [this] at h3
        rw [show j + 1 = a by omega]; exact h3
      | succ d ih =>
        intro j hj
        have hnext := ih (j + 1) (by omega)
        apply ax2_sem α a _ _ (j + 1) _ _ y
          (hF _ (Or.inl (Or.inr (mem_ax2 a _ _ (j + 1) _ _ y (by omega) (hX j) (hX (j + 1)) hyr))))
          _ hnext
        show clauseHolds α (forbidPure _ _ _ (binVal α _ _ _ + 1 - 1)) = false
        rw [Nat.add_sub_cancel]
        exact forbid_false α _ _ _ (fStart_pos _ _ _ _) (hX _).1
    have h1 := key (a - 1) 0 (by omega)
    have h1' := ax1_sem α a _ _ y (hF _ (Or.inl (Or.inl (mem_axiom1 a _ _ y hyr))))
    rw [show pathX α a (2 ^ p) (2 ^ q) 0 = 1 from rfl] at h1
    rw [h1] at h1'
    exact Bool.noConfusion h1'

/-! ## 4. the exact list of axioms, as a membership statement -/

theorem mem_axiom1_iff (a b c : Nat) (con : Con) :
    con ∈ Cpls.axiom1 a b c ↔
      ∃ y, 1 ≤ y ∧ y ≤ c ∧ con = Con.clause [-(Cpls.gId a b c 1 1 y : Int)] := by
  simp only [Cpls.axiom1, List.mem_map, mem_rangeN]
  constructor
  · rintro ⟨y, hy, rfl⟩; exact ⟨y, hy.1, by omega, rfl⟩
  · rintro ⟨y, h1, h2, rfl⟩; exact ⟨y, ⟨h1, by omega⟩, rfl⟩

theorem mem_ax2_iff (a b c : Nat) (con : Con) :
    con ∈ ax2 a b c ↔
      ∃ i x x' y, (1 ≤ i ∧ i < a) ∧ (1 ≤ x ∧ x ≤ b) ∧ (1 ≤ x' ∧ x' ≤ b) ∧ (1 ≤ y ∧ y ≤ c) ∧
        con = Con.clause (forbidPure (Cpls.fStart a b c i) (Cpls.bitsB b) x (x' - 1) ++
          [-(Cpls.gId a b c (i + 1) x' y : Int), (Cpls.gId a b c i x y : Int)]) := by
  simp only [ax2, List.mem_map, mem_product4, mem_rangeN]
  constructor
  · rintro ⟨t, ⟨i, hi, x, hx, x', hx', y, hy, rfl⟩, rfl⟩
    exact ⟨i, x, x', y, hi, by omega, by omega, by omega, rfl⟩
  · rintro ⟨i, x, x', y, hi, hx, hx', hy, rfl⟩
    exact ⟨[i, x, x', y], ⟨i, hi, x, by omega, x', by omega, y, by omega, rfl⟩, rfl⟩

theorem mem_ax3_iff (a b c : Nat) (con : Con) :
    con ∈ ax3 a b c ↔
      ∃ x y, (1 ≤ x ∧ x ≤ b) ∧ (1 ≤ y ∧ y ≤ c) ∧
        con = Con.clause (forbidPure (Cpls.uStart a b c) (Cpls.bitsC c) x (y - 1) ++
          [(Cpls.gId a b c a x y : Int)]) := by
  simp only [ax3, List.mem_map, mem_product2, mem_rangeN]
  constructor
  · rintro ⟨t, ⟨x, hx, y, hy, rfl⟩, rfl⟩
    exact ⟨x, y, by omega, by omega, rfl⟩
  · rintro ⟨x, y, hx, hy, rfl⟩
    exact ⟨[x, y], ⟨x, by omega, y, by omega, rfl⟩, rfl⟩

/-- exact description of the constraints of `CPLSFormula(a, 2^p, 2^q)` -/
theorem cpls_mem_iff (a p q : Nat) (ha : 1 ≤ a) (F : Formula)
    (h : Cpls.cpls (a : Int) ((2 ^ p : Nat) : Int) ((2 ^ q : Nat) : Int) = .ok F) (con : Con) :
    con ∈ F.cons ↔
      (∃ y, 1 ≤ y ∧ y ≤ 2 ^ q ∧ con = Con.clause [-(Cpls.gId a (2 ^ p) (2 ^ q) 1 1 y : Int)]) ∨
      (∃ i x x' y, (1 ≤ i ∧ i < a) ∧ (1 ≤ x ∧ x ≤ 2 ^ p) ∧ (1 ≤ x' ∧ x' ≤ 2 ^ p) ∧
        (1 ≤ y ∧ y ≤ 2 ^ q) ∧
        con = Con.clause (forbidPure (Cpls.fStart a (2 ^ p) (2 ^ q) i) p x (x' - 1) ++
          [-(Cpls.gId a (2 ^ p) (2 ^ q) (i + 1) x' y : Int),
            (Cpls.gId a (2 ^ p) (2 ^ q) i x y : Int)])) ∨
      (∃ x y, (1 ≤ x ∧ x ≤ 2 ^ p) ∧ (1 ≤ y ∧ y ≤ 2 ^ q) ∧
        con = Con.clause (forbidPure (Cpls.uStart a (2 ^ p) (2 ^ q)) q x (y - 1) ++
          [(Cpls.gId a (2 ^ p) (2 ^ q) a x y : Int)])) := by
  rw [cpls_ok a p q ha] at h
  cases h
  simp only [List.mem_append, mem_axiom1_iff, mem_ax2_iff, mem_ax3_iff, Cpls.bitsB, Cpls.bitsC,
    clog2_two_pow, or_assoc]

/-! ## 5. well-formedness -/

theorem gId_eq (a b c i x y : Nat) :
    Cpls.gId a b c i x y = 1 + (i - 1) * (b * c) + (x - 1) * c + (y - 1) := by
  simp [Cpls.gId, Vars.blockId, Vars.weights]
  omega

theorem gId_le (a b c i x y : Nat) (hi : 1 ≤ i ∧ i ≤ a) (hx : 1 ≤ x ∧ x ≤ b) (hy : 1 ≤ y ∧ y ≤ c) :
    Cpls.gId a b c i x y ≤ a * b * c := by
  rw [gId_eq]
  obtain ⟨i, rfl⟩ : ∃ i', i = i' + 1 := ⟨i - 1, by omega⟩
  obtain ⟨x, rfl⟩ : ∃ x', x = x' + 1 := ⟨x - 1, by omega⟩
  obtain ⟨y, rfl⟩ : ∃ y', y = y' + 1 := ⟨y - 1, by omega⟩
  simp only [Nat.add_sub_cancel]
  have h1 : (x + 1) * c ≤ b * c := Nat.mul_le_mul_right c hx.2
  have h2 : (i + 1) * (b * c) ≤ a * (b * c) := Nat.mul_le_mul_right _ hi.2
  rw [Nat.mul_assoc]
  rw [Nat.add_mul] at h1 h2
  omega

theorem binId_le (start bits i k : Nat) (hs : 1 ≤ start) :
    Vars.binId start bits i k ≤ i * bits + start - 1 := by
  unfold Vars.binId; omega

/-- every literal of `forbidPure start bits i j` is `±` a variable in `[start, start + i*bits - 1]` -/
theorem forbidPure_lits (start bits i j : Nat) (hs : 1 ≤ start) (hi : 1 ≤ i) :
    ∀ l ∈ forbidPure start bits i j, l ≠ 0 ∧ l.natAbs ≤ i * bits + start - 1 := by
  rw [forbidPure_eq_map]
  simp only [List.mem_map, List.mem_range]
  rintro l ⟨t, ht, rfl⟩
  have hk : bits - 1 - t < bits := by omega
  have hpos := binId_pos start bits i (bits - 1 - t) hs hi hk
  have hle := binId_le start bits i (bits - 1 - t) hs
  split <;> constructor <;> omega

theorem cpls_wf (a p q : Nat) (ha : 1 ≤ a) (F : Formula)
    (h : Cpls.cpls (a : Int) ((2 ^ p : Nat) : Int) ((2 ^ q : Nat) : Int) = .ok F) : F.WF := by
  intro con hcon l hl
  rw [cpls_mem_iff a p q ha F h] at hcon
  rw [cpls_nvars a p q ha F h]
  have hb1 : 1 ≤ 2 ^ p := Nat.one_le_two_pow
  generalize hb : 2 ^ p = b at hcon hb1 ⊢
  generalize hc : 2 ^ q = c at hcon ⊢
  have hG : ∀ i x y, (1 ≤ i ∧ i ≤ a) → (1 ≤ x ∧ x ≤ b) → (1 ≤ y ∧ y ≤ c) →
      ((Cpls.gId a b c i x y : Int) ≠ 0 ∧
        (Cpls.gId a b c i x y : Int).natAbs ≤ a * b * c + a * (b * p) + b * q) ∧
      (-(Cpls.gId a b c i x y : Int) ≠ 0 ∧
        (-(Cpls.gId a b c i x y : Int)).natAbs ≤ a * b * c + a * (b * p) + b * q) := by
    intro i x y hi hx hy
    have h1 := gId_pos a b c i x y
    have h2 := gId_le a b c i x y hi hx hy
    omega
  rcases hcon with ⟨y, hy1, hy2, rfl⟩ | ⟨i, x, x', y, hi, hx, hx', hy, rfl⟩ | ⟨x, y, hx, hy, rfl⟩
  · simp only [Con.lits, List.mem_singleton] at hl
    subst hl
    exact (hG 1 1 y ⟨Nat.le_refl _, ha⟩ ⟨Nat.le_refl _, by omega⟩ ⟨hy1, hy2⟩).2
  · simp only [Con.lits, List.mem_append, List.mem_cons, List.not_mem_nil, or_false] at hl
    rcases hl with hl | rfl | rfl
    · have := forbidPure_lits _ _ _ _ (fStart_pos a b c i) hx.1 l hl
      refine ⟨this.1, Nat.le_trans this.2 ?_⟩
      unfold Cpls.fStart Cpls.bitsB
      rw [← hb, clog2_two_pow, hb]
      have h1 : x * p ≤ b * p := Nat.mul_le_mul_right p hx.2
      have h2 : (i - 1 + 1) * (b * p) ≤ a * (b * p) := Nat.mul_le_mul_right _ (by omega)
      rw [Nat.add_mul] at h2
      omega
    · exact (hG (i + 1) x' y ⟨by omega, by omega⟩ hx' hy).2
    · exact (hG i x y ⟨by omega, by omega⟩ hx hy).1
  · simp only [Con.lits, List.mem_append, List.mem_singleton] at hl
    rcases hl with hl | rfl
    · have := forbidPure_lits _ _ _ _ (uStart_pos a b c) hx.1 l hl
      refine ⟨this.1, Nat.le_trans this.2 ?_⟩
      unfold Cpls.uStart Cpls.bitsB
      rw [← hb, clog2_two_pow, hb]
      have h1 : x * q ≤ b * q := Nat.mul_le_mul_right q hx.2
      omega
    · exact (hG a x y ⟨ha, Nat.le_refl _⟩ hx hy).1

/-! ## 1'. converse: the test `b & (b-1)` of the code accepts exactly the powers of two -/

theorem two_pow_of_land_pred (b : Nat) (hb : 1 ≤ b) (h : b &&& (b - 1) = 0) : ∃ p, b = 2 ^ p :=
  (Nat.and_sub_one_eq_zero_iff_isPowerOfTwo (by omega)).1 h

/-- the generator accepts exactly `a ≥ 1` and powers of two `b`, `c` -/
theorem cpls_accepts (a b c : Int) (F : Formula) (h : Cpls.cpls a b c = .ok F) :
    ∃ a' p q : Nat, 1 ≤ a' ∧ a = (a' : Int) ∧ b = ((2 ^ p : Nat) : Int) ∧ c = ((2 ^ q : Nat) : Int) := by
  unfold Cpls.cpls at h
  simp only [Cpls.positiveInt] at h
  by_cases ha : a < 1
  · rw [if_pos ha] at h; cases h
  by_cases hb : b < 1
  · rw [if_neg ha, if_pos hb] at h; cases h
  by_cases hc : c < 1
  · rw [if_neg ha, if_neg hb, if_pos hc] at h; cases h
  rw [if_neg ha, if_neg hb, if_neg hc] at h
  by_cases hb2 : b.toNat &&& (b.toNat - 1) = 0
  · by_cases hc2 : c.toNat &&& (c.toNat - 1) = 0
    · obtain ⟨p, hp⟩ := two_pow_of_land_pred b.toNat (by omega) hb2
      obtain ⟨q, hq⟩ := two_pow_of_land_pred c.toNat (by omega) hc2
      exact ⟨a.toNat, p, q, by omega, by omega, by omega, by omega⟩
    · simp only [hb2, hc2, ne_eq, not_true_eq_false, not_false_eq_true, if_true, if_false, bind,
        Except.bind, throw, throwThe, MonadExceptOf.throw] at h
      cases h
  · simp only [hb2, ne_eq, not_false_eq_true, if_true, bind,
        Except.bind, throw, throwThe, MonadExceptOf.throw] at h
    cases h

/-- unsatisfiability for every accepted input -/
theorem cpls_unsat_all (a b c : Int) (F : Formula) (h : Cpls.cpls a b c = .ok F) :
    ∀ α : Assign, F.holds α = false := by
  obtain ⟨a', p, q, ha, rfl, rfl, rfl⟩ := cpls_accepts a b c F h
  exact cpls_unsat a' p q ha F h

/-- the two `assert`s at the end of `CPLSFormula` never fire: the generator either returns a formula
or raises `ValueError` -/
theorem cpls_ok_or_valueError (a b c : Int) :
    (∃ F, Cpls.cpls a b c = .ok F) ∨ Cpls.cpls a b c = .error .valueError := by
  by_cases ha : a < 1
  · right; unfold Cpls.cpls; simp only [Cpls.positiveInt]; rw [if_pos ha]; rfl
  by_cases hb : b < 1
  · right; unfold Cpls.cpls; simp only [Cpls.positiveInt]; rw [if_neg ha, if_pos hb]; rfl
  by_cases hc : c < 1
  · right; unfold Cpls.cpls; simp only [Cpls.positiveInt]; rw [if_neg ha, if_neg hb, if_pos hc]; rfl
  by_cases hb2 : b.toNat &&& (b.toNat - 1) = 0
  · by_cases hc2 : c.toNat &&& (c.toNat - 1) = 0
    · left
      obtain ⟨p, hp⟩ := two_pow_of_land_pred b.toNat (by omega) hb2
      obtain ⟨q, hq⟩ := two_pow_of_land_pred c.toNat (by omega) hc2
      have e1 : a = ((a.toNat : Nat) : Int) := by omega
      have e2 : b = ((2 ^ p : Nat) : Int) := by omega
      have e3 : c = ((2 ^ q : Nat) : Int) := by omega
      rw [e1, e2, e3]
      exact ⟨_, cpls_ok a.toNat p q (by omega)⟩
    · right; unfold Cpls.cpls; simp only [Cpls.positiveInt]
      rw [if_neg ha, if_neg hb, if_neg hc]
      simp only [hb2, hc2, ne_eq, not_true_eq_false, not_false_eq_true, if_true, if_false, bind,
        Except.bind, throw, throwThe, MonadExceptOf.throw]
  · right; unfold Cpls.cpls; simp only [Cpls.positiveInt]
    rw [if_neg ha, if_neg hb, if_neg hc]
    simp only [hb2, ne_eq, not_false_eq_true, if_true, bind,
        Except.bind, throw, throwThe, MonadExceptOf.throw]

/-! ## 8. the hypotheses are satisfiable -/

example : ∃ F, Cpls.cpls 2 2 2 = .ok F := ⟨_, cpls_ok 2 1 1 (by omega)⟩
example : ∃ F, Cpls.cpls 3 4 2 = .ok F ∧ F.nvars = 52 ∧ F.cons.length = 74 :=
  ⟨_, cpls_ok 3 2 1 (by omega), by decide, by
    simp only [List.length_append, length_axiom1, length_ax2, length_ax3]⟩
example : ∃ F, Cpls.cpls 1 1 1 = .ok F := ⟨_, cpls_ok 1 0 0 (by omega)⟩

end Cnfgen.FamCpls
