/-
Character level, LaTeX — the body: the characters `_print_latex` writes (`latexBodyText`: the
`for i in range(len(F))` loop with its `" \\\n&"` row separators and the page break every
`split_every` rows), cut into physical lines and lexed, are exactly the rows `latexBodyRows` of the
`align` blocks `latexBlocks` of the token-level theorems.
-/
import Lemmas.IOLatexText
namespace Cnfgen.IO

/-! ### the loop as a function of the row contents -/

/-- the characters written between two pages -/
def pageBreakText : Str := "\n\\end{align}\\pagebreak\n\\begin{align}".toList

/-- `latexLoop` on the contents `ss` of the rows: `pre first` = what `write_clause` /
`write_constraint` put in front of a content -/
def loopText (pre : Bool → Str) (split : Int) : Nat → List Str → Str
  | _, [] => []
  | i, s :: ss =>
    (if split > 0 ∧ (i : Int) % split = 0 ∧ i ≠ 0 then pageBreakText else []) ++
      pre (decide (split > 0 ∧ (i : Int) % split = 0 ∧ i ≠ 0) || i == 0) ++ s ++ loopText pre split (i + 1) ss

/-- if every row text is `pre first ++ content` with a content that lexes to the row's token
content, the loop's text is `loopText` of the contents -/
theorem latexLoop_shape {α} (rowText : Bool → α → Except Err Str) (coreOf : α → Except Err Row) (pre : Bool → Str)
    (split : Int) : ∀ (rows : List α) (i : Nat) (text : Str),
      (∀ first r t, r ∈ rows → rowText first r = .ok t →
        ∃ s core, t = pre first ++ s ∧ coreOf r = .ok core ∧ lexLatexLine s = core ∧ NoNL s) →
      latexLoop rowText split i rows = .ok text →
      ∃ ss cores, text = loopText pre split i ss ∧ AllRel (fun r core => coreOf r = .ok core) rows cores ∧
        AllRel (fun s core => lexLatexLine s = core ∧ NoNL s) ss cores
  | [], _, text, _, h => by
    rw [latexLoop] at h; cases h
    exact ⟨[], [], rfl, .nil, .nil⟩
  | r :: rs, i, text, hrow, h => by
    rw [latexLoop] at h
    cases hr : rowText (decide (split > 0 ∧ (i : Int) % split = 0 ∧ i ≠ 0) || i == 0) r with
    | error e => rw [hr] at h; cases h
    | ok t =>
      rw [hr] at h
      simp only at h
      cases hl : latexLoop rowText split (i + 1) rs with
      | error e => rw [hl] at h; cases h
      | ok rest =>
        rw [hl] at h
        have h := (Except.ok.inj h).symm
        obtain ⟨s, core, ht, hc, hlex, hn⟩ := hrow _ r t (by simp) hr
        obtain ⟨ss, cores, hrest, h1, h2⟩ := latexLoop_shape rowText coreOf pre split rs (i + 1) rest
          (fun first r' t' hr' ht' => hrow first r' t' (by simp [hr']) ht') hl
        refine ⟨s :: ss, core :: cores, ?_, .cons hc h1, .cons ⟨hlex, hn⟩ h2⟩
        rw [h, ht, hrest, loopText]
        unfold pageBreakText
        simp only [List.append_assoc]

/-! ### the same text, block by block -/

/-- one physical line: `&`, the lead (alignment blanks / `\land`), the content, and `\\` unless the
row is the last of its block -/
def lineOf (lead : Bool → Str) (f : Bool) (s : Str) (last : Bool) : Str :=
  '&' :: (lead f ++ s) ++ (if last then [] else [' ', '\\', '\\'])

def blockText (lead : Bool → Str) : Bool → List Str → Str
  | _, [] => []
  | f, [s] => lineOf lead f s true
  | f, s :: s' :: r => lineOf lead f s false ++ '\n' :: blockText lead false (s' :: r)

/-- from the first row of a block to the end of the body -/
def tailText (lead : Bool → Str) : Bool → List (List Str) → Str
  | _, [] => []
  | f, [b] => blockText lead f b ++ "\n\\end{align}".toList
  | f, b :: b' :: bs =>
    blockText lead f b ++ "\n\\end{align}\\pagebreak\n\\begin{align}\n".toList ++ tailText lead true (b' :: bs)

theorem tailText_cons (lead : Bool → Str) (f : Bool) (s : Str) (b : List Str) (bs : List (List Str)) (hb : b ≠ []) :
    tailText lead f ((s :: b) :: bs) = lineOf lead f s false ++ '\n' :: tailText lead false (b :: bs) := by
  cases b with
  | nil => exact absurd rfl hb
  | cons s' r =>
    cases bs with
    | nil => simp [tailText, blockText]
    | cons b' bs' => simp [tailText, blockText]

/-- the page test of the text (on the integer `split_every`) is the page test of `pageBlocks` -/
theorem split_iff (split : Int) (i : Nat) :
    (split > 0 ∧ ((i + 1 : Nat) : Int) % split = 0 ∧ i + 1 ≠ 0) ↔ (split.toNat > 0 ∧ (i + 1) % split.toNat = 0) := by
  by_cases hs : split > 0
  · obtain ⟨k, rfl⟩ : ∃ k : Nat, split = (k : Int) := ⟨split.toNat, by omega⟩
    simp only [Int.toNat_natCast]
    rw [← Int.natCast_emod]
    constructor
    · rintro ⟨h1, h2, _⟩; exact ⟨by omega, by omega⟩
    · rintro ⟨h1, h2⟩; exact ⟨by omega, by omega, by omega⟩
  · constructor
    · rintro ⟨h1, _⟩; exact absurd h1 hs
    · rintro ⟨h1, _⟩; omega

theorem pageBlocks_ne_nil {α} (k i : Nat) (x : α) (xs : List α) : pageBlocks k i (x :: xs) ≠ [] := by
  cases xs with
  | nil => simp [pageBlocks]
  | cons y ys =>
    rw [pageBlocks]
    split
    · simp
    · split <;> simp

theorem pageBlocks_cons_split {α} (k i : Nat) (x y : α) (ys : List α) (h : k > 0 ∧ (i + 1) % k = 0) :
    pageBlocks k i (x :: y :: ys) = [x] :: pageBlocks k (i + 1) (y :: ys) := by
  rw [pageBlocks]; simp only [if_pos h]

theorem pageBlocks_cons_nosplit {α} (k i : Nat) (x y : α) (ys : List α) (h : ¬ (k > 0 ∧ (i + 1) % k = 0))
    (b : List α) (bs : List (List α)) (hr : pageBlocks k (i + 1) (y :: ys) = b :: bs) :
    pageBlocks k i (x :: y :: ys) = (x :: b) :: bs := by
  rw [pageBlocks]; simp only [if_neg h, hr]

theorem loopText_cons_split (pre : Bool → Str) (split : Int) (i : Nat) (s : Str) (ss : List Str)
    (h : split > 0 ∧ (i : Int) % split = 0 ∧ i ≠ 0) :
    loopText pre split i (s :: ss) = pageBreakText ++ pre true ++ s ++ loopText pre split (i + 1) ss := by
  rw [loopText, if_pos h, decide_eq_true h, Bool.true_or]

theorem loopText_cons_nosplit (pre : Bool → Str) (split : Int) (i : Nat) (s : Str) (ss : List Str)
    (h : ¬ (split > 0 ∧ (i : Int) % split = 0 ∧ i ≠ 0)) :
    loopText pre split i (s :: ss) = pre (i == 0) ++ s ++ loopText pre split (i + 1) ss := by
  rw [loopText, if_neg h, decide_eq_false h, Bool.false_or, List.nil_append]

/-- (A) from the `&` of row `i` to the end of the body: the loop's text is the block-structured text
of the pages `pageBlocks` cuts -/
theorem loopText_blocks (pre lead : Bool → Str)
    (hpre : ∀ f, pre f = (if f then ['\n'] else [' ', '\\', '\\', '\n']) ++ '&' :: lead f) (split : Int) :
    ∀ (ss : List Str) (i : Nat) (f : Bool) (s : Str),
      '&' :: (lead f ++ s) ++ loopText pre split (i + 1) ss ++ "\n\\end{align}".toList =
        tailText lead f (pageBlocks split.toNat i (s :: ss))
  | [], i, f, s => by
    simp [loopText, pageBlocks, tailText, blockText, lineOf]
  | s' :: ss', i, f, s => by
    have hne := pageBlocks_nonempty split.toNat (s' :: ss') (i + 1)
    cases hrest : pageBlocks split.toNat (i + 1) (s' :: ss') with
    | nil => exact absurd hrest (pageBlocks_ne_nil _ _ _ _)
    | cons b bs =>
      have hb : b ≠ [] := hne b (by rw [hrest]; simp)
      by_cases hD : split.toNat > 0 ∧ (i + 1) % split.toNat = 0
      · have hS : split > 0 ∧ ((i + 1 : Nat) : Int) % split = 0 ∧ i + 1 ≠ 0 := (split_iff split i).2 hD
        have ih := loopText_blocks pre lead hpre split ss' (i + 1) true s'
        rw [hrest] at ih
        rw [pageBlocks_cons_split _ _ _ _ _ hD, hrest, loopText_cons_split pre split (i + 1) s' ss' hS, hpre true]
        have e1 : "\n\\end{align}\\pagebreak\n\\begin{align}\n".toList = pageBreakText ++ ['\n'] := by decide
        simp only [tailText, blockText, lineOf, if_true, List.append_nil, e1]
        rw [← ih]
        simp only [List.append_assoc, List.cons_append, List.nil_append]
      · have hS : ¬ (split > 0 ∧ ((i + 1 : Nat) : Int) % split = 0 ∧ i + 1 ≠ 0) := fun h => hD ((split_iff split i).1 h)
        have ih := loopText_blocks pre lead hpre split ss' (i + 1) false s'
        rw [hrest] at ih
        have h0 : ((i + 1 == 0) = false) := by simp
        rw [pageBlocks_cons_nosplit _ _ _ _ _ hD b bs hrest, tailText_cons lead f s b bs hb, ← ih,
          loopText_cons_nosplit pre split (i + 1) s' ss' hS, h0, hpre false]
        simp only [lineOf, Bool.false_eq_true, if_false, List.append_assoc, List.cons_append, List.nil_append]

/-! ### lexing the block-structured text -/

theorem lexLatex_cons_line (s rest : Str) (h : NoNL s) : lexLatex (s ++ '\n' :: rest) = lexLatexLine s :: lexLatex rest := by
  simp [lexLatex, physLines_cons_line false s rest h]

theorem allRel_nonempty {α β} {R : α → β → Prop} {a : List α} {b : List β} (h : AllRel R a b) (ha : a ≠ []) : b ≠ [] := by
  cases h with
  | nil => exact absurd rfl ha
  | cons _ _ => simp

/-- the pages of related lists are related page by page -/
theorem pageBlocks_allRel {α β} {R : α → β → Prop} (k : Nat) : ∀ {a : List α} {b : List β} (i : Nat), AllRel R a b →
    AllRel (AllRel R) (pageBlocks k i a) (pageBlocks k i b)
  | _, _, _, .nil => .nil
  | _, _, _, .cons h .nil => .cons (.cons h .nil) .nil
  | _, _, i, .cons h (.cons h' ht) => by
    rename_i x y x' xs y' ys
    have ih := pageBlocks_allRel (R := R) k (i + 1) (.cons h' ht)
    cases hpa : pageBlocks k (i + 1) (x' :: xs) with
    | nil => exact absurd hpa (pageBlocks_ne_nil _ _ _ _)
    | cons pa pas =>
      cases hpb : pageBlocks k (i + 1) (y' :: ys) with
      | nil => exact absurd hpb (pageBlocks_ne_nil _ _ _ _)
      | cons pb pbs =>
        rw [hpa, hpb] at ih
        cases ih with
        | cons hb hbs =>
          by_cases hc : k > 0 ∧ (i + 1) % k = 0
          · rw [pageBlocks_cons_split _ _ _ _ _ hc, pageBlocks_cons_split _ _ _ _ _ hc, hpa, hpb]
            exact .cons (.cons h .nil) (.cons hb hbs)
          · rw [pageBlocks_cons_nosplit _ _ _ _ _ hc pa pas hpa, pageBlocks_cons_nosplit _ _ _ _ _ hc pb pbs hpb]
            exact .cons (.cons h hb) hbs

section lex
variable (lead : Bool → Str) (cf : Bool)
variable (hlead : ∀ f s, lexLatexLine ('&' :: (lead f ++ s)) = W "&" :: ((if cf && !f then [W "\\land"] else []) ++ lexLatexLine s))
variable (hleadNL : ∀ f, NoNL (lead f))
include hlead hleadNL

theorem lineOf_lex (f : Bool) (s : Str) (core : Row) (last : Bool) (hs : lexLatexLine s = core) (hn : NoNL s) :
    lexLatexLine (lineOf lead f s last) = frame (cf && !f) last core ∧ NoNL (lineOf lead f s last) := by
  have hamp : NoNL ('&' :: (lead f ++ s)) := by
    intro c hc
    rcases List.mem_cons.1 hc with e | e
    · subst e; decide
    · exact ((hleadNL f).append hn) c e
  cases last
  · constructor
    · have e : lineOf lead f s false = ('&' :: (lead f ++ s)) ++ ' ' :: ['\\', '\\'] := by simp [lineOf]
      have c1 : lexLatexLine ['\\', '\\'] = [W "\\\\"] := by decide
      rw [e, lexL_append, hlead, hs, c1]
      simp [frame]
    · simp only [lineOf, Bool.false_eq_true, if_false]
      exact hamp.append (noNL_lit _ (by decide))
  · constructor
    · simp only [lineOf, if_true, List.append_nil]
      rw [hlead, hs]; simp [frame]
    · simpa [lineOf] using hamp

/-- the lines of a block -/
theorem blockText_lex : ∀ (b : List Str) (cb : List Row) (f : Bool) (rest : Str), b ≠ [] →
    AllRel (fun s core => lexLatexLine s = core ∧ NoNL s) b cb →
    lexLatex (blockText lead f b ++ '\n' :: rest) = blockRows cf f cb ++ lexLatex rest
  | [], _, _, _, h, _ => absurd rfl h
  | [s], _, f, rest, _, .cons h .nil => by
    obtain ⟨h1, h2⟩ := lineOf_lex lead cf hlead hleadNL f s _ true h.1 h.2
    simp only [blockText, blockRows]
    rw [lexLatex_cons_line _ _ h2, h1]; rfl
  | s :: s' :: r, _, f, rest, _, .cons h (.cons h' ht) => by
    obtain ⟨h1, h2⟩ := lineOf_lex lead cf hlead hleadNL f s _ false h.1 h.2
    have ih := blockText_lex (s' :: r) _ false rest (by simp) (.cons h' ht)
    simp only [blockText, blockRows, List.append_assoc, List.cons_append]
    rw [lexLatex_cons_line _ _ h2, h1, ih]

/-- (B) the body from its first `\begin{align}` on -/
theorem tailText_lex : ∀ (bs : List (List Str)) (cbs : List (List Row)) (b : List Str) (cb : List Row) (f : Bool),
    (∀ x ∈ b :: bs, x ≠ []) →
    AllRel (AllRel (fun s core => lexLatexLine s = core ∧ NoNL s)) (b :: bs) (cb :: cbs) →
    lexLatex ("\\begin{align}\n".toList ++ tailText lead f (b :: bs)) =
      latexBodyRows (blockRows cf f cb :: cbs.map (blockRows cf true))
  | [], _, b, cb, f, hne, .cons hb .nil => by
    have e : "\\begin{align}\n".toList ++ tailText lead f [b] =
        "\\begin{align}".toList ++ '\n' :: (blockText lead f b ++ '\n' :: "\\end{align}".toList) := by
      have e1 : "\\begin{align}\n".toList = "\\begin{align}".toList ++ ['\n'] := by decide
      have e2 : "\n\\end{align}".toList = '\n' :: "\\end{align}".toList := by decide
      rw [e1]; simp only [tailText, e2, List.append_assoc, List.cons_append, List.nil_append]
    have c1 : lexLatexLine "\\begin{align}".toList = [W "\\begin{align}"] := by decide
    have c2 : lexLatex "\\end{align}".toList = [[W "\\end{align}"]] := by decide
    rw [e, lexLatex_cons_line _ _ (noNL_lit _ (by decide)), c1,
      blockText_lex lead cf hlead hleadNL b cb f _ (hne b (by simp)) hb, c2]
    rfl
  | b' :: bs', _, b, cb, f, hne, .cons hb (.cons hb' hbs) => by
    rename_i cb' cbs'
    have ih := tailText_lex bs' cbs' b' cb' true (fun x hx => hne x (by simp [hx])) (.cons hb' hbs)
    have e : "\\begin{align}\n".toList ++ tailText lead f (b :: b' :: bs') =
        "\\begin{align}".toList ++ '\n' :: (blockText lead f b ++ '\n' :: ("\\end{align}\\pagebreak".toList ++
          '\n' :: ("\\begin{align}\n".toList ++ tailText lead true (b' :: bs')))) := by
      have e1 : "\\begin{align}\n".toList = "\\begin{align}".toList ++ ['\n'] := by decide
      have e2 : "\n\\end{align}\\pagebreak\n\\begin{align}\n".toList =
          '\n' :: ("\\end{align}\\pagebreak".toList ++ '\n' :: ("\\begin{align}".toList ++ ['\n'])) := by decide
      rw [e1]; simp only [tailText, e2, List.append_assoc, List.cons_append, List.nil_append]
    have c1 : lexLatexLine "\\begin{align}".toList = [W "\\begin{align}"] := by decide
    have c2 : lexLatexLine "\\end{align}\\pagebreak".toList = [W "\\end{align}\\pagebreak"] := by decide
    rw [e, lexLatex_cons_line _ _ (noNL_lit _ (by decide)), c1,
      blockText_lex lead cf hlead hleadNL b cb f _ (hne b (by simp)) hb,
      lexLatex_cons_line _ _ (noNL_lit _ (by decide)), c2, ih]
    simp [latexBodyRows]

end lex

/-! ### the two instances -/

def cnfLead (compact : Bool) (f : Bool) : Str := if !compact || f then "       ".toList else " \\land ".toList

theorem cnfPre_eq (compact f : Bool) :
    cnfPre f compact = (if f then ['\n'] else [' ', '\\', '\\', '\n']) ++ '&' :: cnfLead compact f := by
  cases f <;> cases compact <;> decide

theorem cnfLead_lex (compact f : Bool) (s : Str) :
    lexLatexLine ('&' :: (cnfLead compact f ++ s)) = W "&" :: ((if compact && !f then [W "\\land"] else []) ++ lexLatexLine s) := by
  have c0 : splitCoef ['&'] = [W "&"] := by decide
  have c1 : splitCoef "\\land".toList = [W "\\land"] := by decide
  have e7 : "       ".toList = ' ' :: List.replicate 6 ' ' := by decide
  have el : " \\land ".toList = ' ' :: ("\\land".toList ++ [' ']) := by decide
  have hamp : ∀ x, lexLatexLine ('&' :: ' ' :: x) = W "&" :: lexLatexLine x := by
    intro x
    have := lexL_tok_blank ['&'] x (isTok_lit _ (by decide))
    simpa [c0] using this
  cases f <;> cases compact <;> simp only [cnfLead, Bool.not_true, Bool.not_false, Bool.or_true, Bool.or_false,
    Bool.and_true, Bool.and_false, Bool.true_and, Bool.false_and, if_true, if_false, Bool.false_eq_true]
  · rw [e7, List.cons_append, hamp, lexL_blanks]; rfl
  · rw [el]
    have e : '&' :: (' ' :: ("\\land".toList ++ [' ']) ++ s) = '&' :: ' ' :: ("\\land".toList ++ ' ' :: s) := by simp
    rw [e, hamp, lexL_tok_blank _ _ (isTok_lit _ (by decide)), c1]
  · rw [e7, List.cons_append, hamp, lexL_blanks]; rfl
  · rw [e7, List.cons_append, hamp, lexL_blanks]; rfl

theorem cnfLead_noNL (compact f : Bool) : NoNL (cnfLead compact f) := by
  cases f <;> cases compact <;> exact noNL_lit _ (by decide)

def opbLead (_ : Bool) : Str := [' ']

theorem opbPre_eq (f : Bool) : opbPre f = (if f then ['\n'] else [' ', '\\', '\\', '\n']) ++ '&' :: opbLead f := by
  cases f <;> decide

theorem opbLead_lex (f : Bool) (s : Str) :
    lexLatexLine ('&' :: (opbLead f ++ s)) = W "&" :: ((if false && !f then [W "\\land"] else []) ++ lexLatexLine s) := by
  have c0 : splitCoef ['&'] = [W "&"] := by decide
  have := lexL_tok_blank ['&'] s (isTok_lit _ (by decide))
  simpa [opbLead, c0] using this

theorem opbLead_noNL (f : Bool) : NoNL (opbLead f) := by
  intro c hc; simp [opbLead] at hc; subst hc; decide

/-! ### the body -/

/-- names without white space; for pseudo-Boolean formulas, coefficients and bounds below the digit limit -/
def LatexPrintable (F : AnyF) (names : List Str) : Prop :=
  CleanNames names ∧ match F with
    | .cnf _ => True
    | .opb G => ∀ c ∈ G.constraints, SmallPBC c

/-- generic core of the next theorem: a body made by `latexLoop` -/
theorem body_lex {α} (rowText : Bool → α → Except Err Str) (coreOf : α → Except Err Row) (pre lead : Bool → Str) (cf : Bool)
    (rows : List α)
    (hrow : ∀ first r t, r ∈ rows → rowText first r = .ok t →
      ∃ s core, t = pre first ++ s ∧ coreOf r = .ok core ∧ lexLatexLine s = core ∧ NoNL s)
    (hpre : ∀ f, pre f = (if f then ['\n'] else [' ', '\\', '\\', '\n']) ++ '&' :: lead f)
    (hlead : ∀ f s, lexLatexLine ('&' :: (lead f ++ s)) = W "&" :: ((if cf && !f then [W "\\land"] else []) ++ lexLatexLine s))
    (hleadNL : ∀ f, NoNL (lead f))
    (split : Int) (hne : rows ≠ []) (b : Str) (h : latexLoop rowText split 0 rows = .ok b) :
    ∃ cores, rows.mapM coreOf = .ok cores ∧
      lexLatex ("\\begin{align}".toList ++ b ++ "\n\\end{align}".toList) =
        latexBodyRows ((pageBlocks split.toNat 0 cores).map (blockRows cf true)) := by
  obtain ⟨ss, cores, hb, h1, h2⟩ := latexLoop_shape rowText coreOf pre split rows 0 b hrow h
  refine ⟨cores, mapM_of_allRel coreOf h1, ?_⟩
  cases ss with
  | nil => cases h2; cases h1; exact absurd rfl hne
  | cons s ss =>
    have hblocks := pageBlocks_allRel split.toNat 0 h2
    have hnon := pageBlocks_nonempty split.toNat (s :: ss) 0
    have htext : "\\begin{align}".toList ++ b ++ "\n\\end{align}".toList =
        "\\begin{align}\n".toList ++ tailText lead true (pageBlocks split.toNat 0 (s :: ss)) := by
      rw [← loopText_blocks pre lead hpre split ss 0 true s, hb]
      have e1 : "\\begin{align}\n".toList = "\\begin{align}".toList ++ ['\n'] := by decide
      have h0 : ¬ (split > 0 ∧ ((0 : Nat) : Int) % split = 0 ∧ (0 : Nat) ≠ 0) := by simp
      simp only [loopText, h0, if_false, decide_false, Bool.false_or, beq_self_eq_true, hpre, if_true, e1]
      simp only [List.append_assoc, List.cons_append, List.nil_append]
    rw [htext]
    cases hp : pageBlocks split.toNat 0 (s :: ss) with
    | nil => exact absurd hp (pageBlocks_ne_nil _ _ _ _)
    | cons b0 bs =>
      rw [hp] at hblocks hnon
      generalize pageBlocks split.toNat 0 cores = cbsAll at hblocks ⊢
      cases hblocks with
      | cons hb0 hbs =>
        rename_i cb0 cbs
        rw [tailText_lex lead cf hlead hleadNL bs cbs b0 cb0 true hnon (.cons hb0 hbs)]
        rfl

/-- lexing the characters `_print_latex` writes gives the rows of the token-level blocks -/
theorem lex_latexBodyText (F : AnyF) (names : List Str) (split : Int) (compact : Bool) (hp : LatexPrintable F names)
    (t : Str) (h : latexBodyText F names split compact = .ok t) :
    ∃ blocks, latexBlocks F names split.toNat compact = .ok blocks ∧ lexLatex t = latexBodyRows blocks := by
  unfold latexBodyText at h
  unfold latexBlocks
  by_cases h0 : F.len = 0
  · simp only [h0, if_true] at h ⊢
    cases h
    exact ⟨_, rfl, by decide⟩
  · simp only [h0, if_false] at h ⊢
    cases F with
    | cnf F =>
      simp only at h
      cases hb : latexLoop (fun first c => clauseRowText names first compact c) split 0 F.clauses with
      | error e => rw [hb] at h; cases h
      | ok b =>
        rw [hb] at h
        simp only at h
        cases h
        have hne : F.clauses ≠ [] := by intro e; apply h0; simp [AnyF.len, e]
        obtain ⟨cores, hc, hl⟩ := body_lex (fun first c => clauseRowText names first compact c) (clauseCore names compact)
          (fun f => cnfPre f compact) (cnfLead compact) compact F.clauses
          (fun first r t _ ht => clauseRowText_shape names hp.1 first compact r t ht)
          (cnfPre_eq compact) (cnfLead_lex compact) (cnfLead_noNL compact) split hne b hb
        refine ⟨(pageBlocks split.toNat 0 cores).map (blockRows (compact && !(AnyF.cnf F).isOpb) true),
          by simp only [latexCores, hc], ?_⟩
        rw [hl]; simp [AnyF.isOpb]
    | opb G =>
      simp only at h
      cases hb : latexLoop (fun first c => constraintRowText names first c) split 0 G.constraints with
      | error e => rw [hb] at h; cases h
      | ok b =>
        rw [hb] at h
        simp only at h
        cases h
        have hne : G.constraints ≠ [] := by intro e; apply h0; simp [AnyF.len, e]
        have hsm : ∀ c ∈ G.constraints, SmallPBC c := hp.2
        obtain ⟨cores, hc, hl⟩ := body_lex (fun first c => constraintRowText names first c) (constraintCore names)
          opbPre opbLead false G.constraints
          (fun first r t hr ht => constraintRowText_shape names hp.1 first r t (hsm r hr) ht)
          opbPre_eq opbLead_lex opbLead_noNL split hne b hb
        refine ⟨(pageBlocks split.toNat 0 cores).map (blockRows (compact && !(AnyF.opb G).isOpb) true),
          by simp only [latexCores, hc], ?_⟩
        rw [hl]; simp [AnyF.isOpb]

end Cnfgen.IO
