/-
Helper lemmas for the end-to-end theorems about the two small tools (Props/C18/Tools.lean,
Props/C09/Tools.lean, Props/C17/Tools.lean): what `int()` can return, the shape of the two `run`
functions, the parse of a command line that starts with an exact option string.
-/
import CnfgenModel.Cli.Tools
namespace Cnfgen.ToolsL
open Cnfgen Cnfgen.IO Cnfgen.Cli.ToolArgs Cnfgen.Cli.Tools

/-! ### `int(token)` returns at most `maxStrDigits` digits -/

theorem digit?_le {c : Char} {d : Nat} (h : digit? c = some d) : d ≤ 9 := by
  unfold digit? at h
  split at h
  · cases h; omega
  · cases h

theorem scanDigits_bound : ∀ (s : IO.Str) (acc nd : Nat) (prev : Bool) (v nd' : Nat),
    scanDigits acc nd prev s = some (v, nd') → acc < 10 ^ nd → v < 10 ^ nd'
  | [], acc, nd, prev, v, nd', h, ha => by
    unfold scanDigits at h
    split at h
    · cases h; exact ha
    · cases h
  | c :: cs, acc, nd, prev, v, nd', h, ha => by
    unfold scanDigits at h
    split at h
    · split at h
      · exact scanDigits_bound cs acc nd false v nd' h ha
      · cases h
    · split at h
      · rename_i d hd
        have hd9 := digit?_le hd
        apply scanDigits_bound cs (acc * 10 + d) (nd + 1) true v nd' h
        rw [Nat.pow_succ]; omega
      · cases h

theorem pyInt_bound {s : IO.Str} {i : Int} (h : pyInt? s = some i) : i.natAbs < 10 ^ maxStrDigits := by
  unfold pyInt? at h
  simp only at h
  split at h
  · rename_i v nd hs
    split at h
    · cases h
    · rename_i hnd
      have hv : v < 10 ^ nd := scanDigits_bound _ 0 0 false v nd hs (by simp)
      have hle : 10 ^ nd ≤ 10 ^ maxStrDigits := Nat.pow_le_pow_right (by decide) (by omega)
      cases h
      split <;> simp <;> omega
  · cases h

theorem classify_int_bound {t : IO.Str} {i : Int} (h : IO.classify t = .int i) : i.natAbs < 10 ^ maxStrDigits := by
  unfold IO.classify at h
  split at h
  · rename_i j hj; cases h; exact pyInt_bound hj
  · split at h <;> cases h

/-- every integer token the lexer produces has at most `maxStrDigits` digits -/
theorem lex_int_bound (u : Bool) (s : IO.Str) (r : Row) (hr : r ∈ lex u s) (i : Int) (hi : Tok.int i ∈ r) :
    i.natAbs < 10 ^ maxStrDigits := by
  simp only [lex, List.mem_map] at hr
  obtain ⟨l, _, rfl⟩ := hr
  simp only [lexLine, List.mem_map] at hi
  obtain ⟨t, _, ht⟩ := hi
  exact classify_int_bound ht

/-! ### the two `run` functions, case by case -/

theorem errOutcome_cases (pfx : String) (e : Err) :
    errOutcome pfx e = .cliError .reader pfx ∨ (e ≠ .valueError ∧ errOutcome pfx e = .escaped e.name) := by
  unfold errOutcome
  by_cases h : e = .valueError
  · left; simp [h]
  · right; simp [h]

theorem errOutcome_valueError (pfx : String) : errOutcome pfx .valueError = .cliError .reader pfx := by
  simp [errOutcome]

theorem writeOut_eq (st : Args) (F : CNF) (hdr : Shuffle.Header) :
    writeOut st F hdr =
      .ok (destOf st.output) (renderDimacsText F (if st.verbose then some (toIOHeader hdr) else none) none) := rfl

theorem toolArg_eq (b : Bool) : toolArg b = (if b then Shuffle.Arg.fixed else Shuffle.Arg.shuffle) := rfl

/-- with all three components switched off `Shuffle` draws nothing: the result does not depend on the draws -/
theorem run_all_fixed (F : CNF) (ds : List Shuffle.Draw) :
    Shuffle.run F .fixed .fixed .fixed ds =
      (Shuffle.run F .fixed .fixed .fixed []).map (fun p => (p.1, ds)) := by
  simp [Shuffle.run, Shuffle.resolveFlips, Shuffle.resolveVperm, Shuffle.resolveCperm]

/-! ### the command line: a leading exact option string -/

theorem classifyAll_cons (s : Spec) (t : String) (ts : List String) (h : t ≠ "--") :
    classifyAll s (t :: ts) =
      (match classify s t, classifyAll s ts with
       | some c, some r => some ((t, c) :: r)
       | _, _ => none) := by
  rw [classifyAll, if_neg h]
  cases Cli.ToolArgs.classify s t <;> cases classifyAll s ts <;> rfl

end Cnfgen.ToolsL

namespace Cnfgen.ToolsL
open Cnfgen Cnfgen.IO Cnfgen.Cli.ToolArgs Cnfgen.Cli.Tools

/-! ### invariants of the namespace along a parse -/

theorem takeSub_not_ok {σ : Type} (ch : List String) (n : String) (r : List String) (st : σ) (ex : Bool) (x : σ × Bool) :
    takeSub ch n r st ex ≠ .ok x := by
  unfold takeSub; split <;> simp

section inv
variable {σ : Type} (s : Spec) (act : σ → Opt → ArgV → Option σ) (P : σ → Prop)
  (hact : ∀ st o a st', act st o a = some st' → P st → P st')
include hact

theorem runActs_inv : ∀ (acts : List (Opt × ArgV)) (st st' : σ),
    runActs act acts st = .ok st' → P st → P st'
  | [], st, st', h, hp => by simp [runActs] at h; subst h; exact hp
  | (o, a) :: rest, st, st', h, hp => by
    unfold runActs at h
    split at h
    · cases h
    · split at h
      · cases h
      · rename_i st1 h1
        exact runActs_inv rest st1 st' h (hact st o a st1 h1 hp)

theorem scan_inv : ∀ (fuel : Nat) (toks : List (String × TokC)) (st : σ) (ex : Bool) (st' : σ) (ex' : Bool),
    scan s act fuel toks st ex = .ok (st', ex') → P st → P st'
  | _, [], st, ex, st', ex', h, hp => by
    unfold scan at h; cases h; exact hp
  | 0, _ :: _, st, ex, st', ex', h, hp => by
    unfold scan at h; cases h; exact hp
  | fuel + 1, (t, c) :: rest, st, ex, st', ex', h, hp => by
    unfold scan at h
    cases c with
    | arg =>
      simp only at h
      split at h
      · exact absurd h (takeSub_not_ok _ _ _ _ _ _)
      · exact scan_inv fuel rest st true st' ex' h hp
    | dashdash =>
      simp only at h
      split at h
      · exact absurd h (takeSub_not_ok _ _ _ _ _ _)
      · cases h; exact hp
    | opt o ostr e =>
      cases o with
      | none => exact scan_inv fuel rest st true st' ex' h hp
      | some o =>
        simp only at h
        split at h
        · cases h
        · rename_i acts consumed hc
          split at h
          · cases h
          · rename_i st1 h1
            exact scan_inv fuel _ st1 ex st' ex' h (runActs_inv act P hact acts st st1 h1 hp)

theorem parse_inv (argv : List String) (st st' : σ) (h : parse s act argv st = .ok st') (hp : P st) : P st' := by
  unfold parse at h
  split at h
  · cases h
  · rename_i toks _
    split at h
    · cases h
    · rename_i st1 ex h1
      split at h
      · cases h
      · cases h; exact scan_inv s act P hact _ toks st false _ _ h1 hp

end inv

/-- the input file named on the command line could be opened: it exists, or an `-o` created it before -/
def InputOpened (env : Env) (st : Args) : Prop :=
  ∀ p, st.input = .file p → (st.opened.contains p = true ∨ (env.file p).isSome = true)

theorem act_inputOpened (env : Env) (st : Args) (o : Opt) (a : ArgV) (st' : Args)
    (h : act env st o a = some st') (hp : InputOpened env st) : InputOpened env st' := by
  unfold act at h
  split at h
  · -- output
    cases a with
    | flag => cases h
    | nil => simp at h
    | val v =>
      simp only at h
      unfold openWrite at h
      split at h
      · simp at h; subst h; exact hp
      · split at h
        · simp at h; subst h
          intro p hpf
          rcases hp p hpf with h1 | h1
          · left; simp only [List.contains_cons, h1, Bool.or_true]
          · right; exact h1
        · cases h
  · split at h
    · -- input
      cases a with
      | flag => cases h
      | nil => simp at h
      | val v =>
        simp only [Option.map_eq_some_iff] at h
        obtain ⟨i, hi, rfl⟩ := h
        unfold openRead at hi
        split at hi
        · cases hi; intro p hpf; simp at hpf
        · split at hi
          · rename_i hcond
            cases hi
            intro p hpf
            simp only [InArg.file.injEq] at hpf
            subst hpf
            simpa using hcond
          · cases hi
    · split at h
      · cases a <;> simp at h
        subst h; exact hp
      · repeat' split at h
        all_goals first | (simp at h; subst h; exact hp) | cases h

theorem parse_inputOpened (env : Env) (s : Spec) (argv : List String) (st : Args)
    (h : parse s (act env) argv {} = .ok st) : InputOpened env st :=
  parse_inv s (act env) (InputOpened env) (act_inputOpened env) argv {} st h (by intro p hp; simp at hp)

end Cnfgen.ToolsL

namespace Cnfgen.ToolsL
open Cnfgen Cnfgen.IO Cnfgen.Cli.ToolArgs Cnfgen.Cli.Tools

/-! ### the sub-command taken is one of the choices -/

theorem runActs_not_sub {σ : Type} (act : σ → Opt → ArgV → Option σ) :
    ∀ (acts : List (Opt × ArgV)) (st : σ) (n : String) (r : List String) (st' : σ) (ex : Bool),
      runActs act acts st ≠ .error (.sub n r st' ex)
  | [], st, n, r, st', ex => by simp [runActs]
  | (o, a) :: rest, st, n, r, st', ex => by
    unfold runActs
    split
    · simp
    · split
      · simp
      · exact runActs_not_sub act rest _ n r st' ex

theorem takeSub_sub {σ : Type} (ch : List String) (t : String) (rest : List String) (st : σ) (ex : Bool)
    (n : String) (r : List String) (st' : σ) (ex' : Bool) (h : takeSub ch t rest st ex = .error (.sub n r st' ex')) :
    ch.contains n = true := by
  unfold takeSub at h
  split at h
  · rename_i hc; cases h; exact hc
  · cases h

theorem scan_sub {σ : Type} (s : Spec) (act : σ → Opt → ArgV → Option σ) :
    ∀ (fuel : Nat) (toks : List (String × TokC)) (st : σ) (ex : Bool) (n : String) (r : List String) (st' : σ) (ex' : Bool),
      scan s act fuel toks st ex = .error (.sub n r st' ex') → ∃ ch, s.subs = some ch ∧ ch.contains n = true
  | _, [], st, ex, n, r, st', ex', h => by unfold scan at h; cases h
  | 0, _ :: _, st, ex, n, r, st', ex', h => by unfold scan at h; cases h
  | fuel + 1, (t, c) :: rest, st, ex, n, r, st', ex', h => by
    unfold scan at h
    cases c with
    | arg =>
      simp only at h
      split at h
      · rename_i ch hs; exact ⟨ch, hs, takeSub_sub _ _ _ _ _ _ _ _ _ h⟩
      · exact scan_sub s act fuel rest st true n r st' ex' h
    | dashdash =>
      simp only at h
      split at h
      · rename_i ch _ _ hs; exact ⟨ch, hs, takeSub_sub _ _ _ _ _ _ _ _ _ h⟩
      · cases h
    | opt o ostr e =>
      cases o with
      | none => exact scan_sub s act fuel rest st true n r st' ex' h
      | some o =>
        simp only at h
        split at h
        · cases h
        · split at h
          · rename_i x hx; cases h; exact absurd hx (runActs_not_sub act _ _ _ _ _ _)
          · exact scan_sub s act fuel _ _ ex n r st' ex' h

theorem sub_name_mem {σ : Type} (s : Spec) (act : σ → Opt → ArgV → Option σ) (argv : List String) (st : σ)
    (n : String) (r : List String) (st' : σ) (ex : Bool) (h : parse s act argv st = .error (.sub n r st' ex))
    (ch : List String) (hs : s.subs = some ch) : n ∈ ch := by
  unfold parse at h
  split at h
  · cases h
  · split at h
    · rename_i x hx
      cases h
      obtain ⟨ch', hs', hc⟩ := scan_sub s act _ _ _ _ _ _ _ _ hx
      rw [hs] at hs'; cases hs'
      simpa using hc
    · split at h <;> cases h

end Cnfgen.ToolsL

namespace Cnfgen.ToolsL
open Cnfgen Cnfgen.IO Cnfgen.Cli.ToolArgs Cnfgen.Cli.Tools

/-! ### a command line that starts with an exact option string -/

theorem classify_exact (s : Spec) (t : String) (o : Opt) (c : Char) (r : List Char) (ht : t.toList = c :: r)
    (hc : c = '-') (hf : s.find t.toList = some o) : Cli.ToolArgs.classify s t = some (.opt (some o) t.toList none) := by
  unfold Cli.ToolArgs.classify
  simp only [ht] at hf ⊢
  subst hc
  simp [hf]

theorem classify_plain (s : Spec) (t : String) (h : t.toList.head? ≠ some '-') :
    Cli.ToolArgs.classify s t = some .arg := by
  unfold Cli.ToolArgs.classify
  cases ht : t.toList with
  | nil => rfl
  | cons c r =>
    rw [ht] at h
    have : c ≠ '-' := by simpa using h
    simp [this]

theorem chain_noarg (s : Spec) (f : Nat) (o : Opt) (ostr : List Char) (next : Option String) (h : o.kind ≠ .one) :
    chain s (f + 1) o ostr none next = some ([(o, .flag)], false) := by
  simp [chain, h]

theorem chain_onearg (s : Spec) (f : Nat) (o : Opt) (ostr : List Char) (a : String) (h : o.kind = .one) :
    chain s (f + 1) o ostr none (some a) = some ([(o, argOf a.toList)], true) := by
  simp [chain, h]

theorem argOf_plain (a : String) (h : a.toList.head? ≠ some '-') : argOf a.toList = .val a := by
  unfold argOf
  have : a.toList ≠ ['-', '-'] := by intro h'; rw [h'] at h; simp at h
  simp [this]

theorem scan_cons {σ : Type} (s : Spec) (act : σ → Opt → ArgV → Option σ) (fuel : Nat) (t : String) (c : TokC)
    (rest : List (String × TokC)) (st : σ) (ex : Bool) :
    scan s act (fuel + 1) ((t, c) :: rest) st ex =
      match c with
      | .arg =>
        (match s.subs with
         | some ch => takeSub ch t (rest.map (·.1)) st ex
         | none => scan s act fuel rest st true)
      | .dashdash =>
        (match s.subs, rest with
         | some ch, _ :: _ => takeSub ch t (rest.map (·.1)) st ex
         | _, _ => .ok (st, true))
      | .opt none _ _ => scan s act fuel rest st true
      | .opt (some o) ostr e =>
        match chain s (t.length + 2) o ostr e (nextArg rest) with
        | none => .error .error
        | some (acts, consumed) =>
          match runActs act acts st with
          | .error x => .error x
          | .ok st' => scan s act fuel (if consumed then rest.drop 1 else rest) st' ex := by
  cases c <;> first | rfl | (rename_i o _ _; cases o <;> rfl)

/-- more fuel than tokens changes nothing -/
theorem scan_fuel {σ : Type} (s : Spec) (act : σ → Opt → ArgV → Option σ) :
    ∀ (f1 f2 : Nat) (toks : List (String × TokC)) (st : σ) (ex : Bool),
      toks.length ≤ f1 → toks.length ≤ f2 → scan s act f1 toks st ex = scan s act f2 toks st ex
  | _, _, [], st, ex, _, _ => by rw [scan, scan]
  | 0, _, _ :: _, _, _, h, _ => by simp at h
  | _ + 1, 0, _ :: _, _, _, _, h => by simp at h
  | f1 + 1, f2 + 1, (t, c) :: rest, st, ex, h1, h2 => by
    have l1 : rest.length ≤ f1 := by simp at h1; omega
    have l2 : rest.length ≤ f2 := by simp at h2; omega
    rw [scan_cons, scan_cons]
    cases c with
    | arg =>
      simp only
      cases s.subs with
      | some ch => rfl
      | none => exact scan_fuel s act f1 f2 rest st true l1 l2
    | dashdash => rfl
    | opt o ostr e =>
      cases o with
      | none => exact scan_fuel s act f1 f2 rest st true l1 l2
      | some o =>
        simp only
        generalize chain s (t.length + 2) o ostr e (nextArg rest) = ch
        cases ch with
        | none => rfl
        | some p =>
          obtain ⟨acts, consumed⟩ := p
          simp only
          cases runActs act acts st with
          | error x => rfl
          | ok st' =>
            simp only
            cases consumed
            · exact scan_fuel s act f1 f2 rest st' ex l1 l2
            · simp only [if_true]
              apply scan_fuel s act f1 f2 (rest.drop 1) st' ex <;> simp <;> omega

section head
variable {σ : Type} (s : Spec) (act : σ → Opt → ArgV → Option σ)

/-- a flag written as one of its exact option strings at the head of the command line does its own action and
nothing else: the rest is parsed as it would be alone, from the updated namespace -/
theorem parse_flag_head (t : String) (o : Opt) (c : Char) (r : List Char) (ht : t.toList = c :: r) (hc : c = '-')
    (hne : t ≠ "--") (hf : s.find t.toList = some o) (hk : o.kind = .flag) (argv : List String) (st : σ) :
    parse s act (t :: argv) st =
      match act st o .flag with
      | none => .error .error
      | some st' => parse s act argv st' := by
  unfold parse
  rw [classifyAll_cons s t argv hne, classify_exact s t o c r ht hc hf]
  cases hcl : classifyAll s argv with
  | none => cases act st o .flag <;> rfl
  | some toks =>
    simp only [List.length_cons]
    rw [scan_cons]
    simp only
    rw [chain_noarg s _ o _ _ (by rw [hk]; decide)]
    simp only [runActs, hk]
    cases act st o .flag with
    | none => rfl
    | some st' => simp only [reduceCtorEq, if_false, Bool.false_eq_true]

/-- `-h` / `--help` at the head: the help, whatever follows — unless a later token is an ambiguous abbreviation
(that error is raised while the tokens are classified, before any action) -/
theorem parse_help_head (t : String) (o : Opt) (c : Char) (r : List Char) (ht : t.toList = c :: r) (hc : c = '-')
    (hne : t ≠ "--") (hf : s.find t.toList = some o) (hk : o.kind = .help) (argv : List String) (st : σ) :
    parse s act (t :: argv) st = if (classifyAll s argv).isSome then .error .help else .error .error := by
  unfold parse
  rw [classifyAll_cons s t argv hne, classify_exact s t o c r ht hc hf]
  cases hcl : classifyAll s argv with
  | none => rfl
  | some toks =>
    simp only [List.length_cons]
    rw [scan_cons]
    simp only
    rw [chain_noarg s _ o _ _ (by rw [hk]; decide)]
    simp [runActs, hk]

/-- an option with one argument written as an exact option string followed by a token that does not start with `-`:
the token is converted and stored, the rest is parsed as it would be alone -/
theorem parse_one_head (t a : String) (o : Opt) (c : Char) (r : List Char) (ht : t.toList = c :: r) (hc : c = '-')
    (hne : t ≠ "--") (hf : s.find t.toList = some o) (hk : o.kind = .one) (ha : a.toList.head? ≠ some '-')
    (argv : List String) (st : σ) :
    parse s act (t :: a :: argv) st =
      match act st o (.val a) with
      | none => .error .error
      | some st' => parse s act argv st' := by
  have hane : a ≠ "--" := by intro h; rw [h] at ha; simp at ha
  unfold parse
  rw [classifyAll_cons s t _ hne, classify_exact s t o c r ht hc hf, classifyAll_cons s a _ hane,
    classify_plain s a ha]
  cases hcl : classifyAll s argv with
  | none => cases act st o (.val a) <;> rfl
  | some toks =>
    simp only [List.length_cons]
    rw [scan_cons]
    simp only
    simp only [nextArg]
    rw [chain_onearg s _ o _ a hk, argOf_plain a ha]
    simp only [runActs, hk, reduceCtorEq, if_false]
    cases act st o (.val a) with
    | none => rfl
    | some st' =>
      simp only [if_true, List.drop_one, List.tail_cons]
      rw [scan_fuel s act (toks.length + 1 + 1) (toks.length + 1) toks st' false (by omega) (by omega)]

end head

end Cnfgen.ToolsL
