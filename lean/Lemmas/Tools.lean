/-
Helper lemmas for the end-to-end theorems about the two small tools (Props/C18/Tools.lean,
Props/C09/Tools.lean, Props/C17/Tools.lean): what `int()` can return, the shape of the two `run`
functions, the parse of a command line that starts with an exact option string.
-/
import CnfgenModel.Cli.Tools
namespace Cnfgen.ToolsL
open Cnfgen Cnfgen.IO Cnfgen.Cli.ToolArgs Cnfgen.Cli.Tools

/-! ### `int(token)` returns at most `maxStrDigits` digits -/

theorem digit?_le {c : Char} {d : Nat} (h : digit? c = some d) : d ≤ 9 := by
  unfold digit? at h
  split at h
  · cases h; omega
  · cases h

theorem scanDigits_bound : ∀ (s : IO.Str) (acc nd : Nat) (prev : Bool) (v nd' : Nat),
    scanDigits acc nd prev s = some (v, nd') → acc < 10 ^ nd → v < 10 ^ nd'
  | [], acc, nd, prev, v, nd', h, ha => by
    unfold scanDigits at h
    split at h
    · cases h; exact ha
    · cases h
  | c :: cs, acc, nd, prev, v, nd', h, ha => by
    unfold scanDigits at h
    split at h
    · split at h
      · exact scanDigits_bound cs acc nd false v nd' h ha
      · cases h
    · split at h
      · rename_i d hd
        have hd9 := digit?_le hd
        apply scanDigits_bound cs (acc * 10 + d) (nd + 1) true v nd' h
        rw [Nat.pow_succ]; omega
      · cases h

theorem pyInt_bound {s : IO.Str} {i : Int} (h : pyInt? s = some i) : i.natAbs < 10 ^ maxStrDigits := by
  unfold pyInt? at h
  simp only at h
  split at h
  · rename_i v nd hs
    split at h
    · cases h
    · rename_i hnd
      have hv : v < 10 ^ nd := scanDigits_bound _ 0 0 false v nd hs (by simp)
      have hle : 10 ^ nd ≤ 10 ^ maxStrDigits := Nat.pow_le_pow_right (by decide) (by omega)
      cases h
      split <;> simp <;> omega
  · cases h

theorem classify_int_bound {t : IO.Str} {i : Int} (h : IO.classify t = .int i) : i.natAbs < 10 ^ maxStrDigits := by
  unfold IO.classify at h
  split at h
  · rename_i j hj; cases h; exact pyInt_bound hj
  · split at h <;> cases h

/-- every integer token the lexer produces has at most `maxStrDigits` digits -/
theorem lex_int_bound (u : Bool) (s : IO.Str) (r : Row) (hr : r ∈ lex u s) (i : Int) (hi : Tok.int i ∈ r) :
    i.natAbs < 10 ^ maxStrDigits := by
  simp only [lex, List.mem_map] at hr
  obtain ⟨l, _, rfl⟩ := hr
  simp only [lexLine, List.mem_map] at hi
  obtain ⟨t, _, ht⟩ := hi
  exact classify_int_bound ht

/-! ### the two `run` functions, case by case -/

theorem errOutcome_cases (pfx : String) (e : Err) :
    errOutcome pfx e = .cliError .reader pfx ∨ (e ≠ .valueError ∧ errOutcome pfx e = .escaped e.name) := by
  unfold errOutcome
  by_cases h : e = .valueError
  · left; simp [h]
  · right; simp [h]

theorem errOutcome_valueError (pfx : String) : errOutcome pfx .valueError = .cliError .reader pfx := by
  simp [errOutcome]

theorem writeOut_cases (st : Args) (F : CNF) (hdr : Shuffle.Header) :
    (st.output = .nil ∧ writeOut st F hdr = .escaped "AttributeError") ∨
    (∃ d, destOf st.output = some d ∧
      writeOut st F hdr = .ok d (renderDimacsText F (if st.verbose then some (toIOHeader hdr) else none) none)) := by
  unfold writeOut
  cases h : st.output with
  | stdout => right; exact ⟨.stdout, rfl, rfl⟩
  | file p => right; exact ⟨.file p, rfl, rfl⟩
  | nil => left; exact ⟨rfl, rfl⟩

theorem toolArg_eq (b : Bool) : toolArg b = (if b then Shuffle.Arg.fixed else Shuffle.Arg.shuffle) := rfl

/-- with all three components switched off `Shuffle` draws nothing: the result does not depend on the draws -/
theorem run_all_fixed (F : CNF) (ds : List Shuffle.Draw) :
    Shuffle.run F .fixed .fixed .fixed ds =
      (Shuffle.run F .fixed .fixed .fixed []).map (fun p => (p.1, ds)) := by
  simp [Shuffle.run, Shuffle.resolveFlips, Shuffle.resolveVperm, Shuffle.resolveCperm]

/-! ### the command line: a leading exact option string -/

theorem classifyAll_cons (s : Spec) (t : String) (ts : List String) (h : t ≠ "--") :
    classifyAll s (t :: ts) =
      (match classify s t, classifyAll s ts with
       | some c, some r => some ((t, c) :: r)
       | _, _ => none) := by
  rw [classifyAll, if_neg h]
  cases Cli.ToolArgs.classify s t <;> cases classifyAll s ts <;> rfl

end Cnfgen.ToolsL

namespace Cnfgen.ToolsL
open Cnfgen Cnfgen.IO Cnfgen.Cli.ToolArgs Cnfgen.Cli.Tools

/-! ### invariants of the namespace along a parse -/

theorem takeSub_not_ok {σ : Type} (ch : List String) (n : String) (r : List String) (st : σ) (ex : Bool) (x : σ × Bool) :
    takeSub ch n r st ex ≠ .ok x := by
  unfold takeSub; split <;> simp

section inv
variable {σ : Type} (s : Spec) (act : σ → Opt → ArgV → Option σ) (P : σ → Prop)
  (hact : ∀ st o a st', act st o a = some st' → P st → P st')
include hact

theorem runActs_inv : ∀ (acts : List (Opt × ArgV)) (st st' : σ),
    runActs act acts st = .ok st' → P st → P st'
  | [], st, st', h, hp => by simp [runActs] at h; subst h; exact hp
  | (o, a) :: rest, st, st', h, hp => by
    unfold runActs at h
    split at h
    · cases h
    · split at h
      · cases h
      · rename_i st1 h1
        exact runActs_inv rest st1 st' h (hact st o a st1 h1 hp)

theorem scan_inv : ∀ (fuel : Nat) (toks : List (String × TokC)) (st : σ) (ex : Bool) (st' : σ) (ex' : Bool),
    scan s act fuel toks st ex = .ok (st', ex') → P st → P st'
  | _, [], st, ex, st', ex', h, hp => by
    unfold scan at h; cases h; exact hp
  | 0, _ :: _, st, ex, st', ex', h, hp => by
    unfold scan at h; cases h; exact hp
  | fuel + 1, (t, c) :: rest, st, ex, st', ex', h, hp => by
    unfold scan at h
    cases c with
    | arg =>
      simp only at h
      split at h
      · exact absurd h (takeSub_not_ok _ _ _ _ _ _)
      · exact scan_inv fuel rest st true st' ex' h hp
    | dashdash =>
      simp only at h
      split at h
      · exact absurd h (takeSub_not_ok _ _ _ _ _ _)
      · cases h; exact hp
    | opt o ostr e =>
      cases o with
      | none => exact scan_inv fuel rest st true st' ex' h hp
      | some o =>
        simp only at h
        split at h
        · cases h
        · rename_i acts consumed hc
          split at h
          · cases h
          · rename_i st1 h1
            exact scan_inv fuel _ st1 ex st' ex' h (runActs_inv act P hact acts st st1 h1 hp)

theorem parse_inv (argv : List String) (st st' : σ) (h : parse s act argv st = .ok st') (hp : P st) : P st' := by
  unfold parse at h
  split at h
  · cases h
  · rename_i toks _
    split at h
    · cases h
    · rename_i st1 ex h1
      split at h
      · cases h
      · cases h; exact scan_inv s act P hact _ toks st false _ _ h1 hp

end inv

/-- the input file named on the command line could be opened: it exists, or an `-o` created it before -/
def InputOpened (env : Env) (st : Args) : Prop :=
  ∀ p, st.input = .file p → (st.opened.contains p = true ∨ (env.file p).isSome = true)

theorem act_inputOpened (env : Env) (st : Args) (o : Opt) (a : ArgV) (st' : Args)
    (h : act env st o a = some st') (hp : InputOpened env st) : InputOpened env st' := by
  unfold act at h
  split at h
  · -- output
    cases a with
    | flag => cases h
    | nil => simp at h; subst h; exact hp
    | val v =>
      simp only at h
      unfold openWrite at h
      split at h
      · simp at h; subst h; exact hp
      · split at h
        · simp at h; subst h
          intro p hpf
          rcases hp p hpf with h1 | h1
          · left; simp only [List.contains_cons, h1, Bool.or_true]
          · right; exact h1
        · cases h
  · split at h
    · -- input
      cases a with
      | flag => cases h
      | nil => simp at h; subst h; intro p hpf; simp at hpf
      | val v =>
        simp only [Option.map_eq_some_iff] at h
        obtain ⟨i, hi, rfl⟩ := h
        unfold openRead at hi
        split at hi
        · cases hi; intro p hpf; simp at hpf
        · split at hi
          · rename_i hcond
            cases hi
            intro p hpf
            simp only [InArg.file.injEq] at hpf
            subst hpf
            simpa using hcond
          · cases hi
    · split at h
      · cases a <;> simp at h <;> subst h <;> exact hp
      · repeat' split at h
        all_goals first | (simp at h; subst h; exact hp) | cases h

theorem parse_inputOpened (env : Env) (s : Spec) (argv : List String) (st : Args)
    (h : parse s (act env) argv {} = .ok st) : InputOpened env st :=
  parse_inv s (act env) (InputOpened env) (act_inputOpened env) argv {} st h (by intro p hp; simp at hp)

end Cnfgen.ToolsL

namespace Cnfgen.ToolsL
open Cnfgen Cnfgen.IO Cnfgen.Cli.ToolArgs Cnfgen.Cli.Tools

/-! ### the sub-command taken is one of the choices -/

theorem runActs_not_sub {σ : Type} (act : σ → Opt → ArgV → Option σ) :
    ∀ (acts : List (Opt × ArgV)) (st : σ) (n : String) (r : List String) (st' : σ) (ex : Bool),
      runActs act acts st ≠ .error (.sub n r st' ex)
  | [], st, n, r, st', ex => by simp [runActs]
  | (o, a) :: rest, st, n, r, st', ex => by
    unfold runActs
    split
    · simp
    · split
      · simp
      · exact runActs_not_sub act rest _ n r st' ex

theorem takeSub_sub {σ : Type} (ch : List String) (t : String) (rest : List String) (st : σ) (ex : Bool)
    (n : String) (r : List String) (st' : σ) (ex' : Bool) (h : takeSub ch t rest st ex = .error (.sub n r st' ex')) :
    ch.contains n = true := by
  unfold takeSub at h
  split at h
  · rename_i hc; cases h; exact hc
  · cases h

theorem scan_sub {σ : Type} (s : Spec) (act : σ → Opt → ArgV → Option σ) :
    ∀ (fuel : Nat) (toks : List (String × TokC)) (st : σ) (ex : Bool) (n : String) (r : List String) (st' : σ) (ex' : Bool),
      scan s act fuel toks st ex = .error (.sub n r st' ex') → ∃ ch, s.subs = some ch ∧ ch.contains n = true
  | _, [], st, ex, n, r, st', ex', h => by unfold scan at h; cases h
  | 0, _ :: _, st, ex, n, r, st', ex', h => by unfold scan at h; cases h
  | fuel + 1, (t, c) :: rest, st, ex, n, r, st', ex', h => by
    unfold scan at h
    cases c with
    | arg =>
      simp only at h
      split at h
      · rename_i ch hs; exact ⟨ch, hs, takeSub_sub _ _ _ _ _ _ _ _ _ h⟩
      · exact scan_sub s act fuel rest st true n r st' ex' h
    | dashdash =>
      simp only at h
      split at h
      · rename_i ch _ _ hs; exact ⟨ch, hs, takeSub_sub _ _ _ _ _ _ _ _ _ h⟩
      · cases h
    | opt o ostr e =>
      cases o with
      | none => exact scan_sub s act fuel rest st true n r st' ex' h
      | some o =>
        simp only at h
        split at h
        · cases h
        · split at h
          · rename_i x hx; cases h; exact absurd hx (runActs_not_sub act _ _ _ _ _ _)
          · exact scan_sub s act fuel _ _ ex n r st' ex' h

theorem sub_name_mem {σ : Type} (s : Spec) (act : σ → Opt → ArgV → Option σ) (argv : List String) (st : σ)
    (n : String) (r : List String) (st' : σ) (ex : Bool) (h : parse s act argv st = .error (.sub n r st' ex))
    (ch : List String) (hs : s.subs = some ch) : n ∈ ch := by
  unfold parse at h
  split at h
  · cases h
  · split at h
    · rename_i x hx
      cases h
      obtain ⟨ch', hs', hc⟩ := scan_sub s act _ _ _ _ _ _ _ _ hx
      rw [hs] at hs'; cases hs'
      simpa using hc
    · split at h <;> cases h

end Cnfgen.ToolsL
