/-
Helper lemmas for the translated `normalize_opb` (`Props/C04/Generated.lean`): the index loop
`for i in range(len(combinations)): … combinations[i] = (c, l)` maps `flipNeg` over the terms and adds the
absolute values of the negative coefficients to the degree; with the final filter this is the model's `normTerms`.
-/
import CnfgenModel.Generated.Funcs
import CnfgenModel.Build.OPB
import Lemmas.PyFold
set_option linter.unusedSimpArgs false
namespace Cnfgen.GenOpb
open Cnfgen Cnfgen.PyGen

/-- what the loop does to one term -/
def flipNeg (t : Int × Int) : Int × Int := if t.1 < 0 then (-t.1, -t.2) else t

/-- what the loop adds to the degree -/
def negSum : List (Int × Int) → Int
  | [] => 0
  | t :: ts => (if t.1 < 0 then -t.1 else 0) + negSum ts

/-- the body of the loop, as the translator emits it (after unfolding the `let`s) -/
def step (st : Int × List (Int × Int)) (i : Int) : Except Err (Int × List (Int × Int)) :=
  (Py.index st.2 i) >>= fun x12 =>
    (if x12.1 < 0 then
      (Py.listSet st.2 i (Py.abs x12.1, -x12.2)) >>= fun l13 =>
        Except.ok (Py.abs x12.1, -x12.2, st.1 + Py.abs x12.1, l13)
    else Except.ok (x12.1, x12.2, st.1, st.2)) >>= fun st16 => Except.ok (st16.2.2.1, st16.2.2.2)

theorem step_at (v : Int) (P S : List (Int × Int)) (x : Int × Int) :
    step (v, P ++ x :: S) (P.length : Int) =
      Except.ok (v + (if x.1 < 0 then -x.1 else 0), P ++ flipNeg x :: S) := by
  have hidx : Py.index (P ++ x :: S) (P.length : Int) = Except.ok x := by
    rw [Py.index_nat _ _ (by simp)]
    simp
  simp only [step, hidx, Py.ok_bind]
  by_cases hx : x.1 < 0
  · have habs : Py.abs x.1 = -x.1 := by simp only [Py.abs_eq]; omega
    have hset : Py.listSet (P ++ x :: S) (P.length : Int) (-x.1, -x.2) = Except.ok (P ++ (-x.1, -x.2) :: S) := by
      have h0 : (0 : Int) ≤ (P.length : Int) := by omega
      simp only [Py.listSet, h0, if_true, Int.toNat_natCast]
      have : P.length < (P ++ x :: S).length := by simp
      rw [if_pos this]
      simp
    simp only [if_pos hx, habs, hset, Py.ok_bind, flipNeg]
  · simp only [if_neg hx, Py.ok_bind, flipNeg, Int.add_zero]

theorem loop_eq (S : List (Int × Int)) (P : List (Int × Int)) (v : Int) :
    List.foldlM step (v, P ++ S) ((List.range S.length).map (fun i => ((P.length + i : Nat) : Int))) =
      Except.ok (v + negSum S, P ++ S.map flipNeg) := by
  induction S generalizing P v with
  | nil => simp [negSum]
  | cons x S ih =>
    rw [List.length_cons, List.range_succ_eq_map, List.map_cons, List.foldlM_cons]
    have h0 : ((P.length + 0 : Nat) : Int) = (P.length : Int) := by simp
    rw [h0, step_at, Py.ok_bind]
    have := ih (P ++ [flipNeg x]) (v + (if x.1 < 0 then -x.1 else 0))
    simp only [List.append_assoc, List.singleton_append, List.length_append, List.length_singleton] at this
    rw [List.map_map]
    have hfun : ((fun i => ((P.length + i : Nat) : Int)) ∘ Nat.succ) = fun i => ((P.length + 1 + i : Nat) : Int) := by
      funext i; simp only [Function.comp]; congr 1; omega
    rw [hfun, this]
    simp only [negSum, List.map_cons, Int.add_assoc]

/-- the model's coefficient loop is: flip the negative terms, drop the zero terms, raise the degree -/
theorem normTerms_eq (ts : List (Int × Int)) (v : Int) :
    PB.normTerms ts v = ((ts.map flipNeg).filter (fun t => decide (t.1 ≠ 0)), v + negSum ts) := by
  induction ts generalizing v with
  | nil => simp [PB.normTerms, negSum]
  | cons t ts ih =>
    obtain ⟨c, l⟩ := t
    simp only [PB.normTerms, negSum, flipNeg, List.map_cons]
    by_cases hc : c < 0
    · have : (-c) ≠ 0 := by omega
      simp [hc, ih, this, Int.add_assoc]
    · by_cases h0 : c = 0
      · subst h0; simp [ih]
      · simp [hc, h0, ih]

end Cnfgen.GenOpb
