/-
C14 — `normalize_networkx_labels`: sorting the labels and renumbering them 1..n.
-/
import Lemmas.GraphIOBase
import Lemmas.GraphNx
namespace Cnfgen.GraphFmt
open Cnfgen Cnfgen.GraphLex

theorem insertBy_head {α} (le : α → α → Bool) (x : α) (l : List α) (h : ∀ y ∈ l.head?, le x y = true) :
    insertBy le x l = x :: l := by
  cases l with
  | nil => rfl
  | cons y ys => simp only [insertBy, h y (by simp), if_true]

/-- a list that is already sorted is left alone -/
theorem sortBy_sorted {α} (le : α → α → Bool) (l : List α) (h : l.Pairwise (fun a b => le a b = true)) :
    sortBy le l = l := by
  induction l with
  | nil => rfl
  | cons x xs ih =>
    have hx := List.pairwise_cons.1 h
    show insertBy le x (sortBy le xs) = x :: xs
    rw [ih hx.2]
    apply insertBy_head
    intro y hy
    cases xs with
    | nil => simp at hy
    | cons z zs => simp only [List.head?_cons, Option.mem_def, Option.some.injEq] at hy; subst hy; exact hx.1 _ (by simp)

/-- T-C14.4 (labels that compare numerically): when the integer labels come in increasing
order, every node keeps its position: the `i`-th node becomes vertex `i + 1` -/
theorem relabelInts_increasing (nodes : List Int) (edges : List (Int × Int)) (h : nodes.Pairwise (· < ·)) :
    relabelInts nodes edges =
      (nodes.length, edges.map (fun e => (nodes.idxOf e.1 + 1, nodes.idxOf e.2 + 1))) := by
  unfold relabelInts relabelWith
  rw [sortBy_sorted _ _ (h.imp (fun hab => by simpa using Int.le_of_lt hab))]
  rfl

/-- labels `a, a+1, …, a+n-1` -/
def consecutive (a : Int) (n : Nat) : List Int := (List.range n).map (fun (i : Nat) => a + (i : Int))

theorem consecutive_sorted (a : Int) (n : Nat) : (consecutive a n).Pairwise (· < ·) := by
  unfold consecutive
  rw [List.pairwise_map]
  exact List.pairwise_lt_range.imp (fun hab => by omega)

theorem idxOf_consecutive (a : Int) (n i : Nat) (hi : i < n) : (consecutive a n).idxOf (a + (i : Int)) = i := by
  have hnd : (consecutive a n).Nodup :=
    List.nodup_iff_pairwise_ne.2 ((consecutive_sorted a n).imp (fun hab => Int.ne_of_lt hab))
  have hlen : i < (consecutive a n).length := by simp [consecutive, hi]
  have hget : (consecutive a n)[i] = a + (i : Int) := by simp [consecutive]
  rw [← hget]
  exact hnd.idxOf_getElem i hlen

/-- gml: `write_gml` numbers the nodes `0..n-1` in the order `1..n` and `read_gml(label='id')`
returns these ids; the relabelling sends id `v-1` back to `v` -/
theorem relabelInts_gml (n : Nat) (edges : List (Nat × Nat)) (h : ∀ e ∈ edges, (1 ≤ e.1 ∧ e.1 ≤ n) ∧ 1 ≤ e.2 ∧ e.2 ≤ n) :
    relabelInts (consecutive 0 n) (edges.map (fun e => ((e.1 : Int) - 1, (e.2 : Int) - 1))) = (n, edges) := by
  rw [relabelInts_increasing _ _ (consecutive_sorted 0 n)]
  have hlen : (consecutive 0 n).length = n := by simp [consecutive]
  rw [hlen, List.map_map]
  congr 1
  calc edges.map _ = edges.map id := by
        apply List.map_congr_left
        intro e he
        obtain ⟨⟨h1, h2⟩, h3, h4⟩ := h e he
        have e1 : ((e.1 : Int) - 1) = 0 + ((e.1 - 1 : Nat) : Int) := by omega
        have e2 : ((e.2 : Int) - 1) = 0 + ((e.2 - 1 : Nat) : Int) := by omega
        simp only [Function.comp, id]
        rw [e1, e2, idxOf_consecutive 0 n _ (by omega), idxOf_consecutive 0 n _ (by omega)]
        exact Prod.ext (by simp only; omega) (by simp only; omega)
    _ = edges := List.map_id _

/-- integer labels `1..n` (a networkx graph built by `to_networkx`): the identity -/
theorem relabelInts_id (n : Nat) (edges : List (Nat × Nat)) (h : ∀ e ∈ edges, (1 ≤ e.1 ∧ e.1 ≤ n) ∧ 1 ≤ e.2 ∧ e.2 ≤ n) :
    relabelInts (consecutive 1 n) (edges.map (fun e => ((e.1 : Int), (e.2 : Int)))) = (n, edges) := by
  rw [relabelInts_increasing _ _ (consecutive_sorted 1 n)]
  have hlen : (consecutive 1 n).length = n := by simp [consecutive]
  rw [hlen, List.map_map]
  congr 1
  calc edges.map _ = edges.map id := by
        apply List.map_congr_left
        intro e he
        obtain ⟨⟨h1, h2⟩, h3, h4⟩ := h e he
        have e1 : (e.1 : Int) = 1 + ((e.1 - 1 : Nat) : Int) := by omega
        have e2 : (e.2 : Int) = 1 + ((e.2 - 1 : Nat) : Int) := by omega
        simp only [Function.comp, id]
        rw [e1, e2, idxOf_consecutive 1 n _ (by omega), idxOf_consecutive 1 n _ (by omega)]
        exact Prod.ext (by simp only; omega) (by simp only; omega)
    _ = edges := List.map_id _

/-- the decimal string labels `"1", …, "n"` pydot returns for a written graph -/
def decLabels (n : Nat) : List Str := (List.range n).map (fun i => natStr (i + 1))

end Cnfgen.GraphFmt
