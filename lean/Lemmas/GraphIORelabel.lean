/-
C14 — `normalize_networkx_labels`: sorting the labels and renumbering them 1..n.
-/
import Lemmas.GraphIOBip
import Lemmas.GraphNx
namespace Cnfgen.GraphFmt
open Cnfgen Cnfgen.GraphLex

theorem insertBy_head {α} (le : α → α → Bool) (x : α) (l : List α) (h : ∀ y ∈ l.head?, le x y = true) :
    insertBy le x l = x :: l := by
  cases l with
  | nil => rfl
  | cons y ys => simp only [insertBy, h y (by simp), if_true]

/-- a list that is already sorted is left alone -/
theorem sortBy_sorted {α} (le : α → α → Bool) (l : List α) (h : l.Pairwise (fun a b => le a b = true)) :
    sortBy le l = l := by
  induction l with
  | nil => rfl
  | cons x xs ih =>
    have hx := List.pairwise_cons.1 h
    show insertBy le x (sortBy le xs) = x :: xs
    rw [ih hx.2]
    apply insertBy_head
    intro y hy
    cases xs with
    | nil => simp at hy
    | cons z zs => simp only [List.head?_cons, Option.mem_def, Option.some.injEq] at hy; subst hy; exact hx.1 _ (by simp)

/-- T-C14.4 (labels that compare numerically): when the integer labels come in increasing
order, every node keeps its position: the `i`-th node becomes vertex `i + 1` -/
theorem relabelInts_increasing (nodes : List Int) (edges : List (Int × Int)) (h : nodes.Pairwise (· < ·)) :
    relabelInts nodes edges =
      (nodes.length, edges.map (fun e => (nodes.idxOf e.1 + 1, nodes.idxOf e.2 + 1))) := by
  unfold relabelInts relabelWith
  rw [sortBy_sorted _ _ (h.imp (fun hab => by simpa using Int.le_of_lt hab))]
  rfl

/-- labels `a, a+1, …, a+n-1` -/
def consecutive (a : Int) (n : Nat) : List Int := (List.range n).map (fun (i : Nat) => a + (i : Int))

theorem consecutive_sorted (a : Int) (n : Nat) : (consecutive a n).Pairwise (· < ·) := by
  unfold consecutive
  rw [List.pairwise_map]
  exact List.pairwise_lt_range.imp (fun hab => by omega)

theorem idxOf_consecutive (a : Int) (n i : Nat) (hi : i < n) : (consecutive a n).idxOf (a + (i : Int)) = i := by
  have hnd : (consecutive a n).Nodup :=
    List.nodup_iff_pairwise_ne.2 ((consecutive_sorted a n).imp (fun hab => Int.ne_of_lt hab))
  have hlen : i < (consecutive a n).length := by simp [consecutive, hi]
  have hget : (consecutive a n)[i] = a + (i : Int) := by simp [consecutive]
  rw [← hget]
  exact hnd.idxOf_getElem i hlen

/-- gml: `write_gml` numbers the nodes `0..n-1` in the order `1..n` and `read_gml(label='id')`
returns these ids; the relabelling sends id `v-1` back to `v` -/
theorem relabelInts_gml (n : Nat) (edges : List (Nat × Nat)) (h : ∀ e ∈ edges, (1 ≤ e.1 ∧ e.1 ≤ n) ∧ 1 ≤ e.2 ∧ e.2 ≤ n) :
    relabelInts (consecutive 0 n) (edges.map (fun e => ((e.1 : Int) - 1, (e.2 : Int) - 1))) = (n, edges) := by
  rw [relabelInts_increasing _ _ (consecutive_sorted 0 n)]
  have hlen : (consecutive 0 n).length = n := by simp [consecutive]
  rw [hlen, List.map_map]
  congr 1
  calc edges.map _ = edges.map id := by
        apply List.map_congr_left
        intro e he
        obtain ⟨⟨h1, h2⟩, h3, h4⟩ := h e he
        have e1 : ((e.1 : Int) - 1) = 0 + ((e.1 - 1 : Nat) : Int) := by omega
        have e2 : ((e.2 : Int) - 1) = 0 + ((e.2 - 1 : Nat) : Int) := by omega
        simp only [Function.comp, id]
        rw [e1, e2, idxOf_consecutive 0 n _ (by omega), idxOf_consecutive 0 n _ (by omega)]
        exact Prod.ext (by simp only; omega) (by simp only; omega)
    _ = edges := List.map_id _

/-- integer labels `1..n` (a networkx graph built by `to_networkx`): the identity -/
theorem relabelInts_id (n : Nat) (edges : List (Nat × Nat)) (h : ∀ e ∈ edges, (1 ≤ e.1 ∧ e.1 ≤ n) ∧ 1 ≤ e.2 ∧ e.2 ≤ n) :
    relabelInts (consecutive 1 n) (edges.map (fun e => ((e.1 : Int), (e.2 : Int)))) = (n, edges) := by
  rw [relabelInts_increasing _ _ (consecutive_sorted 1 n)]
  have hlen : (consecutive 1 n).length = n := by simp [consecutive]
  rw [hlen, List.map_map]
  congr 1
  calc edges.map _ = edges.map id := by
        apply List.map_congr_left
        intro e he
        obtain ⟨⟨h1, h2⟩, h3, h4⟩ := h e he
        have e1 : (e.1 : Int) = 1 + ((e.1 - 1 : Nat) : Int) := by omega
        have e2 : (e.2 : Int) = 1 + ((e.2 - 1 : Nat) : Int) := by omega
        simp only [Function.comp, id]
        rw [e1, e2, idxOf_consecutive 1 n _ (by omega), idxOf_consecutive 1 n _ (by omega)]
        exact Prod.ext (by simp only; omega) (by simp only; omega)
    _ = edges := List.map_id _

/-- the decimal string labels `"1", …, "n"` pydot returns for a written graph -/
def decLabels (n : Nat) : List Str := (List.range n).map (fun i => natStr (i + 1))

end Cnfgen.GraphFmt

namespace Cnfgen.GraphFmt
open Cnfgen Cnfgen.GraphLex

/-! ### bipartite graphs through networkx: no relabelling by sorted label, each side is numbered
in node order -/

theorem idxOf_range_map (n k i : Nat) (hi : i < n) : ((List.range n).map (· + k)).idxOf (i + k) = i := by
  have hnd : ((List.range n).map (· + k)).Nodup := by
    apply List.nodup_iff_pairwise_ne.2
    rw [List.pairwise_map]
    exact List.pairwise_lt_range.imp (fun hab => by omega)
  have hlen : i < ((List.range n).map (· + k)).length := by simp [hi]
  have hget : ((List.range n).map (· + k))[i] = i + k := by simp
  rw [← hget]
  exact hnd.idxOf_getElem i hlen

theorem filter_const_true {α} (l : List α) : l.filter (fun _ => true) = l := by
  induction l with
  | nil => rfl
  | cons x xs ih => simp [ih]

theorem filter_const_false {α} (l : List α) : l.filter (fun _ => false) = [] := by
  induction l with
  | nil => rfl
  | cons x xs ih => simp [ih]

theorem bipToNx_left (G : BipG) :
    (((bipToNx G).1.filter (fun p => p.2 == some false)).map (·.1)) = (List.range G.l).map (· + 1) := by
  simp [bipToNx, List.filter_append, List.filter_map, Function.comp_def, filter_const_true, filter_const_false]

theorem bipToNx_right (G : BipG) :
    (((bipToNx G).1.filter (fun p => p.2 == some true)).map (·.1)) = (List.range G.r).map (· + (G.l + 1)) := by
  simp [bipToNx, List.filter_append, List.filter_map, Function.comp_def, filter_const_true, filter_const_false]
  intro a _; omega

/-- T-C14.4 (bipartite, gml and dot): `from_networkx(to_networkx(G))`, with the sides numbered in
node order as `BipartiteGraph.from_networkx` does, gives back `G` -/
theorem bipOfNx_bipToNx {G : BipG} (h : BipG.Inv G) :
    ∃ G', bipOfNx (bipToNx G).1 (bipToNx G).2 = .ok G' ∧ BipG.Same G G' := by
  have hnone : (bipToNx G).1.any (fun p => p.2.isNone) = false := by
    simp [bipToNx]
  have hfold : ∀ (es : List (Nat × Nat)) (g : BipG), (∀ e ∈ es, (1 ≤ e.1 ∧ e.1 ≤ G.l) ∧ 1 ≤ e.2 ∧ e.2 ≤ G.r) →
      (es.map (fun e => (e.1, e.2 + G.l))).foldlM (fun g e =>
        let ucolor := !(((List.range G.l).map (· + 1)).contains e.1)
        let vcolor := ((List.range G.r).map (· + (G.l + 1))).contains e.2
        if ucolor == vcolor then Except.error Err.valueError
        else if !ucolor then g.addEdge (rank ((List.range G.l).map (· + 1)) e.1 : Nat)
            (rank ((List.range G.r).map (· + (G.l + 1))) e.2 : Nat)
        else g.addEdge (rank ((List.range G.l).map (· + 1)) e.2 : Nat)
            (rank ((List.range G.r).map (· + (G.l + 1))) e.1 : Nat)) g =
      g.addEdgesFrom (es.map (fun e => ((e.1 : Int), (e.2 : Int)))) := by
    intro es
    induction es with
    | nil => intro g _; rfl
    | cons e es ih =>
      intro g hv
      obtain ⟨⟨h1, h2⟩, h3, h4⟩ := hv e (List.mem_cons_self ..)
      have hc1 : ((List.range G.l).map (· + 1)).contains e.1 = true := by
        rw [List.contains_iff_mem, List.mem_map]
        exact ⟨e.1 - 1, List.mem_range.2 (by omega), by omega⟩
      have hc2 : ((List.range G.r).map (· + (G.l + 1))).contains (e.2 + G.l) = true := by
        rw [List.contains_iff_mem, List.mem_map]
        exact ⟨e.2 - 1, List.mem_range.2 (by omega), by omega⟩
      have hr1 : rank ((List.range G.l).map (· + 1)) e.1 = e.1 := by
        have := idxOf_range_map G.l 1 (e.1 - 1) (by omega)
        rw [show e.1 - 1 + 1 = e.1 by omega] at this
        simp only [rank, this]; omega
      have hr2 : rank ((List.range G.r).map (· + (G.l + 1))) (e.2 + G.l) = e.2 := by
        have := idxOf_range_map G.r (G.l + 1) (e.2 - 1) (by omega)
        rw [show e.2 - 1 + (G.l + 1) = e.2 + G.l by omega] at this
        simp only [rank, this]; omega
      simp only [List.map_cons, List.foldlM_cons, hc1, hc2, Bool.not_true, hr1, hr2, BipG.addEdgesFrom_cons_io]
      simp only [show ((false == true) = false) from rfl, Bool.false_eq_true, if_false, Bool.not_false, if_true]
      cases g.addEdge (e.1 : Int) (e.2 : Int) with
      | error x => rfl
      | ok g₁ => exact ih g₁ (fun x hx => hv x (List.mem_cons_of_mem _ hx))
  have hvalid : ∀ x ∈ G.edges.map (fun e => ((e.1 : Int), (e.2 : Int))),
      BipG.Valid (BipG.init G.l G.r).l (BipG.init G.l G.r).r x.1 x.2 := by
    intro x hx
    obtain ⟨e, he, rfl⟩ := List.mem_map.1 hx
    have := h.edges_range (u := e.1) (v := e.2) he
    show BipG.Valid G.l G.r _ _
    unfold BipG.Valid
    omega
  obtain ⟨G', hG'⟩ := BipG.addEdgesFrom_valid (BipG.inv_init G.l G.r) hvalid
  obtain ⟨_, hi, hl, hr, hm⟩ := BipG.addEdgesFrom_ok (BipG.inv_init G.l G.r) hG'
  refine ⟨G', ?_, BipG.same_of_inv h hi hl hr ?_⟩
  · unfold bipOfNx
    rw [hnone]
    simp only [Bool.false_eq_true, if_false, bipToNx_left, bipToNx_right, List.length_map, List.length_range]
    have := hfold G.edges (BipG.init G.l G.r) (fun e he => by
      have := h.edges_range (u := e.1) (v := e.2) he; omega)
    simp only [bipToNx]
    rw [this, hG']
  · intro p
    rw [hm]
    simp only [BipG.init, List.not_mem_nil, false_or]
    constructor
    · rintro ⟨x, hx, rfl⟩
      obtain ⟨e, he, rfl⟩ := List.mem_map.1 hx
      simpa using h.mem_edges.1 he
    · intro hp
      exact ⟨((p.1 : Int), (p.2 : Int)), List.mem_map.2 ⟨p, h.mem_edges.2 hp, rfl⟩, by simp⟩

end Cnfgen.GraphFmt

namespace Cnfgen.GraphFmt
open Cnfgen Cnfgen.GraphLex

/-! ### dot: all-digit node names are turned into integers before the relabelling -/

theorem natStrAux_append (f n : Nat) (acc : Str) : natStrAux f n acc = natStrAux f n [] ++ acc := by
  induction f generalizing n acc with
  | zero => rfl
  | succ f ih =>
    simp only [natStrAux]
    split
    · rfl
    · rw [ih (n / 10) (digitChar (n % 10) :: acc), ih (n / 10) [digitChar (n % 10)]]
      simp

theorem natStrAux_fuel (f f' n : Nat) (h : n < f) (h' : n < f') : natStrAux f n [] = natStrAux f' n [] := by
  induction f generalizing f' n with
  | zero => omega
  | succ f ih =>
    cases f' with
    | zero => omega
    | succ f' =>
      simp only [natStrAux]
      split
      · rfl
      · rw [natStrAux_append f, natStrAux_append f', ih f' (n / 10) (by omega) (by omega)]

theorem natStr_lt10 {n : Nat} (h : n < 10) : natStr n = [digitChar n] := by
  simp [natStr, natStrAux, h]

theorem natStr_ge10 {n : Nat} (h : 10 ≤ n) : natStr n = natStr (n / 10) ++ [digitChar (n % 10)] := by
  have hn : ¬ n < 10 := by omega
  have h1 : natStr n = natStrAux n (n / 10) [digitChar (n % 10)] := by
    simp only [natStr, natStrAux, hn, if_false]
  rw [h1, natStrAux_append, natStrAux_fuel n (n / 10 + 1) (n / 10) (by omega) (by omega)]
  rfl

theorem digitChar_spec : ∀ d, d < 10 → (digitChar d).toNat - 48 = d ∧ (digit? (digitChar d)).isSome = true := by
  decide

theorem digitsVal_append (s : Str) (c : Char) : digitsVal (s ++ [c]) = digitsVal s * 10 + (c.toNat - 48) := by
  simp [digitsVal, List.foldl_append]

/-- `int(str(n)) == n` -/
theorem digitsVal_natStr (n : Nat) : digitsVal (natStr n) = n := by
  induction n using Nat.strongRecOn with
  | _ n ih =>
    by_cases h : n < 10
    · rw [natStr_lt10 h]
      simp [digitsVal, (digitChar_spec n h).1]
    · rw [natStr_ge10 (by omega), digitsVal_append, ih (n / 10) (by omega), (digitChar_spec (n % 10) (by omega)).1]
      omega

/-- `str(n).isdigit()` -/
theorem isDigitStr_natStr (n : Nat) : isDigitStr (natStr n) = true := by
  have hall : ∀ n, (natStr n).all (fun c => (digit? c).isSome) = true ∧ (natStr n) ≠ [] := by
    intro n
    induction n using Nat.strongRecOn with
    | _ n ih =>
      by_cases h : n < 10
      · rw [natStr_lt10 h]; simp [(digitChar_spec n h).2]
      · rw [natStr_ge10 (by omega)]
        have := ih (n / 10) (by omega)
        simp [this.1, (digitChar_spec (n % 10) (by omega)).2]
  have := hall n
  simp only [isDigitStr, Bool.and_eq_true, Bool.not_eq_true', this.1, and_true]
  cases hs : natStr n with
  | nil => exact absurd hs this.2
  | cons c cs => rfl

theorem dedupAux_nodup {α} [BEq α] [LawfulBEq α] (seen l : List α) (hn : l.Nodup) (hd : ∀ x ∈ l, x ∉ seen) :
    dedupAux seen l = l := by
  induction l generalizing seen with
  | nil => rfl
  | cons x xs ih =>
    have hx : seen.contains x = false := by
      rw [Bool.eq_false_iff, ne_eq, List.contains_iff_mem]; exact hd x (List.mem_cons_self ..)
    have hnx := List.nodup_cons.1 hn
    simp only [dedupAux, hx, Bool.false_eq_true, if_false]
    rw [ih (x :: seen) hnx.2 (fun y hy => by
      simp only [List.mem_cons, not_or]
      exact ⟨fun h => hnx.1 (h ▸ hy), hd y (List.mem_cons_of_mem _ hy)⟩)]

/-- T-C14.4c: with the digit-string → int conversion of the dot branch, the names `"1", …, "n"`
pydot returns for a written graph are renumbered by the identity, for EVERY `n` -/
theorem relabelDot_decLabels (n : Nat) (edges : List (Nat × Nat))
    (h : ∀ e ∈ edges, (1 ≤ e.1 ∧ e.1 ≤ n) ∧ 1 ≤ e.2 ∧ e.2 ≤ n) :
    relabelDot (decLabels n) (edges.map (fun e => (natStr e.1, natStr e.2))) = (n, edges) := by
  have hall : (decLabels n).all isDigitStr = true := by
    simp only [decLabels, List.all_eq_true, List.mem_map]
    rintro s ⟨i, _, rfl⟩
    exact isDigitStr_natStr _
  have hnodes : (decLabels n).map (fun u => (digitsVal u : Int)) = consecutive 1 n := by
    simp only [decLabels, consecutive, List.map_map]
    apply List.map_congr_left
    intro i _
    simp only [Function.comp, digitsVal_natStr]
    omega
  have hnd : (consecutive 1 n).Nodup :=
    List.nodup_iff_pairwise_ne.2 ((consecutive_sorted 1 n).imp (fun hab => Int.ne_of_lt hab))
  have hedges : (edges.map (fun e => (natStr e.1, natStr e.2))).map
      (fun e => ((digitsVal e.1 : Int), (digitsVal e.2 : Int))) = edges.map (fun e => ((e.1 : Int), (e.2 : Int))) := by
    rw [List.map_map]
    apply List.map_congr_left
    intro e _
    simp only [Function.comp, digitsVal_natStr]
  unfold relabelDot
  rw [hall, if_pos rfl, hnodes, hedges, dedup, dedupAux_nodup [] _ hnd (by simp)]
  exact relabelInts_id n edges h

end Cnfgen.GraphFmt
