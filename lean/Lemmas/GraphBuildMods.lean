/-
Lemmas for C15, random modifications: `add_random_missing_edges`, `split_random_edges`,
planted clique / biclique.  No Mathlib.
-/
import Lemmas.GraphBuildClosed
namespace Cnfgen
open GRand

namespace SimpleG

/-- one `add_edge` that returns, arbitrary integer arguments -/
theorem addEdge_ok (G G' : SimpleG) (u v : Int) (h : G.addEdge u v = .ok G') :
    ∃ a b : Nat, u = a ∧ v = b ∧ 1 ≤ a ∧ a ≤ G.n ∧ 1 ≤ b ∧ b ≤ G.n ∧ a ≠ b := by
  unfold addEdge at h
  split at h
  · simp at h
  · rename_i hr
    have hr' : 1 ≤ u ∧ u ≤ G.n ∧ 1 ≤ v ∧ v ≤ G.n ∧ u ≠ v := by simpa [Decidable.not_not] using hr
    exact ⟨u.toNat, v.toNat, by omega, by omega, by omega, by omega, by omega, by omega, by omega⟩

/-- facts about any `add_edge` that returns -/
theorem addEdge_facts (G G' : SimpleG) (u v : Int) (h : G.addEdge u v = .ok G') :
    G'.n = G.n ∧ (∀ e ∈ G.edgeset, e ∈ G'.edgeset) ∧
    (u.toNat, v.toNat) ∈ G'.edgeset ∧
    ((G.hasEdge u v = true ∧ G'.m = G.m) ∨ (G.hasEdge u v = false ∧ G'.m = G.m + 1)) ∧
    (G.Sym → G'.Sym ∧ (v.toNat, u.toNat) ∈ G'.edgeset) := by
  obtain ⟨a, b, rfl, rfl, h1, h2, h3, h4, h5⟩ := addEdge_ok G G' _ _ h
  obtain ⟨G1, hadd, hn, hm, hc⟩ := addEdge_nat G a b ⟨h1, h2, h3, h4, h5⟩
  rw [h] at hadd; cases hadd
  simp only [Int.toNat_natCast]
  have hab : (a, b) ∈ G'.edgeset := by
    by_cases hh : (a, b) ∈ G.edgeset
    · exact (hm _).2 (Or.inr hh)
    · exact (hm _).2 (Or.inl ⟨hh, Or.inl rfl⟩)
  refine ⟨hn, fun e he => (hm e).2 (Or.inr he), hab, ?_, ?_⟩
  · by_cases hh : (a, b) ∈ G.edgeset
    · left; exact ⟨(hasEdge_nat G a b).2 hh, by rw [hc, if_pos hh]; rfl⟩
    · right
      refine ⟨?_, by rw [hc, if_neg hh]⟩
      cases hq : G.hasEdge (a : Int) (b : Int)
      · rfl
      · exact absurd ((hasEdge_nat G a b).1 hq) hh
  · intro hS
    have hS' := sym_addEdge G G' a b ⟨h1, h2, h3, h4, h5⟩ hS h
    exact ⟨hS', hS' _ _ hab⟩

theorem addEdgesFrom_nil (G : SimpleG) : G.addEdgesFrom [] = .ok G := rfl

theorem addEdgesFrom_cons_gb (G : SimpleG) (e : Int × Int) (es : List (Int × Int)) :
    G.addEdgesFrom (e :: es) = (G.addEdge e.1 e.2 >>= fun g => g.addEdgesFrom es) := by
  simp [addEdgesFrom, List.foldlM]

/-- any sequence of `add_edge` calls that returns: same vertices, nothing lost, symmetry kept,
every requested edge present in both orientations -/
theorem addEdgesFrom_ok_spec (es : List (Int × Int)) (G G' : SimpleG) (h : G.addEdgesFrom es = .ok G') :
    G'.n = G.n ∧ (∀ e ∈ G.edgeset, e ∈ G'.edgeset) ∧
    (G.Sym → G'.Sym ∧ ∀ e ∈ es, (e.1.toNat, e.2.toNat) ∈ G'.edgeset ∧ (e.2.toNat, e.1.toNat) ∈ G'.edgeset) := by
  induction es generalizing G with
  | nil => simp [addEdgesFrom_nil] at h; subst h; exact ⟨rfl, fun e he => he, fun hS => ⟨hS, by simp⟩⟩
  | cons x es ih =>
    rw [addEdgesFrom_cons_gb, except_bind_ok] at h
    obtain ⟨G1, h1, h2⟩ := h
    obtain ⟨hn1, hmono1, hx1, _, hsym1⟩ := addEdge_facts G G1 _ _ h1
    obtain ⟨hn', hmono', hsym'⟩ := ih G1 h2
    refine ⟨by omega, fun e he => hmono' e (hmono1 e he), ?_⟩
    intro hS
    obtain ⟨hS1, hx1'⟩ := hsym1 hS
    obtain ⟨hS', hall⟩ := hsym' hS1
    refine ⟨hS', ?_⟩
    intro e he
    rcases List.mem_cons.1 he with rfl | he
    · exact ⟨hmono' _ hx1, hmono' _ hx1'⟩
    · exact hall e he

/-- `remove_edge(u, v)` of an edge that is present -/
theorem removeEdge_present (G : SimpleG) (u v : Nat) (h : (u, v) ∈ G.edgeset) :
    (G.removeEdge u v).n = G.n ∧ (G.removeEdge u v).m = G.m - 1 ∧
    ∀ e, e ∈ (G.removeEdge u v).edgeset ↔ e ∈ G.edgeset ∧ e ≠ (u, v) ∧ e ≠ (v, u) := by
  unfold removeEdge
  rw [if_neg (by simp [(hasEdge_nat G u v).2 h])]
  simp only [Int.toNat_natCast]
  refine ⟨by trivial, by trivial, ?_⟩
  intro e
  simp [List.mem_filter]

theorem mem_availableSimple (G : SimpleG) (e : Nat × Nat) :
    e ∈ availableSimple G ↔ 1 ≤ e.1 ∧ e.1 < e.2 ∧ e.2 ≤ G.n ∧ e ∉ G.edgeset := by
  obtain ⟨a, b⟩ := e
  simp only [availableSimple, List.mem_flatMap, List.mem_map, List.mem_filter, mem_rangeN, Prod.mk.injEq]
  constructor
  · rintro ⟨u, hu, v, ⟨hv, hne⟩, rfl, rfl⟩
    refine ⟨by omega, by omega, by omega, ?_⟩
    intro hm
    have := (hasEdge_nat G u v).2 hm
    simp [this] at hne
  · rintro ⟨h1, h2, h3, h4⟩
    refine ⟨a, by omega, b, ⟨by omega, ?_⟩, rfl, rfl⟩
    cases hq : G.hasEdge (a : Int) (b : Int)
    · rfl
    · exact absurd ((hasEdge_nat G a b).1 hq) h4

end SimpleG

namespace GRand

/-! ### add_random_missing_edges, simple graph -/
theorem sparseSimple_ok (goal : Int) (t : Nat) (G G' : SimpleG) (ds rest : List Draw)
    (hle : (G.m : Int) ≤ goal) (h : sparseSimple goal t G ds = .ok G' rest) :
    G'.n = G.n ∧ G.m ≤ G'.m ∧ (G'.m : Int) ≤ goal ∧ (∀ e ∈ G.edgeset, e ∈ G'.edgeset) ∧ (G.Sym → G'.Sym) := by
  induction t generalizing G ds with
  | zero =>
    simp only [sparseSimple, pure_ok] at h; obtain ⟨rfl, _⟩ := h
    exact ⟨rfl, Nat.le_refl _, hle, fun e he => he, id⟩
  | succ t ih =>
    simp only [sparseSimple] at h
    split at h
    · simp only [pure_ok] at h; obtain ⟨rfl, _⟩ := h
      exact ⟨rfl, Nat.le_refl _, hle, fun e he => he, id⟩
    · rename_i hlt
      rw [bind_ok] at h
      obtain ⟨s, mid, _, h⟩ := h
      split at h
      · rename_i u v
        split at h
        · exact ih G mid hle h
        · rw [bind_ok] at h
          obtain ⟨G1, mid2, h1, h⟩ := h
          rw [lift_ok] at h1
          obtain ⟨h1, rfl⟩ := h1
          obtain ⟨hn1, hmono1, _, hm1, hsym1⟩ := SimpleG.addEdge_facts G G1 _ _ h1
          have hm1' : G1.m ≤ G.m + 1 ∧ G.m ≤ G1.m := by rcases hm1 with ⟨_, h⟩ | ⟨_, h⟩ <;> omega
          obtain ⟨hn', hm', hg', hmono', hsym'⟩ := ih G1 mid (by omega) h
          exact ⟨by omega, by omega, hg', fun e he => hmono' e (hmono1 e he), fun hS => hsym' (hsym1 hS).1⟩
      · simp at h

theorem sparseSimple_exc (goal : Int) (t : Nat) (G : SimpleG) (ds : List Draw) (e : Err)
    (h : sparseSimple goal t G ds = .exc e) : e = .valueError := by
  induction t generalizing G ds with
  | zero => simp [sparseSimple] at h
  | succ t ih =>
    simp only [sparseSimple] at h
    split at h
    · exact absurd h (pure_ne_exc _ _ _)
    · rw [bind_exc] at h
      rcases h with h | ⟨s, mid, _, h⟩
      · exact (sample_exc _ _ _ _ h).1
      · split at h
        · split at h
          · exact ih G mid h
          · rw [bind_exc] at h
            rcases h with h | ⟨G1, mid2, _, h⟩
            · rw [lift_exc] at h; exact SimpleG.addEdge_error _ _ _ _ h
            · exact ih G1 mid2 h
        · simp at h

theorem pairsToInt_eq (es : List (Nat × Nat)) :
    pairsToInt es = es.map (fun e => ((e.1 : Int), (e.2 : Int))) := rfl

/-- T-C15.2 (addedges, simple graph): whenever `add_random_missing_edges(G, m)` returns, the
graph has exactly `m` more edges, the same vertices, and no edge was lost — whatever was drawn,
whether the sparse loop sufficed or the dense fall-back was needed -/
theorem addMissingSimple_ok (G G' : SimpleG) (m : Int) (ds rest : List Draw)
    (h : addMissingSimple G m ds = .ok G' rest) :
    0 ≤ m ∧ G'.n = G.n ∧ (G'.m : Int) = G.m + m ∧ (∀ e ∈ G.edgeset, e ∈ G'.edgeset) ∧ (G.Sym → G'.Sym) := by
  unfold addMissingSimple at h
  split at h
  · simp at h
  · rename_i hm0
    simp only at h
    split at h
    · simp at h
    · rw [bind_ok] at h
      obtain ⟨G1, mid, hsp, h⟩ := h
      obtain ⟨hn1, hm1, hg1, hmono1, hsym1⟩ := sparseSimple_ok _ _ G G1 ds mid (by omega) hsp
      split at h
      · rename_i hlt
        rw [bind_ok] at h
        obtain ⟨es, mid2, hs, h⟩ := h
        rw [lift_ok] at h
        obtain ⟨hadd, rfl⟩ := h
        obtain ⟨hlen, hnd, hmem, _⟩ := samplePairs_ok _ _ _ _ _ hs
        have hin : ∀ e ∈ es, 1 ≤ e.1 ∧ e.1 < e.2 ∧ e.2 ≤ G1.n := by
          intro e he; have := (SimpleG.mem_availableSimple G1 e).1 (hmem e he); omega
        obtain ⟨G2, hadd2, hn2, _, hmono2, hsym2, hc2⟩ := SimpleG.addNat_spec es G1 hin
        rw [pairsToInt_eq] at hadd
        have : G1.addNat es = G1.addEdgesFrom (es.map (fun e => ((e.1 : Int), (e.2 : Int)))) := rfl
        rw [this, hadd] at hadd2
        cases hadd2
        have hc := hc2 hnd (fun e he => ((SimpleG.mem_availableSimple G1 e).1 (hmem e he)).2.2.2)
        refine ⟨by omega, by omega, by omega, fun e he => hmono2 e (hmono1 e he), fun hS => (hsym2 (hsym1 hS)).1⟩
      · simp only [pure_ok] at h
        obtain ⟨rfl, _⟩ := h
        exact ⟨by omega, hn1, by omega, hmono1, hsym1⟩

/-- … and the only exception is `ValueError` -/
theorem addMissingSimple_exc (G : SimpleG) (m : Int) (ds : List Draw) (e : Err)
    (h : addMissingSimple G m ds = .exc e) : e = .valueError := by
  unfold addMissingSimple at h
  split at h
  · simp at h; exact h.symm
  · simp only at h
    split at h
    · simp at h; exact h.symm
    · rw [bind_exc] at h
      rcases h with h | ⟨G1, mid, _, h⟩
      · exact sparseSimple_exc _ _ _ _ _ h
      · split at h
        · rw [bind_exc] at h
          rcases h with h | ⟨es, mid2, _, h⟩
          · exact (samplePairs_exc _ _ _ _ h).1
          · rw [lift_exc] at h; exact SimpleG.addEdgesFrom_error_gb _ _ _ h
        · exact absurd h (pure_ne_exc _ _ _)

/-! ### add_random_missing_edges, bipartite graph -/
theorem numberOfEdges_addEdge_le (G G' : BipG) (u v : Int) (h : G.addEdge u v = .ok G') :
    G.numberOfEdges ≤ G'.numberOfEdges ∧ G'.numberOfEdges ≤ G.numberOfEdges + 1 := by
  obtain ⟨_, hcase⟩ := BipG.addEdge_ok G G' u v h
  rcases hcase with ⟨_, rfl⟩ | ⟨_, _, _, hes, _⟩
  · omega
  · simp [BipG.numberOfEdges, hes]

theorem sparseBip_ok (goal : Int) (t : Nat) (G G' : BipG) (ds rest : List Draw)
    (hle : (G.numberOfEdges : Int) ≤ goal) (h : sparseBip goal t G ds = .ok G' rest) :
    G'.l = G.l ∧ G'.r = G.r ∧ G.numberOfEdges ≤ G'.numberOfEdges ∧ (G'.numberOfEdges : Int) ≤ goal ∧
    (∀ e ∈ G.edgeset, e ∈ G'.edgeset) ∧ (G.InvGB → G'.InvGB) := by
  induction t generalizing G ds with
  | zero =>
    simp only [sparseBip, pure_ok] at h; obtain ⟨rfl, _⟩ := h
    exact ⟨rfl, rfl, Nat.le_refl _, hle, fun e he => he, id⟩
  | succ t ih =>
    simp only [sparseBip] at h
    split at h
    · simp only [pure_ok] at h; obtain ⟨rfl, _⟩ := h
      exact ⟨rfl, rfl, Nat.le_refl _, hle, fun e he => he, id⟩
    · rw [bind_ok] at h
      obtain ⟨su, mid, _, h⟩ := h
      rw [bind_ok] at h
      obtain ⟨sv, mid2, _, h⟩ := h
      split at h
      · rename_i u v
        split at h
        · exact ih G mid2 hle h
        · rw [bind_ok] at h
          obtain ⟨G1, mid3, h1, h⟩ := h
          rw [lift_ok] at h1
          obtain ⟨h1, rfl⟩ := h1
          obtain ⟨hl1, hr1⟩ := BipG.sides_addEdge G G1 _ _ h1
          have hn1 := numberOfEdges_addEdge_le G G1 _ _ h1
          obtain ⟨hl', hr', hn', hg', hmono', hinv'⟩ := ih G1 mid2 (by omega) h
          exact ⟨by omega, by omega, by omega, hg',
            fun e he => hmono' e ((BipG.edgeset_addEdge G G1 _ _ h1 e).2 (Or.inr he)),
            fun hI => hinv' (BipG.inv_addEdge_gb G G1 _ _ hI h1)⟩
      · simp at h

theorem sparseBip_exc (goal : Int) (t : Nat) (G : BipG) (ds : List Draw) (e : Err)
    (h : sparseBip goal t G ds = .exc e) : e = .valueError := by
  induction t generalizing G ds with
  | zero => simp [sparseBip] at h
  | succ t ih =>
    simp only [sparseBip] at h
    split at h
    · exact absurd h (pure_ne_exc _ _ _)
    · rw [bind_exc] at h
      rcases h with h | ⟨su, mid, _, h⟩
      · exact (sample_exc _ _ _ _ h).1
      · rw [bind_exc] at h
        rcases h with h | ⟨sv, mid2, _, h⟩
        · exact (sample_exc _ _ _ _ h).1
        · split at h
          · split at h
            · exact ih G mid2 h
            · rw [bind_exc] at h
              rcases h with h | ⟨G1, mid3, _, h⟩
              · rw [lift_exc] at h; exact (BipG.addEdge_error _ _ _ _ h).1
              · exact ih G1 mid3 h
          · simp at h

theorem mem_availableBip (G : BipG) (e : Nat × Nat) :
    e ∈ availableBip G ↔ (1 ≤ e.1 ∧ e.1 ≤ G.l ∧ 1 ≤ e.2 ∧ e.2 ≤ G.r) ∧ e ∉ G.edgeset := by
  simp only [availableBip, List.mem_filter, mem_allPairs]
  constructor
  · rintro ⟨h1, h2⟩
    refine ⟨h1, fun hm => ?_⟩
    have := (BipG.hasEdge_nat G e.1 e.2).2 hm
    simp [this] at h2
  · rintro ⟨h1, h2⟩
    refine ⟨h1, ?_⟩
    cases hq : G.hasEdge (e.1 : Int) (e.2 : Int)
    · rfl
    · exact absurd ((BipG.hasEdge_nat G e.1 e.2).1 hq) h2

/-- T-C15.2 (addedges, bipartite graph) -/
theorem addMissingBip_ok (G G' : BipG) (m : Int) (ds rest : List Draw)
    (h : addMissingBip G m ds = .ok G' rest) :
    0 ≤ m ∧ G'.l = G.l ∧ G'.r = G.r ∧ (G'.numberOfEdges : Int) = G.numberOfEdges + m ∧
    (∀ e ∈ G.edgeset, e ∈ G'.edgeset) ∧ (G.InvGB → G'.InvGB) := by
  unfold addMissingBip at h
  split at h
  · simp at h
  · rename_i hm0
    simp only at h
    split at h
    · simp at h
    · rw [bind_ok] at h
      obtain ⟨G1, mid, hsp, h⟩ := h
      obtain ⟨hl1, hr1, hn1, hg1, hmono1, hinv1⟩ := sparseBip_ok _ _ G G1 ds mid (by omega) hsp
      split at h
      · rename_i hlt
        rw [bind_ok] at h
        obtain ⟨es, mid2, hs, h⟩ := h
        rw [lift_ok] at h
        obtain ⟨hadd, rfl⟩ := h
        obtain ⟨hlen, hnd, hmem, _⟩ := samplePairs_ok _ _ _ _ _ hs
        obtain ⟨hl2, hr2⟩ := BipG.addEdgesFrom_sides _ _ _ hadd
        have hf := BipG.addEdgesFrom_fresh _ _ _ hadd (by rw [pairsToInt_natPair]; exact hnd)
          (by rw [pairsToInt_natPair]; intro e he; exact ((mem_availableBip G1 e).1 (hmem e he)).2)
        rw [pairsToInt_natPair] at hf
        refine ⟨by omega, by omega, by omega, ?_, fun e he => BipG.addEdgesFrom_mono _ _ _ hadd e (hmono1 e he),
          fun hI => (BipG.addEdgesFrom_spec_gb _ _ _ (hinv1 hI) hadd).1⟩
        rw [BipG.numberOfEdges, hf]
        simp only [List.length_append, List.length_reverse]
        have : G1.edgeset.length = G1.numberOfEdges := rfl
        omega
      · simp only [pure_ok] at h
        obtain ⟨rfl, _⟩ := h
        exact ⟨by omega, hl1, hr1, by omega, hmono1, hinv1⟩

theorem addMissingBip_exc (G : BipG) (m : Int) (ds : List Draw) (e : Err)
    (h : addMissingBip G m ds = .exc e) : e = .valueError := by
  unfold addMissingBip at h
  split at h
  · simp at h; exact h.symm
  · simp only at h
    split at h
    · simp at h; exact h.symm
    · rw [bind_exc] at h
      rcases h with h | ⟨G1, mid, _, h⟩
      · exact sparseBip_exc _ _ _ _ _ h
      · split at h
        · rw [bind_exc] at h
          rcases h with h | ⟨es, mid2, _, h⟩
          · exact (samplePairs_exc _ _ _ _ h).1
          · rw [lift_exc] at h; exact (BipG.addEdgesFrom_error_gb _ _ _ h).1
        · exact absurd h (pure_ne_exc _ _ _)

/-! ### split_random_edges -/
theorem splitLoop_spec (es : List (Nat × Nat)) (x : Nat) (G G' : SimpleG)
    (h : splitLoop es x G = .ok G') (hnd : es.Nodup)
    (hes : ∀ e ∈ es, 1 ≤ e.1 ∧ e.1 < e.2 ∧ e.2 < x ∧ e ∈ G.edgeset)
    (hfresh : ∀ e ∈ G.edgeset, e.1 < x ∧ e.2 < x) (hx : x + es.length ≤ G.n + 1)
    (hm : es.length ≤ G.m) :
    G'.n = G.n ∧ G'.m = G.m + es.length := by
  induction es generalizing x G with
  | nil => simp [splitLoop, pure, Except.pure] at h; subst h; exact ⟨rfl, rfl⟩
  | cons e es ih =>
    obtain ⟨u, v⟩ := e
    simp only [splitLoop] at h
    rw [except_bind_ok] at h
    obtain ⟨G2, h2, h⟩ := h
    rw [except_bind_ok] at h
    obtain ⟨G3, h3, h⟩ := h
    have he := hes (u, v) (by simp)
    simp only at he
    simp only [List.length_cons] at hx hm
    obtain ⟨hn1, hm1, hmem1⟩ := SimpleG.removeEdge_present G u v he.2.2.2
    -- first new edge u – x
    obtain ⟨G2', h2', hn2, hmem2, hc2⟩ := SimpleG.addEdge_nat (G.removeEdge u v) u x (by rw [hn1]; omega)
    rw [h2] at h2'; cases h2'
    have hux : (u, x) ∉ (G.removeEdge u v).edgeset := by
      intro hc; have := hfresh _ ((hmem1 _).1 hc).1; simp only at this; omega
    rw [if_neg hux] at hc2
    -- second new edge x – v
    obtain ⟨G3', h3', hn3, hmem3, hc3⟩ := SimpleG.addEdge_nat G2 x v (by rw [hn2, hn1]; omega)
    rw [h3] at h3'; cases h3'
    have hxv : (x, v) ∉ G2.edgeset := by
      intro hc
      rcases (hmem2 _).1 hc with ⟨_, hq | hq⟩ | hq
      · simp only [Prod.mk.injEq] at hq; omega
      · simp only [Prod.mk.injEq] at hq; omega
      · have := hfresh _ ((hmem1 _).1 hq).1; simp only at this; omega
    rw [if_neg hxv] at hc3
    simp only [List.nodup_cons] at hnd
    have := ih (x + 1) G3 h hnd.2 (by
      intro e' he'
      have h' := hes e' (by simp [he'])
      refine ⟨h'.1, h'.2.1, by omega, ?_⟩
      apply (hmem3 _).2; right
      apply (hmem2 _).2; right
      apply (hmem1 _).2
      refine ⟨h'.2.2.2, ?_, ?_⟩
      · intro hq; exact hnd.1 (hq ▸ he')
      · intro hq
        have : e'.1 = v ∧ e'.2 = u := by rw [hq]; exact ⟨rfl, rfl⟩
        omega) (by
      intro e' he'
      rcases (hmem3 _).1 he' with ⟨_, hq | hq⟩ | hq
      · rw [hq]; simp only; omega
      · rw [hq]; simp only; omega
      · rcases (hmem2 _).1 hq with ⟨_, hq | hq⟩ | hq
        · rw [hq]; simp only; omega
        · rw [hq]; simp only; omega
        · have := hfresh _ ((hmem1 _).1 hq).1; omega) (by omega) (by omega)
    simp only [List.length_cons]
    omega

/-- what is assumed of the graph handed to `split_random_edges`: the edge view `G.edges()` lists
stored edges, lowest endpoint first, inside the graph (C16 proves this of every graph built
through the class API) -/
structure ViewOK (G : SimpleG) : Prop where
  view : ∀ e ∈ G.edges, 1 ≤ e.1 ∧ e.1 < e.2 ∧ e ∈ G.edgeset
  inside : ∀ e ∈ G.edgeset, e.1 ≤ G.n ∧ e.2 ≤ G.n

/-- T-C15.2 (splitedges): whenever `split_random_edges(G, k)` returns, exactly `k` vertices and
`k` edges have been added -/
theorem splitEdges_ok (G G' : SimpleG) (k : Int) (ds rest : List Draw) (hV : ViewOK G)
    (h : splitEdges G k ds = .ok G' rest) :
    0 ≤ k ∧ k ≤ G.m ∧ G'.n = G.n + k.toNat ∧ G'.m = G.m + k.toNat := by
  unfold splitEdges at h
  split at h
  · simp at h
  · rename_i hk0
    split at h
    · simp at h
    · rename_i hkm
      rw [bind_ok] at h
      obtain ⟨tosplit, mid, hs, h⟩ := h
      rw [bind_ok] at h
      obtain ⟨G1, mid2, hup, h⟩ := h
      rw [lift_ok] at hup h
      obtain ⟨hup, rfl⟩ := hup
      obtain ⟨hloop, rfl⟩ := h
      obtain ⟨hlen, hnd, hmem, _⟩ := samplePairs_ok _ _ _ _ _ hs
      have hG1 : G1.n = G.n + k.toNat ∧ G1.m = G.m ∧ G1.edgeset = G.edgeset := by
        unfold SimpleG.updateVertexNumber at hup
        rw [if_neg (by omega)] at hup
        simp only [Except.ok.injEq] at hup
        subst hup
        refine ⟨?_, rfl, rfl⟩
        simp only
        have : ((G.n : Int) + k).toNat = G.n + k.toNat := by omega
        rw [this]; omega
      have := splitLoop_spec tosplit (G.n + 1) G1 G' hloop hnd (by
        intro e he
        have hv := hV.view e (hmem e he)
        have hi := hV.inside e hv.2.2
        rw [hG1.2.2]
        exact ⟨hv.1, hv.2.1, by omega, hv.2.2⟩) (by
        intro e he; rw [hG1.2.2] at he; have := hV.inside e he; omega) (by omega) (by omega)
      refine ⟨by omega, by omega, by omega, by omega⟩

theorem splitLoop_error (es : List (Nat × Nat)) (x : Nat) (G : SimpleG) (e : Err)
    (h : splitLoop es x G = .error e) : e = .valueError := by
  induction es generalizing x G with
  | nil => simp [splitLoop, pure, Except.pure] at h
  | cons p es ih =>
    obtain ⟨u, v⟩ := p
    simp only [splitLoop] at h
    rw [except_bind_error] at h
    rcases h with h | ⟨G2, _, h⟩
    · exact SimpleG.addEdge_error _ _ _ _ h
    · rw [except_bind_error] at h
      rcases h with h | ⟨G3, _, h⟩
      · exact SimpleG.addEdge_error _ _ _ _ h
      · exact ih _ _ h

theorem splitEdges_exc (G : SimpleG) (k : Int) (ds : List Draw) (e : Err)
    (h : splitEdges G k ds = .exc e) : e = .valueError := by
  unfold splitEdges at h
  split at h
  · simp at h; exact h.symm
  · split at h
    · simp at h; exact h.symm
    · rw [bind_exc] at h
      rcases h with h | ⟨ts, mid, _, h⟩
      · exact (samplePairs_exc _ _ _ _ h).1
      · rw [bind_exc] at h
        rcases h with h | ⟨G1, mid2, _, h⟩
        · rw [lift_exc] at h
          unfold SimpleG.updateVertexNumber at h
          split at h <;> simp at h
          exact h.symm
        · rw [lift_exc] at h; exact splitLoop_error _ _ _ _ h

/-! ### planted clique -/
theorem mem_combos_one (l : List Nat) (y : Nat) : [y] ∈ combos l 1 ↔ y ∈ l := by
  induction l with
  | nil => simp [combos]
  | cons x xs ih => simp [combos, ih]

/-- any two distinct members of `l` appear as a pair of `itertools.combinations(l, 2)` -/
theorem combos_two (l : List Nat) (v w : Nat) (hv : v ∈ l) (hw : w ∈ l) (hne : v ≠ w) :
    [v, w] ∈ combos l 2 ∨ [w, v] ∈ combos l 2 := by
  induction l with
  | nil => simp at hv
  | cons x xs ih =>
    simp only [combos, List.mem_append, List.mem_map]
    rcases List.mem_cons.1 hv with rfl | hv'
    · rcases List.mem_cons.1 hw with rfl | hw'
      · exact absurd rfl hne
      · left; left; exact ⟨[w], (mem_combos_one xs w).2 hw', rfl⟩
    · rcases List.mem_cons.1 hw with rfl | hw'
      · right; left; exact ⟨[v], (mem_combos_one xs v).2 hv', rfl⟩
      · rcases ih hv' hw' with h | h
        · left; right; exact h
        · right; right; exact h

theorem mem_cliqueCalls (l : List Nat) (v w : Nat) (h : [v, w] ∈ combos l 2) :
    ((v : Int), (w : Int)) ∈ cliqueCalls l := by
  simp only [cliqueCalls, List.mem_filterMap]
  exact ⟨[v, w], h, rfl⟩

/-- T-C15.2 (plantclique): whenever it returns, the sampled `k` vertices form a clique, the
vertex set is unchanged and no edge was lost -/
theorem plantClique_ok (G G' : SimpleG) (k : Int) (ds rest : List Draw) (hS : G.Sym)
    (h : plantClique G k ds = .ok G' rest) :
    G'.n = G.n ∧ G'.Sym ∧ (∀ e ∈ G.edgeset, e ∈ G'.edgeset) ∧
    ∃ clique : List Nat, (clique.length : Int) = k ∧ clique.Nodup ∧ (∀ v ∈ clique, 1 ≤ v ∧ v ≤ G.n) ∧
      ∀ v ∈ clique, ∀ w ∈ clique, v ≠ w → (v, w) ∈ G'.edgeset := by
  unfold plantClique at h
  split at h
  · simp at h
  · rw [bind_ok] at h
    obtain ⟨clique, mid, hs, h⟩ := h
    rw [lift_ok] at h
    obtain ⟨hadd, rfl⟩ := h
    obtain ⟨hlen, hnd, hmem, _⟩ := sample_ok _ _ _ _ _ hs
    obtain ⟨hn, hmono, hsym⟩ := SimpleG.addEdgesFrom_ok_spec _ G G' hadd
    obtain ⟨hS', hall⟩ := hsym hS
    refine ⟨hn, hS', hmono, clique, hlen, hnd, ?_, ?_⟩
    · intro v hv; have := mem_rangeN.1 (hmem v hv); omega
    · intro v hv w hw hne
      rcases combos_two clique v w hv hw hne with hc | hc
      · have := (hall _ (mem_cliqueCalls clique v w hc)).1
        simpa using this
      · have := (hall _ (mem_cliqueCalls clique w v hc)).2
        simpa using this

theorem plantClique_exc (G : SimpleG) (k : Int) (ds : List Draw) (e : Err)
    (h : plantClique G k ds = .exc e) : e = .valueError := by
  unfold plantClique at h
  split at h
  · simp at h; exact h.symm
  · rw [bind_exc] at h
    rcases h with h | ⟨c, mid, _, h⟩
    · exact (sample_exc _ _ _ _ h).1
    · rw [lift_exc] at h; exact SimpleG.addEdgesFrom_error_gb _ _ _ h

/-! ### planted biclique -/
theorem mem_bicliqueCalls (left right : List Nat) (v w : Nat) (hv : v ∈ left) (hw : w ∈ right) :
    ((v : Int), (w : Int)) ∈ bicliqueCalls left right := by
  simp only [bicliqueCalls, List.mem_flatMap, List.mem_map]
  exact ⟨v, hv, w, hw, rfl⟩

/-- T-C15.2 (plantbiclique): whenever it returns, the sampled `a` left and `b` right vertices
are completely joined, on the same sides, and no edge was lost -/
theorem plantBiclique_ok (G G' : BipG) (a b : Int) (ds rest : List Draw) (hI : G.InvGB)
    (h : plantBiclique G a b ds = .ok G' rest) :
    G'.InvGB ∧ G'.l = G.l ∧ G'.r = G.r ∧ (∀ e ∈ G.edgeset, e ∈ G'.edgeset) ∧
    ∃ left right : List Nat, (left.length : Int) = a ∧ (right.length : Int) = b ∧ left.Nodup ∧ right.Nodup ∧
      (∀ v ∈ left, 1 ≤ v ∧ v ≤ G.l) ∧ (∀ w ∈ right, 1 ≤ w ∧ w ≤ G.r) ∧
      ∀ v ∈ left, ∀ w ∈ right, (v, w) ∈ G'.edgeset := by
  unfold plantBiclique at h
  split at h
  · simp at h
  · rw [bind_ok] at h
    obtain ⟨left, mid, hsl, h⟩ := h
    rw [bind_ok] at h
    obtain ⟨right, mid2, hsr, h⟩ := h
    rw [lift_ok] at h
    obtain ⟨hadd, rfl⟩ := h
    obtain ⟨hlenl, hndl, hmeml, _⟩ := sample_ok _ _ _ _ _ hsl
    obtain ⟨hlenr, hndr, hmemr, _⟩ := sample_ok _ _ _ _ _ hsr
    obtain ⟨hI', hl, hr, hm, _⟩ := BipG.addEdgesFrom_spec_gb _ G G' hI hadd
    refine ⟨hI', hl, hr, fun e he => (hm e).2 (Or.inl he), left, right, hlenl, hlenr, hndl, hndr, ?_, ?_, ?_⟩
    · intro v hv; have := mem_rangeN.1 (hmeml v hv); omega
    · intro w hw; have := mem_rangeN.1 (hmemr w hw); omega
    · intro v hv w hw
      apply (hm (v, w)).2; right
      simp only [List.mem_map]
      exact ⟨_, mem_bicliqueCalls left right v w hv hw, by simp [natPair]⟩

theorem plantBiclique_exc (G : BipG) (a b : Int) (ds : List Draw) (e : Err)
    (h : plantBiclique G a b ds = .exc e) : e = .valueError := by
  unfold plantBiclique at h
  split at h
  · simp at h; exact h.symm
  · rw [bind_exc] at h
    rcases h with h | ⟨l, mid, _, h⟩
    · exact (sample_exc _ _ _ _ h).1
    · rw [bind_exc] at h
      rcases h with h | ⟨r, mid2, _, h⟩
      · exact (sample_exc _ _ _ _ h).1
      · rw [lift_exc] at h; exact (BipG.addEdgesFrom_error_gb _ _ _ h).1

end GRand
end Cnfgen
