/-
The auxiliary bipartite graph of `GraphEdgesVariables` (the insertion loop `Vars.graphAux`) and
the description used by the models of the Tseitin and even-colouring formulas (`Fam.upNbrs`,
`Fam.loNbrs`, `Fam.edgeOffset`, `Fam.edgeId`, `G.edges.length`) agree, for every simple graph
object satisfying the representation invariant `SimpleG.Inv`.
-/
import Lemmas.GenAuxBip
import Lemmas.FamGraph
namespace Cnfgen.GenEdgeId
open Cnfgen Cnfgen.GenAuxBip

/-- the invariant of `Graph` objects gives the hypothesis of the Tseitin / colouring theorems -/
theorem goodGraph_of_inv (G : SimpleG) (h : SimpleG.Inv G) : Fam.GoodGraph G := by
  refine ⟨h.nbrs_of_not_vertex (by omega), h.m_eq_length_edges, ?_⟩
  intro u _
  refine ⟨h.nbrs_sorted u, ?_⟩
  intro v hv
  have hr := h.nbrs_range hv
  exact ⟨hr.2.2.1, hr.2.2.2.1, fun e => hr.2.2.2.2 e.symm, h.mem_nbrs_comm.1 hv⟩

/-- the model's `upNbrs` in closed form, for every number `u` -/
theorem upNbrs_eq_filter {G : SimpleG} (hG : SimpleG.Inv G) (u : Nat) :
    Fam.upNbrs G u = if 1 ≤ u ∧ u ≤ G.n then (G.nbrs u).filter (fun v => u < v) else [] := by
  by_cases h1 : 1 ≤ u ∧ u < G.n
  · rw [Fam.upNbrs_eq (goodGraph_of_inv G hG) h1.1 h1.2, if_pos ⟨h1.1, Nat.le_of_lt h1.2⟩]
  · have h0 : Fam.upNbrs G u = [] := by
      unfold Fam.upNbrs; rw [if_neg h1]
    rw [h0]
    split
    · rename_i h2
      symm
      rw [List.filter_eq_nil_iff]
      intro v hv
      have := hG.nbrs_range hv
      simp only [decide_eq_true_eq]
      omega
    · rfl

/-- right neighbours of the auxiliary graph = the model's `upNbrs` -/
theorem graphAux_rnbrs_upNbrs {G : SimpleG} (hG : SimpleG.Inv G) {B : BipG}
    (h : Vars.graphAux G = .ok B) (u : Nat) :
    B.rnbrs u = Fam.upNbrs G u := by
  rw [graphAux_rnbrs hG h, Fam.auxBip_rnbrs, upNbrs_eq_filter hG]

/-- left neighbours of the auxiliary graph = the model's `loNbrs` -/
theorem graphAux_lnbrs_loNbrs {G : SimpleG} (hG : SimpleG.Inv G) {B : BipG}
    (h : Vars.graphAux G = .ok B) (w : Nat) :
    B.lnbrs w = Fam.loNbrs G w := by
  obtain ⟨hw, hl, _, _⟩ := Vars.graphAux_spec h
  rw [BipG.lnbrs_eq_filter hw, hl]
  unfold Fam.loNbrs rangeN
  rw [Nat.add_sub_cancel]
  apply List.filter_congr
  intro u _
  rw [graphAux_rnbrs_upNbrs hG h]
  simp

/-- the prefix sums of the right degrees of the auxiliary graph = the model's `edgeOffset` -/
theorem graphAux_degSum {G : SimpleG} (hG : SimpleG.Inv G) {B : BipG}
    (h : Vars.graphAux G = .ok B) (s k : Nat) :
    s + Vars.degSum B k = Fam.edgeOffset G s (k + 1) := by
  unfold Vars.degSum Fam.edgeOffset
  rw [Nat.add_sub_cancel]
  congr 2
  apply List.map_congr_left
  intro i _
  rw [graphAux_rnbrs_upNbrs hG h]

/-- `offset[u]` of the auxiliary graph = the model's `edgeOffset`, for a vertex `u` -/
theorem graphAux_offset {G : SimpleG} (hG : SimpleG.Inv G) {B : BipG}
    (h : Vars.graphAux G = .ok B) (s u : Nat) (h1 : 1 ≤ u) (h2 : u ≤ G.n) :
    (Vars.bipOffsets B s).getD u 0 = Fam.edgeOffset G s u := by
  have hl : B.l = G.n := (Vars.graphAux_spec h).2.1
  rw [Vars.bipOffsets_getD B s ⟨h1, by omega⟩, graphAux_degSum hG h, Nat.sub_add_cancel h1]

/-- the identifier of the pair `(u, v)` through the auxiliary graph, `u` a vertex -/
theorem graphAux_bipId_eq {G : SimpleG} (hG : SimpleG.Inv G) {B : BipG}
    (h : Vars.graphAux G = .ok B) (s u v : Nat) (h1 : 1 ≤ u) (h2 : u ≤ G.n) :
    Vars.bipId B s u v = Fam.edgeOffset G s u + (Fam.upNbrs G u).idxOf v := by
  unfold Vars.bipId
  rw [graphAux_offset hG h s u h1 h2, graphAux_rnbrs_upNbrs hG h]

/-- the identifier of an edge through the auxiliary graph is the model's `edgeId`
(any two numbers `a`, `b`) -/
theorem graphAux_bipId_edgeId {G : SimpleG} (hG : SimpleG.Inv G) {B : BipG}
    (h : Vars.graphAux G = .ok B)
    (s a b : Nat) (ha : 1 ≤ min a b) (hb : min a b ≤ G.n) :
    Vars.bipId B s (min a b) (max a b) = Fam.edgeId G s a b := by
  rw [graphAux_bipId_eq hG h s _ _ ha hb]
  rfl

/-- the same for two adjacent vertices, in either order -/
theorem graphAux_bipId_edgeId_of_mem {G : SimpleG} (hG : SimpleG.Inv G) {B : BipG}
    (h : Vars.graphAux G = .ok B) (s : Nat) {a b : Nat} (hab : b ∈ G.nbrs a) :
    Vars.bipId B s (min a b) (max a b) = Fam.edgeId G s a b := by
  have hr := hG.nbrs_range hab
  apply graphAux_bipId_edgeId hG h
  · omega
  · omega

/-- one variable per edge -/
theorem graphAux_numberOfEdges_edges {G : SimpleG} (hG : SimpleG.Inv G) {B : BipG}
    (h : Vars.graphAux G = .ok B) :
    B.numberOfEdges = G.edges.length := by
  obtain ⟨hw, hl, _, _⟩ := Vars.graphAux_spec h
  rw [← Vars.degSum_total hw, hl, Fam.edges_length]
  have key : ∀ k, Vars.degSum B k = ((List.range k).map (Fam.rowLen G)).sum := by
    intro k
    unfold Vars.degSum
    congr 1
    apply List.map_congr_left
    intro i _
    rw [graphAux_rnbrs_upNbrs hG h]
    rfl
  rw [key]
  rcases Nat.eq_zero_or_pos G.n with h0 | hpos
  · rw [h0]
  · obtain ⟨k, hk⟩ : ∃ k, G.n = k + 1 := ⟨G.n - 1, by omega⟩
    rw [hk, Nat.add_sub_cancel, Fam.prefix_sum_succ]
    have : Fam.rowLen G k = 0 := by
      unfold Fam.rowLen
      rw [← hk]
      unfold Fam.upNbrs
      rw [if_neg (by omega)]
      rfl
    omega

end Cnfgen.GenEdgeId
