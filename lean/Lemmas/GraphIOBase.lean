/-
C14 — semantics of `add_edge` as seen by the file readers: one interface (`GSem`) for the two
non-bipartite classes, so that the kthlist and DIMACS reader lemmas are proven once.
Builds on the representation invariants of `Lemmas/GraphInv.lean` (C16).
-/
import Lemmas.GraphInv
import CnfgenModel.IO.GraphFmt
namespace Cnfgen
open GraphFmt

/-- what the readers need to know about a graph class: a representation invariant, the edge
set, which calls of `add_edge` are accepted and which pairs an accepted call contributes -/
structure GSem {γ : Type} (C : GClass γ) where
  Inv : γ → Prop
  E : γ → List (Nat × Nat)
  Valid : Nat → Int → Int → Prop
  contrib : Int → Int → Nat × Nat → Prop
  init_inv : ∀ n, Inv (C.init n)
  init_E : ∀ n, E (C.init n) = []
  init_order : ∀ n, C.order (C.init n) = n
  add_ok : ∀ {G G' : γ} {u v : Int}, Inv G → C.addEdge G u v = .ok G' →
    Valid (C.order G) u v ∧ Inv G' ∧ C.order G' = C.order G ∧
      ∀ p, p ∈ E G' ↔ (p ∈ E G ∨ contrib u v p)
  add_err : ∀ {G : γ} {u v : Int} {x : Err}, C.addEdge G u v = .error x → x = .valueError
  add_valid : ∀ {G : γ} {u v : Int}, Valid (C.order G) u v → ∃ G', C.addEdge G u v = .ok G'

namespace SimpleG

theorem addEdge_ok {G G' : SimpleG} {u v : Int} (h : Inv G) (e : G.addEdge u v = .ok G') :
    Valid G.n u v ∧ Inv G' ∧ G'.n = G.n ∧
      ∀ p, p ∈ G'.edgeset ↔ (p ∈ G.edgeset ∨ (p = (u.toNat, v.toNat) ∨ p = (v.toNat, u.toNat))) := by
  refine ⟨?_, inv_addEdge h e, addEdge_n e, ?_⟩
  · rcases addEdge_cases G u v with ⟨_, h1⟩ | ⟨hv, _, _⟩ | ⟨hv, _, _⟩
    · rw [h1] at e; cases e
    · exact hv
    · exact hv
  · intro p
    rcases addEdge_cases G u v with ⟨_, h1⟩ | ⟨_, hc, h1⟩ | ⟨hv, hc, h1⟩
    · rw [h1] at e; cases e
    · rw [h1] at e; cases e
      constructor
      · exact Or.inl
      · rintro (hp | rfl | rfl)
        · exact hp
        · exact hc
        · exact h.symm _ _ hc
    · rw [h1] at e; cases e
      obtain ⟨h1, h2, h3, h4, h5⟩ := hv
      have hne : u.toNat ≠ v.toNat := by omega
      simp only [insertNew, List.mem_cons]
      rcases Nat.lt_or_gt_of_ne hne with hlt | hgt
      · rw [Nat.min_eq_left (by omega), Nat.max_eq_right (by omega)]
        constructor
        · rintro (hp | hp | hp)
          · exact Or.inr (Or.inr hp)
          · exact Or.inr (Or.inl hp)
          · exact Or.inl hp
        · rintro (hp | hp | hp)
          · exact Or.inr (Or.inr hp)
          · exact Or.inr (Or.inl hp)
          · exact Or.inl hp
      · rw [Nat.min_eq_right (by omega), Nat.max_eq_left (by omega)]
        constructor
        · rintro (hp | hp | hp)
          · exact Or.inr (Or.inl hp)
          · exact Or.inr (Or.inr hp)
          · exact Or.inl hp
        · rintro (hp | hp | hp)
          · exact Or.inr (Or.inr hp)
          · exact Or.inl hp
          · exact Or.inr (Or.inl hp)

theorem addEdge_err {G : SimpleG} {u v : Int} {x : Err} (e : G.addEdge u v = .error x) : x = .valueError := by
  rcases addEdge_cases G u v with ⟨_, h1⟩ | ⟨_, _, h1⟩ | ⟨_, _, h1⟩ <;> rw [h1] at e <;> cases e
  rfl

theorem addEdge_valid {G : SimpleG} {u v : Int} (hv : Valid G.n u v) : ∃ G', G.addEdge u v = .ok G' := by
  rcases addEdge_cases G u v with ⟨hn, _⟩ | ⟨_, _, h1⟩ | ⟨_, _, h1⟩
  · exact absurd hv hn
  · exact ⟨_, h1⟩
  · exact ⟨_, h1⟩

/-- equality of everything observable: order, edge counter, adjacency table, edge set -/
structure Same (G G' : SimpleG) : Prop where
  n : G'.n = G.n
  m : G'.m = G.m
  adj : G'.adj = G.adj
  edgeset : ∀ p, p ∈ G'.edgeset ↔ p ∈ G.edgeset

theorem Same.edges {G G' : SimpleG} (h : Same G G') : G'.edges = G.edges := by
  simp only [SimpleG.edges, h.n, h.adj]

theorem same_of_inv {G G' : SimpleG} (h : Inv G) (h' : Inv G') (hn : G'.n = G.n)
    (he : ∀ p, p ∈ G'.edgeset ↔ p ∈ G.edgeset) : Same G G' := by
  refine ⟨hn, ?_, ?_, he⟩
  · rw [← h.count, ← h'.count]
    apply List.Perm.length_eq
    apply (List.perm_ext_iff_of_nodup h'.abs_nodup h.abs_nodup).2
    intro e; rw [mem_abs, mem_abs, he]
  · have r' : Rep G'.adj G.n (fun u v => (u, v) ∈ G.edgeset) := by
      have := h'.rep; rw [hn] at this
      exact this.congr (fun u v => he (u, v))
    exact r'.unique h.rep

end SimpleG

namespace DiG

theorem addEdge_ok {G G' : DiG} {u v : Int} (h : Inv G) (e : G.addEdge u v = .ok G') :
    Valid G.n u v ∧ Inv G' ∧ G'.n = G.n ∧
      ∀ p, p ∈ G'.edgeset ↔ (p ∈ G.edgeset ∨ p = (u.toNat, v.toNat)) := by
  refine ⟨?_, inv_addEdge h e, addEdge_n e, ?_⟩
  · rcases addEdge_cases G u v with ⟨_, h1⟩ | ⟨hv, _, _⟩ | ⟨hv, _, _⟩
    · rw [h1] at e; cases e
    · exact hv
    · exact hv
  · intro p
    rcases addEdge_cases G u v with ⟨_, h1⟩ | ⟨_, hc, h1⟩ | ⟨hv, hc, h1⟩
    · rw [h1] at e; cases e
    · rw [h1] at e; cases e
      constructor
      · exact Or.inl
      · rintro (hp | rfl)
        · exact hp
        · exact hc
    · rw [h1] at e; cases e
      simp only [insertNew, List.mem_cons]
      constructor
      · rintro (hp | hp)
        · exact Or.inr hp
        · exact Or.inl hp
      · rintro (hp | hp)
        · exact Or.inr hp
        · exact Or.inl hp

theorem addEdge_err {G : DiG} {u v : Int} {x : Err} (e : G.addEdge u v = .error x) : x = .valueError := by
  rcases addEdge_cases G u v with ⟨_, h1⟩ | ⟨_, _, h1⟩ | ⟨_, _, h1⟩ <;> rw [h1] at e <;> cases e
  rfl

theorem addEdge_valid {G : DiG} {u v : Int} (hv : Valid G.n u v) : ∃ G', G.addEdge u v = .ok G' := by
  rcases addEdge_cases G u v with ⟨hn, _⟩ | ⟨_, _, h1⟩ | ⟨_, _, h1⟩
  · exact absurd hv hn
  · exact ⟨_, h1⟩
  · exact ⟨_, h1⟩

structure Same (G G' : DiG) : Prop where
  n : G'.n = G.n
  m : G'.m = G.m
  pred : G'.pred = G.pred
  succ : G'.succ = G.succ
  stillDag : G'.stillDag = G.stillDag
  edgeset : ∀ p, p ∈ G'.edgeset ↔ p ∈ G.edgeset

theorem Same.edges {G G' : DiG} (h : Same G G') : G'.edges = G.edges := by
  simp only [DiG.edges, h.n, h.succ]

theorem same_of_inv {G G' : DiG} (h : Inv G) (h' : Inv G') (hn : G'.n = G.n)
    (he : ∀ p, p ∈ G'.edgeset ↔ p ∈ G.edgeset) : Same G G' := by
  refine ⟨hn, ?_, ?_, ?_, ?_, he⟩
  · rw [← h.count, ← h'.count]
    exact ((List.perm_ext_iff_of_nodup h'.nodup h.nodup).2 he).length_eq
  · have r' : Rep G'.pred G.n (fun v u => (u, v) ∈ G.edgeset) := by
      have := h'.predRep; rw [hn] at this
      exact this.congr (fun v u => he (u, v))
    exact r'.unique h.predRep
  · have r' : Rep G'.succ G.n (fun u v => (u, v) ∈ G.edgeset) := by
      have := h'.succRep; rw [hn] at this
      exact this.congr (fun u v => he (u, v))
    exact r'.unique h.succRep
  · rw [Bool.eq_iff_iff, h.dag, h'.dag]
    constructor
    · intro hh e hm; exact hh e ((he e).2 hm)
    · intro hh e hm; exact hh e ((he e).1 hm)

end DiG

namespace BipG

theorem addEdge_ok {G G' : BipG} {u v : Int} (h : Inv G) (e : G.addEdge u v = .ok G') :
    Valid G.l G.r u v ∧ Inv G' ∧ G'.l = G.l ∧ G'.r = G.r ∧
      ∀ p, p ∈ G'.edgeset ↔ (p ∈ G.edgeset ∨ p = (u.toNat, v.toNat)) := by
  refine ⟨?_, inv_addEdge h e, (addEdge_lr e).1, (addEdge_lr e).2, ?_⟩
  · rcases addEdge_cases G u v with ⟨_, h1⟩ | ⟨hv, _, _⟩ | ⟨hv, _, _⟩
    · rw [h1] at e; cases e
    · exact hv
    · exact hv
  · intro p
    rcases addEdge_cases G u v with ⟨_, h1⟩ | ⟨_, hc, h1⟩ | ⟨hv, hc, h1⟩
    · rw [h1] at e; cases e
    · rw [h1] at e; cases e
      constructor
      · exact Or.inl
      · rintro (hp | rfl)
        · exact hp
        · exact hc
    · rw [h1] at e; cases e
      simp only [insertNew, List.mem_cons]
      constructor
      · rintro (hp | hp)
        · exact Or.inr hp
        · exact Or.inl hp
      · rintro (hp | hp)
        · exact Or.inr hp
        · exact Or.inl hp

theorem addEdge_err {G : BipG} {u v : Int} {x : Err} (e : G.addEdge u v = .error x) : x = .valueError := by
  rcases addEdge_cases G u v with ⟨_, h1⟩ | ⟨_, _, h1⟩ | ⟨_, _, h1⟩ <;> rw [h1] at e <;> cases e
  rfl

theorem addEdge_valid {G : BipG} {u v : Int} (hv : Valid G.l G.r u v) : ∃ G', G.addEdge u v = .ok G' := by
  rcases addEdge_cases G u v with ⟨hn, _⟩ | ⟨_, _, h1⟩ | ⟨_, _, h1⟩
  · exact absurd hv hn
  · exact ⟨_, h1⟩
  · exact ⟨_, h1⟩

structure Same (G G' : BipG) : Prop where
  l : G'.l = G.l
  r : G'.r = G.r
  ladj : G'.ladj = G.ladj
  radj : G'.radj = G.radj
  card : G'.edgeset.length = G.edgeset.length
  edgeset : ∀ p, p ∈ G'.edgeset ↔ p ∈ G.edgeset

theorem Same.edges {G G' : BipG} (h : Same G G') : G'.edges = G.edges := by
  simp only [BipG.edges, BipG.rnbrs, h.l, h.ladj]

theorem same_of_inv {G G' : BipG} (h : Inv G) (h' : Inv G') (hl : G'.l = G.l) (hr : G'.r = G.r)
    (he : ∀ p, p ∈ G'.edgeset ↔ p ∈ G.edgeset) : Same G G' := by
  refine ⟨hl, hr, ?_, ?_, ?_, he⟩
  · have r' : Rep G'.ladj G.l (fun u v => (u, v) ∈ G.edgeset) := by
      have := h'.lRep; rw [hl] at this
      exact this.congr (fun u v => he (u, v))
    exact r'.unique h.lRep
  · have r' : Rep G'.radj G.r (fun v u => (u, v) ∈ G.edgeset) := by
      have := h'.rRep; rw [hr] at this
      exact this.congr (fun v u => he (u, v))
    exact r'.unique h.rRep
  · exact ((List.perm_ext_iff_of_nodup h'.nodup h.nodup).2 he).length_eq

end BipG

/-! ### the two non-bipartite classes as instances of `GSem` -/

def simpleSem : GSem simpleClass where
  Inv := SimpleG.Inv
  E := (·.edgeset)
  Valid := SimpleG.Valid
  contrib := fun u v p => p = (u.toNat, v.toNat) ∨ p = (v.toNat, u.toNat)
  init_inv := SimpleG.inv_init
  init_E := fun _ => rfl
  init_order := fun _ => rfl
  add_ok := fun h e => SimpleG.addEdge_ok h e
  add_err := fun e => SimpleG.addEdge_err e
  add_valid := fun hv => SimpleG.addEdge_valid hv

def diSem : GSem diClass where
  Inv := DiG.Inv
  E := (·.edgeset)
  Valid := DiG.Valid
  contrib := fun u v p => p = (u.toNat, v.toNat)
  init_inv := DiG.inv_init
  init_E := fun _ => rfl
  init_order := fun _ => rfl
  add_ok := fun h e => DiG.addEdge_ok h e
  add_err := fun e => DiG.addEdge_err e
  add_valid := fun hv => DiG.addEdge_valid hv

/-! ### folds of `add_edge` -/
namespace GSem
variable {γ : Type} {C : GClass γ} (S : GSem C)

/-- `for e in es: G.add_edge(e)` -/
def addAll (C : GClass γ) (G : γ) (es : List (Int × Int)) : Except Err γ :=
  es.foldlM (fun g e => C.addEdge g e.1 e.2) G

theorem addAll_nil (G : γ) : addAll C G [] = .ok G := rfl

theorem addAll_cons (G : γ) (e : Int × Int) (es : List (Int × Int)) :
    addAll C G (e :: es) = match C.addEdge G e.1 e.2 with
      | .ok G' => addAll C G' es
      | .error x => .error x := by
  simp only [addAll, List.foldlM_cons]
  cases C.addEdge G e.1 e.2 <;> rfl

theorem addAll_append (G : γ) (es fs : List (Int × Int)) :
    addAll C G (es ++ fs) = match addAll C G es with
      | .ok G' => addAll C G' fs
      | .error x => .error x := by
  induction es generalizing G with
  | nil => rfl
  | cons e es ih =>
    simp only [List.cons_append, addAll_cons]
    cases C.addEdge G e.1 e.2 with
    | error x => rfl
    | ok G' => exact ih G'

theorem addAll_ok {G G' : γ} (h : S.Inv G) {es : List (Int × Int)} (e : addAll C G es = .ok G') :
    (∀ x ∈ es, S.Valid (C.order G) x.1 x.2) ∧ S.Inv G' ∧ C.order G' = C.order G ∧
      ∀ p, p ∈ S.E G' ↔ (p ∈ S.E G ∨ ∃ x ∈ es, S.contrib x.1 x.2 p) := by
  induction es generalizing G with
  | nil => cases e; simp [h]
  | cons a es ih =>
    rw [addAll_cons] at e
    cases ha : C.addEdge G a.1 a.2 with
    | error x => rw [ha] at e; cases e
    | ok G₁ =>
      rw [ha] at e
      obtain ⟨hv, hi, ho, hm⟩ := S.add_ok h ha
      obtain ⟨hv', hi', ho', hm'⟩ := ih hi e
      refine ⟨?_, hi', by rw [ho', ho], ?_⟩
      · intro x hx
        rcases List.mem_cons.1 hx with rfl | hx
        · exact hv
        · rw [← ho]; exact hv' x hx
      · intro p
        rw [hm', hm]
        simp only [List.mem_cons, exists_eq_or_imp, or_assoc]

theorem addAll_valid {G : γ} (h : S.Inv G) {es : List (Int × Int)}
    (hv : ∀ x ∈ es, S.Valid (C.order G) x.1 x.2) : ∃ G', addAll C G es = .ok G' := by
  induction es generalizing G with
  | nil => exact ⟨G, rfl⟩
  | cons a es ih =>
    obtain ⟨G₁, ha⟩ := S.add_valid (hv a (List.mem_cons_self ..))
    obtain ⟨_, hi, ho, _⟩ := S.add_ok h ha
    obtain ⟨G', hG'⟩ := ih hi (fun x hx => by rw [ho]; exact hv x (List.mem_cons_of_mem _ hx))
    exact ⟨G', by rw [addAll_cons, ha]; exact hG'⟩

include S in
theorem addAll_err {G : γ} {es : List (Int × Int)} {x : Err} (e : addAll C G es = .error x) :
    x = .valueError := by
  induction es generalizing G with
  | nil => cases e
  | cons a es ih =>
    rw [addAll_cons] at e
    cases ha : C.addEdge G a.1 a.2 with
    | error y => rw [ha] at e; cases e; exact S.add_err ha
    | ok G₁ => rw [ha] at e; exact ih e

end GSem
end Cnfgen
