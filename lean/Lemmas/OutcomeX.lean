/-
Lemmas for Props/C18/AllTokens.lean: the abstract check of CnfgenModel/Cli/OutcomeX.lean is sound — in every namespace
of a world, a path `callOK` accepts raises a shielded exception or makes a call `evalCallX` answers on.
-/
import CnfgenModel.Cli.OutcomeX
import Lemmas.ArgparseWorlds
namespace Cnfgen.Cli
open Cnfgen Cnfgen.Gen Cnfgen.GCli Cnfgen.GRand Cnfgen.Cli.AP

/-! ### `arunG`: the helper's method with any check of the path taken -/

theorem arunG_sound (ord : List String → Nat) (w : World) (ns : Ns) (hw : gamW w ns)
    (ok : World → CallTemplate → Bool) (P : CallTemplate → Prop)
    (hok : ∀ w' t, gamW w' ns → ok w' t = true → P t) :
    ∀ (ts : List CallTemplate) (fs : Facts), Cons ord ns fs → arunG ok w ts fs = true →
      ∃ t ∈ ts, selectTemplate ns (ts.map (fixTemplate ord ns)) = .ok (fixTemplate ord ns t) ∧ P t := by
  intro ts
  induction ts with
  | nil => intro fs _ h; simp [arunG] at h
  | cons t rest ih =>
    intro fs hc h
    unfold arunG at h
    cases hg : aguard w t.guard fs with
    | none => simp [hg] at h
    | some outs =>
      rw [hg] at h
      dsimp only at h
      obtain ⟨o, ho, hv, hco⟩ := aguard_sound ord w ns hw t.guard fs outs hc hg
      have hall := (List.all_eq_true.1 h) o ho
      have hgfix : (fixTemplate ord ns t).guard = fixOrder ord ns t.guard := rfl
      cases ho1 : o.1 with
      | true =>
        rw [ho1] at hall hv
        simp only [if_true] at hall
        refine ⟨t, List.mem_cons_self .., ?_, hok (refine w o.2) t (refine_sound ord ns o.2 w hw hco) hall⟩
        simp [selectTemplate, hgfix, hv]
      | false =>
        rw [ho1] at hall hv
        simp only [Bool.false_eq_true, if_false] at hall
        obtain ⟨t', hm, hsel, hP⟩ := ih o.2 hco hall
        refine ⟨t', List.mem_cons_of_mem _ hm, ?_, hP⟩
        simp [selectTemplate, hgfix, hv, hsel]

/-! ### the kind of the graphs in the namespace -/

/-- a graph bound under `d` has the kind of an option that stores under `d` -/
def GKq (s : CliSpec) (q : String × Val) : Prop :=
  ∀ k t, q.2 = .graph k t → ∃ o ∈ s.opts ++ phpInner.poss, o.dest = q.1 ∧ graphKind o.action = some k

def GKns (s : CliSpec) (ns : Ns) : Prop := ∀ d v, ns.lookup d = some v → GKq s (d, v)

theorem destKind_of (s : CliSpec) (d k k' : String) (t : List String) (h : destKind s d k = true)
    (hq : GKq s (d, .graph k' t)) : k' = k := by
  obtain ⟨o, ho, hd, hk⟩ := hq k' t rfl
  unfold destKind at h
  have := (List.all_eq_true.1 h) o (List.mem_filter.2 ⟨ho, by simp [hd]⟩)
  rw [hk] at this
  simpa using this

/-! ### sorts -/

def PSort.holds : PSort → Val → Prop
  | .graph k, v => ∃ t, v = .graph k t
  | .int, v => ∃ i, v = .int i
  | .bool, v => ∃ b, v = .bool b
  | .intNone, v => v = .none ∨ ∃ i, v = .int i
  | .anyv, _ => True
  | .opq, v => ∃ src, v = .opaque src

def holdsL : List PSort → List Val → Prop
  | [], [] => True
  | p :: ps, v :: vs => p.holds v ∧ holdsL ps vs
  | _, _ => False

theorem isBoolAV_gam (a : AV) (v : Val) (h : isBoolAV (some a) = true) (hg : gam a v) : ∃ b, v = .bool b := by
  cases a <;> simp [isBoolAV] at h
  · exact ⟨true, hg⟩
  · exact ⟨false, hg⟩
  · exact hg

theorem isGraphAV_gam (a : AV) (v : Val) (h : isGraphAV (some a) = true) (hg : gam a v) : ∃ k t, v = .graph k t := by
  cases a <;> simp [isGraphAV] at h
  · obtain ⟨k, c, r, hv, _⟩ := hg; exact ⟨k, c :: r, hv⟩
  · exact hg

theorem isStar_false (e : Expr) (h : isStar e = false) : ∀ x, e ≠ .star x := by
  intro x hx; subst hx; simp [isStar] at h

/-- the value at a position that `sortOK` accepts -/
theorem sortOK_sound (ord : List String → Nat) (s : CliSpec) (w : World) (ns : Ns) (hw : gamW w ns)
    (hk : GKns s ns) (e : Expr) (p : PSort) (h : sortOK s w e p = true) :
    (∀ x, e ≠ .star x) ∧ ∃ v, evalE ns (fixOrder ord ns e) = some v ∧ p.holds v := by
  cases p with
  | graph k =>
    cases e <;> simp only [sortOK, Bool.false_eq_true] at h
    · rename_i d
      simp only [Bool.and_eq_true] at h
      refine ⟨fun x hx => (by cases hx), ?_⟩
      cases hl : w.lookup d with
      | none => rw [hl] at h; simp [isGraphAV] at h
      | some a =>
        rw [hl] at h
        obtain ⟨v, hv, hg⟩ := gamW_some w ns hw d a hl
        obtain ⟨k', t, rfl⟩ := isGraphAV_gam a v h.1 hg
        have := destKind_of s d k k' t h.2 (hk d _ hv)
        subst this
        exact ⟨_, by simp [fixOrder, evalE, hv], t, rfl⟩
    · rename_i k' sp
      simp only [Bool.and_eq_true, beq_iff_eq] at h
      obtain ⟨rfl, h2⟩ := h
      refine ⟨fun x hx => (by cases hx), ?_⟩
      cases ha : aval w (.mkgraph k' sp) with
      | none => rw [ha] at h2; simp [isGraphAV] at h2
      | some a =>
        rw [ha] at h2
        obtain ⟨v, hv, hg⟩ := aval_sound ord w ns hw _ a ha
        obtain ⟨k'', t, rfl⟩ := isGraphAV_gam a v h2 hg
        refine ⟨_, hv, ?_⟩
        simp only [fixOrder, evalE] at hv
        split at hv
        · simp at hv; exact ⟨_, by rw [← hv.1, ← hv.2]⟩
        · simp at hv
        · simp at hv
  | int =>
    simp only [sortOK, Bool.and_eq_true, Bool.not_eq_true'] at h
    refine ⟨isStar_false e h.1, ?_⟩
    cases ha : aval w e with
    | none => rw [ha] at h; simp at h
    | some a =>
      rw [ha] at h
      obtain ⟨v, hv, hg⟩ := aval_sound ord w ns hw _ a ha
      exact ⟨v, hv, isIntLike_val a v h.2 hg⟩
  | bool =>
    simp only [sortOK, Bool.and_eq_true, Bool.not_eq_true'] at h
    refine ⟨isStar_false e h.1, ?_⟩
    cases ha : aval w e with
    | none => rw [ha] at h; simp [isBoolAV] at h
    | some a =>
      rw [ha] at h
      obtain ⟨v, hv, hg⟩ := aval_sound ord w ns hw _ a ha
      exact ⟨v, hv, isBoolAV_gam a v h.2 hg⟩
  | intNone =>
    simp only [sortOK, Bool.and_eq_true, Bool.not_eq_true'] at h
    refine ⟨isStar_false e h.1, ?_⟩
    cases ha : aval w e with
    | none => rw [ha] at h; simp at h
    | some a =>
      rw [ha] at h
      obtain ⟨v, hv, hg⟩ := aval_sound ord w ns hw _ a ha
      exact ⟨v, hv, isIntNone_val a v h.2 hg⟩
  | anyv =>
    simp only [sortOK, Bool.and_eq_true, Bool.not_eq_true'] at h
    refine ⟨isStar_false e h.1, ?_⟩
    cases ha : aval w e with
    | none => rw [ha] at h; simp at h
    | some a =>
      obtain ⟨v, hv, _⟩ := aval_sound ord w ns hw _ a ha
      exact ⟨v, hv, trivial⟩
  | opq =>
    simp only [sortOK, Bool.and_eq_true, Bool.not_eq_true', beq_iff_eq] at h
    refine ⟨isStar_false e h.1, ?_⟩
    obtain ⟨v, hv, hg⟩ := aval_sound ord w ns hw _ .opq h.2
    exact ⟨v, hv, hg⟩

theorem posSorts_sound (ord : List String → Nat) (s : CliSpec) (w : World) (ns : Ns) (hw : gamW w ns)
    (hk : GKns s ns) : ∀ (es : List Expr) (ps : List PSort), posSortsOK s w es ps = true →
      ∃ vs, evalPos ns (es.map (fixOrder ord ns)) = some vs ∧ holdsL ps vs := by
  intro es
  induction es with
  | nil =>
    intro ps h
    cases ps with
    | nil => exact ⟨[], rfl, trivial⟩
    | cons p ps => simp [posSortsOK] at h
  | cons e rest ih =>
    intro ps h
    cases ps with
    | nil => simp [posSortsOK] at h
    | cons p ps =>
      simp only [posSortsOK, Bool.and_eq_true] at h
      obtain ⟨vs, hvs, hh⟩ := ih ps h.2
      obtain ⟨hns, v, hv, hp⟩ := sortOK_sound ord s w ns hw hk e p h.1
      refine ⟨v :: vs, ?_, hp, hh⟩
      simp only [List.map_cons, evalPos, hv, hvs]
      have hfs : ∀ x, fixOrder ord ns e ≠ .star x := by
        intro x hx
        obtain ⟨e', he'⟩ := fixOrder_star ord ns e x hx
        exact hns e' he'
      generalize fixOrder ord ns e = fe at hfs ⊢
      cases fe <;> first | rfl | exact absurd rfl (hfs _)

/-- the keyword arguments: every one has a value, and a boolean one is a boolean -/
theorem evalKw_lookup (ord : List String → Nat) (w : World) (ns : Ns) (hw : gamW w ns) :
    ∀ (kw : List (String × Expr)), kw.all (fun p => (aval w p.2).isSome) = true →
      ∃ vs, evalKw ns (kw.map (fun p => (p.1, fixOrder ord ns p.2))) = some vs ∧
        ∀ k e, kw.lookup k = some e → isBoolAV (aval w e) = true → ∃ b, vs.lookup k = some (.bool b) := by
  intro kw
  induction kw with
  | nil => intro _; exact ⟨[], rfl, fun k e h => by simp at h⟩
  | cons p rest ih =>
    intro h
    obtain ⟨k0, e0⟩ := p
    simp only [List.all_cons, Bool.and_eq_true] at h
    obtain ⟨vs, hvs, hl⟩ := ih h.2
    cases ha : aval w e0 with
    | none => rw [ha] at h; simp at h
    | some a =>
      obtain ⟨v, hv, hg⟩ := aval_sound ord w ns hw e0 a ha
      refine ⟨(k0, v) :: vs, by simp only [List.map_cons, evalKw, hv, hvs], ?_⟩
      intro k e hke hb
      simp only [List.lookup] at hke ⊢
      by_cases hkk : (k == k0) = true
      · simp only [hkk] at hke ⊢
        simp at hke; subst hke
        rw [ha] at hb
        obtain ⟨b, rfl⟩ := isBoolAV_gam a v hb hg
        exact ⟨b, rfl⟩
      · have hkk' : (k == k0) = false := by simpa using hkk
        simp only [hkk'] at hke ⊢
        exact hl k e hke hb

end Cnfgen.Cli
