/-
Lemmas for Props/C18/AllTokens.lean: the abstract check of CnfgenModel/Cli/OutcomeX.lean is sound — in every namespace
of a world, a path `callOK` accepts raises a shielded exception or makes a call `evalCallX` answers on.
-/
import CnfgenModel.Cli.OutcomeX
import Lemmas.ArgparseWorlds
namespace Cnfgen.Cli
open Cnfgen Cnfgen.Gen Cnfgen.GCli Cnfgen.GRand Cnfgen.Cli.AP

/-! ### `arunG`: the helper's method with any check of the path taken -/

theorem arunG_sound (ord : List String → Nat) (w : World) (ns : Ns) (hw : gamW w ns)
    (ok : World → CallTemplate → Bool) (P : CallTemplate → Prop)
    (hok : ∀ w' t, gamW w' ns → ok w' t = true → P t) :
    ∀ (ts : List CallTemplate) (fs : Facts), Cons ord ns fs → arunG ok w ts fs = true →
      ∃ t ∈ ts, selectTemplate ns (ts.map (fixTemplate ord ns)) = .ok (fixTemplate ord ns t) ∧ P t := by
  intro ts
  induction ts with
  | nil => intro fs _ h; simp [arunG] at h
  | cons t rest ih =>
    intro fs hc h
    unfold arunG at h
    cases hg : aguard w t.guard fs with
    | none => simp [hg] at h
    | some outs =>
      rw [hg] at h
      dsimp only at h
      obtain ⟨o, ho, hv, hco⟩ := aguard_sound ord w ns hw t.guard fs outs hc hg
      have hall := (List.all_eq_true.1 h) o ho
      have hgfix : (fixTemplate ord ns t).guard = fixOrder ord ns t.guard := rfl
      cases ho1 : o.1 with
      | true =>
        rw [ho1] at hall hv
        simp only [if_true] at hall
        refine ⟨t, List.mem_cons_self .., ?_, hok (refine w o.2) t (refine_sound ord ns o.2 w hw hco) hall⟩
        simp [selectTemplate, hgfix, hv]
      | false =>
        rw [ho1] at hall hv
        simp only [Bool.false_eq_true, if_false] at hall
        obtain ⟨t', hm, hsel, hP⟩ := ih o.2 hco hall
        refine ⟨t', List.mem_cons_of_mem _ hm, ?_, hP⟩
        simp [selectTemplate, hgfix, hv, hsel]

/-! ### the kind of the graphs in the namespace -/

/-- a graph bound under `d` has the kind of an option that stores under `d` -/
def GKq (s : CliSpec) (q : String × Val) : Prop :=
  ∀ k t, q.2 = .graph k t → ∃ o ∈ s.opts ++ phpInner.poss, o.dest = q.1 ∧ graphKind o.action = some k

def GKns (s : CliSpec) (ns : Ns) : Prop := ∀ d v, ns.lookup d = some v → GKq s (d, v)

theorem destKind_of (s : CliSpec) (d k k' : String) (t : List String) (h : destKind s d k = true)
    (hq : GKq s (d, .graph k' t)) : k' = k := by
  obtain ⟨o, ho, hd, hk⟩ := hq k' t rfl
  unfold destKind at h
  have := (List.all_eq_true.1 h) o (List.mem_filter.2 ⟨ho, by simp [hd]⟩)
  rw [hk] at this
  simpa using this

/-! ### sorts -/

def PSort.holds : PSort → Val → Prop
  | .graph k, v => ∃ t, v = .graph k t
  | .int, v => ∃ i, v = .int i
  | .bool, v => ∃ b, v = .bool b
  | .intNone, v => v = .none ∨ ∃ i, v = .int i
  | .anyv, _ => True
  | .opq, v => ∃ src, v = .opaque src

def holdsL : List PSort → List Val → Prop
  | [], [] => True
  | p :: ps, v :: vs => p.holds v ∧ holdsL ps vs
  | _, _ => False

theorem isBoolAV_gam (a : AV) (v : Val) (h : isBoolAV (some a) = true) (hg : gam a v) : ∃ b, v = .bool b := by
  cases a <;> simp [isBoolAV] at h
  · exact ⟨true, hg⟩
  · exact ⟨false, hg⟩
  · exact hg

theorem isGraphAV_gam (a : AV) (v : Val) (h : isGraphAV (some a) = true) (hg : gam a v) : ∃ k t, v = .graph k t := by
  cases a <;> simp [isGraphAV] at h
  · obtain ⟨k, c, r, hv, _⟩ := hg; exact ⟨k, c :: r, hv⟩
  · exact hg

theorem isStar_false (e : Expr) (h : isStar e = false) : ∀ x, e ≠ .star x := by
  intro x hx; subst hx; simp [isStar] at h

/-- the value at a position that `sortOK` accepts -/
theorem sortOK_sound (ord : List String → Nat) (s : CliSpec) (w : World) (ns : Ns) (hw : gamW w ns)
    (hk : GKns s ns) (e : Expr) (p : PSort) (h : sortOK s w e p = true) :
    (∀ x, e ≠ .star x) ∧ ∃ v, evalE ns (fixOrder ord ns e) = some v ∧ p.holds v := by
  cases p with
  | graph k =>
    cases e <;> simp only [sortOK, Bool.false_eq_true] at h
    · rename_i d
      simp only [Bool.and_eq_true] at h
      refine ⟨fun x hx => (by cases hx), ?_⟩
      cases hl : w.lookup d with
      | none => rw [hl] at h; simp [isGraphAV] at h
      | some a =>
        rw [hl] at h
        obtain ⟨v, hv, hg⟩ := gamW_some w ns hw d a hl
        obtain ⟨k', t, rfl⟩ := isGraphAV_gam a v h.1 hg
        have := destKind_of s d k k' t h.2 (hk d _ hv)
        subst this
        exact ⟨_, by simp [fixOrder, evalE, hv], t, rfl⟩
    · rename_i k' sp
      simp only [Bool.and_eq_true, beq_iff_eq] at h
      obtain ⟨rfl, h2⟩ := h
      refine ⟨fun x hx => (by cases hx), ?_⟩
      cases ha : aval w (.mkgraph k' sp) with
      | none => rw [ha] at h2; simp [isGraphAV] at h2
      | some a =>
        rw [ha] at h2
        obtain ⟨v, hv, hg⟩ := aval_sound ord w ns hw _ a ha
        obtain ⟨k'', t, rfl⟩ := isGraphAV_gam a v h2 hg
        refine ⟨_, hv, ?_⟩
        simp only [fixOrder, evalE] at hv
        split at hv
        · simp at hv; exact ⟨_, by rw [← hv.1, ← hv.2]⟩
        · simp at hv
        · simp at hv
  | int =>
    simp only [sortOK, Bool.and_eq_true, Bool.not_eq_true'] at h
    refine ⟨isStar_false e h.1, ?_⟩
    cases ha : aval w e with
    | none => rw [ha] at h; simp at h
    | some a =>
      rw [ha] at h
      obtain ⟨v, hv, hg⟩ := aval_sound ord w ns hw _ a ha
      exact ⟨v, hv, isIntLike_val a v h.2 hg⟩
  | bool =>
    simp only [sortOK, Bool.and_eq_true, Bool.not_eq_true'] at h
    refine ⟨isStar_false e h.1, ?_⟩
    cases ha : aval w e with
    | none => rw [ha] at h; simp [isBoolAV] at h
    | some a =>
      rw [ha] at h
      obtain ⟨v, hv, hg⟩ := aval_sound ord w ns hw _ a ha
      exact ⟨v, hv, isBoolAV_gam a v h.2 hg⟩
  | intNone =>
    simp only [sortOK, Bool.and_eq_true, Bool.not_eq_true'] at h
    refine ⟨isStar_false e h.1, ?_⟩
    cases ha : aval w e with
    | none => rw [ha] at h; simp at h
    | some a =>
      rw [ha] at h
      obtain ⟨v, hv, hg⟩ := aval_sound ord w ns hw _ a ha
      exact ⟨v, hv, isIntNone_val a v h.2 hg⟩
  | anyv =>
    simp only [sortOK, Bool.and_eq_true, Bool.not_eq_true'] at h
    refine ⟨isStar_false e h.1, ?_⟩
    cases ha : aval w e with
    | none => rw [ha] at h; simp at h
    | some a =>
      obtain ⟨v, hv, _⟩ := aval_sound ord w ns hw _ a ha
      exact ⟨v, hv, trivial⟩
  | opq =>
    simp only [sortOK, Bool.and_eq_true, Bool.not_eq_true', beq_iff_eq] at h
    refine ⟨isStar_false e h.1, ?_⟩
    obtain ⟨v, hv, hg⟩ := aval_sound ord w ns hw _ .opq h.2
    exact ⟨v, hv, hg⟩

theorem posSorts_sound (ord : List String → Nat) (s : CliSpec) (w : World) (ns : Ns) (hw : gamW w ns)
    (hk : GKns s ns) : ∀ (es : List Expr) (ps : List PSort), posSortsOK s w es ps = true →
      ∃ vs, evalPos ns (es.map (fixOrder ord ns)) = some vs ∧ holdsL ps vs := by
  intro es
  induction es with
  | nil =>
    intro ps h
    cases ps with
    | nil => exact ⟨[], rfl, trivial⟩
    | cons p ps => simp [posSortsOK] at h
  | cons e rest ih =>
    intro ps h
    cases ps with
    | nil => simp [posSortsOK] at h
    | cons p ps =>
      simp only [posSortsOK, Bool.and_eq_true] at h
      obtain ⟨vs, hvs, hh⟩ := ih ps h.2
      obtain ⟨hns, v, hv, hp⟩ := sortOK_sound ord s w ns hw hk e p h.1
      refine ⟨v :: vs, ?_, hp, hh⟩
      simp only [List.map_cons, evalPos, hv, hvs]
      have hfs : ∀ x, fixOrder ord ns e ≠ .star x := by
        intro x hx
        obtain ⟨e', he'⟩ := fixOrder_star ord ns e x hx
        exact hns e' he'
      generalize fixOrder ord ns e = fe at hfs ⊢
      cases fe <;> first | rfl | exact absurd rfl (hfs _)

/-- the keyword arguments: every one has a value, and a boolean one is a boolean -/
theorem evalKw_lookup (ord : List String → Nat) (w : World) (ns : Ns) (hw : gamW w ns) :
    ∀ (kw : List (String × Expr)), kw.all (fun p => (aval w p.2).isSome) = true →
      ∃ vs, evalKw ns (kw.map (fun p => (p.1, fixOrder ord ns p.2))) = some vs ∧
        ∀ k e, kw.lookup k = some e → isBoolAV (aval w e) = true → ∃ b, vs.lookup k = some (.bool b) := by
  intro kw
  induction kw with
  | nil => intro _; exact ⟨[], rfl, fun k e h => by simp at h⟩
  | cons p rest ih =>
    intro h
    obtain ⟨k0, e0⟩ := p
    simp only [List.all_cons, Bool.and_eq_true] at h
    obtain ⟨vs, hvs, hl⟩ := ih h.2
    cases ha : aval w e0 with
    | none => rw [ha] at h; simp at h
    | some a =>
      obtain ⟨v, hv, hg⟩ := aval_sound ord w ns hw e0 a ha
      refine ⟨(k0, v) :: vs, by simp only [List.map_cons, evalKw, hv, hvs], ?_⟩
      intro k e hke hb
      simp only [List.lookup] at hke ⊢
      by_cases hkk : (k == k0) = true
      · simp only [hkk] at hke ⊢
        simp at hke; subst hke
        rw [ha] at hb
        obtain ⟨b, rfl⟩ := isBoolAV_gam a v hb hg
        exact ⟨b, rfl⟩
      · have hkk' : (k == k0) = false := by simpa using hkk
        simp only [hkk'] at hke ⊢
        exact hl k e hke hb

/-! ### a call that matches a signature is mapped -/

theorem evalCallX_isSome_of_any (re : RandEnv) (env : GraphEnv) (g : SimpleG) (ns : Ns) (c : Call)
    (h : (evalCallAny env g ns c).isSome = true) : (evalCallX re env g ns c).isSome = true := by
  unfold evalCallX
  cases ha : evalCallAny env g ns c with
  | none => rw [ha] at h; simp at h
  | some b => rfl

theorem evalCallX_isSome_of_R (re : RandEnv) (env : GraphEnv) (g : SimpleG) (ns : Ns) (c : Call)
    (h : (evalCallR re env ns c).isSome = true) : (evalCallX re env g ns c).isSome = true := by
  unfold evalCallX
  cases ha : evalCallAny env g ns c with
  | none => exact h
  | some b => rfl

theorem kwBool_of_lookup (c : Call) (k : String) (b : Bool) (h : c.kw.lookup k = some (.bool b)) :
    kwBool c k = some b := by
  unfold kwBool; rw [h]

theorem sig_mapped (re : RandEnv) (env : GraphEnv) (g : SimpleG) (ns : Ns) (sg : Sig) (hsg : sg ∈ sigs) (c : Call)
    (hfn : c.fn = sg.fn) (hpos : holdsL sg.pos c.pos)
    (hkw : ∀ k ∈ sg.kws, ∃ b, c.kw.lookup k = some (.bool b))
    (hints : ∀ d ∈ sg.ints, ∃ i, ns.lookup d = some (.int i)) :
    (evalCallX re env g ns c).isSome = true := by
  obtain ⟨fn, pos, kw⟩ := c
  simp only [sigs, List.mem_cons, List.not_mem_nil, or_false] at hsg
  rcases hsg with rfl | rfl | rfl | rfl | rfl | rfl | rfl
  · -- GraphOrderingPrinciple
    dsimp only at hfn hpos; subst hfn
    match pos, hpos with
    | [_, _, _, _, _], ⟨⟨t, rfl⟩, ⟨b1, rfl⟩, ⟨b2, rfl⟩, ⟨b3, rfl⟩, hk, _⟩ =>
      apply evalCallX_isSome_of_any
      rcases hk with rfl | ⟨i, rfl⟩ <;>
        simp [evalCallAny, evalCallG, gHandlers, List.lookup, gGraphOrdering, knuthOf]
  · -- OrderingPrinciple
    dsimp only at hfn hpos; subst hfn
    match pos, hpos with
    | [_, _, _, _, _], ⟨⟨n, rfl⟩, ⟨b1, rfl⟩, ⟨b2, rfl⟩, ⟨b3, rfl⟩, hk, _⟩ =>
      apply evalCallX_isSome_of_any
      rcases hk with rfl | ⟨i, rfl⟩ <;>
        simp [evalCallAny, evalCallG, gHandlers, List.lookup, evalCallF]
  · -- TseitinFormula
    dsimp only at hfn hpos; subst hfn
    match pos, hpos with
    | [_, _], ⟨⟨t, rfl⟩, _, _⟩ =>
      apply evalCallX_isSome_of_R
      simp [evalCallR]
  · -- GraphPigeonholePrinciple(B)
    dsimp only at hfn hpos hkw; subst hfn
    obtain ⟨f, hf⟩ := hkw "functional" (by simp)
    obtain ⟨o, ho⟩ := hkw "onto" (by simp)
    match pos, hpos with
    | [_], ⟨⟨t, rfl⟩, _⟩ =>
      apply evalCallX_isSome_of_any
      simp [evalCallAny, evalCallG, gHandlers, List.lookup, gGraphPhp, kwBool, hf, ho]
  · -- GraphPigeonholePrinciple(bipartite_random_left_regular(…))
    dsimp only at hfn hpos hkw hints; subst hfn
    obtain ⟨f, hf⟩ := hkw "functional" (by simp)
    obtain ⟨o, ho⟩ := hkw "onto" (by simp)
    obtain ⟨p, hp⟩ := hints "pigeons" (by simp)
    obtain ⟨h, hh⟩ := hints "holes" (by simp)
    obtain ⟨d, hd⟩ := hints "degree" (by simp)
    match pos, hpos with
    | [_], ⟨⟨src, rfl⟩, _⟩ =>
      apply evalCallX_isSome_of_R
      simp [evalCallR, kwBool, hf, ho, hp, hh, hd]
  · -- PigeonholePrinciple
    dsimp only at hfn hpos hkw; subst hfn
    obtain ⟨f, hf⟩ := hkw "functional" (by simp)
    obtain ⟨o, ho⟩ := hkw "onto" (by simp)
    match pos, hpos with
    | [_, _], ⟨⟨m, rfl⟩, ⟨n, rfl⟩, _⟩ =>
      apply evalCallX_isSome_of_any
      simp [evalCallAny, evalCallG, gHandlers, List.lookup, evalCallF, kwBool, hf, ho]
  · -- SubsetCardinalityFormula
    dsimp only at hfn hpos; subst hfn
    match pos, hpos with
    | [_, _], ⟨⟨t, rfl⟩, ⟨b, rfl⟩, _⟩ =>
      apply evalCallX_isSome_of_R
      simp [evalCallR]

/-- what a path that `callOK` accepts does: a shielded exception, or a call `evalCallX` answers on -/
def PathOK (re : RandEnv) (env : GraphEnv) (g : SimpleG) (ord : List String → Nat) (ns : Ns) (t : CallTemplate) : Prop :=
  instantiate ns (fixTemplate ord ns t) = .error .cliError ∨
  ∃ c, instantiate ns (fixTemplate ord ns t) = .ok c ∧ (evalCallX re env g ns c).isSome = true

theorem callOK_sound (re : RandEnv) (env : GraphEnv) (g : SimpleG) (ord : List String → Nat) (s : CliSpec)
    (ns : Ns) (hk : GKns s ns) (w : World) (t : CallTemplate) (hw : gamW w ns) (h : callOK s w t = true) :
    PathOK re env g ord ns t := by
  unfold callOK at h
  unfold PathOK instantiate fixTemplate
  dsimp only
  by_cases hr : (t.raises != "") = true
  · simp only [hr, if_true] at h ⊢
    left; simp [h]
  · have hr' : (t.raises != "") = false := by simpa using hr
    simp only [hr', Bool.false_eq_true, if_false] at h ⊢
    obtain ⟨sg, hsg, hok⟩ := List.any_eq_true.1 h
    unfold sigOK at hok
    simp only [Bool.and_eq_true, beq_iff_eq] at hok
    obtain ⟨⟨⟨⟨hfn, hpos⟩, hkwall⟩, hkws⟩, hints⟩ := hok
    have hfne : (t.fn == "") = false := by
      rw [← hfn]
      simp only [sigs, List.mem_cons, List.not_mem_nil, or_false] at hsg
      rcases hsg with rfl | rfl | rfl | rfl | rfl | rfl | rfl <;> decide
    simp only [hfne, Bool.false_eq_true, if_false]
    obtain ⟨vs, hvs, hh⟩ := posSorts_sound ord s w ns hw hk t.pos sg.pos hpos
    obtain ⟨ks, hks, hkl⟩ := evalKw_lookup ord w ns hw t.kw hkwall
    right
    rw [hvs, hks]
    refine ⟨_, rfl, sig_mapped re env g ns sg hsg _ hfn.symm hh ?_ ?_⟩
    · intro k hkm
      have := (List.all_eq_true.1 hkws) k hkm
      cases hl : t.kw.lookup k with
      | none => rw [hl] at this; simp at this
      | some e => rw [hl] at this; exact hkl k e hl this
    · intro d hd
      have := (List.all_eq_true.1 hints) d hd
      cases hl : w.lookup d with
      | none => rw [hl] at this; simp at this
      | some a =>
        rw [hl] at this
        obtain ⟨v, hv, hg⟩ := gamW_some w ns hw d a hl
        obtain ⟨i, rfl⟩ := isIntLike_val a v this hg
        exact ⟨i, hv⟩

/-! ### the graphs of the namespace have the kind of their option (an engine invariant) -/

theorem constVal_not_graph (e : Expr) (k : String) (t : List String) : constVal e ≠ .graph k t := by
  cases e <;> simp [constVal]

theorem flagVal_not_graph (o : OptSpec) (k : String) (t : List String) : o.flagVal ≠ .graph k t := by
  unfold OptSpec.flagVal
  split
  · simp
  · split
    · simp
    · exact constVal_not_graph _ _ _

theorem defaultVal_not_graph (o : OptSpec) (k : String) (t : List String) : o.defaultVal ≠ .graph k t := by
  unfold OptSpec.defaultVal
  split
  · exact constVal_not_graph _ _ _
  · split
    · simp
    · split <;> simp

/-- the binding of a sub-parser's positional: a graph has the kind of the positional's action -/
theorem bindBase_kind (s : CliSpec) (o : OptSpec) (hm : o ∈ s.opts ++ phpInner.poss) (h : subOptOK o = true)
    (toks : List String) (b : Ns) (hb : bindBase o toks = .ok b) : ∀ q ∈ b, GKq s q := by
  obtain ⟨h1, h2, h3⟩ := subOptOK_parts o h
  by_cases har : o.arity = .plus
  · unfold bindBase at hb
    simp only [h3, Bool.false_eq_true, if_false, har] at hb
    split at hb
    · simp at *
    · split at hb
      · rename_i k hk
        simp at hb; subst hb
        intro q hq; simp at hq; subst hq
        intro k' t hv
        simp at hv
        exact ⟨o, hm, rfl, by rw [hk, hv.1]⟩
      · simp at hb
    · have hbo := liftE_ok _ _ hb
      unfold bindOne at hbo
      simp only [h1, h2, Bool.false_eq_true, if_false, har] at hbo
      split at hbo
      · simp at hbo; subst hbo
        intro q hq; simp at hq; subst hq
        intro k' t hv
        simp at hv
        refine ⟨o, hm, rfl, ?_⟩
        rw [← hv.1]; assumption
      · simp at hbo
  · obtain ⟨v, rfl, hv⟩ := bindBase_sub o h toks b hb
    intro q hq; simp at hq; subst hq
    intro k t hvk
    dsimp only at hvk
    subst hvk
    exfalso
    rcases hv with hv | ⟨hv, _⟩
    · unfold subOptOK at h
      simp only [Bool.and_eq_true] at h
      have hk := h.2
      unfold subAV at hv
      cases ha : o.arity with
      | plus => exact har ha
      | one =>
        rw [ha] at hv hk
        dsimp only at hv hk
        split at hv
        · simp [gam] at hv
        · split at hv
          · simp [gam] at hv
          · rename_i h4 h5
            simp only [Bool.or_eq_true, bne_iff_ne, ne_eq, Bool.not_eq_true'] at hk
            rcases hk with hk | hk
            · simp [hk] at h4
            · simp [hk] at h5
      | opt =>
        rw [ha] at hv hk
        dsimp only at hv hk
        split at hv
        · split at hv
          · simp [gam] at hv
          · simp [gam] at hv
          · rename_i h5 h6
            simp only [Bool.and_eq_true] at hk
            have := hk.2
            simp at this
        · rename_i h4
          simp only [Bool.and_eq_true, bne_iff_ne, ne_eq] at hk
          simp [hk.1] at h4
      | zero => rw [ha] at hk; simp at hk
      | star => rw [ha] at hk; simp at hk
      | other => rw [ha] at hk; simp at hk
    · cases hv

/-- a sub-parser's run keeps the invariant -/
theorem subEngine_kind (s : CliSpec) (subps : List OptSpec) (hmem : ∀ o ∈ subps, o ∈ s.opts ++ phpInner.poss)
    (hok : ∀ o ∈ subps, subOptOK o = true) (toks : List String) (b : Ns)
    (h : engine bindBase ⟨[], subps⟩ toks = .ok b) : ∀ q ∈ b, GKq s q := by
  have hK : EngInv bindBase (fun _ => False) (fun o => o ∈ subps) (fun _ ns => ∀ q ∈ ns, GKq s q) := by
    refine ⟨fun o toks b' ps ns hf _ _ => absurd hf id, ?_⟩
    intro o toks' b' ps ns ho hb hk q hq
    rcases List.mem_append.1 hq with hq | hq
    · exact bindBase_kind s o (hmem o ho) (hok o ho) toks' b' hb q hq
    · exact hk q hq
  exact engine_inv hK ⟨[], subps⟩ (by intro o ho; simp at ho) (by intro o ho; simp at ho) (fun o ho => ho)
    toks b (by intro q hq; simp at hq) h

theorem phpArgs_kind (s : CliSpec) (toks : List String) (b : Ns) (h : phpArgs toks = .ok b) : ∀ q ∈ b, GKq s q := by
  have hB : ∀ tk, GKq s ("B", Val.graph "bipartite" tk) := by
    intro tk k t hv
    simp at hv
    refine ⟨phpInner.poss.head (by simp [phpInner]), List.mem_append_right _ (by simp [phpInner]), by simp [phpInner], ?_⟩
    rw [← hv.1]; decide
  unfold phpArgs at h
  repeat' split at h
  all_goals first
    | (simp at h; done)
    | (simp at h; subst h; intro q hq; simp at hq; subst hq; exact hB _)
    | (simp at h; subst h; intro q hq; simp at hq
       rcases hq with rfl | rfl | rfl <;> (intro k t hv; simp at hv))

/-- what the custom action of `php` / a composed sub-command binds keeps the invariant -/
theorem special_kind (s : CliSpec) (htab : worldTablesOK s = true) (sp : OptSpec) (hsp : specialOpts s = [sp])
    (toks : List String) (b : Ns) (hb : mainBind s sp toks = .ok b) : ∀ q ∈ b, GKq s q := by
  unfold worldTablesOK at htab
  simp only [Bool.and_eq_true] at htab
  obtain ⟨_, h7⟩ := htab
  have hspm : sp ∈ specialOpts s := by rw [hsp]; simp
  by_cases hphp : (s.cls == "PHPCmdHelper") = true
  · simp only [hphp, if_true] at h7
    have hact : sp.action = "PHPArgs" := by simpa using (List.all_eq_true.1 h7) sp hspm
    unfold mainBind at hb
    simp only [hact, beq_self_eq_true, if_true] at hb
    unfold phpArgsX at hb
    cases toks with
    | nil => simp at hb
    | cons t r =>
      dsimp only at hb
      split at hb
      · exact subEngine_kind s phpInner.poss (fun o ho => List.mem_append_right _ ho)
          (fun o ho => (phpInner_facts o ho).1) (t :: r) b (by simpa [phpInner] using hb)
      · exact phpArgs_kind s (t :: r) b (liftE_ok _ _ hb)
  · have hphp' : (s.cls == "PHPCmdHelper") = false := by simpa using hphp
    simp only [hphp', Bool.false_eq_true, if_false] at h7
    have := (List.all_eq_true.1 h7) sp hspm
    simp only [Bool.and_eq_true, beq_iff_eq, List.all_eq_true, decide_eq_true_eq] at this
    obtain ⟨⟨⟨hact, hlen⟩, hsub⟩, _⟩ := this
    unfold mainBind at hb
    have hnp : (sp.action == "PHPArgs") = false := by rw [hact]; decide
    simp only [hnp, Bool.false_eq_true, if_false] at hb
    simp only [hact, beq_self_eq_true, if_true] at hb
    unfold composeX at hb
    split at hb
    · rename_i p1 p2 t r hc
      have hp : (if pyFloatOk t = true then p1 else p2) ∈ sp.compose := by
        rw [hc]; split <;> simp
      have := hsub _ hp
      exact subEngine_kind s _ (fun o ho => List.mem_append_left _ (by
          unfold subPositionals at ho; exact (List.mem_filter.1 ho).1))
        (fun o ho => this.1 o ho) _ b hb
    · simp at hb
    · simp at hb

/-- THE KIND INVARIANT: after the extended parser of `php` / a composed sub-command, every graph of the namespace has
the kind of an option that stores under its dest -/
theorem parseX_kind (s : CliSpec) (htab : worldTablesOK s = true) (sp : OptSpec) (ht : WorldTables s sp)
    (argv : List String) (b : Ns) (hp : parseX s argv = .ok b) : GKns s (namespaceOf s b) := by
  have hK : EngInv (mainBind s) (fun o => o ∈ flagOpts s) (fun o => o = sp)
      (fun _ ns => ∀ q ∈ ns, GKq s q) := by
    refine ⟨?_, ?_⟩
    · intro o toks b' ps ns ho hb hk q hq
      have hb' := flag_bind s sp ht o ho toks b' hb
      subst hb'
      rcases List.mem_append.1 hq with hq | hq
      · simp at hq; subst hq
        intro k t hv
        exact absurd hv (flagVal_not_graph o k t)
      · exact hk q hq
    · intro o toks b' ps ns ho hb hk q hq
      subst ho
      rcases List.mem_append.1 hq with hq | hq
      · exact special_kind s htab o ht.hsp toks b' hb q hq
      · exact hk q hq
  have hopts : ∀ o ∈ (mainSpec s).opts, o ∈ flagOpts s := by
    intro o ho
    unfold mainSpec at ho
    simp only [List.mem_filter, Bool.not_eq_true'] at ho
    unfold flagOpts
    refine List.mem_filter.2 ⟨ho.1, ?_⟩
    by_cases hsp' : isSpecial o = true
    · exfalso
      have : o ∈ specialOpts s := List.mem_filter.2 ⟨ho.1, hsp'⟩
      rw [ht.hsp] at this
      simp at this
      subst this
      have hpos : o ∈ positionals s := by rw [ht.hpos]; simp
      unfold positionals at hpos
      have := (List.mem_filter.1 hpos).2
      rw [ho.2] at this
      simp at this
    · simpa using hsp'
  have hb := engine_inv hK (mainSpec s)
    (fun o ho => Or.inl (ht.hflag o (hopts o ho)).1) hopts
    (fun o ho => by
      have : (mainSpec s).poss = positionals s := rfl
      rw [this, ht.hpos] at ho
      simpa using ho)
    argv b (by intro q hq; simp at hq) hp
  intro d v hl
  unfold namespaceOf at hl
  rw [List.lookup_append] at hl
  cases hbl : b.lookup d with
  | some v' =>
    rw [hbl] at hl
    simp at hl; subst hl
    exact hb _ (dtot_lookup_mem b d v' hbl)
  | none =>
    rw [hbl] at hl
    simp only [Option.none_or] at hl
    have hm := dtot_lookup_mem _ d v hl
    unfold defaults at hm
    obtain ⟨o, _, ho⟩ := List.mem_map.1 hm
    simp at ho
    intro k t hv
    dsimp only at hv
    rw [← ho.2] at hv
    exact absurd hv (defaultVal_not_graph o k t)

end Cnfgen.Cli
