/-
Lemmas on the Python-order iterators used by the Ramsey-type families:
`rangeN`, `combos` (membership = sublists of the given length, no repetition, sizes).
-/
import CnfgenModel.Core.Iter
import Mathlib.Data.List.Basic
import Mathlib.Data.List.Nodup
import Mathlib.Tactic.Ring
namespace Cnfgen.FamIter
open Cnfgen

theorem mem_rangeN {a b x : Nat} : x ∈ rangeN a b ↔ a ≤ x ∧ x < b := by
  simp only [rangeN, List.mem_map, List.mem_range]
  constructor
  · rintro ⟨i, hi, rfl⟩; omega
  · rintro ⟨h1, h2⟩; exact ⟨x - a, by omega, by omega⟩

theorem rangeN_pairwise (a b : Nat) : (rangeN a b).Pairwise (· < ·) := by
  simp only [rangeN, List.pairwise_map]
  exact (List.pairwise_lt_range (n := b - a)).imp (by intro x y h; omega)

theorem rangeN_nodup (a b : Nat) : (rangeN a b).Nodup :=
  (rangeN_pairwise a b).imp (by intro x y h; omega)

theorem length_rangeN (a b : Nat) : (rangeN a b).length = b - a := by simp [rangeN]

/-- a strictly increasing list whose elements all occur in a strictly increasing list is a sublist of it -/
theorem sublist_of_sorted_subset : ∀ {L S : List Nat}, S.Pairwise (· < ·) → L.Pairwise (· < ·) → S ⊆ L → S.Sublist L
  | [], S, _, _, hsub => by
      have : S = [] := List.eq_nil_iff_forall_not_mem.2 (fun x hx => by simpa using hsub hx)
      subst this; exact List.Sublist.slnil
  | a :: L', [], _, _, _ => List.nil_sublist _
  | a :: L', b :: S', hS, hL, hsub => by
      have hb : b ∈ a :: L' := hsub (by simp)
      rw [List.pairwise_cons] at hS hL
      by_cases hba : b = a
      · subst hba
        have hsub' : S' ⊆ L' := by
          intro x hx
          have := hsub (List.mem_cons_of_mem _ hx)
          rcases List.mem_cons.1 this with h | h
          · have := hS.1 x hx; omega
          · exact h
        exact (sublist_of_sorted_subset hS.2 hL.2 hsub').cons_cons _
      · have hbL : b ∈ L' := by
          rcases List.mem_cons.1 hb with h | h
          · exact absurd h hba
          · exact h
        have hab : a < b := hL.1 b hbL
        have hsub' : (b :: S') ⊆ L' := by
          intro x hx
          have hx' := hsub hx
          rcases List.mem_cons.1 hx' with h | h
          · rcases List.mem_cons.1 hx with h2 | h2
            · omega
            · have := hS.1 x h2; omega
          · exact h
        exact (sublist_of_sorted_subset (List.pairwise_cons.2 hS) hL.2 hsub').cons _

theorem sublist_iff_of_sorted {L S : List Nat} (hL : L.Pairwise (· < ·)) :
    S.Sublist L ↔ S.Pairwise (· < ·) ∧ ∀ x ∈ S, x ∈ L :=
  ⟨fun h => ⟨hL.sublist h, fun _ hx => h.subset hx⟩, fun h => sublist_of_sorted_subset h.1 hL h.2⟩

theorem pair_sublist_iff {S : List Nat} (hS : S.Pairwise (· < ·)) (u v : Nat) :
    [u, v].Sublist S ↔ u ∈ S ∧ v ∈ S ∧ u < v := by
  rw [sublist_iff_of_sorted hS]
  simp only [List.pairwise_cons, List.mem_cons, List.not_mem_nil, or_false, forall_eq_or_imp, forall_eq,
    List.Pairwise.nil, and_true, IsEmpty.forall_iff, implies_true]
  tauto

/-! ### `combos` -/

theorem mem_combos {α : Type} : ∀ {l : List α} {k : Nat} {c : List α},
    c ∈ combos l k ↔ c.Sublist l ∧ c.length = k
  | l, 0, c => by
      cases l <;> simp [combos, List.length_eq_zero_iff] <;> (rintro rfl; simp)
  | [], k + 1, c => by
      simp only [combos, List.not_mem_nil, List.sublist_nil, false_iff, not_and]
      rintro rfl; simp
  | x :: xs, k + 1, c => by
      simp only [combos, List.mem_append, List.mem_map, List.sublist_cons_iff]
      rw [mem_combos (l := xs) (k := k + 1)]
      constructor
      · rintro (⟨c', hc', rfl⟩ | ⟨h1, h2⟩)
        · rw [mem_combos] at hc'
          exact ⟨Or.inr ⟨c', rfl, hc'.1⟩, by simp [hc'.2]⟩
        · exact ⟨Or.inl h1, h2⟩
      · rintro ⟨h1 | ⟨r, rfl, hr⟩, h2⟩
        · exact Or.inr ⟨h1, h2⟩
        · exact Or.inl ⟨r, mem_combos.2 ⟨hr, by simpa using h2⟩, rfl⟩

theorem combos_nodup {α : Type} : ∀ {l : List α} (k : Nat), l.Nodup → (combos l k).Nodup
  | l, 0, _ => by cases l <;> simp [combos]
  | [], k + 1, _ => by simp [combos]
  | x :: xs, k + 1, h => by
      rw [List.nodup_cons] at h
      simp only [combos]
      rw [List.nodup_append]
      refine ⟨(combos_nodup k h.2).map (fun a b hab => by simpa using hab), combos_nodup (k + 1) h.2, ?_⟩
      intro a ha b hb hab
      subst hab
      simp only [List.mem_map] at ha
      obtain ⟨c', _, rfl⟩ := ha
      have := (mem_combos.1 hb).1.subset (List.mem_cons_self)
      exact h.1 this

theorem length_combos_one {α : Type} : ∀ (l : List α), (combos l 1).length = l.length
  | [] => by simp [combos]
  | x :: xs => by
      simp [combos, length_combos_one xs]

theorem two_mul_length_combos_two {α : Type} : ∀ (l : List α), 2 * (combos l 2).length = l.length * (l.length - 1)
  | [] => by simp [combos]
  | x :: xs => by
      simp only [combos, List.length_append, List.length_map, length_combos_one, List.length_cons,
        Nat.add_sub_cancel]
      have ih := two_mul_length_combos_two xs
      rw [Nat.mul_add, ih]
      cases h : xs.length with
      | zero => simp
      | succ n => simp only [Nat.add_sub_cancel]; ring

end Cnfgen.FamIter
