/-
The model count of the Tseitin formula: a satisfiable instance has exactly `2^(|E| - |V| + c)`
models over the edge variables `1..|E|`, `c` the number of connected components.

Route (no linear-algebra library, two applications of `xorHom_card`):

* the boundary map `bdry : (edge variables → Bool) → (vertices → Bool)`, `x ↦ (parity of the true
  edges at v)_v`, is xor-linear; the models for a charge vector `χ` are the fibre `bdry⁻¹ χ`, and
  a non-empty fibre is a translate of the kernel (`x ↦ x xor x₀`): `2^|E| = |ker| · |im bdry|`;
* `im bdry` = the charge vectors with an even number of odd vertices in every component — this is
  the satisfiability criterion already proved (`tseitin_parity`, `tseitin_converse`) — i.e. the
  kernel of the xor-linear map `compPar : (vertices → Bool) → (representatives → Bool)`, which is
  onto: `2^|V| = |im bdry| · 2^c`;
* hence `|ker| · 2^|V| = 2^(|E| + c)`.

Components: `rep G v` is the least vertex reachable from `v` (reachability = the relation
`Relation.ReflTransGen (Step G)` used by the converse of the criterion); `components G` is the
number of `v ∈ 1..n` with `rep G v = v`.
-/
import Lemmas.FamTseitinConv
import Lemmas.FamTseitinCountGen
import Mathlib.Algebra.BigOperators.Group.Finset.Lemmas
import Mathlib.Data.Fintype.Sets
namespace Cnfgen
namespace Fam

variable {G : SimpleG}

/-! ### reachability, canonical representatives, number of components -/

/-- `b` can be reached from `a` along edges of `G` -/
def Reach (G : SimpleG) (a b : Nat) : Prop := Relation.ReflTransGen (Step G) a b

theorem step_symm (hG : GoodGraph G) {a b : Nat} (h : Step G a b) : Step G b a :=
  ⟨(hG.mem h.1 h.2).2.1, hG.symm h.1 h.2⟩

theorem reach_refl (a : Nat) : Reach G a a := Relation.ReflTransGen.refl

theorem reach_trans {a b c : Nat} (h1 : Reach G a b) (h2 : Reach G b c) : Reach G a c :=
  Relation.ReflTransGen.trans h1 h2

theorem reach_symm (hG : GoodGraph G) {a b : Nat} (h : Reach G a b) : Reach G b a := by
  induction h with
  | refl => exact reach_refl _
  | tail _ hs ih => exact Relation.ReflTransGen.head (step_symm hG hs) ih

theorem reach_adj {v u : Nat} (hv : v ≤ G.n) (hu : u ∈ G.nbrs v) : Reach G v u :=
  Relation.ReflTransGen.single ⟨hv, hu⟩

/-- a vertex set closed under adjacency (the form used in `tseitin_parity` / `tseitin_converse`)
is closed under reachability -/
theorem closed_reach (C : Nat → Bool) (hC : ∀ v u, C v = true → u ∈ G.nbrs v → C u = true)
    {a b : Nat} (h : Reach G a b) (ha : C a = true) : C b = true := by
  induction h with
  | refl => exact ha
  | tail _ hs ih => exact hC _ _ ih hs.2

open Classical in
/-- the canonical representative of the component of `v`: the least vertex reachable from `v` -/
noncomputable def rep (G : SimpleG) (v : Nat) : Nat :=
  Nat.find (⟨v, reach_refl v⟩ : ∃ u, Reach G v u)

theorem rep_reach (v : Nat) : Reach G v (rep G v) := by
  classical exact Nat.find_spec (⟨v, reach_refl v⟩ : ∃ u, Reach G v u)

theorem rep_le {v u : Nat} (h : Reach G v u) : rep G v ≤ u := by
  classical exact Nat.find_min' (⟨v, reach_refl v⟩ : ∃ u, Reach G v u) h

theorem rep_congr (hG : GoodGraph G) {u v : Nat} (h : Reach G u v) : rep G u = rep G v := by
  apply Nat.le_antisymm
  · exact rep_le (reach_trans h (rep_reach v))
  · exact rep_le (reach_trans (reach_symm hG h) (rep_reach u))

theorem rep_idem (hG : GoodGraph G) (v : Nat) : rep G (rep G v) = rep G v :=
  (rep_congr hG (rep_reach v)).symm

theorem rep_range (hG : GoodGraph G) {v : Nat} (hv : 1 ≤ v ∧ v ≤ G.n) :
    1 ≤ rep G v ∧ rep G v ≤ G.n :=
  reach_range hG hv (rep_reach v)

/-- the representatives: the vertices that are the least of their component -/
noncomputable def reps (G : SimpleG) : Finset Nat := (Finset.Icc 1 G.n).filter (fun v => rep G v = v)

/-- the number of connected components of `G` (vertices `1..n`) -/
noncomputable def components (G : SimpleG) : Nat := (reps G).card

theorem mem_reps {r : Nat} : r ∈ reps G ↔ (1 ≤ r ∧ r ≤ G.n) ∧ rep G r = r := by
  simp [reps]

/-- a representative is a vertex below which nothing is reachable -/
theorem mem_reps_iff_min {r : Nat} :
    r ∈ reps G ↔ (1 ≤ r ∧ r ≤ G.n) ∧ ∀ u, Reach G r u → r ≤ u := by
  rw [mem_reps]
  constructor
  · rintro ⟨hr, he⟩
    exact ⟨hr, fun u hu => by have := rep_le hu; omega⟩
  · rintro ⟨hr, hm⟩
    exact ⟨hr, Nat.le_antisymm (rep_le (reach_refl r)) (hm _ (rep_reach r))⟩

theorem rep_mem_reps (hG : GoodGraph G) {v : Nat} (hv : 1 ≤ v ∧ v ≤ G.n) : rep G v ∈ reps G :=
  mem_reps.2 ⟨rep_range hG hv, rep_idem hG v⟩

theorem components_le (G : SimpleG) : components G ≤ G.n := by
  unfold components reps
  calc _ ≤ (Finset.Icc 1 G.n).card := Finset.card_filter_le _ _
    _ = G.n := by simp

/-- the component of `r`, as a vertex set closed under adjacency -/
noncomputable def compSet (G : SimpleG) (r : Nat) : Nat → Bool :=
  fun v => decide (v ≤ G.n ∧ rep G v = r)

theorem compSet_closed (hG : GoodGraph G) (r : Nat) :
    ∀ v u, compSet G r v = true → u ∈ G.nbrs v → compSet G r u = true := by
  intro v u hv hu
  simp only [compSet, decide_eq_true_eq] at hv ⊢
  exact ⟨(hG.mem hv.1 hu).2.1, by rw [← rep_congr hG (reach_adj hv.1 hu)]; exact hv.2⟩

/-- the component of a representative consists of the vertices reachable from it -/
theorem compSet_iff_reach (hG : GoodGraph G) {r : Nat} (hr : r ∈ reps G) (v : Nat) :
    compSet G r v = true ↔ Reach G r v := by
  have hr' := mem_reps.1 hr
  simp only [compSet, decide_eq_true_eq]
  constructor
  · rintro ⟨_, hv⟩
    have := rep_reach (G := G) v
    rw [hv] at this
    exact reach_symm hG this
  · intro h
    exact ⟨(reach_range hG hr'.1 h).2, by rw [← rep_congr hG h]; exact hr'.2⟩

/-! ### the vector spaces -/

/-- the edge variables `1..|E|` -/
abbrev EdgeIdx (G : SimpleG) := {e // e ∈ Finset.Icc 1 G.m}
/-- the vertices `1..n` -/
abbrev VertIdx (G : SimpleG) := {v // v ∈ Finset.Icc 1 G.n}
/-- the representatives of the components -/
abbrev RepIdx (G : SimpleG) := {r // r ∈ reps G}
/-- assignments to the edge variables `1..|E|` -/
abbrev EdgeVec (G : SimpleG) := EdgeIdx G → Bool
/-- charge vectors on the vertices `1..n` -/
abbrev VertVec (G : SimpleG) := VertIdx G → Bool
/-- one bit per component -/
abbrev RepVec (G : SimpleG) := RepIdx G → Bool

/-- extension of an assignment of the edge variables by `false` -/
def extE (G : SimpleG) (x : EdgeVec G) : Assign :=
  fun i => if h : i ∈ Finset.Icc 1 G.m then x ⟨i, h⟩ else false

/-- restriction of an assignment to the edge variables -/
def resE (G : SimpleG) (α : Assign) : EdgeVec G := fun e => α e.1

def extV (G : SimpleG) (χ : VertVec G) : Nat → Bool :=
  fun v => if h : v ∈ Finset.Icc 1 G.n then χ ⟨v, h⟩ else false

theorem card_edgeIdx (G : SimpleG) : Fintype.card (EdgeIdx G) = G.m := by
  rw [Fintype.card_coe]; simp

theorem card_vertIdx (G : SimpleG) : Fintype.card (VertIdx G) = G.n := by
  rw [Fintype.card_coe]; simp

theorem card_repIdx (G : SimpleG) : Fintype.card (RepIdx G) = components G := by
  rw [Fintype.card_coe]; rfl

theorem resE_extE (x : EdgeVec G) : resE G (extE G x) = x := by
  funext ⟨e, he⟩
  simp [resE, extE, he]

theorem extE_resE (α : Assign) {i : Nat} (hi : i ∈ Finset.Icc 1 G.m) : extE G (resE G α) i = α i := by
  simp [resE, extE, hi]

theorem extE_bxor (x y : EdgeVec G) (i : Nat) :
    extE G (bxor x y) i = (extE G x i != extE G y i) := by
  unfold extE
  split <;> simp [bxor]

theorem extV_bxor (x y : VertVec G) (i : Nat) :
    extV G (bxor x y) i = (extV G x i != extV G y i) := by
  unfold extV
  split <;> simp [bxor]

/-! ### the boundary map -/

/-- `bdry x v` = parity of the number of true edge variables at `v` -/
def bdry (G : SimpleG) (x : EdgeVec G) : VertVec G :=
  fun v => decide (vcount G (extE G x) v.1 % 2 = 1)

theorem vcount_bxor (x y : EdgeVec G) (v : Nat) :
    vcount G (extE G (bxor x y)) v % 2 = (vcount G (extE G x) v + vcount G (extE G y) v) % 2 := by
  unfold vcount
  rw [← countP_bxor_mod2]
  congr 2
  funext u
  exact extE_bxor x y _

theorem bdry_hom (G : SimpleG) : XorHom (bdry G) := by
  intro x y
  funext v
  show decide (vcount G (extE G (bxor x y)) v.1 % 2 = 1) =
    (decide (vcount G (extE G x) v.1 % 2 = 1) != decide (vcount G (extE G y) v.1 % 2 = 1))
  rw [vcount_bxor]
  rcases Nat.mod_two_eq_zero_or_one (vcount G (extE G x) v.1) with h0 | h0 <;>
  rcases Nat.mod_two_eq_zero_or_one (vcount G (extE G y) v.1) with h1 | h1 <;>
  simp [h0, h1] <;> omega

/-- the charge vector of the formula -/
def chV (G : SimpleG) (ch : Option (List Bool)) : VertVec G := fun v => chargeAt G.n ch v.1

/-- an explicit charge list for a charge vector -/
def chOfV (G : SimpleG) (χ : VertVec G) : Option (List Bool) :=
  some ((List.range G.n).map (fun i => extV G χ (i + 1)))

theorem chargeAt_chOfV (χ : VertVec G) {v : Nat} (hv : 1 ≤ v ∧ v ≤ G.n) :
    chargeAt G.n (chOfV G χ) v = extV G χ v := by
  unfold chOfV
  rw [chargeAt_some]
  have : v - 1 < G.n := by omega
  simp [List.getD_eq_getElem?_getD, this, Nat.sub_add_cancel hv.1]

theorem chV_chOfV (χ : VertVec G) : chV G (chOfV G χ) = χ := by
  funext ⟨v, hv⟩
  have hv' : 1 ≤ v ∧ v ≤ G.n := Finset.mem_Icc.1 hv
  simp only [chV]
  rw [chargeAt_chOfV χ hv']
  simp [extV, hv]

/-- the models of the formula are a fibre of the boundary map -/
theorem spec_iff_bdry (ch : Option (List Bool)) (x : EdgeVec G) :
    TseitinSpec G ch (extE G x) ↔ bdry G x = chV G ch := by
  unfold TseitinSpec
  constructor
  · intro h
    funext ⟨v, hv⟩
    have hv' : 1 ≤ v ∧ v ≤ G.n := Finset.mem_Icc.1 hv
    have := h v hv'.1 hv'.2
    change vcount G (extE G x) v % 2 = _ at this
    show decide (vcount G (extE G x) v % 2 = 1) = chargeAt G.n ch v
    rw [this]
    cases chargeAt G.n ch v <;> simp
  · intro h v h1 h2
    have := congrFun h ⟨v, Finset.mem_Icc.2 ⟨h1, h2⟩⟩
    change decide (vcount G (extE G x) v % 2 = 1) = chargeAt G.n ch v at this
    show vcount G (extE G x) v % 2 = _
    rw [← this]
    rcases Nat.mod_two_eq_zero_or_one (vcount G (extE G x) v) with h0 | h0 <;> simp [h0]

theorem vcount_resE (hG : GoodGraph G) (α : Assign) {v : Nat} (hv : v ≤ G.n) :
    vcount G (extE G (resE G α)) v = vcount G α v := by
  unfold vcount
  apply List.countP_congr
  intro u hu
  have hb := edgeId_bounds hG 1 hv hu
  rw [edgeId_comm] at hb
  have : edgeId G 1 u v ∈ Finset.Icc 1 G.m := by
    rw [Finset.mem_Icc, hG.2.1]; omega
  rw [extE_resE α this]

/-- the formula only looks at the edge variables -/
theorem spec_resE (hG : GoodGraph G) (ch : Option (List Bool)) (α : Assign) :
    TseitinSpec G ch (extE G (resE G α)) ↔ TseitinSpec G ch α := by
  unfold TseitinSpec
  constructor
  · intro h v h1 h2
    have := h v h1 h2
    change vcount G _ v % 2 = _ at this
    rw [vcount_resE hG α h2] at this
    exact this
  · intro h v h1 h2
    change vcount G _ v % 2 = _
    rw [vcount_resE hG α h2]
    exact h v h1 h2

/-! ### the component-parity map -/

/-- number of odd-charged vertices in the component with representative `r` -/
noncomputable def compCnt (G : SimpleG) (χ : VertVec G) (r : Nat) : Nat :=
  ((Finset.Icc 1 G.n).filter (fun v => rep G v = r ∧ extV G χ v = true)).card

/-- `compPar χ r` = parity of the number of odd-charged vertices in the component of `r` -/
noncomputable def compPar (G : SimpleG) (χ : VertVec G) : RepVec G :=
  fun r => decide (compCnt G χ r.1 % 2 = 1)

theorem card_filter_bxor_mod2 {ι : Type} [DecidableEq ι] (s : Finset ι) (c : ι → Prop)
    [DecidablePred c] (p q : ι → Bool) :
    (s.filter (fun v => c v ∧ (p v != q v) = true)).card % 2 =
      ((s.filter (fun v => c v ∧ p v = true)).card +
        (s.filter (fun v => c v ∧ q v = true)).card) % 2 := by
  rw [Finset.card_filter, Finset.card_filter, Finset.card_filter, ← Finset.sum_add_distrib]
  rw [Finset.sum_nat_mod, Finset.sum_nat_mod (f := fun i =>
    (if c i ∧ p i = true then 1 else 0) + (if c i ∧ q i = true then 1 else 0))]
  congr 1
  apply Finset.sum_congr rfl
  intro v _
  by_cases hc : c v <;> cases p v <;> cases q v <;> simp [hc]

theorem compCnt_bxor (x y : VertVec G) (r : Nat) :
    compCnt G (bxor x y) r % 2 = (compCnt G x r + compCnt G y r) % 2 := by
  unfold compCnt
  rw [← card_filter_bxor_mod2]
  congr 2
  apply Finset.filter_congr
  intro v _
  rw [extV_bxor]

theorem compPar_hom (G : SimpleG) : XorHom (compPar G) := by
  intro x y
  funext r
  show decide (compCnt G (bxor x y) r.1 % 2 = 1) =
    (decide (compCnt G x r.1 % 2 = 1) != decide (compCnt G y r.1 % 2 = 1))
  rw [compCnt_bxor]
  rcases Nat.mod_two_eq_zero_or_one (compCnt G x r.1) with h0 | h0 <;>
  rcases Nat.mod_two_eq_zero_or_one (compCnt G y r.1) with h1 | h1 <;>
  simp [h0, h1] <;> omega

/-! ### image of the boundary map = kernel of the component-parity map -/

/-- handshake: the boundary of an edge vector has an even number of odd vertices in every
component (this is `tseitin_parity` on the component) -/
theorem compPar_bdry (hG : GoodGraph G) (x : EdgeVec G) : compPar G (bdry G x) = bzero := by
  funext r
  have hspec : TseitinSpec G (chOfV G (bdry G x)) (extE G x) :=
    (spec_iff_bdry _ x).2 (chV_chOfV _).symm
  have hev := tseitin_parity G hG _ (extE G x) hspec (compSet G r.1) (compSet_closed hG r.1)
  have hset : (Finset.Icc 1 G.n).filter
        (fun v => compSet G r.1 v = true ∧ chargeAt G.n (chOfV G (bdry G x)) v = true) =
      (Finset.Icc 1 G.n).filter (fun v => rep G v = r.1 ∧ extV G (bdry G x) v = true) := by
    apply Finset.filter_congr
    intro v hv
    have hv' : 1 ≤ v ∧ v ≤ G.n := Finset.mem_Icc.1 hv
    rw [chargeAt_chOfV _ hv']
    simp [compSet, hv'.2]
  rw [hset, Nat.even_iff] at hev
  show decide (compCnt G (bdry G x) r.1 % 2 = 1) = false
  unfold compCnt
  simp [hev]

/-- a closed vertex set is a union of components: if every component has an even number of odd
vertices, so has every closed set -/
theorem even_closed_of_compPar (hG : GoodGraph G) (χ : VertVec G) (h : compPar G χ = bzero)
    (C : Nat → Bool) (hC : ∀ v u, C v = true → u ∈ G.nbrs v → C u = true) :
    Even ((Finset.Icc 1 G.n).filter (fun v => C v = true ∧ extV G χ v = true)).card := by
  have hmap : ∀ v ∈ (Finset.Icc 1 G.n).filter (fun v => C v = true ∧ extV G χ v = true),
      rep G v ∈ reps G :=
    fun v hv => rep_mem_reps hG (Finset.mem_Icc.1 (Finset.mem_filter.1 hv).1)
  rw [Finset.card_eq_sum_card_fiberwise hmap]
  apply Finset.even_sum
  intro b hb
  by_cases hCb : C b = true
  · have hs : ((Finset.Icc 1 G.n).filter (fun v => C v = true ∧ extV G χ v = true)).filter
          (fun a => rep G a = b) =
        (Finset.Icc 1 G.n).filter (fun v => rep G v = b ∧ extV G χ v = true) := by
      ext v
      simp only [Finset.mem_filter]
      constructor
      · rintro ⟨⟨hv, _, hχ⟩, hr⟩; exact ⟨hv, hr, hχ⟩
      · rintro ⟨hv, hr, hχ⟩
        refine ⟨⟨hv, ?_, hχ⟩, hr⟩
        exact closed_reach C hC (reach_symm hG (hr ▸ rep_reach v)) hCb
    rw [hs]
    have hb' := congrFun h ⟨b, hb⟩
    change decide (compCnt G χ b % 2 = 1) = false at hb'
    unfold compCnt at hb'
    rw [Nat.even_iff]
    simp at hb'
    omega
  · have hs : ((Finset.Icc 1 G.n).filter (fun v => C v = true ∧ extV G χ v = true)).filter
          (fun a => rep G a = b) = ∅ := by
      apply Finset.filter_eq_empty_iff.2
      intro v hv hr
      exact hCb (hr ▸ closed_reach C hC (rep_reach v) (Finset.mem_filter.1 hv).2.1)
    rw [hs]
    simp

/-- the charge vectors for which the formula is satisfiable are exactly those with an even number
of odd vertices in every component -/
theorem mem_image_bdry (hG : GoodGraph G) (χ : VertVec G) :
    χ ∈ Finset.univ.image (bdry G) ↔ compPar G χ = bzero := by
  constructor
  · intro h
    obtain ⟨x, _, rfl⟩ := Finset.mem_image.1 h
    exact compPar_bdry hG x
  · intro h
    have hev : ∀ C : Nat → Bool, (∀ v u, C v = true → u ∈ G.nbrs v → C u = true) →
        Even ((Finset.Icc 1 G.n).filter
          (fun v => C v = true ∧ chargeAt G.n (chOfV G χ) v = true)).card := by
      intro C hC
      have h1 := even_closed_of_compPar hG χ h C hC
      have hset : (Finset.Icc 1 G.n).filter
            (fun v => C v = true ∧ chargeAt G.n (chOfV G χ) v = true) =
          (Finset.Icc 1 G.n).filter (fun v => C v = true ∧ extV G χ v = true) := by
        apply Finset.filter_congr
        intro v hv
        rw [chargeAt_chOfV _ (Finset.mem_Icc.1 hv)]
      rw [hset]; exact h1
    obtain ⟨α, hα⟩ := tseitin_converse hG (chOfV G χ) hev
    refine Finset.mem_image.2 ⟨resE G α, Finset.mem_univ _, ?_⟩
    have := (spec_iff_bdry (chOfV G χ) (resE G α)).1 ((spec_resE hG _ α).2 hα)
    rw [this, chV_chOfV]

/-! ### the component-parity map is onto -/

/-- put the bit of a component on its representative, `false` elsewhere -/
noncomputable def repLift (G : SimpleG) (τ : RepVec G) : VertVec G :=
  fun v => if h : v.1 ∈ reps G then τ ⟨v.1, h⟩ else false

theorem extV_repLift (τ : RepVec G) (v : Nat) :
    extV G (repLift G τ) v = if h : v ∈ reps G then τ ⟨v, h⟩ else false := by
  unfold extV
  by_cases hv : v ∈ Finset.Icc 1 G.n
  · simp [hv, repLift]
  · have : v ∉ reps G := fun h => hv (Finset.mem_filter.1 h).1
    simp [hv, this]

theorem compPar_repLift (τ : RepVec G) : compPar G (repLift G τ) = τ := by
  funext r
  have hr := mem_reps.1 r.2
  have hset : (Finset.Icc 1 G.n).filter (fun v => rep G v = r.1 ∧ extV G (repLift G τ) v = true) =
      if τ r = true then {r.1} else ∅ := by
    ext v
    rw [Finset.mem_filter, extV_repLift]
    constructor
    · rintro ⟨_, hrep, hχ⟩
      by_cases hv : v ∈ reps G
      · rw [dif_pos hv] at hχ
        have hvr : v = r.1 := by rw [← hrep]; exact ((mem_reps.1 hv).2).symm
        have : (⟨v, hv⟩ : RepIdx G) = r := Subtype.ext hvr
        rw [this] at hχ
        simp [hχ, hvr]
      · rw [dif_neg hv] at hχ; cases hχ
    · intro hv
      by_cases hτ : τ r = true
      · rw [if_pos hτ, Finset.mem_singleton] at hv
        subst hv
        refine ⟨Finset.mem_Icc.2 hr.1, hr.2, ?_⟩
        rw [dif_pos r.2]; exact hτ
      · rw [if_neg hτ] at hv; simp at hv
  show decide (compCnt G (repLift G τ) r.1 % 2 = 1) = τ r
  unfold compCnt
  rw [hset]
  cases τ r <;> simp

/-! ### the count -/

/-- `|ker bdry| · 2^|V| = 2^(|E| + c)` -/
theorem kernel_card_mul (hG : GoodGraph G) :
    (Finset.univ.filter (fun x : EdgeVec G => bdry G x = bzero)).card * 2 ^ G.n =
      2 ^ (G.m + components G) := by
  have h1 := xorHom_card (bdry G) (bdry_hom G)
  have h2 := xorHom_card (compPar G) (compPar_hom G)
  rw [card_edgeIdx] at h1
  rw [card_vertIdx] at h2
  have h3 : Finset.univ.image (bdry G) = Finset.univ.filter (fun χ => compPar G χ = bzero) := by
    ext χ
    rw [mem_image_bdry hG]
    simp
  have h4 : Finset.univ.image (compPar G) = Finset.univ := by
    ext τ
    simp only [Finset.mem_image, Finset.mem_univ, true_and, iff_true]
    exact ⟨_, compPar_repLift τ⟩
  rw [h4, Finset.card_univ, Fintype.card_fun, Fintype.card_bool, card_repIdx] at h2
  rw [h3] at h1
  rw [h2, ← Nat.mul_assoc, ← h1, Nat.pow_add]

/-- `|V| ≤ |E| + c` (so `|E| + c - |V|` is the cyclomatic number, no truncation) -/
theorem vertices_le_edges_add_components (hG : GoodGraph G) : G.n ≤ G.m + components G := by
  have h := kernel_card_mul hG
  have hd : 2 ^ G.n ∣ 2 ^ (G.m + components G) := ⟨_, by rw [← h, Nat.mul_comm]⟩
  exact (Nat.pow_dvd_pow_iff_le_right (by omega)).1 hd

/-- the number of edge sets with all degrees even (the cycle space) -/
theorem kernel_card (hG : GoodGraph G) :
    (Finset.univ.filter (fun x : EdgeVec G => bdry G x = bzero)).card =
      2 ^ (G.m + components G - G.n) := by
  have h := kernel_card_mul hG
  have hle := vertices_le_edges_add_components hG
  have hp : 2 ^ (G.m + components G) = 2 ^ (G.m + components G - G.n) * 2 ^ G.n := by
    rw [← Nat.pow_add, Nat.sub_add_cancel hle]
  rw [hp] at h
  exact Nat.eq_of_mul_eq_mul_right (Nat.pow_pos (by omega)) h

/-- every non-empty fibre of the boundary map has as many elements as the kernel -/
theorem fiber_card (hG : GoodGraph G) (x₀ : EdgeVec G) :
    (Finset.univ.filter (fun x : EdgeVec G => bdry G x = bdry G x₀)).card =
      2 ^ (G.m + components G - G.n) := by
  rw [xorHom_fiber_card (bdry G) (bdry_hom G) x₀, kernel_card hG]

/-! ### computing `components` for a concrete graph: a labelling certificate -/

/-- if `lab` is constant along edges, `lab v` is reachable from `v` and `lab v ≤ v`, then `lab`
is the canonical representative -/
theorem rep_eq_of_labels (hG : GoodGraph G) (lab : Nat → Nat)
    (h1 : ∀ v, 1 ≤ v → v ≤ G.n → ∀ u ∈ G.nbrs v, lab u = lab v)
    (h2 : ∀ v, 1 ≤ v → v ≤ G.n → Reach G v (lab v))
    (h3 : ∀ v, 1 ≤ v → v ≤ G.n → lab v ≤ v) {v : Nat} (hv : 1 ≤ v ∧ v ≤ G.n) :
    rep G v = lab v := by
  have hconst : ∀ u, Reach G v u → lab u = lab v := by
    intro u hu
    induction hu with
    | refl => rfl
    | tail hr hs ih =>
      have hw := reach_range hG hv hr
      rw [← ih]; exact h1 _ hw.1 hw.2 _ hs.2
  apply Nat.le_antisymm (rep_le (h2 v hv.1 hv.2))
  have hr := rep_range hG hv
  have := h3 _ hr.1 hr.2
  rw [hconst _ (rep_reach v)] at this
  exact this

theorem components_eq_of_labels (hG : GoodGraph G) (lab : Nat → Nat)
    (h1 : ∀ v, 1 ≤ v → v ≤ G.n → ∀ u ∈ G.nbrs v, lab u = lab v)
    (h2 : ∀ v, 1 ≤ v → v ≤ G.n → Reach G v (lab v))
    (h3 : ∀ v, 1 ≤ v → v ≤ G.n → lab v ≤ v) :
    components G = ((Finset.Icc 1 G.n).filter (fun v => lab v = v)).card := by
  unfold components reps
  congr 1
  apply Finset.filter_congr
  intro v hv
  rw [rep_eq_of_labels hG lab h1 h2 h3 (Finset.mem_Icc.1 hv)]

/-- `exG` (triangle 1-2-3, edge 4-5, isolated vertex 6) has three components -/
theorem exG_components : components exG = 3 := by
  let lab : Nat → Nat := fun v => if v ≤ 3 then 1 else if v ≤ 5 then 4 else v
  rw [components_eq_of_labels exG_good lab]
  · decide
  · intro v h1 h2 u hu
    rcases exG_vertices h1 h2 with rfl | rfl | rfl | rfl | rfl | rfl <;>
      simp [exG, SimpleG.nbrs] at hu <;> rcases hu with rfl | rfl <;> rfl
  · intro v h1 h2
    rcases exG_vertices h1 h2 with rfl | rfl | rfl | rfl | rfl | rfl
    · exact reach_refl _
    · exact reach_adj (by decide) (by decide)
    · exact reach_adj (by decide) (by decide)
    · exact reach_refl _
    · exact reach_adj (by decide) (by decide)
    · exact reach_refl _
  · intro v h1 h2
    rcases exG_vertices h1 h2 with rfl | rfl | rfl | rfl | rfl | rfl <;> decide

end Fam
end Cnfgen
