/-
Character level, graph formats — general part: what the graph lexer (`IO/GraphLex.lean`) does with
the characters of newline-closed lines: `readlines()` (terminators kept), the universal-newline
translation of a text-mode file, `strip()`, `split()` at any white space, `split(':')`, `int()` of
what `str()` prints, and `splitlines()` of a graph name.  Builds on `Lemmas/IOText*.lean` (the graph
lexer shares `isSpace`, `strip`, `splitWS`, `scanDigits`, `natStr` with the formula lexer).
-/
import Lemmas.IOTextSplit
import CnfgenModel.IO.GraphFmt
namespace Cnfgen.GraphFmt
open Cnfgen Cnfgen.GraphLex

/-- the number is below CPython's limit for `str()` / `int()` (`maxStrDigits` = 4300 digits) -/
def Small (n : Nat) : Prop := n < 10 ^ maxStrDigits

/-- lines, each closed by "\n" — what a sequence of `print(…, file=f)` calls writes -/
def unlines (ls : List Str) : Str := ls.flatMap (fun l => l ++ ['\n'])

theorem unlines_nil : unlines [] = [] := rfl

theorem unlines_cons (l : Str) (ls : List Str) : unlines (l :: ls) = l ++ '\n' :: unlines ls := by
  simp [unlines]

theorem unlines_append (a b : List Str) : unlines (a ++ b) = unlines a ++ unlines b := by
  simp [unlines]

/-! ### `readlines()` -/

theorem readlinesAux_line : ∀ (s rest cur : Str), (∀ c ∈ s, c ≠ '\n') →
    readlinesAux (s ++ '\n' :: rest) cur = (cur.reverse ++ s ++ ['\n']) :: readlinesAux rest []
  | [], rest, cur, _ => by simp [readlinesAux]
  | c :: cs, rest, cur, h => by
    have hc : c ≠ '\n' := h c (by simp)
    have ih := readlinesAux_line cs rest (c :: cur) (fun d hd => h d (by simp [hd]))
    simp only [List.cons_append, readlinesAux, hc, if_false]
    rw [ih]; simp

theorem readlines_cons_line (s rest : Str) (h : ∀ c ∈ s, c ≠ '\n') :
    readlines (s ++ '\n' :: rest) = (s ++ ['\n']) :: readlines rest := by
  unfold readlines
  rw [readlinesAux_line s rest [] h]; simp

theorem readlines_nil : readlines [] = [] := rfl

/-- (c) `readlines()` of newline-closed lines returns the lines, terminators kept -/
theorem readlines_unlines (ls : List Str) (h : ∀ l ∈ ls, IO.NoNL l) :
    readlines (unlines ls) = ls.map (fun l => l ++ ['\n']) := by
  induction ls with
  | nil => rfl
  | cons l ls ih =>
    rw [unlines_cons, readlines_cons_line l _ (fun c hc => (h l (by simp) c hc).1),
      ih (fun x hx => h x (by simp [hx]))]
    rfl

/-- a text-mode file hands the same characters to the reader: the lines contain no "\r" -/
theorem universalNL_unlines (ls : List Str) (h : ∀ l ∈ ls, IO.NoNL l) : universalNL (unlines ls) = unlines ls := by
  unfold universalNL
  induction ls with
  | nil => rfl
  | cons l ls ih =>
    rw [unlines_cons, IO.universalNLAux_cons_line l _ (fun c hc => (h l (by simp) c hc).2),
      ih (fun x hx => h x (by simp [hx]))]

/-- both media: the physical lines of newline-closed lines -/
theorem lines_of_text (u : Bool) (ls : List Str) (h : ∀ l ∈ ls, IO.NoNL l) :
    readlines (if u then universalNL (unlines ls) else unlines ls) = ls.map (fun l => l ++ ['\n']) := by
  cases u
  · simpa using readlines_unlines ls h
  · simp only [if_true]; rw [universalNL_unlines ls h]; exact readlines_unlines ls h

/-! ### `strip()` -/

theorem isSpace_nl : isSpace '\n' = true := by decide

/-- white space at the end is stripped -/
theorem strip_append_ws (s : Str) (w : Char) (hw : isSpace w = true) : strip (s ++ [w]) = strip s := by
  unfold strip
  rw [List.dropWhile_append]
  split
  · rename_i he
    have : s.dropWhile isSpace = [] := by simpa using he
    simp [this, List.dropWhile, hw]
  · simp [List.dropWhile, hw]

/-- a string that starts with a non-blank keeps it as first character -/
theorem strip_cons (c : Char) (y : Str) (hc : isSpace c = false) : ∃ z, strip (c :: y) = c :: z := by
  unfold strip
  have h1 : (c :: y).dropWhile isSpace = c :: y := by simp [List.dropWhile, hc]
  rw [h1, List.reverse_cons, List.dropWhile_append]
  split
  · refine ⟨[], ?_⟩; simp [List.dropWhile, hc]
  · refine ⟨((y.reverse).dropWhile isSpace).reverse, ?_⟩; simp

/-- nothing to strip: first and last character are not blanks -/
theorem strip_id (c : Char) (m : Str) (d : Char) (hc : isSpace c = false) (hd : isSpace d = false) :
    strip (c :: (m ++ [d])) = c :: (m ++ [d]) := by
  unfold strip
  have h1 : (c :: (m ++ [d])).dropWhile isSpace = c :: (m ++ [d]) := by simp [List.dropWhile, hc]
  rw [h1]
  have h2 : (c :: (m ++ [d])).reverse = d :: (m.reverse ++ [c]) := by simp
  rw [h2]
  have h3 : (d :: (m.reverse ++ [c])).dropWhile isSpace = d :: (m.reverse ++ [c]) := by simp [List.dropWhile, hd]
  rw [h3]; simp

theorem mem_of_mem_strip {s : Str} {c : Char} (h : c ∈ strip s) : c ∈ s := by
  unfold strip at h
  have h1 := List.mem_reverse.1 h
  have h2 := (List.dropWhile_sublist _).subset h1
  have h3 := List.mem_reverse.1 h2
  exact (List.dropWhile_sublist _).subset h3

/-! ### `split()` -/

theorem splitWS_ws (w : Char) (s : Str) (hw : isSpace w = true) : splitWS (w :: s) = splitWS s := by
  rw [IO.splitWS.eq_def]; simp [hw]

/-- a token followed by any white-space character and more text -/
theorem splitWS_tok_ws : ∀ (t : Str) (w : Char) (rest : Str), IO.IsTok t → isSpace w = true →
    splitWS (t ++ w :: rest) = t :: splitWS rest
  | [], _, _, h, _ => absurd rfl h.1
  | [c], w, rest, h, hw => by
    have hc : isSpace c = false := h.2 c (by simp)
    show IO.splitWS (c :: w :: rest) = _
    rw [IO.splitWS.eq_def]; simp only [hc, hw]
    rw [splitWS_ws w rest hw]; simp
  | c :: d :: r, w, rest, h, hw => by
    have hc : isSpace c = false := h.2 c (by simp)
    have hd : isSpace d = false := h.2 d (by simp)
    have ih := splitWS_tok_ws (d :: r) w rest ⟨by simp, fun x hx => h.2 x (by simp [hx])⟩ hw
    show IO.splitWS (c :: d :: (r ++ w :: rest)) = _
    rw [IO.splitWS_cons_cons c d _ hc hd]
    simp only [List.cons_append] at ih
    rw [ih]

/-- `" a b c\n".split()`: tokens each preceded by one blank, then a white-space character -/
theorem splitWS_blank_toks (toks : List Str) (w : Char) (rest : Str) (h : ∀ t ∈ toks, IO.IsTok t)
    (hw : isSpace w = true) :
    splitWS (toks.flatMap (fun t => ' ' :: t) ++ w :: rest) = toks ++ splitWS rest := by
  induction toks with
  | nil => simpa using splitWS_ws w rest hw
  | cons t ts ih =>
    have iht := ih (fun x hx => h x (by simp [hx]))
    simp only [List.flatMap_cons, List.cons_append, List.append_assoc]
    rw [splitWS_ws ' ' _ IO.isSpace_blank]
    cases ts with
    | nil =>
      simp only [List.flatMap_nil, List.nil_append]
      rw [splitWS_tok_ws t w rest (h t (by simp)) hw]
    | cons t' ts' =>
      simp only [List.flatMap_cons, List.cons_append, List.append_assoc] at iht ⊢
      rw [splitWS_tok_ws t ' ' _ (h t (by simp)) IO.isSpace_blank]
      rw [splitWS_ws ' ' _ IO.isSpace_blank] at iht
      rw [iht]

/-- `" ".join(toks)` followed by a white-space character -/
theorem splitWS_join : ∀ (toks : List Str) (w : Char) (rest : Str), toks ≠ [] → (∀ t ∈ toks, IO.IsTok t) →
    isSpace w = true → splitWS (join [' '] toks ++ w :: rest) = toks ++ splitWS rest
  | [], _, _, h, _, _ => absurd rfl h
  | [t], w, rest, _, h, hw => by
    show splitWS (t ++ w :: rest) = _
    rw [splitWS_tok_ws t w rest (h t (by simp)) hw]; rfl
  | t :: t' :: ts, w, rest, _, h, hw => by
    have ih := splitWS_join (t' :: ts) w rest (by simp) (fun x hx => h x (by simp [hx])) hw
    show splitWS ((t ++ [' '] ++ join [' '] (t' :: ts)) ++ w :: rest) = _
    simp only [List.append_assoc, List.cons_append, List.nil_append]
    rw [splitWS_tok_ws t ' ' _ (h t (by simp)) IO.isSpace_blank, ih]; simp

/-! ### `split(':')`, `':' in l` -/

theorem splitOn_none (sep : Char) : ∀ (s : Str), (∀ c ∈ s, c ≠ sep) → splitOn sep s = [s]
  | [], _ => rfl
  | c :: cs, h => by
    have hc : c ≠ sep := h c (by simp)
    simp [splitOn, hc, splitOn_none sep cs (fun d hd => h d (by simp [hd]))]

theorem splitOn_first (sep : Char) : ∀ (a b : Str), (∀ c ∈ a, c ≠ sep) →
    splitOn sep (a ++ sep :: b) = a :: splitOn sep b
  | [], b, _ => by simp [splitOn]
  | c :: cs, b, h => by
    have hc : c ≠ sep := h c (by simp)
    simp [splitOn, hc, splitOn_first sep cs b (fun d hd => h d (by simp [hd]))]

theorem contains_false_of_forall_ne {s : Str} {x : Char} (h : ∀ c ∈ s, c ≠ x) : s.contains x = false := by
  cases hh : s.contains x with
  | false => rfl
  | true => exact absurd rfl (h x (by simpa using hh))

/-! ### `int()` -/

theorem isSpace_of_isIntSpace {c : Char} (h : isIntSpace c = true) : isSpace c = true := by
  unfold isIntSpace at h
  unfold isSpace wsCodes
  simp only [List.contains_cons, List.contains_nil, Bool.or_false, Bool.or_eq_true, beq_iff_eq] at h ⊢
  omega

theorem dropWhile_intSpace_noWS : ∀ (s : Str), IO.NoWS s → s.dropWhile isIntSpace = s
  | [], _ => rfl
  | c :: cs, h => by
    have hc : isSpace c = false := h c (by simp)
    have : isIntSpace c = false := by
      cases hh : isIntSpace c with
      | false => rfl
      | true => rw [isSpace_of_isIntSpace hh] at hc; cases hc
    simp [List.dropWhile, this]

/-- on a token (no blank inside) the graph lexer's `int()` is the formula lexer's -/
theorem pyInt_eq_io (s : Str) (h : IO.NoWS s) : pyInt? s = IO.pyInt? s := by
  unfold pyInt? IO.pyInt?
  rw [IO.strip_noWS s h, dropWhile_intSpace_noWS s h,
    dropWhile_intSpace_noWS s.reverse (fun c hc => h c (by simpa using hc))]
  simp only [List.reverse_reverse]
  rfl

/-- `int(str(n)) == n` below the digit limit -/
theorem pyInt_natStr (n : Nat) (h : Small n) : pyInt? (natStr n) = some (n : Int) := by
  rw [pyInt_eq_io _ (IO.natStr_noWS n)]; exact IO.pyInt_natStr n h

/-- beyond the limit `int()` refuses the digits (CPython's `str()` would not even print them) -/
theorem pyInt_natStr_big (n : Nat) (h : 10 ^ maxStrDigits ≤ n) : pyInt? (natStr n) = none := by
  rw [pyInt_eq_io _ (IO.natStr_noWS n)]
  have := IO.classify_natStr_big n h
  unfold IO.classify at this
  cases hp : IO.pyInt? (natStr n) with
  | none => rfl
  | some i => rw [hp] at this; cases this

theorem mapM_pyInt_natStr (l : List Nat) (h : ∀ i ∈ l, Small i) :
    (l.map natStr).mapM pyInt? = some (l.map Int.ofNat) := by
  induction l with
  | nil => rfl
  | cons i is ih =>
    simp only [List.map_cons, List.mapM_cons, pyInt_natStr i (h i (by simp)),
      ih (fun x hx => h x (by simp [hx]))]
    rfl

/-! ### digits are not the characters the readers look for -/

theorem isDigit_ne' {c : Char} (h : IO.IsDigit c) : c ≠ 'c' ∧ c ≠ ':' ∧ c ≠ '#' ∧ c ≠ 'p' ∧ c ≠ 'e' := by
  refine ⟨?_, ?_, ?_, ?_, ?_⟩ <;> (intro e; subst e; revert h; unfold IO.IsDigit; decide)

theorem natStr_ne (n : Nat) (x : Char) (hx : ¬ IO.IsDigit x) : ∀ c ∈ natStr n, c ≠ x := by
  intro c hc e; subst e; exact hx ((IO.natStr_digits n).1 c hc)

theorem natStr_last (n : Nat) : ∃ m d, natStr n = m ++ [d] ∧ IO.IsDigit d := by
  obtain ⟨h1, h2, _⟩ := IO.natStr_digits n
  have hne : natStr n ≠ [] := h2
  refine ⟨(natStr n).dropLast, (natStr n).getLast hne, (List.dropLast_concat_getLast hne).symm, ?_⟩
  exact h1 _ (List.getLast_mem hne)

/-! ### `splitlines()` of a graph name -/

theorem splitlinesAux_noBreak : ∀ (s : Str) (b : Bool) (cur : Str), (∀ c ∈ cur, isLineBreak c = false) →
    ∀ p ∈ splitlinesAux b s cur, ∀ c ∈ p, isLineBreak c = false
  | [], b, cur, hcur, p, hp, c, hc => by
    unfold splitlinesAux at hp
    split at hp
    · simp at hp
    · simp at hp; subst hp; exact hcur c (by simpa using hc)
  | x :: xs, b, cur, hcur, p, hp, c, hc => by
    unfold splitlinesAux at hp
    split at hp
    · exact splitlinesAux_noBreak xs false cur hcur p hp c hc
    · split at hp
      · rcases List.mem_cons.1 hp with h | h
        · subst h; exact hcur c (by simpa using hc)
        · exact splitlinesAux_noBreak xs _ [] (by simp) p h c hc
      · rename_i hx
        refine splitlinesAux_noBreak xs false (x :: cur) ?_ p hp c hc
        intro d hd
        rcases List.mem_cons.1 hd with e | e
        · subst e; simpa using hx
        · exact hcur d e

theorem noNL_of_noBreak {s : Str} (h : ∀ c ∈ s, isLineBreak c = false) : IO.NoNL s := by
  intro c hc
  have := h c hc
  constructor <;> (intro e; subst e; revert this; decide)

/-- the lines of a graph name contain no line terminator -/
theorem nameLines_noNL (name : Str) : ∀ l ∈ nameLines name, IO.NoNL l := by
  intro l hl
  unfold nameLines at hl
  split at hl
  · simp at hl; subst hl; intro c hc; simp at hc
  · rename_i h _
    exact noNL_of_noBreak (splitlinesAux_noBreak name false [] (by simp) l hl)

end Cnfgen.GraphFmt
