/-
Helper lemmas for the graph families of C02: the graph invariant `GoodGraph`, the identifier
arithmetic of `GraphEdgesVariables` (`edgeId`), and two counting lemmas.
-/
import CnfgenModel.Fam.Tseitin
import CnfgenModel.Fam.Coloring
import Mathlib.Algebra.BigOperators.Group.Finset.Basic
import Mathlib.Algebra.BigOperators.Group.Finset.Piecewise
import Mathlib.Algebra.Group.Even
import Mathlib.Data.List.Sort
namespace Cnfgen
namespace Fam

/-- What the graph families assume of a `cnfgen.graphs.Graph` value (invariants of every object
reachable through the class's methods — proved for reachable graphs in C16): slot 0 of the
adjacency table is empty, the edge counter is the number of listed edges, and for every vertex
the neighbour list is strictly increasing, within `1..n`, loop-free and symmetric. -/
def GoodGraph (G : SimpleG) : Prop :=
  G.nbrs 0 = [] ∧ G.m = G.edges.length ∧
  ∀ u ∈ List.range (G.n + 1), (G.nbrs u).Pairwise (· < ·) ∧
    ∀ v ∈ G.nbrs u, 1 ≤ v ∧ v ≤ G.n ∧ v ≠ u ∧ u ∈ G.nbrs v

instance (G : SimpleG) : Decidable (GoodGraph G) := by unfold GoodGraph; infer_instance

namespace GoodGraph
variable {G : SimpleG}

theorem sorted (h : GoodGraph G) {u : Nat} (hu : u ≤ G.n) : (G.nbrs u).Pairwise (· < ·) :=
  (h.2.2 u (by simp; omega)).1

theorem nodup (h : GoodGraph G) {u : Nat} (hu : u ≤ G.n) : (G.nbrs u).Nodup :=
  (h.sorted hu).imp (fun hab => Nat.ne_of_lt hab)

theorem mem (h : GoodGraph G) {u v : Nat} (hu : u ≤ G.n) (hv : v ∈ G.nbrs u) :
    1 ≤ v ∧ v ≤ G.n ∧ v ≠ u ∧ u ∈ G.nbrs v :=
  (h.2.2 u (by simp; omega)).2 v hv

theorem pos_of_mem (h : GoodGraph G) {u v : Nat} (hu : u ≤ G.n) (hv : v ∈ G.nbrs u) : 1 ≤ u := by
  rcases Nat.eq_zero_or_pos u with h0 | h0
  · subst h0; rw [h.1] at hv; simp at hv
  · exact h0

theorem symm (h : GoodGraph G) {u v : Nat} (hu : u ≤ G.n) (hv : v ∈ G.nbrs u) : u ∈ G.nbrs v :=
  (h.mem hu hv).2.2.2

end GoodGraph

/-! ### `bisect_right` on a sorted list -/

theorem drop_bisectRight (l : List Nat) (u : Nat) (h : l.Pairwise (· < ·)) :
    l.drop (bisectRight l u) = l.filter (fun x => u < x) := by
  induction l with
  | nil => simp [bisectRight]
  | cons x xs ih =>
    rw [List.pairwise_cons] at h
    by_cases hx : x ≤ u
    · simp only [bisectRight, hx, if_true, List.drop_succ_cons]
      rw [ih h.2, List.filter_cons]
      simp [Nat.not_lt.2 hx]
    · simp only [bisectRight, hx, if_false, List.drop_zero]
      symm
      rw [List.filter_eq_self]
      intro a ha
      simp only [List.mem_cons] at ha
      rcases ha with rfl | ha
      · simp; omega
      · have := h.1 a ha; simp; omega

theorem upNbrs_eq (h : GoodGraph G) {u : Nat} (hu1 : 1 ≤ u) (hun : u < G.n) :
    upNbrs G u = (G.nbrs u).filter (fun x => u < x) := by
  unfold upNbrs
  rw [if_pos ⟨hu1, hun⟩, drop_bisectRight _ _ (h.sorted (Nat.le_of_lt hun))]

theorem mem_upNbrs (h : GoodGraph G) {u v : Nat} :
    v ∈ upNbrs G u ↔ u < v ∧ v ∈ G.nbrs u ∧ u ≤ G.n := by
  constructor
  · intro hv
    unfold upNbrs at hv
    split at hv
    · rename_i hc
      rw [drop_bisectRight _ _ (h.sorted (Nat.le_of_lt hc.2))] at hv
      simp only [List.mem_filter, decide_eq_true_eq] at hv
      exact ⟨hv.2, hv.1, Nat.le_of_lt hc.2⟩
    · simp at hv
  · rintro ⟨huv, hv, hun⟩
    have hvn := (h.mem hun hv).2.1
    have hu1 := h.pos_of_mem hun hv
    rw [upNbrs_eq h hu1 (by omega)]
    simp [hv, huv]

theorem upNbrs_sorted (h : GoodGraph G) (u : Nat) : (upNbrs G u).Pairwise (· < ·) := by
  unfold upNbrs
  split
  · rename_i hc
    exact (h.sorted (Nat.le_of_lt hc.2)).sublist (List.drop_sublist _ _)
  · exact List.Pairwise.nil

theorem upNbrs_nodup (h : GoodGraph G) (u : Nat) : (upNbrs G u).Nodup :=
  (upNbrs_sorted h u).imp (fun hab => Nat.ne_of_lt hab)

/-- `G.edges()` is the concatenation of the rows of the auxiliary bipartite graph -/
theorem edges_eq (G : SimpleG) :
    G.edges = (List.range (G.n - 1)).flatMap (fun i => (upNbrs G (i + 1)).map (fun v => (i + 1, v))) := by
  unfold SimpleG.edges
  apply List.flatMap_congr
  intro i hi
  simp only [List.mem_range] at hi
  unfold upNbrs SimpleG.nbrs
  rw [if_pos (by omega)]

theorem mem_edges (h : GoodGraph G) {u v : Nat} :
    (u, v) ∈ G.edges ↔ u < v ∧ v ∈ G.nbrs u ∧ u ≤ G.n := by
  rw [edges_eq]
  simp only [List.mem_flatMap, List.mem_range, List.mem_map, Prod.mk.injEq]
  constructor
  · rintro ⟨i, _, w, hw, rfl, rfl⟩
    exact (mem_upNbrs h).1 hw
  · intro hh
    have hw := (mem_upNbrs h).2 hh
    have hu1 := h.pos_of_mem hh.2.2 hh.2.1
    have hvn := (h.mem hh.2.2 hh.2.1).2.1
    exact ⟨u - 1, by omega, v, by rw [Nat.sub_add_cancel hu1]; exact hw, by omega, rfl⟩

/-! ### prefix sums and `edgeId` -/

def rowLen (G : SimpleG) (i : Nat) : Nat := (upNbrs G (i + 1)).length

theorem edgeOffset_eq (G : SimpleG) (s u : Nat) :
    edgeOffset G s u = s + ((List.range (u - 1)).map (rowLen G)).sum := rfl

theorem edges_length (G : SimpleG) : G.edges.length = ((List.range (G.n - 1)).map (rowLen G)).sum := by
  rw [edges_eq, List.length_flatMap]
  congr 1
  apply List.map_congr_left
  intro i _
  simp [rowLen]

theorem prefix_sum_mono (a : Nat → Nat) {k m : Nat} (hkm : k ≤ m) :
    ((List.range k).map a).sum ≤ ((List.range m).map a).sum := by
  induction m with
  | zero => have : k = 0 := by omega
            subst this; simp
  | succ m ih =>
    rcases Nat.eq_or_lt_of_le hkm with rfl | hlt
    · exact Nat.le_refl _
    · have := ih (by omega)
      rw [List.range_succ, List.map_append, List.sum_append]
      omega

theorem prefix_sum_succ (a : Nat → Nat) (k : Nat) :
    ((List.range (k + 1)).map a).sum = ((List.range k).map a).sum + a k := by
  rw [List.range_succ, List.map_append, List.sum_append]; simp

/-- the identifier of an edge lies in the block of `|E|` identifiers starting at `s` -/
theorem edgeId_bounds (h : GoodGraph G) (s : Nat) {u v : Nat} (hu : u ≤ G.n) (hv : v ∈ G.nbrs u) :
    s ≤ edgeId G s u v ∧ edgeId G s u v < s + G.edges.length := by
  have hm := h.mem hu hv
  have hu1 := h.pos_of_mem hu hv
  -- a := min, b := max; b ∈ upNbrs a
  have key : ∀ a b, a < b → b ∈ G.nbrs a → a ≤ G.n → 1 ≤ a → b ≤ G.n →
      s ≤ edgeOffset G s a + (upNbrs G a).idxOf b ∧
      edgeOffset G s a + (upNbrs G a).idxOf b < s + G.edges.length := by
    intro a b hab hb han ha1 hbn
    have hmem : b ∈ upNbrs G a := (mem_upNbrs h).2 ⟨hab, hb, han⟩
    have hidx : (upNbrs G a).idxOf b < (upNbrs G a).length := List.idxOf_lt_length_iff.2 hmem
    rw [edgeOffset_eq, edges_length]
    have h1 := prefix_sum_succ (rowLen G) (a - 1)
    have h2 := prefix_sum_mono (rowLen G) (k := a - 1 + 1) (m := G.n - 1) (by omega)
    have h3 : rowLen G (a - 1) = (upNbrs G a).length := by
      simp only [rowLen]; rw [Nat.sub_add_cancel ha1]
    constructor
    · omega
    · omega
  unfold edgeId
  rcases Nat.lt_or_gt_of_ne hm.2.2.1 with hlt | hgt
  · -- v < u
    rw [Nat.min_eq_right (Nat.le_of_lt hlt), Nat.max_eq_left (Nat.le_of_lt hlt)]
    exact key v u hlt hm.2.2.2 hm.2.1 hm.1 hu
  · rw [Nat.min_eq_left (Nat.le_of_lt hgt), Nat.max_eq_right (Nat.le_of_lt hgt)]
    exact key u v hgt hv hu hu1 hm.2.1

theorem edgeId_comm (G : SimpleG) (s u v : Nat) : edgeId G s u v = edgeId G s v u := by
  unfold edgeId; rw [Nat.min_comm, Nat.max_comm]

/-- distinct edges have distinct identifiers -/
theorem edgeId_inj (h : GoodGraph G) (s : Nat) {u v u' v' : Nat}
    (huv : u < v) (hv : v ∈ G.nbrs u) (hu : u ≤ G.n)
    (huv' : u' < v') (hv' : v' ∈ G.nbrs u') (hu' : u' ≤ G.n)
    (he : edgeId G s u v = edgeId G s u' v') : u = u' ∧ v = v' := by
  have hm : v ∈ upNbrs G u := (mem_upNbrs h).2 ⟨huv, hv, hu⟩
  have hm' : v' ∈ upNbrs G u' := (mem_upNbrs h).2 ⟨huv', hv', hu'⟩
  have hi : (upNbrs G u).idxOf v < (upNbrs G u).length := List.idxOf_lt_length_iff.2 hm
  have hi' : (upNbrs G u').idxOf v' < (upNbrs G u').length := List.idxOf_lt_length_iff.2 hm'
  have hu1 := h.pos_of_mem hu hv
  have hu1' := h.pos_of_mem hu' hv'
  unfold edgeId at he
  rw [Nat.min_eq_left (Nat.le_of_lt huv), Nat.max_eq_right (Nat.le_of_lt huv),
      Nat.min_eq_left (Nat.le_of_lt huv'), Nat.max_eq_right (Nat.le_of_lt huv')] at he
  simp only [edgeOffset_eq] at he
  have row : ∀ a, 1 ≤ a → rowLen G (a - 1) = (upNbrs G a).length := by
    intro a ha; simp only [rowLen]; rw [Nat.sub_add_cancel ha]
  have huu : u = u' := by
    rcases Nat.lt_trichotomy u u' with hlt | heq | hgt
    · exfalso
      have h1 := prefix_sum_succ (rowLen G) (u - 1)
      have h2 := prefix_sum_mono (rowLen G) (k := u - 1 + 1) (m := u' - 1) (by omega)
      have := row u hu1
      omega
    · exact heq
    · exfalso
      have h1 := prefix_sum_succ (rowLen G) (u' - 1)
      have h2 := prefix_sum_mono (rowLen G) (k := u' - 1 + 1) (m := u - 1) (by omega)
      have := row u' hu1'
      omega
  subst huu
  refine ⟨rfl, ?_⟩
  have : (upNbrs G u).idxOf v = (upNbrs G u).idxOf v' := by omega
  exact (List.idxOf_inj hm).1 this

/-! ### counting -/

/-- a duplicate-free list of numbers below `N`, counted through the indicator of membership -/
theorem countP_eq_sum_range (l : List Nat) (p : Nat → Bool) (N : Nat) (hnd : l.Nodup)
    (hb : ∀ x ∈ l, x < N) :
    l.countP p = ∑ x ∈ Finset.range N, (if x ∈ l ∧ p x = true then 1 else 0) := by
  rw [List.countP_eq_length_filter, ← Finset.card_filter]
  rw [← List.toFinset_card_of_nodup (hnd.filter _)]
  congr 1
  ext x
  simp only [List.mem_toFinset, List.mem_filter, Finset.mem_filter, Finset.mem_range]
  constructor
  · rintro ⟨hx, hp⟩; exact ⟨hb x hx, hx, hp⟩
  · rintro ⟨_, hx, hp⟩; exact ⟨hx, hp⟩

/-- handshake: a symmetric weight that vanishes on the diagonal has an even total -/
theorem even_double_sum (g : Nat → Nat → Nat) (hs : ∀ a b, g a b = g b a) (hd : ∀ a, g a a = 0)
    (N : Nat) : Even (∑ a ∈ Finset.range N, ∑ b ∈ Finset.range N, g a b) := by
  induction N with
  | zero => simp
  | succ N ih =>
    rw [Finset.sum_range_succ]
    simp only [Finset.sum_range_succ, Finset.sum_add_distrib, hd, Nat.add_zero]
    have : ∑ x ∈ Finset.range N, g N x = ∑ x ∈ Finset.range N, g x N :=
      Finset.sum_congr rfl (fun x _ => hs N x)
    rw [this]
    obtain ⟨k, hk⟩ := ih
    exact ⟨k + ∑ x ∈ Finset.range N, g x N, by omega⟩

/-! ### a concrete good graph (non-vacuity): a triangle, a pendant path and an isolated vertex -/

/-- `Graph(6)` after `add_edge` of 1-2, 2-3, 1-3, 4-5 -/
def exG : SimpleG :=
  ⟨6, 4, [[], [2, 3], [1, 3], [1, 2], [5], [4], []],
    [(5, 4), (4, 5), (3, 1), (1, 3), (3, 2), (2, 3), (2, 1), (1, 2)]⟩

theorem exG_reachable : SimpleG.ofEdges 6 [(1, 2), (2, 3), (1, 3), (4, 5)] = .ok exG := by decide

theorem exG_good : GoodGraph exG := by decide

theorem exG_vertices {v : Nat} (h1 : 1 ≤ v) (h2 : v ≤ exG.n) :
    v = 1 ∨ v = 2 ∨ v = 3 ∨ v = 4 ∨ v = 5 ∨ v = 6 := by
  have : v ≤ 6 := h2
  omega

/-- the triangle `{1,2,3}` of `exG` is closed under adjacency -/
theorem exG_triangle_closed :
    ∀ v u, decide (v ≤ 3) = true → u ∈ exG.nbrs v → decide (u ≤ 3) = true := by
  intro v u hv hu
  simp only [decide_eq_true_eq] at hv ⊢
  have : v = 0 ∨ v = 1 ∨ v = 2 ∨ v = 3 := by omega
  rcases this with rfl | rfl | rfl | rfl <;> simp [exG, SimpleG.nbrs] at hu <;> omega

end Fam
end Cnfgen
