/-
Lemmas about the argparse engine of CnfgenModel/Cli/Argparse.lean: it answers on EVERY list of tokens —
bindings, a CLIError, or the help exit — for every parser whose options have a modelled arity and whose actions
answer (`engine_total`); instantiated for the sub-parsers, `php`'s inner parser and the main parser of every handled
sub-command (`parseX_total`).
-/
import CnfgenModel.Cli.Argparse
import CnfgenModel.Cli.DispatchChecks
import Lemmas.DispatchTotal
namespace Cnfgen.Cli.AP
open Cnfgen.Gen Cnfgen.Cli

/-- an answer of the parser: a value, a CLIError, or the help exit -/
def Tot {α : Type} (r : Except PErr α) : Prop :=
  (∃ a, r = .ok a) ∨ r = .error .cliError ∨ r = .error .helpExit

theorem Tot.ok {α : Type} (a : α) : Tot (Except.ok a : Except PErr α) := Or.inl ⟨a, rfl⟩
theorem Tot.cli {α : Type} : Tot (Except.error .cliError : Except PErr α) := Or.inr (Or.inl rfl)
theorem Tot.help {α : Type} : Tot (Except.error .helpExit : Except PErr α) := Or.inr (Or.inr rfl)

theorem Tot.error_of {α β : Type} {e : PErr} (h : Tot (Except.error e : Except PErr α)) :
    Tot (Except.error e : Except PErr β) := by
  rcases h with ⟨a, h⟩ | h | h
  · cases h
  · cases h; exact Tot.cli
  · cases h; exact Tot.help

/-- the target belongs to the parser -/
def TgIn (strs : List (String × Target)) (tg : Target) : Prop := ∃ y ∈ strs, y.2 = tg

theorem lookupOS_TgIn (strs : List (String × Target)) (t : String) (tg : Target)
    (h : lookupOS strs t = some tg) : TgIn strs tg := by
  unfold lookupOS at h
  cases hf : strs.find? (fun x => x.1 == t) with
  | none => simp [hf] at h
  | some x =>
    simp [hf] at h
    exact ⟨x, List.mem_of_find?_eq_some hf, h⟩

theorem optionTuples_TgIn (strs : List (String × Target)) (cs : List Char) :
    ∀ x ∈ optionTuples strs cs, TgIn strs x.1 := by
  intro x hx
  unfold optionTuples at hx
  split at hx
  · split at hx
    · simp only [List.mem_map, List.mem_filter] at hx
      obtain ⟨y, ⟨hy, _⟩, rfl⟩ := hx
      exact ⟨y, hy, rfl⟩
    · simp only [List.mem_filterMap] at hx
      obtain ⟨y, hy, h⟩ := hx
      split at h
      · simp at h; subst h; exact ⟨y, hy, rfl⟩
      · split at h
        · simp at h; subst h; exact ⟨y, hy, rfl⟩
        · simp at h
  · simp at hx

theorem classifyTok_TgIn (strs : List (String × Target)) (t : String) (tg : Target) (os : String)
    (ex : Option String) (h : classifyTok strs t = .opt tg os ex) : TgIn strs tg := by
  unfold classifyTok at h
  split at h
  · simp at h
  · split at h
    · simp at h
    · split at h
      · rename_i tg' hl
        simp at h
        exact h.1 ▸ lookupOS_TgIn strs t tg' hl
      · split at h
        · simp at h
        · dsimp only at h
          split at h
          · rename_i it hv
            subst h
            split at hv
            · split at hv
              · rename_i tg' hl
                simp at hv
                exact hv.1 ▸ lookupOS_TgIn strs _ tg' hl
              · simp at hv
            · simp at hv
          · split at h
            · rename_i x hx
              simp at h
              have := optionTuples_TgIn strs _ x (by rw [hx]; simp)
              exact h.1 ▸ this
            · simp at h
            · split at h
              · simp at h
              · split at h <;> simp at h

theorem itemize_TgIn (strs : List (String × Target)) : ∀ (argv : List String) (tg : Target) (os : String)
    (ex : Option String), Item.opt tg os ex ∈ itemize strs argv → TgIn strs tg := by
  intro argv
  induction argv with
  | nil => intro tg os ex h; simp [itemize] at h
  | cons t rest ih =>
    intro tg os ex h
    unfold itemize at h
    split at h
    · simp at h
    · rcases List.mem_cons.1 h with h | h
      · exact classifyTok_TgIn strs t tg os ex h.symm
      · exact ih tg os ex h

theorem segs_known (items : List Item) : ∀ (tg : Target) (os : String) (ex : Option String) (run : Run),
    (OptItem.known tg os ex, run) ∈ (segs items).2 → Item.opt tg os ex ∈ items := by
  induction items with
  | nil => intro tg os ex run h; simp [segs] at h
  | cons it rest ih =>
    intro tg os ex run h
    unfold segs at h
    cases hs : segs rest with
    | mk r ss =>
      rw [hs] at h ih
      cases it with
      | arg t => simp at h; exact List.mem_cons_of_mem _ (ih tg os ex run h)
      | dd => simp at h; exact List.mem_cons_of_mem _ (ih tg os ex run h)
      | opt tg' os' ex' =>
        simp at h
        rcases h with ⟨⟨h1, h2, h3⟩, _⟩ | h
        · subst h1 h2 h3; simp
        · exact List.mem_cons_of_mem _ (ih tg os ex run h)
      | unknown t =>
        simp at h
        exact List.mem_cons_of_mem _ (ih tg os ex run h)
      | ambiguous t =>
        simp at h
        exact List.mem_cons_of_mem _ (ih tg os ex run h)

/-! ### the steps answer -/

section steps
variable (bind : Bind) (G : OptSpec → Prop) (hb : ∀ o, G o → ∀ toks, Tot (bind o toks))
include hb

theorem takeAction_tot (o : OptSpec) (ho : G o) (toks : List String) (st : PState) :
    Tot (takeAction bind o toks st) := by
  unfold takeAction
  split
  · exact Tot.cli
  · rcases hb o ho toks with ⟨b, h⟩ | h | h
    · rw [h]; exact Tot.ok _
    · rw [h]; exact Tot.cli
    · rw [h]; exact Tot.help

theorem takeAction_ps (o : OptSpec) (toks : List String) (st st' : PState)
    (h : takeAction bind o toks st = .ok st') : st'.ps = st.ps := by
  unfold takeAction at h
  split at h
  · simp at h
  · split at h
    · simp at h
    · simp at h; subst h; rfl

theorem applyPosX_tot : ∀ (ps : List OptSpec) (sls : List (List String)) (i : Nat) (ddg : Option Nat)
    (st : PState), (∀ o ∈ ps, G o) → Tot (applyPosX bind ps sls i ddg st) := by
  intro ps
  induction ps with
  | nil => intro sls i ddg st _; unfold applyPosX; exact Tot.ok _
  | cons o os ih =>
    intro sls i ddg st hps
    cases sls with
    | nil => unfold applyPosX; exact Tot.ok _
    | cons sl sls =>
      unfold applyPosX
      have := takeAction_tot bind G hb o (hps o (by simp)) (if ddg == some i then sl else sl.erase "--") st
      rcases this with ⟨st', h⟩ | h | h
      · rw [h]; exact ih sls (i + 1) ddg st' (fun o' ho' => hps o' (by simp [ho']))
      · rw [h]; exact Tot.cli
      · rw [h]; exact Tot.help

theorem applyPosX_ps : ∀ (ps : List OptSpec) (sls : List (List String)) (i : Nat) (ddg : Option Nat)
    (st st' : PState), applyPosX bind ps sls i ddg st = .ok st' → st'.ps = st.ps := by
  intro ps
  induction ps with
  | nil => intro sls i ddg st st' h; unfold applyPosX at h; simp at h; subst h; rfl
  | cons o os ih =>
    intro sls i ddg st st' h
    cases sls with
    | nil => unfold applyPosX at h; simp at h; subst h; rfl
    | cons sl sls =>
      unfold applyPosX at h
      split at h
      · simp at h
      · rename_i st1 h1
        rw [ih sls (i + 1) ddg st1 st' h, takeAction_ps bind G hb o _ st st1 h1]

theorem consumePosX_tot (run : Run) (final : Bool) (st : PState) (hps : ∀ o ∈ st.ps, G o) :
    Tot (consumePosX bind run final st) ∧
    ∀ st', consumePosX bind run final st = .ok st' → ∀ o ∈ st'.ps, G o := by
  unfold consumePosX
  split
  · exact ⟨Tot.ok _, fun st' h => by simp at h; subst h; exact hps⟩
  · have := applyPosX_tot bind G hb st.ps
      (slices (matchPartial (st.ps.map OptSpec.arity) run.args.length st.ps.length) run.args) 0
      (ddgOf (matchPartial (st.ps.map OptSpec.arity) run.args.length st.ps.length) run) st hps
    split
    · rename_i e h
      refine ⟨?_, fun st' h' => by simp at h'⟩
      rw [h] at this
      exact Tot.error_of this
    · refine ⟨Tot.ok _, fun st' h' => ?_⟩
      simp at h'
      subst h'
      intro o ho
      exact hps o (List.mem_of_mem_drop ho)

theorem runFlags_tot : ∀ (l : List Target) (st : PState), (∀ o, Target.opt o ∈ l → G o) →
    Tot (runFlags bind l st) := by
  intro l
  induction l with
  | nil => intro st _; unfold runFlags; exact Tot.ok _
  | cons tg rest ih =>
    intro st hl
    cases tg with
    | help => unfold runFlags; exact Tot.help
    | opt o =>
      unfold runFlags
      rcases takeAction_tot bind G hb o (hl o (by simp)) [] st with ⟨st', h⟩ | h | h
      · rw [h]; exact ih st' (fun o' ho' => hl o' (by simp [ho']))
      · rw [h]; exact Tot.cli
      · rw [h]; exact Tot.help

theorem runFlags_ps : ∀ (l : List Target) (st st' : PState), runFlags bind l st = .ok st' → st'.ps = st.ps := by
  intro l
  induction l with
  | nil => intro st st' h; unfold runFlags at h; simp at h; subst h; rfl
  | cons tg rest ih =>
    intro st st' h
    cases tg with
    | help => unfold runFlags at h; simp at h
    | opt o =>
      unfold runFlags at h
      split at h
      · simp at h
      · rename_i st1 h1
        rw [ih st1 st' h, takeAction_ps bind G hb o _ st st1 h1]

end steps

/-- the arities an OPTIONAL can have in the model -/
def OptArity (tg : Target) : Prop := arityT tg = .zero ∨ arityT tg = .one ∨ arityT tg = .plus

theorem cluster_tot (strs : List (String × Target)) (ha : ∀ tg, TgIn strs tg → OptArity tg) :
    ∀ (e : List Char) (tg : Target) (single : Bool), OptArity tg →
      ((∃ r, cluster strs tg single e = .ok r) ∨ cluster strs tg single e = .error .cliError) ∧
      ∀ l last lex, cluster strs tg single e = .ok (l, last, lex) →
        (∀ tg' ∈ l, tg' = tg ∨ TgIn strs tg') ∧ (last = tg ∨ TgIn strs last) ∧ (∀ tg' ∈ l, arityT tg' = .zero) := by
  intro e
  induction e with
  | nil =>
    intro tg single hat
    unfold cluster
    rcases hat with h | h | h <;> rw [h] <;> simp
  | cons c e' ih =>
    intro tg single hat
    unfold cluster
    rcases hat with h | h | h
    · rw [h]
      dsimp only
      split
      · simp
      · split
        · simp
        · rename_i tg' hl
          have hin := lookupOS_TgIn strs _ tg' hl
          split
          · refine ⟨Or.inl ⟨_, rfl⟩, ?_⟩
            intro l last lex hh
            simp at hh
            obtain ⟨rfl, rfl, rfl⟩ := hh
            refine ⟨?_, Or.inr hin, ?_⟩
            · intro x hx; simp at hx; exact Or.inl hx
            · intro x hx; simp at hx; subst hx; exact h
          · have := ih tg' true (ha tg' hin)
            obtain ⟨h1, h2⟩ := this
            rcases h1 with ⟨r, hr⟩ | hr
            · rw [hr]
              obtain ⟨l0, last0, lex0⟩ := r
              obtain ⟨g1, g2, g3⟩ := h2 l0 last0 lex0 hr
              refine ⟨Or.inl ⟨_, rfl⟩, ?_⟩
              intro l last lex hh
              simp at hh
              obtain ⟨rfl, rfl, rfl⟩ := hh
              refine ⟨?_, ?_, ?_⟩
              · intro x hx
                rcases List.mem_cons.1 hx with rfl | hx
                · exact Or.inl rfl
                · rcases g1 x hx with rfl | g
                  · exact Or.inr hin
                  · exact Or.inr g
              · rcases g2 with rfl | g
                · exact Or.inr hin
                · exact Or.inr g
              · intro x hx
                rcases List.mem_cons.1 hx with rfl | hx
                · exact h
                · exact g3 x hx
            · rw [hr]; simp
    · rw [h]; simp
    · rw [h]; simp

section engine
variable (bind : Bind) (G : OptSpec → Prop) (hb : ∀ o, G o → ∀ toks, Tot (bind o toks))
variable (strs : List (String × Target)) (ha : ∀ tg, TgIn strs tg → OptArity tg)
variable (hg : ∀ o, TgIn strs (.opt o) → G o)
include hb ha hg

theorem chainOf_tot (tg : Target) (htg : TgIn strs tg) (os : String) (ex : Option String) :
    ((∃ r, chainOf strs tg os ex = .ok r) ∨ chainOf strs tg os ex = .error .cliError) ∧
    ∀ l last lex, chainOf strs tg os ex = .ok (l, last, lex) →
      (∀ tg' ∈ l, TgIn strs tg') ∧ TgIn strs last ∧ (∀ tg' ∈ l, arityT tg' = .zero) := by
  unfold chainOf
  cases ex with
  | none =>
    refine ⟨Or.inl ⟨_, rfl⟩, ?_⟩
    intro l last lex h
    simp at h
    obtain ⟨rfl, rfl, rfl⟩ := h
    exact ⟨by simp, htg, by simp⟩
  | some e =>
    have := cluster_tot strs ha e.toList tg (singleDash os) (ha tg htg)
    refine ⟨this.1, ?_⟩
    intro l last lex h
    obtain ⟨g1, g2, g3⟩ := this.2 l last lex h
    refine ⟨?_, ?_, g3⟩
    · intro x hx
      rcases g1 x hx with rfl | g
      · exact htg
      · exact g
    · rcases g2 with rfl | g
      · exact htg
      · exact g

omit hb hg in
theorem takeArgs_tot (last : Target) (hl : OptArity last) (lex : Option String) (run : Run) :
    (∃ r, takeArgs last lex run = .ok r) ∨ takeArgs last lex run = .error .cliError := by
  unfold takeArgs
  cases lex with
  | some e => exact Or.inl ⟨_, rfl⟩
  | none =>
    dsimp only
    rcases hl with h | h | h <;> rw [h] <;> dsimp only
    · exact Or.inl ⟨_, rfl⟩
    · split
      · exact Or.inl ⟨_, rfl⟩
      · exact Or.inr rfl
    · split
      · exact Or.inl ⟨_, rfl⟩
      · exact Or.inr rfl

theorem consumeOptX_tot (tg : Target) (htg : TgIn strs tg) (os : String) (ex : Option String) (run : Run)
    (st : PState) :
    Tot (consumeOptX bind strs tg os ex run st) ∧
    ∀ st' run', consumeOptX bind strs tg os ex run st = .ok (st', run') → st'.ps = st.ps := by
  unfold consumeOptX
  obtain ⟨h1, h2⟩ := chainOf_tot bind G hb strs ha hg tg htg os ex
  rcases h1 with ⟨⟨flags, last, lex⟩, hr⟩ | hr
  · rw [hr]
    obtain ⟨g1, g2, g3⟩ := h2 flags last lex hr
    dsimp only
    rcases takeArgs_tot strs ha last (ha last g2) lex run with ⟨⟨toks, run'⟩, hk⟩ | hk
    · rw [hk]
      dsimp only
      have hfl : ∀ o, Target.opt o ∈ flags → G o := fun o ho => hg o (g1 _ ho)
      rcases runFlags_tot bind G hb flags st hfl with ⟨st1, hf⟩ | hf | hf
      · rw [hf]
        dsimp only
        have hps1 := runFlags_ps bind G hb flags st st1 hf
        cases last with
        | help =>
          unfold lastAction
          exact ⟨Tot.help, fun st' run' h => by simp at h⟩
        | opt o =>
          unfold lastAction
          dsimp only
          by_cases hdd : (toks == ["--"]) = true
          · simp only [hdd, if_true]
            exact ⟨Tot.cli, fun st' run'' h => by simp at h⟩
          simp only [hdd, Bool.false_eq_true, if_false]
          rcases takeAction_tot bind G hb o (hg o g2) (toks.erase "--") st1 with ⟨st2, h2'⟩ | h2' | h2'
          · rw [h2']
            refine ⟨Tot.ok _, fun st' run'' h => ?_⟩
            simp at h
            rw [← h.1, takeAction_ps bind G hb o _ st1 st2 h2', hps1]
          · rw [h2']; exact ⟨Tot.cli, fun st' run'' h => by simp at h⟩
          · rw [h2']; exact ⟨Tot.help, fun st' run'' h => by simp at h⟩
      · rw [hf]; exact ⟨Tot.cli, fun st' run'' h => by simp at h⟩
      · rw [hf]; exact ⟨Tot.help, fun st' run'' h => by simp at h⟩
    · rw [hk]
      exact ⟨Tot.cli, fun st' run'' h => by simp at h⟩
  · rw [hr]
    exact ⟨Tot.cli, fun st' run'' h => by simp at h⟩

theorem stepOpt_tot (oi : OptItem) (hoi : ∀ tg os ex, oi = .known tg os ex → TgIn strs tg) (run : Run)
    (st : PState) :
    Tot (stepOpt bind strs oi run st) ∧
    ∀ st' run', stepOpt bind strs oi run st = .ok (st', run') → st'.ps = st.ps := by
  unfold stepOpt
  cases oi with
  | unknown => exact ⟨Tot.ok _, fun st1 run1 h => by simp at h; rw [← h.1]⟩
  | known tg os ex => exact consumeOptX_tot bind G hb strs ha hg tg (hoi tg os ex rfl) os ex run st

theorem runSegs_tot : ∀ (ss : List (OptItem × Run)) (st : PState),
    (∀ tg os ex run, (OptItem.known tg os ex, run) ∈ ss → TgIn strs tg) → (∀ o ∈ st.ps, G o) →
    Tot (runSegs bind strs ss st) := by
  intro ss
  induction ss with
  | nil => intro st _ _; unfold runSegs; exact Tot.ok _
  | cons x rest ih =>
    intro st hss hps
    obtain ⟨oi, run⟩ := x
    unfold runSegs
    obtain ⟨h1, h2⟩ := stepOpt_tot bind G hb strs ha hg oi
      (fun tg os ex h => hss tg os ex run (by simp [h])) run st
    rcases h1 with ⟨⟨st1, run1⟩, h⟩ | h | h
    · rw [h]
      dsimp only
      have hps1 : ∀ o ∈ st1.ps, G o := by rw [h2 st1 run1 h]; exact hps
      obtain ⟨g1, g2⟩ := consumePosX_tot bind G hb run1 rest.isEmpty st1 hps1
      rcases g1 with ⟨st2, g⟩ | g | g
      · rw [g]
        exact ih st2 (fun tg os ex run h => hss tg os ex run (List.mem_cons_of_mem _ h)) (g2 st2 g)
      · rw [g]; exact Tot.cli
      · rw [g]; exact Tot.help
    · rw [h]; exact Tot.cli
    · rw [h]; exact Tot.help

end engine

/-- THE ENGINE ANSWERS.  For a parser whose optionals have arity zero, one or `+` and whose actions answer, on EVERY
list of tokens: bindings, a CLIError, or the help exit. -/
theorem engine_total (bind : Bind) (G : OptSpec → Prop) (hb : ∀ o, G o → ∀ toks, Tot (bind o toks)) (p : PSpec)
    (ha : ∀ o ∈ p.opts, o.arity = .zero ∨ o.arity = .one ∨ o.arity = .plus) (hg : ∀ o ∈ p.opts ++ p.poss, G o)
    (argv : List String) : Tot (engine bind p argv) := by
  have hin : ∀ o, TgIn p.strings (.opt o) → o ∈ p.opts := by
    intro o ⟨y, hy, hyo⟩
    unfold PSpec.strings optStrings at hy
    simp only [List.mem_append, List.mem_cons, List.mem_flatMap, List.mem_map] at hy
    rcases hy with (rfl | rfl | h) | h
    · simp at hyo
    · simp at hyo
    · simp at h
    · obtain ⟨o', ho', f, _, rfl⟩ := h
      simp at hyo; subst hyo; exact ho'
  have ha' : ∀ tg, TgIn p.strings tg → OptArity tg := by
    intro tg htg
    cases tg with
    | help => exact Or.inl rfl
    | opt o => exact ha o (hin o htg)
  have hg' : ∀ o, TgIn p.strings (.opt o) → G o := fun o h => hg o (by simp [hin o h])
  unfold engine engineItems
  split
  · exact Tot.cli
  · have hss : ∀ tg os ex run, (OptItem.known tg os ex, run) ∈ (segs (itemize p.strings argv)).2 →
        TgIn p.strings tg := by
      intro tg os ex run h
      exact itemize_TgIn p.strings argv tg os ex (segs_known (itemize p.strings argv) tg os ex run h)
    have h0 := consumePosX_tot bind G hb (segs (itemize p.strings argv)).1
      (segs (itemize p.strings argv)).2.isEmpty ⟨p.poss, [], false, []⟩ (fun o ho => hg o (by simp [ho]))
    rcases h0.1 with ⟨st0, h⟩ | h | h
    · rw [h]
      dsimp only
      unfold finish
      rcases runSegs_tot bind G hb p.strings ha' hg' _ st0 hss (h0.2 st0 h) with ⟨st, g⟩ | g | g
      · rw [g]
        dsimp only
        split
        · exact Tot.cli
        · exact Tot.ok _
      · rw [g]; exact Tot.cli
      · rw [g]; exact Tot.help
    · rw [h]; exact Tot.cli
    · rw [h]; exact Tot.help

/-! ### the actions answer -/

theorem liftE_tot {α : Type} (r : Except CliErr α) (h : ∀ e, r = .error e → e = .cliError) : Tot (liftE r) := by
  cases r with
  | ok a => exact Tot.ok a
  | error e => rw [h e rfl]; exact Tot.cli

theorem goodOpt_arity (o : OptSpec) (h : goodOpt o = true) : o.arity ≠ .other := by
  unfold goodOpt at h
  simp only [Bool.and_eq_true, bne_iff_ne, ne_eq] at h
  exact h.1.1.1

theorem bindBase_tot (o : OptSpec) (h : goodOpt o = true) (toks : List String) : Tot (bindBase o toks) := by
  have har := goodOpt_arity o h
  unfold bindBase
  split
  · rename_i hf
    have : o.arity = .opt ∨ o.arity = .one := by
      unfold goodOpt at h
      simp only [Bool.and_eq_true, Bool.or_eq_true, Bool.not_eq_true', beq_iff_eq, hf] at h
      simpa using h.1.1.2
    rcases this with ha | ha <;> rw [ha] <;> (repeat' split) <;> first | exact Tot.ok _ | exact Tot.cli | simp_all
  · split
    · exact Tot.ok _
    · split
      · exact Tot.ok _
      · exact Tot.cli
    · exact liftE_tot _ (fun e he => dtot_bindOne_errs o har _ e he)

theorem phpInner_good : ∀ o ∈ phpInner.opts ++ phpInner.poss, goodOpt o = true := by decide

theorem phpInner_arity : ∀ o ∈ phpInner.opts, o.arity = .zero ∨ o.arity = .one ∨ o.arity = .plus := by decide

theorem phpArgsX_tot (toks : List String) : Tot (phpArgsX toks) := by
  cases toks with
  | nil => unfold phpArgsX; exact Tot.cli
  | cons t r =>
    unfold phpArgsX
    dsimp only
    split
    · exact engine_total bindBase (fun o => goodOpt o = true) bindBase_tot phpInner phpInner_arity phpInner_good _
    · exact liftE_tot _ (fun e he => (dtot_phpArgs (t :: r)).1 e he)

theorem composeX_tot (s : CliSpec) (hs : ∀ o ∈ s.opts, goodOpt o = true) (o : OptSpec)
    (hc : o.compose.length = 2) (toks : List String) : Tot (composeX s o toks) := by
  unfold composeX
  match hcm : o.compose, hc with
  | [a, b], _ =>
    cases toks with
    | nil => exact Tot.cli
    | cons t r =>
      dsimp only
      apply engine_total bindBase (fun o => goodOpt o = true) bindBase_tot
      · intro o' ho'; simp at ho'
      · intro o' ho'
        simp only [List.nil_append] at ho'
        unfold subPositionals at ho'
        exact hs o' (List.mem_filter.1 ho').1

theorem mainBind_tot (s : CliSpec) (hs : ∀ o ∈ s.opts, goodOpt o = true) (o : OptSpec) (ho : goodOpt o = true)
    (toks : List String) : Tot (mainBind s o toks) := by
  unfold mainBind
  split
  · exact phpArgsX_tot toks
  · split
    · rename_i hc
      apply composeX_tot s hs o _ toks
      unfold goodOpt at ho
      simp only [Bool.and_eq_true, Bool.or_eq_true, bne_iff_ne, ne_eq, beq_iff_eq] at ho
      rcases ho.2 with h | h
      · exact absurd (by simpa using hc) h
      · exact h
    · exact bindBase_tot o ho toks

/-- THE PARSER OF A SUB-COMMAND ANSWERS on every list of tokens -/
theorem parseX_total (s : CliSpec) (hs : ∀ o ∈ s.opts, goodOpt o = true) (argv : List String) :
    Tot (parseX s argv) := by
  unfold parseX
  apply engine_total (mainBind s) (fun o => goodOpt o = true) (fun o ho toks => mainBind_tot s hs o ho toks)
  · intro o ho
    unfold mainSpec mainOpts at ho
    simp only [List.mem_filter, Bool.not_eq_true'] at ho
    have hg := hs o ho.1.1
    unfold goodOpt at hg
    simp only [Bool.and_eq_true, Bool.or_eq_true, beq_iff_eq, ho.2] at hg
    rcases hg.1.2 with ((h | h) | h) | h
    · simp at h
    · exact Or.inl h
    · exact Or.inr (Or.inl h)
    · exact Or.inr (Or.inr h)
  · intro o ho
    unfold mainSpec mainOpts positionals mainOpts at ho
    simp only [List.mem_append, List.mem_filter] at ho
    rcases ho with ho | ho
    · exact hs o ho.1.1
    · exact hs o ho.1.1

end Cnfgen.Cli.AP
