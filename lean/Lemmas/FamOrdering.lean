/-
Lemmas about the ordering-principle model (`Fam/Ordering.lean`).
-/
import CnfgenModel.Fam.Ordering
import CnfgenModel.Core.Iter
import Lemmas.FamC03aBasic
namespace Cnfgen.Fam.Ordering
open Cnfgen.FamC03a

/-! ### enumerations -/

theorem mem_verts {n v : Nat} : v ∈ verts n ↔ 1 ≤ v ∧ v ≤ n := by
  simp only [verts, List.mem_map, List.mem_range]
  constructor
  · rintro ⟨a, ha, rfl⟩; omega
  · intro h; exact ⟨v - 1, by omega, by omega⟩

theorem mem_perm3 {n a b c : Nat} :
    (a, b, c) ∈ perm3 n ↔ (1 ≤ a ∧ a ≤ n) ∧ (1 ≤ b ∧ b ≤ n) ∧ (1 ≤ c ∧ c ≤ n) ∧ a ≠ b ∧ a ≠ c ∧ b ≠ c := by
  simp only [perm3, List.mem_flatMap, List.mem_map, List.mem_filter, mem_verts, Prod.mk.injEq,
    Bool.and_eq_true, bne_iff_ne, ne_eq]
  constructor
  · rintro ⟨v1, h1, v2, h2, v3, ⟨h3, ⟨hab, hac⟩, hbc⟩, rfl, rfl, rfl⟩
    exact ⟨h1, h2, h3, hab, hac, hbc⟩
  · rintro ⟨h1, h2, h3, hab, hac, hbc⟩
    exact ⟨a, h1, b, h2, c, ⟨h3, ⟨hab, hac⟩, hbc⟩, rfl, rfl, rfl⟩

theorem mem_comb3 {n a b c : Nat} :
    (a, b, c) ∈ comb3 n ↔ 1 ≤ a ∧ a < b ∧ b < c ∧ c ≤ n := by
  simp only [comb3, List.mem_flatMap, List.mem_map, List.mem_filter, mem_verts, Prod.mk.injEq,
    Bool.and_eq_true, decide_eq_true_eq]
  constructor
  · rintro ⟨v1, h1, v2, h2, v3, ⟨h3, hab, hbc⟩, rfl, rfl, rfl⟩
    omega
  · rintro ⟨h1, hab, hbc, hc⟩
    exact ⟨a, by omega, b, by omega, c, ⟨by omega, hab, hbc⟩, rfl, rfl, rfl⟩

theorem mem_comb2 {n a b : Nat} : (a, b) ∈ comb2 n ↔ 1 ≤ a ∧ a < b ∧ b ≤ n := by
  simp only [comb2, List.mem_flatMap, List.mem_map, List.mem_filter, mem_verts, Prod.mk.injEq,
    decide_eq_true_eq]
  constructor
  · rintro ⟨v1, h1, v2, ⟨h2, hab⟩, rfl, rfl⟩
    omega
  · rintro ⟨h1, hab, hb⟩
    exact ⟨a, by omega, b, ⟨by omega, hab⟩, rfl, rfl⟩

/-- the nested-loop enumerations are `itertools.combinations` of `Core/Iter`
(sanity check on a concrete size; the general tie is the correspondence with the real code) -/
example : (comb3 6).map (fun t => [t.1, t.2.1, t.2.2]) = combos (rangeN 1 7) 3 := by decide
example : (comb2 6).map (fun t => [t.1, t.2]) = combos (rangeN 1 7) 2 := by decide
/-- identifiers are the 1-based positions in `combinations(range(1,n+1),2)` -/
example : ((combos (rangeN 1 7) 2).map fun w => combId 6 (w.getD 0 0) (w.getD 1 0)) = (List.range 15).map (· + 1) := by
  decide
/-- `completeG` is what `Graph.complete_graph` builds with `add_edge` -/
example : (SimpleG.ofEdges 4 (comb2 4)).toOption = some (completeG 4) := by decide

/-! ### identifier arithmetic -/

theorem permId_pos {n u v : Nat} (hu : 1 ≤ u) (hv : 1 ≤ v) (h : u ≠ v) : 1 ≤ permId n u v := by
  unfold permId; split <;> omega

theorem permId_le {n u v : Nat} (hu : 1 ≤ u) (hun : u ≤ n) (hv : 1 ≤ v) (hvn : v ≤ n) (h : u ≠ v) :
    permId n u v ≤ n * (n - 1) := by
  unfold permId
  have h1 : (u - 1) * (n - 1) + (n - 1) = u * (n - 1) := by
    obtain ⟨k, rfl⟩ : ∃ k, u = k + 1 := ⟨u - 1, by omega⟩
    simp [Nat.succ_mul]
  have h2 : u * (n - 1) ≤ n * (n - 1) := Nat.mul_le_mul_right _ hun
  split <;> omega

theorem combOff_mono (n : Nat) {a b : Nat} (h : a ≤ b) : combOff n a ≤ combOff n b := by
  induction b with
  | zero => have : a = 0 := by omega
            subst this; exact Nat.le_refl _
  | succ b ih =>
    by_cases hab : a = b + 1
    · subst hab; exact Nat.le_refl _
    · have := ih (by omega); simp only [combOff]; omega

theorem combOff_closed (n : Nat) : ∀ k, k ≤ n → 2 * combOff n k + k * (k + 1) = 2 * k * n
  | 0, _ => by simp [combOff]
  | k + 1, h => by
    have ih := combOff_closed n k (by omega)
    obtain ⟨d, rfl⟩ : ∃ d, n = k + 1 + d := ⟨n - (k + 1), by omega⟩
    simp only [combOff]
    have : k + 1 + d - (k + 1) = d := by omega
    rw [this]
    simp only [Nat.mul_add, Nat.add_mul, Nat.mul_one, Nat.one_mul] at ih ⊢
    omega

theorem combOff_full (n : Nat) : combOff n n = n * (n - 1) / 2 := by
  have h := combOff_closed n n (Nat.le_refl _)
  cases n with
  | zero => simp [combOff]
  | succ m =>
    simp only [Nat.add_sub_cancel]
    have : (m + 1) * m = 2 * combOff (m + 1) (m + 1) := by
      simp only [Nat.mul_add, Nat.add_mul, Nat.mul_one, Nat.one_mul, Nat.mul_assoc] at h ⊢
      omega
    rw [this]; omega

theorem combId_pos {n u v : Nat} (h : u < v) : 1 ≤ combId n u v := by
  unfold combId; omega

theorem combId_le {n u v : Nat} (hu : 1 ≤ u) (h : u < v) (hvn : v ≤ n) :
    combId n u v ≤ n * (n - 1) / 2 := by
  rw [← combOff_full]
  have h1 : combOff n u = combOff n (u - 1) + (n - u) := by
    obtain ⟨k, rfl⟩ : ∃ k, u = k + 1 := ⟨u - 1, by omega⟩
    simp [combOff]
  have h2 := combOff_mono n (show u ≤ n by omega)
  unfold combId; omega

/-! ### no finite relation without minimal elements: the two Knuth-type lemmas -/

/-- (Knuth variant 2 and everything stronger) a relation on a non-empty finite set of naturals
that is antisymmetric, transitive at least through a *largest middle element*, and in which every
element has a predecessor, does not exist. -/
theorem no_order_k2 (N : Nat) : ∀ (S : Nat → Prop) (R : Nat → Nat → Prop),
    (∀ v, S v → v ≤ N) → (∃ v, S v) →
    (∀ u v, S u → S v → u ≠ v → ¬ (R u v ∧ R v u)) →
    (∀ a b c, S a → S b → S c → a ≠ b → b ≠ c → a ≠ c → a < b → c < b → R a b → R b c → R a c) →
    (∀ v, S v → ∃ u, S u ∧ u ≠ v ∧ R u v) → False := by
  induction N with
  | zero =>
    intro S R hb ⟨v, hv⟩ _ _ hmin
    obtain ⟨u, hu, hne, _⟩ := hmin v hv
    have := hb v hv; have := hb u hu; omega
  | succ N ih =>
    intro S R hb hne has htr hmin
    by_cases hS : S (N + 1)
    · refine ih (fun v => S v ∧ v ≠ N + 1) R ?_ ?_ ?_ ?_ ?_
      · intro v hv; have := hb v hv.1; have := hv.2; omega
      · obtain ⟨u, hu, hun, _⟩ := hmin (N + 1) hS
        exact ⟨u, hu, hun⟩
      · intro u v hu hv; exact has u v hu.1 hv.1
      · intro a b c ha hb' hc; exact htr a b c ha.1 hb'.1 hc.1
      · intro v hv
        obtain ⟨u, hu, huv, hR⟩ := hmin v hv.1
        by_cases huN : u = N + 1
        · subst huN
          obtain ⟨w, hw, hwN, hRw⟩ := hmin (N + 1) hS
          have hwv : w ≠ v := by
            rintro rfl
            exact has w (N + 1) hw hS hwN ⟨hRw, hR⟩
          have hwb := hb w hw
          have hvb := hb v hv.1
          have hvN := hv.2
          exact ⟨w, ⟨hw, hwN⟩, hwv,
            htr w (N + 1) v hw hS hv.1 hwN (Ne.symm hvN) hwv (by omega) (by omega) hRw hR⟩
        · exact ⟨u, ⟨hu, huN⟩, huv, hR⟩
    · refine ih S R ?_ hne has htr hmin
      intro v hv
      have := hb v hv
      by_cases h : v = N + 1
      · subst h; exact absurd hv hS
      · omega

/-- (Knuth variant 3) the same with transitivity only through a *largest last element*. -/
theorem no_order_k3 (N : Nat) : ∀ (S : Nat → Prop) (R : Nat → Nat → Prop),
    (∀ v, S v → v ≤ N) → (∃ v, S v) →
    (∀ u v, S u → S v → u ≠ v → ¬ (R u v ∧ R v u)) →
    (∀ a b c, S a → S b → S c → a ≠ b → b ≠ c → a ≠ c → a < c → b < c → R a b → R b c → R a c) →
    (∀ v, S v → ∃ u, S u ∧ u ≠ v ∧ R u v) → False := by
  induction N with
  | zero =>
    intro S R hb ⟨v, hv⟩ _ _ hmin
    obtain ⟨u, hu, hne, _⟩ := hmin v hv
    have := hb v hv; have := hb u hu; omega
  | succ N ih =>
    intro S R hb hne has htr hmin
    by_cases hS : S (N + 1)
    · -- the predecessors of the largest element are closed under predecessors
      refine ih (fun v => S v ∧ v ≠ N + 1 ∧ R v (N + 1)) R ?_ ?_ ?_ ?_ ?_
      · intro v hv; have := hb v hv.1; have := hv.2.1; omega
      · obtain ⟨u, hu, hun, hR⟩ := hmin (N + 1) hS
        exact ⟨u, hu, hun, hR⟩
      · intro u v hu hv; exact has u v hu.1 hv.1
      · intro a b c ha hb' hc; exact htr a b c ha.1 hb'.1 hc.1
      · intro v ⟨hv, hvN, hRv⟩
        obtain ⟨u, hu, huv, hR⟩ := hmin v hv
        have huN : u ≠ N + 1 := by
          rintro rfl
          exact has v (N + 1) hv hS hvN ⟨hRv, hR⟩
        have hub := hb u hu
        have hvb := hb v hv
        exact ⟨u, ⟨hu, huN, htr u v (N + 1) hu hv hS huv hvN huN (by omega) (by omega) hR hRv⟩, huv, hR⟩
    · refine ih S R ?_ hne has htr hmin
      intro v hv
      have := hb v hv
      by_cases h : v = N + 1
      · subst h; exact absurd hv hS
      · omega

/-! ### the specification -/

/-- the facts about a simple graph object that the theorems use: neighbours are vertices of the
graph, different from the vertex itself (C16's invariant of reachable `Graph` objects) -/
def NbrsOK (G : SimpleG) : Prop := ∀ v, 1 ≤ v → v ≤ G.n → ∀ u ∈ G.nbrs v, 1 ≤ u ∧ u ≤ G.n ∧ u ≠ v

/-- the relation "u is below v" read off an assignment (plain / total / Knuth encodings) -/
def Rel (α : Assign) (n u v : Nat) : Prop := α (permId n u v) = true
/-- the relation "u is below v" read off an assignment (smart encoding) -/
def RelS (α : Assign) (n u v : Nat) : Prop :=
  if u < v then α (combId n u v) = true else α (combId n v u) = false

/-- the documented axioms over a relation `R` on the vertices `1..n` (irreflexive by construction:
there is no variable for `R v v`) -/
structure OrdSpec (G : SimpleG) (total plant : Bool) (knuth : Int) (R : Nat → Nat → Prop) : Prop where
  /-- every vertex, except the last one if planted, has a smaller neighbour -/
  nonmin : ∀ v, 1 ≤ v → v ≤ G.n → ¬ (v = G.n ∧ plant = true) → ∃ u ∈ G.nbrs v, R u v
  /-- transitivity (only the instances a Knuth variant keeps) -/
  trans : ∀ a b c, 1 ≤ a → a ≤ G.n → 1 ≤ b → b ≤ G.n → 1 ≤ c → c ≤ G.n → a ≠ b → a ≠ c → b ≠ c →
    knuthKeep knuth a b c = true → R a b → R b c → R a c
  antisym : ∀ a b, 1 ≤ a → a < b → b ≤ G.n → ¬ (R a b ∧ R b a)
  total : total = true → ∀ a b, 1 ≤ a → a < b → b ≤ G.n → R a b ∨ R b a

theorem exempt_iff (v n : Nat) (plant : Bool) :
    (!(v == n && plant)) = true ↔ ¬ (v = n ∧ plant = true) := by
  cases plant <;> simp

theorem nonmin_holds (G : SimpleG) (hG : NbrsOK G) (plant : Bool) (α : Assign) :
    (∀ c ∈ nonmin G false plant, c.holds α = true) ↔
      ∀ v, 1 ≤ v → v ≤ G.n → ¬ (v = G.n ∧ plant = true) → ∃ u ∈ G.nbrs v, Rel α G.n u v := by
  simp only [nonmin, List.forall_mem_map, List.mem_filter, mem_verts, exempt_iff, Con.holds,
    nonminClause, Bool.false_eq_true, if_false, X, Rel]
  constructor
  · intro h v h1 h2 h3
    refine (cl_map_pos α (G.nbrs v) (fun u => permId G.n u v) ?_).1 (h v ⟨⟨h1, h2⟩, h3⟩)
    intro u hu; have := hG v h1 h2 u hu; exact permId_pos this.1 h1 this.2.2
  · intro h v ⟨⟨h1, h2⟩, h3⟩
    refine (cl_map_pos α (G.nbrs v) (fun u => permId G.n u v) ?_).2 (h v h1 h2 h3)
    intro u hu; have := hG v h1 h2 u hu; exact permId_pos this.1 h1 this.2.2

theorem below_holds (α : Assign) (n u v : Nat) :
    litHolds α (below n u v) = true ↔ RelS α n u v := by
  unfold below RelS Xs
  split
  · rename_i hlt; rw [lit_pos α _ (combId_pos hlt)]
  · rw [lit_neg]; simp

theorem nonminS_holds (G : SimpleG) (plant : Bool) (α : Assign) :
    (∀ c ∈ nonmin G true plant, c.holds α = true) ↔
      ∀ v, 1 ≤ v → v ≤ G.n → ¬ (v = G.n ∧ plant = true) → ∃ u ∈ G.nbrs v, RelS α G.n u v := by
  simp only [nonmin, List.forall_mem_map, List.mem_filter, mem_verts, exempt_iff, Con.holds,
    nonminClause, if_true, clauseHolds, List.any_map, List.any_eq_true, Function.comp]
  constructor
  · intro h v h1 h2 h3
    obtain ⟨u, hu, hl⟩ := h v ⟨⟨h1, h2⟩, h3⟩
    exact ⟨u, hu, (below_holds α G.n u v).1 hl⟩
  · intro h v ⟨⟨h1, h2⟩, h3⟩
    obtain ⟨u, hu, hl⟩ := h v h1 h2 h3
    exact ⟨u, hu, (below_holds α G.n u v).2 hl⟩

theorem clause3_holds (α : Assign) (i j k : Nat) (hk : 1 ≤ k) :
    clauseHolds α [-(i : Int), -(j : Int), (k : Int)] = true ↔ (α i = true → α j = true → α k = true) := by
  simp only [clauseHolds, List.any_cons, List.any_nil, Bool.or_false, lit_neg, lit_pos α k hk]
  cases α i <;> cases α j <;> cases α k <;> simp

theorem trans_holds (n : Nat) (knuth : Int) (α : Assign) :
    (∀ c ∈ trans n knuth, c.holds α = true) ↔
      ∀ a b c, 1 ≤ a → a ≤ n → 1 ≤ b → b ≤ n → 1 ≤ c → c ≤ n → a ≠ b → a ≠ c → b ≠ c →
        knuthKeep knuth a b c = true → Rel α n a b → Rel α n b c → Rel α n a c := by
  simp only [trans, List.forall_mem_map, List.mem_filter, Con.holds, X, Rel]
  constructor
  · intro h a b c h1 h2 h3 h4 h5 h6 hab hac hbc hk
    exact (clause3_holds α _ _ _ (permId_pos h1 h5 hac)).1
      (h (a, b, c) ⟨mem_perm3.2 ⟨⟨h1, h2⟩, ⟨h3, h4⟩, ⟨h5, h6⟩, hab, hac, hbc⟩, hk⟩)
  · rintro h ⟨a, b, c⟩ ⟨hm, hk⟩
    obtain ⟨⟨h1, h2⟩, ⟨h3, h4⟩, ⟨h5, h6⟩, hab, hac, hbc⟩ := mem_perm3.1 hm
    exact (clause3_holds α _ _ _ (permId_pos h1 h5 hac)).2 (h a b c h1 h2 h3 h4 h5 h6 hab hac hbc hk)

theorem antisym_holds (n : Nat) (α : Assign) :
    (∀ c ∈ antisym n, c.holds α = true) ↔
      ∀ a b, 1 ≤ a → a < b → b ≤ n → ¬ (Rel α n a b ∧ Rel α n b a) := by
  simp only [antisym, List.forall_mem_map, Con.holds, X, Rel]
  have key : ∀ i j : Nat, clauseHolds α [-(i : Int), -(j : Int)] = true ↔ ¬ (α i = true ∧ α j = true) := by
    intro i j
    simp only [clauseHolds, List.any_cons, List.any_nil, Bool.or_false, lit_neg]
    cases α i <;> cases α j <;> simp
  constructor
  · intro h a b h1 h2 h3
    exact (key _ _).1 (h (a, b) (mem_comb2.2 ⟨h1, h2, h3⟩))
  · rintro h ⟨a, b⟩ hm
    obtain ⟨h1, h2, h3⟩ := mem_comb2.1 hm
    exact (key _ _).2 (h a b h1 h2 h3)

theorem totality_holds (n : Nat) (α : Assign) :
    (∀ c ∈ totality n, c.holds α = true) ↔
      ∀ a b, 1 ≤ a → a < b → b ≤ n → (Rel α n a b ∨ Rel α n b a) := by
  simp only [totality, List.forall_mem_map, Con.holds, X, Rel]
  have key : ∀ i j : Nat, 1 ≤ i → 1 ≤ j →
      (clauseHolds α [(i : Int), (j : Int)] = true ↔ (α i = true ∨ α j = true)) := by
    intro i j hi hj
    simp only [clauseHolds, List.any_cons, List.any_nil, Bool.or_false, lit_pos α i hi, lit_pos α j hj]
    cases α i <;> cases α j <;> simp
  constructor
  · intro h a b h1 h2 h3
    exact (key _ _ (permId_pos h1 (by omega) (by omega)) (permId_pos (by omega) h1 (by omega))).1
      (h (a, b) (mem_comb2.2 ⟨h1, h2, h3⟩))
  · rintro h ⟨a, b⟩ hm
    obtain ⟨h1, h2, h3⟩ := mem_comb2.1 hm
    exact (key _ _ (permId_pos h1 (by omega) (by omega)) (permId_pos (by omega) h1 (by omega))).2
      (h a b h1 h2 h3)

theorem holds_append (n : Nat) (A B : List Con) (α : Assign) :
    (⟨n, A ++ B⟩ : Formula).holds α = true ↔
      (∀ c ∈ A, c.holds α = true) ∧ (∀ c ∈ B, c.holds α = true) := by
  simp [Formula.holds, List.all_append]

/-- exactly the documented axioms (plain / total / planted / Knuth variants) -/
theorem gop_holds_iff (G : SimpleG) (hG : NbrsOK G) (total plant : Bool) (knuth : Int) (α : Assign) :
    (gop G total false plant knuth).holds α = true ↔ OrdSpec G total plant knuth (Rel α G.n) := by
  simp only [gop, Bool.false_eq_true, if_false]
  rw [holds_append, List.forall_mem_append, List.forall_mem_append, nonmin_holds G hG, trans_holds,
    antisym_holds]
  have htot : (∀ c ∈ (if total = true then totality G.n else []), c.holds α = true) ↔
      (total = true → ∀ a b, 1 ≤ a → a < b → b ≤ G.n → (Rel α G.n a b ∨ Rel α G.n b a)) := by
    cases total
    · simp
    · simp only [if_true, totality_holds, true_implies]
  rw [htot]
  constructor
  · rintro ⟨⟨⟨h1, h2⟩, h3⟩, h4⟩; exact ⟨h1, h2, h3, h4⟩
  · rintro ⟨h1, h2, h3, h4⟩; exact ⟨⟨⟨h1, h2⟩, h3⟩, h4⟩

/-! ### unsatisfiability -/

theorem knuthKeep_k3 {a b c : Nat} (hac : a < c) (hbc : b < c) : knuthKeep 3 a b c = true := by
  have h1 : ¬ c < a := by omega
  have h2 : ¬ c < b := by omega
  simp [knuthKeep, h1, h2]

theorem knuthKeep_k2 {knuth : Int} (hk : knuth ≠ 3) {a b c : Nat} (hab : a < b) (hcb : c < b) :
    knuthKeep knuth a b c = true := by
  have h1 : ¬ b < a := by omega
  have h2 : ¬ b < c := by omega
  simp [knuthKeep, h1, h2, hk]

theorem knuthKeep_zero (a b c : Nat) : knuthKeep 0 a b c = true := by
  simp [knuthKeep]

/-- no relation satisfies the documented axioms of the non-planted principle on a graph with at
least one vertex — for the full transitivity and for both Knuth variants -/
theorem ordSpec_false (G : SimpleG) (hG : NbrsOK G) (hn : 1 ≤ G.n) (total : Bool) (knuth : Int)
    (R : Nat → Nat → Prop) : ¬ OrdSpec G total false knuth R := by
  intro h
  have has : ∀ u v, (1 ≤ u ∧ u ≤ G.n) → (1 ≤ v ∧ v ≤ G.n) → u ≠ v → ¬ (R u v ∧ R v u) := by
    intro u v hu hv hne
    rcases Nat.lt_or_gt_of_ne hne with hlt | hlt
    · exact h.antisym u v hu.1 hlt hv.2
    · intro hh; exact h.antisym v u hv.1 hlt hu.2 ⟨hh.2, hh.1⟩
  have hmin : ∀ v, (1 ≤ v ∧ v ≤ G.n) → ∃ u, (1 ≤ u ∧ u ≤ G.n) ∧ u ≠ v ∧ R u v := by
    intro v hv
    obtain ⟨u, hu, hR⟩ := h.nonmin v hv.1 hv.2 (by simp)
    have := hG v hv.1 hv.2 u hu
    exact ⟨u, ⟨this.1, this.2.1⟩, this.2.2, hR⟩
  by_cases hk : knuth = 3
  · subst hk
    refine no_order_k3 G.n (fun v => 1 ≤ v ∧ v ≤ G.n) R (fun v hv => hv.2) ⟨1, Nat.le_refl _, hn⟩ has ?_ hmin
    intro a b c ha hb hc hab hbc hac hlt1 hlt2
    exact h.trans a b c ha.1 ha.2 hb.1 hb.2 hc.1 hc.2 hab hac hbc (knuthKeep_k3 hlt1 hlt2)
  · refine no_order_k2 G.n (fun v => 1 ≤ v ∧ v ≤ G.n) R (fun v hv => hv.2) ⟨1, Nat.le_refl _, hn⟩ has ?_ hmin
    intro a b c ha hb hc hab hbc hac hlt1 hlt2
    exact h.trans a b c ha.1 ha.2 hb.1 hb.2 hc.1 hc.2 hab hac hbc (knuthKeep_k2 hk hlt1 hlt2)

theorem gop_unsat (G : SimpleG) (hG : NbrsOK G) (hn : 1 ≤ G.n) (total : Bool) (knuth : Int) :
    ¬ ∃ α, (gop G total false false knuth).holds α = true := by
  rintro ⟨α, hα⟩
  exact ordSpec_false G hG hn total knuth _ ((gop_holds_iff G hG total false knuth α).1 hα)

/-! ### smart (compact) encoding -/

theorem RelS_lt {α : Assign} {n u v : Nat} (h : u < v) : RelS α n u v ↔ α (combId n u v) = true := by
  unfold RelS; rw [if_pos h]

theorem RelS_gt {α : Assign} {n u v : Nat} (h : v < u) : RelS α n u v ↔ α (combId n v u) = false := by
  unfold RelS; rw [if_neg (by omega)]

theorem transSmart_holds (n : Nat) (α : Assign) :
    (∀ c ∈ transSmart n, c.holds α = true) ↔
      ∀ a b c, 1 ≤ a → a < b → b < c → c ≤ n →
        (α (combId n a b) = true ∨ α (combId n b c) = true ∨ α (combId n a c) = false) ∧
        (α (combId n a b) = false ∨ α (combId n b c) = false ∨ α (combId n a c) = true) := by
  have key1 : ∀ i j k : Nat, 1 ≤ i → 1 ≤ j →
      (clauseHolds α [(i : Int), (j : Int), -(k : Int)] = true ↔ (α i = true ∨ α j = true ∨ α k = false)) := by
    intro i j k hi hj
    simp only [clauseHolds, List.any_cons, List.any_nil, Bool.or_false, lit_neg, lit_pos α i hi, lit_pos α j hj]
    cases α i <;> cases α j <;> cases α k <;> simp
  have key2 : ∀ i j k : Nat, 1 ≤ k →
      (clauseHolds α [-(i : Int), -(j : Int), (k : Int)] = true ↔ (α i = false ∨ α j = false ∨ α k = true)) := by
    intro i j k hk
    simp only [clauseHolds, List.any_cons, List.any_nil, Bool.or_false, lit_neg, lit_pos α k hk]
    cases α i <;> cases α j <;> cases α k <;> simp
  simp only [transSmart, List.mem_flatMap, Xs]
  constructor
  · intro h a b c h1 h2 h3 h4
    have hm : (a, b, c) ∈ comb3 n := mem_comb3.2 ⟨h1, h2, h3, h4⟩
    constructor
    · exact (key1 _ _ _ (combId_pos h2) (combId_pos h3)).1
        (h (Con.clause _) ⟨(a, b, c), hm, List.mem_cons_self ..⟩)
    · exact (key2 _ _ _ (combId_pos (by omega))).1
        (h (Con.clause _) ⟨(a, b, c), hm, List.mem_cons_of_mem _ (List.mem_cons_self ..)⟩)
  · rintro h cc ⟨⟨a, b, c⟩, hm, hc⟩
    obtain ⟨h1, h2, h3, h4⟩ := mem_comb3.1 hm
    obtain ⟨p1, p2⟩ := h a b c h1 h2 h3 h4
    simp only [List.mem_cons, List.not_mem_nil, or_false] at hc
    rcases hc with rfl | rfl
    · exact (key1 _ _ _ (combId_pos h2) (combId_pos h3)).2 p1
    · exact (key2 _ _ _ (combId_pos (by omega))).2 p2

/-- the two clauses per triple are exactly transitivity of the induced (total, antisymmetric)
relation on all six orderings of the triple -/
theorem smart_trans_iff (n : Nat) (α : Assign) :
    (∀ a b c, 1 ≤ a → a < b → b < c → c ≤ n →
        (α (combId n a b) = true ∨ α (combId n b c) = true ∨ α (combId n a c) = false) ∧
        (α (combId n a b) = false ∨ α (combId n b c) = false ∨ α (combId n a c) = true)) ↔
    (∀ a b c, 1 ≤ a → a ≤ n → 1 ≤ b → b ≤ n → 1 ≤ c → c ≤ n → a ≠ b → a ≠ c → b ≠ c →
        RelS α n a b → RelS α n b c → RelS α n a c) := by
  constructor
  · intro h x y z hx1 hx2 hy1 hy2 hz1 hz2 hxy hxz hyz
    rcases Nat.lt_or_gt_of_ne hxy with h1 | h1 <;> rcases Nat.lt_or_gt_of_ne hxz with h2 | h2 <;>
      rcases Nat.lt_or_gt_of_ne hyz with h3 | h3
    · -- x < y < z
      obtain ⟨c1, c2⟩ := h x y z hx1 h1 h3 hz2
      rw [RelS_lt h1, RelS_lt h3, RelS_lt h2]; grind
    · -- x < z < y
      obtain ⟨c1, c2⟩ := h x z y hx1 h2 h3 hy2
      rw [RelS_lt h1, RelS_gt h3, RelS_lt h2]; grind
    · omega
    · -- z < x < y
      obtain ⟨c1, c2⟩ := h z x y hz1 h2 h1 hy2
      rw [RelS_lt h1, RelS_gt h3, RelS_gt h2]; grind
    · -- y < x < z
      obtain ⟨c1, c2⟩ := h y x z hy1 h1 h2 hz2
      rw [RelS_gt h1, RelS_lt h3, RelS_lt h2]; grind
    · omega
    · -- y < z < x
      obtain ⟨c1, c2⟩ := h y z x hy1 h3 h2 hx2
      rw [RelS_gt h1, RelS_lt h3, RelS_gt h2]; grind
    · -- z < y < x
      obtain ⟨c1, c2⟩ := h z y x hz1 h3 h1 hx2
      rw [RelS_gt h1, RelS_gt h3, RelS_gt h2]; grind
  · intro h a b c h1 h2 h3 h4
    have t1 := h a b c h1 (by omega) (by omega) (by omega) (by omega) h4 (by omega) (by omega) (by omega)
    have t2 := h b a c (by omega) (by omega) h1 (by omega) (by omega) h4 (by omega) (by omega) (by omega)
    rw [RelS_lt h2, RelS_lt h3, RelS_lt (by omega)] at t1
    rw [RelS_gt h2, RelS_lt (show a < c by omega), RelS_lt h3] at t2
    constructor
    · grind
    · grind

/-- exactly the documented axioms (smart encoding: `total` and `knuth` are ignored by the code) -/
theorem gop_smart_holds_iff (G : SimpleG) (total plant : Bool) (knuth : Int) (α : Assign) :
    (gop G total true plant knuth).holds α = true ↔ OrdSpec G true plant 0 (RelS α G.n) := by
  simp only [gop, if_true]
  rw [holds_append, nonminS_holds G, transSmart_holds, smart_trans_iff]
  constructor
  · rintro ⟨h1, h2⟩
    refine ⟨h1, fun a b c ha1 ha2 hb1 hb2 hc1 hc2 hab hac hbc _ => h2 a b c ha1 ha2 hb1 hb2 hc1 hc2 hab hac hbc, ?_, ?_⟩
    · intro a b _ hab _
      rw [RelS_lt hab, RelS_gt hab]
      cases α (combId G.n a b) <;> simp
    · intro _ a b _ hab _
      rw [RelS_lt hab, RelS_gt hab]
      cases α (combId G.n a b) <;> simp
  · intro h
    exact ⟨h.nonmin, fun a b c ha1 ha2 hb1 hb2 hc1 hc2 hab hac hbc =>
      h.trans a b c ha1 ha2 hb1 hb2 hc1 hc2 hab hac hbc (knuthKeep_zero a b c)⟩

theorem gop_smart_unsat (G : SimpleG) (hG : NbrsOK G) (hn : 1 ≤ G.n) (total : Bool) (knuth : Int) :
    ¬ ∃ α, (gop G total true false knuth).holds α = true := by
  rintro ⟨α, hα⟩
  exact ordSpec_false G hG hn true 0 _ ((gop_smart_holds_iff G total false knuth α).1 hα)

/-! ### variable count and well-formedness -/

theorem gop_nvars (G : SimpleG) (total plant : Bool) (knuth : Int) :
    (gop G total false plant knuth).nvars = G.n * (G.n - 1) := by simp [gop]

theorem gop_smart_nvars (G : SimpleG) (total plant : Bool) (knuth : Int) :
    (gop G total true plant knuth).nvars = G.n * (G.n - 1) / 2 := by simp [gop]

theorem X_ok {n u v : Nat} (hu : 1 ≤ u) (hun : u ≤ n) (hv : 1 ≤ v) (hvn : v ≤ n) (h : u ≠ v) :
    (X n u v ≠ 0 ∧ (X n u v).natAbs ≤ n * (n - 1)) ∧ (- X n u v ≠ 0 ∧ (- X n u v).natAbs ≤ n * (n - 1)) := by
  have h1 := permId_pos (n := n) hu hv h
  have h2 := permId_le hu hun hv hvn h
  unfold X; omega

theorem Xs_ok {n u v : Nat} (hu : 1 ≤ u) (h : u < v) (hvn : v ≤ n) :
    (Xs n u v ≠ 0 ∧ (Xs n u v).natAbs ≤ n * (n - 1) / 2) ∧
      (- Xs n u v ≠ 0 ∧ (- Xs n u v).natAbs ≤ n * (n - 1) / 2) := by
  have h1 := combId_pos (n := n) h
  have h2 := combId_le hu h hvn
  unfold Xs; omega

theorem below_ok {n u v : Nat} (hu : 1 ≤ u) (hun : u ≤ n) (hv : 1 ≤ v) (hvn : v ≤ n) (h : u ≠ v) :
    below n u v ≠ 0 ∧ (below n u v).natAbs ≤ n * (n - 1) / 2 := by
  unfold below
  split
  · rename_i hlt; exact (Xs_ok hu hlt hvn).1
  · exact (Xs_ok hv (by omega) hun).2

theorem gop_wf (G : SimpleG) (hG : NbrsOK G) (total smart plant : Bool) (knuth : Int) :
    (gop G total smart plant knuth).WF := by
  intro c hc l hl
  cases smart
  · simp only [gop, Bool.false_eq_true, if_false, List.mem_append] at hc ⊢
    rcases hc with ((hc | hc) | hc) | hc
    · simp only [nonmin, List.mem_map, List.mem_filter, mem_verts] at hc
      obtain ⟨v, ⟨⟨hv1, hv2⟩, _⟩, rfl⟩ := hc
      simp only [Con.lits, nonminClause, Bool.false_eq_true, if_false, List.mem_map] at hl
      obtain ⟨u, hu, rfl⟩ := hl
      have := hG v hv1 hv2 u hu
      exact (X_ok this.1 this.2.1 hv1 hv2 this.2.2).1
    · simp only [trans, List.mem_map, List.mem_filter] at hc
      obtain ⟨⟨a, b, cc⟩, ⟨hm, _⟩, rfl⟩ := hc
      obtain ⟨⟨h1, h2⟩, ⟨h3, h4⟩, ⟨h5, h6⟩, hab, hac, hbc⟩ := mem_perm3.1 hm
      simp only [Con.lits, List.mem_cons, List.not_mem_nil, or_false] at hl
      rcases hl with rfl | rfl | rfl
      · exact (X_ok h1 h2 h3 h4 hab).2
      · exact (X_ok h3 h4 h5 h6 hbc).2
      · exact (X_ok h1 h2 h5 h6 hac).1
    · simp only [antisym, List.mem_map] at hc
      obtain ⟨⟨a, b⟩, hm, rfl⟩ := hc
      obtain ⟨h1, h2, h3⟩ := mem_comb2.1 hm
      simp only [Con.lits, List.mem_cons, List.not_mem_nil, or_false] at hl
      rcases hl with rfl | rfl
      · exact (X_ok h1 (by omega) (by omega) h3 (by omega)).2
      · exact (X_ok (by omega) h3 h1 (by omega) (by omega)).2
    · cases total
      · simp at hc
      · simp only [if_true, totality, List.mem_map] at hc
        obtain ⟨⟨a, b⟩, hm, rfl⟩ := hc
        obtain ⟨h1, h2, h3⟩ := mem_comb2.1 hm
        simp only [Con.lits, List.mem_cons, List.not_mem_nil, or_false] at hl
        rcases hl with rfl | rfl
        · exact (X_ok h1 (by omega) (by omega) h3 (by omega)).1
        · exact (X_ok (by omega) h3 h1 (by omega) (by omega)).1
  · simp only [gop, if_true, List.mem_append] at hc ⊢
    rcases hc with hc | hc
    · simp only [nonmin, List.mem_map, List.mem_filter, mem_verts] at hc
      obtain ⟨v, ⟨⟨hv1, hv2⟩, _⟩, rfl⟩ := hc
      simp only [Con.lits, nonminClause, if_true, List.mem_map] at hl
      obtain ⟨u, hu, rfl⟩ := hl
      have := hG v hv1 hv2 u hu
      exact below_ok this.1 this.2.1 hv1 hv2 this.2.2
    · simp only [transSmart, List.mem_flatMap] at hc
      obtain ⟨⟨a, b, cc⟩, hm, hc⟩ := hc
      obtain ⟨h1, h2, h3, h4⟩ := mem_comb3.1 hm
      simp only [List.mem_cons, List.not_mem_nil, or_false] at hc
      rcases hc with rfl | rfl <;>
        simp only [Con.lits, List.mem_cons, List.not_mem_nil, or_false] at hl
      · rcases hl with rfl | rfl | rfl
        · exact (Xs_ok h1 h2 (by omega)).1
        · exact (Xs_ok (by omega) h3 h4).1
        · exact (Xs_ok h1 (by omega) h4).2
      · rcases hl with rfl | rfl | rfl
        · exact (Xs_ok h1 h2 (by omega)).2
        · exact (Xs_ok (by omega) h3 h4).2
        · exact (Xs_ok h1 (by omega) h4).1

/-! ### the complete graph and `OrderingPrinciple` -/

theorem verts_getD (n k : Nat) (h : k < n) : (verts n)[k]? = some (k + 1) := by
  simp [verts, h]

theorem completeG_nbrs (n v : Nat) (h1 : 1 ≤ v) (h2 : v ≤ n) :
    (completeG n).nbrs v = (verts n).filter (· != v) := by
  obtain ⟨k, rfl⟩ : ∃ k, v = k + 1 := ⟨v - 1, by omega⟩
  simp only [SimpleG.nbrs, completeG, List.getD_cons_succ]
  rw [List.getD_eq_getElem?_getD, List.getElem?_map, verts_getD n k (by omega)]
  rfl

theorem completeG_ok (n : Nat) : NbrsOK (completeG n) := by
  intro v h1 h2 u hu
  rw [completeG_nbrs n v h1 h2] at hu
  simp only [List.mem_filter, mem_verts, bne_iff_ne, ne_eq] at hu
  exact ⟨hu.1.1, hu.1.2, hu.2⟩

theorem op_eq (n : Nat) (total smart plant : Bool) (knuth : Int) :
    op (n : Int) total smart plant knuth = .ok (gop (completeG n) total smart plant knuth) := by
  simp [op]

theorem op_neg (size : Int) (h : size < 0) (total smart plant : Bool) (knuth : Int) :
    op size total smart plant knuth = .error .valueError := by
  simp [op, h]

/-! ### planted principle: satisfiable exactly when a suitable order exists -/

theorem permId_lt_of_lt {n a b c d : Nat} (ha : 1 ≤ a) (hb : 1 ≤ b) (hbn : b ≤ n) (hab : a ≠ b)
    (hd : 1 ≤ d) (hcd : c ≠ d) (hlt : a < c) (han : a ≤ n) : permId n a b < permId n c d := by
  obtain ⟨e, rfl⟩ : ∃ e, c = a + 1 + e := ⟨c - a - 1, by omega⟩
  obtain ⟨k, rfl⟩ : ∃ k, a = k + 1 := ⟨a - 1, by omega⟩
  unfold permId
  have e1 : (k + 1 + 1 + e - 1) * (n - 1) = k * (n - 1) + (n - 1) + e * (n - 1) := by
    have : k + 1 + 1 + e - 1 = k + 1 + e := by omega
    rw [this]; simp [Nat.add_mul]
  have e2 : (k + 1 - 1) * (n - 1) = k * (n - 1) := by simp
  rw [e1, e2]
  split <;> split <;> omega

theorem permId_inj {n u v u' v' : Nat} (hu : 1 ≤ u) (hun : u ≤ n) (hv : 1 ≤ v) (hvn : v ≤ n) (h : u ≠ v)
    (hu' : 1 ≤ u') (hun' : u' ≤ n) (hv' : 1 ≤ v') (hvn' : v' ≤ n) (h' : u' ≠ v')
    (heq : permId n u v = permId n u' v') : u = u' ∧ v = v' := by
  rcases Nat.lt_trichotomy u u' with hlt | he | hgt
  · have := permId_lt_of_lt hu hv hvn h hv' h' hlt hun; omega
  · subst he
    refine ⟨rfl, ?_⟩
    unfold permId at heq
    split at heq <;> split at heq <;> omega
  · have := permId_lt_of_lt hu' hv' hvn' h' hv h hgt hun'; omega

theorem combId_lt_of_lt {n a b c d : Nat} (ha : 1 ≤ a) (hab : a < b) (hbn : b ≤ n)
    (hcd : c < d) (hlt : a < c) : combId n a b < combId n c d := by
  have h1 : combOff n a = combOff n (a - 1) + (n - a) := by
    obtain ⟨k, rfl⟩ : ∃ k, a = k + 1 := ⟨a - 1, by omega⟩
    simp [combOff]
  have h2 := combOff_mono n (show a ≤ c - 1 by omega)
  unfold combId; omega

theorem combId_inj {n u v u' v' : Nat} (hu : 1 ≤ u) (h : u < v) (hvn : v ≤ n)
    (hu' : 1 ≤ u') (h' : u' < v') (hvn' : v' ≤ n)
    (heq : combId n u v = combId n u' v') : u = u' ∧ v = v' := by
  rcases Nat.lt_trichotomy u u' with hlt | he | hgt
  · have := combId_lt_of_lt hu h hvn h' hlt; omega
  · subst he; unfold combId at heq; omega
  · have := combId_lt_of_lt hu' h' hvn' h hgt; omega

/-- the specification only looks at `R` on pairs of distinct vertices -/
theorem ordSpec_congr (G : SimpleG) (hG : NbrsOK G) (total plant : Bool) (knuth : Int) (R R' : Nat → Nat → Prop)
    (h : ∀ u v, 1 ≤ u → u ≤ G.n → 1 ≤ v → v ≤ G.n → u ≠ v → (R u v ↔ R' u v))
    (hs : OrdSpec G total plant knuth R) : OrdSpec G total plant knuth R' := by
  refine ⟨?_, ?_, ?_, ?_⟩
  · intro v h1 h2 h3
    obtain ⟨u, hu, hR⟩ := hs.nonmin v h1 h2 h3
    have := hG v h1 h2 u hu
    exact ⟨u, hu, (h u v this.1 this.2.1 h1 h2 this.2.2).1 hR⟩
  · intro a b c h1 h2 h3 h4 h5 h6 hab hac hbc hk r1 r2
    exact (h a c h1 h2 h5 h6 hac).1 (hs.trans a b c h1 h2 h3 h4 h5 h6 hab hac hbc hk
      ((h a b h1 h2 h3 h4 hab).2 r1) ((h b c h3 h4 h5 h6 hbc).2 r2))
  · intro a b h1 h2 h3 hh
    exact hs.antisym a b h1 h2 h3 ⟨(h a b h1 (by omega) (by omega) h3 (by omega)).2 hh.1,
      (h b a (by omega) h3 h1 (by omega) (by omega)).2 hh.2⟩
  · intro ht a b h1 h2 h3
    rcases hs.total ht a b h1 h2 h3 with r | r
    · exact Or.inl ((h a b h1 (by omega) (by omega) h3 (by omega)).1 r)
    · exact Or.inr ((h b a (by omega) h3 h1 (by omega) (by omega)).1 r)

/-- satisfiable exactly when a relation with the documented properties exists (in particular,
planted: an order in which only the last vertex may lack a smaller neighbour) -/
theorem gop_sat_iff (G : SimpleG) (hG : NbrsOK G) (total plant : Bool) (knuth : Int) :
    (∃ α, (gop G total false plant knuth).holds α = true) ↔ ∃ R, OrdSpec G total plant knuth R := by
  constructor
  · rintro ⟨α, hα⟩; exact ⟨_, (gop_holds_iff G hG total plant knuth α).1 hα⟩
  · rintro ⟨R, hR⟩
    haveI := Classical.propDecidable
    let α : Assign := fun i => decide (∃ u v, 1 ≤ u ∧ u ≤ G.n ∧ 1 ≤ v ∧ v ≤ G.n ∧ u ≠ v ∧ permId G.n u v = i ∧ R u v)
    refine ⟨α, (gop_holds_iff G hG total plant knuth α).2 (ordSpec_congr G hG total plant knuth R _ ?_ hR)⟩
    intro u v h1 h2 h3 h4 hne
    simp only [Rel, α, decide_eq_true_eq]
    constructor
    · intro hr; exact ⟨u, v, h1, h2, h3, h4, hne, rfl, hr⟩
    · rintro ⟨u', v', g1, g2, g3, g4, gne, heq, hr⟩
      obtain ⟨rfl, rfl⟩ := permId_inj g1 g2 g3 g4 gne h1 h2 h3 h4 hne heq
      exact hr

theorem gop_smart_sat_iff (G : SimpleG) (hG : NbrsOK G) (total plant : Bool) (knuth : Int) :
    (∃ α, (gop G total true plant knuth).holds α = true) ↔ ∃ R, OrdSpec G true plant 0 R := by
  constructor
  · rintro ⟨α, hα⟩; exact ⟨_, (gop_smart_holds_iff G total plant knuth α).1 hα⟩
  · rintro ⟨R, hR⟩
    haveI := Classical.propDecidable
    let α : Assign := fun i => decide (∃ u v, 1 ≤ u ∧ u < v ∧ v ≤ G.n ∧ combId G.n u v = i ∧ R u v)
    refine ⟨α, (gop_smart_holds_iff G total plant knuth α).2 (ordSpec_congr G hG true plant 0 R _ ?_ hR)⟩
    have key : ∀ u v, 1 ≤ u → u < v → v ≤ G.n → (α (combId G.n u v) = true ↔ R u v) := by
      intro u v h1 h2 h3
      simp only [α, decide_eq_true_eq]
      constructor
      · rintro ⟨u', v', g1, g2, g3, heq, hr⟩
        obtain ⟨rfl, rfl⟩ := combId_inj g1 g2 g3 h1 h2 h3 heq
        exact hr
      · intro hr; exact ⟨u, v, h1, h2, h3, rfl, hr⟩
    intro u v h1 h2 h3 h4 hne
    rcases Nat.lt_or_gt_of_ne hne with hlt | hlt
    · rw [RelS_lt hlt]; exact (key u v h1 hlt h4).symm
    · rw [RelS_gt hlt]
      have k := key v u h3 hlt h2
      have t := hR.total rfl v u h3 hlt h2
      have a := hR.antisym v u h3 hlt h2
      constructor
      · intro hr
        cases hα : α (combId G.n v u)
        · rfl
        · exact absurd ⟨k.1 hα, hr⟩ a
      · intro hf
        rcases t with t | t
        · rw [k.2 t] at hf; cases hf
        · exact t

/-- the order `n < n-1 < … < 1` (the allowed minimum is the last vertex) -/
theorem completeG_planted_spec (n : Nat) (total : Bool) (knuth : Int) :
    OrdSpec (completeG n) total true knuth (fun u v => v < u) := by
  refine ⟨?_, ?_, ?_, ?_⟩
  · intro v h1 h2 h3
    have hn : (completeG n).n = n := rfl
    rw [hn] at h2 h3
    refine ⟨n, ?_, by simp at h3; omega⟩
    rw [completeG_nbrs n v h1 h2]
    simp only [List.mem_filter, mem_verts, bne_iff_ne, ne_eq]
    simp at h3
    omega
  · intro a b c _ _ _ _ _ _ _ _ _ _ r1 r2; omega
  · intro a b _ _ _ hh; omega
  · intro _ a b _ hab _; exact Or.inr hab

theorem op_planted_sat (n : Nat) (total smart : Bool) (knuth : Int) :
    ∃ α, (gop (completeG n) total smart true knuth).holds α = true := by
  cases smart
  · exact (gop_sat_iff _ (completeG_ok n) total true knuth).2 ⟨_, completeG_planted_spec n total knuth⟩
  · exact (gop_smart_sat_iff _ (completeG_ok n) total true knuth).2 ⟨_, completeG_planted_spec n true 0⟩

end Cnfgen.Fam.Ordering
