/-
Boolean checkers for the graph hypotheses used by the C03 (ordering / pebbling) theorems, so that
they can be discharged by `decide` on concrete graph objects (non-vacuity examples).
-/
import Lemmas.FamPebbling
import Lemmas.FamStone
import Lemmas.FamOrdering
namespace Cnfgen.FamC03a
open Cnfgen.Fam

def topoDAGb (D : DiG) : Bool :=
  (Pebbling.verts D.n).all fun v =>
    (D.preds v).all (fun p => decide (1 ≤ p) && decide (p < v)) &&
    (D.succs v).all (fun s => decide (v < s) && decide (s ≤ D.n))

theorem topoDAG_of_b (D : DiG) (h : topoDAGb D = true) : Pebbling.TopoDAG D := by
  simp only [topoDAGb, List.all_eq_true, Bool.and_eq_true, decide_eq_true_eq, Pebbling.mem_verts] at h
  exact ⟨fun v h1 h2 p hp => (h v ⟨h1, h2⟩).1 p hp, fun v h1 h2 s hs => (h v ⟨h1, h2⟩).2 s hs⟩

def nbrsOKb (G : SimpleG) : Bool :=
  (Ordering.verts G.n).all fun v =>
    (G.nbrs v).all (fun u => decide (1 ≤ u) && decide (u ≤ G.n) && decide (u ≠ v))

theorem nbrsOK_of_b (G : SimpleG) (h : nbrsOKb G = true) : Ordering.NbrsOK G := by
  simp only [nbrsOKb, List.all_eq_true, Bool.and_eq_true, decide_eq_true_eq, Ordering.mem_verts] at h
  intro v h1 h2 u hu
  have := h v ⟨h1, h2⟩ u hu
  exact ⟨this.1.1, this.1.2, this.2⟩

def bipOKb (B : BipG) : Bool :=
  ((Pebbling.verts B.l).all fun u => (B.rnbrs u).all (fun j => decide (1 ≤ j) && decide (j ≤ B.r))) &&
  decide (((List.range B.l).map (fun i => (B.rnbrs (i + 1)).length)).sum = B.numberOfEdges)

theorem bipOK_of_b (B : BipG) (h : bipOKb B = true) : Pebbling.BipOK B := by
  simp only [bipOKb, List.all_eq_true, Bool.and_eq_true, decide_eq_true_eq, Pebbling.mem_verts] at h
  exact ⟨fun u h1 h2 j hj => h.1 u ⟨h1, h2⟩ j hj, h.2⟩

/-- unsatisfiability of the abstract formula transfers to both renderings -/
theorem unsat_rendered (F : Formula) (hwf : F.WF) (h : ¬ ∃ α, F.holds α = true) :
    (¬ ∃ α, F.toCNF.holds α = true) ∧ (¬ ∃ α, F.toOPB.holds α = true) := by
  constructor
  · rintro ⟨α, hα⟩; exact h ⟨α, by rwa [Formula.toCNF_holds α F hwf] at hα⟩
  · rintro ⟨α, hα⟩; exact h ⟨α, by rwa [Formula.toOPB_holds α F hwf] at hα⟩

theorem sat_rendered (F : Formula) (hwf : F.WF) (h : ∃ α, F.holds α = true) :
    (∃ α, F.toCNF.holds α = true) ∧ (∃ α, F.toOPB.holds α = true) := by
  obtain ⟨α, hα⟩ := h
  exact ⟨⟨α, by rwa [Formula.toCNF_holds α F hwf]⟩, ⟨α, by rwa [Formula.toOPB_holds α F hwf]⟩⟩

end Cnfgen.FamC03a
