/-
Lemmas about the LaTeX token rows: page blocks, frames, and the specification-side row readers.
-/
import Lemmas.IODimacs
import CnfgenModel.IO.Latex
namespace Cnfgen.IO

/-! ### page blocks -/

theorem pageBlocks_flatten {α} (k : Nat) : ∀ (l : List α) (i : Nat), (pageBlocks k i l).flatten = l
  | [], _ => rfl
  | [_], _ => rfl
  | r :: r' :: rs, i => by
    have ih := pageBlocks_flatten k (r' :: rs) (i + 1)
    rw [pageBlocks]
    split
    · simp [ih]
    · split
      · rename_i b bs heq
        rw [heq] at ih
        simp only [List.flatten_cons] at ih ⊢
        simp [ih]
      · rename_i heq
        rw [heq] at ih
        simp at ih

theorem pageBlocks_nonempty {α} (k : Nat) : ∀ (l : List α) (i : Nat), ∀ b ∈ pageBlocks k i l, b ≠ []
  | [], _, b, h => by simp [pageBlocks] at h
  | [_], _, b, h => by simp [pageBlocks] at h; subst h; simp
  | r :: r' :: rs, i, b, h => by
    have ih := pageBlocks_nonempty k (r' :: rs) (i + 1)
    rw [pageBlocks] at h
    split at h
    · rcases List.mem_cons.1 h with e | e
      · subst e; simp
      · exact ih b e
    · split at h
      · rename_i b' bs heq
        rcases List.mem_cons.1 h with e | e
        · subst e; simp
        · exact ih b (by rw [heq]; simp [e])
      · simp at h; subst h; simp

/-- with a positive page size, no block is longer than a page when the first row's index
is `i`: the first block has at most `k - i % k` rows, the others at most `k` -/
theorem pageBlocks_length {α} (k : Nat) (hk : 0 < k) : ∀ (l : List α) (i : Nat),
    (∀ b ∈ pageBlocks k i l, b.length ≤ k) ∧ (∀ b bs, pageBlocks k i l = b :: bs → b.length ≤ k - i % k)
  | [], _ => by simp [pageBlocks]
  | [_], i => by
    have : i % k < k := Nat.mod_lt _ hk
    simp [pageBlocks]; omega
  | r :: r' :: rs, i => by
    have ih := pageBlocks_length k hk (r' :: rs) (i + 1)
    have hm : i % k < k := Nat.mod_lt _ hk
    rw [pageBlocks]
    split
    · rename_i hsplit
      refine ⟨?_, ?_⟩
      · intro b hb
        rcases List.mem_cons.1 hb with e | e
        · subst e; simp; omega
        · exact ih.1 b e
      · intro b bs e
        simp at e; obtain ⟨rfl, _⟩ := e
        simp; omega
    · rename_i hsplit
      have hns : (i + 1) % k ≠ 0 := by intro e; exact hsplit ⟨hk, e⟩
      have hmod : (i + 1) % k = i % k + 1 := by
        have hk2 : 2 ≤ k := by
          rcases Nat.lt_or_ge k 2 with h | h
          · exfalso; apply hns
            have : k = 1 := by omega
            subst this; exact Nat.mod_one _
          · exact h
        have h1 : 1 % k = 1 := Nat.mod_eq_of_lt (by omega)
        have h2 : (i + 1) % k = (i % k + 1) % k := by rw [Nat.add_mod, h1]
        rcases Nat.lt_or_ge (i % k + 1) k with h | h
        · rw [h2, Nat.mod_eq_of_lt h]
        · exfalso; apply hns
          have : i % k + 1 = k := by omega
          rw [h2, this, Nat.mod_self]
      split
      · rename_i b' bs heq
        have hb' := ih.2 b' bs heq
        refine ⟨?_, ?_⟩
        · intro b hb
          rcases List.mem_cons.1 hb with e | e
          · subst e; simp; omega
          · exact ih.1 b (by rw [heq]; simp [e])
        · intro b bs' e
          simp at e; obtain ⟨rfl, _⟩ := e
          simp; omega
      · refine ⟨?_, ?_⟩
        · intro b hb; simp at hb; subst hb; simp; omega
        · intro b bs' e; simp at e; obtain ⟨rfl, _⟩ := e; simp; omega

/-- two lists related element by element -/
inductive AllRel {α β} (R : α → β → Prop) : List α → List β → Prop
  | nil : AllRel R [] []
  | cons {a b as bs} : R a b → AllRel R as bs → AllRel R (a :: as) (b :: bs)

/-! ### literal tokens -/

/-- shape shared by all literal texts: `{…` or `\o…` -/
def litLike : Tok → Bool
  | .word (c :: d :: _) => c == '{' || (c == '\\' && d == 'o')
  | _ => false

theorem litLike_litCore (nm : Str) (neg : Bool) : litLike (.word (litCore nm neg)) = true := by
  cases neg
  · cases nm <;> simp [litCore, litLike]
  · simp only [litCore, if_true]
    split <;> simp [litLike, overlineOpen]

theorem enumFrom_mem {α} : ∀ (l : List α) (i j : Nat) (x : α), l[j]? = some x → (i + j, x) ∈ enumFrom i l
  | [], _, j, x, h => by simp at h
  | y :: ys, i, 0, x, h => by simp at h; subst h; simp [enumFrom]
  | y :: ys, i, j + 1, x, h => by
    simp at h
    have := enumFrom_mem ys (i + 1) j x h
    simp only [enumFrom, List.mem_cons]
    right
    have e : i + (j + 1) = i + 1 + j := by omega
    rw [e]; exact this

theorem lookup_of_mem_nodup {β} : ∀ (tbl : List (Str × β)) (k : Str) (v : β),
    (tbl.map Prod.fst).Nodup → (k, v) ∈ tbl → tbl.lookup k = some v
  | [], _, _, _, h => by simp at h
  | (k', v') :: tbl, k, v, hn, h => by
    simp only [List.map_cons, List.nodup_cons] at hn
    rw [List.lookup_cons]
    rcases List.mem_cons.1 h with e | e
    · simp at e; obtain ⟨rfl, rfl⟩ := e; simp
    · have hne : k ≠ k' := by
        intro ee; subst ee
        exact hn.1 (List.mem_map.2 ⟨(k, v), e, rfl⟩)
      have : (k == k') = false := by simpa using hne
      rw [this]
      exact lookup_of_mem_nodup tbl k v hn.2 e

/-- the literal table is injective: pairwise distinct literal texts -/
def TableOK (names : List Str) : Prop := ((litTable names).map Prod.fst).Nodup

theorem readLit_latexLitTok (names : List Str) (hT : TableOK names) (l : Int) (t : Tok)
    (h : latexLitTok names l = .ok t) : readLit (litTable names) t = .ok l ∧ litLike t = true := by
  unfold latexLitTok at h
  split at h
  · simp at h
  · rename_i h0
    split at h
    · simp at h
    · rename_i nm hnm
      simp at h; subst h
      refine ⟨?_, litLike_litCore _ _⟩
      have h1 : 1 ≤ l.natAbs := by omega
      have hmem : (l.natAbs, nm) ∈ enum1 names := by
        have := enumFrom_mem names 1 (l.natAbs - 1) nm hnm
        have e : 1 + (l.natAbs - 1) = l.natAbs := by omega
        rw [e] at this; exact this
      have hin : (litCore nm (decide (l < 0)), l) ∈ litTable names := by
        simp only [litTable, List.mem_flatMap]
        refine ⟨(l.natAbs, nm), hmem, ?_⟩
        by_cases hl : l < 0
        · have : -((l.natAbs : Nat) : Int) = l := by omega
          simp [hl, this]
        · have : ((l.natAbs : Nat) : Int) = l := by omega
          simp [hl, this]
      simp [readLit, lookup_of_mem_nodup _ _ _ hT hin]

/-! ### frames -/

/-- a row content the frame can be removed from unambiguously -/
def SafeCore (core : Row) : Prop :=
  core ≠ [] ∧ core.head? ≠ some (W "\\land") ∧ core.getLast? ≠ some (W "\\\\")

theorem dropFrame_land (Y : Row) :
    dropFrame (W "&" :: W "\\land" :: Y) = .ok (if Y.getLast? = some (W "\\\\") then Y.dropLast else Y) := by
  simp [dropFrame]

theorem dropFrame_noland (c0 : Tok) (Y : Row) (h : c0 ≠ W "\\land") :
    dropFrame (W "&" :: c0 :: Y) =
      .ok (if (c0 :: Y).getLast? = some (W "\\\\") then (c0 :: Y).dropLast else c0 :: Y) := by
  simp [dropFrame, h]

theorem dropFrame_frame (land last : Bool) (core : Row) (h : SafeCore core) :
    dropFrame (frame land last core) = .ok core := by
  obtain ⟨hne, hh, hl⟩ := h
  obtain ⟨c0, cs, rfl⟩ := List.exists_cons_of_ne_nil hne
  have hc0 : c0 ≠ W "\\land" := by simpa using hh
  have e1 : (c0 :: cs ++ [W "\\\\"]).getLast? = some (W "\\\\") := List.getLast?_concat
  have e2 : (c0 :: cs ++ [W "\\\\"]).dropLast = c0 :: cs := List.dropLast_concat
  cases land <;> cases last
  · have : frame false false (c0 :: cs) = W "&" :: c0 :: (cs ++ [W "\\\\"]) := by simp [frame]
    rw [this, dropFrame_noland _ _ hc0]
    have e1' : (c0 :: (cs ++ [W "\\\\"])).getLast? = some (W "\\\\") := e1
    have e2' : (c0 :: (cs ++ [W "\\\\"])).dropLast = c0 :: cs := e2
    rw [e1', e2']; simp
  · have : frame false true (c0 :: cs) = W "&" :: c0 :: cs := by simp [frame]
    rw [this, dropFrame_noland _ _ hc0]
    simp [hl]
  · have : frame true false (c0 :: cs) = W "&" :: W "\\land" :: (c0 :: cs ++ [W "\\\\"]) := by simp [frame]
    rw [this, dropFrame_land, e1, e2]; simp
  · have : frame true true (c0 :: cs) = W "&" :: W "\\land" :: (c0 :: cs) := by simp [frame]
    rw [this, dropFrame_land]
    simp [hl]

/-- `t₁ sep t₂ sep … tₙ` -/
theorem sepBy_singletons (sep : Tok) : ∀ (t : Tok) (ts : List Tok),
    sepBy sep ((t :: ts).map (fun x => [x])) = t :: ts.flatMap (fun x => [sep, x])
  | t, [] => by simp [sepBy]
  | t, t' :: ts => by
    have ih := sepBy_singletons sep t' ts
    simp only [List.map_cons] at ih ⊢
    simp [sepBy, ih]

theorem getLast?_seps (sep : Tok) : ∀ (t : Tok) (ts : List Tok),
    (t :: ts.flatMap (fun x => [sep, x])).getLast? = (t :: ts).getLast?
  | t, [] => by simp
  | t, t' :: ts => by
    have ih := getLast?_seps sep t' ts
    simp only [List.flatMap_cons, List.cons_append, List.nil_append, List.getLast?_cons_cons] at ih ⊢
    exact ih

theorem readDisj_seps (tbl : List (Str × Int)) : ∀ (t : Tok) (ts : List Tok) (l : Int) (ls : List Int),
    readLit tbl t = .ok l → AllRel (fun t l => readLit tbl t = .ok l) ts ls →
    readDisj tbl (t :: ts.flatMap (fun x => [W "\\lor", x])) = .ok (l :: ls)
  | t, [], l, ls, h, hf => by cases hf; simp [readDisj, h]
  | t, t' :: ts, l, ls, h, hf => by
    cases hf with
    | cons h' hf' =>
      rename_i l' ls'
      have ih := readDisj_seps tbl t' ts l' ls' h' hf'
      simp only [List.flatMap_cons, List.cons_append, List.nil_append]
      rw [readDisj]
      simp [h, ih]

theorem mapM_forall₂ {α β} (f : α → Except Err β) : ∀ (xs : List α) (ys : List β),
    xs.mapM f = .ok ys → AllRel (fun x y => f x = .ok y) xs ys
  | [], ys, h => by simp [pure, Except.pure] at h; subst h; exact .nil
  | x :: xs, ys, h => by
    rw [List.mapM_cons] at h
    cases hx : f x with
    | error e => simp [hx] at h
    | ok y =>
      cases hxs : xs.mapM f with
      | error e => simp [hx, hxs, Functor.map, Except.map] at h
      | ok ys' =>
        simp [hx, hxs, pure, Except.pure] at h; subst h
        exact .cons hx (mapM_forall₂ f xs ys' hxs)

theorem allRel_lits (names : List Str) (hT : TableOK names) : ∀ (cs : List Int) (ts : List Tok),
    AllRel (fun x y => latexLitTok names x = .ok y) cs ts →
    AllRel (fun t l => readLit (litTable names) t = .ok l) ts cs ∧ ∀ y ∈ ts, litLike y = true := by
  intro cs ts h
  induction h with
  | nil => exact ⟨.nil, by simp⟩
  | cons hx _ ih =>
    obtain ⟨h1, h2⟩ := readLit_latexLitTok names hT _ _ hx
    refine ⟨.cons h1 ih.1, ?_⟩
    intro y hy
    rcases List.mem_cons.1 hy with e | e
    · subst e; exact h2
    · exact ih.2 y e

/-- T-C12.2 (clause rows): content of a clause row → the clause, and the content is frame-safe -/
theorem clauseCore_read (names : List Str) (hT : TableOK names) (compact : Bool) (c : Clause) (core : Row)
    (h : clauseCore names compact c = .ok core) :
    SafeCore core ∧ ∀ land last, readClauseRow names (frame land last core) = .ok c := by
  unfold clauseCore at h
  split at h
  · rename_i he
    have hc : c = [] := by simpa using he
    simp at h; subst h; subst hc
    have hs : SafeCore [W "\\square"] := ⟨by simp, by simp [W], by simp [W]⟩
    refine ⟨hs, fun land last => ?_⟩
    simp [readClauseRow, dropFrame_frame land last _ hs]
  · rename_i hne
    cases hm : c.mapM (latexLitTok names) with
    | error e => simp [hm] at h
    | ok ls =>
      simp only [hm] at h
      have hf := mapM_forall₂ _ c ls hm
      cases hf with
      | nil => simp at hne
      | cons h1 hrest =>
        rename_i l t cs ts
        obtain ⟨hr1, hl1⟩ := readLit_latexLitTok names hT l t h1
        obtain ⟨hrest', hall'⟩ := allRel_lits names hT cs ts hrest
        have hlast : ∀ x, (t :: ts).getLast? = some x → litLike x = true := by
          intro x hx
          rcases List.mem_cons.1 (List.mem_of_getLast? hx) with e | e
          · subst e; exact hl1
          · exact hall' x e
        have hbody : sepBy (W "\\lor") ((t :: ts).map (fun x => [x])) = t :: ts.flatMap (fun x => [W "\\lor", x]) :=
          sepBy_singletons _ t ts
        have hdisj := readDisj_seps (litTable names) t ts l cs hr1 hrest'
        have ht_ne : ∀ k : Tok, litLike k = false → t ≠ k := by intro k hk e; rw [e] at hl1; simp [hk] at hl1
        rw [hbody] at h
        generalize hX : ts.flatMap (fun x => [W "\\lor", x]) = X at h hdisj
        have hXlast : (t :: X).getLast? = (t :: ts).getLast? := by rw [← hX]; exact getLast?_seps _ t ts
        cases compact
        · -- not compact: the bare disjunction
          have hcore : core = t :: X := by simpa using h.symm
          subst hcore
          have hs : SafeCore (t :: X) := by
            refine ⟨by simp, ?_, ?_⟩
            · simpa using ht_ne (W "\\land") (by decide)
            · rw [hXlast]
              intro e
              have := hlast _ e
              revert this; decide
          refine ⟨hs, fun land last => ?_⟩
          have h1' : t ≠ W "\\square" := ht_ne _ (by decide)
          have h2' : t ≠ W "\\left(" := ht_ne _ (by decide)
          simp [readClauseRow, dropFrame_frame land last _ hs, h1', h2', hdisj]
        · have hcore : core = W "\\left(" :: t :: (X ++ [W "\\right)"]) := by simpa using h.symm
          subst hcore
          have e1 : (t :: (X ++ [W "\\right)"])).getLast? = some (W "\\right)") :=
            List.getLast?_concat (l := t :: X)
          have e2 : (t :: (X ++ [W "\\right)"])).dropLast = t :: X := List.dropLast_concat (l₁ := t :: X)
          have hs : SafeCore (W "\\left(" :: t :: (X ++ [W "\\right)"])) := by
            refine ⟨by simp, by simp [W], ?_⟩
            rw [List.getLast?_cons_cons, e1]
            simp [W]
          refine ⟨hs, fun land last => ?_⟩
          rw [readClauseRow, dropFrame_frame land last _ hs]
          have hsq : (W "\\left(" :: t :: (X ++ [W "\\right)"])) ≠ [W "\\square"] := by simp
          simp only [hsq, if_false, true_and, e1, e2, if_true]
          exact hdisj

/-! ### constraint rows -/

/-- `termToks` of a term whose literal resolves -/
theorem termToks_ok (names : List Str) (hT : TableOK names) (t : Int × Int) (g : List Tok)
    (h : termToks names t = .ok g) :
    ∃ lt, readLit (litTable names) lt = .ok t.2 ∧ litLike lt = true ∧
      g = (if t.1 = 1 then [lt] else [.int t.1, lt]) := by
  unfold termToks at h
  split at h
  · simp at h
  · rename_i lt hlt
    simp at h
    obtain ⟨h1, h2⟩ := readLit_latexLitTok names hT _ _ hlt
    exact ⟨lt, h1, h2, h.symm⟩

theorem readLit_litLike (tbl : List (Str × Int)) (t : Tok) (l : Int) (h : readLit tbl t = .ok l) :
    ∃ s, t = .word s := by
  cases t with
  | word s => exact ⟨s, rfl⟩
  | int i => simp [readLit] at h
  | xvar a b => simp [readLit] at h

/-- reading `g₁ + g₂ + … + gₙ tail` -/
theorem readSum_groups (names : List Str) (hT : TableOK names) (tail : Row)
    (htail : tail.head? ≠ some (W "+")) :
    ∀ (ts : List (Int × Int)) (gs : List (List Tok)) (fuel : Nat), ts ≠ [] →
      AllRel (fun t g => termToks names t = .ok g) ts gs → ts.length ≤ fuel →
      readSum (litTable names) fuel (sepBy (W "+") gs ++ tail) = .ok (ts, tail)
  | [], _, _, hne, _, _ => absurd rfl hne
  | t :: ts, gs, fuel, _, hrel, hfuel => by
    cases hrel with
    | cons hg hrest =>
      rename_i g gs'
      obtain ⟨lt, hlt, hlike, rfl⟩ := termToks_ok names hT t g hg
      obtain ⟨s, rfl⟩ := readLit_litLike _ _ _ hlt
      obtain ⟨fuel', rfl⟩ : ∃ f', fuel = f' + 1 := ⟨fuel - 1, by simp at hfuel; omega⟩
      cases ts with
      | nil =>
        cases hrest
        -- last term: followed by the tail
        cases tail with
        | nil =>
          by_cases h1 : t.1 = 1
          · simp [sepBy, h1, readSum, hlt]
            exact Prod.ext h1.symm rfl
          · simp [sepBy, h1, readSum, hlt]
        | cons a tl =>
          have ha : a ≠ W "+" := by simpa using htail
          by_cases h1 : t.1 = 1
          · simp [sepBy, h1, readSum, hlt, ha]
            exact Prod.ext h1.symm rfl
          · simp [sepBy, h1, readSum, hlt, ha]
      | cons t' ts' =>
        cases hrest with
        | cons hg' hrest' =>
          rename_i g' gs''
          have ih := readSum_groups names hT tail htail (t' :: ts') (g' :: gs'') fuel' (by simp)
            (.cons hg' hrest') (by simp at hfuel ⊢; omega)
          have hsep : ∀ g0 : List Tok, sepBy (W "+") (g0 :: g' :: gs'') = g0 ++ W "+" :: sepBy (W "+") (g' :: gs'') := by
            intro g0; simp [sepBy]
          rw [hsep]
          by_cases h1 : t.1 = 1
          · simp only [h1, if_true, List.cons_append, List.nil_append]
            rw [readSum]
            · simp only [hlt, if_true]
              simp [ih]
              exact Prod.ext h1.symm rfl
            · intro c t rest e; cases e
          · simp only [h1, if_false, List.cons_append, List.nil_append]
            rw [readSum]
            simp only [hlt, if_true]
            simp [ih]

theorem termToks_len (names : List Str) (t : Int × Int) (g : List Tok) (h : termToks names t = .ok g) :
    1 ≤ g.length := by
  unfold termToks at h
  split at h
  · simp at h
  · simp at h; subst h; split <;> simp

theorem sepBy_length (names : List Str) (sep : Tok) : ∀ (ts : List (Int × Int)) (gs : List (List Tok)),
    AllRel (fun t g => termToks names t = .ok g) ts gs → ts.length ≤ (sepBy sep gs).length := by
  intro ts gs h
  induction h with
  | nil => simp [sepBy]
  | cons hg hrest ih =>
    rename_i t g ts' gs'
    have := termToks_len names t g hg
    cases hrest with
    | nil => simp [sepBy]; omega
    | cons hg' hrest' =>
      simp only [sepBy, List.length_append, List.length_cons] at ih ⊢
      omega

theorem sepBy_cons_prefix (sep : Tok) (g : List Tok) (gs : List (List Tok)) :
    ∃ rest, sepBy sep (g :: gs) = g ++ rest := by
  cases gs with
  | nil => exact ⟨[], by simp [sepBy]⟩
  | cons g' gs' => exact ⟨sep :: sepBy sep (g' :: gs'), by simp [sepBy]⟩

/-- T-C12.2 (constraint rows): content of a constraint row → the constraint -/
theorem constraintCore_read (names : List Str) (hT : TableOK names) (c : PBC) (hop : c.op = .ge ∨ c.op = .eq)
    (core : Row) (h : constraintCore names c = .ok core) :
    SafeCore core ∧ ∀ land last, readConstraintRow names (frame land last core) = .ok c := by
  obtain ⟨ts, o, d⟩ := c
  simp only at hop
  have hfin : readRel ts [Tok.word (latexOpText o), Tok.int d] = .ok ⟨ts, o, d⟩ := by
    rcases hop with rfl | rfl <;> simp [readRel, latexOpText]
  unfold constraintCore at h
  simp only at h
  by_cases hemp : ts.isEmpty = true
  · have hts : ts = [] := by simpa using hemp
    subst hts
    simp at h; subst h
    have hs : SafeCore [Tok.int 0, Tok.word (latexOpText o), Tok.int d] := ⟨by simp, by simp [W], by simp [W]⟩
    refine ⟨hs, fun land last => ?_⟩
    rw [readConstraintRow, dropFrame_frame land last _ hs]
    simp only [readLhs]
    exact hfin
  · simp only [hemp] at h
    cases hm : ts.mapM (termToks names) with
    | error e => simp [hm] at h
    | ok gs =>
      simp [hm] at h
      have hrel := mapM_forall₂ _ ts gs hm
      have hne : ts ≠ [] := by simpa using hemp
      obtain ⟨t, ts', rfl⟩ := List.exists_cons_of_ne_nil hne
      cases hrel with
      | cons hg hrest =>
        rename_i g gs'
        obtain ⟨lt, hlt, hlike, hgshape⟩ := termToks_ok names hT t g hg
        obtain ⟨s, rfl⟩ := readLit_litLike _ _ _ hlt
        obtain ⟨rest, hrest_eq⟩ := sepBy_cons_prefix (W "+") g gs'
        have hlen := sepBy_length names (W "+") (t :: ts') (g :: gs') (.cons hg hrest)
        have hsum := readSum_groups names hT [Tok.word (latexOpText o), Tok.int d]
          (by rcases hop with rfl | rfl <;> simp [latexOpText, W]) (t :: ts') (g :: gs')
          (sepBy (W "+") (g :: gs') ++ [Tok.word (latexOpText o), Tok.int d]).length (by simp)
          (.cons hg hrest) (by simp only [List.length_append]; omega)
        subst h
        have hs : SafeCore (sepBy (W "+") (g :: gs') ++ [Tok.word (latexOpText o), Tok.int d]) := by
          refine ⟨by simp, ?_, ?_⟩
          · rw [hrest_eq, hgshape]
            split
            · have : Tok.word s ≠ W "\\land" := by
                intro e; rw [e] at hlike; revert hlike; decide
              simpa using this
            · simp [W]
          · have : (sepBy (W "+") (g :: gs') ++ [Tok.word (latexOpText o), Tok.int d]).getLast? = some (Tok.int d) := by
              rw [List.getLast?_append]; simp
            rw [this]; simp [W]
        have hlhs : readLhs (litTable names) (sepBy (W "+") (g :: gs') ++ [Tok.word (latexOpText o), Tok.int d]) =
            .ok (t :: ts', [Tok.word (latexOpText o), Tok.int d]) := by
          unfold readLhs
          split
          · rename_i w d' heq
            exfalso
            rw [hrest_eq, hgshape] at heq
            split at heq
            · simp at heq
            · have := congrArg List.length heq
              simp at this
          · exact hsum
        refine ⟨hs, fun land last => ?_⟩
        rw [readConstraintRow, dropFrame_frame land last _ hs]
        simp only [hlhs]
        exact hfin

/-! ### rows in order -/

theorem AllRel.append {α β} {R : α → β → Prop} : ∀ {a1 : List α} {b1 : List β} {a2 : List α} {b2 : List β},
    AllRel R a1 b1 → AllRel R a2 b2 → AllRel R (a1 ++ a2) (b1 ++ b2)
  | _, _, _, _, .nil, h2 => h2
  | _, _, _, _, .cons h h1, h2 => .cons h (AllRel.append h1 h2)

theorem AllRel.flip {α β} {R : α → β → Prop} : ∀ {a : List α} {b : List β},
    AllRel R a b → AllRel (fun y x => R x y) b a
  | _, _, .nil => .nil
  | _, _, .cons h h1 => .cons h (AllRel.flip h1)

theorem AllRel.comp {α β γ} {R : α → β → Prop} {S : β → γ → Prop} {T : α → γ → Prop}
    (hT : ∀ a b c, R a b → S b c → T a c) : ∀ {a : List α} {b : List β} {c : List γ},
    AllRel R a b → AllRel S b c → AllRel T a c
  | _, _, _, .nil, .nil => .nil
  | _, _, _, .cons h h1, .cons k k1 => .cons (hT _ _ _ h k) (AllRel.comp hT h1 k1)

theorem AllRel.mono {α β} {R S : α → β → Prop} (h : ∀ a b, R a b → S a b) : ∀ {a : List α} {b : List β},
    AllRel R a b → AllRel S a b
  | _, _, .nil => .nil
  | _, _, .cons k k1 => .cons (h _ _ k) (AllRel.mono h k1)

theorem AllRel.length_eq {α β} {R : α → β → Prop} : ∀ {a : List α} {b : List β}, AllRel R a b → a.length = b.length
  | _, _, .nil => rfl
  | _, _, .cons _ h1 => by simp [AllRel.length_eq h1]

theorem mapM_of_allRel {α β} (f : α → Except Err β) : ∀ {xs : List α} {ys : List β},
    AllRel (fun x y => f x = .ok y) xs ys → xs.mapM f = .ok ys
  | _, _, .nil => by simp [pure, Except.pure]
  | _, _, .cons h h1 => by simp [List.mapM_cons, h, mapM_of_allRel f h1, pure, Except.pure]

/-- every physical row is the frame of the corresponding content -/
def Framed (rows cores : List Row) : Prop :=
  AllRel (fun row core => ∃ land last, row = frame land last core) rows cores

theorem blockRows_framed (compact : Bool) : ∀ (b : List Row) (first : Bool), Framed (blockRows compact first b) b
  | [], _ => .nil
  | [_], _ => .cons ⟨_, _, rfl⟩ .nil
  | _ :: c' :: cs, _ => .cons ⟨_, _, rfl⟩ (blockRows_framed compact (c' :: cs) false)

theorem flatten_framed (f : List Row → List Row) (hf : ∀ b, Framed (f b) b) :
    ∀ (bs : List (List Row)), Framed ((bs.map f).flatten) bs.flatten
  | [] => .nil
  | b :: bs => by
    simp only [List.map_cons, List.flatten_cons]
    exact AllRel.append (hf b) (flatten_framed f hf bs)

/-- the rows of all blocks, in order, are the frames of the contents, in order — for every page size -/
theorem blocks_framed (compact : Bool) (split : Nat) (cores : List Row) :
    Framed (((pageBlocks split 0 cores).map (blockRows compact true)).flatten) cores := by
  have := flatten_framed (blockRows compact true) (fun b => blockRows_framed compact b true) (pageBlocks split 0 cores)
  rwa [pageBlocks_flatten] at this

theorem latexLitTok_litLike (names : List Str) (l : Int) (t : Tok) (h : latexLitTok names l = .ok t) :
    litLike t = true := by
  unfold latexLitTok at h
  split at h
  · simp at h
  · split at h
    · simp at h
    · simp at h; subst h; exact litLike_litCore _ _

/-- `\square` is the content of a row iff the clause is empty -/
theorem square_iff (names : List Str) (compact : Bool) (c : Clause) (core : Row)
    (h : clauseCore names compact c = .ok core) : core = [W "\\square"] ↔ c = [] := by
  unfold clauseCore at h
  split at h
  · rename_i he
    have hc : c = [] := by simpa using he
    simp at h
    exact ⟨fun _ => hc, fun _ => h.symm⟩
  · rename_i hne
    have hc : c ≠ [] := by simpa using hne
    refine ⟨fun e => ?_, fun e => absurd e hc⟩
    exfalso
    cases hm : c.mapM (latexLitTok names) with
    | error e' => simp [hm] at h
    | ok ls =>
      simp only [hm] at h
      have hf := mapM_forall₂ _ c ls hm
      cases hf with
      | nil => exact hc rfl
      | cons h1 hrest =>
        rename_i l t cs ts
        have hl := latexLitTok_litLike names l t h1
        rw [sepBy_singletons] at h
        cases compact
        · simp at h
          rw [← h] at e
          simp at e
          rw [e.1] at hl
          revert hl; decide
        · simp at h
          rw [← h] at e
          simp [W] at e

/-- `\top` is the rendering iff the formula is empty -/
theorem top_iff (F : AnyF) (names : List Str) (split : Nat) (compact : Bool) (blocks : List (List Row))
    (h : latexBlocks F names split compact = .ok blocks) : blocks = [[[W "\\top"]]] ↔ F.len = 0 := by
  unfold latexBlocks at h
  split at h
  · rename_i h0
    simp at h
    exact ⟨fun _ => h0, fun _ => h.symm⟩
  · rename_i h0
    refine ⟨fun e => ?_, fun e => absurd e h0⟩
    exfalso
    cases hc : latexCores F names compact with
    | error e' => simp [hc] at h
    | ok cores =>
      simp [hc] at h
      subst h
      -- the single block is `blockRows … b` for a non-empty `b`, whose first row starts with `&`
      cases hp : pageBlocks split 0 cores with
      | nil => simp [hp] at e
      | cons b bs =>
        have hb : b ≠ [] := pageBlocks_nonempty split cores 0 b (by rw [hp]; simp)
        simp [hp] at e
        obtain ⟨c0, cs, rfl⟩ := List.exists_cons_of_ne_nil hb
        cases cs with
        | nil => simp [blockRows, frame, W] at e
        | cons c1 cs => simp [blockRows, frame, W] at e

end Cnfgen.IO
