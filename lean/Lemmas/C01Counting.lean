/-
CountingPrinciple: the constraint of an element counts the chosen subsets containing it;
double counting; the block partition witness.
-/
import Lemmas.C01Combos
import CnfgenModel.Fam.Counting
namespace Cnfgen.Fam
open Cnfgen

/-- the variable `X(S)` of the subset `S` (`new_combinations(M, p)`) -/
def countVar (M p : Nat) (S : List Nat) : Nat := 1 + (Vars.combosSeqs M p).idxOf S

theorem countingStar_eq (M p x : Nat) :
    countingStar M p x =
      ((Vars.combosSeqs M p).filter (fun S => S.contains x)).map (fun S => ((countVar M p S : Nat) : Int)) := by
  unfold countingStar
  rw [zipIdx_eq_map_idxOf _ 0 (nodup_combosSeqs M p), List.filterMap_map]
  rw [← filterMap_ite]
  apply List.filterMap_congr
  intro S _
  by_cases h : x ∈ S
  · simp [countVar, h]
  · simp [h]

theorem count_countingStar (α : Assign) (M p x : Nat) :
    count α (countingStar M p x) =
      (Vars.combosSeqs M p).countP (fun S => α (countVar M p S) && S.contains x) := by
  rw [countingStar_eq, count_map_natCast α _ _ (fun S _ => by simp only [countVar]; omega), List.countP_filter]

theorem countingStar_wf (M p x : Nat) :
    ∀ l ∈ countingStar M p x, l ≠ 0 ∧ l.natAbs ≤ (Vars.combosSeqs M p).length := by
  intro l hl
  rw [countingStar_eq, List.mem_map] at hl
  obtain ⟨S, hS, rfl⟩ := hl
  have := List.idxOf_lt_length_iff.2 (List.mem_filter.1 hS).1
  simp only [countVar]; omega

end Cnfgen.Fam

namespace Cnfgen.Fam
open Cnfgen

/-! ### double counting on lists -/

theorem sum_map_add' {β : Type} (l : List β) (f g : β → Nat) :
    (l.map (fun b => f b + g b)).sum = (l.map f).sum + (l.map g).sum := by
  induction l with
  | nil => simp
  | cons x xs ih => simp only [List.map_cons, List.sum_cons, ih]; omega

theorem sum_map_ite_eq_countP {β : Type} (l : List β) (r : β → Bool) :
    (l.map (fun b => if r b then 1 else 0)).sum = l.countP r := by
  induction l with
  | nil => simp
  | cons x xs ih => simp only [List.map_cons, List.sum_cons, ih, List.countP_cons]; omega

theorem sum_map_const' {β : Type} (l : List β) (f : β → Nat) (c : Nat) (h : ∀ b ∈ l, f b = c) :
    (l.map f).sum = c * l.length := by
  induction l with
  | nil => simp
  | cons x xs ih =>
    simp only [List.map_cons, List.sum_cons, List.length_cons, h x (by simp),
      ih (fun b hb => h b (by simp [hb])), Nat.mul_add]; omega

theorem sum_countP_comm {β γ : Type} (l₁ : List β) (l₂ : List γ) (r : β → γ → Bool) :
    (l₁.map (fun a => l₂.countP (fun b => r a b))).sum
      = (l₂.map (fun b => l₁.countP (fun a => r a b))).sum := by
  induction l₁ with
  | nil => simp
  | cons a as ih =>
    simp only [List.map_cons, List.sum_cons, List.countP_cons, ih]
    rw [sum_map_add', sum_map_ite_eq_countP]
    have : List.countP (r a) l₂ = List.countP (fun b => r a b) l₂ := rfl
    omega

theorem countP_mem_of_sublist {β : Type} [DecidableEq β] {S l : List β} (h : S.Sublist l) (hl : l.Nodup) :
    l.countP (fun x => decide (x ∈ S)) = S.length := by
  induction h with
  | slnil => simp
  | @cons S l a h ih =>
    have ha : a ∉ l := (List.nodup_cons.1 hl).1
    have : a ∉ S := fun hs => ha (h.subset hs)
    rw [List.countP_cons, ih (List.nodup_cons.1 hl).2]; simp [this]
  | @cons_cons S l a h ih =>
    have ha : a ∉ l := (List.nodup_cons.1 hl).1
    rw [List.countP_cons]
    have : l.countP (fun x => decide (x ∈ a :: S)) = l.countP (fun x => decide (x ∈ S)) := by
      apply List.countP_congr
      intro b hb
      have : b ≠ a := fun e => ha (e ▸ hb)
      simp [this]
    rw [this, ih (List.nodup_cons.1 hl).2]; simp

/-- if every element of `[M]` lies in exactly one chosen `p`-subset then `M = p · #chosen` -/
theorem counting_double_count (M p : Nat) (α : Assign)
    (h : ∀ x, 1 ≤ x → x ≤ M → count α (countingStar M p x) = 1) :
    M = p * ((Vars.combosSeqs M p).filter (fun S => α (countVar M p S))).length := by
  have h1 : ((idx M).map (fun x => ((Vars.combosSeqs M p).filter (fun S => α (countVar M p S))).countP
      (fun S => decide (x ∈ S)))).sum = 1 * (idx M).length := by
    apply sum_map_const'
    intro x hx
    rw [mem_idx] at hx
    have := h x hx.1 hx.2
    rw [count_countingStar] at this
    rw [List.countP_filter, ← this]
    apply List.countP_congr
    intro S _
    simp [Bool.and_comm]
  have h2 : (((Vars.combosSeqs M p).filter (fun S => α (countVar M p S))).map
      (fun S => (idx M).countP (fun x => decide (x ∈ S)))).sum
      = p * ((Vars.combosSeqs M p).filter (fun S => α (countVar M p S))).length := by
    apply sum_map_const'
    intro S hS
    have hS' := (List.mem_filter.1 hS).1
    have : Vars.combosSeqs M p = combos (idx M) p := rfl
    rw [this, mem_combos] at hS'
    rw [countP_mem_of_sublist hS'.1 (idx_nodup M), hS'.2]
  rw [sum_countP_comm, h2, length_idx] at h1
  omega

/-! ### the block partition -/

/-- the `b`-th block `{bp+1, …, bp+p}` -/
def block (p b : Nat) : List Nat := rangeN (b * p + 1) (b * p + p + 1)

/-- "S is one of the first `M / p` blocks" -/
def isBlock (M p : Nat) (S : List Nat) : Bool := (List.range (M / p)).any (fun b => S == block p b)

theorem isBlock_iff (M p : Nat) (S : List Nat) : isBlock M p S = true ↔ ∃ b, b < M / p ∧ S = block p b := by
  simp [isBlock]

theorem mem_block {p b x : Nat} : x ∈ block p b ↔ b * p + 1 ≤ x ∧ x ≤ b * p + p := by
  simp only [block, mem_rangeN]; omega

theorem block_isSubset (M p b : Nat) (hb : b < M / p) : IsSubset M p (block p b) := by
  have hp : 0 < p := by
    rcases Nat.eq_zero_or_pos p with h | h
    · subst h; simp at hb
    · exact h
  have hle : (b + 1) * p ≤ M := by
    have : b + 1 ≤ M / p := hb
    calc (b + 1) * p ≤ (M / p) * p := Nat.mul_le_mul_right _ this
      _ ≤ M := Nat.div_mul_le_self M p
  refine ⟨rangeN_pairwise_lt _ _, by simp [block, rangeN], ?_⟩
  intro x hx
  rw [mem_block] at hx
  rw [Nat.add_mul] at hle
  omega

/-- the assignment that selects exactly the blocks -/
def blockAssign (M p : Nat) : Assign := fun x => isBlock M p ((Vars.combosSeqs M p).getD (x - 1) [])

theorem blockAssign_countVar (M p : Nat) (S : List Nat) (hS : S ∈ Vars.combosSeqs M p) :
    blockAssign M p (countVar M p S) = isBlock M p S := by
  have hlt := List.idxOf_lt_length_iff.2 hS
  simp only [blockAssign, countVar, Nat.add_sub_cancel_left]
  rw [List.getD_eq_getElem?_getD, List.getElem?_eq_getElem hlt, List.getElem_idxOf]
  rfl

end Cnfgen.Fam
