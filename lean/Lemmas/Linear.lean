import CnfgenModel.Build.Linear
namespace Cnfgen
open Linear

theorem litHolds_neg (α : Assign) (l : Int) (h : l ≠ 0) : litHolds α (-l) = !litHolds α l := by
  unfold litHolds
  by_cases hp : 0 < l
  · have : ¬ (0 < -l) := by omega
    simp [hp]; omega
  · have : 0 < -l := by omega
    simp [hp]; omega

theorem clauseHolds_cons (α : Assign) (x : Int) (c : Clause) :
    clauseHolds α (x :: c) = (litHolds α x || clauseHolds α c) := by
  simp [clauseHolds]

theorem count_cons (α : Assign) (x : Int) (xs : List Int) :
    count α (x :: xs) = count α xs + (if litHolds α x then 1 else 0) := by
  simp [count, List.countP_cons]

theorem count_le_length (α : Assign) (xs : List Int) : count α xs ≤ xs.length := by
  simp [count, List.countP_le_length]

/-- number of false literals -/
def falses (α : Assign) (ls : List Int) : Nat := ls.countP (fun l => !litHolds α l)

theorem falses_cons (α : Assign) (x : Int) (xs : List Int) :
    falses α (x :: xs) = falses α xs + (if litHolds α x then 0 else 1) := by
  by_cases h : litHolds α x <;> simp [falses, h]

theorem count_add_falses (α : Assign) (ls : List Int) : count α ls + falses α ls = ls.length := by
  induction ls with
  | nil => simp [count, falses]
  | cons x xs ih =>
    rw [count_cons, falses_cons]
    by_cases h : litHolds α x <;> simp [h] <;> omega

/-- the combinatorial heart of `add_linear`: every `j`-subset of positions
contains a true literal iff fewer than `j` literals are false. -/
theorem combos_all_hold (α : Assign) (ls : List Int) (j : Nat) :
    (∀ c ∈ combos ls j, clauseHolds α c = true) ↔ falses α ls < j := by
  induction ls generalizing j with
  | nil =>
    cases j with
    | zero => simp [combos, clauseHolds, falses]
    | succ j => simp [combos, falses]
  | cons x xs ih =>
    cases j with
    | zero => simp [combos, clauseHolds]
    | succ j =>
      simp only [combos, List.mem_append, List.mem_map]
      rw [falses_cons]
      constructor
      · intro h
        have h2 : falses α xs < j + 1 := (ih (j+1)).1 (fun c hc => h c (Or.inr hc))
        by_cases hx : litHolds α x
        · simp [hx]; exact h2
        · have h1 : falses α xs < j := (ih j).1 (fun c hc => by
            have := h (x :: c) (Or.inl ⟨c, hc, rfl⟩)
            simpa [clauseHolds_cons, hx] using this)
          simp [hx]; omega
      · intro h c hc
        rcases hc with ⟨c', hc', rfl⟩ | hc
        · rw [clauseHolds_cons]
          by_cases hx : litHolds α x
          · simp [hx]
          · simp [hx] at h ⊢
            exact (ih j).2 (by omega) c' hc'
        · by_cases hx : litHolds α x
          · simp [hx] at h; exact (ih (j+1)).2 h c hc
          · simp [hx] at h; exact (ih (j+1)).2 (by omega) c hc

theorem geq_holds (α : Assign) (ls : List Int) (k : Int) :
    (∀ c ∈ geq ls k, clauseHolds α c = true) ↔ k ≤ (count α ls : Int) := by
  unfold geq
  have hle := count_le_length α ls
  have hcf := count_add_falses α ls
  by_cases h0 : k ≤ 0
  · simp [h0]; omega
  · by_cases h1 : k > ls.length
    · simp [h0, h1, clauseHolds]; omega
    · simp only [h0, h1, if_false]
      rw [combos_all_hold]
      omega

theorem count_map_neg (α : Assign) (ls : List Int) (h : ∀ l ∈ ls, l ≠ 0) :
    count α (ls.map (fun l => -l)) = falses α ls := by
  induction ls with
  | nil => simp [count, falses]
  | cons x xs ih =>
    have hx : x ≠ 0 := h x (by simp)
    have ih' := ih (fun l hl => h l (by simp [hl]))
    rw [List.map_cons, count_cons, falses_cons, ih', litHolds_neg α x hx]
    by_cases hh : litHolds α x <;> simp [hh]

theorem leq_holds (α : Assign) (ls : List Int) (k : Int) (h : ∀ l ∈ ls, l ≠ 0) :
    (∀ c ∈ leq ls k, clauseHolds α c = true) ↔ (count α ls : Int) ≤ k := by
  unfold leq
  rw [geq_holds, count_map_neg α ls h]
  have := count_add_falses α ls
  omega

theorem neqClauses_holds (α : Assign) (ls : List Int) (k : Nat) (h : ∀ l ∈ ls, l ≠ 0) :
    (∀ c ∈ neqClauses ls k, clauseHolds α c = true) ↔ count α ls ≠ k := by
  induction ls generalizing k with
  | nil =>
    cases k with
    | zero => simp [neqClauses, clauseHolds, count]
    | succ k => simp [neqClauses, count]
  | cons x xs ih =>
    have hx : x ≠ 0 := h x (by simp)
    have ih' := fun k => ih k (fun l hl => h l (by simp [hl]))
    cases k with
    | zero =>
      simp only [neqClauses, List.mem_singleton, forall_eq]
      simp [clauseHolds, count, List.countP_eq_zero]
      by_cases hh : litHolds α x <;> simp [hh]
    | succ k =>
      simp only [neqClauses, List.mem_append, List.mem_map]
      rw [count_cons]
      constructor
      · intro hall
        by_cases hh : litHolds α x
        · have : count α xs ≠ k := (ih' k).1 (fun c hc => by
            have := hall ((-x) :: c) (Or.inl ⟨c, hc, rfl⟩)
            simpa [clauseHolds_cons, litHolds_neg α x hx, hh] using this)
          simp [hh]; omega
        · have : count α xs ≠ k + 1 := (ih' (k+1)).1 (fun c hc => by
            have := hall (x :: c) (Or.inr ⟨c, hc, rfl⟩)
            simpa [clauseHolds_cons, hh] using this)
          simp [hh]; omega
      · intro hne c hc
        rcases hc with ⟨c', hc', rfl⟩ | ⟨c', hc', rfl⟩
        · rw [clauseHolds_cons, litHolds_neg α x hx]
          by_cases hh : litHolds α x
          · simp [hh] at hne ⊢
            exact (ih' k).2 (by omega) c' hc'
          · simp [hh]
        · rw [clauseHolds_cons]
          by_cases hh : litHolds α x
          · simp [hh]
          · simp [hh] at hne ⊢
            exact (ih' (k+1)).2 (by omega) c' hc'

theorem neq_holds (α : Assign) (ls : List Int) (k : Int) (h : ∀ l ∈ ls, l ≠ 0) :
    (∀ c ∈ neq ls k, clauseHolds α c = true) ↔ (count α ls : Int) ≠ k := by
  unfold neq
  have hle := count_le_length α ls
  by_cases hk : k < 0 ∨ k > ls.length
  · simp [hk]; omega
  · simp only [hk, if_false]
    rw [neqClauses_holds α ls k.toNat h]
    omega

theorem parityClauses_holds (α : Assign) (ls : List Int) (want : Bool) (h : ∀ l ∈ ls, l ≠ 0) :
    (∀ c ∈ parityClauses ls want, clauseHolds α c = true) ↔ (decide (count α ls % 2 = 1)) = want := by
  induction ls generalizing want with
  | nil => cases want <;> simp [parityClauses, clauseHolds, count]
  | cons x xs ih =>
    have hx : x ≠ 0 := h x (by simp)
    have ih' := fun w => ih w (fun l hl => h l (by simp [hl]))
    simp only [parityClauses, List.mem_append, List.mem_map]
    rw [count_cons]
    constructor
    · intro hall
      by_cases hh : litHolds α x
      · have := (ih' (!want)).1 (fun c hc => by
          have := hall ((-x) :: c) (Or.inr ⟨c, hc, rfl⟩)
          simpa [clauseHolds_cons, litHolds_neg α x hx, hh] using this)
        simp [hh]
        cases want <;> simp at this ⊢ <;> omega
      · have := (ih' want).1 (fun c hc => by
          have := hall (x :: c) (Or.inl ⟨c, hc, rfl⟩)
          simpa [clauseHolds_cons, hh] using this)
        simpa [hh] using this
    · intro hpar c hc
      rcases hc with ⟨c', hc', rfl⟩ | ⟨c', hc', rfl⟩
      · rw [clauseHolds_cons]
        by_cases hh : litHolds α x
        · simp [hh]
        · simp [hh] at hpar ⊢
          exact (ih' want).2 (by simpa using hpar) c' hc'
      · rw [clauseHolds_cons, litHolds_neg α x hx]
        by_cases hh : litHolds α x
        · simp [hh] at hpar ⊢
          refine (ih' (!want)).2 ?_ c' hc'
          cases want <;> simp at hpar ⊢ <;> omega
        · simp [hh]

end Cnfgen
