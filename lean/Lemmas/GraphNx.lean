/-
C16, T-C16.4 and the construction lemmas other models need:

* `Inv.ext` — an object satisfying the invariant is determined by its vertex count and its
  abstract edge set (every field; `edgeset`, a Python set, up to order);
* `ofEdges_spec` / `ofEdges_error` — what `ofEdges` builds, and when it fails;
* `fromNx_listing`, `fromNx_toNx` — sending an object through networkx (modelled as the vertex
  count and an edge list in any order / orientation) gives the same object back;
* `BipG.inv_complete`, `CBipG.*` — `CompleteBipartiteGraph`.
Core Lean only.
-/
import Lemmas.GraphSpec
namespace Cnfgen

/-! ## simple graphs -/
namespace SimpleG

/-- the representation is canonical: same vertex count and same abstract edge set ⇒ same
counter, same adjacency table, same `edgeset` (as a set) -/
theorem Inv.ext {G G' : SimpleG} (h : Inv G) (h' : Inv G') (hn : G'.n = G.n)
    (he : ∀ e, e ∈ abs G' ↔ e ∈ abs G) :
    G'.m = G.m ∧ G'.adj = G.adj ∧ ∀ e, e ∈ G'.edgeset ↔ e ∈ G.edgeset := by
  have hes : ∀ u v, (u, v) ∈ G'.edgeset ↔ (u, v) ∈ G.edgeset := fun u v => by
    rw [h'.mem_edgeset_iff, h.mem_edgeset_iff, he]
  refine ⟨?_, ?_, fun ⟨u, v⟩ => hes u v⟩
  · rw [← h'.count, ← h.count]
    exact ((List.perm_ext_iff_of_nodup h'.abs_nodup h.abs_nodup).2 he).length_eq
  · have r' : Rep G'.adj G.n (fun u v => (u, v) ∈ G.edgeset) := by
      have := h'.rep; rw [hn] at this; exact this.congr hes
    exact r'.unique h.rep

theorem Spec.addEdges_valid (a : Spec) (es : List (Int × Int)) (hv : ∀ e ∈ es, Valid a.n e.1 e.2) :
    (a.addEdges es).2 = .ok ∧ (a.addEdges es).1.n = a.n ∧
    ∀ p, p ∈ (a.addEdges es).1.E ↔ p ∈ a.E ∨ ∃ e ∈ es, p = norm e.1.toNat e.2.toNat := by
  induction es generalizing a with
  | nil => simp [Spec.addEdges]
  | cons e es ih =>
    have hv1 := hv e (List.mem_cons_self ..)
    simp only [Spec.addEdges, if_pos hv1]
    have := ih (a.insert (norm e.1.toNat e.2.toNat))
      (fun x hx => by rw [Spec.insert_n]; exact hv x (List.mem_cons_of_mem _ hx))
    refine ⟨this.1, by rw [this.2.1, Spec.insert_n], fun p => ?_⟩
    rw [this.2.2, Spec.mem_insert]
    simp only [List.mem_cons, exists_eq_or_imp]
    constructor
    · rintro ((h1 | h1) | h1)
      · exact Or.inr (Or.inl h1)
      · exact Or.inl h1
      · exact Or.inr (Or.inr h1)
    · rintro (h1 | h1 | h1)
      · exact Or.inl (Or.inr h1)
      · exact Or.inl (Or.inl h1)
      · exact Or.inr h1

theorem Spec.addEdges_invalid (a : Spec) (es : List (Int × Int)) (hv : ¬ ∀ e ∈ es, Valid a.n e.1 e.2) :
    (a.addEdges es).2 = .raised .valueError := by
  induction es generalizing a with
  | nil => exact absurd (by simp) hv
  | cons e es ih =>
    simp only [Spec.addEdges]
    split
    · rename_i h1
      apply ih
      intro hall
      apply hv
      intro x hx
      rcases List.mem_cons.1 hx with rfl | hx
      · exact h1
      · have := hall x hx; rwa [Spec.insert_n] at this
    · rfl

/-- `add_edges_from` with legal pairs only: succeeds, the abstract edge set grows by the
normalised pairs -/
theorem addEdgesFrom_spec {G : SimpleG} (h : Inv G) {es : List (Int × Int)}
    (hv : ∀ e ∈ es, Valid G.n e.1 e.2) :
    ∃ G', G.addEdgesFrom es = .ok G' ∧ Inv G' ∧ G'.n = G.n ∧
      ∀ p, p ∈ abs G' ↔ p ∈ abs G ∨ ∃ e ∈ es, p = norm e.1.toNat e.2.toNat := by
  have r := refines_addEdgesFromP h.refines es
  have s := Spec.addEdges_valid ⟨G.n, abs G⟩ es hv
  rw [s.1] at r
  have hnone : (G.addEdgesFromP es).2 = none := by
    cases hh : (G.addEdgesFromP es).2 with
    | none => rfl
    | some x => rw [hh] at r; cases r.2
  refine ⟨(G.addEdgesFromP es).1, ?_, r.1.inv, by rw [r.1.n_eq, s.2.1], fun p => ?_⟩
  · rw [addEdgesFrom_eq]
    have : G.addEdgesFromP es = ((G.addEdgesFromP es).1, none) := Prod.ext rfl hnone
    rw [this]
  · rw [← r.1.mem, s.2.2]

theorem addEdgesFrom_error {G : SimpleG} (h : Inv G) {es : List (Int × Int)}
    (hv : ¬ ∀ e ∈ es, Valid G.n e.1 e.2) : G.addEdgesFrom es = .error .valueError := by
  have r := refines_addEdgesFromP h.refines es
  have s := Spec.addEdges_invalid ⟨G.n, abs G⟩ es hv
  rw [s] at r
  rw [addEdgesFrom_eq]
  cases hh : (G.addEdgesFromP es).2 with
  | none => rw [hh] at r; cases r.2
  | some x =>
    rw [hh] at r
    have hx : x = .valueError := by have := r.2; simp only [Outcome.ofOpt] at this; injection this
    have : G.addEdgesFromP es = ((G.addEdgesFromP es).1, some x) := Prod.ext rfl hh
    rw [this, hx]

/-- what `ofEdges n es` builds when every pair is a legal edge of an `n`-vertex graph -/
theorem ofEdges_spec {n : Nat} {es : List (Nat × Nat)}
    (hv : ∀ e ∈ es, 1 ≤ e.1 ∧ e.1 ≤ n ∧ 1 ≤ e.2 ∧ e.2 ≤ n ∧ e.1 ≠ e.2) :
    ∃ G, ofEdges n es = .ok G ∧ Inv G ∧ G.n = n ∧
      ∀ p, p ∈ abs G ↔ ∃ e ∈ es, p = norm e.1 e.2 := by
  have hv' : ∀ e ∈ es.map (fun e => ((e.1 : Int), (e.2 : Int))), Valid (init n).n e.1 e.2 := by
    intro e he
    simp only [List.mem_map] at he
    obtain ⟨x, hx, rfl⟩ := he
    have := hv x hx
    simp only [Valid, init]; omega
  obtain ⟨G, h1, h2, h3, h4⟩ := addEdgesFrom_spec (inv_init n) hv'
  refine ⟨G, h1, h2, h3, fun p => ?_⟩
  rw [h4]
  constructor
  · rintro (hp | ⟨e, he, rfl⟩)
    · simp [abs, init] at hp
    · obtain ⟨x, hx, rfl⟩ := List.mem_map.1 he
      exact ⟨x, hx, by simp⟩
  · rintro ⟨x, hx, rfl⟩
    exact Or.inr ⟨((x.1 : Int), (x.2 : Int)), List.mem_map.2 ⟨x, hx, rfl⟩, by simp⟩

/-- … and it is a `ValueError` otherwise -/
theorem ofEdges_error {n : Nat} {es : List (Nat × Nat)}
    (hv : ¬ ∀ e ∈ es, 1 ≤ e.1 ∧ e.1 ≤ n ∧ 1 ≤ e.2 ∧ e.2 ≤ n ∧ e.1 ≠ e.2) :
    ofEdges n es = .error .valueError := by
  apply addEdgesFrom_error (inv_init n)
  intro hall
  apply hv
  intro e he
  have := hall ((e.1 : Int), (e.2 : Int)) (List.mem_map.2 ⟨e, he, rfl⟩)
  simp only [Valid, init] at this; omega

/-- T-C16.4: rebuilding the object from ANY listing of its edges (any order, either
orientation, repetitions allowed — whatever networkx reports) gives the same object -/
theorem fromNx_listing {G : SimpleG} (h : Inv G) {es : List (Nat × Nat)}
    (hv : ∀ e ∈ es, 1 ≤ e.1 ∧ e.1 ≤ G.n ∧ 1 ≤ e.2 ∧ e.2 ≤ G.n ∧ e.1 ≠ e.2)
    (hes : ∀ p, p ∈ abs G ↔ ∃ e ∈ es, p = norm e.1 e.2) :
    ∃ G', fromNx (G.n, es) = .ok G' ∧ Inv G' ∧ G'.n = G.n ∧ G'.m = G.m ∧ G'.adj = G.adj ∧
      ∀ e, e ∈ G'.edgeset ↔ e ∈ G.edgeset := by
  obtain ⟨G', h1, h2, h3, h4⟩ := ofEdges_spec hv
  have hx := Inv.ext h h2 h3 (fun e => by rw [h4, hes])
  exact ⟨G', h1, h2, h3, hx.1, hx.2.1, hx.2.2⟩

theorem norm_of_lt {u v : Nat} (h : u < v) : norm u v = (u, v) := by
  simp only [norm]; exact Prod.ext (by simp only; omega) (by simp only; omega)

/-- T-C16.4: `from_networkx(to_networkx(G))` is `G` -/
theorem fromNx_toNx {G : SimpleG} (h : Inv G) :
    ∃ G', fromNx (toNx G) = .ok G' ∧ Inv G' ∧ G'.n = G.n ∧ G'.m = G.m ∧ G'.adj = G.adj ∧
      ∀ e, e ∈ G'.edgeset ↔ e ∈ G.edgeset := by
  apply fromNx_listing h
  · intro e he
    have := h.edges_range (u := e.1) (v := e.2) he
    omega
  · intro p
    rw [← h.mem_edges'.trans mem_abs.symm]
    constructor
    · intro hp
      exact ⟨p, hp, (norm_of_lt (h.mem_edges'.1 hp).1).symm⟩
    · rintro ⟨e, he, rfl⟩
      rw [norm_of_lt (h.mem_edges'.1 he).1]; exact he

/-- the networkx object has exactly the vertices and the edges of the abstract state -/
theorem toNx_spec {G : SimpleG} {a : Spec} (h : Refines G a) :
    (toNx G).1 = a.n ∧ (toNx G).2 = a.edges := ⟨h.n_eq, h.edges_eq⟩

end SimpleG

/-! ## directed graphs -/
namespace DiG

theorem Inv.ext {G G' : DiG} (h : Inv G) (h' : Inv G') (hn : G'.n = G.n)
    (he : ∀ e, e ∈ G'.edgeset ↔ e ∈ G.edgeset) :
    G'.m = G.m ∧ G'.succ = G.succ ∧ G'.pred = G.pred ∧ G'.stillDag = G.stillDag := by
  refine ⟨?_, ?_, ?_, ?_⟩
  · rw [← h'.count, ← h.count]
    exact ((List.perm_ext_iff_of_nodup h'.nodup h.nodup).2 he).length_eq
  · have r' : Rep G'.succ G.n (fun u v => (u, v) ∈ G.edgeset) := by
      have := h'.succRep; rw [hn] at this; exact this.congr (fun u v => he (u, v))
    exact r'.unique h.succRep
  · have r' : Rep G'.pred G.n (fun v u => (u, v) ∈ G.edgeset) := by
      have := h'.predRep; rw [hn] at this; exact this.congr (fun v u => he (u, v))
    exact r'.unique h.predRep
  · rw [Bool.eq_iff_iff, h'.dag, h.dag]
    constructor
    · intro hh e hm; exact hh e ((he e).2 hm)
    · intro hh e hm; exact hh e ((he e).1 hm)

theorem Spec.addEdges_valid (a : Spec) (es : List (Int × Int)) (hv : ∀ e ∈ es, Valid a.n e.1 e.2) :
    (a.addEdges es).2 = .ok ∧ (a.addEdges es).1.n = a.n ∧
    ∀ p, p ∈ (a.addEdges es).1.E ↔ p ∈ a.E ∨ ∃ e ∈ es, p = (e.1.toNat, e.2.toNat) := by
  induction es generalizing a with
  | nil => simp [Spec.addEdges]
  | cons e es ih =>
    have hv1 := hv e (List.mem_cons_self ..)
    simp only [Spec.addEdges, if_pos hv1]
    have := ih (a.insert (e.1.toNat, e.2.toNat))
      (fun x hx => by rw [Spec.insert_n]; exact hv x (List.mem_cons_of_mem _ hx))
    refine ⟨this.1, by rw [this.2.1, Spec.insert_n], fun p => ?_⟩
    rw [this.2.2, Spec.mem_insert]
    simp only [List.mem_cons, exists_eq_or_imp]
    constructor
    · rintro ((h1 | h1) | h1)
      · exact Or.inr (Or.inl h1)
      · exact Or.inl h1
      · exact Or.inr (Or.inr h1)
    · rintro (h1 | h1 | h1)
      · exact Or.inl (Or.inr h1)
      · exact Or.inl (Or.inl h1)
      · exact Or.inr h1

theorem Spec.addEdges_invalid (a : Spec) (es : List (Int × Int)) (hv : ¬ ∀ e ∈ es, Valid a.n e.1 e.2) :
    (a.addEdges es).2 = .raised .valueError := by
  induction es generalizing a with
  | nil => exact absurd (by simp) hv
  | cons e es ih =>
    simp only [Spec.addEdges]
    split
    · rename_i h1
      apply ih
      intro hall
      apply hv
      intro x hx
      rcases List.mem_cons.1 hx with rfl | hx
      · exact h1
      · have := hall x hx; rwa [Spec.insert_n] at this
    · rfl

theorem addEdgesFrom_spec {G : DiG} (h : Inv G) {es : List (Int × Int)}
    (hv : ∀ e ∈ es, Valid G.n e.1 e.2) :
    ∃ G', G.addEdgesFrom es = .ok G' ∧ Inv G' ∧ G'.n = G.n ∧
      ∀ p, p ∈ G'.edgeset ↔ p ∈ G.edgeset ∨ ∃ e ∈ es, p = (e.1.toNat, e.2.toNat) := by
  have r := refines_addEdgesFromP h.refines es
  have s := Spec.addEdges_valid ⟨G.n, G.edgeset⟩ es hv
  rw [s.1] at r
  have hnone : (G.addEdgesFromP es).2 = none := by
    cases hh : (G.addEdgesFromP es).2 with
    | none => rfl
    | some x => rw [hh] at r; cases r.2
  refine ⟨(G.addEdgesFromP es).1, ?_, r.1.inv, by rw [r.1.n_eq, s.2.1], fun p => ?_⟩
  · rw [addEdgesFrom_eq]
    have : G.addEdgesFromP es = ((G.addEdgesFromP es).1, none) := Prod.ext rfl hnone
    rw [this]
  · rw [← r.1.mem, s.2.2]

theorem addEdgesFrom_error {G : DiG} (h : Inv G) {es : List (Int × Int)}
    (hv : ¬ ∀ e ∈ es, Valid G.n e.1 e.2) : G.addEdgesFrom es = .error .valueError := by
  have r := refines_addEdgesFromP h.refines es
  have s := Spec.addEdges_invalid ⟨G.n, G.edgeset⟩ es hv
  rw [s] at r
  rw [addEdgesFrom_eq]
  cases hh : (G.addEdgesFromP es).2 with
  | none => rw [hh] at r; cases r.2
  | some x =>
    rw [hh] at r
    have hx : x = .valueError := by have := r.2; simp only [Outcome.ofOpt] at this; injection this
    have : G.addEdgesFromP es = ((G.addEdgesFromP es).1, some x) := Prod.ext rfl hh
    rw [this, hx]

theorem ofEdges_spec {n : Nat} {es : List (Nat × Nat)}
    (hv : ∀ e ∈ es, 1 ≤ e.1 ∧ e.1 ≤ n ∧ 1 ≤ e.2 ∧ e.2 ≤ n) :
    ∃ G, ofEdges n es = .ok G ∧ Inv G ∧ G.n = n ∧ ∀ p, p ∈ G.edgeset ↔ p ∈ es := by
  have hv' : ∀ e ∈ es.map (fun e => ((e.1 : Int), (e.2 : Int))), Valid (init n).n e.1 e.2 := by
    intro e he
    simp only [List.mem_map] at he
    obtain ⟨x, hx, rfl⟩ := he
    have := hv x hx
    simp only [Valid, init]; omega
  obtain ⟨G, h1, h2, h3, h4⟩ := addEdgesFrom_spec (inv_init n) hv'
  refine ⟨G, h1, h2, h3, fun p => ?_⟩
  rw [h4]
  constructor
  · rintro (hp | ⟨e, he, rfl⟩)
    · simp [init] at hp
    · obtain ⟨x, hx, rfl⟩ := List.mem_map.1 he
      simpa using hx
  · intro hp
    exact Or.inr ⟨((p.1 : Int), (p.2 : Int)), List.mem_map.2 ⟨p, hp, rfl⟩, by simp⟩

theorem ofEdges_error {n : Nat} {es : List (Nat × Nat)}
    (hv : ¬ ∀ e ∈ es, 1 ≤ e.1 ∧ e.1 ≤ n ∧ 1 ≤ e.2 ∧ e.2 ≤ n) :
    ofEdges n es = .error .valueError := by
  apply addEdgesFrom_error (inv_init n)
  intro hall
  apply hv
  intro e he
  have := hall ((e.1 : Int), (e.2 : Int)) (List.mem_map.2 ⟨e, he, rfl⟩)
  simp only [Valid, init] at this; omega

/-- T-C16.4: rebuilding from any listing of the edges (any order, repetitions allowed) -/
theorem fromNx_listing {G : DiG} (h : Inv G) {es : List (Nat × Nat)}
    (hes : ∀ p, p ∈ G.edgeset ↔ p ∈ es) :
    ∃ G', fromNx (G.n, es) = .ok G' ∧ Inv G' ∧ G'.n = G.n ∧ G'.m = G.m ∧ G'.succ = G.succ ∧
      G'.pred = G.pred ∧ G'.stillDag = G.stillDag ∧ ∀ e, e ∈ G'.edgeset ↔ e ∈ G.edgeset := by
  have hv : ∀ e ∈ es, 1 ≤ e.1 ∧ e.1 ≤ G.n ∧ 1 ≤ e.2 ∧ e.2 ≤ G.n :=
    fun e he => h.range e.1 e.2 ((hes e).2 he)
  obtain ⟨G', h1, h2, h3, h4⟩ := ofEdges_spec hv
  have he : ∀ e, e ∈ G'.edgeset ↔ e ∈ G.edgeset := fun e => by rw [h4, hes]
  have hx := Inv.ext h h2 h3 he
  exact ⟨G', h1, h2, h3, hx.1, hx.2.1, hx.2.2.1, hx.2.2.2, he⟩

/-- T-C16.4: `from_networkx(to_networkx(G))` is `G` (in particular `is_dag` is preserved) -/
theorem fromNx_toNx {G : DiG} (h : Inv G) :
    ∃ G', fromNx (toNx G) = .ok G' ∧ Inv G' ∧ G'.n = G.n ∧ G'.m = G.m ∧ G'.succ = G.succ ∧
      G'.pred = G.pred ∧ G'.stillDag = G.stillDag ∧ ∀ e, e ∈ G'.edgeset ↔ e ∈ G.edgeset :=
  fromNx_listing h (fun _ => h.mem_edges.symm)

theorem toNx_spec {G : DiG} {a : Spec} (h : Refines G a) :
    (toNx G).1 = a.n ∧ (toNx G).2 = a.edges := ⟨h.n_eq, h.edges_eq⟩

end DiG

/-! ## bipartite graphs -/
namespace BipG

theorem Inv.ext {G G' : BipG} (h : Inv G) (h' : Inv G') (hl : G'.l = G.l) (hr : G'.r = G.r)
    (he : ∀ e, e ∈ G'.edgeset ↔ e ∈ G.edgeset) :
    G'.ladj = G.ladj ∧ G'.radj = G.radj ∧ G'.numberOfEdges = G.numberOfEdges := by
  refine ⟨?_, ?_, ?_⟩
  · have r' : Rep G'.ladj G.l (fun u v => (u, v) ∈ G.edgeset) := by
      have := h'.lRep; rw [hl] at this; exact this.congr (fun u v => he (u, v))
    exact r'.unique h.lRep
  · have r' : Rep G'.radj G.r (fun v u => (u, v) ∈ G.edgeset) := by
      have := h'.rRep; rw [hr] at this; exact this.congr (fun v u => he (u, v))
    exact r'.unique h.rRep
  · exact ((List.perm_ext_iff_of_nodup h'.nodup h.nodup).2 he).length_eq

theorem Spec.addEdges_valid (a : Spec) (es : List (Int × Int)) (hv : ∀ e ∈ es, Valid a.l a.r e.1 e.2) :
    (a.addEdges es).2 = .ok ∧ (a.addEdges es).1.l = a.l ∧ (a.addEdges es).1.r = a.r ∧
    ∀ p, p ∈ (a.addEdges es).1.E ↔ p ∈ a.E ∨ ∃ e ∈ es, p = (e.1.toNat, e.2.toNat) := by
  induction es generalizing a with
  | nil => simp [Spec.addEdges]
  | cons e es ih =>
    have hv1 := hv e (List.mem_cons_self ..)
    simp only [Spec.addEdges, if_pos hv1]
    have hlr := Spec.insert_lr a (e.1.toNat, e.2.toNat)
    have := ih (a.insert (e.1.toNat, e.2.toNat))
      (fun x hx => by rw [hlr.1, hlr.2]; exact hv x (List.mem_cons_of_mem _ hx))
    refine ⟨this.1, by rw [this.2.1, hlr.1], by rw [this.2.2.1, hlr.2], fun p => ?_⟩
    rw [this.2.2.2, Spec.mem_insert]
    simp only [List.mem_cons, exists_eq_or_imp]
    constructor
    · rintro ((h1 | h1) | h1)
      · exact Or.inr (Or.inl h1)
      · exact Or.inl h1
      · exact Or.inr (Or.inr h1)
    · rintro (h1 | h1 | h1)
      · exact Or.inl (Or.inr h1)
      · exact Or.inl (Or.inl h1)
      · exact Or.inr h1

theorem Spec.addEdges_invalid (a : Spec) (es : List (Int × Int))
    (hv : ¬ ∀ e ∈ es, Valid a.l a.r e.1 e.2) : (a.addEdges es).2 = .raised .valueError := by
  induction es generalizing a with
  | nil => exact absurd (by simp) hv
  | cons e es ih =>
    simp only [Spec.addEdges]
    split
    · rename_i h1
      apply ih
      intro hall
      apply hv
      intro x hx
      rcases List.mem_cons.1 hx with rfl | hx
      · exact h1
      · have := hall x hx
        have hlr := Spec.insert_lr a (e.1.toNat, e.2.toNat)
        rwa [hlr.1, hlr.2] at this
    · rfl

theorem addEdgesFrom_spec {G : BipG} (h : Inv G) {es : List (Int × Int)}
    (hv : ∀ e ∈ es, Valid G.l G.r e.1 e.2) :
    ∃ G', G.addEdgesFrom es = .ok G' ∧ Inv G' ∧ G'.l = G.l ∧ G'.r = G.r ∧
      ∀ p, p ∈ G'.edgeset ↔ p ∈ G.edgeset ∨ ∃ e ∈ es, p = (e.1.toNat, e.2.toNat) := by
  have r := refines_addEdgesFromP h.refines es
  have s := Spec.addEdges_valid ⟨G.l, G.r, G.edgeset⟩ es hv
  rw [s.1] at r
  have hnone : (G.addEdgesFromP es).2 = none := by
    cases hh : (G.addEdgesFromP es).2 with
    | none => rfl
    | some x => rw [hh] at r; cases r.2
  refine ⟨(G.addEdgesFromP es).1, ?_, r.1.inv, by rw [r.1.l_eq, s.2.1], by rw [r.1.r_eq, s.2.2.1],
    fun p => ?_⟩
  · rw [addEdgesFrom_eq]
    have : G.addEdgesFromP es = ((G.addEdgesFromP es).1, none) := Prod.ext rfl hnone
    rw [this]
  · rw [← r.1.mem, s.2.2.2]

theorem addEdgesFrom_error {G : BipG} (h : Inv G) {es : List (Int × Int)}
    (hv : ¬ ∀ e ∈ es, Valid G.l G.r e.1 e.2) : G.addEdgesFrom es = .error .valueError := by
  have r := refines_addEdgesFromP h.refines es
  have s := Spec.addEdges_invalid ⟨G.l, G.r, G.edgeset⟩ es hv
  rw [s] at r
  rw [addEdgesFrom_eq]
  cases hh : (G.addEdgesFromP es).2 with
  | none => rw [hh] at r; cases r.2
  | some x =>
    rw [hh] at r
    have hx : x = .valueError := by have := r.2; simp only [Outcome.ofOpt] at this; injection this
    have : G.addEdgesFromP es = ((G.addEdgesFromP es).1, some x) := Prod.ext rfl hh
    rw [this, hx]

theorem ofEdges_spec {l r : Nat} {es : List (Nat × Nat)}
    (hv : ∀ e ∈ es, 1 ≤ e.1 ∧ e.1 ≤ l ∧ 1 ≤ e.2 ∧ e.2 ≤ r) :
    ∃ G, ofEdges l r es = .ok G ∧ Inv G ∧ G.l = l ∧ G.r = r ∧ ∀ p, p ∈ G.edgeset ↔ p ∈ es := by
  have hv' : ∀ e ∈ es.map (fun e => ((e.1 : Int), (e.2 : Int))),
      Valid (init l r).l (init l r).r e.1 e.2 := by
    intro e he
    simp only [List.mem_map] at he
    obtain ⟨x, hx, rfl⟩ := he
    have := hv x hx
    simp only [Valid, init]; omega
  obtain ⟨G, h1, h2, h3, h3', h4⟩ := addEdgesFrom_spec (inv_init l r) hv'
  refine ⟨G, h1, h2, h3, h3', fun p => ?_⟩
  rw [h4]
  constructor
  · rintro (hp | ⟨e, he, rfl⟩)
    · simp [init] at hp
    · obtain ⟨x, hx, rfl⟩ := List.mem_map.1 he
      simpa using hx
  · intro hp
    exact Or.inr ⟨((p.1 : Int), (p.2 : Int)), List.mem_map.2 ⟨p, hp, rfl⟩, by simp⟩

theorem ofEdges_error {l r : Nat} {es : List (Nat × Nat)}
    (hv : ¬ ∀ e ∈ es, 1 ≤ e.1 ∧ e.1 ≤ l ∧ 1 ≤ e.2 ∧ e.2 ≤ r) :
    ofEdges l r es = .error .valueError := by
  apply addEdgesFrom_error (inv_init l r)
  intro hall
  apply hv
  intro e he
  have := hall ((e.1 : Int), (e.2 : Int)) (List.mem_map.2 ⟨e, he, rfl⟩)
  simp only [Valid, init] at this; omega

/-- how networkx may report the edge `(u, v)` of the bipartite object: `(u, v+l)` or, the
graph being undirected, `(v+l, u)` -/
def nxEdge (l : Nat) (x : (Nat × Nat) × Bool) : Nat × Nat :=
  if x.2 then (x.1.2 + l, x.1.1) else (x.1.1, x.1.2 + l)

theorem fromNxEdge_nxEdge {l : Nat} {x : (Nat × Nat) × Bool} (h1 : x.1.1 ≤ l) (h2 : 1 ≤ x.1.2) :
    fromNxEdge l (nxEdge l x) = .ok ((x.1.1 : Int), (x.1.2 : Int)) := by
  obtain ⟨⟨u, v⟩, b⟩ := x
  simp only at h1 h2
  cases b
  · have a1 : decide (u ≤ l) = true := decide_eq_true h1
    have a2 : decide (l < v + l) = true := decide_eq_true (by omega)
    simp [fromNxEdge, nxEdge, a1]
    omega
  · have a1 : decide (v + l ≤ l) = false := decide_eq_false (by omega)
    have a2 : decide (l < u) = false := decide_eq_false (by omega)
    simp [fromNxEdge, nxEdge, a1, a2]

/-- `from_networkx` on such a report is `ofEdges` on the underlying pairs -/
theorem fromNx_eq_addEdgesFrom (G : BipG) (l : Nat) (xs : List ((Nat × Nat) × Bool))
    (hv : ∀ x ∈ xs, x.1.1 ≤ l ∧ 1 ≤ x.1.2) :
    (xs.map (nxEdge l)).foldlM (fun g e => do let p ← fromNxEdge l e; g.addEdge p.1 p.2) G =
    G.addEdgesFrom (xs.map (fun x => ((x.1.1 : Int), (x.1.2 : Int)))) := by
  induction xs generalizing G with
  | nil => rfl
  | cons x xs ih =>
    have hx := hv x (List.mem_cons_self ..)
    simp only [List.map_cons, List.foldlM_cons, addEdgesFrom, fromNxEdge_nxEdge hx.1 hx.2]
    show (do let g ← G.addEdge (x.1.1 : Int) (x.1.2 : Int); _) = _
    cases G.addEdge (x.1.1 : Int) (x.1.2 : Int) with
    | error e => rfl
    | ok G' => exact ih G' (fun y hy => hv y (List.mem_cons_of_mem _ hy))

/-- T-C16.4: rebuilding from any listing of the edges (any order, either orientation of each
reported edge, repetitions allowed) -/
theorem fromNx_listing {G : BipG} (h : Inv G) {xs : List ((Nat × Nat) × Bool)}
    (hes : ∀ p, p ∈ G.edgeset ↔ p ∈ xs.map Prod.fst) :
    ∃ G', fromNx (G.l, G.r, xs.map (nxEdge G.l)) = .ok G' ∧ Inv G' ∧ G'.l = G.l ∧ G'.r = G.r ∧
      G'.ladj = G.ladj ∧ G'.radj = G.radj ∧ G'.numberOfEdges = G.numberOfEdges ∧
      ∀ e, e ∈ G'.edgeset ↔ e ∈ G.edgeset := by
  have hr : ∀ e ∈ xs.map Prod.fst, 1 ≤ e.1 ∧ e.1 ≤ G.l ∧ 1 ≤ e.2 ∧ e.2 ≤ G.r :=
    fun e he => h.range e.1 e.2 ((hes e).2 he)
  have hv : ∀ x ∈ xs, x.1.1 ≤ G.l ∧ 1 ≤ x.1.2 := fun x hx => by
    have := hr x.1 (List.mem_map.2 ⟨x, hx, rfl⟩); omega
  obtain ⟨G', h1, h2, h3, h3', h4⟩ := ofEdges_spec hr
  have he : ∀ e, e ∈ G'.edgeset ↔ e ∈ G.edgeset := fun e => by rw [h4, hes]
  have hx := Inv.ext h h2 h3 h3' he
  refine ⟨G', ?_, h2, h3, h3', hx.1, hx.2.1, hx.2.2, he⟩
  unfold fromNx
  simp only
  rw [fromNx_eq_addEdgesFrom _ _ _ hv, ← h1, ofEdges, List.map_map]
  rfl

/-- T-C16.4: `from_networkx(to_networkx(G))` is `G` -/
theorem fromNx_toNx {G : BipG} (h : Inv G) :
    ∃ G', fromNx (toNx G) = .ok G' ∧ Inv G' ∧ G'.l = G.l ∧ G'.r = G.r ∧
      G'.ladj = G.ladj ∧ G'.radj = G.radj ∧ G'.numberOfEdges = G.numberOfEdges ∧
      ∀ e, e ∈ G'.edgeset ↔ e ∈ G.edgeset := by
  have := fromNx_listing h (xs := G.edges.map (fun e => (e, false))) (fun p => by
    rw [List.map_map]
    have : (Prod.fst ∘ fun (e : Nat × Nat) => (e, false)) = id := by funext x; rfl
    rw [this, List.map_id]; exact h.mem_edges.symm)
  have e : (G.edges.map (fun e => (e, false))).map (nxEdge G.l) =
      G.edges.map (fun e => (e.1, e.2 + G.l)) := by
    rw [List.map_map]; apply List.map_congr_left; intro x _; simp [nxEdge]
  rw [e] at this
  exact this

theorem toNx_spec {G : BipG} {a : Spec} (h : Refines G a) :
    (toNx G).1 = a.l ∧ (toNx G).2.1 = a.r ∧ (toNx G).2.2 = a.edges.map (fun e => (e.1, e.2 + a.l)) := by
  refine ⟨h.l_eq, h.r_eq, ?_⟩
  simp only [toNx, h.edges_eq, h.l_eq]

end BipG

end Cnfgen
