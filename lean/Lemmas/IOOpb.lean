/-
Lemmas about the OPB writer (token level) and the strict specification-side reader `readOpb`.
-/
import Lemmas.IODimacs
import Lemmas.IOComments
namespace Cnfgen.IO

/-- a constraint as `BaseOPB` stores it after `normalize_opb` / `_check_and_update`:
relation `>=` or `==`, literals non-zero and within `n`.  Coefficients are arbitrary integers. -/
def GoodPBC (n : Nat) (c : PBC) : Prop :=
  (c.op = .ge ∨ c.op = .eq) ∧ ∀ t ∈ c.terms, t.2 ≠ 0 ∧ t.2.natAbs ≤ n

theorem lit_of_tok (l : Int) : (if decide (l < 0) = true then -((l.natAbs : Nat) : Int) else ((l.natAbs : Nat) : Int)) = l := by
  split <;> rename_i h <;> simp at h <;> omega

theorem readConstraint_terms (n : Nat) (o : Op) (d : Int) (ho : o = .ge ∨ o = .eq) :
    ∀ (ts : List (Int × Int)), (∀ t ∈ ts, t.2 ≠ 0 ∧ t.2.natAbs ≤ n) →
      readConstraint n (opbConstraintRow ⟨ts, o, d⟩) = .ok ⟨ts, o, d⟩
  | [], _ => by
    rcases ho with rfl | rfl
    · simp [opbConstraintRow, opbOpText, readConstraint]
    · simp [opbConstraintRow, opbOpText, readConstraint]
  | t :: ts, h => by
    have ht := h t (by simp)
    have ih := readConstraint_terms n o d ho ts (fun x hx => h x (by simp [hx]))
    have h1 : 1 ≤ t.2.natAbs := by have := ht.1; omega
    have hrow : opbConstraintRow ⟨t :: ts, o, d⟩ =
        Tok.int t.1 :: Tok.xvar (decide (t.2 < 0)) t.2.natAbs :: opbConstraintRow ⟨ts, o, d⟩ := by
      simp [opbConstraintRow, opbLitTok]
    rw [hrow, readConstraint, ih]
    simp only [h1, ht.2, and_self, if_true, lit_of_tok]
    all_goals first | rfl | (intro w d' hw; simp at hw)

theorem readConstraint_row (n : Nat) (c : PBC) (h : GoodPBC n c) :
    readConstraint n (opbConstraintRow c) = .ok c := by
  obtain ⟨ts, o, d⟩ := c
  exact readConstraint_terms n o d h.1 ts h.2

theorem mapM_readConstraint (n : Nat) : ∀ (cs : List PBC), (∀ c ∈ cs, GoodPBC n c) →
    (cs.map opbConstraintRow).mapM (readConstraint n) = .ok cs
  | [], _ => by simp [pure, Except.pure]
  | c :: cs, h => by
    have ih := mapM_readConstraint n cs (fun x hx => h x (by simp [hx]))
    simp [List.mapM_cons, readConstraint_row n c (h c (by simp)), ih, pure, Except.pure]

theorem opbConstraintRow_notComment (c : PBC) : opbIsComment (opbConstraintRow c) = false := by
  obtain ⟨ts, o, d⟩ := c
  cases ts with
  | nil =>
    by_cases h : o = .ge
    · subst h; simp [opbConstraintRow, opbOpText, opbIsComment]
    · simp [opbConstraintRow, opbOpText, h, opbIsComment]
  | cons t ts => simp [opbConstraintRow, opbIsComment]

theorem opbClauseRow_eq (c : Clause) : opbClauseRow c = opbConstraintRow (PBC.ofClause c) := by
  simp [opbClauseRow, opbConstraintRow, PBC.ofClause, List.flatMap_map, opbOpText]

theorem renderOpbCNF_eq (u : Bool) (F : CNF) (hdr : Option Header) (names : Option (List Str)) :
    renderOpbCNF u F hdr names = renderOpb u ⟨F.nvars, F.clauses.map PBC.ofClause⟩ hdr names := by
  simp [renderOpbCNF, renderOpb, opbClauseRow_eq]

end Cnfgen.IO
