/-
Helper lemmas for C15: the draw monad, and what one `add_edge` does to a graph object
(edge set, counters, degrees).  No Mathlib.
-/
import CnfgenModel.Rand.GraphDraws
import CnfgenModel.Rand.BipSamplers
import CnfgenModel.Rand.Mods
import CnfgenModel.Graph.Build
namespace Cnfgen
open GRand

/-! ### the draw monad -/
namespace GRand

theorem bind_ok {α β} (x : RM α) (f : α → RM β) (ds : List Draw) (b : β) (rest : List Draw) :
    (x >>= f) ds = .ok b rest ↔ ∃ a mid, x ds = .ok a mid ∧ f a mid = .ok b rest := by
  show RM.bind x f ds = _ ↔ _
  unfold RM.bind
  cases h : x ds <;> simp
  constructor
  · intro h'; exact ⟨_, _, ⟨rfl, rfl⟩, h'⟩
  · rintro ⟨a, mid, ⟨rfl, rfl⟩, h'⟩; exact h'

theorem bind_exc {α β} (x : RM α) (f : α → RM β) (ds : List Draw) (e : Err) :
    (x >>= f) ds = .exc e ↔ x ds = .exc e ∨ ∃ a mid, x ds = .ok a mid ∧ f a mid = .exc e := by
  show RM.bind x f ds = _ ↔ _
  unfold RM.bind
  cases h : x ds <;> simp
  constructor
  · intro h'; exact ⟨_, _, ⟨rfl, rfl⟩, h'⟩
  · rintro ⟨a, mid, ⟨rfl, rfl⟩, h'⟩; exact h'

theorem bind_foreign {α β} (x : RM α) (f : α → RM β) (ds : List Draw) :
    (x >>= f) ds = .foreign ↔ x ds = .foreign ∨ ∃ a mid, x ds = .ok a mid ∧ f a mid = .foreign := by
  show RM.bind x f ds = _ ↔ _
  unfold RM.bind
  cases h : x ds <;> simp
  constructor
  · intro h'; exact ⟨_, _, ⟨rfl, rfl⟩, h'⟩
  · rintro ⟨a, mid, ⟨rfl, rfl⟩, h'⟩; exact h'

@[simp] theorem pure_ok {α} (a : α) (ds : List Draw) (b : α) (rest : List Draw) :
    (pure a : RM α) ds = .ok b rest ↔ a = b ∧ ds = rest := by
  show RM.pure a ds = _ ↔ _
  simp [RM.pure]

@[simp] theorem pure_ne_exc {α} (a : α) (ds : List Draw) (e : Err) : (pure a : RM α) ds ≠ .exc e := by
  show RM.pure a ds ≠ _
  simp [RM.pure]

@[simp] theorem raise_ne_ok {α} (e : Err) (ds : List Draw) (b : α) (rest : List Draw) :
    (RM.raise e : RM α) ds ≠ .ok b rest := by simp [RM.raise]

@[simp] theorem raise_exc {α} (e e' : Err) (ds : List Draw) :
    (RM.raise e : RM α) ds = .exc e' ↔ e = e' := by simp [RM.raise]

theorem lift_ok {α} (x : Except Err α) (ds : List Draw) (b : α) (rest : List Draw) :
    RM.lift x ds = .ok b rest ↔ x = .ok b ∧ ds = rest := by
  cases x <;> simp [RM.lift, RM.raise, RM.pure]

theorem lift_exc {α} (x : Except Err α) (ds : List Draw) (e : Err) :
    RM.lift x ds = .exc e ↔ x = .error e := by
  cases x <;> simp [RM.lift, RM.raise, RM.pure]

theorem distinctNat_nodup : ∀ l : List Nat, distinctNat l = true → l.Nodup
  | [], _ => List.nodup_nil
  | x :: xs, h => by
    simp [distinctNat] at h
    exact List.nodup_cons.2 ⟨h.1, distinctNat_nodup xs h.2⟩

theorem distinctPairs_nodup : ∀ l : List (Nat × Nat), distinctPairs l = true → l.Nodup
  | [], _ => List.nodup_nil
  | x :: xs, h => by
    simp [distinctPairs] at h
    exact List.nodup_cons.2 ⟨h.1, distinctPairs_nodup xs h.2⟩

/-- what is known about the answer of `random.sample(pop, k)` — the whole assumption -/
theorem sample_ok (pop : List Nat) (k : Int) (ds : List Draw) (l : List Nat) (rest : List Draw)
    (h : sample pop k ds = .ok l rest) :
    (l.length : Int) = k ∧ l.Nodup ∧ (∀ x ∈ l, x ∈ pop) ∧ ∃ d, ds = d :: rest := by
  unfold sample at h
  split at h
  · simp at h
  · split at h
    · split at h
      · rename_i hh
        simp only [Out.ok.injEq] at h
        obtain ⟨rfl, rfl⟩ := h
        refine ⟨hh.1, distinctNat_nodup _ hh.2.1, ?_, _, rfl⟩
        intro x hx
        have := hh.2.2
        simp only [List.all_eq_true] at this
        simpa using this x hx
      · simp at h
    · simp at h

theorem sample_exc (pop : List Nat) (k : Int) (ds : List Draw) (e : Err)
    (h : sample pop k ds = .exc e) : e = .valueError ∧ (k < 0 ∨ (pop.length : Int) < k) := by
  unfold sample at h
  split at h
  · rename_i hh; simp at h; exact ⟨h.symm, hh⟩
  · split at h
    · split at h <;> simp at h
    · simp at h

theorem samplePairs_ok (pop : List (Nat × Nat)) (k : Int) (ds : List Draw) (l : List (Nat × Nat))
    (rest : List Draw) (h : samplePairs pop k ds = .ok l rest) :
    (l.length : Int) = k ∧ l.Nodup ∧ (∀ x ∈ l, x ∈ pop) ∧ ∃ d, ds = d :: rest := by
  unfold samplePairs at h
  split at h
  · simp at h
  · split at h
    · split at h
      · rename_i hh
        simp only [Out.ok.injEq] at h
        obtain ⟨rfl, rfl⟩ := h
        refine ⟨hh.1, distinctPairs_nodup _ hh.2.1, ?_, _, rfl⟩
        intro x hx
        have := hh.2.2
        simp only [List.all_eq_true] at this
        simpa using this x hx
      · simp at h
    · simp at h

theorem samplePairs_exc (pop : List (Nat × Nat)) (k : Int) (ds : List Draw) (e : Err)
    (h : samplePairs pop k ds = .exc e) : e = .valueError ∧ (k < 0 ∨ (pop.length : Int) < k) := by
  unfold samplePairs at h
  split at h
  · rename_i hh; simp at h; exact ⟨h.symm, hh⟩
  · split at h
    · split at h <;> simp at h
    · simp at h

theorem randint_ok (a b : Int) (ds : List Draw) (v : Int) (rest : List Draw)
    (h : randint a b ds = .ok v rest) : a ≤ v ∧ v ≤ b ∧ ∃ d, ds = d :: rest := by
  unfold randint at h
  split at h
  · simp at h
  · split at h
    · split at h
      · rename_i hh
        simp only [Out.ok.injEq] at h
        obtain ⟨rfl, rfl⟩ := h
        exact ⟨hh.1, hh.2, _, rfl⟩
      · simp at h
    · simp at h

theorem randint_exc (a b : Int) (ds : List Draw) (e : Err)
    (h : randint a b ds = .exc e) : e = .valueError ∧ b < a := by
  unfold randint at h
  split at h
  · rename_i hh; simp at h; exact ⟨h.symm, hh⟩
  · split at h
    · split at h <;> simp at h
    · simp at h

theorem random_ok (ds : List Draw) (x : Nat) (rest : List Draw)
    (h : GRand.random ds = .ok x rest) : x < unitDen ∧ ∃ d, ds = d :: rest := by
  unfold GRand.random at h
  split at h
  · split at h
    · rename_i hh
      simp only [Out.ok.injEq] at h
      obtain ⟨rfl, rfl⟩ := h
      exact ⟨hh, _, rfl⟩
    · simp at h
  · simp at h

theorem random_ne_exc (ds : List Draw) (e : Err) : GRand.random ds ≠ .exc e := by
  unfold GRand.random
  split
  · split <;> simp
  · simp

/-! ### no third-party exception comes out of the in-house code -/
/-- the computation never lets a third-party exception escape -/
def NoForeign {α} (x : RM α) : Prop := ∀ ds, x ds ≠ .foreign

theorem NoForeign.pure {α} (a : α) : NoForeign (pure a : RM α) := by
  intro ds; show RM.pure a ds ≠ _; simp [RM.pure]
theorem NoForeign.raise {α} (e : Err) : NoForeign (RM.raise e : RM α) := by
  intro ds; simp [RM.raise]
theorem NoForeign.lift {α} (x : Except Err α) : NoForeign (RM.lift x) := by
  cases x
  · exact NoForeign.raise _
  · intro ds; simp [RM.lift, RM.pure]
theorem NoForeign.bind {α β} {x : RM α} {f : α → RM β} (hx : NoForeign x) (hf : ∀ a, NoForeign (f a)) :
    NoForeign (x >>= f) := by
  intro ds h
  rw [bind_foreign] at h
  rcases h with h | ⟨a, mid, _, h⟩
  · exact hx ds h
  · exact hf a mid h
theorem NoForeign.sample (pop : List Nat) (k : Int) : NoForeign (sample pop k) := by
  intro ds h; unfold GRand.sample at h
  split at h
  · simp at h
  · split at h
    · split at h <;> simp at h
    · simp at h
theorem NoForeign.samplePairs (pop : List (Nat × Nat)) (k : Int) : NoForeign (samplePairs pop k) := by
  intro ds h; unfold GRand.samplePairs at h
  split at h
  · simp at h
  · split at h
    · split at h <;> simp at h
    · simp at h
theorem NoForeign.randint (a b : Int) : NoForeign (randint a b) := by
  intro ds h; unfold GRand.randint at h
  split at h
  · simp at h
  · split at h
    · split at h <;> simp at h
    · simp at h
theorem NoForeign.random : NoForeign GRand.random := by
  intro ds h; unfold GRand.random at h
  split at h
  · split at h <;> simp at h
  · simp at h
theorem NoForeign.ite {α} {c : Prop} [Decidable c] {x y : RM α} (hx : NoForeign x) (hy : NoForeign y) :
    NoForeign (if c then x else y) := by
  split <;> assumption
theorem NoForeign.stuck {α} : NoForeign (fun _ => (.stuck : Out α)) := by
  intro ds h; simp at h

end GRand

/-! ### membership in the Python ranges -/
theorem mem_rangeN {a b x : Nat} : x ∈ rangeN a b ↔ a ≤ x ∧ x < b := by
  simp only [rangeN, List.mem_map, List.mem_range]
  constructor
  · rintro ⟨i, hi, rfl⟩; omega
  · intro h; exact ⟨x - a, by omega, by omega⟩

theorem length_rangeN (a b : Nat) : (rangeN a b).length = b - a := by simp [rangeN]

theorem rangeN_eq_range' (a b : Nat) : rangeN a b = List.range' a (b - a) := by
  rw [rangeN, List.range'_eq_map_range]
  apply List.map_congr_left
  intro x _; omega

theorem nodup_rangeN (a b : Nat) : (rangeN a b).Nodup := by
  rw [rangeN_eq_range']; exact List.nodup_range'

theorem rangeN_succ_left {a b : Nat} (h : a < b) : rangeN a b = a :: rangeN (a + 1) b := by
  rw [rangeN_eq_range', rangeN_eq_range']
  have : b - a = (b - (a + 1)) + 1 := by omega
  rw [this, List.range'_succ]

theorem rangeN_empty {a b : Nat} (h : b ≤ a) : rangeN a b = [] := by
  rw [rangeN_eq_range']; have : b - a = 0 := by omega
  rw [this]; rfl

/-! ### sorted insertion -/
theorem length_insertSorted (l : List Nat) (v : Nat) : (insertSorted l v).length = l.length + 1 := by
  induction l with
  | nil => rfl
  | cons x xs ih => simp only [insertSorted]; split <;> simp [ih]

theorem mem_insertSorted (l : List Nat) (v x : Nat) : x ∈ insertSorted l v ↔ x = v ∨ x ∈ l := by
  induction l with
  | nil => simp [insertSorted]
  | cons y ys ih =>
    simp only [insertSorted]
    split
    · simp [ih]; constructor <;> rintro (h | h | h) <;> simp [h]
    · simp

theorem perm_insertSorted (l : List Nat) (v : Nat) : (insertSorted l v).Perm (v :: l) := by
  induction l with
  | nil => exact List.Perm.refl _
  | cons y ys ih =>
    simp only [insertSorted]
    split
    · exact (List.Perm.cons y ih).trans (List.Perm.swap v y ys)
    · exact List.Perm.refl _

theorem perm_sortNat_aux (l acc : List Nat) : (l.foldl insertSorted acc).Perm (l.reverse ++ acc) := by
  induction l generalizing acc with
  | nil => simp
  | cons x xs ih =>
    simp only [List.foldl_cons, List.reverse_cons, List.append_assoc, List.singleton_append]
    refine (ih _).trans ?_
    exact List.Perm.append_left _ (perm_insertSorted acc x)

theorem perm_sortNat (l : List Nat) : (sortNat l).Perm l := by
  have := perm_sortNat_aux l []
  simp only [List.append_nil] at this
  exact this.trans (List.reverse_perm l)

/-! ### one `add_edge` on a bipartite graph -/
namespace BipG

/-- `right_degree(u)` of the code: number of right neighbours of the left vertex `u` -/
def leftDeg (G : BipG) (u : Nat) : Nat := (G.rnbrs u).length
/-- `left_degree(v)` of the code: number of left neighbours of the right vertex `v` -/
def rightDeg (G : BipG) (v : Nat) : Nat := (G.lnbrs v).length

/-- consistency of the object: the two adjacency tables have one row per vertex, edges are inside
the graph and stored once, and the length of every adjacency row is the number of stored edges
at that vertex -/
structure InvGB (G : BipG) : Prop where
  lrows : G.ladj.length = G.l + 1
  rrows : G.radj.length = G.r + 1
  inside : ∀ e ∈ G.edgeset, 1 ≤ e.1 ∧ e.1 ≤ G.l ∧ 1 ≤ e.2 ∧ e.2 ≤ G.r
  nodup : G.edgeset.Nodup
  ldeg : ∀ u, G.leftDeg u = G.edgeset.countP (fun e => e.1 == u)
  rdeg : ∀ v, G.rightDeg v = G.edgeset.countP (fun e => e.2 == v)

theorem hasEdge_iff (G : BipG) (u v : Int) :
    G.hasEdge u v = true ↔ 0 ≤ u ∧ 0 ≤ v ∧ (u.toNat, v.toNat) ∈ G.edgeset := by
  simp [hasEdge, and_assoc]

theorem hasEdge_nat (G : BipG) (u v : Nat) :
    G.hasEdge (u : Int) (v : Int) = true ↔ (u, v) ∈ G.edgeset := by
  simp [hasEdge_iff]

theorem getD_replicate_nil_gb (n i : Nat) : ((List.replicate n ([] : List Nat))[i]?).getD [] = [] := by
  simp only [List.getElem?_replicate]
  split <;> rfl

theorem inv_init_gb (l r : Nat) : InvGB (init l r) := by
  refine ⟨by simp [init], by simp [init], by simp [init], by simp [init], ?_, ?_⟩
  · intro u; simp [leftDeg, rnbrs, init, getD_replicate_nil_gb]
  · intro v; simp [rightDeg, lnbrs, init, getD_replicate_nil_gb]

theorem getD_modify (l : List (List Nat)) (i j : Nat) (f : List Nat → List Nat) (hi : i < l.length) :
    ((l.modify i f)[j]?).getD [] = if i = j then f ((l[j]?).getD []) else (l[j]?).getD [] := by
  simp only [List.getElem?_modify]
  by_cases h : i = j
  · subst h; simp [List.getElem?_eq_getElem hi]
  · simp only [h, if_false]
    cases l[j]? <;> simp

/-- one `add_edge(u, v)`: either it raises `ValueError` (a vertex is outside the graph), or the
edge was there and nothing changes, or the edge is new and is stored once -/
theorem addEdge_ok (G G' : BipG) (u v : Int) (h : G.addEdge u v = .ok G') :
    (1 ≤ u ∧ u ≤ G.l ∧ 1 ≤ v ∧ v ≤ G.r) ∧
    ((G.hasEdge u v = true ∧ G' = G) ∨
     (G.hasEdge u v = false ∧ G'.l = G.l ∧ G'.r = G.r ∧ G'.edgeset = (u.toNat, v.toNat) :: G.edgeset ∧
      G'.ladj = G.ladj.modify u.toNat (insertSorted · v.toNat) ∧
      G'.radj = G.radj.modify v.toNat (insertSorted · u.toNat))) := by
  unfold addEdge at h
  split at h
  · simp at h
  · rename_i hr
    have hr' : 1 ≤ u ∧ u ≤ G.l ∧ 1 ≤ v ∧ v ≤ G.r := by
      simpa [Decidable.not_not] using hr
    refine ⟨hr', ?_⟩
    split at h
    · rename_i he
      left; simp at h; exact ⟨he, h.symm⟩
    · rename_i he
      right
      simp only [Except.ok.injEq] at h
      subst h
      exact ⟨by simpa using he, rfl, rfl, rfl, rfl, rfl⟩

theorem addEdge_error (G : BipG) (u v : Int) (e : Err) (h : G.addEdge u v = .error e) :
    e = .valueError ∧ ¬ (1 ≤ u ∧ u ≤ G.l ∧ 1 ≤ v ∧ v ≤ G.r) := by
  unfold addEdge at h
  split at h
  · rename_i hr; simp at h; exact ⟨h.symm, hr⟩
  · split at h <;> simp at h

theorem addEdge_succeeds (G : BipG) (u v : Int) (h : 1 ≤ u ∧ u ≤ G.l ∧ 1 ≤ v ∧ v ≤ G.r) :
    ∃ G', G.addEdge u v = .ok G' := by
  unfold addEdge
  rw [if_neg (by simpa using h)]
  split <;> exact ⟨_, rfl⟩

theorem inv_addEdge_gb (G G' : BipG) (u v : Int) (hI : InvGB G) (h : G.addEdge u v = .ok G') : InvGB G' := by
  obtain ⟨hr, hcase⟩ := addEdge_ok G G' u v h
  rcases hcase with ⟨_, rfl⟩ | ⟨hne, hl, hr', hes, hla, hra⟩
  · exact hI
  · have hnot : (u.toNat, v.toNat) ∉ G.edgeset := by
      intro hm
      have := (hasEdge_iff G u v).2 ⟨by omega, by omega, hm⟩
      simp [hne] at this
    have hu : u.toNat < G.ladj.length := by rw [hI.lrows]; omega
    have hv : v.toNat < G.radj.length := by rw [hI.rrows]; omega
    refine ⟨by rw [hla, hl]; simp [hI.lrows], by rw [hra, hr']; simp [hI.rrows], ?_, ?_, ?_, ?_⟩
    · intro e he
      rw [hes] at he
      rw [hl, hr']
      rcases List.mem_cons.1 he with rfl | he
      · simp only; omega
      · exact hI.inside e he
    · rw [hes]; exact List.nodup_cons.2 ⟨hnot, hI.nodup⟩
    · intro x
      have := hI.ldeg x
      simp only [leftDeg, rnbrs, List.getD_eq_getElem?_getD] at this ⊢
      rw [hla, hes, getD_modify _ _ _ _ hu, List.countP_cons]
      by_cases hx : u.toNat = x
      · subst hx; simp [length_insertSorted, this]
      · simp [hx, this]
    · intro x
      have := hI.rdeg x
      simp only [rightDeg, lnbrs, List.getD_eq_getElem?_getD] at this ⊢
      rw [hra, hes, getD_modify _ _ _ _ hv, List.countP_cons]
      by_cases hx : v.toNat = x
      · subst hx; simp [length_insertSorted, this]
      · simp [hx, this]

theorem sides_addEdge (G G' : BipG) (u v : Int) (h : G.addEdge u v = .ok G') :
    G'.l = G.l ∧ G'.r = G.r := by
  obtain ⟨_, hcase⟩ := addEdge_ok G G' u v h
  rcases hcase with ⟨_, rfl⟩ | ⟨_, hl, hr, _⟩
  · exact ⟨rfl, rfl⟩
  · exact ⟨hl, hr⟩

/-- edges are never lost, and the only edge that can appear is the one added -/
theorem edgeset_addEdge (G G' : BipG) (u v : Int) (h : G.addEdge u v = .ok G') (e : Nat × Nat) :
    e ∈ G'.edgeset ↔ e = (u.toNat, v.toNat) ∨ e ∈ G.edgeset := by
  obtain ⟨hr, hcase⟩ := addEdge_ok G G' u v h
  rcases hcase with ⟨he, hG⟩ | ⟨_, _, _, hes, _⟩
  · have := ((hasEdge_iff G u v).1 he).2.2
    rw [hG]
    constructor
    · intro h; exact Or.inr h
    · rintro (rfl | h); exact this; exact h
  · rw [hes]; simp

end BipG

/-! ### folds of `add_edge` -/
theorem foldlM_except_nil {α β} (f : β → α → Except Err β) (b : β) :
    ([] : List α).foldlM f b = .ok b := rfl

theorem foldlM_except_cons {α β} (f : β → α → Except Err β) (b : β) (x : α) (xs : List α) :
    (x :: xs).foldlM f b = (f b x >>= fun b' => xs.foldlM f b') := by
  simp [List.foldlM]

theorem except_bind_ok {α β} (x : Except Err α) (f : α → Except Err β) (b : β) :
    (x >>= f) = .ok b ↔ ∃ a, x = .ok a ∧ f a = .ok b := by
  cases x <;> simp [bind, Except.bind]

theorem except_bind_error {α β} (x : Except Err α) (f : α → Except Err β) (e : Err) :
    (x >>= f) = .error e ↔ x = .error e ∨ ∃ a, x = .ok a ∧ f a = .error e := by
  cases x <;> simp [bind, Except.bind]

end Cnfgen
