/-
Lemmas for T-C11.2 — `WordOfIndicesVariables` (combinations, combinations with replacement,
permutations, words): the enumeration is duplicate-free, hence `seq2vid` / `vid2seq` are inverse
and the identifiers are contiguous in enumeration order.
-/
import CnfgenModel.Vars.Patterns
import Lemmas.IterNodup
namespace Cnfgen
namespace Vars

/-! ### the dictionary `seq2vid` on a duplicate-free enumeration -/

theorem lastIdxOf_of_nodup {seqs : List (List Nat)} (h : seqs.Nodup) (w : List Nat) :
    lastIdxOf seqs w = if w ∈ seqs then some (seqs.idxOf w) else none := sorry

/-- on a duplicate-free enumeration the dictionary is the position (`wordId`) -/
theorem seq2vid_eq_wordId {seqs : List (List Nat)} (h : seqs.Nodup) (start : Nat) (w : List Nat) :
    seq2vid start seqs w = wordId start seqs w := sorry

theorem seq2vid_isSome_iff (start : Nat) (seqs : List (List Nat)) (w : List Nat) :
    (seq2vid start seqs w).isSome ↔ w ∈ seqs := sorry

/-- the `i`-th word has identifier `start + i` -/
theorem seq2vid_getElem {seqs : List (List Nat)} (h : seqs.Nodup) (start i : Nat) (hi : i < seqs.length) :
    seq2vid start seqs seqs[i] = some (start + i) := sorry

/-- contiguity in enumeration order -/
theorem word_ids {seqs : List (List Nat)} (h : seqs.Nodup) (start : Nat) :
    seqs.map (fun w => (seq2vid start seqs w).getD 0) = List.range' start seqs.length := sorry

/-- index → id → index, both polarities -/
theorem wordIndex_seq2vid {seqs : List (List Nat)} (h : seqs.Nodup) (start : Nat) {w : List Nat} {v : Nat}
    (hv : seq2vid start seqs w = some v) :
    start ≤ v ∧ v < start + seqs.length ∧
    wordIndex start seqs (v : Int) = .ok w ∧ wordIndex start seqs (-(v : Int)) = .ok w := sorry

/-- id → index → id -/
theorem seq2vid_wordIndex {seqs : List (List Nat)} (h : seqs.Nodup) {start : Nat} {lit : Int} {w : List Nat}
    (hw : wordIndex start seqs lit = .ok w) :
    w ∈ seqs ∧ seq2vid start seqs w = some lit.natAbs := sorry

theorem wordIndex_isOk_iff (start : Nat) (seqs : List (List Nat)) (lit : Int) :
    (∃ w, wordIndex start seqs lit = .ok w) ↔ (start ≤ lit.natAbs ∧ lit.natAbs < start + seqs.length) := sorry
theorem wordIndex_error {start : Nat} {seqs : List (List Nat)} {lit : Int} {e : Err}
    (h : wordIndex start seqs lit = .error e) : e = .valueError := sorry

/-! ### the four enumerations -/

theorem combosSeqs_nodup (n k : Nat) : (combosSeqs n k).Nodup := sorry
theorem combosReplSeqs_nodup (n k : Nat) : (combosReplSeqs n k).Nodup := sorry
theorem permsSeqs_nodup (n k : Nat) : (permsSeqs n k).Nodup := sorry
theorem wordsSeqs_nodup (n k : Nat) : (wordsSeqs n k).Nodup := sorry

/-- the legal indices are exactly the documented ones -/
theorem mem_combosSeqs {n k : Nat} {w : List Nat} :
    w ∈ combosSeqs n k ↔ w.length = k ∧ w.Pairwise (· < ·) ∧ ∀ x ∈ w, 1 ≤ x ∧ x ≤ n := sorry
theorem mem_combosReplSeqs {n k : Nat} {w : List Nat} :
    w ∈ combosReplSeqs n k ↔ w.length = k ∧ w.Pairwise (· ≤ ·) ∧ ∀ x ∈ w, 1 ≤ x ∧ x ≤ n := sorry
theorem mem_permsSeqs {n k : Nat} {w : List Nat} :
    w ∈ permsSeqs n k ↔ w.length = k ∧ w.Nodup ∧ ∀ x ∈ w, 1 ≤ x ∧ x ≤ n := sorry
theorem mem_wordsSeqs {n k : Nat} {w : List Nat} :
    w ∈ wordsSeqs n k ↔ w.length = k ∧ ∀ x ∈ w, 1 ≤ x ∧ x ≤ n := sorry

/-! ### patterns of a word group -/

/-- `patternNats` of a tuple of naturals -/
theorem patternNats_map_some (w : List Nat) : patternNats (w.map (fun i => some (i : Int))) = some w := sorry

/-- a pattern that is not a tuple of naturals (contains `None` or a negative entry) is never a key -/
theorem patternNats_eq_some {pat : Pattern} {w : List Nat} (h : patternNats pat = some w) :
    pat = w.map (fun i => some (i : Int)) := sorry

end Vars
end Cnfgen
