/-
Lemmas for T-C11.2 — `WordOfIndicesVariables` (combinations, combinations with replacement,
permutations, words): the enumeration is duplicate-free, hence `seq2vid` / `vid2seq` are inverse
and the identifiers are contiguous in enumeration order.
-/
import CnfgenModel.Vars.Patterns
import Lemmas.IterNodup
namespace Cnfgen
namespace Vars

/-! ### the dictionary `seq2vid` on a duplicate-free enumeration -/

/-- (no `Nodup` needed) a word is a key iff it is enumerated -/
theorem lastIdxOf_isSome_iff (seqs : List (List Nat)) (w : List Nat) :
    (lastIdxOf seqs w).isSome ↔ w ∈ seqs := by
  induction seqs with
  | nil => simp [lastIdxOf]
  | cons x xs ih =>
    simp only [lastIdxOf, List.mem_cons]
    cases h : lastIdxOf xs w with
    | some i =>
      rw [h] at ih
      simp at ih
      simp [ih]
    | none =>
      rw [h] at ih
      simp at ih
      by_cases hx : x = w
      · simp [hx]
      · simp [hx, ih, Ne.symm hx]

theorem lastIdxOf_of_nodup {seqs : List (List Nat)} (h : seqs.Nodup) (w : List Nat) :
    lastIdxOf seqs w = if w ∈ seqs then some (seqs.idxOf w) else none := by
  induction seqs with
  | nil => simp [lastIdxOf]
  | cons x xs ih =>
    rw [List.nodup_cons] at h
    simp only [lastIdxOf, ih h.2, List.mem_cons]
    by_cases hw : w ∈ xs
    · have hx : x ≠ w := fun e => h.1 (e ▸ hw)
      simp [hw, List.idxOf_cons_ne _ hx]
    · by_cases hx : x = w
      · simp [hw, hx]
      · simp [hw, hx, Ne.symm hx]

/-- on a duplicate-free enumeration the dictionary is the position (`wordId`) -/
theorem seq2vid_eq_wordId {seqs : List (List Nat)} (h : seqs.Nodup) (start : Nat) (w : List Nat) :
    seq2vid start seqs w = wordId start seqs w := by
  unfold seq2vid wordId
  rw [lastIdxOf_of_nodup h]
  by_cases hw : w ∈ seqs
  · simp [hw, List.idxOf_lt_length_iff]
  · simp [hw]

theorem seq2vid_isSome_iff (start : Nat) (seqs : List (List Nat)) (w : List Nat) :
    (seq2vid start seqs w).isSome ↔ w ∈ seqs := by
  unfold seq2vid
  rw [Option.isSome_map, lastIdxOf_isSome_iff]

/-- the `i`-th word has identifier `start + i` -/
theorem seq2vid_getElem {seqs : List (List Nat)} (h : seqs.Nodup) (start i : Nat) (hi : i < seqs.length) :
    seq2vid start seqs seqs[i] = some (start + i) := by
  unfold seq2vid
  rw [lastIdxOf_of_nodup h]
  simp [List.getElem_mem, h.idxOf_getElem]

/-- contiguity in enumeration order -/
theorem word_ids {seqs : List (List Nat)} (h : seqs.Nodup) (start : Nat) :
    seqs.map (fun w => (seq2vid start seqs w).getD 0) = List.range' start seqs.length := by
  apply List.ext_getElem
  · simp
  · intro i h1 h2
    simp only [List.getElem_map, List.getElem_range']
    rw [seq2vid_getElem h start i (by simpa using h1)]
    simp

/-- index → id → index, both polarities -/
theorem wordIndex_seq2vid {seqs : List (List Nat)} (h : seqs.Nodup) (start : Nat) {w : List Nat} {v : Nat}
    (hv : seq2vid start seqs w = some v) :
    start ≤ v ∧ v < start + seqs.length ∧
    wordIndex start seqs (v : Int) = .ok w ∧ wordIndex start seqs (-(v : Int)) = .ok w := by
  unfold seq2vid at hv
  rw [lastIdxOf_of_nodup h] at hv
  by_cases hw : w ∈ seqs
  · simp only [hw, if_true, Option.map_some, Option.some.injEq] at hv
    have hlt : seqs.idxOf w < seqs.length := List.idxOf_lt_length_iff.mpr hw
    subst hv
    refine ⟨by omega, by omega, ?_, ?_⟩ <;>
    · unfold wordIndex
      simp only [Int.natAbs_neg, Int.natAbs_natCast]
      rw [if_pos ⟨by omega, by omega⟩]
      simp [hlt]
  · simp [hw] at hv

/-- id → index → id -/
theorem seq2vid_wordIndex {seqs : List (List Nat)} (h : seqs.Nodup) {start : Nat} {lit : Int} {w : List Nat}
    (hw : wordIndex start seqs lit = .ok w) :
    w ∈ seqs ∧ seq2vid start seqs w = some lit.natAbs := by
  unfold wordIndex at hw
  simp only at hw
  split at hw
  · rename_i hr
    have hlt : lit.natAbs - start < seqs.length := by omega
    rw [List.getElem?_eq_getElem hlt] at hw
    simp only [Except.ok.injEq] at hw
    subst hw
    refine ⟨List.getElem_mem _, ?_⟩
    rw [seq2vid_getElem h]
    congr 1; omega
  · cases hw

theorem wordIndex_isOk_iff (start : Nat) (seqs : List (List Nat)) (lit : Int) :
    (∃ w, wordIndex start seqs lit = .ok w) ↔ (start ≤ lit.natAbs ∧ lit.natAbs < start + seqs.length) := by
  unfold wordIndex
  simp only
  constructor
  · rintro ⟨w, hw⟩
    split at hw
    · assumption
    · cases hw
  · intro hr
    have hlt : lit.natAbs - start < seqs.length := by omega
    rw [if_pos hr, List.getElem?_eq_getElem hlt]
    exact ⟨_, rfl⟩

theorem wordIndex_error {start : Nat} {seqs : List (List Nat)} {lit : Int} {e : Err}
    (h : wordIndex start seqs lit = .error e) : e = .valueError := by
  unfold wordIndex at h
  simp only at h
  split at h
  · rename_i hr
    have hlt : lit.natAbs - start < seqs.length := by omega
    rw [List.getElem?_eq_getElem hlt] at h
    cases h
  · cases h; rfl

/-! ### the four enumerations -/

theorem combosSeqs_nodup (n k : Nat) : (combosSeqs n k).Nodup := combos_nodup (rangeN_nodup _ _) k
theorem combosReplSeqs_nodup (n k : Nat) : (combosReplSeqs n k).Nodup := combosRepl_nodup (rangeN_nodup _ _) k
theorem permsSeqs_nodup (n k : Nat) : (permsSeqs n k).Nodup := permsK_nodup (rangeN_nodup _ _) k
theorem wordsSeqs_nodup (n k : Nat) : (wordsSeqs n k).Nodup := productRep_nodup (rangeN_nodup _ _) k

theorem mem_rangeN_one {n x : Nat} : x ∈ rangeN 1 (n + 1) ↔ 1 ≤ x ∧ x ≤ n := by
  rw [mem_rangeN]; omega

/-- a strictly increasing list with members in `[a, a+m)` is a sublist of `range' a m` -/
theorem sublist_range'_of_sorted (w : List Nat) : ∀ (a m : Nat), w.Pairwise (· < ·) →
    (∀ x ∈ w, a ≤ x ∧ x < a + m) → w.Sublist (List.range' a m) := by
  intro a m
  induction m generalizing a w with
  | zero =>
    intro _ hr
    cases w with
    | nil => simp
    | cons x xs => have := hr x List.mem_cons_self; omega
  | succ m ih =>
    intro hs hr
    rw [List.range'_succ]
    cases w with
    | nil => simp
    | cons x xs =>
      rw [List.pairwise_cons] at hs
      have hx := hr x List.mem_cons_self
      by_cases hxa : x = a
      · subst hxa
        apply List.Sublist.cons_cons
        apply ih _ _ hs.2
        intro y hy
        have := hs.1 y hy
        have := hr y (List.mem_cons_of_mem _ hy)
        omega
      · apply List.Sublist.cons
        apply ih _ _ (List.pairwise_cons.mpr hs)
        intro y hy
        rcases List.mem_cons.mp hy with rfl | hy'
        · omega
        · have := hs.1 y hy'
          have := hr y (List.mem_cons_of_mem _ hy')
          omega

/-- the legal indices are exactly the documented ones -/
theorem mem_combosSeqs {n k : Nat} {w : List Nat} :
    w ∈ combosSeqs n k ↔ w.length = k ∧ w.Pairwise (· < ·) ∧ ∀ x ∈ w, 1 ≤ x ∧ x ≤ n := by
  unfold combosSeqs
  rw [mem_combos]
  constructor
  · rintro ⟨hs, hl⟩
    refine ⟨hl, (rangeN_sorted _ _).sublist hs, fun x hx => mem_rangeN_one.mp (hs.subset hx)⟩
  · rintro ⟨hl, hs, hr⟩
    refine ⟨?_, hl⟩
    rw [rangeN_eq_range']
    apply sublist_range'_of_sorted _ _ _ hs
    intro x hx
    have := hr x hx
    omega

theorem mem_combosReplSeqs {n k : Nat} {w : List Nat} :
    w ∈ combosReplSeqs n k ↔ w.length = k ∧ w.Pairwise (· ≤ ·) ∧ ∀ x ∈ w, 1 ≤ x ∧ x ≤ n := by
  unfold combosReplSeqs
  rw [mem_combosRepl_sorted (rangeN_sorted _ _)]
  simp only [mem_rangeN_one]

theorem mem_permsSeqs {n k : Nat} {w : List Nat} :
    w ∈ permsSeqs n k ↔ w.length = k ∧ w.Nodup ∧ ∀ x ∈ w, 1 ≤ x ∧ x ≤ n := by
  unfold permsSeqs
  rw [mem_permsK (rangeN_nodup _ _)]
  simp only [mem_rangeN_one]

theorem mem_wordsSeqs {n k : Nat} {w : List Nat} :
    w ∈ wordsSeqs n k ↔ w.length = k ∧ ∀ x ∈ w, 1 ≤ x ∧ x ≤ n := by
  unfold wordsSeqs
  rw [mem_productRep]
  simp only [mem_rangeN_one]

/-! ### patterns of a word group -/

/-- `patternNats` of a tuple of naturals (explicit binder type; see the remark below) -/
theorem patternNats_map_some' (w : List Nat) :
    patternNats (w.map (fun (i : Nat) => some (i : Int))) = some w := by
  induction w with
  | nil => rfl
  | cons x xs ih =>
    simp only [List.map_cons, patternNats, ih]
    simp

theorem patternNats_eq_some' {pat : Pattern} {w : List Nat} (h : patternNats pat = some w) :
    pat = w.map (fun (i : Nat) => some (i : Int)) := by
  induction pat generalizing w with
  | nil => simp [patternNats] at h; subst h; rfl
  | cons p ps ih =>
    cases p with
    | none => simp [patternNats] at h
    | some i =>
      simp only [patternNats] at h
      split at h
      · cases h
      · rename_i hi
        cases hp : patternNats ps with
        | none => rw [hp] at h; cases h
        | some u =>
          rw [hp] at h
          simp only [Option.map_some, Option.some.injEq] at h
          subst h
          rw [ih hp]
          simp only [List.map_cons, List.cons.injEq, Option.some.injEq, and_true]
          omega

/- Remark: with Mathlib in scope, `w.map (fun i => some (i : Int))` (no binder type) elaborates to
`List.map (fun i : Int => some i) (↑w)` where `↑w = do let a ← w; pure (a : Int)` is the monadic
coercion `List Nat → List Int`; it is equal to the primed form by `simp`. -/
theorem map_some_coe (w : List Nat) :
    (w.map (fun i => some (i : Int)) : Pattern) = w.map (fun (i : Nat) => some (i : Int)) := by
  induction w with
  | nil => rfl
  | cons x xs ih => simpa using ih

/-- `patternNats` of a tuple of naturals -/
theorem patternNats_map_some (w : List Nat) : patternNats (w.map (fun i => some (i : Int))) = some w := by
  rw [map_some_coe]; exact patternNats_map_some' w

/-- a pattern that is not a tuple of naturals (contains `None` or a negative entry) is never a key -/
theorem patternNats_eq_some {pat : Pattern} {w : List Nat} (h : patternNats pat = some w) :
    pat = w.map (fun i => some (i : Int)) := by
  rw [map_some_coe]; exact patternNats_eq_some' h

end Vars
end Cnfgen
