/-
Helper lemmas for Props/C07: the taint analysis of `Cli/PhaseTable.lean` is sound — if `taintFrom` accepts an
event list, two runs of it with the same command line and seed but different hidden inputs observe the same.
-/
import CnfgenModel.Cli.PhaseTable
namespace Cnfgen.Cli
open Cnfgen.GenPh

variable {S : Type}

/-- two states of two runs: the same observations so far, and the same generator state whenever the analysis
says it is determined -/
def Rel (det : Bool) (a b : St S) : Prop := a.obs = b.obs ∧ (det = true → a.rng = b.rng)

@[simp] theorem draws_zero (g : Gen S) (s : S) : draws g 0 s = ([], s) := rfl

theorem firesForAllSeeds_fires (ty : String) (gd : Guard) (s : Int) (h : firesForAllSeeds ty gd = true) :
    guardFires ty gd (some s) = true := by
  cases gd <;> simp_all [firesForAllSeeds, guardFires]

theorem drawLater_rel (g : Gen S) (k : Nat) (a b : St S) (h : Rel true a b) :
    Rel true (a.drawLater g k) (b.drawLater g k) := by
  obtain ⟨ho, hr⟩ := h
  have hr' := hr rfl
  cases a; cases b
  simp only at ho hr'
  subst ho; subst hr'
  exact ⟨rfl, fun _ => rfl⟩

theorem stepEv_rel (g : Gen S) (t : ToolPhases) (c : RunCmd) (s : Int) (hs : c.seed = some s)
    (h₁ h₂ : Hidden S) (det det' : Bool) (e : Ev) (a b : St S) (hrel : Rel det a b)
    (ht : taintStep t det e = some det') : Rel det' (stepEv g t c h₁ a e) (stepEv g t c h₂ b e) := by
  obtain ⟨ho, hr⟩ := hrel
  cases e with
  | parse call =>
    simp only [taintStep] at ht
    cases hso : t.seedOpt with
    | none =>
      simp only [hso, Bool.or_false] at ht
      by_cases hpd : parseMayDraw t = true
      · cases det with
        | false => simp [hpd] at ht
        | true =>
          simp [hpd] at ht; subst ht
          have := hr rfl
          simp only [stepEv, hso, hpd, if_true]
          rw [this, ho]
          exact ⟨rfl, fun _ => rfl⟩
      · have hpd' : parseMayDraw t = false := by simpa using hpd
        simp [hpd'] at ht; subst ht
        simp only [stepEv, hso, hpd', Bool.false_eq_true, if_false, draws_zero]
        refine ⟨by simp [ho], fun hd => ?_⟩
        simpa using hr hd
    | some o =>
      simp only [hso] at ht
      by_cases hseeds : o.seeds = true
      · -- the option's action seeds: both generators are in state `seedTo s`
        have hdet' : det' = true := by
          by_cases hpd : parseMayDraw t = true <;> simp_all
        subst hdet'
        simp only [stepEv, hso, hs, hseeds, if_true]
        rw [ho]
        exact ⟨rfl, fun _ => rfl⟩
      · have hseeds' : o.seeds = false := by simpa using hseeds
        simp only [hseeds', Bool.or_false] at ht
        by_cases hpd : parseMayDraw t = true
        · cases det with
          | false => simp [hpd] at ht
          | true =>
            simp [hpd] at ht; subst ht
            have := hr rfl
            simp only [stepEv, hso, hs, hseeds', hpd, if_true]
            simp only [Bool.false_eq_true, if_false]
            rw [this, ho]
            exact ⟨rfl, fun _ => rfl⟩
        · have hpd' : parseMayDraw t = false := by simpa using hpd
          simp [hpd'] at ht; subst ht
          simp only [stepEv, hso, hs, hseeds', hpd', Bool.false_eq_true, if_false, draws_zero]
          refine ⟨by simp [ho], fun hd => ?_⟩
          simpa using hr hd
  | seed gd arg =>
    cases arg with
    | argsSeed =>
      simp only [taintStep] at ht
      cases hso : t.seedOpt with
      | none => simp [hso] at ht
      | some o =>
        simp only [hso] at ht
        by_cases hst : o.stores = true
        · simp only [hst, if_true] at ht
          by_cases hk : gd.known = true
          · simp only [hk, if_true, Option.some.injEq] at ht
            have hargs : argsSeed t c.seed = some s := by simp [argsSeed, hso, hst, hs]
            simp only [stepEv, hargs]
            by_cases hf : guardFires (seedTy t) gd (some s) = true
            · simp only [hf, if_true]
              exact ⟨ho, fun _ => rfl⟩
            · have hf' : guardFires (seedTy t) gd (some s) = false := by simpa using hf
              simp only [hf', Bool.false_eq_true, if_false]
              refine ⟨ho, fun hd => ?_⟩
              have hall : firesForAllSeeds (seedTy t) gd = false := by
                cases hfa : firesForAllSeeds (seedTy t) gd with
                | false => rfl
                | true => have := firesForAllSeeds_fires _ _ s hfa; simp [hf'] at this
              rw [hall, Bool.or_false] at ht
              subst ht
              exact hr hd
          · simp [hk] at ht
        · simp [hst] at ht
    | actionValue => simp [taintStep] at ht
    | noArgument => simp [taintStep] at ht
    | other src => simp [taintStep] at ht
  | draw callee =>
    cases det with
    | false => simp [taintStep] at ht
    | true =>
      simp [taintStep] at ht; subst ht
      exact drawLater_rel g 1 a b ⟨ho, hr⟩
  | readInput call =>
    simp [taintStep] at ht; subst ht
    exact ⟨ho, hr⟩
  | build call =>
    cases det with
    | false => simp [taintStep] at ht
    | true =>
      simp [taintStep] at ht; subst ht
      exact drawLater_rel g _ a b ⟨ho, hr⟩
  | transforms call =>
    cases det with
    | false => simp [taintStep] at ht
    | true =>
      simp [taintStep] at ht; subst ht
      exact drawLater_rel g _ a b ⟨ho, hr⟩
  | shuffle =>
    cases det with
    | false => simp [taintStep] at ht
    | true =>
      simp [taintStep] at ht; subst ht
      exact drawLater_rel g _ a b ⟨ho, hr⟩
  | headerSeed gd v =>
    simp only [taintStep] at ht
    by_cases hk : (gd.known && v == "args.seed") = true
    · simp only [hk, if_true, Option.some.injEq] at ht; subst ht
      simp only [stepEv]
      by_cases hf : guardFires (seedTy t) gd (argsSeed t c.seed) = true
      · simp only [hf, if_true]
        exact ⟨by simp [ho], hr⟩
      · have hf' : guardFires (seedTy t) gd (argsSeed t c.seed) = false := by simpa using hf
        simp only [hf', Bool.false_eq_true, if_false]
        exact ⟨ho, hr⟩
    · simp [hk] at ht
  | headerCmdline pre =>
    simp only [taintStep] at ht
    split at ht
    · cases ht
    · cases ht
      exact ⟨by simp [stepEv, ho], hr⟩
  | output how =>
    simp [taintStep] at ht; subst ht
    exact ⟨ho, hr⟩

theorem runFrom_rel (g : Gen S) (t : ToolPhases) (c : RunCmd) (s : Int) (hs : c.seed = some s)
    (h₁ h₂ : Hidden S) (evs : List Ev) : ∀ (det : Bool) (a b : St S), Rel det a b →
    taintFrom t det evs = true → runFrom g t c h₁ evs a = runFrom g t c h₂ evs b := by
  induction evs with
  | nil => intro det a b hrel _; exact hrel.1
  | cons e es ih =>
    intro det a b hrel ht
    simp only [runFrom]
    by_cases ho : isOutput e = true
    · simp only [ho, if_true]; exact hrel.1
    · have ho' : isOutput e = false := by simpa using ho
      simp only [ho', Bool.false_eq_true, if_false]
      simp only [taintFrom, ho', Bool.false_eq_true, if_false] at ht
      cases hst : taintStep t det e with
      | none => simp [hst] at ht
      | some det' =>
        simp only [hst] at ht
        exact ih det' _ _ (stepEv_rel g t c s hs h₁ h₂ det det' e a b hrel hst) ht

theorem init_rel (c : RunCmd) (hobj : c.printsObject = false) (h₁ h₂ : Hidden S) :
    Rel false (St.init c h₁) (St.init c h₂) := by
  refine ⟨?_, fun h => by simp at h⟩
  simp [St.init, hobj]

end Cnfgen.Cli

namespace Cnfgen.Cli
open Cnfgen.GenPh
variable {S : Type}

/-! ### the header entry `random seed` -/

/-- effect of one event on `header['random seed']` -/
def hdrStep (t : ToolPhases) (c : RunCmd) (acc : Option Int) : Ev → Option Int
  | .headerSeed gd _ => if guardFires (seedTy t) gd (argsSeed t c.seed) then argsSeed t c.seed else acc
  | _ => acc

theorem drawLater_headerSeed (g : Gen S) (k : Nat) (st : St S) :
    (st.drawLater g k).obs.headerSeed = st.obs.headerSeed := by
  simp [St.drawLater]

theorem stepEv_hdr (g : Gen S) (t : ToolPhases) (c : RunCmd) (h : Hidden S) (st : St S) (e : Ev) :
    (stepEv g t c h st e).obs.headerSeed = hdrStep t c st.obs.headerSeed e := by
  cases e with
  | parse call => simp [stepEv, hdrStep]
  | seed gd a =>
    simp only [stepEv, hdrStep]
    split
    · split <;> rfl
    · rfl
  | draw callee => simp [stepEv, hdrStep, drawLater_headerSeed]
  | readInput call => simp [stepEv, hdrStep]
  | build call => simp [stepEv, hdrStep, drawLater_headerSeed]
  | transforms call => simp [stepEv, hdrStep, drawLater_headerSeed]
  | shuffle => simp [stepEv, hdrStep, drawLater_headerSeed]
  | headerSeed gd v =>
    simp only [stepEv, hdrStep]
    split <;> rfl
  | headerCmdline pre => simp [stepEv, hdrStep]
  | output how => simp [stepEv, hdrStep]

theorem runFrom_hdr (g : Gen S) (t : ToolPhases) (c : RunCmd) (h : Hidden S) (evs : List Ev) :
    ∀ st : St S, (runFrom g t c h evs st).headerSeed =
      (evs.takeWhile (fun e => !isOutput e)).foldl (hdrStep t c) st.obs.headerSeed := by
  induction evs with
  | nil => intro st; rfl
  | cons e es ih =>
    intro st
    simp only [runFrom]
    by_cases ho : isOutput e = true
    · simp [ho, List.takeWhile]
    · have ho' : isOutput e = false := by simpa using ho
      simp only [ho', Bool.false_eq_true, if_false, List.takeWhile, Bool.not_false, List.foldl_cons]
      rw [ih, stepEv_hdr]

theorem foldl_hdr_filter (t : ToolPhases) (c : RunCmd) (evs : List Ev) :
    ∀ acc, evs.foldl (hdrStep t c) acc = (evs.filter isHeaderSeed).foldl (hdrStep t c) acc := by
  induction evs with
  | nil => intro acc; rfl
  | cons e es ih =>
    intro acc
    cases e <;> simp [List.filter, isHeaderSeed, hdrStep, ih]

end Cnfgen.Cli
