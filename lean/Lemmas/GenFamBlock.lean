/-
Lemmas for the translated family generators that use blocks of any shape (`new_block(N, C)`): creation, full index,
row projection; `PyF.lits`; `positive_int` / `positive_int_seq` of localtypes.py.
-/
import Lemmas.GenFamRphp
import Props.C11.GeneratedCall
set_option linter.unusedSimpArgs false
namespace Cnfgen.GenFam
open Cnfgen Cnfgen.Vars Cnfgen.PyGen Cnfgen.GenVars Cnfgen.PyF Cnfgen.C11

/-- `new_block(*ranges, label=…)` with non-negative ranges and a label that formats -/
theorem new_block_eq (s : FState) (nv : Nat) (hs : s.numvar = nv) (ranges : List Nat) (hne : ranges ≠ []) :
    VariablesManager.new_block s (ints ranges) (Except.ok ()) =
      Except.ok (blockSelf nv ranges, { s with numvar := ((nv + blockSize ranges : Nat) : Int) }) := by
  unfold VariablesManager.new_block
  rw [hs, gen_block_init_eq]
  have hne' : ints ranges ≠ [] := by
    cases ranges with
    | nil => exact absurd rfl hne
    | cons a l => simp [ints]
  have hneg : ¬ (List.any (ints ranges) (· < 0) = true) := by
    simp only [ints, List.any_map, List.any_eq_true, not_exists, not_and]
    intro x _; simp
  have hmap : (ints ranges).map Int.toNat = ranges := by
    simp only [ints, List.map_map]
    conv => rhs; rw [← List.map_id ranges]
    apply List.map_congr_left; intro x _; simp
  simp only [Py.tryExcept, hne', if_false, hneg, Py.ok_bind, hmap, Bool.false_eq_true]
  rw [add_variable_group_block_eq s nv _ hs, Py.ok_bind]

/-- `X(i, c)` on a two-dimensional block -/
theorem block_call_two (nv N C i c : Nat) (hi : 1 ≤ i ∧ i ≤ N) (hc : 1 ≤ c ∧ c ≤ C) :
    BlockOfVariables.call (blockSelf nv [N, C]) [some (i : Int), some (c : Int)] =
      Except.ok (Sum.inl ((blockId (nv + 1) [N, C] [i, c] : Nat) : Int)) := by
  rw [gen_block_call_eq_model]
  have hl : LegalIdx [N, C] [i, c] := by simp [LegalIdx, hi, hc]
  have := (block_call_full (nv + 1) [N, C] "" (idx := [i, c]) (by simp)).1 hl
  simp only [Group.call, natPat, List.map_cons, List.map_nil] at this
  rw [this]
  rfl

/-- `X(i, None)` on a two-dimensional block: the row of `i` -/
theorem block_call_row2 (nv N C i : Nat) (hi : 1 ≤ i ∧ i ≤ N) :
    BlockOfVariables.call (blockSelf nv [N, C]) [some (i : Int), none] =
      Except.ok (Sum.inr ((rangeN 1 (C + 1)).map (fun c => ((blockId (nv + 1) [N, C] [i, c] : Nat) : Int)))) := by
  rw [gen_block_call_eq_model]
  have hi' : (1 : Int) ≤ (i : Int) ∧ (i : Int) ≤ (N : Int) := by omega
  simp [Group.baseCall, Group.indices, blockIndices, isProjection, hi', product, resSum, Group.unsafeId, ints,
    bind, Except.bind, pure, Except.pure, List.mapM_cons, List.mapM_nil, Function.comp_def]
  generalize rangeN 1 (C + 1) = l
  induction l with
  | nil => rfl
  | cons a l ih => simp [ih]

theorem gen_positive_int_eq (v : Int) (name : String) :
    positive_int v name = if v < 1 then Except.error Err.valueError else Except.ok () := by
  simp [positive_int]

theorem positive_seq_loop (l : List Int) :
    List.foldlM (fun (_ : Unit) (v : Int) => if v < 1 then Except.error Err.valueError else Except.ok ()) () l =
      if l.any (· < 1) = true then Except.error Err.valueError else Except.ok () := by
  induction l with
  | nil => rfl
  | cons a l ih =>
    rw [List.foldlM_cons]
    by_cases h : a < 1
    · simp [h, bind, Except.bind]
    · simp only [h, if_false, Py.ok_bind, ih, List.any_cons, decide_false, Bool.false_or]

theorem gen_positive_int_seq_eq (v : List Int) (name : String) :
    positive_int_seq v name = if v.any (· < 1) = true then Except.error Err.valueError else Except.ok () := by
  unfold positive_int_seq
  rw [Py.foldlM_ext _ (fun (_ : Unit) (v : Int) => if v < 1 then Except.error Err.valueError else Except.ok ())
    (by intro s a; rfl), positive_seq_loop]
  by_cases h : v.any (· < 1) = true <;> simp [h]

end Cnfgen.GenFam
